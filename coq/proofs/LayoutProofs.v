(* LayoutProofs.v — C10, lexer half: a token list rendered under any separating layout
   lexes back to the same (kind, payload, owned) list, without diagnostics.  *)
From Coq Require Import ZArith List Bool Arith Lia.
Require Import NS.theories.Utf8 NS.theories.GenLexer NS.theories.Lexer NS.theories.Layout.
Import ListNotations.
Open Scope nat_scope.

(* ------------------------------------------------------------------ tactics *)

Ltac bsplit :=
  repeat match goal with
         | H : _ && _ = true |- _ => apply andb_prop in H; destruct H
         end.

Ltac zprop :=
  repeat rewrite ?orb_true_iff, ?orb_false_iff, ?andb_true_iff, ?andb_false_iff,
    ?negb_true_iff, ?negb_false_iff, ?Z.eqb_eq, ?Z.eqb_neq, ?Z.leb_le, ?Z.leb_gt in *.

Ltac zb :=
  unfold start_byte_ok, raw_byte_ok in *;
  unfold is_word_byte, is_alnum_us in *; unfold is_alpha_us in *;
  unfold is_ws, is_digit, is_alpha, is_nl, is_cont, is_ascii in *; unfold in_range in *;
  zprop; lia.

(* ------------------------------------------------------------------ byte classes *)

Lemma tok_eqb_eq : forall a b, tok_eqb a b = true -> a = b.
Proof. intros a b H; destruct a; destruct b; try reflexivity; discriminate H. Qed.

Lemma bytes_eqb_eq : forall a b, bytes_eqb a b = true -> a = b.
Proof.
  induction a as [|x a IH]; intros [|y b] H; cbn [bytes_eqb] in H; try discriminate; [reflexivity|].
  bsplit. apply Z.eqb_eq in H. subst y. f_equal. apply IH. assumption.
Qed.

Lemma words_eqb_eq : forall a b, words_eqb a b = true -> a = b.
Proof.
  induction a as [|x a IH]; intros [|y b] H; cbn [words_eqb] in H; try discriminate; [reflexivity|].
  bsplit. apply bytes_eqb_eq in H. subst y. f_equal. apply IH. assumption.
Qed.

Lemma alnum_is_word : forall b, is_alnum_us b = is_word_byte b.
Proof.
  intro b. unfold is_alnum_us, is_word_byte, is_alpha_us.
  destruct (is_alpha b), (is_digit b), (b =? 95)%Z; reflexivity.
Qed.

Lemma forallb_alnum_word : forall l, forallb is_alnum_us l = forallb is_word_byte l.
Proof. induction l as [|b l IH]; cbn [forallb]; [reflexivity|]. rewrite alnum_is_word, IH. reflexivity. Qed.

Lemma alpha_us_word : forall b, is_alpha_us b = true -> is_word_byte b = true.
Proof. intros b H. unfold is_word_byte. rewrite H. reflexivity. Qed.

Lemma word_byte_cases : forall b, is_word_byte b = true -> is_ws b = false /\ (b =? 35)%Z = false /\ is_cont b = false.
Proof. intros b H. repeat split; zb. Qed.

Lemma ws_not_word : forall b, is_ws b = true -> is_word_byte b = false /\ is_cont b = false /\ (b =? 46)%Z = false /\ is_alpha_us b = false /\ is_digit b = false.
Proof. intros b H. repeat split; zb. Qed.

Lemma hash_not_word : is_word_byte 35%Z = false /\ is_cont 35%Z = false /\ is_ws 35%Z = false.
Proof. repeat split; reflexivity. Qed.

(* ------------------------------------------------------------------ list helpers *)

Lemma skip_while_app : forall p a b pos,
  forallb p a = true ->
  match b with x :: _ => p x = false | [] => True end ->
  skip_while p (a ++ b) pos = {| c_rest := b; c_pos := pos + length a |}.
Proof.
  intros p a; induction a as [|x a IH]; intros b pos Ha Hb.
  - cbn [app length]. rewrite Nat.add_0_r. destruct b as [|y b]; cbn [skip_while]; [reflexivity|].
    rewrite Hb. reflexivity.
  - cbn [forallb] in Ha. bsplit. cbn [app skip_while length]. rewrite H. rewrite IH by assumption.
    f_equal. lia.
Qed.

Lemma skip_while_rest_drop : forall r pos, c_rest (skip_while is_ws r pos) = drop_ws r.
Proof.
  induction r as [|b r IH]; intro pos; cbn [skip_while drop_ws]; [reflexivity|].
  destruct (is_ws b); [apply IH|reflexivity].
Qed.

Lemma memchr2_skip : forall a b r t,
  forallb (fun x => negb ((x =? a)%Z || (x =? b)%Z)) r = true ->
  memchr2 a b (r ++ t) = length r + memchr2 a b t.
Proof.
  intros a b r t; induction r as [|x r IH]; intro H; cbn [app length]; [reflexivity|].
  cbn [forallb] in H. bsplit. cbn [memchr2]. apply negb_true_iff in H. rewrite H.
  rewrite IH by assumption. reflexivity.
Qed.

Lemma memchr2_hit : forall a b x t, ((x =? a)%Z || (x =? b)%Z) = true -> memchr2 a b (x :: t) = 0.
Proof. intros a b x t H. cbn [memchr2]. rewrite H. reflexivity. Qed.

Lemma memchr2_le : forall a b h, memchr2 a b h <= length h.
Proof. intros a b h; induction h as [|x h IH]; cbn [memchr2 length]; [lia|]. destruct ((x =? a)%Z || (x =? b)%Z); lia. Qed.

Lemma memchr2_none : forall a b r,
  forallb (fun x => negb ((x =? a)%Z || (x =? b)%Z)) r = true -> memchr2 a b r = length r.
Proof.
  intros a b r H. rewrite <- (app_nil_r r) at 1. rewrite memchr2_skip by assumption. cbn [memchr2]. lia.
Qed.

(* the head of a list is not a UTF-8 continuation byte (or the list is empty) *)
Definition bhead (l : bytes) : Prop := match l with b :: _ => is_cont b = false | [] => True end.

Lemma is_boundary_app : forall pre x, bhead x -> is_boundary (pre ++ x) (length pre) = true.
Proof.
  intros pre x H. unfold is_boundary. destruct x as [|b x].
  - rewrite app_nil_r, Nat.eqb_refl, orb_true_r. reflexivity.
  - replace (nth_error (pre ++ b :: x) (length pre)) with (Some b).
    + cbn [bhead] in H. rewrite H. cbn [negb]. apply orb_true_r.
    + rewrite nth_error_app2 by lia. rewrite Nat.sub_diag. reflexivity.
Qed.

Lemma slice_mid : forall pre mid post,
  bhead (mid ++ post) -> bhead post ->
  slice (pre ++ mid ++ post) (length pre) (length pre + length mid) = Some mid.
Proof.
  intros pre mid post H1 H2. unfold slice.
  assert (Hb1 : is_boundary (pre ++ mid ++ post) (length pre) = true) by (apply is_boundary_app; assumption).
  assert (Hb2 : is_boundary (pre ++ mid ++ post) (length pre + length mid) = true).
  { rewrite app_assoc. rewrite <- app_length. apply is_boundary_app. assumption. }
  rewrite Hb1, Hb2.
  replace (length pre <=? length pre + length mid) with true by (symmetry; apply Nat.leb_le; lia).
  replace (length pre + length mid <=? length (pre ++ mid ++ post)) with true
    by (symmetry; apply Nat.leb_le; rewrite !app_length; lia).
  cbn [andb]. f_equal.
  replace (length pre + length mid - length pre) with (length mid) by lia.
  rewrite skipn_app, skipn_all, Nat.sub_diag. cbn [skipn app].
  rewrite firstn_app, firstn_all, Nat.sub_diag. cbn [firstn]. apply app_nil_r.
Qed.

(* ------------------------------------------------------------------ next_token, one step *)

Lemma nt_ws : forall f v s b r p, is_ws b = true ->
  next_token (S f) v s {| c_rest := b :: r; c_pos := p |} =
  next_token (S f) v s {| c_rest := r; c_pos := S p |}.
Proof.
  intros f v s b r p H. cbn [next_token]. unfold skip_whitespace. cbn [c_rest c_pos skip_while].
  rewrite H. reflexivity.
Qed.

Lemma nt_ws_run : forall f v s g r p, forallb is_ws g = true ->
  next_token (S f) v s {| c_rest := g ++ r; c_pos := p |} =
  next_token (S f) v s {| c_rest := r; c_pos := p + length g |}.
Proof.
  intros f v s g; induction g as [|b g IH]; intros r p H; cbn [app length].
  - rewrite Nat.add_0_r. reflexivity.
  - cbn [forallb] in H. bsplit. rewrite nt_ws by assumption. rewrite IH by assumption. f_equal. f_equal. lia.
Qed.

Lemma nt_eof : forall f v s p,
  next_token (S f) v s {| c_rest := []; c_pos := p |} =
  Ok ({| t_kind := TEOF; t_payload := []; t_owned := false; t_start := p; t_end := p |},
      {| c_rest := []; c_pos := p |}, []).
Proof. intros. reflexivity. Qed.

(* the dispatch on the first byte of a token *)
Lemma nt_dispatch : forall f v s b r p, is_ws b = false ->
  next_token (S f) v s {| c_rest := b :: r; c_pos := p |} =
  let c1 := {| c_rest := b :: r; c_pos := p |} in
  if (b =? 35)%Z then next_token f v s (skip_comment c1)
  else if mem_z b quote_bytes then finish p (scan_string v s p b c1)
  else
    match assoc_z b punct_table with
    | Some k => finish p (Ok (k, [], false, adv1 c1, []))
    | None =>
        if is_digit b then finish p (scan_number v s p c1 (next_token f v s))
        else if is_alpha_us b then finish p (scan_identifier_or_keyword s p c1)
        else if negb (is_ascii b) then
          let w := char_width b in
          if (w =? 0) || (length (c_rest c1) <? w) then LexPanic PNonAsciiChars p
          else prepend_diag (mk_diag EUnexpectedChar 0 p (p + w)) (next_token f v s (advn w c1))
        else prepend_diag (mk_diag EUnexpectedChar 0 p p) (next_token f v s (adv1 c1))
    end.
Proof.
  intros f v s b r p H. cbn [next_token]. unfold skip_whitespace. cbn [c_rest c_pos skip_while].
  rewrite H. reflexivity.
Qed.

(* ------------------------------------------------------------------ separators *)

Fixpoint n_comments (sp : list sep_elem) : nat :=
  match sp with
  | [] => 0
  | SWs _ :: sp' => n_comments sp'
  | SComment _ _ :: sp' => S (n_comments sp')
  end.

Lemma n_comments_le : forall sp, n_comments sp <= length (sep_text sp).
Proof.
  induction sp as [|[b|body nl] sp IH]; cbn [n_comments sep_text sep_elem_text length app]; try lia.
  rewrite app_length. cbn [length]. lia.
Qed.

Lemma skip_comment_body : forall body nl r p,
  forallb (fun b => negb (is_nl b)) body = true -> is_nl nl = true ->
  skip_comment {| c_rest := 35%Z :: body ++ nl :: r; c_pos := p |} =
  {| c_rest := r; c_pos := p + length (35%Z :: body ++ [nl]) |}.
Proof.
  intros body nl r p Hb Hn. unfold skip_comment. cbn [c_rest].
  assert (Hm : memchr2 10 13 (35%Z :: body ++ nl :: r) = S (length body)).
  { change (35%Z :: body ++ nl :: r) with ((35%Z :: body) ++ nl :: r).
    rewrite memchr2_skip.
    - rewrite memchr2_hit by exact Hn. cbn [length]. lia.
    - cbn [forallb]. apply andb_true_intro. split; [reflexivity|]. exact Hb. }
  rewrite Hm. unfold advn. cbn [c_rest c_pos skipn].
  replace (skipn (length body) (body ++ nl :: r)) with (nl :: r)
    by (rewrite skipn_app, skipn_all, Nat.sub_diag; reflexivity).
  rewrite Hn. unfold adv1. cbn [c_rest c_pos tl]. f_equal. cbn [length]. rewrite app_length. cbn [length]. lia.
Qed.

Lemma skip_comment_eof : forall body p,
  forallb (fun b => negb (is_nl b)) body = true ->
  skip_comment {| c_rest := 35%Z :: body; c_pos := p |} =
  {| c_rest := []; c_pos := p + length (35%Z :: body) |}.
Proof.
  intros body p Hb. unfold skip_comment. cbn [c_rest].
  assert (Hm : memchr2 10 13 (35%Z :: body) = length (35%Z :: body)).
  { apply memchr2_none. cbn [forallb]. apply andb_true_intro. split; [reflexivity|]. exact Hb. }
  rewrite Hm. unfold advn. cbn [c_rest c_pos]. rewrite skipn_all. reflexivity.
Qed.

(* whitespace and comments in front of a token are skipped; each comment costs one unit of fuel *)
Lemma nt_skip_sep : forall sp f v s r p,
  forallb sep_elem_ok sp = true ->
  next_token (S (n_comments sp + f)) v s {| c_rest := sep_text sp ++ r; c_pos := p |} =
  next_token (S f) v s {| c_rest := r; c_pos := p + length (sep_text sp) |}.
Proof.
  induction sp as [|e sp IH]; intros f v s r p H.
  - cbn [n_comments sep_text app length]. rewrite Nat.add_0_r. reflexivity.
  - cbn [forallb] in H. bsplit. destruct e as [b|body nl]; cbn [sep_elem_ok] in H.
    + cbn [n_comments sep_text sep_elem_text app]. rewrite nt_ws by assumption.
      rewrite IH by assumption. f_equal. f_equal. cbn [length]. lia.
    + bsplit. cbn [n_comments sep_text sep_elem_text]. rewrite <- app_assoc. cbn [app].
      rewrite <- app_assoc. cbn [app].
      change (S (S (n_comments sp) + f)) with (S (S (n_comments sp + f))).
      rewrite nt_dispatch by reflexivity. cbv zeta.
      change ((35 =? 35)%Z) with true. cbv iota.
      rewrite skip_comment_body by assumption. rewrite IH by assumption.
      f_equal. f_equal. cbn [length]. rewrite !app_length. cbn [length]. lia.
Qed.

(* ------------------------------------------------------------------ one token: expected result *)

Definition expect (k : tok) (payload : bytes) (o : bool) (p n : nat) (follow : bytes)
  : outcome (token * cursor * list diag) :=
  Ok ({| t_kind := k; t_payload := payload; t_owned := o; t_start := p; t_end := p + n |},
      {| c_rest := follow; c_pos := p + n |}, []).

(* right boundary of word-like tokens and numbers: the next byte is no word byte and no
   continuation byte (the scanner re-slices the source there) *)
Definition stops_word (follow : bytes) : Prop :=
  match follow with b :: _ => is_word_byte b = false /\ is_cont b = false | [] => True end.

Lemma stops_word_bhead : forall l, stops_word l -> bhead l.
Proof. intros [|b l] H; [exact I|]. destruct H as [_ H]. exact H. Qed.

Lemma alpha_dispatch : forall b, is_alpha_us b = true ->
  is_ws b = false /\ (b =? 35)%Z = false /\ mem_z b quote_bytes = false /\
  assoc_z b punct_table = None /\ is_digit b = false /\ is_cont b = false.
Proof.
  intros b H. refine (conj _ (conj _ (conj _ (conj _ (conj _ _))))); try zb.
  - unfold quote_bytes. cbn [mem_z]. zb.
  - unfold punct_table. cbn [assoc_z].
    repeat match goal with
           | |- context [(b =? ?c)%Z] => destruct (Z.eqb_spec b c) as [e|_]; [exfalso; subst b; discriminate H|]
           end.
    reflexivity.
Qed.

Lemma digit_dispatch : forall b, is_digit b = true ->
  is_ws b = false /\ (b =? 35)%Z = false /\ mem_z b quote_bytes = false /\
  assoc_z b punct_table = None /\ is_cont b = false.
Proof.
  intros b H. refine (conj _ (conj _ (conj _ (conj _ _)))); try zb.
  - unfold quote_bytes. cbn [mem_z]. zb.
  - unfold punct_table. cbn [assoc_z].
    repeat match goal with
           | |- context [(b =? ?c)%Z] => destruct (Z.eqb_spec b c) as [e|_]; [exfalso; subst b; discriminate H|]
           end.
    reflexivity.
Qed.

Lemma word_ok_inv : forall w, word_ok w = true ->
  exists b t, w = b :: t /\ is_alpha_us b = true /\ forallb is_word_byte w = true.
Proof.
  intros [|b t] H; cbn [word_ok] in H; [discriminate|]. bsplit. exists b, t.
  refine (conj eq_refl (conj H _)). cbn [forallb]. rewrite (alpha_us_word _ H), H0. reflexivity.
Qed.

Lemma read_word : forall w follow p, forallb is_word_byte w = true -> stops_word follow ->
  skip_while is_word_byte (w ++ follow) p = {| c_rest := follow; c_pos := p + length w |}.
Proof.
  intros w follow p Hw Hf. apply skip_while_app; [assumption|].
  destruct follow as [|x follow]; [exact I|]. destruct Hf as [Hf _]. exact Hf.
Qed.

(* ------------------------------------------------------------------ punctuation *)

Lemma nt_punct : forall f v s b k follow p,
  start_byte_ok b = true -> mem_z b quote_bytes = false -> assoc_z b punct_table = Some k ->
  next_token (S f) v s {| c_rest := b :: follow; c_pos := p |} = expect k [] false p 1 follow.
Proof.
  intros f v s b k follow p Hs Hq Hp. unfold start_byte_ok in Hs. bsplit.
  apply negb_true_iff in H, H1. rewrite nt_dispatch by assumption. cbv zeta.
  rewrite H1, Hq, Hp. unfold expect, finish, mk_token, adv1. cbn [c_rest c_pos tl].
  replace (p + 1) with (S p) by lia. reflexivity.
Qed.

(* ------------------------------------------------------------------ words *)

(* what scan_identifier_or_keyword does after read_word, as a function of the word *)
Lemma nt_word : forall f v pre w follow,
  word_ok w = true -> stops_word follow ->
  next_token (S f) v (pre ++ w ++ follow) {| c_rest := w ++ follow; c_pos := length pre |} =
  finish (length pre)
    (let c1 := {| c_rest := follow; c_pos := length pre + length w |} in
     match assoc_bytes w multi_table with
     | Some alts =>
         match try_alternatives c1 alts with
         | Some (k, c2) => Ok (k, [], false, c2, [])
         | None => Ok (TIdentifier, w, false, c1, [])
         end
     | None =>
         match assoc_bytes w keyword_table with
         | Some k => Ok (k, [], false, c1, [])
         | None => Ok (TIdentifier, w, false, c1, ident_diags w (length pre) (c_pos c1))
         end
     end).
Proof.
  intros f v pre w follow Hw Hf.
  destruct (word_ok_inv _ Hw) as (b & t & -> & Hb & Hall).
  destruct (alpha_dispatch _ Hb) as (H1 & H2 & H3 & H4 & H5 & H6).
  cbn [app]. rewrite nt_dispatch by assumption. cbv zeta. rewrite H2, H3, H4, H5, Hb.
  f_equal. unfold scan_identifier_or_keyword. cbn [c_rest c_pos].
  change (b :: t ++ follow) with ((b :: t) ++ follow).
  rewrite read_word by assumption. cbn [c_pos].
  rewrite slice_mid; [reflexivity| cbn [app bhead]; assumption | apply stops_word_bhead; assumption].
Qed.

Lemma ident_diags_ok : forall w a b, word_ok w = true -> ident_diags w a b = [].
Proof.
  intros [|x t] a b H; cbn [word_ok] in H; [discriminate|]. bsplit. cbn [ident_diags].
  rewrite H, forallb_alnum_word, H0. reflexivity.
Qed.

Lemma nt_kw : forall f v pre k w follow,
  kw_word k = Some w -> tk_ok (KKw k) = true -> stops_word follow ->
  next_token (S f) v (pre ++ w ++ follow) {| c_rest := w ++ follow; c_pos := length pre |} =
  expect k [] false (length pre) (length w) follow.
Proof.
  intros f v pre k w follow Hk Hok Hf. cbn [tk_ok] in Hok. rewrite Hk in Hok. bsplit.
  rewrite nt_word by assumption. cbv zeta.
  destruct (assoc_bytes w multi_table); [discriminate|].
  destruct (assoc_bytes w keyword_table) as [k'|]; [|discriminate].
  apply tok_eqb_eq in H0. subst k'. reflexivity.
Qed.

Lemma nt_ident_plain : forall f v pre w follow,
  word_ok w = true -> assoc_bytes w multi_table = None -> assoc_bytes w keyword_table = None ->
  stops_word follow ->
  next_token (S f) v (pre ++ w ++ follow) {| c_rest := w ++ follow; c_pos := length pre |} =
  expect TIdentifier w false (length pre) (length w) follow.
Proof.
  intros f v pre w follow Hw Hm Hk Hf. rewrite nt_word by assumption. cbv zeta.
  rewrite Hm, Hk. rewrite ident_diags_ok by assumption. reflexivity.
Qed.

(* ------------------------------------------------------------------ the look-ahead *)

Lemma strip_prefix_app : forall w r, strip_prefix w (w ++ r) = Some r.
Proof. induction w as [|x w IH]; intro r; cbn [app strip_prefix]; [reflexivity|]. rewrite Z.eqb_refl. apply IH. Qed.

(* a continuation word behind a whitespace run is consumed when no letter follows it *)
Lemma try_consume_hit : forall g w r p,
  forallb is_ws g = true -> word_ok w = true ->
  match r with b :: _ => is_alpha_us b = false | [] => True end ->
  try_consume_word {| c_rest := g ++ w ++ r; c_pos := p |} w =
  Some {| c_rest := r; c_pos := p + length g + length w |}.
Proof.
  intros g w r p Hg Hw Hr. unfold try_consume_word, skip_whitespace. cbn [c_rest c_pos].
  destruct (word_ok_inv _ Hw) as (b & t & -> & Hb & _).
  rewrite skip_while_app; [|assumption|].
  - cbn [c_rest c_pos]. rewrite strip_prefix_app. destruct r as [|x r]; [reflexivity|].
    rewrite Hr. reflexivity.
  - cbn [app]. destruct (alpha_dispatch _ Hb) as (H1 & _). exact H1.
Qed.

(* the look-ahead fails at once when the first non-blank byte is not the word's first byte *)
Lemma try_consume_miss : forall c b t,
  match first_nonws (c_rest c) with Some h => (b =? h)%Z = false | None => True end ->
  try_consume_word c (b :: t) = None.
Proof.
  intros [r p] b t H. unfold try_consume_word, skip_whitespace. cbn [c_rest c_pos] in *.
  unfold first_nonws in H. rewrite <- (skip_while_rest_drop r p) in H.
  destruct (c_rest (skip_while is_ws r p)) as [|h r']; cbn [strip_prefix]; [reflexivity|].
  rewrite H. reflexivity.
Qed.

Lemma try_alternatives_guard : forall alts c,
  alts_guard (first_nonws (c_rest c)) alts = true -> try_alternatives c alts = None.
Proof.
  induction alts as [|[ws k] alts IH]; intros c H; [reflexivity|].
  unfold alts_guard in H. cbn [forallb fst] in H. bsplit.
  destruct ws as [|[|b t] ws]; try discriminate H.
  cbn [try_alternatives consume_seq]. rewrite try_consume_miss.
  - apply IH. exact H0.
  - destruct (first_nonws (c_rest c)) as [h|]; [|exact I]. apply negb_true_iff. exact H.
Qed.

Lemma nt_ident_multi : forall f v pre w alts follow,
  word_ok w = true -> assoc_bytes w multi_table = Some alts ->
  alts_guard (first_nonws follow) alts = true -> stops_word follow ->
  next_token (S f) v (pre ++ w ++ follow) {| c_rest := w ++ follow; c_pos := length pre |} =
  expect TIdentifier w false (length pre) (length w) follow.
Proof.
  intros f v pre w alts follow Hw Hm Hg Hf. rewrite nt_word by assumption. cbv zeta.
  rewrite Hm. rewrite try_alternatives_guard by (cbn [c_rest]; assumption). reflexivity.
Qed.

(* consuming gap0 word0 gap1 word1 ... *)
Lemma consume_seq_weave : forall words gaps r p,
  length gaps = length words -> forallb ws_run_ok gaps = true -> forallb word_ok words = true ->
  match r with b :: _ => is_alpha_us b = false | [] => True end ->
  consume_seq {| c_rest := weave gaps words ++ r; c_pos := p |} words =
  ({| c_rest := r; c_pos := p + length (weave gaps words) |}, true).
Proof.
  induction words as [|w words IH]; intros gaps r p Hl Hg Hw Hr.
  - destruct gaps; [|discriminate Hl]. cbn [weave app consume_seq length]. rewrite Nat.add_0_r. reflexivity.
  - destruct gaps as [|g gaps]; [discriminate Hl|]. cbn [length] in Hl. injection Hl as Hl.
    cbn [forallb] in Hg, Hw. bsplit. cbn [weave consume_seq].
    rewrite <- !app_assoc.
    assert (Hgw : forallb is_ws g = true) by (destruct g; [discriminate|assumption]).
    rewrite try_consume_hit; try assumption.
    + rewrite IH by assumption. f_equal. f_equal. rewrite !app_length. lia.
    + (* what follows this word: the next gap (whitespace) or r *)
      destruct gaps as [|g' gaps'].
      * destruct words; [|discriminate Hl]. cbn [weave app]. exact Hr.
      * destruct words as [|w' words']; [discriminate Hl|]. cbn [weave forallb] in *. bsplit.
        destruct g' as [|x g']; [discriminate|]. cbn [forallb app] in *. bsplit.
        cbn [ws_run_ok forallb] in H2. bsplit.
        destruct (ws_not_word x) as (_ & _ & _ & Ha & _); assumption.
Qed.

Lemma try_alternatives_sel : forall alts h k words wt c c',
  alt_sel h k words alts = true -> words = (h :: wt) :: tl words ->
  first_nonws (c_rest c) = Some h ->
  consume_seq c words = (c', true) ->
  try_alternatives c alts = Some (k, c').
Proof.
  induction alts as [|[ws k'] alts IH]; intros h k words wt c c' Hs Hw Hf Hc; [discriminate Hs|].
  cbn [alt_sel] in Hs. cbn [try_alternatives].
  destruct (tok_eqb k' k) eqn:Ek.
  - apply tok_eqb_eq in Ek. apply words_eqb_eq in Hs. subst ws k'. rewrite Hc. reflexivity.
  - destruct ws as [|[|b t] ws]; try discriminate Hs. bsplit.
    cbn [consume_seq]. rewrite try_consume_miss.
    + eapply IH; eassumption.
    + rewrite Hf. apply negb_true_iff. exact H.
Qed.

Lemma first_nonws_run : forall g x, forallb is_ws g = true -> first_nonws (g ++ x) = first_nonws x.
Proof.
  unfold first_nonws. induction g as [|b g IH]; intros x H; [reflexivity|].
  cbn [forallb] in H. bsplit. cbn [app drop_ws]. rewrite H. apply IH. assumption.
Qed.

Lemma nt_multi : forall f v pre k w words inner follow,
  multi_find k multi_table = Some (w, words) -> tk_ok (KMulti k) = true ->
  inner_ok (KMulti k) inner = true ->
  match follow with b :: _ => is_alpha_us b = false | [] => True end ->
  next_token (S f) v (pre ++ (w ++ weave inner words) ++ follow)
    {| c_rest := (w ++ weave inner words) ++ follow; c_pos := length pre |} =
  expect k [] false (length pre) (length (w ++ weave inner words)) follow.
Proof.
  intros f v pre k w words inner follow Hm Hok Hin Hf.
  cbn [tk_ok] in Hok. rewrite Hm in Hok. cbn [inner_ok] in Hin. rewrite Hm in Hin. bsplit.
  apply Nat.eqb_eq in H.
  destruct (assoc_bytes w multi_table) as [alts|] eqn:Ea; [|discriminate].
  destruct words as [|[|h wt] words]; try discriminate.
  destruct inner as [|g inner]; [discriminate H|].
  assert (Hgw : ws_run_ok g = true) by (cbn [forallb] in H0; bsplit; assumption).
  assert (Hgne : exists x g', g = x :: g' /\ is_ws x = true).
  { destruct g as [|x g']; [discriminate|]. cbn [ws_run_ok forallb] in Hgw. bsplit. eauto. }
  destruct Hgne as (x & g' & -> & Hx).
  rewrite <- app_assoc.
  rewrite nt_word; [|assumption|].
  2:{ cbn [weave app stops_word]. destruct (ws_not_word _ Hx) as (Hx1 & Hx2 & _). split; assumption. }
  cbv zeta. rewrite Ea.
  assert (Hc : consume_seq {| c_rest := weave ((x :: g') :: inner) ((h :: wt) :: words) ++ follow;
                              c_pos := length pre + length w |} ((h :: wt) :: words) =
               ({| c_rest := follow;
                   c_pos := length pre + length w + length (weave ((x :: g') :: inner) ((h :: wt) :: words)) |}, true))
    by (apply consume_seq_weave; assumption).
  assert (Hfirst : first_nonws (weave ((x :: g') :: inner) ((h :: wt) :: words) ++ follow) = Some h).
  { cbn [weave]. rewrite <- !app_assoc. rewrite first_nonws_run by (cbn [ws_run_ok] in Hgw; exact Hgw).
    cbn [app]. unfold first_nonws. cbn [drop_ws].
    assert (Hwh : word_ok (h :: wt) = true) by (cbn [forallb] in H3; bsplit; assumption).
    destruct (word_ok_inv _ Hwh) as (b & t & E & Hb & _).
    injection E as -> ->. destruct (alpha_dispatch _ Hb) as (Hws & _). rewrite Hws. reflexivity. }
  match goal with
  | |- finish _ (match try_alternatives ?c0 ?a0 with _ => _ end) = _ =>
      assert (Ht : try_alternatives c0 a0 = Some (k, {| c_rest := follow;
                                   c_pos := length pre + length w +
                                            length (weave ((x :: g') :: inner) ((h :: wt) :: words)) |}))
        by exact (try_alternatives_sel alts h k ((h :: wt) :: words) wt c0 _ H2 eq_refl Hfirst Hc);
      rewrite Ht
  end.
  unfold expect, finish, mk_token. cbn [c_pos]. rewrite app_length, Nat.add_assoc. reflexivity.
Qed.

(* ------------------------------------------------------------------ numbers *)

Lemma scan_number_eq : forall v s start c k,
  scan_number v s start c k =
  let c1 := skip_while is_digit (c_rest c) (c_pos c) in
  match c_rest c1 with
  | h :: t =>
      if (h =? 46)%Z then
        let c2 := {| c_rest := t; c_pos := S (c_pos c1) |} in
        if negb (is_digit (head_or_zero t)) then
          let d := mk_diag EInvalidNumber 0 start (c_pos c2) in
          let c3 := if v_skip_byte_after_bad_dot v then adv1 c2 else c2 in
          match k c3 with
          | Ok (t', c4, ds) => Ok (t_kind t', t_payload t', t_owned t', c4, d :: ds)
          | LexPanic site p => LexPanic site p
          | OutOfFuel => OutOfFuel
          end
        else scan_number_suffix s start (skip_while is_digit (c_rest c2) (c_pos c2))
      else scan_number_suffix s start c1
  | [] => scan_number_suffix s start c1
  end.
Proof.
  intros v s start c k. unfold scan_number. cbv zeta.
  destruct (c_rest (skip_while is_digit (c_rest c) (c_pos c))) as [|h t]; [reflexivity|].
  first [ reflexivity
        | destruct (Z.eqb_spec h 46) as [->|Hn]; [reflexivity|];
          destruct h as [|q|q]; try reflexivity;
          repeat (destruct q as [q|q|]; try reflexivity);
          exfalso; apply Hn; reflexivity ].
Qed.

Lemma digits_ok_inv : forall d, digits_ok d = true ->
  exists b t, d = b :: t /\ is_digit b = true /\ forallb is_digit d = true.
Proof. intros [|b t] H; cbn [digits_ok] in H; [discriminate|]. exists b, t. cbn [forallb] in *. bsplit. rewrite H, H0. auto. Qed.

Lemma stops_word_digit : forall l, stops_word l -> match l with x :: _ => is_digit x = false | [] => True end.
Proof. intros [|x l] H; [exact I|]. destruct H as [H _]. zb. Qed.

Lemma stops_word_alpha : forall l, stops_word l -> is_alpha_us (head_or_zero l) = false.
Proof. intros [|x l] H; [reflexivity|]. destruct H as [H _]. cbn [head_or_zero]. zb. Qed.

Lemma scan_number_suffix_ok : forall pre num follow,
  bhead (num ++ follow) -> stops_word follow ->
  scan_number_suffix (pre ++ num ++ follow) (length pre) {| c_rest := follow; c_pos := length pre + length num |} =
  Ok (TNumber, num, false, {| c_rest := follow; c_pos := length pre + length num |}, []).
Proof.
  intros pre num follow Hb Hf. unfold scan_number_suffix. cbn [c_rest c_pos].
  rewrite stops_word_alpha by assumption.
  rewrite slice_mid; [reflexivity|assumption|apply stops_word_bhead; assumption].
Qed.

Lemma nt_number : forall f v pre i fr follow,
  tk_ok (KNumber i fr) = true -> stops_word follow ->
  (fr = None -> match follow with b :: _ => (b =? 46)%Z = false | [] => True end) ->
  next_token (S f) v (pre ++ number_text i fr ++ follow)
    {| c_rest := number_text i fr ++ follow; c_pos := length pre |} =
  expect TNumber (number_text i fr) false (length pre) (length (number_text i fr)) follow.
Proof.
  intros f v pre i fr follow Hok Hf Hdot. cbn [tk_ok] in Hok. bsplit.
  destruct (digits_ok_inv _ H) as (b & t & Ei & Hb & Hall).
  destruct (digit_dispatch _ Hb) as (H1 & H2 & H3 & H4 & H5).
  assert (Hhead : exists rest, number_text i fr ++ follow = b :: rest).
  { subst i. destruct fr; cbn [number_text app]; eauto. }
  destruct Hhead as (rest & Hrest). rewrite Hrest at 2. rewrite nt_dispatch by assumption. cbv zeta.
  rewrite H2, H3, H4, Hb. rewrite <- Hrest. rewrite scan_number_eq. cbv zeta. cbn [c_rest c_pos].
  unfold expect, finish, mk_token.
  destruct fr as [d|]; cbn [number_text].
  - (* integer part, dot, fraction *)
    destruct (digits_ok_inv _ H0) as (x & d' & Ed & Hx & Hdall).
    rewrite <- app_assoc. rewrite skip_while_app; [|assumption| cbn [app]; reflexivity].
    cbn [c_rest c_pos app]. change ((46 =? 46)%Z) with true. cbv iota.
    replace (head_or_zero (d ++ follow)) with x by (subst d; reflexivity). rewrite Hx. cbn [negb].
    rewrite skip_while_app; [|assumption| apply stops_word_digit; assumption].
    replace (pre ++ i ++ 46%Z :: d ++ follow) with (pre ++ (i ++ 46%Z :: d) ++ follow)
      by (rewrite <- app_assoc; reflexivity).
    replace (S (length pre + length i) + length d) with (length pre + length (i ++ 46%Z :: d))
      by (rewrite app_length; cbn [length]; lia).
    rewrite scan_number_suffix_ok; [reflexivity| |assumption].
    subst i. cbn [app bhead]. assumption.
  - rewrite skip_while_app; [|assumption| apply stops_word_digit; assumption].
    cbn [c_rest c_pos]. specialize (Hdot eq_refl).
    assert (Hsuf : scan_number_suffix (pre ++ i ++ follow) (length pre) {| c_rest := follow; c_pos := length pre + length i |} =
                   Ok (TNumber, i, false, {| c_rest := follow; c_pos := length pre + length i |}, [])).
    { apply scan_number_suffix_ok; [|assumption]. subst i. cbn [app bhead]. assumption. }
    destruct follow as [|h fl]; [rewrite Hsuf; reflexivity|]. rewrite Hdot. rewrite Hsuf. reflexivity.
Qed.

(* ------------------------------------------------------------------ strings *)

Lemma forallb_imp : forall (A : Type) (p q : A -> bool) l,
  (forall x, p x = true -> q x = true) -> forallb p l = true -> forallb q l = true.
Proof.
  intros A p q l Hpq; induction l as [|x l IH]; intro H; [reflexivity|].
  cbn [forallb] in *. bsplit. rewrite (Hpq _ H), IH by assumption. reflexivity.
Qed.

Lemma raw_no_quote : forall q r, raw_ok q r = true ->
  forallb (fun x => negb ((x =? q)%Z || (x =? 92)%Z)) r = true.
Proof.
  intros q r H. unfold raw_ok in H. bsplit. eapply forallb_imp; [|eassumption].
  intros x Hx. unfold raw_byte_ok in Hx. apply andb_prop in Hx. destruct Hx as [Hx _].
  apply andb_prop in Hx. destruct Hx as [Ha Hb]. apply negb_true_iff in Ha, Hb. rewrite Ha, Hb. reflexivity.
Qed.

Lemma raw_no_nl : forall q r, raw_ok q r = true ->
  forallb (fun x => negb ((x =? 10)%Z || (x =? 13)%Z)) r = true.
Proof.
  intros q r H. unfold raw_ok in H. bsplit. eapply forallb_imp; [|eassumption].
  intros x Hx. unfold raw_byte_ok in Hx. apply andb_prop in Hx. destruct Hx as [_ Hx]. exact Hx.
Qed.

Lemma raw_bhead : forall q r x, raw_ok q r = true -> bhead x -> bhead (r ++ x).
Proof.
  intros q [|b r] x H Hx; [exact Hx|]. unfold raw_ok in H. bsplit. cbn [app bhead].
  apply negb_true_iff. assumption.
Qed.

(* the slice that scan_string copies in front of an escape or the closing quote *)
Lemma string_segment : forall pre r x,
  bhead (r ++ x) -> bhead x ->
  (if length pre <? length pre + length r
   then slice (pre ++ r ++ x) (length pre) (length pre + length r) else Some []) = Some r.
Proof.
  intros pre r x H1 H2. destruct r as [|b r].
  - cbn [length]. rewrite Nat.add_0_r, Nat.ltb_irrefl. reflexivity.
  - replace (length pre <? length pre + length (b :: r)) with true
      by (symmetry; apply Nat.ltb_lt; cbn [length]; lia).
    apply slice_mid; assumption.
Qed.

Lemma segs_text_length : forall segs, length segs <= length (segs_text segs).
Proof.
  induction segs as [|[r e] segs IH]; cbn [segs_text length]; [lia|]. rewrite app_length. cbn [length]. lia.
Qed.

Lemma ssl_tail : forall segs fuel v pre start beg q buf last post,
  buf <> [] -> length segs < fuel ->
  (q =? 92)%Z = false -> is_cont q = false ->
  forallb (fun re => raw_ok q (fst re) && is_some (escape_lookup q (snd re))) segs = true ->
  raw_ok q last = true ->
  scan_string_loop fuel v (pre ++ segs_text segs ++ last ++ q :: post) start beg q
    {| c_rest := segs_text segs ++ last ++ q :: post; c_pos := length pre |} true buf =
  Ok (TString, buf ++ segs_payload q segs ++ last, true,
      {| c_rest := post; c_pos := length pre + length (segs_text segs ++ last ++ [q]) |}, []).
Proof.
  induction segs as [|[r e] segs IH]; intros fuel v pre start beg q buf last post Hbuf Hfuel Hq92 Hqc Hsegs Hlast;
    (destruct fuel as [|fuel]; [lia|]).
  - cbn [segs_text segs_payload app]. cbn [scan_string_loop]. cbn [c_rest c_pos].
    rewrite (memchr2_skip q 92) by (apply raw_no_quote; assumption).
    rewrite (memchr2_hit q 92) by (rewrite Z.eqb_refl; reflexivity).
    rewrite (memchr2_skip 10 13) by (eapply raw_no_nl; eassumption).
    replace (length last + memchr2 10 13 (q :: post) <? length last + 0) with false
      by (symmetry; apply Nat.ltb_ge; lia).
    replace (length last + 0 =? length (last ++ q :: post)) with false
      by (symmetry; apply Nat.eqb_neq; rewrite app_length; cbn [length]; lia).
    rewrite Nat.add_0_r.
    replace (skipn (length last) (last ++ q :: post)) with (q :: post)
      by (rewrite skipn_app, skipn_all, Nat.sub_diag; reflexivity).
    rewrite Z.eqb_refl.
    rewrite string_segment; [| eapply raw_bhead; [eassumption|exact Hqc] | exact Hqc].
    replace (length pre + length (last ++ [q])) with (S (length pre + length last))
      by (rewrite app_length; cbn [length]; lia).
    reflexivity.
  - cbn [forallb fst snd] in Hsegs. bsplit. rename H into Hr, H1 into He, H0 into Hsegs.
    destruct (escape_lookup q e) as [pushed|] eqn:Ee; [|discriminate].
    cbn [segs_text segs_payload]. rewrite <- !app_assoc. cbn [app].
    cbn [scan_string_loop]. cbn [c_rest c_pos].
    rewrite (memchr2_skip q 92) by (apply raw_no_quote; assumption).
    rewrite (memchr2_hit q 92) by (rewrite Z.eqb_refl; apply orb_true_r).
    rewrite (memchr2_skip 10 13) by (eapply raw_no_nl; eassumption).
    set (rest := segs_text segs ++ last ++ q :: post).
    replace (length r + memchr2 10 13 (92%Z :: e :: rest) <? length r + 0) with false
      by (symmetry; apply Nat.ltb_ge; lia).
    replace (length r + 0 =? length (r ++ 92%Z :: e :: rest)) with false
      by (symmetry; apply Nat.eqb_neq; rewrite app_length; cbn [length]; lia).
    rewrite Nat.add_0_r.
    replace (skipn (length r) (r ++ 92%Z :: e :: rest)) with (92%Z :: e :: rest)
      by (rewrite skipn_app, skipn_all, Nat.sub_diag; reflexivity).
    replace ((92 =? q)%Z) with false by (symmetry; rewrite Z.eqb_sym; exact Hq92).
    change ((92 =? 92)%Z) with true. cbv iota.
    rewrite string_segment; [| eapply raw_bhead; [eassumption|reflexivity] | reflexivity].
    destruct buf as [|b0 buf]; [contradiction Hbuf; reflexivity|].
    rewrite Ee.
    replace (pre ++ r ++ 92%Z :: e :: rest) with ((pre ++ r ++ [92%Z; e]) ++ rest)
      by (rewrite <- !app_assoc; reflexivity).
    replace (length pre + length r + 2) with (length (pre ++ r ++ [92%Z; e]))
      by (rewrite !app_length; cbn [length]; lia).
    unfold rest. rewrite IH; try assumption.
    + unfold esc_value. rewrite Ee.
      replace ((((b0 :: buf) ++ r) ++ [pushed]) ++ segs_payload q segs ++ last)
        with ((b0 :: buf) ++ r ++ pushed :: segs_payload q segs ++ last)
        by (rewrite <- !app_assoc; reflexivity).
      replace (length (pre ++ r ++ [92%Z; e]) + length (segs_text segs ++ last ++ [q]))
        with (length pre + length (r ++ 92%Z :: e :: segs_text segs ++ last ++ [q]))
        by (rewrite !app_length; cbn [length]; rewrite !app_length; cbn [length]; lia).
      reflexivity.
    + destruct ((b0 :: buf) ++ r); discriminate.
    + cbn [length] in Hfuel. lia.
Qed.

Lemma nt_string : forall f v pre q segs last follow,
  tk_ok (KString q segs last) = true ->
  next_token (S f) v (pre ++ (q :: segs_text segs ++ last ++ [q]) ++ follow)
    {| c_rest := (q :: segs_text segs ++ last ++ [q]) ++ follow; c_pos := length pre |} =
  expect TString (segs_payload q segs ++ last) (match segs with [] => false | _ :: _ => true end)
    (length pre) (length (q :: segs_text segs ++ last ++ [q])) follow.
Proof.
  intros f v pre q segs last follow Hok. cbn [tk_ok] in Hok. bsplit.
  rename H into Hs, H3 into Hq, H2 into Hq92, H1 into Hsegs, H0 into Hlast.
  unfold start_byte_ok in Hs. bsplit. apply negb_true_iff in H, H1, H0, Hq92.
  cbn [app]. rewrite nt_dispatch by assumption. cbv zeta. rewrite H1, Hq.
  unfold expect, finish. unfold scan_string, adv1. cbn [c_rest c_pos tl].
  rewrite <- !app_assoc. cbn [app].
  destruct segs as [|[r e] segs].
  - (* no escape: the payload is the slice between the quotes *)
    cbn [segs_text app]. cbn [scan_string_loop]. cbn [c_rest c_pos].
    rewrite (memchr2_skip q 92) by (apply raw_no_quote; assumption).
    rewrite (memchr2_hit q 92) by (rewrite Z.eqb_refl; reflexivity).
    rewrite (memchr2_skip 10 13) by (eapply raw_no_nl; eassumption).
    replace (length last + memchr2 10 13 (q :: follow) <? length last + 0) with false
      by (symmetry; apply Nat.ltb_ge; lia).
    replace (length last + 0 =? length (last ++ q :: follow)) with false
      by (symmetry; apply Nat.eqb_neq; rewrite app_length; cbn [length]; lia).
    rewrite Nat.add_0_r.
    replace (skipn (length last) (last ++ q :: follow)) with (q :: follow)
      by (rewrite skipn_app, skipn_all, Nat.sub_diag; reflexivity).
    rewrite Z.eqb_refl.
    replace (pre ++ q :: last ++ q :: follow) with ((pre ++ [q]) ++ last ++ q :: follow)
      by (rewrite <- app_assoc; reflexivity).
    replace (S (length pre)) with (length (pre ++ [q])) by (rewrite app_length; cbn [length]; lia).
    rewrite slice_mid; [| eapply raw_bhead; [eassumption|exact H0] | exact H0].
    unfold mk_token. cbn [c_pos segs_payload app].
    replace (S (length (pre ++ [q]) + length last)) with (length pre + length (q :: last ++ [q]))
      by (cbn [length]; rewrite !app_length; cbn [length]; lia).
    reflexivity.
  - (* first escape: the buffer is filled from the opening quote, then ssl_tail *)
    cbn [forallb fst snd] in Hsegs. bsplit. rename H2 into Hr, H4 into He, H3 into Hsegs.
    destruct (escape_lookup q e) as [pushed|] eqn:Ee; [|discriminate].
    cbn [segs_text segs_payload]. rewrite <- !app_assoc. cbn [app].
    cbn [scan_string_loop]. cbn [c_rest c_pos].
    rewrite (memchr2_skip q 92) by (apply raw_no_quote; assumption).
    rewrite (memchr2_hit q 92) by (rewrite Z.eqb_refl; apply orb_true_r).
    rewrite (memchr2_skip 10 13) by (eapply raw_no_nl; eassumption).
    set (rest := segs_text segs ++ last ++ q :: follow).
    replace (length r + memchr2 10 13 (92%Z :: e :: rest) <? length r + 0) with false
      by (symmetry; apply Nat.ltb_ge; lia).
    replace (length r + 0 =? length (r ++ 92%Z :: e :: rest)) with false
      by (symmetry; apply Nat.eqb_neq; rewrite app_length; cbn [length]; lia).
    rewrite Nat.add_0_r.
    replace (skipn (length r) (r ++ 92%Z :: e :: rest)) with (92%Z :: e :: rest)
      by (rewrite skipn_app, skipn_all, Nat.sub_diag; reflexivity).
    replace ((92 =? q)%Z) with false by (symmetry; rewrite Z.eqb_sym; exact Hq92).
    change ((92 =? 92)%Z) with true. cbv iota.
    replace (pre ++ q :: r ++ 92%Z :: e :: rest) with ((pre ++ [q]) ++ r ++ 92%Z :: e :: rest)
      by (rewrite <- app_assoc; reflexivity).
    replace (S (length pre)) with (length (pre ++ [q])) by (rewrite app_length; cbn [length]; lia).
    rewrite slice_mid; [| eapply raw_bhead; [eassumption|reflexivity] | reflexivity].
    rewrite Ee. cbn [app].
    replace ((pre ++ [q]) ++ r ++ 92%Z :: e :: rest) with ((pre ++ q :: r ++ [92%Z; e]) ++ rest)
      by (rewrite <- !app_assoc; cbn [app]; rewrite <- !app_assoc; reflexivity).
    replace (length (pre ++ [q]) + length r + 2) with (length (pre ++ q :: r ++ [92%Z; e]))
      by (rewrite !app_length; cbn [length]; rewrite !app_length; cbn [length]; lia).
    unfold rest. rewrite ssl_tail; try assumption.
    + unfold mk_token. cbn [c_pos]. unfold esc_value. rewrite Ee.
      replace ((r ++ [pushed]) ++ segs_payload q segs ++ last) with (r ++ pushed :: segs_payload q segs ++ last)
        by (rewrite <- !app_assoc; reflexivity).
      replace (length (pre ++ q :: r ++ [92%Z; e]) + length (segs_text segs ++ last ++ [q]))
        with (length pre + length (q :: r ++ 92%Z :: e :: segs_text segs ++ last ++ [q]))
        by (cbn [length]; rewrite !app_length; cbn [length]; rewrite !app_length; cbn [length]; lia).
      reflexivity.
    + destruct r; discriminate.
    + pose proof (segs_text_length segs). rewrite !app_length. cbn [length]. rewrite !app_length. lia.
Qed.

(* ------------------------------------------------------------------ any token *)

Definition right_ok (t : tk) (follow : bytes) : Prop :=
  match t with
  | KKw _ => stops_word follow
  | KIdent _ => stops_word follow /\ guard t follow = true
  | KMulti _ => match follow with b :: _ => is_alpha_us b = false | [] => True end
  | KNumber _ None => stops_word follow /\ match follow with b :: _ => (b =? 46)%Z = false | [] => True end
  | KNumber _ (Some _) => stops_word follow
  | KPunct _ | KString _ _ _ => True
  end.

Definition expect_tk (t : tk) (p n : nat) (follow : bytes) :=
  expect (fst (fst (tk_tok t))) (snd (fst (tk_tok t))) (snd (tk_tok t)) p n follow.

Lemma nt_tk : forall f v pre t inner follow,
  tk_ok t = true -> inner_ok t inner = true -> right_ok t follow ->
  next_token (S f) v (pre ++ tk_text t inner ++ follow)
    {| c_rest := tk_text t inner ++ follow; c_pos := length pre |} =
  expect_tk t (length pre) (length (tk_text t inner)) follow.
Proof.
  intros f v pre t inner follow Hok Hin Hr. unfold expect_tk.
  destruct t as [k|k|w|i fr|k|q segs last]; cbn [tk_text tk_tok fst snd right_ok] in *.
  - destruct (kw_word k) as [w|] eqn:Ek; [|cbn [tk_ok] in Hok; rewrite Ek in Hok; discriminate].
    apply nt_kw; assumption.
  - destruct (multi_find k multi_table) as [[w words]|] eqn:Em; [|cbn [tk_ok] in Hok; rewrite Em in Hok; discriminate].
    apply nt_multi; assumption.
  - destruct Hr as [Hs Hg]. cbn [tk_ok] in Hok. bsplit. unfold guard in Hg.
    destruct (assoc_bytes w multi_table) as [alts|] eqn:Em.
    + eapply nt_ident_multi; eassumption.
    + apply nt_ident_plain; try assumption. destruct (assoc_bytes w keyword_table); [discriminate|reflexivity].
  - destruct fr as [d|].
    + apply nt_number; [assumption|assumption|discriminate].
    + destruct Hr as [Hs Hd]. apply nt_number; [assumption|assumption|intros _; exact Hd].
  - cbn [tk_ok] in Hok. destruct (punct_byte k) as [b|] eqn:Ep; [|discriminate]. bsplit.
    destruct (assoc_z b punct_table) as [k'|] eqn:Ea; [|discriminate]. apply tok_eqb_eq in H0. subst k'.
    cbn [app length]. apply nt_punct; [assumption| apply negb_true_iff; assumption | assumption].
  - apply nt_string. assumption.
Qed.

(* every token text begins with a byte that is not whitespace, `#` or a continuation byte *)
Lemma tk_text_head : forall t inner, tk_ok t = true ->
  exists h r, tk_text t inner = h :: r /\ start_byte_ok h = true.
Proof.
  intros t inner Hok.
  assert (Hword : forall w x, word_ok w = true -> exists h r, w ++ x = h :: r /\ start_byte_ok h = true).
  { intros w x Hw. destruct (word_ok_inv _ Hw) as (b & t' & -> & Hb & _). exists b, (t' ++ x).
    split; [reflexivity|]. destruct (alpha_dispatch _ Hb) as (H1 & H2 & _ & _ & _ & H6).
    unfold start_byte_ok. rewrite H1, H2, H6. reflexivity. }
  destruct t as [k|k|w|i fr|k|q segs last]; cbn [tk_text tk_ok] in *.
  - destruct (kw_word k) as [w|]; [|discriminate]. bsplit.
    destruct (Hword w [] H) as (h & r & E & Hh). rewrite app_nil_r in E. eauto.
  - destruct (multi_find k multi_table) as [[w words]|]; [|discriminate]. bsplit. apply Hword. assumption.
  - bsplit. destruct (Hword w [] H) as (h & r & E & Hh). rewrite app_nil_r in E. eauto.
  - bsplit. destruct (digits_ok_inv _ H) as (b & t' & -> & Hb & _).
    destruct (digit_dispatch _ Hb) as (H1 & H2 & _ & _ & H5).
    exists b. destruct fr; cbn [number_text app]; eexists; (split; [reflexivity|]);
      unfold start_byte_ok; rewrite H1, H2, H5; reflexivity.
  - destruct (punct_byte k) as [b|]; [|discriminate]. bsplit. eauto.
  - bsplit. eauto.
Qed.

Lemma tk_not_eof : forall t, tk_ok t = true -> tok_eqb (fst (fst (tk_tok t))) TEOF = false.
Proof.
  intros t H. destruct t as [k|k|w|i fr|k|q segs last]; cbn [tk_tok fst snd]; try reflexivity;
    destruct k; try reflexivity; vm_compute in H; discriminate H.
Qed.

(* ------------------------------------------------------------------ from [separating] to the right boundary *)

Lemma start_byte_bhead : forall h r, start_byte_ok h = true -> bhead (h :: r).
Proof. intros h r H. unfold start_byte_ok in H. bsplit. cbn [bhead]. apply negb_true_iff. assumption. Qed.

Lemma sep_text_head : forall e sp x, sep_elem_ok e = true ->
  exists h r, sep_text (e :: sp) ++ x = h :: r /\ (is_ws h = true \/ h = 35%Z).
Proof.
  intros [b|body nl] sp x H; cbn [sep_text sep_elem_text sep_elem_ok app] in *.
  - eauto.
  - exists 35%Z. eexists. split; [rewrite <- app_assoc; cbn [app]; reflexivity|]. right. reflexivity.
Qed.

Lemma ws_or_hash_props : forall h, (is_ws h = true \/ h = 35%Z) ->
  is_word_byte h = false /\ is_cont h = false /\ (h =? 46)%Z = false /\ is_alpha_us h = false.
Proof.
  intros h [H| ->].
  - destruct (ws_not_word _ H) as (A & B & C & D & _). auto.
  - repeat split; reflexivity.
Qed.

Lemma gap_right_ok : forall t after rest,
  forallb sep_elem_ok after = true -> bhead rest -> gap_ok t after rest = true ->
  right_ok t (sep_text after ++ rest).
Proof.
  intros t after rest Hsep Hb Hg. unfold gap_ok in Hg. apply andb_prop in Hg. destruct Hg as [Hfuse Hguard].
  assert (Hstop : (match after with [] => match rest with h :: _ => fuses t h = false | [] => True end | _ => True end)).
  { destruct after; [|exact I]. destruct rest; [exact I|]. apply negb_true_iff. exact Hfuse. }
  clear Hfuse.
  destruct after as [|e after].
  - cbn [sep_text app] in *. destruct rest as [|h rest].
    + destruct t as [k|k|w|i fr|k|q segs last]; cbn [right_ok stops_word]; auto. destruct fr; cbn; auto.
    + cbn [bhead] in Hb.
      destruct t as [k|k|w|i fr|k|q segs last]; cbn [right_ok stops_word fuses] in *; auto.
      destruct fr; [auto|]. apply orb_false_iff in Hstop. destruct Hstop. auto.
  - cbn [forallb] in Hsep. bsplit.
    destruct (sep_text_head e after rest H) as (h & r & E & Hh). rewrite E in *.
    destruct (ws_or_hash_props _ Hh) as (A & B & C & D).
    destruct t as [k|k|w|i fr|k|q segs last]; cbn [right_ok stops_word]; auto. destruct fr; auto.
Qed.

Lemma render_slots_bhead : forall ts sls x,
  forallb tk_ok ts = true -> bhead x -> bhead (render_slots ts sls ++ x).
Proof.
  intros [|t ts] sls x Hok Hx; [exact Hx|]. destruct sls as [|sl sls]; [exact Hx|].
  cbn [forallb] in Hok. bsplit. cbn [render_slots].
  destruct (tk_text_head t (s_inner sl) H) as (h & r & E & Hh). rewrite E. cbn [app].
  eapply start_byte_bhead. eassumption.
Qed.

(* ------------------------------------------------------------------ the token stream *)

Definition tail_ok (tail : option bytes) : bool :=
  match tail with Some body => forallb (fun b => negb (is_nl b)) body | None => true end.

Lemma tail_bhead : forall tail, bhead (tail_text tail).
Proof. intros [body|]; cbn [tail_text bhead]; [reflexivity|exact I]. Qed.

Lemma nt_tail : forall f v s tail p, tail_ok tail = true ->
  next_token (S (length (tail_text tail) + f)) v s {| c_rest := tail_text tail; c_pos := p |} =
  Ok ({| t_kind := TEOF; t_payload := []; t_owned := false;
         t_start := p + length (tail_text tail); t_end := p + length (tail_text tail) |},
      {| c_rest := []; c_pos := p + length (tail_text tail) |}, []).
Proof.
  intros f v s [body|] p H; cbn [tail_text tail_ok] in *.
  - cbn [length]. change (S (S (length body) + f)) with (S (S (length body + f))).
    rewrite nt_dispatch by reflexivity. cbv zeta. change ((35 =? 35)%Z) with true. cbv iota.
    rewrite skip_comment_eof by assumption. apply nt_eof.
  - cbn [length]. rewrite Nat.add_0_r. apply nt_eof.
Qed.

Lemma lex_loop_render : forall ts sls sp pre fuel v tail,
  forallb tk_ok ts = true -> slots_ok ts sls = true -> forallb sep_elem_ok sp = true ->
  tail_ok tail = true -> separating_slots ts sls (tail_text tail) = true ->
  length ts < fuel ->
  exists toks,
    lex_loop fuel v (pre ++ sep_text sp ++ render_slots ts sls ++ tail_text tail)
      {| c_rest := sep_text sp ++ render_slots ts sls ++ tail_text tail; c_pos := length pre |} =
    Ok (toks, [], length (pre ++ sep_text sp ++ render_slots ts sls ++ tail_text tail)) /\
    map kpo toks = map tk_tok ts.
Proof.
  induction ts as [|t ts IH]; intros sls sp pre fuel v tail Hok Hsl Hsp Htail Hsep Hfuel;
    (destruct fuel as [|fuel]; [lia|]).
  - exists []. split; [|reflexivity]. cbn [render_slots app]. cbn [lex_loop]. unfold token_fuel. cbn [c_rest].
    pose proof (n_comments_le sp) as Hn.
    replace (S (length (sep_text sp ++ tail_text tail)))
      with (S (n_comments sp + (length (tail_text tail) + (length (sep_text sp) - n_comments sp))))
      by (rewrite app_length; lia).
    rewrite nt_skip_sep by assumption.
    rewrite nt_tail by assumption.
    unfold is_eof. cbn [t_kind c_pos]. change (tok_eqb TEOF TEOF) with true. cbn [andb].
    replace (length (pre ++ sep_text sp ++ tail_text tail) <=? length pre + length (sep_text sp) + length (tail_text tail))
      with true by (symmetry; apply Nat.leb_le; rewrite !app_length; lia).
    f_equal. f_equal. rewrite !app_length. lia.
  - destruct sls as [|sl sls]; [discriminate Hsl|].
    cbn [forallb] in Hok. cbn [slots_ok] in Hsl. cbn [separating_slots] in Hsep. bsplit.
    rename H4 into Htk, H0 into Hoks, H3 into Hinner, H5 into Hafter, H2 into Hsls, H into Hgap, H1 into Hseps.
    cbn [render_slots]. rewrite <- !app_assoc.
    set (follow := sep_text (s_after sl) ++ render_slots ts sls ++ tail_text tail).
    set (txt := tk_text t (s_inner sl)).
    assert (Hright : right_ok t follow).
    { unfold follow. apply gap_right_ok; try assumption.
      apply render_slots_bhead; [assumption|apply tail_bhead]. }
    replace (txt ++ sep_text (s_after sl) ++ render_slots ts sls ++ tail_text tail) with (txt ++ follow) by reflexivity.
    cbn [lex_loop]. unfold token_fuel. cbn [c_rest].
    pose proof (n_comments_le sp) as Hn.
    replace (S (length (sep_text sp ++ txt ++ follow)))
      with (S (n_comments sp + (length (sep_text sp ++ txt ++ follow) - n_comments sp)))
      by (rewrite app_length; lia).
    rewrite nt_skip_sep by assumption.
    replace (pre ++ sep_text sp ++ txt ++ follow) with ((pre ++ sep_text sp) ++ txt ++ follow)
      by (rewrite <- app_assoc; reflexivity).
    replace (length pre + length (sep_text sp)) with (length (pre ++ sep_text sp)) by (rewrite app_length; reflexivity).
    unfold txt. rewrite nt_tk by assumption. fold txt.
    unfold expect_tk, expect. unfold is_eof. cbn [t_kind]. rewrite tk_not_eof by assumption. cbn [andb].
    destruct (IH sls (s_after sl) ((pre ++ sep_text sp) ++ txt) fuel v tail) as (toks & Hl & Hm); try assumption; [cbn [length] in Hfuel; lia|].
    fold follow in Hl.
    replace (length (pre ++ sep_text sp) + length txt) with (length ((pre ++ sep_text sp) ++ txt))
      by (rewrite (app_length (pre ++ sep_text sp) txt); reflexivity).
    replace ((pre ++ sep_text sp) ++ txt ++ follow) with (((pre ++ sep_text sp) ++ txt) ++ follow)
      by (rewrite <- (app_assoc (pre ++ sep_text sp) txt follow); reflexivity).
    rewrite Hl. eexists. split; [reflexivity|].
    cbn [map]. rewrite Hm. f_equal. unfold kpo. cbn [t_kind t_payload t_owned].
    destruct (tk_tok t) as [[k p] o]. reflexivity.
Qed.

(* ------------------------------------------------------------------ the theorem *)

Lemma render_slots_length : forall ts sls,
  forallb tk_ok ts = true -> slots_ok ts sls = true -> length ts <= length (render_slots ts sls).
Proof.
  induction ts as [|t ts IH]; intros [|sl sls] Hok H; cbn [slots_ok] in H; try discriminate;
    cbn [length render_slots]; [lia|].
  cbn [forallb] in Hok. bsplit. specialize (IH _ H3 H0). rewrite !app_length.
  destruct (tk_text_head t (s_inner sl) H2) as (h & r & E & _). rewrite E. cbn [length]. lia.
Qed.

Theorem lex_render : forall v ts l,
  forallb tk_ok ts = true -> wf_layout ts l = true -> separating ts l = true ->
  lex_view v (render ts l) = Some (map tk_tok ts).
Proof.
  intros v ts l Hok Hwf Hsep. unfold wf_layout in Hwf. bsplit.
  destruct (lex_loop_render ts (l_slots l) (l_lead l) [] (S (length (render ts l))) v (l_tail l))
    as (toks & Hl & Hm); try assumption.
  - pose proof (render_slots_length ts (l_slots l) Hok H1). unfold render. rewrite !app_length. lia.
  - unfold lex_view, lex, start_cursor, render. cbn [app length] in Hl. unfold render in Hl.
    rewrite Hl. rewrite Hm. reflexivity.
Qed.

(* the statement of DESIGN.md section 6, C10: two separating layouts of the same token list are
   indistinguishable after the lexer, and both are exactly the token list *)
Theorem lex_layout_invariant : forall v ts l1 l2,
  forallb tk_ok ts = true ->
  wf_layout ts l1 = true -> separating ts l1 = true ->
  wf_layout ts l2 = true -> separating ts l2 = true ->
  lex_view v (render ts l1) = Some (map tk_tok ts) /\
  lex_view v (render ts l2) = Some (map tk_tok ts).
Proof. intros. split; apply lex_render; assumption. Qed.

(* ------------------------------------------------------------------ separators INSIDE a multi-word keyword
   The layout of [lex_render] has, per token, the whitespace runs between the words of a multi-word keyword
   ([s_inner], constrained only by [inner_ok]: one non-empty run of whitespace bytes per continuation word,
   of ANY length and any mix of space / TAB / LF / FF / CR).  Stated on its own: the keyword, written with
   arbitrary such runs and followed by the end of input, is one token. *)
Theorem multiword_internal_separators : forall v k inner,
  tk_ok (KMulti k) = true -> inner_ok (KMulti k) inner = true ->
  lex_view v (tk_text (KMulti k) inner) = Some [(k, [], false)].
Proof.
  intros v k inner Hok Hin.
  pose (l := {| l_lead := []; l_slots := [ {| s_inner := inner; s_after := [] |} ]; l_tail := None |}).
  assert (E : render [KMulti k] l = tk_text (KMulti k) inner).
  { unfold render, l. cbn [l_lead l_slots l_tail sep_text render_slots s_inner s_after tail_text app].
    rewrite !app_nil_r. reflexivity. }
  rewrite <- E. change [(k, [], false)] with (map tk_tok [KMulti k]).
  apply lex_render.
  - cbn [forallb]. rewrite Hok. reflexivity.
  - unfold wf_layout, l. cbn [l_lead l_slots l_tail forallb slots_ok s_inner s_after]. rewrite Hin. reflexivity.
  - unfold separating, l. cbn [l_slots l_tail separating_slots s_after render_slots tail_text app].
    unfold gap_ok. cbn [guard andb]. reflexivity.
Qed.

(* a whitespace run of any length is admissible *)
Lemma ws_run_ok_repeat : forall b n, is_ws b = true -> ws_run_ok (repeat b (S n)) = true.
Proof.
  intros b n H. cbn [repeat ws_run_ok forallb]. rewrite H. cbn [andb].
  induction n as [|n IH]; cbn [repeat forallb]; [reflexivity|]. rewrite H. exact IH.
Qed.

(* ------------------------------------------------------------------ comment CONTENT
   [wf_layout] asks of a comment only that its text contains no LF / CR ([sep_elem_ok], and the same for the
   last, unterminated comment [l_tail]); the bytes are otherwise arbitrary (any Z: `[`, `]#`, quotes, braces,
   backslashes, NUL, keywords, multi-byte sequences ...).  Stated on their own: *)

(* a comment line with ANY text in front of a program changes nothing *)
Theorem comment_text_is_layout : forall v ts l body nl,
  forallb tk_ok ts = true -> wf_layout ts l = true -> separating ts l = true ->
  forallb (fun b => negb (is_nl b)) body = true -> is_nl nl = true ->
  lex_view v (35%Z :: body ++ nl :: render ts l) = Some (map tk_tok ts).
Proof.
  intros v ts l body nl Hok Hwf Hsep Hb Hn.
  pose (l' := {| l_lead := SComment body nl :: l_lead l; l_slots := l_slots l; l_tail := l_tail l |}).
  assert (E : render ts l' = 35%Z :: body ++ nl :: render ts l).
  { unfold render, l'. cbn [l_lead l_slots l_tail sep_text sep_elem_text app].
    rewrite <- !app_assoc. reflexivity. }
  rewrite <- E. apply lex_render; [assumption| |exact Hsep].
  unfold wf_layout in *. unfold l'. cbn [l_lead l_slots l_tail forallb sep_elem_ok].
  bsplit. rewrite Hb, Hn, H, H1, H0. reflexivity.
Qed.

(* a comment with ANY text that runs to the end of the input is no token either *)
Theorem comment_to_end_of_input : forall v body,
  forallb (fun b => negb (is_nl b)) body = true -> lex_view v (35%Z :: body) = Some [].
Proof.
  intros v body Hb.
  pose (l := {| l_lead := []; l_slots := []; l_tail := Some body |}).
  change (35%Z :: body) with (render [] l). change (@nil (tok * bytes * bool)) with (map tk_tok []).
  apply lex_render; [reflexivity| |reflexivity].
  unfold wf_layout, l. cbn [l_lead l_slots l_tail forallb slots_ok andb]. exact Hb.
Qed.
