(* LayoutProofs.v — C10, lexer half: a token list rendered under any separating layout
   lexes back to the same (kind, payload, owned) list, without diagnostics.  *)
From Coq Require Import ZArith List Bool Arith Lia.
Require Import NS.theories.Utf8 NS.theories.GenLexer NS.theories.Lexer NS.theories.Layout.
Import ListNotations.
Open Scope nat_scope.

(* ------------------------------------------------------------------ tactics *)

Ltac bsplit :=
  repeat match goal with
         | H : _ && _ = true |- _ => apply andb_prop in H; destruct H
         end.

Ltac zprop :=
  repeat rewrite ?orb_true_iff, ?orb_false_iff, ?andb_true_iff, ?andb_false_iff,
    ?negb_true_iff, ?negb_false_iff, ?Z.eqb_eq, ?Z.eqb_neq, ?Z.leb_le, ?Z.leb_gt in *.

Ltac zb :=
  unfold start_byte_ok, raw_byte_ok in *;
  unfold is_word_byte, is_alnum_us in *; unfold is_alpha_us in *;
  unfold is_ws, is_digit, is_alpha, is_nl, is_cont, is_ascii in *; unfold in_range in *;
  zprop; lia.

(* ------------------------------------------------------------------ byte classes *)

Lemma tok_eqb_eq : forall a b, tok_eqb a b = true -> a = b.
Proof. intros a b H; destruct a; destruct b; try reflexivity; discriminate H. Qed.

Lemma bytes_eqb_eq : forall a b, bytes_eqb a b = true -> a = b.
Proof.
  induction a as [|x a IH]; intros [|y b] H; cbn [bytes_eqb] in H; try discriminate; [reflexivity|].
  bsplit. apply Z.eqb_eq in H. subst y. f_equal. apply IH. assumption.
Qed.

Lemma words_eqb_eq : forall a b, words_eqb a b = true -> a = b.
Proof.
  induction a as [|x a IH]; intros [|y b] H; cbn [words_eqb] in H; try discriminate; [reflexivity|].
  bsplit. apply bytes_eqb_eq in H. subst y. f_equal. apply IH. assumption.
Qed.

Lemma alnum_is_word : forall b, is_alnum_us b = is_word_byte b.
Proof.
  intro b. unfold is_alnum_us, is_word_byte, is_alpha_us.
  destruct (is_alpha b), (is_digit b), (b =? 95)%Z; reflexivity.
Qed.

Lemma forallb_alnum_word : forall l, forallb is_alnum_us l = forallb is_word_byte l.
Proof. induction l as [|b l IH]; cbn [forallb]; [reflexivity|]. rewrite alnum_is_word, IH. reflexivity. Qed.

Lemma alpha_us_word : forall b, is_alpha_us b = true -> is_word_byte b = true.
Proof. intros b H. unfold is_word_byte. rewrite H. reflexivity. Qed.

Lemma word_byte_cases : forall b, is_word_byte b = true -> is_ws b = false /\ (b =? 35)%Z = false /\ is_cont b = false.
Proof. intros b H. repeat split; zb. Qed.

Lemma ws_not_word : forall b, is_ws b = true -> is_word_byte b = false /\ is_cont b = false /\ (b =? 46)%Z = false /\ is_alpha_us b = false /\ is_digit b = false.
Proof. intros b H. repeat split; zb. Qed.

Lemma hash_not_word : is_word_byte 35%Z = false /\ is_cont 35%Z = false /\ is_ws 35%Z = false.
Proof. repeat split; reflexivity. Qed.

(* ------------------------------------------------------------------ list helpers *)

Lemma skip_while_app : forall p a b pos,
  forallb p a = true ->
  match b with x :: _ => p x = false | [] => True end ->
  skip_while p (a ++ b) pos = {| c_rest := b; c_pos := pos + length a |}.
Proof.
  intros p a; induction a as [|x a IH]; intros b pos Ha Hb.
  - cbn [app length]. rewrite Nat.add_0_r. destruct b as [|y b]; cbn [skip_while]; [reflexivity|].
    rewrite Hb. reflexivity.
  - cbn [forallb] in Ha. bsplit. cbn [app skip_while length]. rewrite H. rewrite IH by assumption.
    f_equal. lia.
Qed.

Lemma skip_while_rest_drop : forall r pos, c_rest (skip_while is_ws r pos) = drop_ws r.
Proof.
  induction r as [|b r IH]; intro pos; cbn [skip_while drop_ws]; [reflexivity|].
  destruct (is_ws b); [apply IH|reflexivity].
Qed.

Lemma memchr2_skip : forall a b r t,
  forallb (fun x => negb ((x =? a)%Z || (x =? b)%Z)) r = true ->
  memchr2 a b (r ++ t) = length r + memchr2 a b t.
Proof.
  intros a b r t; induction r as [|x r IH]; intro H; cbn [app length]; [reflexivity|].
  cbn [forallb] in H. bsplit. cbn [memchr2]. apply negb_true_iff in H. rewrite H.
  rewrite IH by assumption. reflexivity.
Qed.

Lemma memchr2_hit : forall a b x t, ((x =? a)%Z || (x =? b)%Z) = true -> memchr2 a b (x :: t) = 0.
Proof. intros a b x t H. cbn [memchr2]. rewrite H. reflexivity. Qed.

Lemma memchr2_le : forall a b h, memchr2 a b h <= length h.
Proof. intros a b h; induction h as [|x h IH]; cbn [memchr2 length]; [lia|]. destruct ((x =? a)%Z || (x =? b)%Z); lia. Qed.

Lemma memchr2_none : forall a b r,
  forallb (fun x => negb ((x =? a)%Z || (x =? b)%Z)) r = true -> memchr2 a b r = length r.
Proof.
  intros a b r H. rewrite <- (app_nil_r r) at 1. rewrite memchr2_skip by assumption. cbn [memchr2]. lia.
Qed.

(* the head of a list is not a UTF-8 continuation byte (or the list is empty) *)
Definition bhead (l : bytes) : Prop := match l with b :: _ => is_cont b = false | [] => True end.

Lemma is_boundary_app : forall pre x, bhead x -> is_boundary (pre ++ x) (length pre) = true.
Proof.
  intros pre x H. unfold is_boundary. destruct x as [|b x].
  - rewrite app_nil_r, Nat.eqb_refl, orb_true_r. reflexivity.
  - replace (nth_error (pre ++ b :: x) (length pre)) with (Some b).
    + cbn [bhead] in H. rewrite H. cbn [negb]. apply orb_true_r.
    + rewrite nth_error_app2 by lia. rewrite Nat.sub_diag. reflexivity.
Qed.

Lemma slice_mid : forall pre mid post,
  bhead (mid ++ post) -> bhead post ->
  slice (pre ++ mid ++ post) (length pre) (length pre + length mid) = Some mid.
Proof.
  intros pre mid post H1 H2. unfold slice.
  assert (Hb1 : is_boundary (pre ++ mid ++ post) (length pre) = true) by (apply is_boundary_app; assumption).
  assert (Hb2 : is_boundary (pre ++ mid ++ post) (length pre + length mid) = true).
  { rewrite app_assoc. rewrite <- app_length. apply is_boundary_app. assumption. }
  rewrite Hb1, Hb2.
  replace (length pre <=? length pre + length mid) with true by (symmetry; apply Nat.leb_le; lia).
  replace (length pre + length mid <=? length (pre ++ mid ++ post)) with true
    by (symmetry; apply Nat.leb_le; rewrite !app_length; lia).
  cbn [andb]. f_equal.
  replace (length pre + length mid - length pre) with (length mid) by lia.
  rewrite skipn_app, skipn_all, Nat.sub_diag. cbn [skipn app].
  rewrite firstn_app, firstn_all, Nat.sub_diag. cbn [firstn]. apply app_nil_r.
Qed.

(* ------------------------------------------------------------------ next_token, one step *)

Lemma nt_ws : forall f v s b r p, is_ws b = true ->
  next_token (S f) v s {| c_rest := b :: r; c_pos := p |} =
  next_token (S f) v s {| c_rest := r; c_pos := S p |}.
Proof.
  intros f v s b r p H. cbn [next_token]. unfold skip_whitespace. cbn [c_rest c_pos skip_while].
  rewrite H. reflexivity.
Qed.

Lemma nt_ws_run : forall f v s g r p, forallb is_ws g = true ->
  next_token (S f) v s {| c_rest := g ++ r; c_pos := p |} =
  next_token (S f) v s {| c_rest := r; c_pos := p + length g |}.
Proof.
  intros f v s g; induction g as [|b g IH]; intros r p H; cbn [app length].
  - rewrite Nat.add_0_r. reflexivity.
  - cbn [forallb] in H. bsplit. rewrite nt_ws by assumption. rewrite IH by assumption. f_equal. f_equal. lia.
Qed.

Lemma nt_eof : forall f v s p,
  next_token (S f) v s {| c_rest := []; c_pos := p |} =
  Ok ({| t_kind := TEOF; t_payload := []; t_owned := false; t_start := p; t_end := p |},
      {| c_rest := []; c_pos := p |}, []).
Proof. intros. reflexivity. Qed.

(* the dispatch on the first byte of a token *)
Lemma nt_dispatch : forall f v s b r p, is_ws b = false ->
  next_token (S f) v s {| c_rest := b :: r; c_pos := p |} =
  let c1 := {| c_rest := b :: r; c_pos := p |} in
  if (b =? 35)%Z then next_token f v s (skip_comment c1)
  else if mem_z b quote_bytes then finish p (scan_string v s p b c1)
  else
    match assoc_z b punct_table with
    | Some k => finish p (Ok (k, [], false, adv1 c1, []))
    | None =>
        if is_digit b then finish p (scan_number v s p c1 (next_token f v s))
        else if is_alpha_us b then finish p (scan_identifier_or_keyword s p c1)
        else if negb (is_ascii b) then
          let w := char_width b in
          if (w =? 0) || (length (c_rest c1) <? w) then LexPanic PNonAsciiChars p
          else prepend_diag (mk_diag EUnexpectedChar 0 p (p + w)) (next_token f v s (advn w c1))
        else prepend_diag (mk_diag EUnexpectedChar 0 p p) (next_token f v s (adv1 c1))
    end.
Proof.
  intros f v s b r p H. cbn [next_token]. unfold skip_whitespace. cbn [c_rest c_pos skip_while].
  rewrite H. reflexivity.
Qed.

(* ------------------------------------------------------------------ separators *)

Fixpoint n_comments (sp : list sep_elem) : nat :=
  match sp with
  | [] => 0
  | SWs _ :: sp' => n_comments sp'
  | SComment _ _ :: sp' => S (n_comments sp')
  end.

Lemma n_comments_le : forall sp, n_comments sp <= length (sep_text sp).
Proof.
  induction sp as [|[b|body nl] sp IH]; cbn [n_comments sep_text sep_elem_text length app]; try lia.
  rewrite app_length. cbn [length]. lia.
Qed.

Lemma skip_comment_body : forall body nl r p,
  forallb (fun b => negb (is_nl b)) body = true -> is_nl nl = true ->
  skip_comment {| c_rest := 35%Z :: body ++ nl :: r; c_pos := p |} =
  {| c_rest := r; c_pos := p + length (35%Z :: body ++ [nl]) |}.
Proof.
  intros body nl r p Hb Hn. unfold skip_comment. cbn [c_rest].
  assert (Hm : memchr2 10 13 (35%Z :: body ++ nl :: r) = S (length body)).
  { change (35%Z :: body ++ nl :: r) with ((35%Z :: body) ++ nl :: r).
    rewrite memchr2_skip.
    - rewrite memchr2_hit by exact Hn. cbn [length]. lia.
    - cbn [forallb]. apply andb_true_intro. split; [reflexivity|]. exact Hb. }
  rewrite Hm. unfold advn. cbn [c_rest c_pos skipn].
  replace (skipn (length body) (body ++ nl :: r)) with (nl :: r)
    by (rewrite skipn_app, skipn_all, Nat.sub_diag; reflexivity).
  rewrite Hn. unfold adv1. cbn [c_rest c_pos tl]. f_equal. cbn [length]. rewrite app_length. cbn [length]. lia.
Qed.

Lemma skip_comment_eof : forall body p,
  forallb (fun b => negb (is_nl b)) body = true ->
  skip_comment {| c_rest := 35%Z :: body; c_pos := p |} =
  {| c_rest := []; c_pos := p + length (35%Z :: body) |}.
Proof.
  intros body p Hb. unfold skip_comment. cbn [c_rest].
  assert (Hm : memchr2 10 13 (35%Z :: body) = length (35%Z :: body)).
  { apply memchr2_none. cbn [forallb]. apply andb_true_intro. split; [reflexivity|]. exact Hb. }
  rewrite Hm. unfold advn. cbn [c_rest c_pos]. rewrite skipn_all. reflexivity.
Qed.

(* whitespace and comments in front of a token are skipped; each comment costs one unit of fuel *)
Lemma nt_skip_sep : forall sp f v s r p,
  forallb sep_elem_ok sp = true ->
  next_token (S (n_comments sp + f)) v s {| c_rest := sep_text sp ++ r; c_pos := p |} =
  next_token (S f) v s {| c_rest := r; c_pos := p + length (sep_text sp) |}.
Proof.
  induction sp as [|e sp IH]; intros f v s r p H.
  - cbn [n_comments sep_text app length]. rewrite Nat.add_0_r. reflexivity.
  - cbn [forallb] in H. bsplit. destruct e as [b|body nl]; cbn [sep_elem_ok] in H.
    + cbn [n_comments sep_text sep_elem_text app]. rewrite nt_ws by assumption.
      rewrite IH by assumption. f_equal. f_equal. cbn [length]. lia.
    + bsplit. cbn [n_comments sep_text sep_elem_text]. rewrite <- app_assoc. cbn [app].
      rewrite <- app_assoc. cbn [app].
      change (S (S (n_comments sp) + f)) with (S (S (n_comments sp + f))).
      rewrite nt_dispatch by reflexivity. cbv zeta.
      change ((35 =? 35)%Z) with true. cbv iota.
      rewrite skip_comment_body by assumption. rewrite IH by assumption.
      f_equal. f_equal. cbn [length]. rewrite !app_length. cbn [length]. lia.
Qed.

(* ------------------------------------------------------------------ one token: expected result *)

Definition expect (k : tok) (payload : bytes) (o : bool) (p n : nat) (follow : bytes)
  : outcome (token * cursor * list diag) :=
  Ok ({| t_kind := k; t_payload := payload; t_owned := o; t_start := p; t_end := p + n |},
      {| c_rest := follow; c_pos := p + n |}, []).

(* right boundary of word-like tokens and numbers: the next byte is no word byte and no
   continuation byte (the scanner re-slices the source there) *)
Definition stops_word (follow : bytes) : Prop :=
  match follow with b :: _ => is_word_byte b = false /\ is_cont b = false | [] => True end.

Lemma stops_word_bhead : forall l, stops_word l -> bhead l.
Proof. intros [|b l] H; [exact I|]. destruct H as [_ H]. exact H. Qed.

Lemma alpha_dispatch : forall b, is_alpha_us b = true ->
  is_ws b = false /\ (b =? 35)%Z = false /\ mem_z b quote_bytes = false /\
  assoc_z b punct_table = None /\ is_digit b = false /\ is_cont b = false.
Proof.
  intros b H. refine (conj _ (conj _ (conj _ (conj _ (conj _ _))))); try zb.
  - unfold quote_bytes. cbn [mem_z]. zb.
  - unfold punct_table. cbn [assoc_z].
    repeat match goal with
           | |- context [(b =? ?c)%Z] => destruct (Z.eqb_spec b c) as [e|_]; [exfalso; subst b; discriminate H|]
           end.
    reflexivity.
Qed.

Lemma digit_dispatch : forall b, is_digit b = true ->
  is_ws b = false /\ (b =? 35)%Z = false /\ mem_z b quote_bytes = false /\
  assoc_z b punct_table = None /\ is_cont b = false.
Proof.
  intros b H. refine (conj _ (conj _ (conj _ (conj _ _)))); try zb.
  - unfold quote_bytes. cbn [mem_z]. zb.
  - unfold punct_table. cbn [assoc_z].
    repeat match goal with
           | |- context [(b =? ?c)%Z] => destruct (Z.eqb_spec b c) as [e|_]; [exfalso; subst b; discriminate H|]
           end.
    reflexivity.
Qed.

Lemma word_ok_inv : forall w, word_ok w = true ->
  exists b t, w = b :: t /\ is_alpha_us b = true /\ forallb is_word_byte w = true.
Proof.
  intros [|b t] H; cbn [word_ok] in H; [discriminate|]. bsplit. exists b, t.
  refine (conj eq_refl (conj H _)). cbn [forallb]. rewrite (alpha_us_word _ H), H0. reflexivity.
Qed.

Lemma read_word : forall w follow p, forallb is_word_byte w = true -> stops_word follow ->
  skip_while is_word_byte (w ++ follow) p = {| c_rest := follow; c_pos := p + length w |}.
Proof.
  intros w follow p Hw Hf. apply skip_while_app; [assumption|].
  destruct follow as [|x follow]; [exact I|]. destruct Hf as [Hf _]. exact Hf.
Qed.

(* ------------------------------------------------------------------ punctuation *)

Lemma nt_punct : forall f v s b k follow p,
  start_byte_ok b = true -> mem_z b quote_bytes = false -> assoc_z b punct_table = Some k ->
  next_token (S f) v s {| c_rest := b :: follow; c_pos := p |} = expect k [] false p 1 follow.
Proof.
  intros f v s b k follow p Hs Hq Hp. unfold start_byte_ok in Hs. bsplit.
  apply negb_true_iff in H, H1. rewrite nt_dispatch by assumption. cbv zeta.
  rewrite H1, Hq, Hp. unfold expect, finish, mk_token, adv1. cbn [c_rest c_pos tl].
  replace (p + 1) with (S p) by lia. reflexivity.
Qed.

(* ------------------------------------------------------------------ words *)

(* what scan_identifier_or_keyword does after read_word, as a function of the word *)
Lemma nt_word : forall f v pre w follow,
  word_ok w = true -> stops_word follow ->
  next_token (S f) v (pre ++ w ++ follow) {| c_rest := w ++ follow; c_pos := length pre |} =
  finish (length pre)
    (let c1 := {| c_rest := follow; c_pos := length pre + length w |} in
     match assoc_bytes w multi_table with
     | Some alts =>
         match try_alternatives c1 alts with
         | Some (k, c2) => Ok (k, [], false, c2, [])
         | None => Ok (TIdentifier, w, false, c1, [])
         end
     | None =>
         match assoc_bytes w keyword_table with
         | Some k => Ok (k, [], false, c1, [])
         | None => Ok (TIdentifier, w, false, c1, ident_diags w (length pre) (c_pos c1))
         end
     end).
Proof.
  intros f v pre w follow Hw Hf.
  destruct (word_ok_inv _ Hw) as (b & t & -> & Hb & Hall).
  destruct (alpha_dispatch _ Hb) as (H1 & H2 & H3 & H4 & H5 & H6).
  cbn [app]. rewrite nt_dispatch by assumption. cbv zeta. rewrite H2, H3, H4, H5, Hb.
  f_equal. unfold scan_identifier_or_keyword. cbn [c_rest c_pos].
  change (b :: t ++ follow) with ((b :: t) ++ follow).
  rewrite read_word by assumption. cbn [c_pos].
  rewrite slice_mid; [reflexivity| cbn [app bhead]; assumption | apply stops_word_bhead; assumption].
Qed.

Lemma ident_diags_ok : forall w a b, word_ok w = true -> ident_diags w a b = [].
Proof.
  intros [|x t] a b H; cbn [word_ok] in H; [discriminate|]. bsplit. cbn [ident_diags].
  rewrite H, forallb_alnum_word, H0. reflexivity.
Qed.

Lemma nt_kw : forall f v pre k w follow,
  kw_word k = Some w -> tk_ok (KKw k) = true -> stops_word follow ->
  next_token (S f) v (pre ++ w ++ follow) {| c_rest := w ++ follow; c_pos := length pre |} =
  expect k [] false (length pre) (length w) follow.
Proof.
  intros f v pre k w follow Hk Hok Hf. cbn [tk_ok] in Hok. rewrite Hk in Hok. bsplit.
  rewrite nt_word by assumption. cbv zeta.
  destruct (assoc_bytes w multi_table); [discriminate|].
  destruct (assoc_bytes w keyword_table) as [k'|]; [|discriminate].
  apply tok_eqb_eq in H0. subst k'. reflexivity.
Qed.

Lemma nt_ident_plain : forall f v pre w follow,
  word_ok w = true -> assoc_bytes w multi_table = None -> assoc_bytes w keyword_table = None ->
  stops_word follow ->
  next_token (S f) v (pre ++ w ++ follow) {| c_rest := w ++ follow; c_pos := length pre |} =
  expect TIdentifier w false (length pre) (length w) follow.
Proof.
  intros f v pre w follow Hw Hm Hk Hf. rewrite nt_word by assumption. cbv zeta.
  rewrite Hm, Hk. rewrite ident_diags_ok by assumption. reflexivity.
Qed.

(* ------------------------------------------------------------------ the look-ahead *)

Lemma strip_prefix_app : forall w r, strip_prefix w (w ++ r) = Some r.
Proof. induction w as [|x w IH]; intro r; cbn [app strip_prefix]; [reflexivity|]. rewrite Z.eqb_refl. apply IH. Qed.

(* a continuation word behind a whitespace run is consumed when no letter follows it *)
Lemma try_consume_hit : forall g w r p,
  forallb is_ws g = true -> word_ok w = true ->
  match r with b :: _ => is_alpha_us b = false | [] => True end ->
  try_consume_word {| c_rest := g ++ w ++ r; c_pos := p |} w =
  Some {| c_rest := r; c_pos := p + length g + length w |}.
Proof.
  intros g w r p Hg Hw Hr. unfold try_consume_word, skip_whitespace. cbn [c_rest c_pos].
  destruct (word_ok_inv _ Hw) as (b & t & -> & Hb & _).
  rewrite skip_while_app; [|assumption|].
  - cbn [c_rest c_pos]. rewrite strip_prefix_app. destruct r as [|x r]; [reflexivity|].
    rewrite Hr. reflexivity.
  - cbn [app]. destruct (alpha_dispatch _ Hb) as (H1 & _). exact H1.
Qed.

(* the look-ahead fails at once when the first non-blank byte is not the word's first byte *)
Lemma try_consume_miss : forall c b t,
  match first_nonws (c_rest c) with Some h => (b =? h)%Z = false | None => True end ->
  try_consume_word c (b :: t) = None.
Proof.
  intros [r p] b t H. unfold try_consume_word, skip_whitespace. cbn [c_rest c_pos] in *.
  unfold first_nonws in H. rewrite <- (skip_while_rest_drop r p) in H.
  destruct (c_rest (skip_while is_ws r p)) as [|h r']; cbn [strip_prefix]; [reflexivity|].
  rewrite H. reflexivity.
Qed.

Lemma try_alternatives_guard : forall alts c,
  alts_guard (first_nonws (c_rest c)) alts = true -> try_alternatives c alts = None.
Proof.
  induction alts as [|[ws k] alts IH]; intros c H; [reflexivity|].
  unfold alts_guard in H. cbn [forallb fst] in H. bsplit.
  destruct ws as [|[|b t] ws]; try discriminate H.
  cbn [try_alternatives consume_seq]. rewrite try_consume_miss.
  - apply IH. exact H0.
  - destruct (first_nonws (c_rest c)) as [h|]; [|exact I]. apply negb_true_iff. exact H.
Qed.

Lemma nt_ident_multi : forall f v pre w alts follow,
  word_ok w = true -> assoc_bytes w multi_table = Some alts ->
  alts_guard (first_nonws follow) alts = true -> stops_word follow ->
  next_token (S f) v (pre ++ w ++ follow) {| c_rest := w ++ follow; c_pos := length pre |} =
  expect TIdentifier w false (length pre) (length w) follow.
Proof.
  intros f v pre w alts follow Hw Hm Hg Hf. rewrite nt_word by assumption. cbv zeta.
  rewrite Hm. rewrite try_alternatives_guard by (cbn [c_rest]; assumption). reflexivity.
Qed.

(* consuming gap0 word0 gap1 word1 ... *)
Lemma consume_seq_weave : forall words gaps r p,
  length gaps = length words -> forallb ws_run_ok gaps = true -> forallb word_ok words = true ->
  match r with b :: _ => is_alpha_us b = false | [] => True end ->
  consume_seq {| c_rest := weave gaps words ++ r; c_pos := p |} words =
  ({| c_rest := r; c_pos := p + length (weave gaps words) |}, true).
Proof.
  induction words as [|w words IH]; intros gaps r p Hl Hg Hw Hr.
  - destruct gaps; [|discriminate Hl]. cbn [weave app consume_seq length]. rewrite Nat.add_0_r. reflexivity.
  - destruct gaps as [|g gaps]; [discriminate Hl|]. cbn [length] in Hl. injection Hl as Hl.
    cbn [forallb] in Hg, Hw. bsplit. cbn [weave consume_seq].
    rewrite <- !app_assoc.
    assert (Hgw : forallb is_ws g = true) by (destruct g; [discriminate|assumption]).
    rewrite try_consume_hit; try assumption.
    + rewrite IH by assumption. f_equal. f_equal. rewrite !app_length. lia.
    + (* what follows this word: the next gap (whitespace) or r *)
      destruct gaps as [|g' gaps'].
      * destruct words; [|discriminate Hl]. cbn [weave app]. exact Hr.
      * destruct words as [|w' words']; [discriminate Hl|]. cbn [weave forallb] in *. bsplit.
        destruct g' as [|x g']; [discriminate|]. cbn [forallb app] in *. bsplit.
        cbn [ws_run_ok forallb] in H2. bsplit.
        destruct (ws_not_word x) as (_ & _ & _ & Ha & _); assumption.
Qed.

Lemma try_alternatives_sel : forall alts h k words wt c c',
  alt_sel h k words alts = true -> words = (h :: wt) :: tl words ->
  first_nonws (c_rest c) = Some h ->
  consume_seq c words = (c', true) ->
  try_alternatives c alts = Some (k, c').
Proof.
  induction alts as [|[ws k'] alts IH]; intros h k words wt c c' Hs Hw Hf Hc; [discriminate Hs|].
  cbn [alt_sel] in Hs. cbn [try_alternatives].
  destruct (tok_eqb k' k) eqn:Ek.
  - apply tok_eqb_eq in Ek. apply words_eqb_eq in Hs. subst ws k'. rewrite Hc. reflexivity.
  - destruct ws as [|[|b t] ws]; try discriminate Hs. bsplit.
    cbn [consume_seq]. rewrite try_consume_miss.
    + eapply IH; eassumption.
    + rewrite Hf. apply negb_true_iff. exact H.
Qed.

Lemma first_nonws_run : forall g x, forallb is_ws g = true -> first_nonws (g ++ x) = first_nonws x.
Proof.
  unfold first_nonws. induction g as [|b g IH]; intros x H; [reflexivity|].
  cbn [forallb] in H. bsplit. cbn [app drop_ws]. rewrite H. apply IH. assumption.
Qed.

Lemma nt_multi : forall f v pre k w words inner follow,
  multi_find k multi_table = Some (w, words) -> tk_ok (KMulti k) = true ->
  inner_ok (KMulti k) inner = true ->
  match follow with b :: _ => is_alpha_us b = false | [] => True end ->
  next_token (S f) v (pre ++ (w ++ weave inner words) ++ follow)
    {| c_rest := (w ++ weave inner words) ++ follow; c_pos := length pre |} =
  expect k [] false (length pre) (length (w ++ weave inner words)) follow.
Proof.
  intros f v pre k w words inner follow Hm Hok Hin Hf.
  cbn [tk_ok] in Hok. rewrite Hm in Hok. cbn [inner_ok] in Hin. rewrite Hm in Hin. bsplit.
  apply Nat.eqb_eq in H.
  destruct (assoc_bytes w multi_table) as [alts|] eqn:Ea; [|discriminate].
  destruct words as [|[|h wt] words]; try discriminate.
  destruct inner as [|g inner]; [discriminate H|].
  assert (Hgw : ws_run_ok g = true) by (cbn [forallb] in H0; bsplit; assumption).
  assert (Hgne : exists x g', g = x :: g' /\ is_ws x = true).
  { destruct g as [|x g']; [discriminate|]. cbn [ws_run_ok forallb] in Hgw. bsplit. eauto. }
  destruct Hgne as (x & g' & -> & Hx).
  rewrite <- app_assoc.
  rewrite nt_word; [|assumption|].
  2:{ cbn [weave app stops_word]. destruct (ws_not_word _ Hx) as (Hx1 & Hx2 & _). split; assumption. }
  cbv zeta. rewrite Ea.
  assert (Hc : consume_seq {| c_rest := weave ((x :: g') :: inner) ((h :: wt) :: words) ++ follow;
                              c_pos := length pre + length w |} ((h :: wt) :: words) =
               ({| c_rest := follow;
                   c_pos := length pre + length w + length (weave ((x :: g') :: inner) ((h :: wt) :: words)) |}, true))
    by (apply consume_seq_weave; assumption).
  assert (Hfirst : first_nonws (weave ((x :: g') :: inner) ((h :: wt) :: words) ++ follow) = Some h).
  { cbn [weave]. rewrite <- !app_assoc. rewrite first_nonws_run by (cbn [ws_run_ok] in Hgw; exact Hgw).
    cbn [app]. unfold first_nonws. cbn [drop_ws].
    assert (Hwh : word_ok (h :: wt) = true) by (cbn [forallb] in H3; bsplit; assumption).
    destruct (word_ok_inv _ Hwh) as (b & t & E & Hb & _).
    injection E as -> ->. destruct (alpha_dispatch _ Hb) as (Hws & _). rewrite Hws. reflexivity. }
  match goal with
  | |- finish _ (match try_alternatives ?c0 ?a0 with _ => _ end) = _ =>
      assert (Ht : try_alternatives c0 a0 = Some (k, {| c_rest := follow;
                                   c_pos := length pre + length w +
                                            length (weave ((x :: g') :: inner) ((h :: wt) :: words)) |}))
        by exact (try_alternatives_sel alts h k ((h :: wt) :: words) wt c0 _ H2 eq_refl Hfirst Hc);
      rewrite Ht
  end.
  unfold expect, finish, mk_token. cbn [c_pos]. rewrite app_length, Nat.add_assoc. reflexivity.
Qed.
