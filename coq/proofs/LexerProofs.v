(* LexerProofs.v — the repaired lexer (Lexer.repaired) is total on valid UTF-8 and never
   leaves the character grid: no LexPanic, no fuel exhaustion, every span well formed. *)
From Coq Require Import ZArith List Bool Arith Lia.
Require Import NS.theories.Utf8 NS.theories.GenLexer NS.theories.Lexer NS.proofs.Utf8Proofs.
Import ListNotations.
Open Scope nat_scope.

(* ---------------------------------------------------------------- byte classes are ASCII *)

Ltac byte_solve :=
  unfold is_word_byte, is_alnum_us, is_alpha_us, is_alpha, is_digit, is_ws, is_nl, is_ascii, is_cont, in_range in *;
  repeat match goal with
         | H : context [(?a <=? ?b)%Z] |- _ => destruct (Z.leb_spec a b)
         | H : context [(?a =? ?b)%Z] |- _ => destruct (Z.eqb_spec a b)
         | |- context [(?a <=? ?b)%Z] => destruct (Z.leb_spec a b)
         | |- context [(?a =? ?b)%Z] => destruct (Z.eqb_spec a b)
         end; cbn in *; try discriminate; try reflexivity; try lia.

Lemma ws_ascii : forall b, is_ws b = true -> is_ascii b = true.
Proof. intros b H. byte_solve. Qed.
Lemma digit_ascii : forall b, is_digit b = true -> is_ascii b = true.
Proof. intros b H. byte_solve. Qed.
Lemma alpha_us_ascii : forall b, is_alpha_us b = true -> is_ascii b = true.
Proof. intros b H. byte_solve. Qed.
Lemma word_byte_ascii : forall b, is_word_byte b = true -> is_ascii b = true.
Proof. intros b H. byte_solve. Qed.
Lemma nl_ascii : forall b, is_nl b = true -> is_ascii b = true.
Proof. intros b H. byte_solve. Qed.
Lemma alpha_us_word : forall b, is_alpha_us b = true -> is_word_byte b = true.
Proof. intros b H. unfold is_word_byte. rewrite H. reflexivity. Qed.

(* ---------------------------------------------------------------- table facts (re-checked by
   computation whenever GenLexer.v is regenerated) *)

Definition words_ascii (ws : list bytes) : bool := forallb (forallb is_ascii) ws.
Definition alts_ascii (alts : list (list bytes * tok)) : bool := forallb (fun a => words_ascii (fst a)) alts.

Lemma multi_table_ascii : forallb (fun e => alts_ascii (snd e)) multi_table = true.
Proof. vm_compute. reflexivity. Qed.
Lemma punct_table_ascii : forallb (fun e => is_ascii (fst e)) punct_table = true.
Proof. vm_compute. reflexivity. Qed.
Lemma quote_bytes_ascii : forallb is_ascii quote_bytes = true.
Proof. vm_compute. reflexivity. Qed.
Lemma escapes_ascii :
  forallb (fun e => is_ascii (fst e)) escapes_plain && forallb (fun e => is_ascii (fst e)) escapes_quote = true.
Proof. vm_compute. reflexivity. Qed.

Lemma assoc_bytes_in : forall (A : Type) w (l : list (bytes * A)) v,
  assoc_bytes w l = Some v -> exists k, In (k, v) l.
Proof.
  intros A w l. induction l as [|[k x] l IH]; intros v H; cbn in H; [discriminate|].
  destruct (bytes_eqb w k).
  - inversion H; subst. exists k. left. reflexivity.
  - destruct (IH _ H) as [k' Hk]. exists k'. right. exact Hk.
Qed.

Lemma assoc_z_in : forall (A : Type) b (l : list (Z * A)) v,
  assoc_z b l = Some v -> In (b, v) l.
Proof.
  intros A b l. induction l as [|[k x] l IH]; intros v H; cbn in H; [discriminate|].
  destruct (Z.eqb_spec b k).
  - inversion H; subst. left. reflexivity.
  - right. apply IH. exact H.
Qed.

Lemma mem_z_in : forall b l, mem_z b l = true -> In b l.
Proof.
  intros b l. induction l as [|k l IH]; intro H; cbn in H; [discriminate|].
  apply orb_true_iff in H as [H|H].
  - apply Z.eqb_eq in H. subst. left. reflexivity.
  - right. apply IH. exact H.
Qed.

Lemma punct_is_ascii : forall b k, assoc_z b punct_table = Some k -> is_ascii b = true.
Proof.
  intros b k H. apply assoc_z_in in H.
  pose proof punct_table_ascii as T. rewrite forallb_forall in T. apply (T _ H).
Qed.

Lemma quote_is_ascii : forall b, mem_z b quote_bytes = true -> is_ascii b = true.
Proof.
  intros b H. apply mem_z_in in H.
  pose proof quote_bytes_ascii as T. rewrite forallb_forall in T. apply (T _ H).
Qed.

Lemma escape_is_ascii : forall q e p, escape_lookup q e = Some p -> is_ascii e = true.
Proof.
  intros q e p H. pose proof escapes_ascii as T. apply andb_true_iff in T as [T1 T2].
  rewrite forallb_forall in T1, T2. unfold escape_lookup in H.
  destruct (assoc_z e escapes_quote) as [q'|] eqn:E.
  - apply assoc_z_in in E. apply (T2 _ E).
  - apply assoc_z_in in H. apply (T1 _ H).
Qed.

Lemma multi_alts_ascii : forall w alts, assoc_bytes w multi_table = Some alts -> alts_ascii alts = true.
Proof.
  intros w alts H. apply assoc_bytes_in in H as [k Hk].
  pose proof multi_table_ascii as T. rewrite forallb_forall in T. apply (T _ Hk).
Qed.

(* ---------------------------------------------------------------- cursors *)

Section Source.
Variable s : bytes.
Hypothesis Vs : valid_utf8 s = true.

(* working form of Lexer.cursor_wf: the remaining text is itself valid UTF-8 *)
Definition cur_ok (c : cursor) : Prop :=
  c_rest c = skipn (c_pos c) s /\ c_pos c <= length s /\ valid_utf8 (c_rest c) = true.

Lemma cur_ok_wf : forall c, cur_ok c -> cursor_wf s c.
Proof.
  intros c (R & L & V). refine (conj R (conj L _)).
  apply valid_suffix_boundary; [exact L|]. rewrite <- R. exact V.
Qed.

Lemma cur_ok_boundary : forall c, cur_ok c -> is_boundary s (c_pos c) = true.
Proof. intros c H. apply cur_ok_wf in H. apply H. Qed.

Lemma cur_ok_len : forall c, cur_ok c -> length (c_rest c) = length s - c_pos c.
Proof. intros c (R & _ & _). rewrite R. apply skipn_length. Qed.

Lemma cur_ok_start : cur_ok (start_cursor s).
Proof. unfold cur_ok, start_cursor. cbn. repeat split; [lia | exact Vs]. Qed.

Lemma cur_ok_nil : forall c, cur_ok c -> c_rest c = [] -> c_pos c = length s.
Proof.
  intros c (R & L & _) E. rewrite E in R. symmetry in R. apply skipn_nil_inv in R. lia.
Qed.

Lemma cur_ok_step : forall r pos b t, cur_ok {| c_rest := r; c_pos := pos |} -> r = b :: t -> is_ascii b = true ->
  cur_ok {| c_rest := t; c_pos := S pos |} /\ pos < length s.
Proof.
  intros r pos b t (R & L & V) E A. cbn in *. rewrite E in R, V. symmetry in R.
  destruct (skipn_cons_inv _ _ _ _ _ R) as (L' & R' & _).
  split; [|exact L']. unfold cur_ok. cbn. repeat split.
  - symmetry. exact R'.
  - lia.
  - eapply valid_after_ascii; eauto.
Qed.

Lemma cur_ok_advn : forall c n, cur_ok c -> n <= length (c_rest c) -> valid_utf8 (skipn n (c_rest c)) = true ->
  cur_ok (advn n c).
Proof.
  intros c n (R & L & V) Hn Vn. unfold cur_ok, advn. cbn. repeat split.
  - rewrite R. apply skipn_skipn'.
  - rewrite R, skipn_length in Hn. lia.
  - exact Vn.
Qed.

Lemma advn_eta : forall c, {| c_rest := c_rest c; c_pos := c_pos c |} = c.
Proof. intros []. reflexivity. Qed.

(* ---------------------------------------------------------------- skip_while *)

Lemma skip_while_ok : forall p, (forall b, p b = true -> is_ascii b = true) ->
  forall r pos, cur_ok {| c_rest := r; c_pos := pos |} ->
  let c' := skip_while p r pos in
  cur_ok c' /\ pos <= c_pos c' /\
  (forall b t, r = b :: t -> p b = true -> pos < c_pos c') /\
  (forall b t, c_rest c' = b :: t -> p b = false).
Proof.
  intros p Hp r. induction r as [|b t IH]; intros pos H; cbn [skip_while].
  - split; [exact H|]. cbn. repeat split; try lia; intros; discriminate.
  - destruct (p b) eqn:E.
    + destruct (cur_ok_step _ _ _ _ H eq_refl (Hp _ E)) as [H' _].
      destruct (IH _ H') as (A & B & C & D).
      refine (conj A (conj _ (conj _ D))); [lia | intros; lia].
    + split; [exact H|]. cbn. repeat split; try lia.
      * intros b' t' Eq Pb. inversion Eq; subst. congruence.
      * intros b' t' Eq. inversion Eq; subst. exact E.
Qed.

Lemma skip_whitespace_ok : forall c, cur_ok c ->
  cur_ok (skip_whitespace c) /\ c_pos c <= c_pos (skip_whitespace c).
Proof.
  intros c H. unfold skip_whitespace.
  destruct (skip_while_ok is_ws ws_ascii (c_rest c) (c_pos c)) as (A & B & _).
  - rewrite advn_eta. exact H.
  - split; assumption.
Qed.

(* ---------------------------------------------------------------- memchr2 *)

Lemma memchr2_le : forall a b h, memchr2 a b h <= length h.
Proof.
  intros a b h. induction h as [|x t IH]; cbn; [lia|].
  destruct ((x =? a)%Z || (x =? b)%Z); cbn; lia.
Qed.

Lemma memchr2_skipn : forall a b h,
  skipn (memchr2 a b h) h = [] \/ exists x t, skipn (memchr2 a b h) h = x :: t /\ (x = a \/ x = b).
Proof.
  intros a b h. induction h as [|x t IH]; cbn; [left; reflexivity|].
  destruct ((x =? a)%Z || (x =? b)%Z) eqn:E.
  - right. exists x, t. split; [reflexivity|].
    apply orb_true_iff in E. rewrite !Z.eqb_eq in E. exact E.
  - cbn. exact IH.
Qed.

Lemma memchr2_ok : forall c a b, cur_ok c -> is_ascii a = true -> is_ascii b = true ->
  cur_ok (advn (memchr2 a b (c_rest c)) c).
Proof.
  intros c a b H Aa Ab. apply cur_ok_advn; [exact H | apply memchr2_le |].
  destruct H as (_ & _ & V).
  apply valid_suffix; [exact V|].
  destruct (memchr2_skipn a b (c_rest c)) as [E | (x & t & E & Hx)]; [left; exact E|].
  right. exists x, t. split; [exact E|].
  apply ascii_not_cont. destruct Hx; subst; assumption.
Qed.

Lemma skip_comment_ok : forall c t, cur_ok c -> c_rest c = 35%Z :: t ->
  cur_ok (skip_comment c) /\ c_pos c < c_pos (skip_comment c).
Proof.
  intros c t H E. unfold skip_comment.
  assert (A10 : is_ascii 10 = true) by reflexivity.
  assert (A13 : is_ascii 13 = true) by reflexivity.
  pose proof (memchr2_ok c 10 13 H A10 A13) as H1.
  assert (P : c_pos c < c_pos (advn (memchr2 10 13 (c_rest c)) c)).
  { rewrite E. cbn. lia. }
  set (c1 := advn (memchr2 10 13 (c_rest c)) c) in *.
  destruct (c_rest c1) as [|ch r] eqn:E1.
  - split; assumption.
  - destruct (is_nl ch) eqn:N.
    + unfold adv1. rewrite E1. cbn [tl].
      destruct (cur_ok_step (c_rest c1) (c_pos c1) ch r) as [H2 _]; [rewrite advn_eta; exact H1 | exact E1 | apply nl_ascii; exact N |].
      split; [exact H2 | cbn; lia].
    + split; assumption.
Qed.

(* ---------------------------------------------------------------- words *)

Lemma strip_prefix_ok : forall w r r', forallb is_ascii w = true -> valid_utf8 r = true ->
  strip_prefix w r = Some r' -> valid_utf8 r' = true /\ r' = skipn (length w) r /\ length w <= length r.
Proof.
  intros w. induction w as [|x w IH]; intros r r' A V H.
  - cbn in H. inversion H; subst. cbn. repeat split; try assumption. lia.
  - destruct r as [|y r]; cbn in H; [discriminate|].
    destruct (Z.eqb_spec x y); [|discriminate]. subst y.
    cbn in A. apply andb_true_iff in A as [Ax Aw].
    rewrite valid_ascii_tail in V by exact Ax.
    destruct (IH _ _ Aw V H) as (V' & E & L). cbn. repeat split; try assumption. lia.
Qed.

Lemma try_consume_word_ok : forall c w c', cur_ok c -> forallb is_ascii w = true ->
  try_consume_word c w = Some c' -> cur_ok c' /\ c_pos c <= c_pos c'.
Proof.
  intros c w c' H A T. unfold try_consume_word in T.
  destruct (skip_whitespace_ok c H) as [H1 P1].
  set (c1 := skip_whitespace c) in *.
  destruct (strip_prefix w (c_rest c1)) as [r'|] eqn:E; [|discriminate].
  destruct H1 as (R1 & L1 & V1).
  destruct (strip_prefix_ok _ _ _ A V1 E) as (V' & E' & L').
  assert (K : cur_ok {| c_rest := r'; c_pos := c_pos c1 + length w |}).
  { pose proof (cur_ok_advn c1 (length w) (conj R1 (conj L1 V1)) L') as Q.
    unfold advn in Q. rewrite <- E' in Q. apply Q. exact V'. }
  destruct r' as [|b t].
  - inversion T; subst. split; [exact K | cbn; lia].
  - destruct (is_alpha_us b); [discriminate|]. inversion T; subst. split; [exact K | cbn; lia].
Qed.

Lemma consume_seq_ok : forall ws c c' ok, cur_ok c -> words_ascii ws = true ->
  consume_seq c ws = (c', ok) -> cur_ok c' /\ c_pos c <= c_pos c'.
Proof.
  intros ws. induction ws as [|w ws IH]; intros c c' ok H A E; cbn in E.
  - inversion E; subst. split; [assumption | lia].
  - cbn in A. apply andb_true_iff in A as [Aw Aws].
    destruct (try_consume_word c w) as [c1|] eqn:T.
    + destruct (try_consume_word_ok _ _ _ H Aw T) as [H1 P1].
      destruct (IH _ _ _ H1 Aws E) as [H2 P2]. split; [assumption | lia].
    + inversion E; subst. split; [assumption | lia].
Qed.

Lemma try_alternatives_ok : forall alts c k c', cur_ok c -> alts_ascii alts = true ->
  try_alternatives c alts = Some (k, c') -> cur_ok c' /\ c_pos c <= c_pos c'.
Proof.
  intros alts. induction alts as [|[ws k0] alts IH]; intros c k c' H A E; cbn in E; [discriminate|].
  cbn in A. apply andb_true_iff in A as [Aw Aalts].
  destruct (consume_seq c ws) as [c1 ok] eqn:S.
  destruct (consume_seq_ok _ _ _ _ H Aw S) as [H1 P1].
  destruct ok.
  - inversion E; subst. split; assumption.
  - destruct (IH _ _ _ H1 Aalts E) as [H2 P2]. split; [assumption | lia].
Qed.

(* ---------------------------------------------------------------- spans *)

Lemma span_ok : forall a b, is_boundary s a = true -> is_boundary s b = true -> a <= b -> b <= length s -> span_wf s a b.
Proof. intros. unfold span_wf. tauto. Qed.

Lemma span_curs : forall a c, is_boundary s a = true -> cur_ok c -> a <= c_pos c -> span_wf s a (c_pos c).
Proof.
  intros a c Ba H L. apply span_ok; [exact Ba | apply cur_ok_boundary; exact H | exact L | apply H].
Qed.

Lemma slice_curs : forall a c, is_boundary s a = true -> cur_ok c -> a <= c_pos c ->
  slice s a (c_pos c) = Some (firstn (c_pos c - a) (skipn a s)).
Proof. intros a c Ba H L. apply span_wf_slice. apply span_curs; assumption. Qed.

Lemma mk_diag_wf : forall e l a b, span_wf s a b -> diag_wf s (mk_diag e l a b).
Proof. intros. exact H. Qed.

Lemma ident_diags_wf : forall w a b, span_wf s a b -> Forall (diag_wf s) (ident_diags w a b).
Proof.
  intros w a b W. unfold ident_diags. destruct w as [|f o]; [constructor|].
  destruct (is_alpha_us f); [destruct (forallb is_alnum_us o)|];
    first [apply Forall_nil | apply Forall_cons; [exact W | apply Forall_nil]].
Qed.

(* ---------------------------------------------------------------- identifiers / keywords *)

Lemma scan_ident_ok : forall c b t, cur_ok c -> c_rest c = b :: t -> is_alpha_us b = true ->
  exists k p o c' ds, scan_identifier_or_keyword s (c_pos c) c = Ok (k, p, o, c', ds) /\
    cur_ok c' /\ c_pos c < c_pos c' /\ Forall (diag_wf s) ds.
Proof.
  intros c b t H E A. unfold scan_identifier_or_keyword. cbv zeta.
  destruct (skip_while_ok is_word_byte word_byte_ascii (c_rest c) (c_pos c)) as (H1 & P1 & Q1 & _).
  { rewrite advn_eta. exact H. }
  cbv zeta in H1, P1, Q1.
  assert (P : c_pos c < c_pos (skip_while is_word_byte (c_rest c) (c_pos c))).
  { eapply Q1; [exact E | apply alpha_us_word; exact A]. }
  remember (skip_while is_word_byte (c_rest c) (c_pos c)) as c1 eqn:Ec1.
  pose proof (cur_ok_boundary c H) as Bc.
  rewrite (slice_curs (c_pos c) c1 Bc H1 P1).
  remember (firstn (c_pos c1 - c_pos c) (skipn (c_pos c) s)) as word eqn:Ew.
  destruct (assoc_bytes word multi_table) as [alts|] eqn:M.
  - destruct (try_alternatives c1 alts) as [[k c2]|] eqn:T.
    + destruct (try_alternatives_ok alts c1 k c2 H1 (multi_alts_ascii _ _ M) T) as [H2 P2].
      exists k, [], false, c2, []. refine (conj eq_refl (conj H2 (conj _ (Forall_nil _)))). lia.
    + exists TIdentifier, word, false, c1, []. exact (conj eq_refl (conj H1 (conj P (Forall_nil _)))).
  - destruct (assoc_bytes word keyword_table) as [k|].
    + exists k, [], false, c1, []. exact (conj eq_refl (conj H1 (conj P (Forall_nil _)))).
    + exists TIdentifier, word, false, c1, (ident_diags word (c_pos c) (c_pos c1)).
      refine (conj eq_refl (conj H1 (conj P _))). apply ident_diags_wf. apply span_curs; assumption.
Qed.

(* ---------------------------------------------------------------- strings *)

Lemma scan_string_loop_ok : forall fuel start beg quote cur esc buf,
  cur_ok cur -> length (c_rest cur) < fuel ->
  is_boundary s start = true -> is_boundary s beg = true -> start <= beg -> beg <= c_pos cur ->
  is_ascii quote = true ->
  exists p o c' ds,
    scan_string_loop fuel repaired s start beg quote cur esc buf = Ok (TString, p, o, c', ds) /\
    cur_ok c' /\ c_pos cur <= c_pos c' /\ Forall (diag_wf s) ds.
Proof.
  induction fuel as [|fuel IH]; intros start beg quote cur esc buf H F Bs Bb Lsb Lbc Aq; [lia|].
  cbn [scan_string_loop].
  pose proof (memchr2_ok cur 10 13 H eq_refl eq_refl) as Hnl.
  pose proof (memchr2_ok cur quote 92 H Aq eq_refl) as Hqe.
  pose proof (memchr2_le quote 92 (c_rest cur)) as Lqe.
  pose proof (memchr2_skipn quote 92 (c_rest cur)) as Sqe.
  remember (memchr2 quote 92 (c_rest cur)) as qe eqn:Eqe.
  remember (memchr2 10 13 (c_rest cur)) as nl eqn:Enl.
  destruct (nl <? qe) eqn:C1.
  { (* a line break comes first *)
    assert (W : span_wf s start (c_pos cur + nl)).
    { apply (span_curs start (advn nl cur)); [exact Bs | exact Hnl | cbn; lia]. }
    destruct esc.
    - eexists _, _, _, _. split; [reflexivity|]. split; [exact Hnl|]. split; [cbn; lia|].
      apply Forall_cons; [exact W | apply Forall_nil].
    - pose proof (slice_curs beg (advn nl cur) Bb Hnl) as Q. unfold advn in Q. cbn [c_pos] in Q. rewrite Q by lia.
      eexists _, _, _, _. split; [reflexivity|]. split; [exact Hnl|]. split; [cbn; lia|].
      apply Forall_cons; [exact W | apply Forall_nil]. }
  destruct (qe =? length (c_rest cur)) eqn:C2.
  { (* end of input *)
    assert (W : span_wf s start (c_pos cur)) by (apply span_curs; [exact Bs | exact H | lia]).
    destruct esc.
    - eexists _, _, _, _. split; [reflexivity|]. split; [exact H|]. split; [lia|].
      apply Forall_cons; [exact W | apply Forall_nil].
    - rewrite (slice_curs beg cur Bb H Lbc).
      eexists _, _, _, _. split; [reflexivity|]. split; [exact H|]. split; [lia|].
      apply Forall_cons; [exact W | apply Forall_nil]. }
  apply Nat.eqb_neq in C2.
  destruct (skipn qe (c_rest cur)) as [|ch after] eqn:Sk.
  { exfalso. apply skipn_nil_inv in Sk. lia. }
  assert (Hcq : cur_ok {| c_rest := ch :: after; c_pos := c_pos cur + qe |}).
  { unfold advn in Hqe. rewrite Sk in Hqe. exact Hqe. }
  assert (Hx : ch = quote \/ ch = 92%Z).
  { destruct Sqe as [Sq | (x & t' & Sq & Hx)]; [discriminate|]. inversion Sq; subst. exact Hx. }
  assert (Ach : is_ascii ch = true) by (destruct Hx; subst; [exact Aq | reflexivity]).
  destruct (cur_ok_step _ _ _ _ Hcq eq_refl Ach) as [Hafter Lpos].
  assert (Lafter : S (length after) = length (c_rest cur) - qe).
  { rewrite <- (skipn_length qe (c_rest cur)), Sk. reflexivity. }
  remember (c_pos cur + qe) as pos eqn:Epos.
  assert (Bpos : is_boundary s pos = true) by (apply (cur_ok_boundary _ Hcq)).
  assert (Seg : exists seg, (if c_pos cur <? pos then slice s (c_pos cur) pos else Some []) = Some seg).
  { destruct (c_pos cur <? pos); [|eexists; reflexivity].
    pose proof (slice_curs (c_pos cur) _ (cur_ok_boundary _ H) Hcq) as Q. cbn [c_pos] in Q.
    rewrite Q by lia. eexists; reflexivity. }
  destruct Seg as [seg Seg].
  assert (Sbeg : exists p, slice s beg pos = Some p).
  { pose proof (slice_curs beg _ Bb Hcq) as Q. cbn [c_pos] in Q. rewrite Q by lia. eexists; reflexivity. }
  destruct Sbeg as [pbeg Sbeg].
  destruct (ch =? quote)%Z eqn:Cq.
  { (* closing quote *)
    destruct esc.
    - rewrite Seg. eexists _, _, _, _. split; [reflexivity|]. split; [exact Hafter|]. split; [cbn; lia|]. constructor.
    - rewrite Sbeg. eexists _, _, _, _. split; [reflexivity|]. split; [exact Hafter|]. split; [cbn; lia|]. constructor. }
  destruct (ch =? 92)%Z eqn:C92.
  2:{ exfalso. apply Z.eqb_neq in Cq. apply Z.eqb_neq in C92. destruct Hx; congruence. }
  assert (Cp : exists seg', match buf with [] => slice s beg pos | _ :: _ => (if c_pos cur <? pos then slice s (c_pos cur) pos else Some []) end = Some seg').
  { destruct buf; [exists pbeg; exact Sbeg | exists seg; exact Seg]. }
  destruct Cp as [seg' Cp]. rewrite Cp.
  destruct after as [|e after2].
  { (* backslash is the last byte *)
    eexists _, _, _, _. split; [reflexivity|]. split; [exact H|]. split; [lia|].
    apply Forall_cons; [|apply Forall_nil]. apply mk_diag_wf. apply span_curs; [exact Bs | exact H | lia]. }
  destruct (escape_lookup quote e) as [pushed|] eqn:El.
  { (* known escape *)
    pose proof (escape_is_ascii _ _ _ El) as Ae.
    destruct (cur_ok_step _ _ _ _ Hafter eq_refl Ae) as [H2 _].
    replace (pos + 2) with (S (S pos)) by lia.
    destruct (IH start beg quote {| c_rest := after2; c_pos := S (S pos) |} true ((buf ++ seg') ++ [pushed]) H2)
      as (p & o & c' & ds & E & H' & P' & D'); try assumption.
    { cbn [c_rest length] in *. lia. }
    { cbn [c_pos]. lia. }
    rewrite E. exists p, o, c', ds. split; [reflexivity|]. split; [exact H'|]. split; [cbn [c_pos] in P'; lia | exact D']. }
  (* unknown escape: the whole escaped character is taken *)
  cbn [v_escape_two_bytes repaired].
  assert (Vafter : valid_utf8 (e :: after2) = true) by apply Hafter.
  pose proof (valid_step e after2 Vafter) as (W1 & W2 & W3 & _). cbv zeta in W1, W2, W3.
  remember (char_width e) as w eqn:Ew.
  replace ((w =? 0) || (length (e :: after2) <? w)) with false.
  2:{ symmetry. apply orb_false_iff. split; [apply Nat.eqb_neq; lia | apply Nat.ltb_ge; lia]. }
  pose proof (cur_ok_advn _ w Hafter W2 W3) as H3. unfold advn in H3. cbn [c_rest c_pos] in H3.
  replace (pos + 1 + w) with (S pos + w) by lia.
  destruct (IH start beg quote {| c_rest := skipn w (e :: after2); c_pos := S pos + w |} true
              ((buf ++ seg') ++ firstn w (e :: after2)) H3)
    as (p & o & c' & ds & E & H' & P' & D'); try assumption.
  { cbn [c_rest]. rewrite skipn_length. cbn [length] in *. lia. }
  { cbn [c_pos]. lia. }
  rewrite E. exists p, o, c', (mk_diag EInvalidStringEscape 0 pos (S pos + w) :: ds).
  split; [reflexivity|]. split; [exact H'|]. split; [cbn [c_pos] in P'; lia|].
  constructor; [|exact D'].
  apply mk_diag_wf. apply (span_curs pos _ Bpos H3). cbn [c_pos]. lia.
Qed.

Lemma scan_string_ok : forall c b t, cur_ok c -> c_rest c = b :: t -> is_ascii b = true ->
  exists p o c' ds, scan_string repaired s (c_pos c) b c = Ok (TString, p, o, c', ds) /\
    cur_ok c' /\ c_pos c < c_pos c' /\ Forall (diag_wf s) ds.
Proof.
  intros c b t H E A. unfold scan_string. cbv zeta. unfold adv1. rewrite E. cbn [tl c_rest c_pos].
  destruct (cur_ok_step (c_rest c) (c_pos c) b t) as [H1 L1]; [rewrite advn_eta; exact H | exact E | exact A |].
  destruct (scan_string_loop_ok (S (length t)) (c_pos c) (S (c_pos c)) b {| c_rest := t; c_pos := S (c_pos c) |} false [] H1)
    as (p & o & c' & ds & E' & H' & P' & D').
  - cbn. lia.
  - apply cur_ok_boundary. exact H.
  - apply (cur_ok_boundary _ H1).
  - lia.
  - cbn. lia.
  - exact A.
  - rewrite E'. exists p, o, c', ds. split; [reflexivity|]. split; [exact H'|]. split; [cbn in P'; lia | exact D'].
Qed.

(* ---------------------------------------------------------------- numbers *)

Lemma scan_number_suffix_ok : forall start c, cur_ok c -> is_boundary s start = true -> start <= c_pos c ->
  exists p c' ds, scan_number_suffix s start c = Ok (TNumber, p, false, c', ds) /\
    cur_ok c' /\ c_pos c <= c_pos c' /\ Forall (diag_wf s) ds.
Proof.
  intros start c H Bs L. unfold scan_number_suffix.
  destruct (is_alpha_us (head_or_zero (c_rest c))).
  - cbv zeta.
    destruct (skip_while_ok is_word_byte word_byte_ascii (c_rest c) (c_pos c)) as (H1 & P1 & _).
    { rewrite advn_eta. exact H. }
    cbv zeta in H1, P1.
    rewrite (slice_curs start c Bs H L).
    eexists _, _, _. refine (conj eq_refl (conj H1 (conj P1 _))).
    apply Forall_cons; [|apply Forall_nil]. apply mk_diag_wf. apply span_curs; [exact Bs | exact H1 | lia].
  - rewrite (slice_curs start c Bs H L).
    eexists _, _, _. refine (conj eq_refl (conj H (conj _ (Forall_nil _)))). lia.
Qed.

(* what the proofs need from `self.next_token()` when it is called from scan_number *)
Definition cont_ok (lo : nat) (k : cursor -> outcome (token * cursor * list diag)) : Prop :=
  forall c3, cur_ok c3 -> lo < c_pos c3 ->
  exists t' c4 ds, k c3 = Ok (t', c4, ds) /\ cur_ok c4 /\ c_pos c3 <= c_pos c4 /\ Forall (diag_wf s) ds.

Lemma scan_number_ok : forall c b t k, cur_ok c -> c_rest c = b :: t -> is_digit b = true -> cont_ok (c_pos c) k ->
  exists kd p o c' ds, scan_number repaired s (c_pos c) c k = Ok (kd, p, o, c', ds) /\
    cur_ok c' /\ c_pos c < c_pos c' /\ Forall (diag_wf s) ds.
Proof.
  intros c b t k H E D K. unfold scan_number. cbv zeta.
  pose proof (cur_ok_boundary c H) as Bc.
  destruct (skip_while_ok is_digit digit_ascii (c_rest c) (c_pos c)) as (H1 & P1 & Q1 & _).
  { rewrite advn_eta. exact H. }
  cbv zeta in H1, P1, Q1.
  assert (P : c_pos c < c_pos (skip_while is_digit (c_rest c) (c_pos c))) by (eapply Q1; eauto).
  remember (skip_while is_digit (c_rest c) (c_pos c)) as c1 eqn:Ec1.
  assert (Suffix : forall c2, cur_ok c2 -> c_pos c1 <= c_pos c2 ->
     exists kd p o c' ds, scan_number_suffix s (c_pos c) c2 = Ok (kd, p, o, c', ds) /\
       cur_ok c' /\ c_pos c < c_pos c' /\ Forall (diag_wf s) ds).
  { intros c2 H2 L2. destruct (scan_number_suffix_ok (c_pos c) c2 H2 Bc) as (p & c' & ds & E' & H' & P' & D'); [lia|].
    exists TNumber, p, false, c', ds. refine (conj E' (conj H' (conj _ D'))). lia. }
  destruct (c_rest c1) as [|dot t1] eqn:E1; [apply Suffix; [exact H1 | lia]|].
  destruct (dot =? 46)%Z eqn:Cd; [|apply Suffix; [exact H1 | lia]].
  apply Z.eqb_eq in Cd. subst dot.
  destruct (cur_ok_step (c_rest c1) (c_pos c1) 46%Z t1) as [H2 _]; [rewrite advn_eta; exact H1 | exact E1 | reflexivity |].
  destruct (negb (is_digit (head_or_zero t1))).
  - cbn [v_skip_byte_after_bad_dot repaired c_pos].
    destruct (K _ H2) as (t' & c4 & ds & Ek & H4 & P4 & D4); [cbn; lia|].
    rewrite Ek. eexists _, _, _, _, _. refine (conj eq_refl (conj H4 (conj _ _))); [cbn in P4; lia|].
    apply Forall_cons; [|exact D4]. apply mk_diag_wf. apply (span_curs (c_pos c) _ Bc H2). cbn. lia.
  - cbn [c_rest c_pos].
    destruct (skip_while_ok is_digit digit_ascii t1 (S (c_pos c1)) H2) as (H3 & P3 & _).
    apply Suffix; [exact H3 | lia].
Qed.

(* ---------------------------------------------------------------- next_token *)

Definition tok_good (c : cursor) (t : token) (c' : cursor) : Prop :=
  c_pos c <= t_start t /\ t_end t = c_pos c' /\ is_boundary s (t_start t) = true /\
  (t_start t < t_end t \/ (is_eof t = true /\ c_rest c' = [] /\ t_start t = t_end t)).

Definition nt_ok (fuel : nat) : Prop :=
  forall c, cur_ok c -> length (c_rest c) < fuel ->
  exists t c' ds, next_token fuel repaired s c = Ok (t, c', ds) /\
    cur_ok c' /\ tok_good c t c' /\ Forall (diag_wf s) ds.

Lemma nt_cont : forall fuel c1, nt_ok fuel -> cur_ok c1 -> length (c_rest c1) <= fuel ->
  cont_ok (c_pos c1) (next_token fuel repaired s).
Proof.
  intros fuel c1 IH H1 F c3 H3 L3.
  destruct (IH c3 H3) as (t' & c4 & ds & E & H4 & (G1 & G2 & G3 & G4) & D).
  { rewrite (cur_ok_len _ H3). rewrite (cur_ok_len _ H1) in F. destruct H1 as (_ & L1 & _).
    destruct H3 as (_ & L3' & _). lia. }
  exists t', c4, ds. refine (conj E (conj H4 (conj _ D))).
  destruct G4 as [G4 | (_ & _ & G4)]; lia.
Qed.

Lemma finish_scanned : forall c c1 start k p o c' ds r,
  r = Ok (k, p, o, c', ds) -> c_pos c <= start -> start = c_pos c1 -> cur_ok c1 -> cur_ok c' -> start < c_pos c' ->
  Forall (diag_wf s) ds ->
  exists t c'' ds', finish start r = Ok (t, c'', ds') /\ cur_ok c'' /\ tok_good c t c'' /\ Forall (diag_wf s) ds'.
Proof.
  intros c c1 start k p o c' ds r -> L -> H1 H' P D. cbn [finish mk_token].
  eexists _, _, _. refine (conj eq_refl (conj H' (conj _ D))).
  unfold tok_good. cbn [t_start t_end].
  refine (conj L (conj eq_refl (conj (cur_ok_boundary _ H1) _))). left. exact P.
Qed.

Lemma next_token_ok : forall fuel, nt_ok fuel.
Proof.
  induction fuel as [|fuel IH]; intros c H F; [lia|].
  cbn [next_token].
  destruct (skip_whitespace_ok c H) as [H1 P1].
  remember (skip_whitespace c) as c1 eqn:Ec1.
  assert (F1 : length (c_rest c1) <= fuel).
  { rewrite (cur_ok_len _ H1). rewrite (cur_ok_len _ H) in F. lia. }
  assert (F1' : length s - c_pos c1 <= fuel) by (rewrite <- (cur_ok_len _ H1); exact F1).
  destruct (c_rest c1) as [|b after] eqn:E1.
  { (* end of input *)
    eexists _, _, _. refine (conj eq_refl (conj H1 (conj _ (Forall_nil _)))).
    unfold tok_good. cbn [t_start t_end].
    refine (conj P1 (conj eq_refl (conj (cur_ok_boundary _ H1) _))). right.
    refine (conj eq_refl (conj E1 eq_refl)). }
  (* a recursive call after consuming at least one byte *)
  assert (Rec : forall c2 d, cur_ok c2 -> c_pos c1 < c_pos c2 -> Forall (diag_wf s) d ->
     exists t c' ds, match next_token fuel repaired s c2 with
                     | Ok (t0, c0, ds0) => Ok (t0, c0, d ++ ds0)
                     | other => other end = Ok (t, c', ds) /\
       cur_ok c' /\ tok_good c t c' /\ Forall (diag_wf s) ds).
  { intros c2 d H2 P2 Dd.
    destruct (IH c2 H2) as (t & c' & ds & E & H' & (G1 & G2 & G3 & G4) & D).
    { rewrite (cur_ok_len _ H2). destruct H1 as (_ & L1 & _). destruct H2 as (_ & L2' & _). lia. }
    rewrite E. eexists _, _, _. refine (conj eq_refl (conj H' (conj _ _))).
    - unfold tok_good. refine (conj _ (conj G2 (conj G3 G4))). lia.
    - apply Forall_app. split; assumption. }
  destruct (b =? 35)%Z eqn:C35.
  { apply Z.eqb_eq in C35. subst b.
    destruct (skip_comment_ok c1 after H1 E1) as [H2 P2].
    destruct (Rec _ [] H2 P2 (Forall_nil _)) as (t & c' & ds & E & R).
    cbn [app] in E. exists t, c', ds. split; [|exact R].
    destruct (next_token fuel repaired s (skip_comment c1)) as [[[t0 c0] ds0]| |]; exact E. }
  destruct (mem_z b quote_bytes) eqn:Cq.
  { destruct (scan_string_ok c1 b after H1 E1 (quote_is_ascii _ Cq)) as (p & o & c' & ds & E & H' & P' & D').
    eapply finish_scanned; eauto. }
  destruct (assoc_z b punct_table) as [k|] eqn:Cp.
  { destruct (cur_ok_step (c_rest c1) (c_pos c1) b after) as [H2 _];
      [rewrite advn_eta; exact H1 | exact E1 | exact (punct_is_ascii _ _ Cp) |].
    eapply (finish_scanned c c1); [reflexivity | exact P1 | reflexivity | exact H1 | | | apply Forall_nil].
    - unfold adv1. rewrite E1. exact H2.
    - cbn. lia. }
  destruct (is_digit b) eqn:Cd.
  { destruct (scan_number_ok c1 b after (next_token fuel repaired s) H1 E1 Cd (nt_cont fuel c1 IH H1 ltac:(rewrite E1; exact F1)))
      as (kd & p & o & c' & ds & E & H' & P' & D').
    eapply finish_scanned; eauto. }
  destruct (is_alpha_us b) eqn:Ca.
  { destruct (scan_ident_ok c1 b after H1 E1 Ca) as (kd & p & o & c' & ds & E & H' & P' & D').
    eapply finish_scanned; eauto. }
  destruct (negb (is_ascii b)) eqn:Cn.
  { (* a non-ASCII character: skipped as a whole *)
    assert (V1 : valid_utf8 (b :: after) = true) by (rewrite <- E1; apply H1).
    pose proof (valid_step b after V1) as (W1 & W2 & W3 & _). cbv zeta in W1, W2, W3.
    remember (char_width b) as w eqn:Ew.
    replace ((w =? 0) || (length (b :: after) <? w)) with false.
    2:{ symmetry. apply orb_false_iff. split; [apply Nat.eqb_neq; lia | apply Nat.ltb_ge; lia]. }
    assert (H2 : cur_ok (advn w c1)).
    { apply cur_ok_advn; [exact H1 | rewrite E1; exact W2 | rewrite E1; exact W3]. }
    assert (Dd : Forall (diag_wf s) [mk_diag EUnexpectedChar 0 (c_pos c1) (c_pos c1 + w)]).
    { apply Forall_cons; [|apply Forall_nil]. apply mk_diag_wf.
      apply (span_curs (c_pos c1) (advn w c1) (cur_ok_boundary _ H1) H2). cbn. lia. }
    destruct (Rec (advn w c1) _ H2 ltac:(cbn; lia) Dd) as (t & c' & ds & E & R).
    exists t, c', ds. split; [|exact R]. unfold prepend_diag.
    destruct (next_token fuel repaired s (advn w c1)) as [[[t0 c0] ds0]| |]; exact E. }
  (* an unexpected ASCII byte *)
  apply negb_false_iff in Cn.
  destruct (cur_ok_step (c_rest c1) (c_pos c1) b after) as [H2 _];
    [rewrite advn_eta; exact H1 | exact E1 | exact Cn |].
  assert (H2' : cur_ok (adv1 c1)) by (unfold adv1; rewrite E1; exact H2).
  assert (Dd : Forall (diag_wf s) [mk_diag EUnexpectedChar 0 (c_pos c1) (c_pos c1)]).
  { apply Forall_cons; [|apply Forall_nil]. apply mk_diag_wf.
    apply (span_curs (c_pos c1) c1 (cur_ok_boundary _ H1) H1). lia. }
  destruct (Rec (adv1 c1) _ H2' ltac:(cbn; lia) Dd) as (t & c' & ds & E & R).
  exists t, c', ds. split; [|exact R]. unfold prepend_diag.
  destruct (next_token fuel repaired s (adv1 c1)) as [[[t0 c0] ds0]| |]; exact E.
Qed.

(* ---------------------------------------------------------------- the token stream *)

Lemma lex_loop_ok : forall fuel c lo, cur_ok c -> length (c_rest c) < fuel -> lo <= c_pos c ->
  exists toks ds, lex_loop fuel repaired s c = Ok (toks, ds, length s) /\
    Forall (token_wf s) toks /\ Forall (diag_wf s) ds /\ tokens_ordered lo toks.
Proof.
  induction fuel as [|fuel IH]; intros c lo H F L; [lia|].
  cbn [lex_loop].
  destruct (next_token_ok (token_fuel c) c H) as (t & c' & ds & E & H' & (G1 & G2 & G3 & G4) & D).
  { unfold token_fuel. lia. }
  rewrite E.
  destruct (is_eof t && (length s <=? c_pos c')) eqn:C.
  - apply andb_true_iff in C as [_ C]. apply Nat.leb_le in C.
    assert (c_pos c' = length s) by (destruct H' as (_ & L' & _); lia).
    exists [], ds. rewrite H0. refine (conj eq_refl (conj (Forall_nil _) (conj D I))).
  - assert (P : t_start t < t_end t).
    { destruct G4 as [G4 | (G4 & G5 & _)]; [exact G4|].
      exfalso. rewrite G4 in C. cbn in C. apply Nat.leb_gt in C.
      pose proof (cur_ok_nil _ H' G5). lia. }
    destruct (IH c' (t_end t) H') as (toks & ds' & E' & T' & D' & O').
    { rewrite (cur_ok_len _ H'). rewrite (cur_ok_len _ H) in F. destruct H' as (_ & L' & _). lia. }
    { lia. }
    rewrite E'. exists (t :: toks), (ds ++ ds').
    refine (conj eq_refl (conj _ (conj _ _))).
    + apply Forall_cons; [|exact T']. unfold token_wf.
      apply span_ok; [exact G3 | rewrite G2; apply cur_ok_boundary; exact H' | lia | rewrite G2; apply H'].
    + apply Forall_app. split; assumption.
    + cbn [tokens_ordered]. refine (conj _ (conj P O')). lia.
Qed.

End Source.

(* ---------------------------------------------------------------- theorems *)

Theorem lex_total_spans_wf_repaired : forall s, valid_utf8 s = true ->
  exists toks diags, lex repaired s = Ok (toks, diags, length s) /\
    Forall (token_wf s) toks /\ Forall (diag_wf s) diags /\ tokens_ordered 0 toks.
Proof.
  intros s V. unfold lex. apply (lex_loop_ok s); [apply cur_ok_start; exact V | cbn; lia | cbn; lia].
Qed.

(* one call of next_token from a well-formed cursor: it returns (never LexPanic / OutOfFuel),
   leaves a well-formed cursor, and either consumed at least one byte or reports the end *)
Theorem lex_progress_repaired : forall s c, valid_utf8 s = true -> cursor_wf s c ->
  exists t c' ds, next_token (token_fuel c) repaired s c = Ok (t, c', ds) /\ cursor_wf s c' /\
    c_pos c <= t_start t /\ t_end t = c_pos c' /\
    (c_pos c < c_pos c' \/ (is_eof t = true /\ c_pos c' = length s)).
Proof.
  intros s c V (R & L & B).
  assert (H : cur_ok s c).
  { refine (conj R (conj L _)). rewrite R. apply boundary_valid_suffix; assumption. }
  destruct (next_token_ok s (token_fuel c) c H) as (t & c' & ds & E & H' & (G1 & G2 & G3 & G4) & D).
  { unfold token_fuel. lia. }
  exists t, c', ds. refine (conj E (conj (cur_ok_wf s c' H') (conj G1 (conj G2 _)))).
  destruct G4 as [G4 | (G4 & G5 & G6)]; [left; lia|].
  right. split; [exact G4|]. apply (cur_ok_nil s); assumption.
Qed.

(* ---------------------------------------------------------------- the shipped lexer is refuted *)

(* `1.é` : the cursor lands inside é and chars() is called on a non-boundary *)
Lemma shipped_bad_dot_panics :
  valid_utf8 [49; 46; 195; 169]%Z = true /\ lex shipped [49; 46; 195; 169]%Z = LexPanic PNonAsciiChars 3.
Proof. split; vm_compute; reflexivity. Qed.

(* `1.` at the end of the text: the cursor ends at len + 1 *)
Lemma shipped_bad_dot_overruns :
  exists toks ds, lex shipped [49; 46]%Z = Ok (toks, ds, 3).
Proof. eexists _, _. vm_compute. reflexivity. Qed.

(* `"\é"` : the escape diagnostic ends inside é, the next re-slice starts there *)
Lemma shipped_escape_panics :
  valid_utf8 [34; 92; 195; 169; 34]%Z = true /\ lex shipped [34; 92; 195; 169; 34]%Z = LexPanic PStringSlice 3.
Proof. split; vm_compute; reflexivity. Qed.
