(* C18 — analysis budgets: lemmas about theories/Limits.v. *)
From Coq Require Import ZArith List Bool Lia Permutation Sorted String.
Require Import NS.theories.GenLimits NS.theories.Limits.
Import ListNotations.
Open Scope Z_scope.

(* ------------------------------------------------------------------------------------ *)
(** * The model follows the source text (generated tables) *)

Lemma stage_order_matches_source :
  map (fun m => (metric_name m, cap_field_name (metric_cap m), ">"%string)) all_metrics
  = GenLimits.stage_order.
Proof. reflexivity. Qed.

Lemma caps_fields_match_source :
  map (fun f => (cap_field_name f, cap_field_type f)) all_cap_fields = GenLimits.caps_fields.
Proof. reflexivity. Qed.

Lemma summary_budget_is_summary_cap :
  GenLimits.summary_budget_cap = cap_field_name (metric_cap MSummary).
Proof. reflexivity. Qed.

(* the over-limit branch of emit_analysis_warnings: DEFAULT_CAPS, exactly one diagnostic,
   a warning of category "analysis", plan cleared, early return, analyses only afterwards *)
Lemma gate_shape_matches_source :
  GenLimits.gate_caps_expr = "limits::DEFAULT_CAPS"%string /\
  GenLimits.gate_limit_emits = [("Warning"%string, "analysis"%string)] /\
  GenLimits.gate_limit_other_emits = 0 /\
  GenLimits.gate_limit_clears_plan = true /\
  GenLimits.gate_limit_returns = true /\
  GenLimits.gate_analyses_after_branch = true.
Proof. repeat split; reflexivity. Qed.

(* the derived bounds are computed in u64 with the saturating operations the model uses (and
   the one unchecked `+`), the liveness fold subtracts two u32 range ends *)
Lemma derived_bound_arithmetic_matches_source :
  GenLimits.summary_event_bound_types = summary_bound_types_modelled /\
  GenLimits.summary_event_bound_ops = summary_bound_ops_modelled /\
  GenLimits.liveness_event_bound_types = liveness_bound_types_modelled /\
  GenLimits.liveness_event_bound_ops = liveness_bound_ops_modelled.
Proof. repeat split; reflexivity. Qed.

(* run_with_analysis installs the facts and the plan option without looking at the plan *)
Lemma run_with_analysis_matches_source :
  GenLimits.run_with_analysis_stmts = run_with_analysis_modelled /\
  GenLimits.run_with_analysis_branches = 0.
Proof. split; reflexivity. Qed.

(* the plan is only stored, cleared, handed out by the accessor and consulted by the two prune
   predicates *)
Lemma runtime_plan_users_match_source :
  GenLimits.runtime_plan_users =
  ["new_with_host_policy"; "run_with_analysis"; "function_is_pruned"; "stmt_is_pruned";
   "optimization_plan"]%string.
Proof. reflexivity. Qed.

(* ------------------------------------------------------------------------------------ *)
(** * Saturating arithmetic *)

Lemma u64_max_pos : 0 < u64_max. Proof. reflexivity. Qed.
Lemma u32_lt_u64 : u32_max < u64_max. Proof. reflexivity. Qed.

Lemma sat_add_range a b : 0 <= a -> 0 <= b -> 0 <= sat_add a b <= u64_max.
Proof. unfold sat_add. pose proof u64_max_pos. lia. Qed.

Lemma sat_mul_range a b : 0 <= a -> 0 <= b -> 0 <= sat_mul a b <= u64_max.
Proof. intros. unfold sat_mul. pose proof u64_max_pos. assert (0 <= a * b) by nia. lia. Qed.

(* saturating operations compute min (exact, MAX), compositionally *)
Lemma sat_add_min a b : 0 <= a -> 0 <= b ->
  sat_add (Z.min a u64_max) (Z.min b u64_max) = Z.min (a + b) u64_max.
Proof. pose proof u64_max_pos. unfold sat_add. lia. Qed.

Lemma sat_mul_min a b : 0 <= a -> 0 <= b ->
  sat_mul (Z.min a u64_max) (Z.min b u64_max) = Z.min (a * b) u64_max.
Proof.
  intros Ha Hb. unfold sat_mul. pose proof u64_max_pos as HM.
  destruct (Z.le_gt_cases a u64_max) as [Ha'|Ha'];
  destruct (Z.le_gt_cases b u64_max) as [Hb'|Hb'].
  - rewrite (Z.min_l a) by lia. rewrite (Z.min_l b) by lia. reflexivity.
  - rewrite (Z.min_l a) by lia. rewrite (Z.min_r b) by lia.
    destruct (Z.eq_dec a 0) as [->|Hz]; [rewrite !Z.mul_0_l; reflexivity|].
    rewrite (Z.min_r (a * b)) by nia. rewrite Z.min_r by nia. reflexivity.
  - rewrite (Z.min_r a) by lia. rewrite (Z.min_l b) by lia.
    destruct (Z.eq_dec b 0) as [->|Hz]; [rewrite !Z.mul_0_r; reflexivity|].
    rewrite (Z.min_r (a * b)) by nia. rewrite Z.min_r by nia. reflexivity.
  - rewrite (Z.min_r a) by lia. rewrite (Z.min_r b) by lia.
    rewrite (Z.min_r (a * b)) by nia. rewrite Z.min_r by nia. reflexivity.
Qed.

Lemma sat_add_exact a b : 0 <= a -> 0 <= b -> a + b <= u64_max -> sat_add a b = a + b.
Proof. unfold sat_add. lia. Qed.

Lemma sat_mul_exact a b : 0 <= a -> 0 <= b -> a * b <= u64_max -> sat_mul a b = a * b.
Proof. unfold sat_mul. lia. Qed.

Lemma sat_add_mono a b a' b' : a <= a' -> b <= b' -> sat_add a b <= sat_add a' b'.
Proof. unfold sat_add. lia. Qed.

Lemma sat_mul_mono a b a' b' : 0 <= a <= a' -> 0 <= b <= b' -> sat_mul a b <= sat_mul a' b'.
Proof. unfold sat_mul. intros. assert (a * b <= a' * b') by nia. lia. Qed.

(* the unchecked `+ 2` never overflows for a local count that fits u32 (indeed for any
   count below 2^63 - 1, i.e. any Vec length) *)
Lemma summary_add_no_overflow l :
  0 <= l -> l * 2 + 2 <= u64_max ->
  summary_add_overflows l = false /\ wrap_add (sat_mul l 2) 2 = l * 2 + 2.
Proof.
  intros Hl Hb. unfold summary_add_overflows, add_overflows, wrap_add.
  rewrite sat_mul_exact by lia. split.
  - apply Z.ltb_ge. lia.
  - apply Z.mod_small. lia.
Qed.

Lemma summary_add_no_overflow_u32 l :
  0 <= l <= u32_max -> summary_add_overflows l = false /\ wrap_add (sat_mul l 2) 2 = l * 2 + 2.
Proof. intros H. apply summary_add_no_overflow; unfold u32_max, u64_max in *; lia. Qed.

(* with the `+ 2` in range the summary bound is min (exact, u64::MAX) *)
Lemma summary_bound_min f l :
  0 <= f -> 0 <= l -> l * 2 + 2 <= u64_max ->
  summary_event_bound f l = Z.min (summary_exact f l) u64_max.
Proof.
  intros Hf Hl Hb. unfold summary_event_bound, summary_exact.
  destruct (summary_add_no_overflow l Hl Hb) as [_ ->].
  pose proof u64_max_pos as HM.
  replace (sat_add f (l * 2 + 2)) with (sat_add (Z.min f (Z.max f u64_max)) (l * 2 + 2)) by (f_equal; lia).
  unfold sat_add at 1. rewrite (Z.min_l f) by lia.
  destruct (Z.le_gt_cases f u64_max) as [Hle|Hgt].
  - replace f with (Z.min f u64_max) at 1 by lia.
    rewrite sat_mul_min by lia. reflexivity.
  - unfold sat_mul. rewrite (Z.min_r (f + _)) by lia.
    rewrite Z.min_r by nia. rewrite Z.min_r by nia. reflexivity.
Qed.

Lemma fn_events_min x :
  0 <= fc_blocks x -> 0 <= fc_ops x -> 0 <= fc_locals x ->
  fn_events x = Z.min (fn_events_exact x) u64_max.
Proof.
  intros Hb Ho Hl. unfold fn_events, fn_events_exact. pose proof u64_max_pos as HM.
  assert (E1 : sat_mul (fc_blocks x) 2 = Z.min (fc_blocks x * 2) u64_max) by reflexivity.
  rewrite E1.
  assert (E2 : sat_add (Z.min (fc_blocks x * 2) u64_max) (fc_ops x)
               = Z.min (fc_blocks x * 2 + fc_ops x) u64_max).
  { unfold sat_add. lia. }
  rewrite E2.
  destruct (Z.le_gt_cases (fc_locals x) u64_max) as [Hle|Hgt].
  - replace (fc_locals x) with (Z.min (fc_locals x) u64_max) at 1 by lia.
    apply sat_mul_min; lia.
  - unfold sat_mul.
    destruct (Z.eq_dec (fc_blocks x * 2 + fc_ops x) 0) as [Hz|Hz].
    + rewrite Hz. rewrite (Z.min_l 0) by lia. reflexivity.
    + assert (1 <= Z.min (fc_blocks x * 2 + fc_ops x) u64_max) by lia.
      rewrite Z.min_r by nia. rewrite Z.min_r by nia. reflexivity.
Qed.

Lemma fn_events_nonneg x :
  0 <= fc_blocks x -> 0 <= fc_ops x -> 0 <= fc_locals x -> 0 <= fn_events_exact x.
Proof. unfold fn_events_exact. nia. Qed.

Definition fn_nonneg (x : fn_counts) : Prop :=
  0 <= fc_blocks x /\ 0 <= fc_ops x /\ 0 <= fc_locals x.

Lemma fn_wf_nonneg x : fn_wf x -> fn_nonneg x.
Proof. unfold fn_wf, fn_nonneg. lia. Qed.

Lemma liveness_fold_min pf : Forall fn_nonneg pf -> forall acc, 0 <= acc ->
  fold_left (fun events x => sat_add events (fn_events x)) pf (Z.min acc u64_max)
  = Z.min (fold_left (fun events x => events + fn_events_exact x) pf acc) u64_max.
Proof.
  induction 1 as [|x pf Hx _ IH]; intros acc Hacc; cbn [fold_left]; [reflexivity|].
  destruct Hx as (Hb & Ho & Hl).
  rewrite fn_events_min by assumption.
  rewrite sat_add_min by (try assumption; apply fn_events_nonneg; assumption).
  apply IH. pose proof (fn_events_nonneg x Hb Ho Hl). lia.
Qed.

(* the liveness bound is min (exact, u64::MAX): saturation never produces a smaller number *)
Lemma liveness_bound_min pf : Forall fn_nonneg pf ->
  liveness_event_bound pf = Z.min (liveness_exact pf) u64_max.
Proof.
  intros H. unfold liveness_event_bound, liveness_exact.
  replace 0 with (Z.min 0 u64_max) at 1 by reflexivity.
  apply liveness_fold_min; [assumption|lia].
Qed.

Lemma liveness_exact_fold_nonneg pf : Forall fn_nonneg pf -> forall acc, 0 <= acc ->
  acc <= fold_left (fun events x => events + fn_events_exact x) pf acc.
Proof.
  induction 1 as [|x pf Hx _ IH]; intros acc Hacc; cbn [fold_left]; [lia|].
  destruct Hx as (Hb & Ho & Hl). pose proof (fn_events_nonneg x Hb Ho Hl).
  specialize (IH (acc + fn_events_exact x)). lia.
Qed.

Lemma liveness_exact_nonneg pf : Forall fn_nonneg pf -> 0 <= liveness_exact pf.
Proof. intros H. apply (liveness_exact_fold_nonneg pf H 0). lia. Qed.

(* comparing a saturated value with a cap below u64::MAX decides the exact comparison *)
Lemma exceeds_min_exact v cap : cap < u64_max ->
  exceeds (Z.min v u64_max) cap = exceeds v cap.
Proof.
  intros Hc. unfold exceeds.
  destruct (Z.ltb_spec cap (Z.min v u64_max)); destruct (Z.ltb_spec cap v); try reflexivity; lia.
Qed.

Lemma exceeds_true_iff o cap : exceeds o cap = true <-> cap < o.
Proof. unfold exceeds. apply Z.ltb_lt. Qed.

Lemma exceeds_false_iff o cap : exceeds o cap = false <-> o <= cap.
Proof. unfold exceeds. apply Z.ltb_ge. Qed.

(* ------------------------------------------------------------------------------------ *)
(** * first_exceeded_limit: which stage is reported *)

Lemma stage_eq c k m rest :
  stage m (observed c m) (cap_value k (metric_cap m)) rest =
  if trips c k m
  then match observed c m with
       | Some o => Some (mkLimit m o (cap_value k (metric_cap m)))
       | None => rest
       end
  else rest.
Proof.
  unfold stage, trips. destruct (observed c m) as [o|]; [|reflexivity].
  destruct (exceeds o _); reflexivity.
Qed.

Lemma trips_observed c k m : trips c k m = true ->
  exists o, observed c m = Some o /\ cap_value k (metric_cap m) < o.
Proof.
  unfold trips. destruct (observed c m) as [o|]; [|discriminate].
  intros H. exists o. split; [reflexivity|]. apply exceeds_true_iff. exact H.
Qed.

Lemma from_app_none pre ms c k :
  (forall m, In m pre -> trips c k m = false) ->
  first_exceeded_from (pre ++ ms) c k = first_exceeded_from ms c k.
Proof.
  induction pre as [|p pre IH]; intros H; [reflexivity|].
  cbn [app]. unfold first_exceeded_from in *. cbn [fold_right]. rewrite stage_eq.
  rewrite (H p) by (left; reflexivity). apply IH. intros m Hm. apply H. right. exact Hm.
Qed.

Lemma from_cons_trip m ms c k o :
  trips c k m = true -> observed c m = Some o ->
  first_exceeded_from (m :: ms) c k = Some (mkLimit m o (cap_value k (metric_cap m))).
Proof.
  intros Ht Ho. unfold first_exceeded_from. cbn [fold_right]. rewrite stage_eq, Ht, Ho. reflexivity.
Qed.

Lemma from_none_iff ms c k :
  first_exceeded_from ms c k = None <-> forall m, In m ms -> trips c k m = false.
Proof.
  induction ms as [|m ms IH].
  - split; [intros _ m []|reflexivity].
  - unfold first_exceeded_from in *. cbn [fold_right]. rewrite stage_eq. split.
    + intros H. destruct (trips c k m) eqn:Ht.
      * destruct (trips_observed c k m Ht) as (o & Ho & _). rewrite Ho in H. discriminate.
      * intros m' [<-|Hin]; [exact Ht|]. apply IH; assumption.
    + intros H. rewrite (H m) by (left; reflexivity). apply IH. intros m' Hm'. apply H. right. exact Hm'.
Qed.

Lemma from_some_split ms c k l :
  first_exceeded_from ms c k = Some l ->
  exists pre post, ms = pre ++ l_metric l :: post /\
    (forall m, In m pre -> trips c k m = false) /\
    trips c k (l_metric l) = true /\
    observed c (l_metric l) = Some (l_observed l) /\
    l_limit l = cap_value k (metric_cap (l_metric l)).
Proof.
  induction ms as [|m ms IH]; [discriminate|].
  unfold first_exceeded_from in *. cbn [fold_right]. rewrite stage_eq.
  destruct (trips c k m) eqn:Ht.
  - destruct (trips_observed c k m Ht) as (o & Ho & _). rewrite Ho. intros H. inversion H; subst l.
    exists [], ms. cbn. repeat split; try assumption. intros ? [].
  - intros H. destruct (IH H) as (pre & post & E & Hpre & Hm & Ho & Hl).
    exists (m :: pre), post. rewrite E. repeat split; try assumption.
    intros m' [<-|Hin]; [exact Ht|apply Hpre; exact Hin].
Qed.

(* the metrics checked before [m] *)
Definition earlier_metrics (m : metric) : list metric :=
  firstn (Z.to_nat (metric_index m)) all_metrics.
Definition later_metrics (m : metric) : list metric :=
  skipn (S (Z.to_nat (metric_index m))) all_metrics.

Lemma all_metrics_split m : all_metrics = earlier_metrics m ++ m :: later_metrics m.
Proof. destruct m; reflexivity. Qed.

Lemma all_metrics_complete m : In m all_metrics.
Proof. destruct m; cbn; tauto. Qed.

Lemma all_metrics_nodup : NoDup all_metrics.
Proof.
  unfold all_metrics.
  repeat (constructor; [cbn; intros H; repeat (destruct H as [H|H]; [discriminate|]); exact H|]).
  constructor.
Qed.

Lemma earlier_metrics_iff m m' : In m' (earlier_metrics m) <-> metric_index m' < metric_index m.
Proof.
  destruct m; destruct m'; unfold earlier_metrics; split; intros H;
    vm_compute in H; vm_compute; try reflexivity; try discriminate;
    try (repeat (first [left; reflexivity | right]); fail);
    repeat (destruct H as [H|H]; try discriminate); try contradiction.
Qed.

Lemma nodup_split_unique (A : Type) (l : list A) : NoDup l ->
  forall x pre post pre' post', l = pre ++ x :: post -> l = pre' ++ x :: post' -> pre = pre'.
Proof.
  induction 1 as [|a l Hnin Hnd IH]; intros x pre post pre' post' E E'.
  - destruct pre; discriminate.
  - destruct pre as [|p pre]; destruct pre' as [|p' pre']; cbn in *.
    + reflexivity.
    + injection E as Ea El. injection E' as Ea' El'. exfalso. apply Hnin.
      rewrite El', Ea. apply in_or_app. right. left. reflexivity.
    + injection E as Ea El. injection E' as Ea' El'. exfalso. apply Hnin.
      rewrite El, Ea'. apply in_or_app. right. left. reflexivity.
    + injection E as Ea El. injection E' as Ea' El'. f_equal; [congruence|].
      eapply IH; eassumption.
Qed.

(* the staged order: the reported limit is the first stage, in source order, that trips *)
Lemma first_limit_order_lemma c k l :
  first_exceeded_limit c k = Some l <->
  trips c k (l_metric l) = true /\
  (forall m, metric_index m < metric_index (l_metric l) -> trips c k m = false) /\
  observed c (l_metric l) = Some (l_observed l) /\
  l_limit l = cap_value k (metric_cap (l_metric l)).
Proof.
  unfold first_exceeded_limit. split.
  - intros H. destruct (from_some_split _ _ _ _ H) as (pre & post & E & Hpre & Ht & Ho & Hl).
    assert (pre = earlier_metrics (l_metric l)) as ->.
    { eapply nodup_split_unique; [apply all_metrics_nodup|exact E|apply all_metrics_split]. }
    repeat split; try assumption. intros m Hm. apply Hpre. apply earlier_metrics_iff. exact Hm.
  - intros (Ht & Hpre & Ho & Hl). rewrite (all_metrics_split (l_metric l)).
    rewrite from_app_none by (intros m Hm; apply Hpre; apply earlier_metrics_iff; exact Hm).
    rewrite (from_cons_trip _ _ _ _ _ Ht Ho). destruct l; cbn in *. subst. reflexivity.
Qed.

Lemma no_limit_iff c k : first_exceeded_limit c k = None <-> forall m, trips c k m = false.
Proof.
  unfold first_exceeded_limit. rewrite from_none_iff. split.
  - intros H m. apply H. apply all_metrics_complete.
  - intros H m _. apply H.
Qed.

(* a stage trips exactly when its observation is above its cap *)
Lemma trips_iff c k m :
  trips c k m = true <-> exists o, observed c m = Some o /\ cap_value k (metric_cap m) < o.
Proof.
  split; [apply trips_observed|]. intros (o & Ho & Hlt). unfold trips. rewrite Ho.
  apply exceeds_true_iff. exact Hlt.
Qed.

Lemma no_limit_all_within c k :
  first_exceeded_limit c k = None <->
  forall m o, observed c m = Some o -> o <= cap_value k (metric_cap m).
Proof.
  rewrite no_limit_iff. split.
  - intros H m o Ho. specialize (H m). unfold trips in H. rewrite Ho in H.
    apply exceeds_false_iff. exact H.
  - intros H m. unfold trips. destruct (observed c m) as [o|] eqn:Ho; [|reflexivity].
    apply exceeds_false_iff. apply (H m). exact Ho.
Qed.

(* when several stages trip, the reported one has the smallest index *)
Lemma reported_is_minimal c k l m :
  first_exceeded_limit c k = Some l -> trips c k m = true ->
  metric_index (l_metric l) <= metric_index m.
Proof.
  intros H Hm. apply first_limit_order_lemma in H. destruct H as (_ & Hpre & _).
  destruct (Z.le_gt_cases (metric_index (l_metric l)) (metric_index m)) as [|Hgt]; [assumption|].
  rewrite (Hpre m) in Hm by lia. discriminate.
Qed.

Lemma some_limit_iff_trips c k :
  (exists l, first_exceeded_limit c k = Some l) <-> exists m, trips c k m = true.
Proof.
  split.
  - intros (l & H). exists (l_metric l). apply first_limit_order_lemma in H. tauto.
  - intros (m & Hm). destruct (first_exceeded_limit c k) as [l|] eqn:E; [exists l; reflexivity|].
    rewrite no_limit_iff in E. rewrite E in Hm. discriminate.
Qed.

(* the per-function stages look at the largest entry *)
Lemma max_fold_spec (f : fn_counts -> Z) (r : list fn_counts) : forall a,
  let v := fold_left (fun m y => Z.max m (f y)) r a in
  a <= v /\ (forall y, In y r -> f y <= v) /\ (v = a \/ exists y, In y r /\ f y = v).
Proof.
  induction r as [|x r IH]; intros a; cbn [fold_left].
  - cbn. repeat split; [lia|intros y []|left; reflexivity].
  - specialize (IH (Z.max a (f x))). cbn zeta in *. destruct IH as (H1 & H2 & H3).
    repeat split.
    + lia.
    + intros y [<-|Hy]; [lia|apply H2; exact Hy].
    + destruct H3 as [H3|(y & Hy & Ey)].
      * destruct (Z.max_spec a (f x)) as [[_ E]|[_ E]].
        -- right. exists x. split; [left; reflexivity|congruence].
        -- left. congruence.
      * right. exists y. split; [right; exact Hy|exact Ey].
Qed.

Lemma max_of_spec f pf v : max_of f pf = Some v <->
  (exists x, In x pf /\ f x = v) /\ (forall y, In y pf -> f y <= v).
Proof.
  destruct pf as [|x r]; cbn [max_of].
  - split; [discriminate|]. intros ((x & [] & _) & _).
  - pose proof (max_fold_spec f r (f x)) as H. cbn zeta in H. destruct H as (H1 & H2 & H3). split.
    + intros E. inversion E; subst v. split.
      * destruct H3 as [H3|(y & Hy & Ey)].
        -- exists x. split; [left; reflexivity|symmetry; exact H3].
        -- exists y. split; [right; exact Hy|exact Ey].
      * intros y [<-|Hy]; [exact H1|apply H2; exact Hy].
    + intros ((y & Hy & Ey) & Hall). f_equal.
      set (v' := fold_left _ r (f x)) in *.
      assert (v <= v') by (destruct Hy as [<-|Hy]; [lia|rewrite <- Ey; apply H2; exact Hy]).
      assert (v' <= v).
      { destruct H3 as [->|(z & Hz & Ez)]; [apply Hall; left; reflexivity|].
        rewrite <- Ez. apply Hall. right. exact Hz. }
      lia.
Qed.

Lemma max_of_none f pf : max_of f pf = None <-> pf = [].
Proof. destruct pf; cbn; split; intros H; try reflexivity; discriminate. Qed.

(* "ops in one function" trips iff some function has more ops than the cap *)
Lemma per_fn_stage_trips c k m f :
  (m = MOpsInFn /\ f = fc_ops) \/ (m = MBlocksInFn /\ f = fc_blocks) ->
  (trips c k m = true <-> exists x, In x (per_fn c) /\ cap_value k (metric_cap m) < f x).
Proof.
  intros Hm. rewrite trips_iff.
  assert (Eo : observed c m = max_of f (per_fn c)) by (destruct Hm as [[-> ->]|[-> ->]]; reflexivity).
  rewrite Eo. split.
  - intros (o & Ho & Hlt). apply max_of_spec in Ho. destruct Ho as ((x & Hx & Ex) & _).
    exists x. split; [exact Hx|lia].
  - intros (x & Hx & Hlt). destruct (max_of f (per_fn c)) as [v|] eqn:E.
    + exists v. split; [reflexivity|]. apply max_of_spec in E. destruct E as (_ & Hall).
      specialize (Hall x Hx). lia.
    + apply max_of_none in E. rewrite E in Hx. destruct Hx.
Qed.

(* ------------------------------------------------------------------------------------ *)
(** * No silent wrap-around in the derived bounds *)

(* When the summary stage is reached (the locals stage did not trip) with caps that are values
   of their Rust types, the unchecked `+ 2` is in range, so debug and release builds agree and
   the bound is min (exact, u64::MAX). *)
Lemma summary_stage_no_wrap c k :
  caps_wf k -> 0 <= n_locals c -> trips c k MLocals = false ->
  summary_add_overflows (n_locals c) = false /\
  summary_event_bound (n_functions c) (n_locals c)
  = Z.min (summary_exact (n_functions c) (n_locals c)) u64_max.
Proof.
  intros Hk Hl Ht. unfold trips in Ht. cbn [observed metric_cap cap_value] in Ht.
  apply exceeds_false_iff in Ht. pose proof (Hk CLocals) as HkL. cbn [cap_value cap_max] in HkL.
  assert (Hb : n_locals c * 2 + 2 <= u64_max) by (unfold u32_max, u64_max in *; lia).
  split.
  - apply summary_add_no_overflow; assumption.
  - apply summary_bound_min; try assumption. unfold n_functions. lia.
Qed.

(* Whenever first_exceeded_limit gets as far as the derived bounds, its verdict on them is the
   verdict of unbounded arithmetic, provided the two event caps are below u64::MAX (with a cap
   of exactly u64::MAX the saturated bound can never exceed it). *)
Lemma derived_verdicts_exact c k :
  caps_wf k -> counts_wf c -> trips c k MLocals = false ->
  (max_summary_events k < u64_max ->
   trips c k MSummary = exceeds (summary_exact (n_functions c) (n_locals c)) (max_summary_events k)) /\
  (max_liveness_events k < u64_max ->
   trips c k MLiveness = exceeds (liveness_exact (per_fn c)) (max_liveness_events k)).
Proof.
  intros Hk Hc Ht. destruct Hc as (Hpf & HL & _). split; intros Hcap.
  - unfold trips. cbn [observed metric_cap cap_value].
    destruct (summary_stage_no_wrap c k Hk (proj1 HL) Ht) as [_ ->].
    apply exceeds_min_exact. exact Hcap.
  - unfold trips. cbn [observed metric_cap cap_value].
    rewrite liveness_bound_min by (eapply Forall_impl; [|exact Hpf]; apply fn_wf_nonneg).
    apply exceeds_min_exact. exact Hcap.
Qed.

(* ------------------------------------------------------------------------------------ *)
(** * Thresholds *)

(* the number of functions at which the summary bound trips, for a given number of locals *)
Lemma summary_threshold_exact cap l f :
  0 <= cap -> 0 <= l -> 0 <= f ->
  (cap < summary_exact f l <-> summary_fn_threshold cap l <= f).
Proof.
  intros Hc Hl Hf. unfold summary_exact, summary_fn_threshold.
  set (n := cap + (l + 1) * (l + 1)).
  assert (Hn : 0 <= n) by (unfold n; nia).
  pose proof (Z.sqrt_spec n Hn) as Hs. cbn zeta in Hs.
  set (s := Z.sqrt n) in *.
  assert (Hs0 : 0 <= s) by apply Z.sqrt_nonneg.
  assert (E : f * (f + (l * 2 + 2)) = (f + l + 1) * (f + l + 1) - (l + 1) * (l + 1)) by ring.
  rewrite E. split; intros H.
  - assert (n < (f + l + 1) * (f + l + 1)) by (unfold n; lia).
    assert (s < f + l + 1) by nia. lia.
  - assert (s + 1 <= f + l + 1) by lia.
    assert ((s + 1) * (s + 1) <= (f + l + 1) * (f + l + 1)) by nia.
    unfold n in *. replace (Z.succ s) with (s + 1) in Hs by lia. lia.
Qed.

Lemma summary_exact_mono f l f' l' :
  0 <= f <= f' -> 0 <= l <= l' -> summary_exact f l <= summary_exact f' l'.
Proof. unfold summary_exact. nia. Qed.

(* the summary stage as a threshold on the number of functions *)
Lemma summary_trips_threshold c k :
  caps_wf k -> counts_wf c -> trips c k MLocals = false -> max_summary_events k < u64_max ->
  (trips c k MSummary = true <->
   summary_fn_threshold (max_summary_events k) (n_locals c) <= n_functions c).
Proof.
  intros Hk Hc Ht Hcap.
  destruct (derived_verdicts_exact c k Hk Hc Ht) as [HS _]. rewrite (HS Hcap).
  rewrite exceeds_true_iff. destruct Hc as (_ & HL & _).
  pose proof (Hk CSummary) as HkS. cbn [cap_value cap_max] in HkS.
  apply summary_threshold_exact; try lia. unfold n_functions. lia.
Qed.

(* one function alone: the liveness stage as a threshold on (2 * blocks + ops) * locals *)
Lemma liveness_exact_single x : liveness_exact [x] = fn_events_exact x.
Proof. unfold liveness_exact. cbn. lia. Qed.

Lemma liveness_exact_app pf pf' :
  liveness_exact (pf ++ pf') = liveness_exact pf + liveness_exact pf'.
Proof.
  unfold liveness_exact. rewrite fold_left_app.
  generalize (fold_left (fun events x => events + fn_events_exact x) pf 0) as a.
  induction pf' as [|x r IH]; intros a; cbn [fold_left]; [lia|].
  rewrite IH. rewrite (IH (0 + _)). lia.
Qed.

Lemma liveness_exact_cons x pf : liveness_exact (x :: pf) = fn_events_exact x + liveness_exact pf.
Proof. change (x :: pf) with ([x] ++ pf). rewrite liveness_exact_app, liveness_exact_single. reflexivity. Qed.

(* functions without locals cost the liveness budget nothing *)
Lemma liveness_exact_no_locals pf :
  Forall (fun x => fc_locals x = 0) pf -> liveness_exact pf = 0.
Proof.
  induction 1 as [|x pf Hx _ IH]; [reflexivity|].
  rewrite liveness_exact_cons, IH. unfold fn_events_exact. rewrite Hx. lia.
Qed.

(* ------------------------------------------------------------------------------------ *)
(** * Monotonicity: a smaller program never trips a limit a larger one passes *)

Definition fn_le (x y : fn_counts) : Prop :=
  fc_blocks x <= fc_blocks y /\ fc_ops x <= fc_ops y /\ fc_locals x <= fc_locals y.

(* [c'] measures at least as much as [c]: every function of [c] has a counterpart in [c']
   that is at least as large (same FunctionId), [c'] may have further functions, and every
   table is at least as long *)
Definition counts_le (c c' : counts) : Prop :=
  (exists pf'' extra,
     per_fn c' = pf'' ++ extra /\ Forall2 fn_le (per_fn c) pf'' /\ Forall fn_nonneg extra) /\
  n_locals c <= n_locals c' /\ n_scopes c <= n_scopes c' /\ n_statements c <= n_statements c' /\
  n_calls c <= n_calls c' /\ total_ops c <= total_ops c' /\ total_blocks c <= total_blocks c'.

Lemma fn_events_mono x y : fn_nonneg x -> fn_le x y -> fn_events x <= fn_events y.
Proof.
  intros (Hb & Ho & Hl) (Lb & Lo & Ll). unfold fn_events.
  apply sat_mul_mono; [|lia]. split.
  - apply sat_add_range; [apply sat_mul_range; lia|lia].
  - apply sat_add_mono; [apply sat_mul_mono; lia|lia].
Qed.

Lemma liveness_bound_mono pf pf' : Forall fn_nonneg pf -> Forall2 fn_le pf pf' ->
  forall a a', a <= a' ->
  fold_left (fun events x => sat_add events (fn_events x)) pf a
  <= fold_left (fun events x => sat_add events (fn_events x)) pf' a'.
Proof.
  intros Hnn H. induction H as [|x y pf pf' Hxy _ IH]; intros a a' Ha; cbn [fold_left]; [exact Ha|].
  inversion Hnn; subst. apply IH; [assumption|]. apply sat_add_mono; [exact Ha|].
  apply fn_events_mono; assumption.
Qed.

Lemma max_fold_mono (f : fn_counts -> Z) (r r' : list fn_counts) : Forall2 (fun x y => f x <= f y) r r' -> forall a a', a <= a' ->
  fold_left (fun m y => Z.max m (f y)) r a <= fold_left (fun m y => Z.max m (f y)) r' a'.
Proof.
  induction 1 as [|x y r r' Hxy _ IH]; intros a a' Ha; cbn [fold_left]; [exact Ha|].
  apply IH. lia.
Qed.

Lemma max_of_mono (f : fn_counts -> Z) pf pf' o : Forall2 (fun x y => f x <= f y) pf pf' ->
  max_of f pf = Some o -> exists o', max_of f pf' = Some o' /\ o <= o'.
Proof.
  intros H. destruct H as [|x y r r' Hxy Hr]; cbn [max_of]; [discriminate|].
  intros E. inversion E; subst o. eexists. split; [reflexivity|]. apply max_fold_mono; assumption.
Qed.

Lemma forall2_same_length (A B : Type) (R : A -> B -> Prop) l l' :
  Forall2 R l l' -> List.length l = List.length l'.
Proof. induction 1; cbn; congruence. Qed.

Lemma forall2_weaken (A B : Type) (R R' : A -> B -> Prop) l l' :
  (forall x y, R x y -> R' x y) -> Forall2 R l l' -> Forall2 R' l l'.
Proof. intros H. induction 1; constructor; auto. Qed.

Lemma fn_events_range x : fn_nonneg x -> 0 <= fn_events x <= u64_max.
Proof.
  intros (Hb & Ho & Hl). unfold fn_events. apply sat_mul_range; [|assumption].
  apply sat_add_range; [apply sat_mul_range; lia|assumption].
Qed.

Lemma liveness_fold_extra extra : Forall fn_nonneg extra -> forall a, 0 <= a <= u64_max ->
  a <= fold_left (fun events x => sat_add events (fn_events x)) extra a.
Proof.
  induction 1 as [|x r Hx _ IH]; intros a Ha; cbn [fold_left]; [lia|].
  pose proof (fn_events_range x Hx) as Hr.
  assert (Hs : a <= sat_add a (fn_events x) <= u64_max) by (unfold sat_add; lia).
  specialize (IH (sat_add a (fn_events x))). lia.
Qed.

Lemma liveness_fold_range pf : Forall fn_nonneg pf -> forall a, 0 <= a <= u64_max ->
  0 <= fold_left (fun events x => sat_add events (fn_events x)) pf a <= u64_max.
Proof.
  induction 1 as [|x r Hx _ IH]; intros a Ha; cbn [fold_left]; [lia|].
  apply IH. pose proof (fn_events_range x Hx). unfold sat_add. lia.
Qed.

Lemma max_of_app_ge (f : fn_counts -> Z) pf extra o :
  max_of f pf = Some o -> exists o', max_of f (pf ++ extra) = Some o' /\ o <= o'.
Proof.
  intros H. destruct (max_of f (pf ++ extra)) as [v|] eqn:E.
  - exists v. split; [reflexivity|]. apply max_of_spec in H. apply max_of_spec in E.
    destruct H as ((x & Hx & Ex) & _). destruct E as (_ & Hall). rewrite <- Ex. apply Hall.
    apply in_or_app. left. exact Hx.
  - apply max_of_none in E. destruct pf; [discriminate|discriminate].
Qed.

Lemma observed_mono c c' m o :
  counts_wf c -> n_locals c' * 2 + 2 <= u64_max -> counts_le c c' ->
  observed c m = Some o -> exists o', observed c' m = Some o' /\ o <= o'.
Proof.
  intros Hc Hb' ((pf'' & extra & Epf & Hpf & Hex) & HL & HS & HN & HC & HO & HB) Ho.
  destruct Hc as (Hwf & HL0 & _).
  assert (Hlen : n_functions c <= n_functions c').
  { unfold n_functions. rewrite Epf, app_length, (forall2_same_length _ _ _ _ _ Hpf). lia. }
  assert (Hnn : Forall fn_nonneg (per_fn c)) by (eapply Forall_impl; [|exact Hwf]; apply fn_wf_nonneg).
  destruct m; cbn [observed] in *;
    try (inversion Ho; subst o; eexists; split; [reflexivity|]; lia).
  - rewrite Epf. destruct (max_of_mono fc_ops (per_fn c) pf'' o) as (o1 & Ho1 & Hle1); [|exact Ho|].
    { eapply forall2_weaken; [|exact Hpf]. intros x y H. apply H. }
    destruct (max_of_app_ge fc_ops pf'' extra o1 Ho1) as (o2 & Ho2 & Hle2). exists o2. split; [exact Ho2|lia].
  - rewrite Epf. destruct (max_of_mono fc_blocks (per_fn c) pf'' o) as (o1 & Ho1 & Hle1); [|exact Ho|].
    { eapply forall2_weaken; [|exact Hpf]. intros x y H. apply H. }
    destruct (max_of_app_ge fc_blocks pf'' extra o1 Ho1) as (o2 & Ho2 & Hle2). exists o2. split; [exact Ho2|lia].
  - inversion Ho; subst o. eexists. split; [reflexivity|].
    unfold summary_event_bound.
    assert (Hf : 0 <= n_functions c) by (unfold n_functions; lia).
    destruct (summary_add_no_overflow (n_locals c)) as [_ ->]; [lia|lia|].
    destruct (summary_add_no_overflow (n_locals c')) as [_ ->]; [lia|lia|].
    apply sat_mul_mono; [lia|]. split.
    + apply sat_add_range; lia.
    + apply sat_add_mono; lia.
  - inversion Ho; subst o. eexists. split; [reflexivity|].
    unfold liveness_event_bound. rewrite Epf, fold_left_app.
    eapply Z.le_trans; [apply (liveness_bound_mono (per_fn c) pf'' Hnn Hpf 0 0); lia|].
    apply liveness_fold_extra; [exact Hex|].
    apply liveness_fold_range; [|unfold u64_max; lia].
    clear - Hnn Hpf. induction Hpf as [|x y l l' Hxy _ IH]; constructor.
    + inversion Hnn; subst. destruct H1 as (? & ? & ?). destruct Hxy as (? & ? & ?). unfold fn_nonneg. lia.
    + inversion Hnn; subst. apply IH. assumption.
Qed.

(* a smaller program passes every limit a larger one passes ... *)
Lemma limits_monotone_lemma c c' k :
  counts_wf c -> n_locals c' * 2 + 2 <= u64_max -> counts_le c c' ->
  first_exceeded_limit c' k = None -> first_exceeded_limit c k = None.
Proof.
  intros Hc Hb Hle H. rewrite no_limit_all_within in *. intros m o Ho.
  destruct (observed_mono c c' m o Hc Hb Hle Ho) as (o' & Ho' & Hoo').
  specialize (H m o' Ho'). lia.
Qed.

(* ... and every stage that trips for the smaller program trips for the larger one, so the
   larger program is over some limit too (possibly an earlier one) *)
Lemma trips_monotone_lemma c c' k m :
  counts_wf c -> n_locals c' * 2 + 2 <= u64_max -> counts_le c c' ->
  trips c k m = true -> trips c' k m = true.
Proof.
  intros Hc Hb Hle H. apply trips_iff in H. destruct H as (o & Ho & Hlt).
  destruct (observed_mono c c' m o Hc Hb Hle Ho) as (o' & Ho' & Hoo').
  apply trips_iff. exists o'. split; [exact Ho'|lia].
Qed.

Lemma over_limit_monotone_lemma c c' k l :
  counts_wf c -> n_locals c' * 2 + 2 <= u64_max -> counts_le c c' ->
  first_exceeded_limit c k = Some l ->
  exists l', first_exceeded_limit c' k = Some l' /\ metric_index (l_metric l') <= metric_index (l_metric l).
Proof.
  intros Hc Hb Hle H. apply first_limit_order_lemma in H. destruct H as (Ht & _).
  pose proof (trips_monotone_lemma c c' k _ Hc Hb Hle Ht) as Ht'.
  destruct (proj2 (some_limit_iff_trips c' k)) as (l' & Hl'); [exists (l_metric l); exact Ht'|].
  exists l'. split; [exact Hl'|]. eapply reported_is_minimal; eassumption.
Qed.

(* ------------------------------------------------------------------------------------ *)
(** * Stages that real programs cannot reach before an earlier one *)

Lemma sum_of_fold_ge (f : fn_counts -> Z) pf : Forall (fun x => 0 <= f x) pf -> forall a,
  a <= fold_left (fun a x => a + f x) pf a /\
  forall x, In x pf -> a + f x <= fold_left (fun a x => a + f x) pf a.
Proof.
  induction 1 as [|y pf Hy _ IH]; intros a; cbn [fold_left].
  - split; [lia|intros x []].
  - destruct (IH (a + f y)) as (H1 & H2). split; [lia|].
    intros x [<-|Hx]; [lia|]. specialize (H2 x Hx). lia.
Qed.

Lemma sum_of_ge_each (f : fn_counts -> Z) pf x : Forall (fun x => 0 <= f x) pf -> In x pf -> f x <= sum_of f pf.
Proof. intros H Hx. destruct (sum_of_fold_ge f pf H 0) as (_ & H2). specialize (H2 x Hx). unfold sum_of. lia. Qed.

(* total_ops = number of statements, so with max_total_ops >= max_statements the "cfg ops"
   stage is shadowed by the "statements" stage; and no single function has more ops than the
   program, so with max_ops_per_function >= max_total_ops "ops in one function" is shadowed too *)
Lemma ops_stages_shadowed_lemma c k l :
  counts_consistent c -> Forall fn_nonneg (per_fn c) ->
  max_statements k <= max_total_ops k -> max_total_ops k <= max_ops_per_function k ->
  first_exceeded_limit c k = Some l -> l_metric l <> MCfgOps /\ l_metric l <> MOpsInFn.
Proof.
  intros (Hops & _ & Hst & _) Hnn Hk1 Hk2 H.
  apply first_limit_order_lemma in H. destruct H as (Ht & Hpre & _).
  assert (HS : trips c k MStatements = false -> total_ops c <= max_total_ops k).
  { unfold trips. cbn [observed metric_cap cap_value]. rewrite exceeds_false_iff. lia. }
  split; intros E; rewrite E in *.
  - assert (Hs : trips c k MStatements = false) by (apply Hpre; cbn; lia).
    specialize (HS Hs). apply trips_observed in Ht. destruct Ht as (o & Ho & Hlt).
    cbn [observed metric_cap cap_value] in *. inversion Ho; subst o. lia.
  - assert (Hs : trips c k MStatements = false) by (apply Hpre; cbn; lia).
    specialize (HS Hs).
    apply (per_fn_stage_trips c k MOpsInFn fc_ops) in Ht; [|left; split; reflexivity].
    destruct Ht as (x & Hx & Hlt). cbn [metric_cap cap_value] in Hlt.
    assert (fc_ops x <= sum_of fc_ops (per_fn c)).
    { apply sum_of_ge_each; [|exact Hx]. eapply Forall_impl; [|exact Hnn]. intros y Hy. apply Hy. }
    lia.
Qed.

(* ------------------------------------------------------------------------------------ *)
(** * The gate *)

Lemma existsb_app_single (A : Type) (f : A -> bool) l x : existsb f (l ++ [x]) = existsb f l || f x.
Proof. rewrite existsb_app. cbn. rewrite orb_false_r. reflexivity. Qed.

Lemma filter_app_single (A : Type) (f : A -> bool) l x :
  filter f (l ++ [x]) = filter f l ++ (if f x then [x] else []).
Proof. rewrite filter_app. reflexivity. Qed.

(* Over a limit: the earlier diagnostics are untouched, exactly one resource-limit warning naming
   the first exceeded limit is appended, no analysis warning is added, there is no plan, and
   the program is accepted exactly when it was before.  Nothing depends on what the analyses
   would have computed. *)
Lemma over_limit_only_disables_lemma k earlier c a l :
  first_exceeded_limit c k = Some l ->
  emit_analysis_warnings_with k earlier c a = (earlier ++ [DResourceLimit l], None) /\
  accepted (fst (emit_analysis_warnings_with k earlier c a)) = accepted earlier /\
  filter is_resource_limit (fst (emit_analysis_warnings_with k earlier c a))
    = filter is_resource_limit earlier ++ [DResourceLimit l] /\
  filter is_analysis_warning (fst (emit_analysis_warnings_with k earlier c a))
    = filter is_analysis_warning earlier /\
  diag_severity (DResourceLimit l) = SevWarning /\
  forall a', emit_analysis_warnings_with k earlier c a' = emit_analysis_warnings_with k earlier c a.
Proof.
  intros H. unfold emit_analysis_warnings_with. rewrite H. cbn [fst].
  split; [reflexivity|]. split.
  { unfold accepted. rewrite existsb_app_single. cbn. rewrite orb_false_r. reflexivity. }
  split; [rewrite filter_app_single; reflexivity|].
  split; [rewrite filter_app_single; cbn; rewrite app_nil_r; reflexivity|].
  split; reflexivity.
Qed.

(* insertion sort by statement id: permutation, sorted, stable *)
Lemma insert_perm x l : Permutation (insert_by_stmt x l) (x :: l).
Proof.
  induction l as [|y r IH]; cbn [insert_by_stmt]; [apply Permutation_refl|].
  destruct (snd y <? snd x); [|apply Permutation_refl].
  eapply Permutation_trans; [apply perm_skip; exact IH|apply perm_swap].
Qed.

Lemma sort_perm l : Permutation (sort_by_stmt l) l.
Proof.
  induction l as [|x r IH]; cbn; [constructor|].
  eapply Permutation_trans; [apply insert_perm|]. apply perm_skip. exact IH.
Qed.

Definition by_stmt (a b : wkind * Z) : Prop := snd a <= snd b.

Lemma insert_sorted x l : Sorted by_stmt l -> Sorted by_stmt (insert_by_stmt x l).
Proof.
  induction 1 as [|y r Hs IH Hd]; cbn [insert_by_stmt]; [repeat constructor|].
  destruct (Z.ltb_spec (snd y) (snd x)) as [Hlt|Hge].
  - constructor; [exact IH|]. destruct r as [|z r]; cbn [insert_by_stmt].
    + constructor. unfold by_stmt. lia.
    + destruct (snd z <? snd x); constructor; unfold by_stmt; [|lia].
      inversion Hd; assumption.
  - constructor; [constructor; assumption|]. constructor. unfold by_stmt. lia.
Qed.

Lemma sort_sorted l : Sorted by_stmt (sort_by_stmt l).
Proof. induction l as [|x r IH]; cbn; [constructor|apply insert_sorted; exact IH]. Qed.

Lemma insert_stable s x l :
  filter (fun r => snd r =? s) (insert_by_stmt x l) = filter (fun r => snd r =? s) (x :: l).
Proof.
  induction l as [|y r IH]; cbn [insert_by_stmt]; [reflexivity|].
  destruct (Z.ltb_spec (snd y) (snd x)) as [Hlt|Hge]; [|reflexivity].
  cbn [filter] in *. rewrite IH.
  destruct (Z.eqb_spec (snd y) s) as [Ey|Ny]; destruct (Z.eqb_spec (snd x) s) as [Ex|Nx];
    try reflexivity. lia.
Qed.

(* warnings attached to the same statement keep the order in which the analyses produced them *)
Lemma sort_stable s l :
  filter (fun r => snd r =? s) (sort_by_stmt l) = filter (fun r => snd r =? s) l.
Proof.
  induction l as [|x r IH]; [reflexivity|]. cbn [sort_by_stmt fold_right].
  fold (sort_by_stmt r). rewrite insert_stable. cbn [filter]. rewrite IH. reflexivity.
Qed.

(* Below every limit the gate hands on the full analysis result, untouched: every warning the
   analyses produced (each exactly once, ordered by statement, ties in production order) after
   the earlier diagnostics, and the plan as built. *)
Lemma below_limit_unchanged_lemma k earlier c a :
  first_exceeded_limit c k = None ->
  emit_analysis_warnings_with k earlier c a = (earlier ++ analysis_diags a, Some (a_plan a)) /\
  Permutation (sort_by_stmt (warning_records a)) (warning_records a) /\
  Sorted by_stmt (sort_by_stmt (warning_records a)) /\
  (forall s, filter (fun r => snd r =? s) (sort_by_stmt (warning_records a))
             = filter (fun r => snd r =? s) (warning_records a)) /\
  filter is_resource_limit (fst (emit_analysis_warnings_with k earlier c a))
    = filter is_resource_limit earlier /\
  accepted (fst (emit_analysis_warnings_with k earlier c a)) = accepted earlier.
Proof.
  intros H. unfold emit_analysis_warnings_with. rewrite H. cbn [fst].
  split; [reflexivity|]. split; [apply sort_perm|]. split; [apply sort_sorted|].
  split; [intros s; apply sort_stable|].
  assert (Hn : forall l, filter is_resource_limit (map (fun r => DAnalysis (fst r) (snd r)) l) = []
                         /\ existsb is_error (map (fun r => DAnalysis (fst r) (snd r)) l) = false).
  { induction l as [|x r [IH1 IH2]]; cbn; [split; reflexivity|]. rewrite IH1. split; [reflexivity|exact IH2]. }
  unfold analysis_diags. split.
  - rewrite filter_app. rewrite (proj1 (Hn _)). apply app_nil_r.
  - unfold accepted. rewrite existsb_app. rewrite (proj2 (Hn _)). rewrite orb_false_r. reflexivity.
Qed.

(* the gate decides by the limit check alone *)
Lemma gate_plan_iff k earlier c a :
  snd (emit_analysis_warnings_with k earlier c a) = None <-> first_exceeded_limit c k <> None.
Proof.
  unfold emit_analysis_warnings_with. destruct (first_exceeded_limit c k); cbn; split; intros H;
    try reflexivity; try discriminate. exfalso. apply H. reflexivity.
Qed.

(* ------------------------------------------------------------------------------------ *)
(** * No plan, no pruning *)

Lemma no_plan_never_prunes_lemma :
  (forall bound, stmt_is_pruned None bound = false) /\ (forall id, function_is_pruned None id = false).
Proof. split; [intros [id|]; reflexivity|reflexivity]. Qed.

Lemma pruned_only_from_plan p bound :
  stmt_is_pruned p bound = true ->
  exists pl id, p = Some pl /\ bound = Some id /\ In id (removable_stmts pl).
Proof.
  destruct bound as [id|]; [|discriminate]. destruct p as [pl|]; [|discriminate]. cbn.
  unfold mem_z. rewrite existsb_exists. intros (y & Hy & Ey). apply Z.eqb_eq in Ey. subst y.
  exists pl, id. repeat split. exact Hy.
Qed.

Lemma fold_left_ext_all (A B : Type) (f g : A -> B -> A) (l : list B) :
  (forall a x, f a x = g a x) -> forall a, fold_left f l a = fold_left g l a.
Proof. intros H. induction l as [|x l IH]; intros a; cbn; [reflexivity|]. rewrite H. apply IH. Qed.

Section RuntimeSkeletonFacts.
  Context {state stmt_t : Type}.
  Context (stmt_id : stmt_t -> option Z) (fn_id : stmt_t -> option Z).
  Context (step : stmt_t -> state -> state) (register : stmt_t -> state -> state).

  (* with no plan the block executor is the unoptimised interpreter, whatever exec_stmt and
     register_function do *)
  Lemma exec_block_no_plan b s :
    exec_block stmt_id fn_id step register None b s
    = exec_block_unoptimised fn_id step register b s.
  Proof.
    unfold exec_block, exec_block_unoptimised, hoist.
    rewrite (fold_left_ext_all _ _
               (fun s st => match fn_id st with
                            | Some id => if function_is_pruned None id then s else register st s
                            | None => s end)
               (fun s st => match fn_id st with Some _ => register st s | None => s end)).
    - apply fold_left_ext_all. intros a x. destruct (stmt_id x); reflexivity.
    - intros a x. destruct (fn_id x); reflexivity.
  Qed.

  (* over a limit the program runs exactly as the unoptimised interpreter runs it *)
  Lemma over_limit_runs_unoptimised k earlier c a l b s :
    first_exceeded_limit c k = Some l ->
    exec_block stmt_id fn_id step register (snd (emit_analysis_warnings_with k earlier c a)) b s
    = exec_block_unoptimised fn_id step register b s.
  Proof.
    intros H. unfold emit_analysis_warnings_with. rewrite H. cbn [snd]. apply exec_block_no_plan.
  Qed.

  (* a plan that marks nothing removable changes nothing either *)
  Lemma exec_block_empty_plan b s :
    exec_block stmt_id fn_id step register (Some (mkPlan [] [])) b s
    = exec_block_unoptimised fn_id step register b s.
  Proof.
    unfold exec_block, exec_block_unoptimised, hoist.
    rewrite (fold_left_ext_all _ _
               (fun s st => match fn_id st with
                            | Some id => if function_is_pruned (Some (mkPlan [] [])) id then s else register st s
                            | None => s end)
               (fun s st => match fn_id st with Some _ => register st s | None => s end)).
    - apply fold_left_ext_all. intros a x. destruct (stmt_id x); reflexivity.
    - intros a x. destruct (fn_id x); reflexivity.
  Qed.
End RuntimeSkeletonFacts.

(* ------------------------------------------------------------------------------------ *)
(** * The default configuration *)

Lemma caps_wfb_sound k : caps_wfb k = true -> caps_wf k.
Proof.
  unfold caps_wfb, caps_wf. rewrite forallb_forall. intros H f.
  assert (Hin : In f all_cap_fields) by (destruct f; cbn; tauto).
  specialize (H f Hin). apply andb_prop in H. destruct H as [H1 H2].
  apply Z.leb_le in H1. apply Z.leb_le in H2. lia.
Qed.

(* every DEFAULT_CAPS value is a value of its Rust type *)
Lemma default_caps_wf : caps_wf default_caps.
Proof. apply caps_wfb_sound. vm_compute. reflexivity. Qed.

(* ------------------------------------------------------------------------------------ *)
(** * The summary budget cannot run out once the preflight has passed *)

Lemma note_events_enough n : forall remaining,
  Z.of_nat n <= remaining -> note_events n remaining = Some (remaining - Z.of_nat n).
Proof.
  induction n as [|n IH]; intros r Hr; cbn [note_events].
  - f_equal. lia.
  - unfold note_event. destruct (Z.eqb_spec r 0) as [E|_]; [lia|].
    rewrite IH by lia. f_equal. lia.
Qed.

Lemma note_events_short n : forall remaining,
  0 <= remaining < Z.of_nat n -> note_events n remaining = None.
Proof.
  induction n as [|n IH]; intros r Hr; cbn [note_events]; [lia|].
  unfold note_event. destruct (Z.eqb_spec r 0) as [E|Hn]; [reflexivity|].
  apply IH. lia.
Qed.

(* summary.rs spends at most one event per (function, callee | captured local | class step):
   at most summary_exact F L events in all.  If the preflight passed, a budget of
   max_summary_events covers any such number of events. *)
Lemma summary_budget_suffices_lemma c k n :
  caps_wf k -> counts_wf c -> max_summary_events k < u64_max ->
  first_exceeded_limit c k = None ->
  Z.of_nat n <= summary_exact (n_functions c) (n_locals c) ->
  note_events n (max_summary_events k) = Some (max_summary_events k - Z.of_nat n).
Proof.
  intros Hk Hc Hcap H Hn. rewrite no_limit_iff in H.
  pose proof (H MLocals) as HtL. pose proof (H MSummary) as HtS.
  destruct (derived_verdicts_exact c k Hk Hc HtL) as [HS _]. rewrite (HS Hcap) in HtS.
  apply exceeds_false_iff in HtS. apply note_events_enough. lia.
Qed.

(* ------------------------------------------------------------------------------------ *)
(** * No saturation at all for programs that reach the derived stages under sane caps *)

Lemma sum_of_fold_shift (f : fn_counts -> Z) pf : forall a,
  fold_left (fun a x => a + f x) pf a = a + fold_left (fun a x => a + f x) pf 0.
Proof.
  induction pf as [|x r IH]; intros a; cbn [fold_left]; [lia|].
  rewrite IH. rewrite (IH (0 + f x)). lia.
Qed.

Lemma sum_of_cons (f : fn_counts -> Z) x pf : sum_of f (x :: pf) = f x + sum_of f pf.
Proof. unfold sum_of. cbn [fold_left]. rewrite sum_of_fold_shift. lia. Qed.

(* exact liveness events are bounded by (2 * total blocks + total ops) * largest local count *)
Lemma liveness_exact_le pf lmax : Forall fn_nonneg pf ->
  Forall (fun x => fc_locals x <= lmax) pf ->
  liveness_exact pf <= (sum_of fc_blocks pf * 2 + sum_of fc_ops pf) * lmax.
Proof.
  intros Hnn Hl. induction pf as [|x r IH].
  - cbn. lia.
  - inversion Hnn as [|? ? (Hb & Ho & Hl0) Hnn']; subst. inversion Hl as [|? ? Hlx Hl']; subst.
    rewrite liveness_exact_cons, !sum_of_cons. specialize (IH Hnn' Hl').
    unfold fn_events_exact.
    assert (Hsb : 0 <= sum_of fc_blocks r).
    { assert (Hf : Forall (fun x => 0 <= fc_blocks x) r)
        by (eapply Forall_impl; [|exact Hnn']; intros y Hy; apply Hy).
      exact (proj1 (sum_of_fold_ge fc_blocks r Hf 0)). }
    assert (Hso : 0 <= sum_of fc_ops r).
    { assert (Hf : Forall (fun x => 0 <= fc_ops x) r)
        by (eapply Forall_impl; [|exact Hnn']; intros y Hy; apply Hy).
      exact (proj1 (sum_of_fold_ge fc_ops r Hf 0)). }
    nia.
Qed.

(* For counts of a real program (totals are the sums, no function owns more locals than exist)
   that passed the cheap stages, both derived bounds are computed without saturating whenever
   the caps keep F * (F + 2 L + 2) and (2 B + O) * L below 2^64 — which DEFAULT_CAPS do by a
   wide margin (see [default_caps_never_saturate]). *)
Lemma derived_bounds_unsaturated c k :
  caps_wf k -> counts_wf c -> counts_consistent c ->
  (forall m, metric_index m < metric_index MSummary -> trips c k m = false) ->
  summary_exact (max_functions k) (max_locals k) <= u64_max ->
  (max_total_blocks k * 2 + max_total_ops k) * max_locals k <= u64_max ->
  summary_event_bound (n_functions c) (n_locals c) = summary_exact (n_functions c) (n_locals c) /\
  liveness_event_bound (per_fn c) = liveness_exact (per_fn c).
Proof.
  intros Hk Hc (Hops & Hblocks & _ & Hloc) Hpre HS HL.
  assert (HtF : trips c k MFunctions = false) by (apply Hpre; cbn; lia).
  assert (HtL : trips c k MLocals = false) by (apply Hpre; cbn; lia).
  assert (HtO : trips c k MCfgOps = false) by (apply Hpre; cbn; lia).
  assert (HtB : trips c k MCfgBlocks = false) by (apply Hpre; cbn; lia).
  unfold trips in HtF, HtL, HtO, HtB. cbn [observed metric_cap cap_value] in *.
  apply exceeds_false_iff in HtF. apply exceeds_false_iff in HtL.
  apply exceeds_false_iff in HtO. apply exceeds_false_iff in HtB.
  destruct Hc as (Hwf & HL0 & _ & _ & _ & HO0 & HB0 & _).
  assert (Hnn : Forall fn_nonneg (per_fn c)) by (eapply Forall_impl; [|exact Hwf]; apply fn_wf_nonneg).
  assert (Hf0 : 0 <= n_functions c) by (unfold n_functions; lia).
  split.
  - assert (Hb : n_locals c * 2 + 2 <= u64_max).
    { pose proof (Hk CLocals) as HkL. cbn [cap_value cap_max] in HkL. unfold u32_max, u64_max in *. lia. }
    rewrite summary_bound_min by lia. apply Z.min_l.
    eapply Z.le_trans; [|exact HS]. apply summary_exact_mono; lia.
  - rewrite liveness_bound_min by assumption. apply Z.min_l.
    eapply Z.le_trans; [apply (liveness_exact_le _ (n_locals c)); assumption|].
    rewrite <- Hops, <- Hblocks. eapply Z.le_trans; [|exact HL]. nia.
Qed.

Lemma default_caps_never_saturate :
  summary_exact (max_functions default_caps) (max_locals default_caps) <= u64_max /\
  (max_total_blocks default_caps * 2 + max_total_ops default_caps) * max_locals default_caps <= u64_max.
Proof. split; vm_compute; discriminate. Qed.

(* ------------------------------------------------------------------------------------ *)
(** * Two program families in closed form *)

Lemma fold_sum_repeat (f : stmt -> Z) x n : forall a,
  fold_left (fun a y => a + f y) (repeat x n) a = a + Z.of_nat n * f x.
Proof.
  induction n as [|n IH]; intros a; cbn [repeat fold_left]; [lia|]. rewrite IH. lia.
Qed.

Lemma fold_sum_repeat_fn (f : fn_counts -> Z) x n : forall a,
  fold_left (fun a y => a + f y) (repeat x n) a = a + Z.of_nat n * f x.
Proof.
  induction n as [|n IH]; intros a; cbn [repeat fold_left]; [lia|]. rewrite IH. lia.
Qed.

Lemma sum_of_repeat (f : fn_counts -> Z) x n : sum_of f (repeat x n) = Z.of_nat n * f x.
Proof. unfold sum_of. rewrite fold_sum_repeat_fn. lia. Qed.

Lemma count_block_repeat_simple x n : (forall s, cs_has s = true -> count_stmt x s = c_op s) ->
  forall s, cs_has s = true ->
  count_block (repeat x n) s = mkC (cs_blocks s) (cs_ops s + Z.of_nat n) true.
Proof.
  intros Hx. unfold count_block. induction n as [|n IH]; intros s Hs; cbn [repeat fold_left].
  - destruct s; cbn in *. subst. f_equal. lia.
  - rewrite Hx by exact Hs. rewrite IH by exact Hs. cbn. f_equal. lia.
Qed.

Lemma flat_map_repeat_nil (A B : Type) (f : A -> list B) x n : f x = [] -> flat_map f (repeat x n) = [].
Proof. intros H. induction n; cbn; [reflexivity|]. rewrite H, IHn. reflexivity. Qed.

Lemma flat_map_repeat_single (A B : Type) (f : A -> list B) x y n :
  f x = [y] -> flat_map f (repeat x n) = repeat y n.
Proof. intros H. induction n; cbn; [reflexivity|]. rewrite H, IHn. reflexivity. Qed.

Lemma walk_span_repeat_fn n : forall s,
  fold_left (fun s x => walk_span x s) (repeat (SFn 0 []) n) s = s.
Proof.
  induction n as [|n IH]; intros s; cbn [repeat fold_left]; [reflexivity|].
  rewrite <- (IH s) at 2. f_equal. destruct s. cbn. f_equal. lia.
Qed.

Lemma local_range_len_repeat_fn n : local_range_len 0 (repeat (SFn 0 []) n) = 0.
Proof. unfold local_range_len. rewrite walk_span_repeat_fn. reflexivity. Qed.

Lemma walk_span_repeat_decl n : forall nx lo hi, 0 <= nx -> (lo < 0 \/ 0 <= lo <= nx) ->
  fold_left (fun s x => walk_span x s) (repeat (SDecl 0) (S n)) (mkSpan nx lo hi)
  = mkSpan (nx + Z.of_nat (S n)) (if lo <? 0 then nx else lo) (nx + Z.of_nat n).
Proof.
  induction n as [|n IH]; intros nx lo hi Hnx Hlo.
  - cbn. f_equal; lia.
  - change (repeat (SDecl 0) (S (S n))) with (SDecl 0 :: repeat (SDecl 0) (S n)).
    cbn [fold_left walk_span ls_next ls_lo ls_hi].
    rewrite IH; [|lia|right; destruct (Z.ltb_spec lo 0); lia].
    f_equal; try lia.
    destruct (Z.ltb_spec lo 0) as [H|H].
    + destruct (Z.ltb_spec nx 0); [lia|reflexivity].
    + destruct (Z.ltb_spec lo 0); [lia|reflexivity].
Qed.

Lemma local_range_len_repeat_decl n : local_range_len 0 (repeat (SDecl 0) n) = Z.of_nat n.
Proof.
  unfold local_range_len. destruct n as [|n]; [reflexivity|].
  change (0 <? 0) with false. cbv iota.
  rewrite walk_span_repeat_decl by lia. cbn [ls_lo ls_hi]. change (-1 <? 0) with true. cbv iota.
  change (0 <? 0) with false. cbv iota. lia.
Qed.

(* n empty functions at top level *)
Lemma empty_functions_program n :
  counts_of_program (repeat (SFn 0 []) n)
  = empty_functions_counts n 2 (Z.of_nat n) 0 0 0.
Proof.
  unfold counts_of_program, program_fns, empty_functions_counts.
  assert (Ed : direct_fns (repeat (SFn 0 []) n) = repeat (mkFn 2 0 0) n).
  { unfold direct_fns. apply flat_map_repeat_single. reflexivity. }
  assert (En : flat_map nested_fns (repeat (SFn 0 []) n) = []).
  { apply flat_map_repeat_nil. reflexivity. }
  assert (Er : fn_entry 0 (repeat (SFn 0 []) n) = mkFn 2 (Z.of_nat n) 0).
  { unfold fn_entry, count_body.
    rewrite count_block_repeat_simple; [|intros s Hs; destruct s; cbn in *; subst; reflexivity|reflexivity].
    rewrite local_range_len_repeat_fn. cbn [fst snd cs_blocks cs_ops]. f_equal; lia. }
  rewrite Ed, En, Er, app_nil_r. unfold sum_block. rewrite !fold_sum_repeat.
  rewrite !sum_of_cons, !sum_of_repeat.
  change (scopes_in (SFn 0 [])) with 2. change (stmts_in (SFn 0 [])) with 1.
  change (calls_in (SFn 0 [])) with 0. change (total_locals (SFn 0 [])) with 0.
  cbn [fc_blocks fc_ops fc_locals].
  f_equal; lia.
Qed.

(* n declarations in the top-level block *)
Lemma declarations_program n :
  counts_of_program (repeat (SDecl 0) n)
  = mkCounts [mkFn 2 (Z.of_nat n) (Z.of_nat n)] (Z.of_nat n) 1 (Z.of_nat n) 0 (Z.of_nat n) 2.
Proof.
  unfold counts_of_program, program_fns.
  assert (Ed : direct_fns (repeat (SDecl 0) n) = []).
  { unfold direct_fns. apply flat_map_repeat_nil. reflexivity. }
  assert (En : flat_map nested_fns (repeat (SDecl 0) n) = []).
  { apply flat_map_repeat_nil. reflexivity. }
  assert (Er : fn_entry 0 (repeat (SDecl 0) n) = mkFn 2 (Z.of_nat n) (Z.of_nat n)).
  { unfold fn_entry, count_body.
    rewrite count_block_repeat_simple; [|intros s Hs; destruct s; cbn in *; subst; reflexivity|reflexivity].
    rewrite local_range_len_repeat_decl. cbn [fst snd cs_blocks cs_ops]. f_equal; lia. }
  rewrite Ed, En, Er. cbn [app]. unfold sum_block. rewrite !fold_sum_repeat.
  change (scopes_in (SDecl 0)) with 0. change (stmts_in (SDecl 0)) with 1.
  change (calls_in (SDecl 0)) with 0. change (total_locals (SDecl 0)) with 1.
  unfold sum_of. cbn [fold_left fc_blocks fc_ops fc_locals]. f_equal; lia.
Qed.

Lemma max_of_cons_repeat (f : fn_counts -> Z) x y n :
  f y <= f x -> max_of f (x :: repeat y n) = Some (f x).
Proof.
  intros H. apply max_of_spec. split.
  - exists x. split; [left; reflexivity|reflexivity].
  - intros z [<-|Hz]; [lia|]. apply repeat_spec in Hz. subst z. exact H.
Qed.

(* what each stage observes for n empty functions (n within u32) *)
Lemma empty_functions_observed n m : Z.of_nat n + 3 <= u32_max ->
  observed (empty_functions_counts n 2 (Z.of_nat n) 0 0 0) m =
  Some (match m with
        | MFunctions => Z.of_nat n + 1
        | MLocals => 0
        | MScopes => 1 + 2 * Z.of_nat n
        | MStatements => Z.of_nat n
        | MCfgOps => Z.of_nat n
        | MOpsInFn => Z.of_nat n
        | MCfgBlocks => 2 + 2 * Z.of_nat n
        | MBlocksInFn => 2
        | MCalls => 0
        | MSummary => (Z.of_nat n + 1) * (Z.of_nat n + 3)
        | MLiveness => 0
        end).
Proof.
  intros Hn.
  assert (EF : n_functions (empty_functions_counts n 2 (Z.of_nat n) 0 0 0) = Z.of_nat n + 1).
  { unfold n_functions, empty_functions_counts. cbn [per_fn List.length]. rewrite repeat_length. lia. }
  destruct m; cbn [observed]; try rewrite EF; try (cbn; f_equal; lia).
  - cbn [per_fn empty_functions_counts]. rewrite (max_of_cons_repeat fc_ops); cbn; [reflexivity|lia].
  - cbn [per_fn empty_functions_counts]. rewrite (max_of_cons_repeat fc_blocks); cbn; [reflexivity|lia].
  - cbn [n_locals empty_functions_counts]. f_equal.
    rewrite summary_bound_min by (unfold u64_max; lia).
    unfold summary_exact. rewrite Z.min_l; [ring|].
    assert ((Z.of_nat n + 1) * (Z.of_nat n + 1 + (0 * 2 + 2)) <= u32_max * u32_max) by nia.
    unfold u32_max, u64_max in *. lia.
  - cbn [per_fn empty_functions_counts]. f_equal.
    rewrite liveness_bound_min.
    + rewrite liveness_exact_no_locals; [reflexivity|].
      constructor; [reflexivity|]. apply Forall_forall. intros z Hz. apply repeat_spec in Hz. subst. reflexivity.
    + constructor; [unfold fn_nonneg; cbn; lia|]. apply Forall_forall. intros z Hz.
      apply repeat_spec in Hz. subst. unfold fn_nonneg. cbn. lia.
Qed.

(* The verdict for a program of n empty functions, for any caps: below the summary threshold
   and every cheap cap nothing trips; at or above the threshold (but within the cheap caps)
   "summary events" is reported although max_functions is far away. *)
Lemma empty_functions_verdict k n :
  caps_wf k -> Z.of_nat n + 3 <= u32_max ->
  let c := empty_functions_counts n 2 (Z.of_nat n) 0 0 0 in
  let N := Z.of_nat n in
  (N + 1 <= max_functions k -> 1 + 2 * N <= max_scopes k -> N <= max_statements k ->
   N <= max_total_ops k -> N <= max_ops_per_function k -> 2 + 2 * N <= max_total_blocks k ->
   2 <= max_blocks_per_function k ->
   (N + 1 < summary_fn_threshold (max_summary_events k) 0 -> first_exceeded_limit c k = None) /\
   (summary_fn_threshold (max_summary_events k) 0 <= N + 1 ->
    first_exceeded_limit c k = Some (mkLimit MSummary ((N + 1) * (N + 3)) (max_summary_events k)))) /\
  (max_functions k < N + 1 ->
   first_exceeded_limit c k = Some (mkLimit MFunctions (N + 1) (max_functions k))).
Proof.
  intros Hk Hn c N. subst c N.
  assert (Hobs := fun m => empty_functions_observed n m Hn).
  assert (Hthr : forall cap, 0 <= cap ->
            (cap < (Z.of_nat n + 1) * (Z.of_nat n + 3) <-> summary_fn_threshold cap 0 <= Z.of_nat n + 1)).
  { intros cap Hcap. rewrite <- (summary_threshold_exact cap 0 (Z.of_nat n + 1)) by lia.
    unfold summary_exact. replace ((Z.of_nat n + 1) * (Z.of_nat n + 1 + (0 * 2 + 2))) with ((Z.of_nat n + 1) * (Z.of_nat n + 3)) by ring.
    reflexivity. }
  pose proof (Hk CSummary) as HkS. pose proof (Hk CLocals) as HkL. pose proof (Hk CCalls) as HkC.
  pose proof (Hk CLiveness) as HkV. cbn [cap_value cap_max] in HkS, HkL, HkC, HkV.
  split.
  - intros H1 H2 H3 H4 H5 H6 H7. split.
    + intros Hlt. apply no_limit_iff. intros m. unfold trips. rewrite Hobs. apply exceeds_false_iff.
      destruct m; cbv beta iota delta [metric_cap cap_value]; try lia.
      destruct (Z.le_gt_cases ((Z.of_nat n + 1) * (Z.of_nat n + 3)) (max_summary_events k)) as [|Hgt]; [assumption|].
      apply Hthr in Hgt; lia.
    + intros Hge. apply first_limit_order_lemma. cbn [l_metric l_observed l_limit].
      split; [|split; [|split]].
      * apply trips_iff. eexists. split; [apply Hobs|]. cbv beta iota delta [metric_cap cap_value]. apply Hthr; lia.
      * intros m Hm. unfold trips. rewrite Hobs. apply exceeds_false_iff.
        destruct m; cbv beta iota delta [metric_cap cap_value metric_index] in *; lia.
      * apply Hobs.
      * reflexivity.
  - intros Hgt. apply first_limit_order_lemma. cbn [l_metric l_observed l_limit].
    split; [|split; [|split]].
    + apply trips_iff. eexists. split; [apply Hobs|]. cbv beta iota delta [metric_cap cap_value]. lia.
    + intros m Hm. destruct m; cbv beta iota delta [metric_index] in Hm; lia.
    + apply Hobs.
    + reflexivity.
Qed.

(* ------------------------------------------------------------------------------------ *)
(** * The run-time budget of the summary fixpoint cannot run out below the gate *)

Lemma summary_accounting_matches_source :
  GenLimits.budget_charge_sites = budget_charge_sites_modelled /\
  GenLimits.note_event_body = note_event_modelled /\
  GenLimits.push_unique_bounded_body = push_unique_bounded_modelled /\
  GenLimits.class_charge_guard = class_charge_guard_modelled.
Proof. repeat split; reflexivity. Qed.

(* the caps are consulted by the preflight gate and by the summary budget, nowhere else: there
   is no other run-time allowance that could run out below the gate *)
Lemma caps_users_match_source : GenLimits.caps_users = caps_users_modelled.
Proof. reflexivity. Qed.

Lemma skind_eqb_eq a b : skind_eqb a b = true <-> a = b.
Proof. destruct a, b; cbn; split; intros H; try reflexivity; discriminate. Qed.

Lemma sentry_eqb_eq a b : sentry_eqb a b = true <-> a = b.
Proof.
  unfold sentry_eqb. rewrite !andb_true_iff, skind_eqb_eq, !Nat.eqb_eq.
  destruct a, b; cbn. split.
  - intros [[-> ->] ->]. reflexivity.
  - intros H. inversion H. repeat split.
Qed.

Lemma smem_in x g : smem x g = true <-> In x g.
Proof.
  unfold smem. rewrite existsb_exists. split.
  - intros (y & Hy & E). apply sentry_eqb_eq in E. subst. exact Hy.
  - intros H. exists x. split; [exact H|]. apply sentry_eqb_eq. reflexivity.
Qed.

Lemma smem_not_in x g : smem x g = false <-> ~ In x g.
Proof.
  rewrite <- smem_in. destruct (smem x g); split; intros H.
  - discriminate.
  - exfalso. apply H. reflexivity.
  - intros E. discriminate.
  - reflexivity.
Qed.

(* entries are numbered injectively below F * (F + 2L + 2) *)
Definition swidth (F L : nat) : nat := F + 2 * L + 2.

Definition scode (F L : nat) (x : sentry) : nat :=
  e_owner x * swidth F L +
  match e_kind x with
  | KCallee => e_item x
  | KRead => F + e_item x
  | KWrite => F + L + e_item x
  | KClass => F + 2 * L + (e_item x - 1)
  end.

Definition soff (F L : nat) (x : sentry) : nat :=
  match e_kind x with
  | KCallee => e_item x
  | KRead => F + e_item x
  | KWrite => F + L + e_item x
  | KClass => F + 2 * L + (e_item x - 1)
  end.

Lemma soff_lt F L x : sentry_ok F L x -> (soff F L x < swidth F L)%nat.
Proof. unfold sentry_ok, soff, swidth. destruct x as [k f i]; destruct k; cbn; lia. Qed.

Lemma scode_lt F L x : sentry_ok F L x -> (scode F L x < F * swidth F L)%nat.
Proof.
  intros H. pose proof (soff_lt F L x H) as Ho. destruct H as [Hf _].
  change (scode F L x) with (e_owner x * swidth F L + soff F L x)%nat. nia.
Qed.

Lemma scode_inj F L x y :
  sentry_ok F L x -> sentry_ok F L y -> scode F L x = scode F L y -> x = y.
Proof.
  intros Hx Hy E.
  change (scode F L x) with (e_owner x * swidth F L + soff F L x)%nat in E.
  change (scode F L y) with (e_owner y * swidth F L + soff F L y)%nat in E.
  pose proof (soff_lt F L x Hx) as Ox. pose proof (soff_lt F L y Hy) as Oy.
  assert (Eo : e_owner x = e_owner y) by nia.
  assert (Er : soff F L x = soff F L y) by nia.
  unfold sentry_ok, soff in *. destruct x as [kx fx ix], y as [ky fy iy]. cbn in *.
  subst fy. destruct kx, ky; cbn in *; f_equal; lia.
Qed.

Lemma nodup_map_inj (A B : Type) (f : A -> B) (l : list A) :
  (forall x y, In x l -> In y l -> f x = f y -> x = y) -> NoDup l -> NoDup (map f l).
Proof.
  intros Hinj H. induction H as [|a l Hnin Hnd IH]; cbn; constructor.
  - rewrite in_map_iff. intros (y & Ey & Hy). apply Hnin.
    assert (y = a) by (apply Hinj; [right; exact Hy|left; reflexivity|exact Ey]). subst. exact Hy.
  - apply IH. intros x y Hx Hy. apply Hinj; right; assumption.
Qed.

Lemma NoDup_app_snoc_aux (A : Type) (l : list A) (x : A) : NoDup l -> ~ In x l -> NoDup (l ++ [x]).
Proof.
  intros H Hx. induction H as [|a l Ha Hl IH]; cbn.
  - constructor; [intros []|constructor].
  - constructor.
    + rewrite in_app_iff. intros [H|[H|[]]]; [apply Ha; exact H|]. subst. apply Hx. left. reflexivity.
    + apply IH. intros H. apply Hx. right. exact H.
Qed.

Definition sinv (F L : nat) (g : list sentry) : Prop := NoDup g /\ Forall (sentry_ok F L) g.

(* pigeonhole: a duplicate-free table of valid entries has at most F * (F + 2L + 2) rows *)
Lemma sinv_length F L g : sinv F L g -> (List.length g <= F * swidth F L)%nat.
Proof.
  intros [Hnd Hok]. rewrite Forall_forall in Hok.
  rewrite <- (map_length (scode F L) g), <- (seq_length (F * swidth F L) 0).
  apply NoDup_incl_length.
  - apply nodup_map_inj; [|exact Hnd]. intros x y Hx Hy. apply scode_inj; apply Hok; assumption.
  - intros c Hc. apply in_map_iff in Hc. destruct Hc as (x & <- & Hx). apply in_seq.
    pose proof (scode_lt F L x (Hok x Hx)). lia.
Qed.

Lemma sinv_snoc F L g x : sinv F L g -> sentry_ok F L x -> ~ In x g -> sinv F L (g ++ [x]).
Proof.
  intros [Hnd Hok] Hx Hnin. split.
  - apply NoDup_app_snoc_aux; assumption.
  - apply Forall_app. split; [exact Hok|constructor; [exact Hx|constructor]].
Qed.

Lemma note_event_pos b : 1 <= b -> note_event b = Some (b - 1).
Proof. intros H. unfold note_event. destruct (Z.eqb_spec b 0); [lia|reflexivity]. Qed.

(* one push: either nothing changes, or one row is added and exactly one event is charged;
   with a budget covering the free rows the charge always succeeds *)
Lemma push_unique_bounded_ok F L g x b :
  sinv F L g -> sentry_ok F L x ->
  Z.of_nat (F * swidth F L) - Z.of_nat (List.length g) <= b ->
  exists g' b', push_unique_bounded g x b = Some (g', b') /\ sinv F L g' /\
    Z.of_nat (F * swidth F L) - Z.of_nat (List.length g') <= b' /\
    b - b' = Z.of_nat (List.length g') - Z.of_nat (List.length g).
Proof.
  intros Hinv Hx Hb. unfold push_unique_bounded. destruct (smem x g) eqn:Em.
  - exists g, b. repeat split; try assumption; try apply Hinv. lia.
  - apply smem_not_in in Em. pose proof (sinv_snoc F L g x Hinv Hx Em) as Hinv'.
    pose proof (sinv_length F L _ Hinv') as Hlen. rewrite app_length in Hlen. cbn in Hlen.
    rewrite note_event_pos by lia.
    exists (g ++ [x]), (b - 1). rewrite app_length. cbn. repeat split; try apply Hinv'; lia.
Qed.

Lemma class_level_le2 g f : (class_level g f <= 2)%nat.
Proof. unfold class_level. destruct (smem _ g); [lia|]. destruct (smem _ g); lia. Qed.

Lemma sstep_ok F L g b o :
  sinv F L g -> sop_ok F L o ->
  Z.of_nat (F * swidth F L) - Z.of_nat (List.length g) <= b ->
  exists g' b', sstep g b o = Some (g', b') /\ sinv F L g' /\
    Z.of_nat (F * swidth F L) - Z.of_nat (List.length g') <= b' /\
    b - b' = Z.of_nat (List.length g') - Z.of_nat (List.length g).
Proof.
  intros Hinv Ho Hb. destruct o as [k f i|f n]; cbn [sstep].
  - apply push_unique_bounded_ok; try assumption. destruct k; cbn in Ho; try contradiction; exact Ho.
  - destruct Ho as [Hf Hn]. destruct (Nat.ltb_spec (class_level g f) n) as [Hlt|Hge].
    + apply push_unique_bounded_ok; try assumption. split; cbn; lia.
    + exists g, b. repeat split; try assumption; try apply Hinv. lia.
Qed.

(* Any schedule of pushes and class steps, from any duplicate-free starting table (the direct
   callees / captures the fixpoint starts from), with a budget of at least F*(F+2L+2) minus the
   rows already present: the budget never runs out, and the events charged are exactly the rows
   inserted. *)
Lemma srun_ok F L ops : forall g b,
  sinv F L g -> Forall (sop_ok F L) ops ->
  Z.of_nat (F * swidth F L) - Z.of_nat (List.length g) <= b ->
  exists g' b', srun ops g b = Some (g', b') /\ sinv F L g' /\
    b - b' = Z.of_nat (List.length g') - Z.of_nat (List.length g) /\ 0 <= b'.
Proof.
  induction ops as [|o r IH]; intros g b Hinv Hops Hb; cbn [srun].
  - exists g, b. repeat split; try apply Hinv; try lia.
    pose proof (sinv_length F L g Hinv). lia.
  - inversion Hops as [|? ? Ho Hr]; subst.
    destruct (sstep_ok F L g b o Hinv Ho Hb) as (g1 & b1 & E1 & Hinv1 & Hb1 & Hd1).
    rewrite E1. destruct (IH g1 b1 Hinv1 Hr Hb1) as (g2 & b2 & E2 & Hinv2 & Hd2 & Hpos).
    exists g2, b2. repeat split; try assumption; try apply Hinv2. lia.
Qed.

Lemma swidth_summary_exact F L :
  Z.of_nat (F * swidth F L) = summary_exact (Z.of_nat F) (Z.of_nat L).
Proof. unfold swidth, summary_exact. lia. Qed.

(* Below the gate the summary fixpoint never exhausts its budget (so every summary stays
   available and the analyses run as usual): the preflight estimate bounds the events of every
   schedule of the modelled charging discipline. *)
Lemma summary_budget_never_exhausted_below_gate c k F L ops g0 :
  caps_wf k -> counts_wf c -> max_summary_events k < u64_max ->
  n_functions c = Z.of_nat F -> n_locals c = Z.of_nat L ->
  first_exceeded_limit c k = None ->
  sinv F L g0 -> Forall (sop_ok F L) ops ->
  exists g b, srun ops g0 (max_summary_events k) = Some (g, b) /\ 0 <= b /\
    max_summary_events k - b = Z.of_nat (List.length g) - Z.of_nat (List.length g0).
Proof.
  intros Hk Hc Hcap EF EL H Hinv Hops. rewrite no_limit_iff in H.
  pose proof (H MLocals) as HtL. pose proof (H MSummary) as HtS.
  destruct (derived_verdicts_exact c k Hk Hc HtL) as [HS _]. rewrite (HS Hcap) in HtS.
  apply exceeds_false_iff in HtS. rewrite EF, EL, <- swidth_summary_exact in HtS.
  destruct (srun_ok F L ops g0 (max_summary_events k) Hinv Hops) as (g & b & E & _ & Hd & Hpos); [lia|].
  exists g, b. repeat split; assumption.
Qed.

(* the order matters: when every probe is charged, a budget that covers all possible rows is
   not enough (three probes of the same entry, two possible rows, budget 2) *)
Lemma probe_charging_exhausts :
  let x := mkEntry KCallee 0 0 in
  sinv 1 0 [] /\ Z.of_nat (1 * swidth 1 0) = 3 /\
  (match push_probe_charged [] x 3 with
   | Some (g1, b1) => match push_probe_charged g1 x b1 with
                      | Some (g2, b2) => match push_probe_charged g2 x b2 with
                                         | Some (g3, b3) => push_probe_charged g3 x b3
                                         | None => None end
                      | None => None end
   | None => None end) = None /\
  srun [OPush KCallee 0 0; OPush KCallee 0 0; OPush KCallee 0 0; OPush KCallee 0 0] [] 3
  = Some ([x], 2).
Proof. cbn. repeat split; try reflexivity; constructor. Qed.
