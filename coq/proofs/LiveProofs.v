(* LiveProofs — C03, round 2: dropping the dead stores accepted by LiveCheck.ds_ok does not
   change Lang.run_impl.

   A RELATIONAL simulation between the run with plan pa (more statements skipped) and the run
   with plan pb = pa - acc, by induction on fuel over the open-recursion bodies of
   LangUnfold.v.  The two states have the same shape (same scopes, same slot ids, same
   function tables) and equal values in every slot whose id is LIVE according to the set
   attached to the slot's scope:
     - the scopes of the running activation all carry the current live set L of the
       backward analysis (it changes from statement to statement);
     - the scopes of the suspended callers keep the live set their activation had at the
       call (it contains everything the callee can look up there: the summary table).
   Expressions reading only live variables evaluate equally; a store makes its (unique) slot
   equal, which is the kill; a callee's store to a captured variable writes equal values
   and kills nothing; the skipped store changes only a slot that is not live. *)
From Coq Require Import ZArith List Bool Lia.
Require Import NS.theories.F64 NS.theories.StrLib NS.theories.Lang NS.theories.PlanCheck
               NS.theories.LiveCheck NS.proofs.LangUnfold NS.proofs.PlanProofs.
Import ListNotations.
Open Scope Z_scope.

Notation "'do' x <- r ; k" := (bindM r (fun x => k)) (at level 200, x pattern, r at level 100, k at level 200).

(* ------------------------------------------------------------------------------------ *)
(* A. finite sets as lists                                                                *)

Lemma memz_In i l : memz i l = true <-> In i l.
Proof.
  unfold memz. rewrite existsb_exists. split.
  - intros [x [Hx E]]. apply Z.eqb_eq in E. subst. exact Hx.
  - intros H. exists i. split; [exact H|apply Z.eqb_refl].
Qed.

Lemma memz_nIn i l : memz i l = false <-> ~ In i l.
Proof.
  split.
  - intros E H. apply memz_In in H. congruence.
  - intros H. destruct (memz i l) eqn:E; [|reflexivity]. apply memz_In in E. contradiction.
Qed.

Lemma subset_incl a b : subset a b = true -> forall x, In x a -> In x b.
Proof.
  unfold subset. rewrite forallb_forall. intros H x Hx. apply memz_In. apply H. exact Hx.
Qed.

Lemma In_lunion x a b : In x (lunion a b) <-> In x a \/ In x b.
Proof.
  unfold lunion. rewrite in_app_iff, filter_In. split.
  - intros [H|[H _]]; auto.
  - intros [H|H]; [left; exact H|]. destruct (memz x a) eqn:E.
    + left. apply memz_In. exact E.
    + right. split; [exact H|reflexivity].
Qed.

Lemma In_remove1 y x l : In y (remove1 x l) <-> In y l /\ y <> x.
Proof.
  unfold remove1. rewrite filter_In. split.
  - intros [H E]. split; [exact H|]. apply negb_true_iff in E. apply Z.eqb_neq in E. exact E.
  - intros [H E]. split; [exact H|]. apply negb_true_iff. apply Z.eqb_neq. exact E.
Qed.

Lemma In_minus_ids x a Ds : In x (minus_ids a Ds) <-> In x a /\ ~ In x (concat Ds).
Proof.
  unfold minus_ids. rewrite filter_In. split.
  - intros [H E]. split; [exact H|]. apply negb_true_iff in E. apply memz_nIn. exact E.
  - intros [H E]. split; [exact H|]. apply negb_true_iff. apply memz_nIn. exact E.
Qed.

Lemma nodupb_NoDup l : nodupb l = true -> NoDup l.
Proof.
  induction l as [|x r IH]; cbn [nodupb]; intros H; [constructor|].
  apply andb_prop in H. destruct H as [H1 H2]. apply negb_true_iff in H1.
  constructor; [apply memz_nIn; exact H1|apply IH; exact H2].
Qed.

(* ------------------------------------------------------------------------------------ *)
(* B. related monadic runs                                                                *)

(* m1: the run that skips more; m2: the run that executes the dead stores.  Runs of m2
   ending in a tolerated failure (fuel, variable-missing sites) are not compared. *)
Definition relMX {A} (X : bool) (R : A -> A -> Prop) (m1 m2 : M A) : Prop :=
  tolX X (snd m2) \/
  (fst m1 = fst m2 /\
   match snd m1, snd m2 with
   | Ok a1, Ok a2 => R a1 a2
   | Err e1, Err e2 => e1 = e2
   | Panic p1, Panic p2 => p1 = p2
   | Unsupp, Unsupp => True
   | _, _ => False
   end).

Section RelM.
Variable X : bool.
Notation relM := (relMX X).

Lemma rel_bind {A B} (RA : A -> A -> Prop) (RB : B -> B -> Prop) (m1 m2 : M A) (f1 f2 : A -> M B) :
  relM RA m1 m2 ->
  (forall a1 a2, RA a1 a2 -> relM RB (f1 a1) (f2 a2)) ->
  relM RB (bindM m1 f1) (bindM m2 f2).
Proof.
  intros [Ht | [Eo Hr]] Hf.
  - left. apply tolX_bind. exact Ht.
  - destruct m1 as [o1 r1], m2 as [o2 r2]. cbn [fst snd] in *. subst o2.
    destruct r1 as [a1|e1|p1| |], r2 as [a2|e2|p2| |]; try contradiction; cbn [bindM].
    + specialize (Hf a1 a2 Hr). destruct (f1 a1) as [o1' r1'], (f2 a2) as [o2' r2'].
      destruct Hf as [Ht|[Eo Hr']]; cbn [fst snd] in *.
      * left. exact Ht.
      * right. subst o2'. split; [reflexivity|exact Hr'].
    + right. split; [reflexivity|exact Hr].
    + right. split; [reflexivity|exact Hr].
    + right. split; [reflexivity|exact I].
Qed.

Lemma rel_out {A} (R : A -> A -> Prop) o a1 a2 : R a1 a2 -> relM R (o, Ok a1) (o, Ok a2).
Proof. intros H. right. split; [reflexivity|exact H]. Qed.
Lemma rel_ret {A} (R : A -> A -> Prop) a1 a2 : R a1 a2 -> relM R (OkM a1) (OkM a2).
Proof. apply rel_out. Qed.
Lemma rel_err {A} (R : A -> A -> Prop) e : relM R (ErrM e) (ErrM e).
Proof. right. split; reflexivity. Qed.
Lemma rel_panic {A} (R : A -> A -> Prop) p : relM R (PanicM p) (PanicM p).
Proof. right. split; reflexivity. Qed.
Lemma rel_unsupp {A} (R : A -> A -> Prop) : relM R UnsuppM UnsuppM.
Proof. right. split; [reflexivity|exact I]. Qed.
Lemma rel_fuel {A} (R : A -> A -> Prop) (m1 : M A) : relM R m1 FuelM.
Proof. left. left. exact I. Qed.
Lemma rel_tol {A} (R : A -> A -> Prop) (m1 m2 : M A) : tolX X (snd m2) -> relM R m1 m2.
Proof. intros H. left. exact H. Qed.

Lemma rel_lift {A} (r : res A) : relM eq (lift r) (lift r).
Proof. unfold lift. destruct r; [right|right|right|left; left|right]; cbn; auto. Qed.

Lemma rel_weaken {A} (R R' : A -> A -> Prop) (m1 m2 : M A) :
  (forall a b, R a b -> R' a b) -> relM R m1 m2 -> relM R' m1 m2.
Proof.
  intros W [H|[E H]]; [left; exact H|right]. split; [exact E|].
  destruct (snd m1), (snd m2); auto.
Qed.
End RelM.

(* ------------------------------------------------------------------------------------ *)
(* C. states that agree on the live slots                                                 *)

Definition live_in (L : lset) (o : option Z) : Prop :=
  match o with Some i => In i L | None => True end.

Definition slot_agree (L : lset) (a b : slot) : Prop :=
  s_id a = s_id b /\ (live_in L (s_id a) -> s_val a = s_val b).

Definition scope_agree (L : lset) : list slot -> list slot -> Prop := Forall2 (slot_agree L).

Inductive env_agree : list lset -> list (list slot) -> list (list slot) -> Prop :=
| ea_nil : env_agree [] [] []
| ea_cons L Ls sc1 sc2 e1 e2 :
    scope_agree L sc1 sc2 -> env_agree Ls e1 e2 -> env_agree (L :: Ls) (sc1 :: e1) (sc2 :: e2).


Lemma slot_agree_refl L a : slot_agree L a a.
Proof. split; reflexivity. Qed.
Lemma scope_agree_refl L sc : scope_agree L sc sc.
Proof. induction sc; constructor; [apply slot_agree_refl|assumption]. Qed.

Lemma scope_agree_ids L sc1 sc2 : scope_agree L sc1 sc2 -> ids sc1 = ids sc2.
Proof.
  induction 1 as [|a b r1 r2 [Hi _] _ IH]; [reflexivity|]. cbn [ids map]. fold (ids r1) (ids r2).
  rewrite Hi, IH. reflexivity.
Qed.

Lemma env_agree_shape Ls e1 e2 : env_agree Ls e1 e2 -> eshape e1 = eshape e2.
Proof.
  induction 1 as [|L Ls sc1 sc2 e1 e2 Hs _ IH]; [reflexivity|]. cbn [eshape map].
  fold (eshape e1) (eshape e2). rewrite (scope_agree_ids _ _ _ Hs), IH. reflexivity.
Qed.

Lemma slot_agree_weaken L L' a b : (forall i, In i L' -> In i L) -> slot_agree L a b -> slot_agree L' a b.
Proof.
  intros W [Hi Hv]. split; [exact Hi|]. intros Hl. apply Hv. destruct (s_id a); cbn in *; auto.
Qed.

Lemma scope_agree_weaken L L' sc1 sc2 :
  (forall i, In i L' -> In i L) -> scope_agree L sc1 sc2 -> scope_agree L' sc1 sc2.
Proof. intros W H. induction H; constructor; [eapply slot_agree_weaken; eauto|assumption]. Qed.

Lemma env_agree_weaken L L' k Lr e1 e2 :
  (forall i, In i L' -> In i L) ->
  env_agree (repeat L k ++ Lr) e1 e2 -> env_agree (repeat L' k ++ Lr) e1 e2.
Proof.
  intros W. revert e1 e2. induction k as [|k IH]; intros e1 e2 H; [exact H|].
  cbn [repeat app] in *. inversion H; subst. constructor; [eapply scope_agree_weaken; eauto|apply IH; assumption].
Qed.

(* a slot id occurs in a list of ids *)
Definition has_id (x : Z) (l : list (option Z)) : bool := existsb (fun o => opt_eqb o (Some x)) l.

Lemma opt_eqb_some o x : opt_eqb o (Some x) = true <-> o = Some x.
Proof.
  destruct o as [y|]; cbn; [|split; discriminate]. rewrite Z.eqb_eq. split; [intros ->; reflexivity|intros E; inversion E; reflexivity].
Qed.

Lemma has_id_In x l : has_id x l = true <-> In (Some x) l.
Proof.
  unfold has_id. rewrite existsb_exists. split.
  - intros [o [Ho E]]. apply opt_eqb_some in E. subst. exact Ho.
  - intros H. exists (Some x). split; [exact H|]. apply opt_eqb_some. reflexivity.
Qed.

Lemma has_id_some x D : has_id x (map Some D) = true <-> In x D.
Proof.
  rewrite has_id_In, in_map_iff. split.
  - intros [y [E H]]. inversion E; subst. exact H.
  - intros H. exists x. auto.
Qed.

Lemma slot_matches_some x n s : slot_matches (Some x) n s = true <-> s_id s = Some x.
Proof. unfold slot_matches. apply opt_eqb_some. Qed.

Lemma find_slot_none x n sc : has_id x (ids sc) = false -> find_slot (Some x) n sc = None.
Proof.
  induction sc as [|a r IH]; [reflexivity|]. cbn [ids map has_id existsb find_slot]. intros H.
  apply orb_false_iff in H. destruct H as [H1 H2]. unfold slot_matches. rewrite H1. apply IH. exact H2.
Qed.

Lemma find_slot_agree L x n sc1 sc2 :
  scope_agree L sc1 sc2 -> In x L -> find_slot (Some x) n sc1 = find_slot (Some x) n sc2.
Proof.
  intros H Hx. induction H as [|a b r1 r2 [Hi Hv] _ IH]; [reflexivity|]. cbn [find_slot].
  unfold slot_matches. rewrite <- Hi. destruct (opt_eqb (s_id a) (Some x)) eqn:E; [|exact IH].
  apply opt_eqb_some in E. rewrite Hv; [reflexivity|]. rewrite E. exact Hx.
Qed.

(* the first scope (from the innermost) holding id x has x in its live set *)
Fixpoint vis (Ls : list lset) (Sh : list (list (option Z))) (x : Z) : bool :=
  match Ls, Sh with
  | L :: Ls', l :: Sh' => if has_id x l then memz x L else vis Ls' Sh' x
  | _, _ => true
  end.

Lemma lookup_agree Ls e1 e2 x n :
  env_agree Ls e1 e2 -> vis Ls (eshape e1) x = true ->
  lookup_env (Some x) n e1 = lookup_env (Some x) n e2.
Proof.
  induction 1 as [|L Ls sc1 sc2 e1 e2 Hs _ IH]; [reflexivity|]. cbn [eshape map vis lookup_env].
  fold (eshape e1). destruct (has_id x (ids sc1)) eqn:E.
  - intros Hm. apply memz_In in Hm. rewrite (find_slot_agree _ _ _ _ _ Hs Hm).
    destruct (find_slot (Some x) n sc2) eqn:F; [reflexivity|].
    rewrite (scope_agree_ids _ _ _ Hs) in E. apply has_id_In in E.
    exfalso. clear - E F. induction sc2 as [|a r IH]; [destruct E|]. cbn [find_slot] in F.
    destruct (slot_matches (Some x) n a) eqn:M; [discriminate|]. destruct E as [E|E]; [|auto].
    apply (proj2 (slot_matches_some x n a)) in E. congruence.
  - intros Hv. rewrite (find_slot_none _ _ _ E).
    rewrite (scope_agree_ids _ _ _ Hs) in E. rewrite (find_slot_none _ _ _ E). apply IH. exact Hv.
Qed.

Lemma vis_act L Ds Lr ShR x :
  In x L -> (~ In x (concat Ds) -> vis Lr ShR x = true) ->
  vis (repeat L (length Ds) ++ Lr) (dshape Ds ++ ShR) x = true.
Proof.
  intros HL. induction Ds as [|D r IH]; intros H; cbn [length repeat app dshape map concat vis] in *.
  - apply H. intros [].
  - fold (dshape r). destruct (has_id x (map Some D)) eqn:E.
    + apply memz_In. exact HL.
    + apply IH. intros Hn. apply H. intros Hc. apply in_app_or in Hc. destruct Hc as [Hc|Hc]; [|auto].
      apply has_id_some in Hc. congruence.
Qed.

(* --- writes of equal values: the relation is kept, whatever the live sets --- *)
Definition upd (s : slot) (v : value) : slot := {| s_id := s_id s; s_name := s_name s; s_val := v |}.

Lemma set_slot_rel L x n v sc1 sc2 :
  scope_agree L sc1 sc2 ->
  match set_slot (Some x) n v sc1, set_slot (Some x) n v sc2 with
  | Some a, Some b => scope_agree L a b /\ ids a = ids sc1
  | None, None => True
  | _, _ => False
  end.
Proof.
  induction 1 as [|a b r1 r2 [Hi Hv] Hr IH]; cbn [set_slot]; [exact I|].
  unfold slot_matches. rewrite <- Hi. destruct (opt_eqb (s_id a) (Some x)).
  - split; [|reflexivity]. constructor; [|exact Hr]. split; reflexivity.
  - destruct (set_slot (Some x) n v r1), (set_slot (Some x) n v r2); try contradiction; [|exact I].
    destruct IH as [IH1 IH2]. split; [constructor; [split; assumption|exact IH1]|].
    cbn [ids map]. fold (ids l) (ids r1). rewrite IH2. reflexivity.
Qed.

Lemma assign_rel Ls x n v e1 e2 :
  env_agree Ls e1 e2 ->
  match assign_env (Some x) n v e1, assign_env (Some x) n v e2 with
  | Some a, Some b => env_agree Ls a b /\ eshape a = eshape e1
  | None, None => True
  | _, _ => False
  end.
Proof.
  induction 1 as [|L Ls sc1 sc2 e1 e2 Hs He IH]; cbn [assign_env]; [exact I|].
  pose proof (set_slot_rel L x n v _ _ Hs) as S.
  destruct (set_slot (Some x) n v sc1), (set_slot (Some x) n v sc2); try contradiction.
  - destruct S as [S1 S2]. split; [constructor; assumption|]. cbn [eshape map]. rewrite S2. reflexivity.
  - destruct (assign_env (Some x) n v e1), (assign_env (Some x) n v e2); try contradiction; [|exact I].
    destruct IH as [I1 I2]. split; [constructor; assumption|]. cbn [eshape map]. fold (eshape l) (eshape e1).
    rewrite I2. reflexivity.
Qed.

(* --- kills: the written slot is the only one of the activation with its id --- *)
Lemma slot_agree_add L x a b : s_id a <> Some x -> slot_agree L a b -> slot_agree (x :: L) a b.
Proof.
  intros Hn [Hi Hv]. split; [exact Hi|]. intros Hl. apply Hv.
  destruct (s_id a) as [i|]; cbn in *; [|exact I]. destruct Hl as [E|Hl]; [subst; congruence|exact Hl].
Qed.

Lemma scope_agree_add L x sc1 sc2 :
  ~ In (Some x) (ids sc1) -> scope_agree L sc1 sc2 -> scope_agree (x :: L) sc1 sc2.
Proof.
  intros Hn H. induction H as [|a b r1 r2 Ha Hr IH]; constructor.
  - apply slot_agree_add; [|exact Ha]. intros E. apply Hn. left. exact E.
  - apply IH. intros Hi. apply Hn. right. exact Hi.
Qed.

Lemma set_slot_kill L x n v sc1 sc2 :
  scope_agree L sc1 sc2 -> NoDup (ids sc1) ->
  match set_slot (Some x) n v sc1, set_slot (Some x) n v sc2 with
  | Some a, Some b => scope_agree (x :: L) a b /\ ids a = ids sc1
  | None, None => ~ In (Some x) (ids sc1)
  | _, _ => False
  end.
Proof.
  induction 1 as [|a b r1 r2 [Hi Hv] Hr IH]; cbn [set_slot]; intros Hnd; [intros []|].
  cbn [ids map] in Hnd. fold (ids r1) in Hnd. inversion Hnd as [|? ? Hnin Hnd']; subst.
  unfold slot_matches. rewrite <- Hi. destruct (opt_eqb (s_id a) (Some x)) eqn:E.
  - apply opt_eqb_some in E. split; [|reflexivity]. constructor.
    + split; reflexivity.
    + apply scope_agree_add; [|exact Hr]. rewrite <- E. exact Hnin.
  - specialize (IH Hnd').
    destruct (set_slot (Some x) n v r1), (set_slot (Some x) n v r2); try contradiction.
    + destruct IH as [IH1 IH2]. split.
      * constructor; [|exact IH1]. apply slot_agree_add; [|split; assumption].
        intros E'. apply opt_eqb_some in E'. congruence.
      * cbn [ids map]. fold (ids l) (ids r1). rewrite IH2. reflexivity.
    + cbn [ids map]. intros [E'|Hin]; [apply opt_eqb_some in E'; congruence|]. apply IH. exact Hin.
Qed.

Lemma set_slot_some_In x n v sc a : set_slot (Some x) n v sc = Some a -> In (Some x) (ids sc).
Proof.
  revert a. induction sc as [|s r IH]; intros a; cbn [set_slot]; [discriminate|].
  destruct (slot_matches (Some x) n s) eqn:M.
  - intros _. left. apply (proj1 (slot_matches_some x n s)). exact M.
  - destruct (set_slot (Some x) n v r); [|discriminate]. intros _. right. eapply IH. reflexivity.
Qed.

Definition ds_wf (Ds : list lset) : Prop := NoDup (concat Ds).

Lemma NoDup_map_some (D : lset) : NoDup D -> NoDup (map Some D).
Proof.
  induction 1 as [|a r Hn _ IH]; cbn [map]; constructor; [|exact IH].
  intros Hi. apply in_map_iff in Hi. destruct Hi as [y [E Hy]]. inversion E; subst. contradiction.
Qed.

Lemma NoDup_app_inv {A} (a b : list A) :
  NoDup (a ++ b) -> NoDup a /\ NoDup b /\ (forall x, In x a -> ~ In x b).
Proof.
  induction a as [|y a IH]; cbn [app]; intros H.
  - split; [constructor|]. split; [exact H|]. intros x [].
  - inversion H as [|? ? Hn Hr]; subst. destruct (IH Hr) as [H1 [H2 H3]]. split.
    + constructor; [|exact H1]. intros Hi. apply Hn. apply in_or_app. left. exact Hi.
    + split; [exact H2|]. intros x [E|Hx]; [subst; intros Hb; apply Hn; apply in_or_app; right; exact Hb|auto].
Qed.

Lemma ds_wf_head D r : ds_wf (D :: r) -> NoDup D /\ ds_wf r /\ (forall x, In x D -> ~ In x (concat r)).
Proof. unfold ds_wf. cbn [concat]. apply NoDup_app_inv. Qed.

Lemma env_agree_cons_inv L Ls e1 e2 :
  env_agree (L :: Ls) e1 e2 ->
  exists sc1 r1 sc2 r2, e1 = sc1 :: r1 /\ e2 = sc2 :: r2 /\ scope_agree L sc1 sc2 /\ env_agree Ls r1 r2.
Proof. intros H. inversion H; subst. eauto 10. Qed.

(* the scopes of the activation that do not hold x *)
Lemma env_agree_add_free L x Ds Lr ShR e1 e2 :
  env_agree (repeat L (length Ds) ++ Lr) e1 e2 -> eshape e1 = dshape Ds ++ ShR ->
  ~ In x (concat Ds) ->
  env_agree (repeat (x :: L) (length Ds) ++ Lr) e1 e2.
Proof.
  revert e1 e2. induction Ds as [|D r IH]; intros e1 e2 H Hs Hn; [exact H|].
  cbn [length repeat app dshape map] in *.
  apply env_agree_cons_inv in H. destruct H as (sc1 & r1 & sc2 & r2 & -> & -> & Hsc & Hr).
  cbn [eshape map] in Hs. injection Hs as Hs1 Hs2.
  constructor.
  - apply scope_agree_add; [|assumption]. rewrite Hs1. intros Hi. apply in_map_iff in Hi.
    destruct Hi as [y [E Hy]]. inversion E; subst. apply Hn. cbn [concat]. apply in_or_app. left. exact Hy.
  - apply IH; [assumption|assumption|]. intros Hi. apply Hn. cbn [concat]. apply in_or_app. right. exact Hi.
Qed.

Lemma assign_kill L x n v Ds Lr ShR e1 e2 :
  env_agree (repeat L (length Ds) ++ Lr) e1 e2 -> eshape e1 = dshape Ds ++ ShR ->
  ds_wf Ds -> In x (concat Ds) ->
  match assign_env (Some x) n v e1, assign_env (Some x) n v e2 with
  | Some a, Some b => env_agree (repeat (x :: L) (length Ds) ++ Lr) a b /\ eshape a = eshape e1
  | None, None => True
  | _, _ => False
  end.
Proof.
  revert e1 e2. induction Ds as [|D r IH]; intros e1 e2 H Hs Hwf Hin; [destruct Hin|].
  cbn [length repeat app dshape map] in *.
  apply env_agree_cons_inv in H. destruct H as (sc1 & r1 & sc2 & r2 & -> & -> & Hsc & Hr).
  cbn [eshape map] in Hs. injection Hs as Hs1 Hs2.
  destruct (ds_wf_head _ _ Hwf) as [HndD [Hwfr Hdis]].
  cbn [assign_env].
  assert (Hnd : NoDup (ids sc1)) by (rewrite Hs1; apply NoDup_map_some; exact HndD).
  pose proof (set_slot_kill L x n v _ _ Hsc Hnd) as S.
  destruct (set_slot (Some x) n v sc1) as [a|] eqn:E1, (set_slot (Some x) n v sc2) as [b|]; try contradiction.
  - destruct S as [S1 S2]. split.
    + constructor; [exact S1|]. apply (env_agree_add_free L x r Lr ShR); [assumption|assumption|].
      assert (HxD : In x D).
      { pose proof (set_slot_some_In _ _ _ _ _ E1) as Hi.
        rewrite Hs1 in Hi. apply in_map_iff in Hi. destruct Hi as [y [E Hy]]. inversion E; subst. exact Hy. }
      apply Hdis. exact HxD.
    + cbn [eshape map]. rewrite S2. reflexivity.
  - assert (HxD : ~ In x D).
    { intros Hi. apply S. rewrite Hs1. apply in_map. exact Hi. }
    cbn [concat] in Hin. apply in_app_or in Hin. destruct Hin as [Hin|Hin]; [contradiction|].
    specialize (IH r1 r2 Hr Hs2 Hwfr Hin).
    destruct (assign_env (Some x) n v r1) as [a|], (assign_env (Some x) n v r2) as [b|]; try contradiction; [|exact I].
    destruct IH as [I1 I2]. split.
    + constructor; [|exact I1]. apply scope_agree_add; [exact S|assumption].
    + cbn [eshape map]. fold (eshape a) (eshape r1). rewrite I2. reflexivity.
Qed.

Lemma set_slot_In_some x n v sc : In (Some x) (ids sc) -> exists a, set_slot (Some x) n v sc = Some a.
Proof.
  induction sc as [|s r IH]; cbn [ids map set_slot]; [intros []|]. fold (ids r).
  destruct (slot_matches (Some x) n s) eqn:M; [eauto|].
  intros [E|Hi].
  - apply (proj2 (slot_matches_some x n s)) in E. congruence.
  - destruct (IH Hi) as [a Ea]. rewrite Ea. eauto.
Qed.

Lemma define_kill L x n v D r Lr ShR e1 e2 :
  env_agree (repeat L (length (D :: r)) ++ Lr) e1 e2 -> eshape e1 = dshape (D :: r) ++ ShR ->
  ds_wf (D :: r) -> ~ In x (concat r) ->
  env_agree (repeat (x :: L) (length (D :: r)) ++ Lr) (define_env (Some x) n v e1) (define_env (Some x) n v e2) /\
  eshape (define_env (Some x) n v e1) = dshape ((if memz x D then D else x :: D) :: r) ++ ShR.
Proof.
  intros H Hs Hwf Hnr. cbn [length repeat app dshape map] in *.
  apply env_agree_cons_inv in H. destruct H as (sc1 & r1 & sc2 & r2 & -> & -> & Hsc & Hr).
  cbn [eshape map] in Hs. injection Hs as Hs1 Hs2.
  destruct (ds_wf_head _ _ Hwf) as [HndD [Hwfr Hdis]].
  assert (Hnd : NoDup (ids sc1)) by (rewrite Hs1; apply NoDup_map_some; exact HndD).
  assert (Hrest : env_agree (repeat (x :: L) (length r) ++ Lr) r1 r2)
    by (apply (env_agree_add_free L x r Lr ShR); assumption).
  cbn [define_env].
  pose proof (set_slot_kill L x n v _ _ Hsc Hnd) as S.
  destruct (set_slot (Some x) n v sc1) as [a|] eqn:E1, (set_slot (Some x) n v sc2) as [b|]; try contradiction.
  - destruct S as [S1 S2]. split; [constructor; assumption|].
    pose proof (set_slot_some_In _ _ _ _ _ E1) as Hi. rewrite Hs1 in Hi.
    apply in_map_iff in Hi. destruct Hi as [y [E Hy]]. inversion E; subst y.
    apply memz_In in Hy. rewrite Hy. cbn [eshape map]. rewrite S2, Hs1, Hs2. reflexivity.
  - assert (HxD : ~ In x D) by (intros Hi; apply S; rewrite Hs1; apply in_map; exact Hi).
    apply memz_nIn in HxD. rewrite HxD. split.
    + constructor; [|exact Hrest]. constructor.
      * split; [reflexivity|reflexivity].
      * apply scope_agree_add; assumption.
    + cbn [eshape map ids s_id]. fold (ids sc1). rewrite Hs1, Hs2. reflexivity.
Qed.

(* --- the skipped store: the other run changes a slot that is not live --- *)
Lemma set_slot_dead L x n v sc1 sc2 sc2' :
  scope_agree L sc1 sc2 -> ~ In x L -> set_slot (Some x) n v sc2 = Some sc2' -> scope_agree L sc1 sc2'.
Proof.
  intros H Hx. revert sc2'. induction H as [|a b r1 r2 [Hi Hv] Hr IH]; intros sc2'; cbn [set_slot]; [discriminate|].
  destruct (slot_matches (Some x) n b) eqn:M.
  - intros E. inversion E; subst. constructor; [|exact Hr]. split; [exact Hi|].
    apply (proj1 (slot_matches_some x n b)) in M. rewrite Hi, M. cbn. intros Hl. contradiction.
  - destruct (set_slot (Some x) n v r2) as [r2'|]; [|discriminate]. intros E. inversion E; subst.
    constructor; [split; assumption|]. apply IH. reflexivity.
Qed.

Lemma assign_dead L x n v Ds Lr ShR e1 e2 e2' :
  env_agree (repeat L (length Ds) ++ Lr) e1 e2 -> eshape e1 = dshape Ds ++ ShR ->
  In x (concat Ds) -> ~ In x L ->
  assign_env (Some x) n v e2 = Some e2' ->
  env_agree (repeat L (length Ds) ++ Lr) e1 e2'.
Proof.
  revert e1 e2 e2'. induction Ds as [|D r IH]; intros e1 e2 e2' H Hs Hin Hx; [destruct Hin|].
  cbn [length repeat app dshape map] in *.
  apply env_agree_cons_inv in H. destruct H as (sc1 & r1 & sc2 & r2 & -> & -> & Hsc & Hr).
  cbn [eshape map] in Hs. injection Hs as Hs1 Hs2.
  cbn [assign_env]. destruct (set_slot (Some x) n v sc2) as [sc2'|] eqn:E2.
  - intros E. inversion E; subst. constructor; [|exact Hr]. eapply set_slot_dead; eauto.
  - destruct (assign_env (Some x) n v r2) as [r2'|] eqn:E3; [|discriminate]. intros E. inversion E; subst.
    constructor; [exact Hsc|]. eapply IH; eauto.
    cbn [concat] in Hin. apply in_app_or in Hin. destruct Hin as [Hin|Hin]; [|exact Hin].
    exfalso. assert (Hi : In (Some x) (ids sc2)).
    { rewrite <- (scope_agree_ids _ _ _ Hsc), Hs1. apply in_map. exact Hin. }
    destruct (set_slot_In_some x n v _ Hi) as [a Ea]. congruence.
Qed.

Lemma define_dead L x n v D r Lr ShR e1 e2 :
  env_agree (repeat L (length (D :: r)) ++ Lr) e1 e2 -> eshape e1 = dshape (D :: r) ++ ShR ->
  In x D -> ~ In x L ->
  env_agree (repeat L (length (D :: r)) ++ Lr) e1 (define_env (Some x) n v e2).
Proof.
  intros H Hs Hin Hx. cbn [length repeat app dshape map] in *.
  apply env_agree_cons_inv in H. destruct H as (sc1 & r1 & sc2 & r2 & -> & -> & Hsc & Hr).
  cbn [eshape map] in Hs. injection Hs as Hs1 Hs2.
  cbn [define_env].
  assert (Hi : In (Some x) (ids sc2)).
  { rewrite <- (scope_agree_ids _ _ _ Hsc), Hs1. apply in_map. exact Hin. }
  destruct (set_slot_In_some x n v _ Hi) as [a Ea]. rewrite Ea.
  constructor; [|exact Hr]. eapply set_slot_dead; eauto.
Qed.

(* ------------------------------------------------------------------------------------ *)
(* D. the invariant of one activation                                                     *)

Section Inv.
Variable c : dctx.

(* a registered function: its body was checked against its summary *)
Definition fd_ok (fd : fdef) : Prop :=
  exists f R Lb,
    f_id fd = Some f /\ rt_get (d_rt c) f = Some R /\
    nodupb (param_ids (f_lstart fd) (f_params fd) 0 []) = true /\
    (d_calls c = true -> pfd_ok (pb_of c) (d_pt c) fd) /\
    tr_stmts c {| f_R := R; f_brk := []; f_next := [] |}
             [[]; param_ids (f_lstart fd) (f_params fd) 0 []] (f_body fd) [] = Some Lb.

Definition fns_ok (fs : list (list fdef)) : Prop :=
  forall sc fd, In sc fs -> In fd sc -> fd_ok fd.

(* the suspended callers: live set and slot ids of each of their scopes, and what the running
   activation may look up there *)
Record actx := { a_Lr : list lset; a_ShR : list (list (option Z)); a_R : lset }.

Definition ax_ok (ax : actx) : Prop :=
  forall x, In x (a_R ax) -> vis (a_Lr ax) (a_ShR ax) x = true.

Definition inv (ax : actx) (L : lset) (Ds : list lset) (s1 s2 : st) : Prop :=
  fns s1 = fns s2 /\ fns_ok (fns s1) /\
  env_agree (repeat L (length Ds) ++ a_Lr ax) (env s1) (env s2) /\
  eshape (env s1) = dshape Ds ++ a_ShR ax.

Lemma inv_weaken ax L L' Ds s1 s2 :
  (forall i, In i L' -> In i L) -> inv ax L Ds s1 s2 -> inv ax L' Ds s1 s2.
Proof.
  intros W (H1 & H2 & H3 & H4). refine (conj H1 (conj H2 (conj _ H4))).
  eapply env_agree_weaken; eauto.
Qed.

Lemma fns_ok_tl fs : fns_ok fs -> fns_ok (tl fs).
Proof. intros H sc fd Hs Hf. destruct fs as [|x r]; [destruct Hs|]. apply (H sc fd); [right; exact Hs|exact Hf]. Qed.
Lemma fns_ok_push fs : fns_ok fs -> fns_ok ([] :: fs).
Proof. intros H sc fd [E|Hs] Hf; [subst; destruct Hf|eapply H; eauto]. Qed.

Lemma inv_push ax L Ds s1 s2 :
  inv ax L Ds s1 s2 -> inv ax L ([] :: Ds) (push_scope [] s1) (push_scope [] s2).
Proof.
  intros (H1 & H2 & H3 & H4). unfold inv, push_scope. cbn [env fns].
  refine (conj _ (conj _ (conj _ _))).
  - rewrite H1. reflexivity.
  - apply fns_ok_push. exact H2.
  - cbn [length repeat app]. constructor; [constructor|exact H3].
  - cbn [eshape map dshape app]. fold (eshape (env s1)) (dshape Ds). rewrite H4. reflexivity.
Qed.

Lemma inv_pop ax L D Ds s1 s2 :
  inv ax L (D :: Ds) s1 s2 -> inv ax L Ds (pop_scope s1) (pop_scope s2).
Proof.
  intros (H1 & H2 & H3 & H4). unfold inv, pop_scope. cbn [env fns].
  cbn [length repeat app] in H3. apply env_agree_cons_inv in H3.
  destruct H3 as (sc1 & r1 & sc2 & r2 & E1 & E2 & Hsc & Hr). rewrite E1 in *. rewrite E2.
  cbn [tl]. refine (conj _ (conj _ (conj Hr _))).
  - rewrite H1. reflexivity.
  - apply fns_ok_tl. exact H2.
  - cbn [eshape map dshape app] in H4. injection H4 as _ H4. exact H4.
Qed.

Lemma inv_with_env ax L L' Ds Ds' s1 s2 e1 e2 :
  inv ax L Ds s1 s2 ->
  env_agree (repeat L' (length Ds') ++ a_Lr ax) e1 e2 -> eshape e1 = dshape Ds' ++ a_ShR ax ->
  inv ax L' Ds' (with_env e1 s1) (with_env e2 s2).
Proof.
  intros (H1 & H2 & _ & _) H3 H4. unfold inv, with_env. cbn [env fns]. auto.
Qed.

End Inv.

(* ------------------------------------------------------------------------------------ *)
(* E. expressions                                                                         *)

Section Sim.
Variable c : dctx.
Variable eps : f64.
Notation relM := (relMX (d_calls c)).

Definition Lfl (fc : fctx) (La : lset) (fl : flow) : lset :=
  match fl with FNormal => La | FReturn _ => [] | FBreak => f_brk fc | FNext => f_next fc end.

Definition vrel {X} (ax : actx) (L : lset) (Ds : list lset) (p1 p2 : X * st) : Prop :=
  fst p1 = fst p2 /\ inv c ax L Ds (snd p1) (snd p2).

Definition post (ax : actx) (fc : fctx) (Ds : list lset) (La : lset) (p1 p2 : flow * st) : Prop :=
  fst p1 = fst p2 /\ inv c ax (Lfl fc La (fst p1)) Ds (snd p1) (snd p2).

(* what the checker established about an expression evaluated with live set L *)
Definition eok (ax : actx) (L : lset) (Ds : list lset) (e : expr) : Prop :=
  expr_sup (d_rt c) e = true /\
  forall x, In x (rdx (d_rt c) e) -> In x L /\ (~ In x (concat Ds) -> In x (a_R ax)).
Definition eoks (ax : actx) (L : lset) (Ds : list lset) (es : list expr) : Prop :=
  forall e, In e es -> eok ax L Ds e.

Lemma eok_bin ax L Ds op a b : eok ax L Ds (EBin op a b) -> eok ax L Ds a /\ eok ax L Ds b.
Proof.
  intros [Hs Hr]. cbn [expr_sup rdx] in *. apply andb_prop in Hs. destruct Hs as [S1 S2].
  split; (split; [assumption|]); intros x Hx; apply Hr; apply in_or_app; auto.
Qed.
Lemma eok_idx ax L Ds a b : eok ax L Ds (EIdx a b) -> eok ax L Ds a /\ eok ax L Ds b.
Proof.
  intros [Hs Hr]. cbn [expr_sup rdx] in *. apply andb_prop in Hs. destruct Hs as [S1 S2].
  split; (split; [assumption|]); intros x Hx; apply Hr; apply in_or_app; auto.
Qed.
Lemma eok_un ax L Ds op a : eok ax L Ds (EUn op a) -> eok ax L Ds a.
Proof. intros H. exact H. Qed.
Lemma eok_arr ax L Ds es : eok ax L Ds (EArr es) -> eoks ax L Ds es.
Proof.
  intros [Hs Hr] e He. cbn [expr_sup rdx] in *. rewrite forallb_forall in Hs. split; [apply Hs; exact He|].
  intros x Hx. apply Hr. apply in_flat_map. exists e. auto.
Qed.
Lemma eoks_cons ax L Ds a r : eoks ax L Ds (a :: r) -> eok ax L Ds a /\ eoks ax L Ds r.
Proof. intros H. split; [apply H; left; reflexivity|intros e He; apply H; right; exact He]. Qed.

Definition callee_ok (ax : actx) (L : lset) (Ds : list lset) (callee : expr) (target : option Z) : Prop :=
  match callee with
  | EMember o _ => eok ax L Ds o
  | EVar f _ =>
      match global_builtin f with
      | Some _ => True
      | None => exists t R, target = Some t /\ rt_get (d_rt c) t = Some R /\
                            forall x, In x R -> In x L /\ (~ In x (concat Ds) -> In x (a_R ax))
      end
  | _ => True
  end.

Lemma eok_call ax L Ds callee args target :
  eok ax L Ds (ECall callee args target) -> eoks ax L Ds args /\ callee_ok ax L Ds callee target.
Proof.
  intros [Hs Hr]. cbn [expr_sup rdx] in *. apply andb_prop in Hs. destruct Hs as [S1 S2]. split.
  - intros e He. rewrite forallb_forall in S1. split; [apply S1; exact He|].
    intros x Hx. apply Hr. apply in_or_app. left. apply in_flat_map. exists e. auto.
  - unfold callee_ok. destruct callee; try exact I.
    + destruct (global_builtin n); [exact I|]. destruct target as [t|]; [|discriminate].
      destruct (rt_get (d_rt c) t) as [R|] eqn:ER; [|discriminate]. exists t, R.
      split; [reflexivity|]. split; [exact ER|]. intros x Hx. apply Hr. apply in_or_app. right. exact Hx.
    + split; [exact S2|]. intros x Hx. apply Hr. apply in_or_app. right. exact Hx.
Qed.

Lemma lookup_inv ax L Ds s1 s2 x n :
  ax_ok ax -> inv c ax L Ds s1 s2 -> In x L -> (~ In x (concat Ds) -> In x (a_R ax)) ->
  lookup_env (Some x) n (env s1) = lookup_env (Some x) n (env s2).
Proof.
  intros Hax (_ & _ & H3 & H4) HL HR. eapply lookup_agree; [exact H3|]. rewrite H4.
  apply vis_act; [exact HL|]. intros Hn. apply Hax. apply HR. exact Hn.
Qed.

Lemma eok_var ax L Ds n l : eok ax L Ds (EVar n l) ->
  exists x, l = Some x /\ In x L /\ (~ In x (concat Ds) -> In x (a_R ax)).
Proof.
  intros [Hs Hr]. cbn [expr_sup rdx] in *. destruct l as [x|]; [|discriminate]. exists x.
  split; [reflexivity|]. apply Hr. left. reflexivity.
Qed.

Lemma interp_inv ax L Ds s1 s2 segs :
  ax_ok ax -> inv c ax L Ds s1 s2 -> eok ax L Ds (EInterp segs) ->
  interp_segs (env s1) segs = interp_segs (env s2) segs.
Proof.
  intros Hax Hi [Hs Hr]. cbn [expr_sup rdx] in *. induction segs as [|sg r IH]; [reflexivity|].
  cbn [forallb flat_map] in *. apply andb_prop in Hs. destruct Hs as [S1 S2].
  assert (IH' : interp_segs (env s1) r = interp_segs (env s2) r).
  { apply IH; [exact S2|]. intros x Hx. apply Hr. apply in_or_app. right. exact Hx. }
  destruct sg as [b|vn vl]; cbn [interp_segs]; rewrite IH'; [reflexivity|].
  destruct vl as [x|]; [|discriminate].
  destruct (Hr x) as [HL HR]; [apply in_or_app; left; left; reflexivity|].
  rewrite (lookup_inv ax L Ds s1 s2 x vn Hax Hi HL HR). reflexivity.
Qed.

Lemma inv_assign ax L Ds s1 s2 x n v :
  inv c ax L Ds s1 s2 ->
  match assign_env (Some x) n v (env s1), assign_env (Some x) n v (env s2) with
  | Some a, Some b => inv c ax L Ds (with_env a s1) (with_env b s2)
  | None, None => True
  | _, _ => False
  end.
Proof.
  intros Hi. pose proof Hi as (_ & _ & H3 & H4).
  pose proof (assign_rel _ x n v _ _ H3) as A.
  destruct (assign_env (Some x) n v (env s1)), (assign_env (Some x) n v (env s2)); try contradiction; [|exact I].
  destruct A as [A1 A2]. eapply inv_with_env; [exact Hi|exact A1|]. rewrite A2. exact H4.
Qed.

Lemma flatten_ok ax L Ds t acc vn vl idx :
  flatten_target t acc = Some (vn, vl, idx) -> eok ax L Ds t -> eoks ax L Ds acc ->
  (exists x, vl = Some x /\ In x L /\ (~ In x (concat Ds) -> In x (a_R ax))) /\ eoks ax L Ds idx.
Proof.
  revert acc. induction t; intros acc E Ht Hacc; cbn [flatten_target] in E; try discriminate.
  - inversion E; subst. split; [eapply eok_var; exact Ht|exact Hacc].
  - apply eok_idx in Ht. destruct Ht as [H1 H2]. eapply IHt1; [exact E|exact H1|].
    intros e [He|He]; [subst; exact H2|apply Hacc; exact He].
Qed.

Ltac rbind H :=
  eapply rel_bind;
  [ eapply H; eauto
  | let v1 := fresh "v" in let t1 := fresh "t" in let v2 := fresh "w" in let t2 := fresh "u" in
    let E := fresh "E" in let Hi := fresh "Hi" in
    intros [v1 t1] [v2 t2] [E Hi]; cbn [fst snd] in E, Hi; subst v2 ].
Ltac rlift :=
  eapply rel_bind;
  [ apply rel_lift
  | let x := fresh "x" in let y := fresh "y" in let E := fresh "E" in intros x y E; subst y; cbn beta ].
Ltac rok := apply rel_ret; unfold vrel, post; cbn [fst snd Lfl]; split; [reflexivity|try assumption].
Ltac leaf := first [ apply rel_err | apply rel_panic | apply rel_unsupp | apply rel_fuel | rok ].

Section Expr.
Variable ev1 ev2 : expr -> st -> M (value * st).
Variable eb1 eb2 : list stmt -> st -> M (flow * st).
Hypothesis Hev : forall ax L Ds e s1 s2, ax_ok ax -> eok ax L Ds e -> inv c ax L Ds s1 s2 ->
  relM (vrel ax L Ds) (ev1 e s1) (ev2 e s2).
Hypothesis Heb : forall ax fc Ds b La Lb s1 s2,
  ax_ok ax -> a_R ax = f_R fc -> ds_wf Ds ->
  tr_stmts c fc ([] :: Ds) b La = Some Lb -> inv c ax Lb Ds s1 s2 ->
  relM (post ax fc Ds La) (eb1 b s1) (eb2 b s2).

Lemma evals_sim ax L Ds es s1 s2 :
  ax_ok ax -> eoks ax L Ds es -> inv c ax L Ds s1 s2 ->
  relM (vrel ax L Ds) (evals_with ev1 es s1) (evals_with ev2 es s2).
Proof.
  intros Hax. revert s1 s2. induction es as [|a r IH]; intros s1 s2 H Hi; cbn [evals_with].
  - leaf.
  - apply eoks_cons in H. destruct H as [Ha Hr].
    rbind Hev. rbind IH. leaf.
Qed.

Lemma indices_sim ax L Ds es s1 s2 :
  ax_ok ax -> eoks ax L Ds es -> inv c ax L Ds s1 s2 ->
  relM (vrel ax L Ds) (indices_with ev1 es s1) (indices_with ev2 es s2).
Proof.
  intros Hax. revert s1 s2. induction es as [|a r IH]; intros s1 s2 H Hi; cbn [indices_with].
  - leaf.
  - apply eoks_cons in H. destruct H as [Ha Hr].
    rbind Hev. rlift. rbind IH. leaf.
Qed.

Lemma mutate_sim ax L Ds o op s1 s2 :
  ax_ok ax -> eok ax L Ds o -> inv c ax L Ds s1 s2 ->
  relM (vrel ax L Ds) (mutate_with ev1 o op s1) (mutate_with ev2 o op s2).
Proof.
  intros Hax Ho Hi. destruct o; cbn [mutate_with]; try apply rel_err.
  - destruct (eok_var _ _ _ _ _ Ho) as (x & -> & HL & HR).
    rewrite (lookup_inv ax L Ds s1 s2 x n Hax Hi HL HR).
    destruct (lookup_env (Some x) n (env s2)) as [root|]; [|leaf].
    rlift. destruct x0 as [root' r].
    pose proof (inv_assign ax L Ds s1 s2 x n root' Hi) as A.
    destruct (assign_env (Some x) n root' (env s1)), (assign_env (Some x) n root' (env s2)); try contradiction; leaf.
  - destruct (flatten_target (EIdx o1 o2) []) as [[[vn vl] idx]|] eqn:E; [|leaf].
    destruct (flatten_ok ax L Ds _ _ _ _ _ E Ho) as [(x & -> & HL & HR) Hidx]; [intros e []|].
    rbind indices_sim.
    rewrite (lookup_inv ax L Ds t u x vn Hax Hi0 HL HR).
    destruct (lookup_env (Some x) vn (env u)) as [root|]; [|leaf].
    rlift. destruct x0 as [root' r].
    pose proof (inv_assign ax L Ds t u x vn root' Hi0) as A.
    destruct (assign_env (Some x) vn root' (env t)), (assign_env (Some x) vn root' (env u)); try contradiction; leaf.
Qed.

Lemma string_call_sim ax L Ds str f args s1 s2 :
  ax_ok ax -> eoks ax L Ds args -> inv c ax L Ds s1 s2 ->
  relM (vrel ax L Ds) (string_call ev1 str f args s1) (string_call ev2 str f args s2).
Proof.
  intros Hax Ha Hi. unfold string_call.
  destruct (negb (mem_name f string_methods)); [leaf|].
  destruct (bytes_eqb f n_len); [leaf|].
  destruct (bytes_eqb f n_slice).
  { destruct args as [|a0 [|a1 r]]; try leaf.
    apply eoks_cons in Ha. destruct Ha as [H0 Ha]. apply eoks_cons in Ha. destruct Ha as [H1 _].
    rbind Hev. rbind Hev. destruct v, v0; leaf. }
  destruct (bytes_eqb f n_to_uppercase). { destruct (is_ascii str); leaf. }
  destruct (bytes_eqb f n_to_lowercase). { destruct (is_ascii str); leaf. }
  destruct (bytes_eqb f n_trim); [leaf|].
  destruct (bytes_eqb f n_to_number); [leaf|].
  destruct (bytes_eqb f n_find).
  { destruct args as [|a0 r]; try leaf. apply eoks_cons in Ha. destruct Ha as [H0 _].
    rbind Hev. destruct v; try leaf. destruct (find str s); leaf. }
  destruct (bytes_eqb f n_replace).
  { destruct args as [|a0 [|a1 r]]; try leaf.
    apply eoks_cons in Ha. destruct Ha as [H0 Ha]. apply eoks_cons in Ha. destruct Ha as [H1 _].
    rbind Hev. rbind Hev. destruct v, v0; try leaf. destruct (replace str s s0); leaf. }
  destruct args as [|a0 r]; try leaf. apply eoks_cons in Ha. destruct Ha as [H0 _].
  rbind Hev. destruct v; leaf.
Qed.

Lemma array_call_sim ax L Ds items f args s1 s2 :
  ax_ok ax -> eoks ax L Ds args -> inv c ax L Ds s1 s2 ->
  relM (vrel ax L Ds) (array_call ev1 items f args s1) (array_call ev2 items f args s2).
Proof.
  intros Hax Ha Hi. unfold array_call.
  destruct (negb (mem_name f array_methods)); [leaf|].
  destruct (bytes_eqb f n_len); [leaf|].
  destruct (bytes_eqb f n_join); [|leaf].
  destruct args as [|a0 r]; try leaf. apply eoks_cons in Ha. destruct Ha as [H0 _].
  rbind Hev. destruct v; leaf.
Qed.

Lemma member_call_sim ax L Ds o f args s1 s2 :
  ax_ok ax -> eok ax L Ds o -> eoks ax L Ds args -> inv c ax L Ds s1 s2 ->
  relM (vrel ax L Ds) (member_call ev1 o f args s1) (member_call ev2 o f args s2).
Proof.
  intros Hax Ho Ha Hi. unfold member_call.
  destruct (mem_name f array_mut_methods).
  { destruct (bytes_eqb f n_push).
    - destruct args as [|a0 r]; try leaf. apply eoks_cons in Ha. destruct Ha as [H0 _].
      rbind Hev. apply mutate_sim; assumption.
    - destruct (bytes_eqb f n_pop); apply mutate_sim; assumption. }
  destruct (mem_name f proc_mut_names); [leaf|].
  rbind Hev. destruct v; try leaf.
  - destruct (mem_name f number_methods); leaf.
  - apply string_call_sim; assumption.
  - apply array_call_sim; assumption.
Qed.

Lemma builtin_call_sim ax L Ds g args s1 s2 :
  ax_ok ax -> eoks ax L Ds args -> inv c ax L Ds s1 s2 ->
  relM (vrel ax L Ds) (builtin_call ev1 g args s1) (builtin_call ev2 g args s2).
Proof.
  intros Hax Ha Hi. unfold builtin_call. rbind evals_sim.
  destruct v as [|v1 [|v2 r]]; try leaf.
  destruct g; try leaf.
  apply rel_out. unfold vrel. cbn [fst snd]. split; [reflexivity|assumption].
Qed.

Lemma bind_params_ids f ls ps : forall vs k acc accz,
  length vs = length ps -> ids acc = map Some accz ->
  ids (bind_params (Some f) ls ps vs k acc) = map Some (param_ids ls ps k accz).
Proof.
  induction ps as [|p ps IH]; intros vs k acc accz Hl Ha; cbn [bind_params param_ids]; [exact Ha|].
  destruct vs as [|v vs]; [discriminate Hl|]. apply IH; [cbn in Hl; lia|].
  cbn [ids map s_id]. fold (ids acc). rewrite Ha. reflexivity.
Qed.

Lemma inv_call ax L Ds s1 s2 P R Lb pz :
  inv c ax L Ds s1 s2 -> ids P = map Some pz ->
  inv c {| a_Lr := repeat L (length Ds) ++ a_Lr ax; a_ShR := dshape Ds ++ a_ShR ax; a_R := R |}
      Lb [pz] (push_scope P s1) (push_scope P s2).
Proof.
  intros (H1 & H2 & H3 & H4) HP. unfold inv, push_scope. cbn [env fns a_Lr a_ShR length repeat app].
  refine (conj _ (conj _ (conj _ _))).
  - rewrite H1. reflexivity.
  - apply fns_ok_push. exact H2.
  - constructor; [apply scope_agree_refl|exact H3].
  - cbn [eshape map dshape app]. fold (eshape (env s1)). rewrite H4, HP. reflexivity.
Qed.

Lemma inv_return ax L Ds s1 s2 R L' pz :
  inv c {| a_Lr := repeat L (length Ds) ++ a_Lr ax; a_ShR := dshape Ds ++ a_ShR ax; a_R := R |}
      L' [pz] s1 s2 ->
  inv c ax L Ds (pop_scope s1) (pop_scope s2).
Proof. intros H. apply inv_pop in H. exact H. Qed.

Lemma user_call_sim ax L Ds fname fl args target s1 s2 :
  ax_ok ax -> global_builtin fname = None ->
  callee_ok ax L Ds (EVar fname fl) target -> eoks ax L Ds args -> inv c ax L Ds s1 s2 ->
  relM (vrel ax L Ds) (user_call ev1 eb1 fname args target s1) (user_call ev2 eb2 fname args target s2).
Proof.
  intros Hax Hg Hc Ha Hi. unfold user_call.
  unfold callee_ok in Hc. rewrite Hg in Hc. destruct Hc as (t & R & -> & ER & HR).
  pose proof Hi as (Hf & Hfo & _ & _). rewrite Hf. rewrite Hf in Hfo.
  destruct (lookup_fn (Some t) fname (fns s2)) as [fd|] eqn:E; [|leaf].
  destruct (lookup_fn_In _ _ _ _ E) as [sc [Hsc [Hfd Hm]]].
  destruct (Hfo sc fd Hsc Hfd) as (f & R' & Lb & Eid & ER' & Hnd & _ & Htr).
  unfold fdef_matches in Hm. apply opt_eqb_some in Hm. rewrite Eid in Hm. inversion Hm; subst f.
  rewrite ER in ER'. inversion ER'; subst R'. clear ER' Hm.
  rbind evals_sim.
  destruct (negb (Nat.eqb (length v) (length (f_params fd)))) eqn:El; [leaf|].
  apply negb_false_iff in El. apply Nat.eqb_eq in El.
  destruct (match f_id fd with Some _ => f_llen fd <? Z.of_nat (length (f_params fd)) | None => false end); [leaf|].
  cbv zeta.
  set (pz := param_ids (f_lstart fd) (f_params fd) 0 []) in *.
  set (P := bind_params (f_id fd) (f_lstart fd) (f_params fd) v 0 []).
  set (ax' := {| a_Lr := repeat L (length Ds) ++ a_Lr ax; a_ShR := dshape Ds ++ a_ShR ax; a_R := R |}).
  assert (HP : ids P = map Some pz).
  { unfold P, pz. rewrite Eid. apply bind_params_ids; [exact El|reflexivity]. }
  eapply rel_bind.
  - eapply (Heb ax' {| f_R := R; f_brk := []; f_next := [] |} [pz] (f_body fd) [] Lb).
    + intros x Hx. cbn [a_R a_Lr a_ShR ax'] in *. destruct (HR x Hx) as [HL HRx].
      apply vis_act; [exact HL|]. intros Hn. apply Hax. apply HRx. exact Hn.
    + reflexivity.
    + unfold ds_wf. cbn [concat]. rewrite app_nil_r. apply nodupb_NoDup. exact Hnd.
    + exact Htr.
    + apply inv_call; assumption.
  - intros [fl1 s3] [fl2 s3'] [Efl Hp]. cbn [fst snd] in Efl, Hp. subst fl2.
    apply inv_return in Hp.
    destruct fl1; leaf.
Qed.

Lemma eval_body_sim ax L Ds e s1 s2 :
  ax_ok ax -> eok ax L Ds e -> inv c ax L Ds s1 s2 ->
  relM (vrel ax L Ds) (eval_body eps ev1 eb1 e s1) (eval_body eps ev2 eb2 e s2).
Proof.
  intros Hax He Hi. destruct e; cbn [eval_body]; try leaf.
  - (* EInterp *)
    rewrite (interp_inv ax L Ds s1 s2 segs Hax Hi He). rlift. leaf.
  - (* EVar *)
    destruct (eok_var _ _ _ _ _ He) as (x & -> & HL & HR).
    rewrite (lookup_inv ax L Ds s1 s2 x n Hax Hi HL HR).
    destruct (lookup_env (Some x) n (env s2)); leaf.
  - (* EBin *)
    apply eok_bin in He. destruct He as [H1 H2].
    destruct op.
    1-5, 8-10: (rbind Hev; rbind Hev; rlift; leaf).
    + rbind Hev. destruct v as [| |[|]| |]; try leaf; (rbind Hev; destruct v; leaf).
    + rbind Hev. destruct v as [| |[|]| |]; try leaf; (rbind Hev; destruct v; leaf).
  - (* EUn *)
    apply eok_un in He. rbind Hev. destruct op, v; leaf.
  - (* EArr *)
    apply eok_arr in He. rbind evals_sim. leaf.
  - (* EIdx *)
    apply eok_idx in He. destruct He as [H1 H2].
    rbind Hev. rbind Hev. destruct v; try leaf. destruct v0; try leaf.
    destruct (negb (is_finite x) || negb (is_int x)); [leaf|]. cbv zeta.
    destruct ((to_isize x <? 0) || (len_z vs <=? to_isize x)); [leaf|].
    destruct (nth_value vs (Z.to_nat (to_isize x))); leaf.
  - (* ECall *)
    apply eok_call in He. destruct He as [Ha Hc].
    destruct e; try leaf.
    + destruct (global_builtin n) eqn:Eg.
      * apply builtin_call_sim; assumption.
      * eapply user_call_sim; eassumption.
    + apply member_call_sim; assumption.
Qed.

End Expr.

(* ------------------------------------------------------------------------------------ *)
(* F. statements                                                                          *)

Lemma echk_eok ax fc L Ds e :
  a_R ax = f_R fc -> echk c fc Ds e = true ->
  (forall x, In x (rdx (d_rt c) e) -> In x L) -> eok ax L Ds e.
Proof.
  intros HR H HL. unfold echk in H. apply andb_prop in H. destruct H as [H1 H2].
  split; [exact H1|]. intros x Hx. split; [apply HL; exact Hx|].
  intros Hn. rewrite HR. eapply subset_incl; [exact H2|]. apply In_minus_ids. auto.
Qed.

Lemma decl1_length Ds t : length (decl1 Ds t) = length Ds.
Proof.
  destruct t; try reflexivity. cbn [decl1]. destruct l; [|reflexivity]. destruct Ds; reflexivity.
Qed.

Lemma decl1_tl Ds t : tl (decl1 Ds t) = tl Ds.
Proof.
  destruct t; try reflexivity. cbn [decl1]. destruct l; [|reflexivity]. destruct Ds; reflexivity.
Qed.

Section Stmt.
Variable ev1 ev2 : expr -> st -> M (value * st).
Variable el1 el2 : expr -> list stmt -> st -> M (flow * st).
Variable eb1 eb2 : list stmt -> st -> M (flow * st).
Hypothesis Hev : forall ax L Ds e s1 s2, ax_ok ax -> eok ax L Ds e -> inv c ax L Ds s1 s2 ->
  relM (vrel ax L Ds) (ev1 e s1) (ev2 e s2).
Hypothesis Heb : forall ax fc Ds b La Lb s1 s2,
  ax_ok ax -> a_R ax = f_R fc -> ds_wf Ds ->
  tr_stmts c fc ([] :: Ds) b La = Some Lb -> inv c ax Lb Ds s1 s2 ->
  relM (post ax fc Ds La) (eb1 b s1) (eb2 b s2).
Hypothesis Hel : forall ax fc Ds cnd body La H B s1 s2,
  ax_ok ax -> a_R ax = f_R fc -> ds_wf Ds -> eok ax H Ds cnd ->
  tr_stmts c {| f_R := f_R fc; f_brk := La; f_next := H |} ([] :: Ds) body H = Some B ->
  (forall x, In x B -> In x H) -> (forall x, In x La -> In x H) ->
  inv c ax H Ds s1 s2 ->
  relM (post ax fc Ds La) (el1 cnd body s1) (el2 cnd body s2).

Lemma exec_body_sim ax fc Ds t La Lb s1 s2 :
  ax_ok ax -> a_R ax = f_R fc -> ds_wf Ds ->
  tr_stmt c fc Ds t La = Some Lb -> inv c ax Lb Ds s1 s2 ->
  relM (post ax fc (decl1 Ds t) La) (exec_body ev1 el1 eb1 t s1) (exec_body ev2 el2 eb2 t s2).
Proof.
  intros Hax HR Hwf Ht Hi. destruct t; cbn [tr_stmt] in Ht; fold (tr_stmts c) in Ht; cbn [exec_body decl1].
  - (* SFun *)
    assert (E : Lb = La).
    { destruct (in_plan_fn (d_pa c) fid); [inversion Ht; reflexivity|].
      destruct fid; [|discriminate]. destruct (rt_get (d_rt c) z); [|discriminate].
      match type of Ht with (if ?b then _ else _) = _ => destruct b end; [|discriminate].
      destruct (tr_stmts c _ _ body []); [inversion Ht; reflexivity|discriminate]. }
    subst Lb. leaf.
  - (* SMake *)
    destruct l as [x|]; [|discriminate].
    destruct (echk c fc Ds e) eqn:Ee; [|discriminate].
    destruct (negb (memz x (concat (tl Ds)))) eqn:Ex; [|discriminate].
    destruct (negb (Nat.eqb (length Ds) 0)) eqn:El; [|discriminate].
    cbn [andb] in Ht. inversion Ht; subst Lb. clear Ht.
    destruct Ds as [|D r]; [discriminate El|]. cbn [tl] in Ex.
    apply negb_true_iff in Ex. apply memz_nIn in Ex.
    assert (He : eok ax (lunion (remove1 x La) (rdx (d_rt c) e)) (D :: r) e).
    { eapply echk_eok; eauto. intros y Hy. apply In_lunion. right. exact Hy. }
    rbind Hev.
    pose proof Hi0 as (_ & _ & H3 & H4).
    destruct (define_kill _ x n v D r _ _ _ _ H3 H4 Hwf Ex) as [K1 K2].
    apply rel_ret. unfold post. cbn [fst snd Lfl]. split; [reflexivity|].
    eapply inv_with_env; [exact Hi0| |exact K2].
    cbn [length] in *. eapply env_agree_weaken; [|exact K1].
    intros i Hi'. destruct (Z.eq_dec i x) as [->|Hne]; [left; reflexivity|right].
    apply In_lunion. left. apply In_remove1. auto.
  - (* SSet *)
    destruct l as [x|]; [|discriminate].
    destruct (echk c fc Ds e) eqn:Ee; [|discriminate].
    inversion Ht; subst Lb. clear Ht.
    assert (He : eok ax (lunion (if memz x (concat Ds) then remove1 x La else La) (rdx (d_rt c) e)) Ds e).
    { eapply echk_eok; eauto. intros y Hy. apply In_lunion. right. exact Hy. }
    rbind Hev.
    destruct (memz x (concat Ds)) eqn:Ex.
    + apply memz_In in Ex. pose proof Hi0 as (_ & _ & H3 & H4).
      pose proof (assign_kill _ x n v Ds _ _ _ _ H3 H4 Hwf Ex) as K.
      destruct (assign_env (Some x) n v (env t)), (assign_env (Some x) n v (env u)); try contradiction; [|leaf].
      destruct K as [K1 K2].
      apply rel_ret. unfold post. cbn [fst snd Lfl]. split; [reflexivity|].
      eapply inv_with_env; [exact Hi0| |rewrite K2; exact H4].
      eapply env_agree_weaken; [|exact K1].
      intros i Hi'. destruct (Z.eq_dec i x) as [->|Hne]; [left; reflexivity|right].
      apply In_lunion. left. apply In_remove1. auto.
    + pose proof (inv_assign ax _ Ds t u x n v Hi0) as A.
      destruct (assign_env (Some x) n v (env t)), (assign_env (Some x) n v (env u)); try contradiction; [|leaf].
      apply rel_ret. unfold post. cbn [fst snd Lfl]. split; [reflexivity|].
      eapply inv_weaken; [|exact A]. intros i Hi'. apply In_lunion. left. exact Hi'.
  - (* SSetIdx *)
    destruct (echk c fc Ds target) eqn:Et; [|discriminate].
    destruct (echk c fc Ds e) eqn:Ee; [|discriminate].
    cbn [andb] in Ht. inversion Ht; subst Lb. clear Ht.
    set (L := lunion La (lunion (rdx (d_rt c) target) (rdx (d_rt c) e))) in *.
    assert (He : eok ax L Ds e).
    { eapply echk_eok; eauto. intros y Hy. apply In_lunion. right. apply In_lunion. right. exact Hy. }
    assert (Htg : eok ax L Ds target).
    { eapply echk_eok; eauto. intros y Hy. apply In_lunion. right. apply In_lunion. left. exact Hy. }
    rbind Hev.
    destruct (flatten_target target []) as [[[vn vl] idx]|] eqn:E; [|leaf].
    destruct (flatten_ok ax L Ds _ _ _ _ _ E Htg) as [(x & -> & HL & HRx) Hidx]; [intros e0 []|].
    rbind (indices_sim ev1 ev2 Hev).
    rewrite (lookup_inv ax L Ds t0 u0 x vn Hax Hi1 HL HRx).
    destruct (lookup_env (Some x) vn (env u0)) as [root|]; [|leaf].
    rlift.
    pose proof (inv_assign ax L Ds t0 u0 x vn x0 Hi1) as A.
    destruct (assign_env (Some x) vn x0 (env t0)), (assign_env (Some x) vn x0 (env u0)); try contradiction; [|leaf].
    apply rel_ret. unfold post. cbn [fst snd Lfl]. split; [reflexivity|].
    eapply inv_weaken; [|exact A]. intros i Hi'. apply In_lunion. left. exact Hi'.
  - (* SIf *)
    destruct (echk c fc Ds c0) eqn:Ec; [|discriminate].
    destruct (tr_stmts c fc ([] :: Ds) t La) as [A|] eqn:EA; [|discriminate].
    destruct (match f with Some b => tr_stmts c fc ([] :: Ds) b La | None => Some La end) as [B|] eqn:EB; [|discriminate].
    inversion Ht; subst Lb. clear Ht.
    set (L := lunion (rdx (d_rt c) c0) (lunion A B)) in *.
    assert (Hc : eok ax L Ds c0).
    { eapply echk_eok; eauto. intros y Hy. apply In_lunion. left. exact Hy. }
    rbind Hev. rlift. destruct x.
    + eapply Heb; eauto. eapply inv_weaken; [|exact Hi0].
      intros i Hi'. apply In_lunion. right. apply In_lunion. left. exact Hi'.
    + destruct f as [fb|].
      * eapply Heb; eauto. eapply inv_weaken; [|exact Hi0].
        intros i Hi'. apply In_lunion. right. apply In_lunion. right. exact Hi'.
      * inversion EB; subst B. apply rel_ret. unfold post. cbn [fst snd Lfl]. split; [reflexivity|].
        eapply inv_weaken; [|exact Hi0].
        intros i Hi'. apply In_lunion. right. apply In_lunion. right. exact Hi'.
  - (* SLoop *)
    destruct (echk c fc Ds c0) eqn:Ec; [|discriminate].
    cbv zeta in Ht. unfold tr_stmts in Ht.
    match type of Ht with context [loop_head ?st ?n ?h] => set (H := loop_head st n h) in Ht end.
    fold (tr_stmts c) in Ht.
    destruct (tr_stmts c {| f_R := f_R fc; f_brk := La; f_next := H |} ([] :: Ds) body H) as [B|] eqn:EB; [|discriminate].
    destruct (subset B H) eqn:S1; [|discriminate].
    destruct (subset La H) eqn:S2; [|discriminate].
    destruct (subset (rdx (d_rt c) c0) H) eqn:S3; [|discriminate].
    cbn [andb] in Ht. inversion Ht; subst Lb. clear Ht.
    eapply Hel; eauto.
    + eapply echk_eok; eauto. apply subset_incl. exact S3.
    + apply subset_incl. exact S1.
    + apply subset_incl. exact S2.
  - (* SBlock *)
    eapply Heb; eauto.
  - (* SRet *)
    destruct e as [e|].
    + destruct (echk c fc Ds e) eqn:Ee; [|discriminate]. inversion Ht; subst Lb. clear Ht.
      assert (He : eok ax (rdx (d_rt c) e) Ds e) by (eapply echk_eok; eauto).
      rbind Hev. apply rel_ret. unfold post. cbn [fst snd Lfl]. split; [reflexivity|].
      eapply inv_weaken; [|exact Hi0]. intros i [].
    + inversion Ht; subst Lb. leaf.
  - (* SBreak *)
    inversion Ht; subst Lb. leaf.
  - (* SNext *)
    inversion Ht; subst Lb. leaf.
  - (* SExpr *)
    destruct (echk c fc Ds e) eqn:Ee; [|discriminate]. inversion Ht; subst Lb. clear Ht.
    assert (He : eok ax (lunion La (rdx (d_rt c) e)) Ds e).
    { eapply echk_eok; eauto. intros y Hy. apply In_lunion. right. exact Hy. }
    rbind Hev. apply rel_ret. unfold post. cbn [fst snd Lfl]. split; [reflexivity|].
    eapply inv_weaken; [|exact Hi0]. intros i Hi'. apply In_lunion. left. exact Hi'.
Qed.

Lemma loop_body_sim ax fc Ds cnd body La H B s1 s2 :
  ax_ok ax -> a_R ax = f_R fc -> ds_wf Ds -> eok ax H Ds cnd ->
  tr_stmts c {| f_R := f_R fc; f_brk := La; f_next := H |} ([] :: Ds) body H = Some B ->
  (forall x, In x B -> In x H) -> (forall x, In x La -> In x H) ->
  inv c ax H Ds s1 s2 ->
  relM (post ax fc Ds La) (loop_body ev1 el1 eb1 cnd body s1) (loop_body ev2 el2 eb2 cnd body s2).
Proof.
  intros Hax HR Hwf Hc Hb HB HLa Hi. unfold loop_body.
  rbind Hev. rlift. destruct (negb x).
  - apply rel_ret. unfold post. cbn [fst snd Lfl]. split; [reflexivity|].
    eapply inv_weaken; [exact HLa|exact Hi0].
  - eapply rel_bind.
    + eapply (Heb ax {| f_R := f_R fc; f_brk := La; f_next := H |} Ds body H B); eauto.
      eapply inv_weaken; [exact HB|exact Hi0].
    + intros [fl1 s3] [fl2 s3'] [Efl Hp]. cbn [fst snd] in Efl, Hp. subst fl2.
      destruct fl1; cbn [Lfl f_brk f_next] in Hp.
      * eapply Hel; eauto.
      * apply rel_ret. unfold post. cbn [fst snd Lfl]. split; [reflexivity|exact Hp].
      * apply rel_ret. unfold post. cbn [fst snd Lfl]. split; [reflexivity|exact Hp].
      * eapply Hel; eauto.
Qed.

End Stmt.

(* ------------------------------------------------------------------------------------ *)
(* G. blocks                                                                              *)

Lemma in_pb_stmt sid : in_plan_stmt (pb_of c) sid = in_plan_stmt (d_pa c) sid && negb (in_acc c sid).
Proof.
  unfold pb_of, in_plan_stmt, in_acc. destruct (d_pa c) as [[ss fs]|]; [|reflexivity].
  destruct sid as [i|]; [|reflexivity].
  fold (memz i (filter (fun j => negb (memz j (d_acc c))) ss)). fold (memz i ss).
  destruct (memz i ss) eqn:E1; cbn [andb].
  - destruct (memz i (d_acc c)) eqn:E2; cbn [negb].
    + apply memz_nIn. intros H. apply filter_In in H. destruct H as [_ H]. rewrite E2 in H. discriminate.
    + apply memz_In. apply filter_In. split; [apply memz_In; exact E1|]. rewrite E2. reflexivity.
  - apply memz_nIn. intros H. apply filter_In in H. destruct H as [H _]. apply memz_In in H. congruence.
Qed.

Lemma in_pb_fn fid : in_plan_fn (pb_of c) fid = in_plan_fn (d_pa c) fid.
Proof. unfold pb_of, in_plan_fn. destruct (d_pa c) as [[ss fs]|]; reflexivity. Qed.

Lemma tr_stmts_cons fc Ds t r La :
  tr_stmts c fc Ds (t :: r) La =
  match tr_stmts c fc (decl_after c Ds t) r La with
  | None => None
  | Some Lm =>
      if in_plan_stmt (d_pa c) (stmt_sid t) then
        if in_acc c (stmt_sid t) then
          if pruned_store_ok c Ds Lm t then Some Lm else None
        else if is_fun t then tr_stmt c fc Ds t Lm
        else Some Lm
      else tr_stmt c fc Ds t Lm
  end.
Proof. reflexivity. Qed.

Definition sfun_ok (t : stmt) : Prop :=
  match t with
  | SFun _ n ps body fid ls ll =>
      in_plan_fn (d_pa c) fid = true \/
      fd_ok c {| f_id := fid; f_name := n; f_params := ps; f_body := body; f_lstart := ls; f_llen := ll |}
  | _ => True
  end.

Lemma tr_stmt_sfun fc Ds t La Lb : tr_stmt c fc Ds t La = Some Lb -> sfun_ok t.
Proof.
  destruct t; try (intros; exact I). cbn [tr_stmt sfun_ok]. fold (tr_stmts c).
  destruct (in_plan_fn (d_pa c) fid); [left; reflexivity|].
  destruct fid as [f|]; [|discriminate]. destruct (rt_get (d_rt c) f) as [R|] eqn:ER; [|discriminate].
  match goal with |- (if ?b then _ else _) = _ -> _ => destruct b eqn:En end; [|discriminate].
  apply andb_prop in En. destruct En as [En Epf].
  destruct (tr_stmts c _ _ body []) as [Lx|] eqn:Et; [|discriminate].
  intros _. right. exists f, R, Lx. cbn [f_id f_lstart f_params f_body].
  refine (conj eq_refl (conj ER (conj En (conj _ Et)))).
  intros Hc f' Ef Hm. rewrite Hc in Epf. cbn [f_id] in Ef. inversion Ef; subst f'.
  cbn [f_lstart f_params f_body]. unfold pf_fun in Epf. rewrite Hm in Epf. exact Epf.
Qed.

Lemma tr_stmts_funs fc ts : forall Ds La Lb,
  tr_stmts c fc Ds ts La = Some Lb -> forall x, In x ts -> is_fun x = true -> sfun_ok x.
Proof.
  induction ts as [|t r IH]; intros Ds La Lb H x Hx Hf; [destruct Hx|].
  rewrite tr_stmts_cons in H.
  destruct (tr_stmts c fc (decl_after c Ds t) r La) as [Lm|] eqn:Er; [|discriminate].
  destruct Hx as [->|Hx]; [|eapply IH; eauto].
  destruct (in_plan_stmt (d_pa c) (stmt_sid x)).
  - destruct (in_acc c (stmt_sid x)).
    + destruct x; cbn in Hf; try discriminate.
    + rewrite Hf in H. eapply tr_stmt_sfun; eauto.
  - eapply tr_stmt_sfun; eauto.
Qed.

Lemma hoist_rel b : forall s1 s2,
  (forall x, In x b -> is_fun x = true -> sfun_ok x) ->
  fns s1 = fns s2 -> fns_ok c (fns s1) -> fns s1 <> [] ->
  exists s1' s2', hoist (d_pa c) b s1 = Ok s1' /\ hoist (pb_of c) b s2 = Ok s2' /\
                  env s1' = env s1 /\ env s2' = env s2 /\ fns s1' = fns s2' /\ fns_ok c (fns s1').
Proof.
  induction b as [|a r IH]; intros s1 s2 Hf Hfe Hok Hne.
  - exists s1, s2. cbn [hoist]. auto 10.
  - assert (Hr : forall x, In x r -> is_fun x = true -> sfun_ok x) by (intros x Hx; apply Hf; right; exact Hx).
    destruct a; cbn [hoist]; try (apply IH; assumption).
    rewrite in_pb_fn. specialize (Hf _ (or_introl eq_refl) eq_refl). cbn [sfun_ok] in Hf.
    destruct (in_plan_fn (d_pa c) fid) eqn:Ep; [apply IH; assumption|].
    destruct Hf as [Hf|Hf]; [discriminate|].
    rewrite <- Hfe. destruct (fns s1) as [|sc rest] eqn:Efs; [contradiction|].
    set (f := {| f_id := fid; f_name := n; f_params := ps; f_body := body; f_lstart := lstart; f_llen := llen |}) in *.
    destruct (IH {| env := env s1; fns := (f :: sc) :: rest |} {| env := env s2; fns := (f :: sc) :: rest |})
      as (s1' & s2' & H1 & H2 & H3 & H4 & H5 & H6); try assumption.
    + reflexivity.
    + cbn [fns]. intros sc0 f0 [E|Hin] Hf0.
      * subst sc0. destruct Hf0 as [E|Hf0]; [subst f0; exact Hf|].
        apply (Hok sc f0); [left; reflexivity|exact Hf0].
      * apply (Hok sc0 f0); [right; exact Hin|exact Hf0].
    + cbn [fns]. discriminate.
    + exists s1', s2'. cbn [env] in H3, H4. auto 10.
Qed.

Section Block.
Variable ex1 ex2 : stmt -> st -> M (flow * st).
Hypothesis Hex : forall ax fc Ds t La Lb s1 s2,
  ax_ok ax -> a_R ax = f_R fc -> ds_wf Ds ->
  tr_stmt c fc Ds t La = Some Lb -> inv c ax Lb Ds s1 s2 ->
  relM (post ax fc (decl1 Ds t) La) (ex1 t s1) (ex2 t s2).
Hypothesis Hpr : forall ax L Ds t s1 s2,
  ds_wf Ds -> pruned_store_ok c Ds L t = true -> inv c ax L Ds s1 s2 ->
  tolX (d_calls c) (snd (ex2 t s2)) \/
  exists s2', ex2 t s2 = ([], Ok (FNormal, s2')) /\ inv c ax L Ds s1 s2'.

Lemma decl1_wf fc Ds t La Lb : tr_stmt c fc Ds t La = Some Lb -> ds_wf Ds -> ds_wf (decl1 Ds t).
Proof.
  intros Ht Hwf. destruct t; try exact Hwf. cbn [decl1]. destruct l as [x|]; [|exact Hwf].
  destruct Ds as [|D r]; [exact Hwf|]. destruct (memz x D) eqn:E; [exact Hwf|].
  cbn [tr_stmt] in Ht. destruct (echk c fc (D :: r) e); [|discriminate].
  cbn [tl andb] in Ht. destruct (negb (memz x (concat r))) eqn:Ex; [|discriminate].
  apply negb_true_iff in Ex. apply memz_nIn in Ex. apply memz_nIn in E.
  unfold ds_wf in *. cbn [concat app] in *. constructor; [|exact Hwf].
  intros Hi. apply in_app_or in Hi. destruct Hi; contradiction.
Qed.

Lemma stmts_sim ts : forall ax fc Ds La Lb s1 s2,
  ax_ok ax -> a_R ax = f_R fc -> ds_wf Ds -> Ds <> [] ->
  tr_stmts c fc Ds ts La = Some Lb -> inv c ax Lb Ds s1 s2 ->
  relM (post ax fc (tl Ds) La) (stmts_with (d_pa c) ex1 ts s1) (stmts_with (pb_of c) ex2 ts s2).
Proof.
  induction ts as [|t r IH]; intros ax fc Ds La Lb s1 s2 Hax HR Hwf Hne Ht Hi.
  - cbn [stmts_with]. cbn in Ht. inversion Ht; subst Lb.
    destruct Ds as [|D Ds']; [contradiction|]. cbn [tl].
    apply rel_ret. unfold post. cbn [fst snd Lfl]. split; [reflexivity|]. eapply inv_pop; eauto.
  - rewrite tr_stmts_cons in Ht.
    destruct (tr_stmts c fc (decl_after c Ds t) r La) as [Lm|] eqn:Er; [|discriminate].
    cbn [stmts_with]. rewrite in_pb_stmt. unfold decl_after in Er.
    destruct (in_plan_stmt (d_pa c) (stmt_sid t)) eqn:Ep; cbn [andb].
    + destruct (in_acc c (stmt_sid t)) eqn:Ea; cbn [negb].
      * (* a dead store: skipped on the left, executed on the right *)
        destruct (pruned_store_ok c Ds Lm t) eqn:Eok; [|discriminate]. inversion Ht; subst Lb.
        destruct (Hpr ax Lm Ds t s1 s2 Hwf Eok Hi) as [T|[s2' [E Hi']]].
        -- apply rel_tol. apply tolX_bind. exact T.
        -- rewrite E, bindM_ret_nil. eapply IH; eauto.
      * (* skipped by both *)
        assert (E : Lb = Lm).
        { destruct (is_fun t) eqn:Ef; [|inversion Ht; reflexivity].
          destruct t; cbn in Ef; try discriminate. cbn [tr_stmt] in Ht.
          destruct (in_plan_fn (d_pa c) fid); [inversion Ht; reflexivity|].
          destruct fid; [|discriminate]. destruct (rt_get (d_rt c) z); [|discriminate].
          match type of Ht with (if ?b then _ else _) = _ => destruct b end; [|discriminate].
          match type of Ht with match ?X with _ => _ end = _ => destruct X end; [inversion Ht; reflexivity|discriminate]. }
        subst Lb. eapply IH; eauto.
    + (* executed by both *)
      eapply rel_bind.
      * eapply Hex; eauto.
      * intros [fl1 s1'] [fl2 s2'] [Efl Hp]. cbn [fst snd] in Efl, Hp. subst fl2.
        destruct fl1; cbn [Lfl] in Hp.
        -- replace (tl Ds) with (tl (decl1 Ds t)) by apply decl1_tl. eapply (IH ax fc (decl1 Ds t) La Lm); eauto.
           ++ eapply decl1_wf; eauto.
           ++ intros E. apply (f_equal (@length lset)) in E. rewrite decl1_length in E.
              destruct Ds; [contradiction|discriminate].
        -- replace (tl Ds) with (tl (decl1 Ds t)) by apply decl1_tl. destruct (decl1 Ds t) as [|D' r'] eqn:Ed.
           { exfalso. apply (f_equal (@length lset)) in Ed. rewrite decl1_length in Ed. destruct Ds; [contradiction|discriminate]. }
           apply rel_ret. unfold post. cbn [fst snd Lfl tl]. split; [reflexivity|]. eapply inv_pop; eauto.
        -- replace (tl Ds) with (tl (decl1 Ds t)) by apply decl1_tl. destruct (decl1 Ds t) as [|D' r'] eqn:Ed.
           { exfalso. apply (f_equal (@length lset)) in Ed. rewrite decl1_length in Ed. destruct Ds; [contradiction|discriminate]. }
           apply rel_ret. unfold post. cbn [fst snd Lfl tl]. split; [reflexivity|]. eapply inv_pop; eauto.
        -- replace (tl Ds) with (tl (decl1 Ds t)) by apply decl1_tl. destruct (decl1 Ds t) as [|D' r'] eqn:Ed.
           { exfalso. apply (f_equal (@length lset)) in Ed. rewrite decl1_length in Ed. destruct Ds; [contradiction|discriminate]. }
           apply rel_ret. unfold post. cbn [fst snd Lfl tl]. split; [reflexivity|]. eapply inv_pop; eauto.
Qed.

Lemma block_body_sim ax fc Ds b La Lb s1 s2 :
  ax_ok ax -> a_R ax = f_R fc -> ds_wf Ds ->
  tr_stmts c fc ([] :: Ds) b La = Some Lb -> inv c ax Lb Ds s1 s2 ->
  relM (post ax fc Ds La) (block_body (d_pa c) ex1 b s1) (block_body (pb_of c) ex2 b s2).
Proof.
  intros Hax HR Hwf Ht Hi. unfold block_body.
  pose proof (inv_push c ax Lb Ds s1 s2 Hi) as Hp. pose proof Hp as (P1 & P2 & P3 & P4).
  destruct (hoist_rel b (push_scope [] s1) (push_scope [] s2) (tr_stmts_funs _ _ _ _ _ Ht) P1 P2)
    as (s1' & s2' & H1 & H2 & H3 & H4 & H5 & H6).
  { cbn. discriminate. }
  rewrite H1, H2. unfold lift. rewrite !bindM_ret_nil.
  change Ds with (tl ([] :: Ds)) at 1.
  eapply stmts_sim; eauto.
  - discriminate.
  - unfold inv. rewrite H3, H4. auto.
Qed.

End Block.

(* ------------------------------------------------------------------------------------ *)
(* H. the skipped store, executed by the other run                                        *)

Lemma fns_ok_pure fs : d_calls c = true -> fns_ok c fs -> pfns_ok (pb_of c) (d_pt c) fs.
Proof.
  intros Hc H sc fd Hs Hf. destruct (H sc fd Hs Hf) as (f & R & Lb & _ & _ & _ & Hp & _). exact (Hp Hc).
Qed.

(* the right-hand side of a dropped store, evaluated by the run that keeps it *)
Lemma rhs_eval n e s :
  rhs_ok c e = true -> fns_ok c (fns s) ->
  exists r, eval (pb_of c) eps n e s = ([], r) /\ (tolX (d_calls c) r \/ exists v, r = Ok (v, s)).
Proof.
  unfold rhs_ok. intros H Hf. destruct (d_calls c) eqn:Ec.
  - destruct (pfe_eval (pb_of c) eps (d_pt c) n e s H (fns_ok_pure _ Ec Hf)) as [r [E [[T|T]|Hv]]];
      exists r; (split; [exact E|]); [left; left; exact T|left; right; split; [reflexivity|exact T]|right; exact Hv].
  - destruct (pure_total_eval (pb_of c) eps n e s H) as [r [E [T|Hv]]];
      exists r; (split; [exact E|]); [left; left; exact T|right; exact Hv].
Qed.

Lemma pruned_exec n ax L Ds t s1 s2 :
  ds_wf Ds -> pruned_store_ok c Ds L t = true -> inv c ax L Ds s1 s2 ->
  tolX (d_calls c) (snd (exec (pb_of c) eps n t s2)) \/
  exists s2', exec (pb_of c) eps n t s2 = ([], Ok (FNormal, s2')) /\ inv c ax L Ds s1 s2'.
Proof.
  intros Hwf Hp Hi. destruct n as [|n]; [left; left; exact I|]. rewrite exec_S.
  assert (Hf2 : fns_ok c (fns s2)) by (destruct Hi as (H1 & H2 & _); rewrite <- H1; exact H2).
  destruct t; cbn [pruned_store_ok] in Hp; try discriminate.
  - (* SMake: re-declaration in the scope that already holds the slot *)
    destruct l as [x|]; [|discriminate]. apply andb_prop in Hp. destruct Hp as [Hp Hpt].
    apply andb_prop in Hp. destruct Hp as [Hd Hl]. apply negb_true_iff in Hl. apply memz_nIn in Hl.
    apply memz_In in Hd. destruct Ds as [|D r]; [destruct Hd|]. cbn [hd] in Hd.
    cbn [exec_body].
    destruct (rhs_eval n e s2 Hpt Hf2) as [rr [E [T|[v Ev]]]]; rewrite E.
    + left. apply tolX_bind_nil. exact T.
    + subst rr. rewrite bindM_ret_nil. right. eexists. split; [reflexivity|].
      pose proof Hi as (H1 & H2 & H3 & H4). unfold inv, with_env. cbn [env fns].
      refine (conj H1 (conj H2 (conj _ H4))). eapply define_dead; eauto.
  - (* SSet *)
    destruct l as [x|]; [|discriminate]. apply andb_prop in Hp. destruct Hp as [Hp Hpt].
    apply andb_prop in Hp. destruct Hp as [Hd Hl]. apply negb_true_iff in Hl. apply memz_nIn in Hl.
    apply memz_In in Hd. cbn [exec_body].
    destruct (rhs_eval n e s2 Hpt Hf2) as [rr [E [T|[v Ev]]]]; rewrite E.
    + left. apply tolX_bind_nil. exact T.
    + subst rr. rewrite bindM_ret_nil.
      destruct (assign_env (Some x) n0 v (env s2)) as [e'|] eqn:Ea.
      * right. eexists. split; [reflexivity|].
        pose proof Hi as (H1 & H2 & H3 & H4). unfold inv, with_env. cbn [env fns].
        refine (conj H1 (conj H2 (conj _ H4))). eapply assign_dead; eauto.
      * left. left. exact I.
Qed.

(* ------------------------------------------------------------------------------------ *)
(* I. the simulation, by induction on fuel                                                *)

Lemma main_sim n :
  (forall ax L Ds e s1 s2, ax_ok ax -> eok ax L Ds e -> inv c ax L Ds s1 s2 ->
     relM (vrel ax L Ds) (eval (d_pa c) eps n e s1) (eval (pb_of c) eps n e s2)) /\
  (forall ax fc Ds t La Lb s1 s2, ax_ok ax -> a_R ax = f_R fc -> ds_wf Ds ->
     tr_stmt c fc Ds t La = Some Lb -> inv c ax Lb Ds s1 s2 ->
     relM (post ax fc (decl1 Ds t) La) (exec (d_pa c) eps n t s1) (exec (pb_of c) eps n t s2)) /\
  (forall ax fc Ds cnd body La H B s1 s2,
     ax_ok ax -> a_R ax = f_R fc -> ds_wf Ds -> eok ax H Ds cnd ->
     tr_stmts c {| f_R := f_R fc; f_brk := La; f_next := H |} ([] :: Ds) body H = Some B ->
     (forall x, In x B -> In x H) -> (forall x, In x La -> In x H) ->
     inv c ax H Ds s1 s2 ->
     relM (post ax fc Ds La) (exec_loop (d_pa c) eps n cnd body s1) (exec_loop (pb_of c) eps n cnd body s2)) /\
  (forall ax fc Ds b La Lb s1 s2, ax_ok ax -> a_R ax = f_R fc -> ds_wf Ds ->
     tr_stmts c fc ([] :: Ds) b La = Some Lb -> inv c ax Lb Ds s1 s2 ->
     relM (post ax fc Ds La) (exec_block (d_pa c) eps n b s1) (exec_block (pb_of c) eps n b s2)).
Proof.
  induction n as [|n (IHe & IHt & IHl & IHb)].
  - refine (conj _ (conj _ (conj _ _))); intros; apply rel_fuel.
  - refine (conj _ (conj _ (conj _ _))).
    + intros. rewrite !eval_S. eapply eval_body_sim; eauto.
    + intros. rewrite !exec_S. eapply exec_body_sim; eauto.
    + intros. rewrite !exec_loop_S. eapply loop_body_sim; eauto.
    + intros. rewrite !exec_block_S. eapply block_body_sim; eauto.
      intros. eapply pruned_exec; eauto.
Qed.

End Sim.

(* ------------------------------------------------------------------------------------ *)
(* J. whole programs                                                                      *)

Theorem ds_sound_ctx c prog eps fuel o e :
  ds_ok_ctx c prog = true ->
  run_impl (pb_of c) eps fuel prog = (o, e) ->
  tol_ending_x (d_calls c) e = false ->
  run_impl (d_pa c) eps fuel prog = (o, e).
Proof.
  unfold ds_ok_ctx, tr_block. intros H Hrun Htol.
  match type of H with match ?X with _ => _ end = _ => destruct X as [Lb|] eqn:Et end; [|discriminate]. clear H.
  set (ax0 := {| a_Lr := [[]]; a_ShR := [[]]; a_R := f_R (root_fc c prog) |}).
  destruct (main_sim c eps fuel) as (_ & _ & _ & Hblk).
  specialize (Hblk ax0 (root_fc c prog) [] prog [] Lb init_st init_st).
  assert (Hax : ax_ok ax0) by (intros x _; reflexivity).
  assert (Hinv : inv c ax0 Lb [] init_st init_st).
  { unfold inv, init_st. cbn [env fns length repeat app a_Lr a_ShR ax0].
    refine (conj eq_refl (conj _ (conj _ eq_refl))).
    - intros sc fd [E|[]] Hf. subst sc. destruct Hf.
    - constructor; [constructor|constructor]. }
  specialize (Hblk Hax eq_refl (NoDup_nil Z) Et Hinv).
  rewrite run_impl_eq in Hrun. rewrite run_impl_eq.
  destruct (exec_block (pb_of c) eps fuel prog init_st) as [o2 r2].
  destruct (exec_block (d_pa c) eps fuel prog init_st) as [o1 r1].
  cbn [fst snd] in *. inversion Hrun; subst o e. clear Hrun.
  unfold tol_ending_x in Htol. apply orb_false_iff in Htol. destruct Htol as [Htol Hx].
  destruct Hblk as [[T|[HX T]]|[Eo Hr]].
  - exfalso. destruct r2 as [a|er|p| |]; cbn in T, Htol; try contradiction; try discriminate.
    destruct p; try contradiction; discriminate.
  - exfalso. rewrite HX in Hx. cbn [andb] in Hx.
    destruct r2 as [a|er|p| |]; cbn in T, Hx; try contradiction. destruct p; try contradiction; discriminate.
  - cbn [fst snd] in Eo, Hr. rewrite Eo. destruct r1, r2; try contradiction; cbn [res_ending]; try reflexivity; congruence.
Qed.

(* the statement for the checker's own configuration; calls = false: exactly the round-2 theorem *)
Theorem ds_sound prog ss fs acc eps fuel o e :
  ds_ok prog (Some (ss, fs)) acc = true ->
  run_impl (Some (filter (fun i => negb (memz i acc)) ss, fs)) eps fuel prog = (o, e) ->
  tol_ending e = false ->
  run_impl (Some (ss, fs)) eps fuel prog = (o, e).
Proof.
  intros H R T. apply (ds_sound_ctx (mk_ctx prog (Some (ss, fs)) acc) prog eps fuel o e H R).
  unfold tol_ending_x. cbn [d_calls mk_ctx mk_ctx_x andb]. rewrite T. reflexivity.
Qed.

(* round 4: right-hand sides may call pure, trap-free user functions *)
Theorem ds_sound_x prog ss fs acc eps fuel o e :
  ds_ok_x prog (Some (ss, fs)) acc = true ->
  run_impl (Some (filter (fun i => negb (memz i acc)) ss, fs)) eps fuel prog = (o, e) ->
  tol_ending_x true e = false ->
  run_impl (Some (ss, fs)) eps fuel prog = (o, e).
Proof.
  intros H. exact (ds_sound_ctx (mk_ctx_x true prog (Some (ss, fs)) acc) prog eps fuel o e H).
Qed.

(* ------------------------------------------------------------------------------------ *)
(* K. together with the three classes of PlanCheck.plan_ok                                *)

(* plan (ss, fs)  --[Unreachable / UnusedFn / NeverRead: PlanProofs]-->  residual of plan_ok
                  --[flow-sensitive dead stores: this file]-->           x_residual          *)
Theorem plan_ok3_sound_lemma prog ss fs eps fuel o e :
  v_checked (x_main (plan_ok3 prog ss fs)) = true ->
  x_checked (plan_ok3 prog ss fs) = true ->
  run_impl (Some (x_residual (plan_ok3 prog ss fs))) eps fuel prog = (o, e) ->
  tol_ending e = false ->
  run_impl (Some (ss, fs)) eps fuel prog = (o, e).
Proof.
  unfold plan_ok3. cbv zeta. cbn [x_main x_checked x_residual].
  set (v := plan_ok prog ss fs).
  destruct (v_residual v) as [ss2 fs2] eqn:Ev. cbn [fst snd].
  set (acc := if ds_ok prog (Some (ss2, fs2)) (ds_candidates prog (Some (ss2, fs2)))
              then ds_candidates prog (Some (ss2, fs2)) else []).
  intros Hv Hd Hrun Htol.
  apply (plan_ok_sound_lemma prog ss fs eps fuel o e Hv); [|exact Htol].
  fold v. rewrite Ev. eapply ds_sound; eauto.
Qed.

(* every entry of the plan is in one of the four classes: the pruned run is the plain run *)
Theorem prune_dead_stores_sound_lemma prog ss fs eps fuel o e :
  v_checked (x_main (plan_ok3 prog ss fs)) = true ->
  x_checked (plan_ok3 prog ss fs) = true ->
  x_residual (plan_ok3 prog ss fs) = ([], []) ->
  run_impl None eps fuel prog = (o, e) ->
  tol_ending e = false ->
  run_impl (Some (ss, fs)) eps fuel prog = (o, e).
Proof.
  intros Hv Hd Hr Hrun Htol. apply plan_ok3_sound_lemma; try assumption.
  rewrite Hr, empty_plan_is_none. exact Hrun.
Qed.

(* round 4: the same chain with the call-enabled liveness class *)
Theorem plan_ok4_sound_lemma prog ss fs eps fuel o e :
  v_checked (x_main (plan_ok4 prog ss fs)) = true ->
  x_checked (plan_ok4 prog ss fs) = true ->
  run_impl (Some (x_residual (plan_ok4 prog ss fs))) eps fuel prog = (o, e) ->
  tol_ending_x true e = false ->
  run_impl (Some (ss, fs)) eps fuel prog = (o, e).
Proof.
  unfold plan_ok4. cbv zeta. cbn [x_main x_checked x_residual].
  set (v := plan_ok_x prog ss fs).
  destruct (v_residual v) as [ss2 fs2] eqn:Ev. cbn [fst snd].
  intros Hv Hd Hrun Htol.
  apply (plan_ok_x_sound_lemma prog ss fs eps fuel o e Hv); [|exact Htol].
  fold v. rewrite Ev. eapply ds_sound_x; eauto.
Qed.

Theorem prune_sound_five_classes_lemma prog ss fs eps fuel o e :
  v_checked (x_main (plan_ok4 prog ss fs)) = true ->
  x_checked (plan_ok4 prog ss fs) = true ->
  x_residual (plan_ok4 prog ss fs) = ([], []) ->
  run_impl None eps fuel prog = (o, e) ->
  tol_ending_x true e = false ->
  run_impl (Some (ss, fs)) eps fuel prog = (o, e).
Proof.
  intros Hv Hd Hr Hrun Htol. apply plan_ok4_sound_lemma; try assumption.
  rewrite Hr, empty_plan_is_none. exact Hrun.
Qed.
