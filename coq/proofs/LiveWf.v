(* LiveWf — C03, round 4: for programs the static checkers of C06 accept (WfStatic.wf_static,
   WfScoped.wf_scoped for the less-pruned plan) none of the panic endings the C03 theorems
   leave out can occur, so the only run that is not compared is the one that exhausts its
   fuel (resource exhaustion: a pruned callee need not terminate). *)
From Coq Require Import ZArith List Bool.
Require Import NS.theories.F64 NS.theories.Lang NS.theories.PlanCheck NS.theories.LiveCheck
               NS.theories.WfStatic NS.theories.WfScoped
               NS.proofs.LangNoPanic NS.proofs.LangScoped NS.proofs.PlanProofs NS.proofs.LiveProofs.
Import ListNotations.

Lemma wf_tol_ending_x plan prog eps fuel o e :
  wf_static prog = true -> wf_scoped plan prog = true ->
  run_impl plan eps fuel prog = (o, e) -> e <> EFuel ->
  tol_ending_x true e = false.
Proof.
  intros Hs Hc Hrun Hne.
  destruct e as [|er|p| |]; try reflexivity; [|contradiction Hne; reflexivity].
  assert (He : ending_of (run_impl plan eps fuel prog) = Panicked p) by (rewrite Hrun; reflexivity).
  pose proof (wf_scoped_never_panics_scoping plan prog Hc eps fuel p He) as (C1 & C2 & C3 & _ & C5).
  pose proof (wf_static_never_panics_structural prog Hs plan eps fuel p He) as (D1 & _ & _ & D4 & _ & D6).
  destruct p; try reflexivity; congruence.
Qed.

(* every entry in one of the five classes, program accepted by the static checkers: pruning
   changes nothing, unless the plain run exhausts its fuel *)
Theorem prune_sound_five_classes_wf_lemma prog ss fs eps fuel o e :
  v_checked (x_main (plan_ok4 prog ss fs)) = true ->
  x_checked (plan_ok4 prog ss fs) = true ->
  x_residual (plan_ok4 prog ss fs) = ([], []) ->
  wf_static prog = true -> wf_scoped None prog = true ->
  run_impl None eps fuel prog = (o, e) ->
  e <> EFuel ->
  run_impl (Some (ss, fs)) eps fuel prog = (o, e).
Proof.
  intros Hv Hd Hr Hs Hc Hrun Hne.
  eapply prune_sound_five_classes_lemma; eauto. eapply wf_tol_ending_x; eauto.
Qed.

Theorem plan_ok4_sound_wf_lemma prog ss fs eps fuel o e :
  v_checked (x_main (plan_ok4 prog ss fs)) = true ->
  x_checked (plan_ok4 prog ss fs) = true ->
  wf_static prog = true -> wf_scoped (Some (x_residual (plan_ok4 prog ss fs))) prog = true ->
  run_impl (Some (x_residual (plan_ok4 prog ss fs))) eps fuel prog = (o, e) ->
  e <> EFuel ->
  run_impl (Some (ss, fs)) eps fuel prog = (o, e).
Proof.
  intros Hv Hd Hs Hc Hrun Hne.
  eapply plan_ok4_sound_lemma; eauto. eapply wf_tol_ending_x; eauto.
Qed.
