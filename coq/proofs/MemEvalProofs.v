(* MemEvalProofs.v — proofs about the instrumented evaluator of theories/MemEval.v (C02, round 4).

   A. the instrumented evaluator computes exactly Lang's results (mirror);
   B. positions as keys: lookups / updates of Lang's environment and of its image coincide;
   C. the reclamation-free machine `Mem.arun`, run on the issued operations, ends in the image of
      Lang's state and has printed Lang's output (a Hoare logic over the writer, by induction on fuel);
   D. progress: where the reclamation-free machine steps, the machine with reclamation is not `MIll`;
   E. composition with MemProofs.run_ok. *)
From Coq Require Import ZArith List Bool Arith Lia Permutation.
Require Import NS.theories.F64 NS.theories.StrLib NS.theories.Lang NS.theories.Mem NS.theories.MemInv
               NS.theories.MemEval NS.proofs.LangUnfold NS.proofs.MemProofs NS.proofs.F64Proofs.
Require NS.theories.NumParse NS.theories.CaseMap.
Import ListNotations.
Local Open Scope nat_scope.

(* ================================================================== *)
(* A. mirror                                                           *)

Lemma snd_bindI {A B} (m : IM A) (f : A -> IM B) :
  snd (bindI m f) = bindM (snd m) (fun a => snd (f a)).
Proof.
  destruct m as [o1 [u1 [a|e|p| |]]]; cbn; try reflexivity.
  destruct (f a) as [o2 [u2 r]]. reflexivity.
Qed.

Lemma bindM_ext {A B} (m m' : M A) (f g : A -> M B) :
  m = m' -> (forall a, f a = g a) -> bindM m f = bindM m' g.
Proof. intros -> H. destruct m' as [o [a|e|p| |]]; cbn; try reflexivity. rewrite H. reflexivity. Qed.

Lemma mirror_bind {A B} (m : IM A) (f : A -> IM B) (m' : M A) (g : A -> M B) :
  snd m = m' -> (forall a, snd (f a) = g a) -> snd (bindI m f) = bindM m' g.
Proof. intros H1 H2. rewrite snd_bindI. apply bindM_ext; assumption. Qed.

Lemma snd_tellk {A} ops (k : IM A) : snd (tellk ops k) = snd k.
Proof. reflexivity. Qed.

Ltac mir_step :=
  first
  [ reflexivity
  | rewrite snd_tellk
  | apply mirror_bind; [solve [auto]|let x := fresh "x" in intros x; try destruct x as [? ?]]
  | match goal with
    | |- context [match ?x with _ => _ end] => destruct x
    end ].
Ltac mir := cbn [fst snd]; repeat (mir_step; cbn [fst snd]).

Section Mirror.
Variable P : plan.
Variable eps : f64.
Variable iev : expr -> list bool -> st -> IM (value * st).
Variable iex : stmt -> list bool -> st -> IM (flow * st).
Variable iel : expr -> list stmt -> list bool -> st -> IM (flow * st).
Variable ieb : list stmt -> list bool -> st -> IM (flow * st).
Variable ev : expr -> st -> M (value * st).
Variable ex : stmt -> st -> M (flow * st).
Variable el : expr -> list stmt -> st -> M (flow * st).
Variable eb : list stmt -> st -> M (flow * st).
Hypothesis Hev : forall e G s, snd (iev e G s) = ev e s.
Hypothesis Hex : forall t G s, snd (iex t G s) = ex t s.
Hypothesis Hel : forall c b G s, snd (iel c b G s) = el c b s.
Hypothesis Heb : forall b G s, snd (ieb b G s) = eb b s.

Lemma mirror_evals : forall es G s, snd (ievals_with iev es G s) = evals_with ev es s.
Proof.
  induction es as [|e r IH]; intros G s; cbn [ievals_with evals_with]; [reflexivity|].
  apply mirror_bind; [apply Hev|]. intros [v s1].
  apply mirror_bind; [apply IH|]. intros [vs s2]. reflexivity.
Qed.

Lemma mirror_indices : forall es G s, snd (iindices_with iev es G s) = indices_with ev es s.
Proof.
  induction es as [|e r IH]; intros G s; cbn [iindices_with indices_with]; [reflexivity|].
  apply mirror_bind; [apply Hev|]. intros [v s1].
  apply mirror_bind; [reflexivity|]. intros i. rewrite snd_tellk.
  apply mirror_bind; [apply IH|]. intros [is s2]. reflexivity.
Qed.

Lemma mirror_mutate : forall o m G s, snd (imutate_with iev o m G s) = mutate_with ev o m s.
Proof.
  intros o m G s. unfold imutate_with, mutate_with.
  pose proof mirror_indices as Hi.
  destruct o; try reflexivity.
  - destruct (lookup_env l n (env s)); [|reflexivity].
    apply mirror_bind; [reflexivity|]. intros [root' r].
    destruct (assign_env l n root' (env s)); reflexivity.
  - destruct (flatten_target (EIdx o1 o2) []) as [[[vn vl] idx]|]; [|reflexivity].
    apply mirror_bind; [apply Hi|]. intros [path s1].
    destruct (lookup_env vl vn (env s1)); [|reflexivity].
    apply mirror_bind; [reflexivity|]. intros [root' r].
    destruct (assign_env vl vn root' (env s1)); reflexivity.
Qed.

Lemma mirror_string_call : forall str f args G s,
  snd (istring_call iev str f args G s) = string_call ev str f args s.
Proof. intros. unfold istring_call, string_call, ret_val, failI. mir. Qed.

Lemma mirror_array_call : forall items f args G s,
  snd (iarray_call iev items f args G s) = array_call ev items f args s.
Proof. intros. unfold iarray_call, array_call, ret_val, failI. mir. Qed.

Lemma mirror_member_call : forall o f args G s,
  snd (imember_call iev o f args G s) = member_call ev o f args s.
Proof.
  intros. unfold imember_call, member_call.
  pose proof mirror_mutate as Hm. pose proof mirror_string_call as Hs. pose proof mirror_array_call as Ha.
  destruct (mem_name f array_mut_methods).
  - destruct (bytes_eqb f n_push); [|destruct (bytes_eqb f n_pop); apply Hm].
    destruct args as [|a0 ?]; [reflexivity|].
    apply mirror_bind; [apply Hev|]. intros [v s1]. rewrite snd_tellk. apply Hm.
  - destruct (mem_name f proc_mut_names); [reflexivity|].
    apply mirror_bind; [apply Hev|]. intros [recv s1].
    destruct recv; try reflexivity; [|apply Hs|apply Ha].
    destruct (mem_name f number_methods); reflexivity.
Qed.

Lemma mirror_user_call : forall fname args target G s,
  snd (iuser_call iev ieb fname args target G s) = user_call ev eb fname args target s.
Proof.
  intros. unfold iuser_call, user_call. pose proof mirror_evals as He.
  destruct (lookup_fn target fname (fns s)) as [fd|]; [|reflexivity].
  rewrite snd_tellk. apply mirror_bind; [apply He|]. intros [vs s1].
  destruct (negb (Nat.eqb (length vs) (length (f_params fd)))); [reflexivity|].
  destruct (match f_id fd with Some _ => (f_llen fd <? Z.of_nat (length (f_params fd)))%Z | None => false end);
    [reflexivity|].
  rewrite snd_tellk. apply mirror_bind; [apply Heb|]. intros [fl s3]. destruct fl; reflexivity.
Qed.

Lemma mirror_builtin_call : forall g args G s,
  snd (ibuiltin_call iev g args G s) = builtin_call ev g args s.
Proof.
  intros. unfold ibuiltin_call, builtin_call. pose proof mirror_evals as He.
  apply mirror_bind; [apply He|]. intros [vs s1].
  destruct vs as [|v [|? ?]]; try reflexivity. destruct g; reflexivity.
Qed.

Lemma mirror_eval_body : forall e G s,
  snd (ieval_body eps iev ieb e G s) = eval_body eps ev eb e s.
Proof.
  intros e G s. pose proof mirror_evals as He. pose proof mirror_member_call as Hm.
  pose proof mirror_user_call as Hu. pose proof mirror_builtin_call as Hb.
  destruct e; try reflexivity.
  - (* EInterp *) cbn [ieval_body eval_body]. apply mirror_bind; [reflexivity|]. intros b. reflexivity.
  - (* EVar *) cbn [ieval_body eval_body]. destruct (lookup_env l n (env s)); reflexivity.
  - (* EBin *) destruct op; cbn [ieval_body eval_body]; unfold failI; mir.
  - (* EUn *) cbn [ieval_body eval_body]; unfold failI; mir.
  - (* EArr *) cbn [ieval_body eval_body]. apply mirror_bind; [apply He|]. intros [vs s1]. reflexivity.
  - (* EIdx *) cbn [ieval_body eval_body]; unfold failI; mir.
  - (* ECall *)
    destruct e; try reflexivity.
    + cbn [ieval_body eval_body]. destruct (global_builtin n); [apply Hb|apply Hu].
    + cbn [ieval_body eval_body]. apply Hm.
Qed.

Lemma mirror_exec_body : forall t G s,
  snd (iexec_body iev iel ieb t G s) = exec_body ev el eb t s.
Proof.
  intros t G s. pose proof mirror_indices as Hi.
  destruct t; cbn [iexec_body exec_body]; try reflexivity.
  - apply mirror_bind; [apply Hev|]. intros [v s1]. reflexivity.
  - apply mirror_bind; [apply Hev|]. intros [v s1]. destruct (assign_env l n v (env s1)); reflexivity.
  - apply mirror_bind; [apply Hev|]. intros [v s1].
    destruct (flatten_target target []) as [[[vn vl] idx]|]; [|reflexivity].
    apply mirror_bind; [apply Hi|]. intros [path s2].
    destruct (lookup_env vl vn (env s2)); [|reflexivity].
    apply mirror_bind; [reflexivity|]. intros root'.
    destruct (assign_env vl vn root' (env s2)); reflexivity.
  - apply mirror_bind; [apply Hev|]. intros [cv s1].
    apply mirror_bind; [reflexivity|]. intros b. rewrite snd_tellk.
    destruct b; [apply Heb|]. destruct f; [apply Heb|reflexivity].
  - apply Hel.
  - apply Heb.
  - destruct e; [|reflexivity]. apply mirror_bind; [apply Hev|]. intros [v s1]. reflexivity.
  - apply mirror_bind; [apply Hev|]. intros [v s1]. reflexivity.
Qed.

Lemma mirror_loop_body : forall c b G s,
  snd (iloop_body iev iel ieb c b G s) = loop_body ev el eb c b s.
Proof.
  intros. unfold iloop_body, loop_body.
  apply mirror_bind; [apply Hev|]. intros [cv s1].
  apply mirror_bind; [reflexivity|]. intros bb. rewrite snd_tellk.
  destruct (negb bb); [reflexivity|]. rewrite snd_tellk.
  apply mirror_bind; [apply Heb|]. intros [fl s2]. destruct fl; try reflexivity; rewrite snd_tellk; apply Hel.
Qed.

Lemma mirror_stmts : forall ts G s, snd (istmts_with P iex ts G s) = stmts_with P ex ts s.
Proof.
  induction ts as [|t r IH]; intros G s; cbn [istmts_with stmts_with]; [reflexivity|].
  destruct (in_plan_stmt P (stmt_sid t)); [apply IH|].
  apply mirror_bind; [apply Hex|]. intros [fl s']. destruct fl; try reflexivity. apply IH.
Qed.

Lemma mirror_block_body : forall b G s, snd (iblock_body P iex b G s) = block_body P ex b s.
Proof.
  intros. unfold iblock_body, block_body. rewrite snd_tellk.
  apply mirror_bind; [reflexivity|]. intros s1. apply mirror_stmts.
Qed.
End Mirror.

Theorem mirror_all : forall P eps n,
  (forall e G s, snd (ieval P eps n e G s) = eval P eps n e s) /\
  (forall t G s, snd (iexec P eps n t G s) = exec P eps n t s) /\
  (forall c b G s, snd (iexec_loop P eps n c b G s) = exec_loop P eps n c b s) /\
  (forall b G s, snd (iexec_block P eps n b G s) = exec_block P eps n b s).
Proof.
  intros P eps. induction n as [|n (IHe & IHx & IHl & IHb)].
  - refine (conj _ (conj _ (conj _ _))); intros; reflexivity.
  - refine (conj _ (conj _ (conj _ _))); intros.
    + rewrite eval_S. cbn [ieval]. apply mirror_eval_body; assumption.
    + rewrite exec_S. cbn [iexec]. apply mirror_exec_body; assumption.
    + rewrite exec_loop_S. cbn [iexec_loop]. apply mirror_loop_body; assumption.
    + rewrite exec_block_S. cbn [iexec_block]. apply mirror_block_body; assumption.
Qed.

Lemma irun_mirror : forall p eps fuel prog,
  (fst (snd (irun p eps fuel prog)), ending_of_res (snd (snd (irun p eps fuel prog)))) = run_impl p eps fuel prog.
Proof.
  intros. unfold irun, run_impl.
  pose proof (proj2 (proj2 (proj2 (mirror_all p eps fuel))) prog [true] init_st) as H.
  destruct (iexec_block p eps fuel prog [true] init_st) as [ops [out r]]. cbn [snd fst] in *.
  rewrite <- H. destruct r; reflexivity.
Qed.

(* ================================================================== *)
(* B. positions as keys                                                *)

Lemma esize_cons : forall sc E, esize (sc :: E) = length sc + esize E.
Proof. intros. unfold esize. cbn [concat]. apply app_length. Qed.

Lemma menv_length : forall G E, aligned G E -> length (menv G E) = length G.
Proof.
  unfold aligned. induction G as [|[|] G IH]; intros E H; cbn [menv ntrue length] in *; [reflexivity| |].
  - destruct E as [|sc E]; [discriminate|]. cbn [length] in *. f_equal. apply IH. lia.
  - f_equal. apply IH. exact H.
Qed.

Lemma scope_find_img_out : forall base sc k,
  k < base \/ base + length sc <= k -> @scope_find value k (img_scope base sc) = None.
Proof.
  induction sc as [|s r IH]; intros k H; cbn [img_scope scope_find length] in *; [reflexivity|].
  destruct (Nat.eqb_spec k (base + length r)); [lia|]. apply IH. lia.
Qed.

Lemma scope_set_img_out : forall base sc k v,
  k < base \/ base + length sc <= k -> @scope_set value k v (img_scope base sc) = None.
Proof.
  induction sc as [|s r IH]; intros k v H; cbn [img_scope scope_set length] in *; [reflexivity|].
  destruct (Nat.eqb_spec k (base + length r)); [lia|]. rewrite IH by lia. reflexivity.
Qed.

Lemma find_slot_key : forall l n base sc v, find_slot l n sc = Some v ->
  exists k, find_key l n base sc = Some k /\ base <= k < base + length sc /\
    scope_find k (img_scope base sc) = Some v.
Proof.
  induction sc as [|s r IH]; intros v H; cbn [find_slot find_key img_scope scope_find length] in *; [discriminate|].
  destruct (slot_matches l n s).
  - inversion H; subst. exists (base + length r). rewrite Nat.eqb_refl. repeat split; lia.
  - destruct (IH v H) as (k & Hk & Hr & Hf). exists k. split; [exact Hk|]. split; [lia|].
    destruct (Nat.eqb_spec k (base + length r)); [lia|exact Hf].
Qed.

Lemma find_slot_key_none : forall l n base sc, find_slot l n sc = None -> find_key l n base sc = None.
Proof.
  induction sc as [|s r IH]; intros H; cbn [find_slot find_key] in *; [reflexivity|].
  destruct (slot_matches l n s); [discriminate|auto].
Qed.

Lemma find_key_range : forall l n base sc k, find_key l n base sc = Some k -> base <= k < base + length sc.
Proof.
  induction sc as [|s r IH]; intros k H; cbn [find_key length] in *; [discriminate|].
  destruct (slot_matches l n s); [inversion H; lia|]. specialize (IH k H). lia.
Qed.

Lemma menv_find_above : forall G E k, esize E <= k -> @env_find value k (menv G E) = None.
Proof.
  induction G as [|[|] G IH]; intros E k H; cbn [menv]; [reflexivity| |].
  - destruct E as [|sc E]; [reflexivity|]. rewrite esize_cons in H. cbn [env_find].
    rewrite scope_find_img_out by lia. apply IH. lia.
  - cbn [env_find scope_find]. apply IH. exact H.
Qed.

Lemma lookup_env_key : forall l n G E v, lookup_env l n E = Some v -> aligned G E ->
  exists k, lookup_key l n E = Some k /\ k < esize E /\ env_find k (menv G E) = Some v.
Proof.
  unfold aligned. induction G as [|[|] G IH]; intros E v Hl Ha; cbn [ntrue] in Ha.
  - destruct E; [discriminate|discriminate].
  - destruct E as [|sc E]; [discriminate|]. cbn [length] in Ha.
    cbn [lookup_env lookup_key menv env_find] in *. rewrite esize_cons.
    destruct (find_slot l n sc) as [w|] eqn:Ef.
    + inversion Hl; subst. destruct (find_slot_key l n (esize E) sc v Ef) as (k & Hk & Hr & Hf).
      exists k. rewrite Hk, Hf. repeat split; lia.
    + rewrite (find_slot_key_none _ _ _ _ Ef).
      destruct (IH E v Hl ltac:(lia)) as (k & Hk & Hr & Hf). exists k.
      rewrite scope_find_img_out by lia. repeat split; [exact Hk|lia|exact Hf].
  - destruct (IH E v Hl Ha) as (k & Hk & Hr & Hf). exists k. cbn [menv env_find scope_find]. auto.
Qed.

Lemma key_of_eq : forall l n E k, lookup_key l n E = Some k -> key_of l n E = k.
Proof. intros. unfold key_of. rewrite H. reflexivity. Qed.

Lemma set_slot_img : forall l n v' base sc sc', set_slot l n v' sc = Some sc' ->
  exists k, find_key l n base sc = Some k /\
    scope_set k v' (img_scope base sc) = Some (img_scope base sc') /\ length sc' = length sc.
Proof.
  induction sc as [|s r IH]; intros sc' H; cbn [set_slot find_key img_scope scope_set length] in *; [discriminate|].
  destruct (slot_matches l n s).
  - inversion H; subst. exists (base + length r). rewrite Nat.eqb_refl. cbn [img_scope length s_val]. auto.
  - destruct (set_slot l n v' r) as [r'|] eqn:Es; [|discriminate]. inversion H; subst.
    destruct (IH r' eq_refl) as (k & Hk & Hs & Hlen). exists k. split; [exact Hk|].
    pose proof (find_key_range _ _ _ _ _ Hk) as Hr.
    destruct (Nat.eqb_spec k (base + length r)); [lia|]. rewrite Hs. cbn [img_scope length]. rewrite Hlen. auto.
Qed.

Lemma set_slot_none_key : forall l n v' base sc, set_slot l n v' sc = None -> find_key l n base sc = None.
Proof.
  induction sc as [|s r IH]; intros H; cbn [set_slot find_key] in *; [reflexivity|].
  destruct (slot_matches l n s); [discriminate|].
  destruct (set_slot l n v' r); [discriminate|auto].
Qed.

Lemma assign_env_key : forall l n v' G E E', assign_env l n v' E = Some E' -> aligned G E ->
  exists k, lookup_key l n E = Some k /\ env_set k v' (menv G E) = Some (menv G E') /\
    aligned G E' /\ esize E' = esize E.
Proof.
  unfold aligned. induction G as [|[|] G IH]; intros E E' Hs Ha; cbn [ntrue] in Ha.
  - destruct E; discriminate.
  - destruct E as [|sc E]; [discriminate|]. cbn [length] in Ha.
    cbn [assign_env lookup_key menv env_set] in *.
    destruct (set_slot l n v' sc) as [sc'|] eqn:Es.
    + inversion Hs; subst. destruct (set_slot_img l n v' (esize E) sc sc' Es) as (k & Hk & Hset & Hlen).
      exists k. rewrite Hk, Hset. cbn [menv length ntrue]. rewrite !esize_cons.
      refine (conj eq_refl (conj eq_refl (conj _ _))); lia.
    + rewrite (set_slot_none_key _ _ _ _ _ Es).
      destruct (assign_env l n v' E) as [E1|] eqn:Ea; [|discriminate]. inversion Hs; subst.
      destruct (IH E E1 Ea ltac:(lia)) as (k & Hk & Hset & Hal & Hsz). exists k.
      assert (Hr : k < esize E).
      { clear - Hk. revert k Hk. induction E as [|sc0 E0 IHE]; intros k Hk; cbn [lookup_key] in Hk; [discriminate|].
        rewrite esize_cons. destruct (find_key l n (esize E0) sc0) eqn:Ef.
        - inversion Hk; subst. pose proof (find_key_range _ _ _ _ _ Ef). lia.
        - specialize (IHE k Hk). lia. }
      rewrite scope_set_img_out by lia. rewrite Hset. cbn [menv length ntrue]. rewrite !esize_cons, Hsz.
      refine (conj Hk (conj eq_refl (conj _ _))); lia.
  - destruct (IH E E' Hs Ha) as (k & Hk & Hset & Hal & Hsz). exists k. cbn [menv env_set scope_set].
    rewrite Hset. auto.
Qed.

Lemma env_set_find {A} : forall x (w : A) e e1, env_set x w e = Some e1 -> exists old, env_find x e = Some old.
Proof.
  induction e as [|sc e IH]; intros e1 H; cbn [env_set env_find] in *; [discriminate|].
  destruct (scope_set x w sc) as [sc'|] eqn:Es.
  - destruct (scope_find x sc) eqn:Ef; [eauto|]. exfalso. eapply scope_set_find_none; eauto.
  - destruct (scope_find x sc) as [a|] eqn:Ef.
    + destruct (scope_set_some x w sc a Ef) as [sc1 H1]. congruence.
    + destruct (env_set x w e) as [e'|] eqn:Ee; [|discriminate]. eapply IH; eauto.
Qed.

(* ---- single steps of the reclamation-free machine on images ---- *)
Lemma astep_read : forall l n v G E O T C, lookup_env l n E = Some v -> aligned G E ->
  astep (mkASt (menv G E) O T C) (ORead (key_of l n E)) = Some (mkASt (menv G E) O (v :: T) C).
Proof.
  intros l n v G E O T C Hl Ha. destruct (lookup_env_key l n G E v Hl Ha) as (k & Hk & _ & Hf).
  rewrite (key_of_eq _ _ _ _ Hk). cbn [astep a_env a_out a_tmps a_ctl]. rewrite Hf. reflexivity.
Qed.

Lemma astep_interp : forall l n v G E O T C, lookup_env l n E = Some v -> aligned G E ->
  astep (mkASt (menv G E) O T C) (OInterp (key_of l n E)) =
  Some (mkASt (menv G E) O (VStr (display v) :: T) C).
Proof.
  intros l n v G E O T C Hl Ha. destruct (lookup_env_key l n G E v Hl Ha) as (k & Hk & _ & Hf).
  rewrite (key_of_eq _ _ _ _ Hk). cbn [astep a_env a_out a_tmps a_ctl]. rewrite Hf. reflexivity.
Qed.

Lemma astep_assign : forall l n v G E E' O T C, assign_env l n v E = Some E' -> aligned G E ->
  astep (mkASt (menv G E) O (v :: T) C) (OAssign (key_of l n E)) = Some (mkASt (menv G E') O T C) /\
  aligned G E'.
Proof.
  intros l n v G E E' O T C Hs Ha. destruct (assign_env_key l n v G E E' Hs Ha) as (k & Hk & Hset & Hal & _).
  rewrite (key_of_eq _ _ _ _ Hk). split; [|exact Hal]. cbn [astep a_env a_out a_tmps a_ctl].
  destruct (env_set_find _ _ _ _ Hset) as [old Hold]. rewrite Hold, Hset. reflexivity.
Qed.

Lemma astep_make : forall l n v G E O T C, aligned (true :: G) E ->
  astep (mkASt (menv (true :: G) E) O (v :: T) C) (OMake (make_key l n E)) =
    Some (mkASt (menv (true :: G) (define_env l n v E)) O T C) /\
  aligned (true :: G) (define_env l n v E).
Proof.
  unfold aligned. intros l n v G E O T C Ha. destruct E as [|sc E]; [discriminate|].
  cbn [ntrue length] in Ha. cbn [menv make_key define_env astep a_env a_out a_tmps a_ctl].
  destruct (set_slot l n v sc) as [sc'|] eqn:Es.
  - destruct (set_slot_img l n v (esize E) sc sc' Es) as (k & Hk & Hset & Hlen). rewrite Hk.
    destruct (scope_find k (img_scope (esize E) sc)) eqn:Ef;
      [|exfalso; eapply scope_set_find_none; eauto].
    rewrite Hset. cbn [menv ntrue length]. split; [reflexivity|lia].
  - rewrite (set_slot_none_key _ _ _ _ _ Es). rewrite esize_cons.
    rewrite scope_find_img_out by lia. cbn [menv img_scope ntrue length s_val].
    replace (esize E + length sc) with (length sc + esize E) by lia. split; [reflexivity|lia].
Qed.

Lemma bind_params_img : forall fid ls ps vs k acc base, length ps = length vs ->
  img_scope base (bind_params fid ls ps vs k acc) =
  abind_args (seq (base + length acc) (length vs)) vs (img_scope base acc).
Proof.
  induction ps as [|p ps IH]; intros vs k acc base Hlen; destruct vs as [|v vs]; try discriminate.
  - reflexivity.
  - cbn [bind_params length seq abind_args]. rewrite IH by (cbn in Hlen; lia).
    cbn [img_scope length s_val]. replace (base + S (length acc)) with (S (base + length acc)) by lia. reflexivity.
Qed.

(* ---- index paths ---- *)
Lemma nth_value_nth_error : forall vs i, nth_value vs i = nth_error vs i.
Proof. induction vs as [|v r IH]; intros [|i]; cbn; auto. Qed.

Lemma set_nth_upd_nth : forall vs i v, set_nth vs i v = upd_nth i v vs.
Proof. induction vs as [|x r IH]; intros [|i] v; cbn; auto. rewrite IH. reflexivity. Qed.

Lemma mutate_path_sim {R} (af : value -> option (value * R)) (PR : R -> value -> Prop) m :
  (forall v v' r, mutate_path v [] m = Ok (v', r) -> exists x, af v = Some (v', x) /\ PR x r) ->
  forall path root root' r, mutate_path root path m = Ok (root', r) ->
    exists x, amodify_at af (nat_path path) root = Some (root', x) /\ PR x r.
Proof.
  intros Hleaf. induction path as [|i rest IH]; intros root root' r H.
  - cbn [nat_path map amodify_at]. apply Hleaf. exact H.
  - cbn [mutate_path] in H. destruct root as [| | | |items]; try discriminate.
    destruct (len_z items <=? i)%Z; [discriminate|].
    destruct (nth_value items (Z.to_nat i)) as [sub|] eqn:En; [|discriminate].
    destruct (mutate_path sub rest m) as [[sub' r0]| | | |] eqn:Em; cbn [Lang.bind] in H; try discriminate.
    inversion H; subst. destruct (IH sub sub' r Em) as (x & Hx & HP). exists x. split; [|exact HP].
    cbn [nat_path map amodify_at]. rewrite <- nth_value_nth_error, En. fold (nat_path rest). rewrite Hx.
    rewrite set_nth_upd_nth. reflexivity.
Qed.

Lemma mutate_push_sim : forall v path root root' r, mutate_path root path (MPush v) = Ok (root', r) ->
  amodify_at (af_push v) (nat_path path) root = Some (root', tt) /\ r = VNull.
Proof.
  intros v path root root' r H.
  destruct (mutate_path_sim (af_push v) (fun _ r => r = VNull) (MPush v)) with (path := path) (root := root) (root' := root') (r := r)
    as ([] & Hx & HP); [|exact H|auto].
  intros w w' r0 Hw. cbn [mutate_path] in Hw. destruct w; try discriminate. cbn in Hw. inversion Hw; subst.
  exists tt. auto.
Qed.

Lemma mutate_pop_sim : forall path root root' r, mutate_path root path MPop = Ok (root', r) ->
  amodify_at af_pop (nat_path path) root = Some (root', r).
Proof.
  intros path root root' r H.
  destruct (mutate_path_sim af_pop (fun x r => x = r) MPop) with (path := path) (root := root) (root' := root') (r := r)
    as (x & Hx & HP); [|exact H|subst; exact Hx].
  intros w w' r0 Hw. cbn [mutate_path] in Hw. destruct w as [| | | |items]; try discriminate.
  destruct items as [|it0 itr]; cbn in Hw; inversion Hw; subst; eexists; split; reflexivity.
Qed.

Lemma mutate_rev_sim : forall path root root' r, mutate_path root path MReverse = Ok (root', r) ->
  amodify_at af_rev (nat_path path) root = Some (root', tt) /\ r = VNull.
Proof.
  intros path root root' r H.
  destruct (mutate_path_sim af_rev (fun _ r => r = VNull) MReverse) with (path := path) (root := root) (root' := root') (r := r)
    as ([] & Hx & HP); [|exact H|auto].
  intros w w' r0 Hw. cbn [mutate_path] in Hw. destruct w; try discriminate. cbn in Hw. inversion Hw; subst.
  exists tt. auto.
Qed.

Lemma assign_path_sim : forall path root nv root', Forall (fun i => 0 <= i)%Z path ->
  assign_path root path nv = Ok root' ->
  exists old, amodify_at (af_set (last (nat_path path) 0) nv) (removelast (nat_path path)) root = Some (root', old).
Proof.
  induction path as [|i rest IH]; intros root nv root' Hnn H; [discriminate|].
  cbn [assign_path] in H. destruct root as [| | | |items]; try discriminate.
  destruct (len_z items <=? i)%Z eqn:El; [discriminate|].
  inversion Hnn as [|? ? Hi Hrest]; subst.
  destruct rest as [|j rest'].
  - inversion H; subst. cbn [nat_path map last removelast amodify_at af_set].
    assert (Hlt : Z.to_nat i < length items) by (unfold len_z in El; apply Z.leb_gt in El; lia).
    destruct (nth_error items (Z.to_nat i)) as [old|] eqn:En; [|apply nth_error_None in En; lia].
    exists old. rewrite set_nth_upd_nth. reflexivity.
  - destruct (nth_value items (Z.to_nat i)) as [sub|] eqn:En; [|discriminate].
    destruct (assign_path sub (j :: rest') nv) as [sub'| | | |] eqn:Ea; cbn [Lang.bind] in H; try discriminate.
    inversion H; subst. destruct (IH sub nv sub' Hrest Ea) as (old & Hold). exists old.
    change (nat_path (i :: j :: rest')) with (Z.to_nat i :: nat_path (j :: rest')).
    assert (Hne : nat_path (j :: rest') <> []) by discriminate.
    replace (last (Z.to_nat i :: nat_path (j :: rest')) 0) with (last (nat_path (j :: rest')) 0)
      by (destruct (nat_path (j :: rest')); [congruence|reflexivity]).
    replace (removelast (Z.to_nat i :: nat_path (j :: rest'))) with (Z.to_nat i :: removelast (nat_path (j :: rest')))
      by (destruct (nat_path (j :: rest')); [congruence|reflexivity]).
    cbn [amodify_at]. rewrite <- nth_value_nth_error, En, Hold, set_nth_upd_nth. reflexivity.
Qed.

Lemma index_value_nonneg : forall v i, index_value v = Ok i -> (0 <= i)%Z.
Proof.
  intros v i H. unfold index_value in H. destruct v; try discriminate.
  destruct (negb (is_finite x) || negb (is_int x)); [discriminate|].
  destruct (flt x (fzero false)); [discriminate|]. inversion H; subst. apply to_usize_range.
Qed.

(* ================================================================== *)
(* C. the reclamation-free machine follows the instrumented evaluator  *)

Lemma arun_app : forall o1 o2 st,
  arun st (o1 ++ o2) = match arun st o1 with Some st' => arun st' o2 | None => None end.
Proof.
  induction o1 as [|o o1 IH]; intros o2 st; cbn [app arun]; [reflexivity|].
  destruct (astep st o); [apply IH|reflexivity].
Qed.

Definition cfloor (C : list actl) : nat := match C with [] => 0 | c :: _ => ac_floor c end.

Definition Runs {A} (E : list ascope) (O T : list value) (C : list actl) (m : IM A)
  (Q : A -> list ascope -> list value -> list actl -> Prop) : Prop :=
  exists E' T' C', arun (mkASt E O T C) (fst m) = Some (mkASt E' (O ++ fst (snd m)) T' C') /\
    forall a, snd (snd m) = Ok a -> Q a E' T' C'.

Lemma Runs_bind {A B} E O T C (m : IM A) (f : A -> IM B) Q1 Q2 :
  Runs E O T C m Q1 ->
  (forall a E1 T1 C1 O1, Q1 a E1 T1 C1 -> Runs E1 O1 T1 C1 (f a) Q2) ->
  Runs E O T C (bindI m f) Q2.
Proof.
  intros (E1 & T1 & C1 & Hrun & HQ) Hf. destruct m as [o1 [u1 r]]. cbn [fst snd] in *.
  destruct r as [a|e|p| |]; cbn [bindI];
    try (exists E1, T1, C1; cbn [fst snd]; split; [exact Hrun|intros ? Hx; discriminate]).
  destruct (Hf a E1 T1 C1 (O ++ u1) (HQ a eq_refl)) as (E2 & T2 & C2 & Hrun2 & HQ2).
  destruct (f a) as [o2 [u2 r2]]. cbn [fst snd] in *.
  exists E2, T2, C2. cbn [fst snd]. split; [|exact HQ2]. rewrite arun_app, Hrun, Hrun2, app_assoc. reflexivity.
Qed.

Lemma Runs_tellk {A} E O T C ops (k : IM A) Q E1 T1 C1 :
  arun (mkASt E O T C) ops = Some (mkASt E1 O T1 C1) -> Runs E1 O T1 C1 k Q -> Runs E O T C (tellk ops k) Q.
Proof.
  intros H (E2 & T2 & C2 & Hrun & HQ). exists E2, T2, C2. unfold tellk. cbn [fst snd].
  rewrite arun_app, H. auto.
Qed.

Lemma Runs_out {A} E O T C ops u (a : A) (Q : A -> list ascope -> list value -> list actl -> Prop) E' T' C' :
  arun (mkASt E O T C) ops = Some (mkASt E' (O ++ u) T' C') -> Q a E' T' C' ->
  Runs E O T C (ops, (u, Ok a)) Q.
Proof. intros H HQ. exists E', T', C'. cbn [fst snd]. split; [exact H|]. intros ? Hx. inversion Hx; subst. exact HQ. Qed.

Lemma Runs_emit {A} E O T C ops (a : A) (Q : A -> list ascope -> list value -> list actl -> Prop) E' T' C' :
  arun (mkASt E O T C) ops = Some (mkASt E' O T' C') -> Q a E' T' C' -> Runs E O T C (emit ops a) Q.
Proof. intros H HQ. eapply Runs_out; [rewrite app_nil_r; exact H|exact HQ]. Qed.

Lemma Runs_ret {A} E O T C (a : A) (Q : A -> list ascope -> list value -> list actl -> Prop) : Q a E T C -> Runs E O T C (retI a) Q.
Proof. intros. eapply Runs_emit; [reflexivity|assumption]. Qed.

Lemma Runs_lift {A} E O T C (r : res A) (Q : A -> list ascope -> list value -> list actl -> Prop) :
  (forall a, r = Ok a -> Q a E T C) -> Runs E O T C (liftI r) Q.
Proof. intros H. exists E, T, C. cbn [liftI fst snd arun]. rewrite app_nil_r. auto. Qed.

Lemma Runs_fail {A} E O T C (r : res A) (Q : A -> list ascope -> list value -> list actl -> Prop) :
  (forall a, r <> Ok a) -> Runs E O T C (failI r) Q.
Proof. intros H. apply (Runs_lift E O T C r Q). intros a Ha. exfalso. eapply H; eauto. Qed.

Lemma Runs_weaken {A} E O T C (m : IM A) (Q Q' : A -> list ascope -> list value -> list actl -> Prop) :
  Runs E O T C m Q -> (forall a E' T' C', Q a E' T' C' -> Q' a E' T' C') -> Runs E O T C m Q'.
Proof. intros (E' & T' & C' & H & HQ) Hw. exists E', T', C'. split; [exact H|]. intros a Ha. apply Hw. auto. Qed.

Ltac fails := apply Runs_fail; intros ? ?; discriminate.

(* ---- materialisation ---- *)
Section ValueInd.
  Variable PV : value -> Prop.
  Hypothesis HNum : forall x, PV (VNum x).
  Hypothesis HStr : forall s, PV (VStr s).
  Hypothesis HBool : forall b, PV (VBool b).
  Hypothesis HNull : PV VNull.
  Hypothesis HArr : forall vs, Forall PV vs -> PV (VArr vs).
  Fixpoint value_ind' (v : value) : PV v :=
    match v with
    | VNum x => HNum x
    | VStr s => HStr s
    | VBool b => HBool b
    | VNull => HNull
    | VArr vs =>
        HArr vs ((fix go (l : list value) : Forall PV l :=
                    match l with [] => Forall_nil PV | x :: t => Forall_cons x (value_ind' x) (go t) end) vs)
    end.
End ValueInd.

Lemma firstn_len_app {A} : forall (l r : list A), firstn (length l) (l ++ r) = l.
Proof. induction l; intros; cbn; [reflexivity|f_equal; auto]. Qed.
Lemma skipn_len_app {A} : forall (l r : list A), skipn (length l) (l ++ r) = r.
Proof. induction l; intros; cbn; auto. Qed.

Lemma astep_mkarr : forall vs E O T C,
  astep (mkASt E O (rev vs ++ T) C) (OMkArr (length vs)) = Some (mkASt E O (VArr vs :: T) C).
Proof.
  intros. cbn [astep a_env a_out a_tmps a_ctl].
  assert (Hn : length vs = length (rev vs)) by (symmetry; apply rev_length). rewrite Hn.
  rewrite app_length. replace (Nat.leb (length (rev vs)) (length (rev vs) + length T)) with true
    by (symmetry; apply Nat.leb_le; lia).
  rewrite firstn_len_app, skipn_len_app, rev_involutive. reflexivity.
Qed.

Definition mat_list : list value -> list op :=
  fix go (l : list value) : list op := match l with [] => [] | x :: t => mat_ops x ++ go t end.

Lemma mat_ops_arr : forall vs, mat_ops (VArr vs) = mat_list vs ++ [OMkArr (length vs)].
Proof. reflexivity. Qed.

Lemma arun_mat : forall v E O T C, arun (mkASt E O T C) (mat_ops v) = Some (mkASt E O (v :: T) C).
Proof.
  induction v as [x|s|b| |vs IH] using value_ind'; intros E O T C; try reflexivity.
  { cbn [mat_ops arun astep a_env a_out a_tmps a_ctl]. rewrite app_nil_r. reflexivity. }
  rewrite mat_ops_arr, arun_app.
  assert (Hl : forall T0, arun (mkASt E O T0 C) (mat_list vs) = Some (mkASt E O (rev vs ++ T0) C)).
  { induction IH as [|x t Hx _ IHt]; intros T0; [reflexivity|].
    cbn [mat_list]. fold mat_list. rewrite arun_app, Hx, IHt. cbn [rev]. rewrite <- app_assoc. reflexivity. }
  rewrite Hl. cbn [arun]. rewrite astep_mkarr. reflexivity.
Qed.

Lemma arun_drops : forall ts E O T C,
  arun (mkASt E O (ts ++ T) C) (drops (length ts)) = Some (mkASt E O T C).
Proof. induction ts as [|t ts IH]; intros; cbn [length drops repeat app arun astep a_tmps]; [reflexivity|apply IH]. Qed.

Lemma Runs_ret_val {S} E O T C k v (s : S) ts (Q : value * S -> list ascope -> list value -> list actl -> Prop) :
  length ts = k -> Q (v, s) E (v :: T) C -> Runs E O (ts ++ T) C (ret_val k v s) Q.
Proof.
  intros <- HQ. unfold ret_val. eapply Runs_emit; [|exact HQ].
  rewrite arun_app, arun_drops. apply arun_mat.
Qed.

Lemma arun_interp : forall G E, aligned G E -> forall segs acc b O T C, interp_segs E segs = Ok b ->
  arun (mkASt (menv G E) O (VStr acc :: T) C) (interp_ops E segs) =
  Some (mkASt (menv G E) O (VStr (acc ++ b) :: T) C).
Proof.
  intros G E Ha. induction segs as [|sg r IH]; intros acc b O T C H.
  - cbn in H. inversion H; subst. rewrite app_nil_r. reflexivity.
  - destruct sg as [b0|vn vl]; cbn [interp_segs interp_ops] in *.
    + destruct (interp_segs E r) as [rest| | | |] eqn:Er; try discriminate. inversion H; subst.
      cbn [arun astep a_env a_out a_tmps a_ctl]. rewrite (IH (acc ++ b0) rest) by reflexivity.
      rewrite app_assoc. reflexivity.
    + destruct (lookup_env vl vn E) as [v|] eqn:El; [|discriminate].
      destruct (interp_segs E r) as [rest| | | |] eqn:Er; try discriminate. inversion H; subst.
      cbn [arun]. rewrite (astep_interp _ _ _ _ _ _ _ _ El Ha).
      cbn [astep a_env a_out a_tmps a_ctl]. rewrite (IH (acc ++ display v) rest) by reflexivity.
      rewrite app_assoc. reflexivity.
Qed.

(* ---- specifications ---- *)
Definition PostE (G : list bool) (T : list value) (C : list actl) (r : value * st)
  (E' : list ascope) (T' : list value) (C' : list actl) : Prop :=
  E' = menv G (env (snd r)) /\ aligned G (env (snd r)) /\ T' = fst r :: T /\ C' = C.

Definition ftmps (fl : flow) : list value := match fl with FReturn v => [v] | _ => [] end.

Definition PostF (G : list bool) (C : list actl) (r : flow * st)
  (E' : list ascope) (T' : list value) (C' : list actl) : Prop :=
  E' = menv G (env (snd r)) /\ aligned G (env (snd r)) /\ T' = ftmps (fst r) /\ C' = C.

Definition ev_spec (iev : expr -> list bool -> st -> IM (value * st)) : Prop :=
  forall e G s O T C, aligned G (env s) -> cfloor C <= length G ->
    Runs (menv G (env s)) O T C (iev e G s) (PostE G T C).
Definition ex_spec (iex : stmt -> list bool -> st -> IM (flow * st)) : Prop :=
  forall t G s O C, aligned (true :: G) (env s) -> cfloor C <= S (length G) ->
    Runs (menv (true :: G) (env s)) O [] C (iex t (true :: G) s) (PostF (true :: G) C).
Definition el_spec (iel : expr -> list stmt -> list bool -> st -> IM (flow * st)) : Prop :=
  forall c b G s O C, aligned G (env s) -> cfloor C <= length G ->
    Runs (menv G (env s)) O [] C (iel c b G s) (PostF G C).
Definition eb_spec (ieb : list stmt -> list bool -> st -> IM (flow * st)) : Prop :=
  forall b G s O C, aligned G (env s) -> cfloor C <= length G ->
    Runs (menv G (env s)) O [] C (ieb b G s) (PostF G C).

Ltac inE H := unfold PostE in H; cbn [fst snd] in H; destruct H as (-> & ? & -> & ->).
Ltac inF H := unfold PostF in H; cbn [fst snd] in H; destruct H as (-> & ? & -> & ->).
Ltac post := unfold PostE, PostF; cbn [fst snd env with_env]; repeat split; auto.

Section BodySpecs.
Variable P : plan.
Variable eps : f64.
Variable iev : expr -> list bool -> st -> IM (value * st).
Variable iex : stmt -> list bool -> st -> IM (flow * st).
Variable iel : expr -> list stmt -> list bool -> st -> IM (flow * st).
Variable ieb : list stmt -> list bool -> st -> IM (flow * st).
Hypothesis Hev : ev_spec iev.
Hypothesis Hex : ex_spec iex.
Hypothesis Hel : el_spec iel.
Hypothesis Heb : eb_spec ieb.

Ltac bind_ev := eapply Runs_bind; [apply Hev; assumption|];
  let HP := fresh "HP" in
  intros [? ?] ? ? ? ? HP; inE HP.
Tactic Notation "bind_ev" "as" ident(v) ident(s1) := eapply Runs_bind; [apply Hev; assumption|];
  let HP := fresh "HP" in
  intros [v s1] ? ? ? ? HP; inE HP.

Lemma evals_spec : forall es G s O T C, aligned G (env s) -> cfloor C <= length G ->
  Runs (menv G (env s)) O T C (ievals_with iev es G s)
    (fun r E' T' C' => E' = menv G (env (snd r)) /\ aligned G (env (snd r)) /\ T' = rev (fst r) ++ T /\ C' = C).
Proof.
  induction es as [|e r IH]; intros G s O T C Ha Hf; cbn [ievals_with].
  - apply Runs_ret. cbn. auto.
  - bind_ev. eapply Runs_bind; [apply IH; assumption|].
    intros [vs s2] E2 T2 C2 O2 (-> & Hal2 & -> & ->). cbn [fst snd] in *.
    apply Runs_ret. cbn [fst snd rev]. rewrite <- app_assoc. auto.
Qed.

Lemma indices_spec : forall es G s O T C, aligned G (env s) -> cfloor C <= length G ->
  Runs (menv G (env s)) O T C (iindices_with iev es G s)
    (fun r E' T' C' => E' = menv G (env (snd r)) /\ aligned G (env (snd r)) /\ T' = T /\ C' = C /\
                       Forall (fun i => 0 <= i)%Z (fst r)).
Proof.
  induction es as [|e r IH]; intros G s O T C Ha Hf; cbn [iindices_with].
  - apply Runs_ret. cbn. auto.
  - bind_ev as v s0.
    eapply Runs_bind with (Q1 := fun i E' T' C' => index_value v = Ok i /\ E' = menv G (env s0) /\ T' = v :: T /\ C' = C).
    { apply Runs_lift. auto. }
    intros i E2 T2 C2 O2 (Hi & -> & -> & ->).
    eapply Runs_tellk; [reflexivity|].
    eapply Runs_bind; [apply IH; assumption|].
    intros [is s2] E3 T3 C3 O3 (-> & Hal3 & -> & -> & Hnn). cbn [fst snd] in *.
    apply Runs_ret. cbn [fst snd]. repeat split; auto. constructor; [eapply index_value_nonneg; eauto|assumption].
Qed.

Definition mut_in (m : mutop) (T : list value) : list value :=
  match m with MPush v => v :: T | _ => T end.

Lemma lookup_key_det : forall l n E k1 k2, lookup_key l n E = Some k1 -> lookup_key l n E = Some k2 -> k1 = k2.
Proof. congruence. Qed.

Lemma arun_mut : forall m l n G E root path root' r E' O T C,
  aligned G E -> lookup_env l n E = Some root -> mutate_path root path m = Ok (root', r) ->
  assign_env l n root' E = Some E' ->
  arun (mkASt (menv G E) O (mut_in m T) C) (mut_ops m (key_of l n E) (nat_path path)) =
    Some (mkASt (menv G E') O (r :: T) C) /\ aligned G E'.
Proof.
  intros m l n G E root path root' r E' O T C Ha Hl Hm Hs.
  destruct (lookup_env_key l n G E root Hl Ha) as (k & Hk & _ & Hf).
  destruct (assign_env_key l n root' G E E' Hs Ha) as (k' & Hk' & Hset & Hal & _).
  assert (k' = k) by congruence. subst k'. rewrite (key_of_eq _ _ _ _ Hk). split; [|exact Hal].
  destruct m as [v| |]; cbn [mut_ops mut_in arun astep a_env a_out a_tmps a_ctl]; rewrite Hf.
  - destruct (mutate_push_sim _ _ _ _ _ Hm) as [Hx ->]. rewrite Hx, Hset. reflexivity.
  - rewrite (mutate_pop_sim _ _ _ _ Hm), Hset. reflexivity.
  - destruct (mutate_rev_sim _ _ _ _ Hm) as [Hx ->]. rewrite Hx, Hset. reflexivity.
Qed.

Lemma mutate_spec : forall o m G s O T C, aligned G (env s) -> cfloor C <= length G ->
  Runs (menv G (env s)) O (mut_in m T) C (imutate_with iev o m G s) (PostE G T C).
Proof.
  intros o m G s O T C Ha Hf. unfold imutate_with.
  destruct o; try fails.
  - destruct (lookup_env l n (env s)) as [root|] eqn:El; [|fails].
    eapply Runs_bind with (Q1 := fun rr E' T' C' => mutate_path root [] m = Ok rr /\ E' = menv G (env s) /\ T' = mut_in m T /\ C' = C).
    { apply Runs_lift. auto. }
    intros [root' r] E2 T2 C2 O2 (Hm & -> & -> & ->).
    destruct (assign_env l n root' (env s)) as [e'|] eqn:Es; [|fails].
    destruct (arun_mut m l n G (env s) root [] root' r e' O2 T C Ha El Hm Es) as [Hrun Hal].
    eapply Runs_emit; [exact Hrun|post].
  - destruct (flatten_target (EIdx o1 o2) []) as [[[vn vl] idx]|]; [|fails].
    eapply Runs_bind; [apply indices_spec; assumption|].
    intros [path s1] E1 T1 C1 O1 (-> & Hal1 & -> & -> & _). cbn [fst snd] in *.
    destruct (lookup_env vl vn (env s1)) as [root|] eqn:El; [|fails].
    eapply Runs_bind with (Q1 := fun rr E' T' C' => mutate_path root path m = Ok rr /\ E' = menv G (env s1) /\ T' = mut_in m T /\ C' = C).
    { apply Runs_lift. auto. }
    intros [root' r] E2 T2 C2 O2 (Hm & -> & -> & ->).
    destruct (assign_env vl vn root' (env s1)) as [e'|] eqn:Es; [|fails].
    destruct (arun_mut m vl vn G (env s1) root path root' r e' O2 T C Hal1 El Hm Es) as [Hrun Hal].
    eapply Runs_emit; [exact Hrun|post].
Qed.

Lemma ret_val1 : forall {S} E O T C x v (s : S) (Q : value * S -> list ascope -> list value -> list actl -> Prop),
  Q (v, s) E (v :: T) C -> Runs E O (x :: T) C (ret_val 1 v s) Q.
Proof. intros. apply (Runs_ret_val E O T C 1 v s [x]); auto. Qed.
Lemma ret_val2 : forall {S} E O T C x y v (s : S) (Q : value * S -> list ascope -> list value -> list actl -> Prop),
  Q (v, s) E (v :: T) C -> Runs E O (x :: y :: T) C (ret_val 2 v s) Q.
Proof. intros. apply (Runs_ret_val E O T C 2 v s [x; y]); auto. Qed.
Lemma ret_val3 : forall {S} E O T C x y z v (s : S) (Q : value * S -> list ascope -> list value -> list actl -> Prop),
  Q (v, s) E (v :: T) C -> Runs E O (x :: y :: z :: T) C (ret_val 3 v s) Q.
Proof. intros. apply (Runs_ret_val E O T C 3 v s [x; y; z]); auto. Qed.

Lemma string_call_spec : forall str f args G s O T C recv, aligned G (env s) -> cfloor C <= length G ->
  Runs (menv G (env s)) O (recv :: T) C (istring_call iev str f args G s) (PostE G T C).
Proof.
  intros str f args G s O T C recv Ha Hf. unfold istring_call.
  destruct (negb (mem_name f string_methods)); [fails|].
  destruct (bytes_eqb f n_len); [apply ret_val1; post|].
  destruct (bytes_eqb f n_slice).
  { destruct args as [|a0 [|a1 ?]]; try fails.
    bind_ev as v0 s2. bind_ev as v1 s3. destruct v0; try fails. destruct v1; try fails. apply ret_val3; post. }
  destruct (bytes_eqb f n_to_uppercase); [apply ret_val1; post|].
  destruct (bytes_eqb f n_to_lowercase); [apply ret_val1; post|].
  destruct (bytes_eqb f n_trim); [apply ret_val1; post|].
  destruct (bytes_eqb f n_to_number); [apply ret_val1; post|].
  destruct (bytes_eqb f n_find).
  { destruct args as [|a0 ?]; try fails.
    bind_ev as v0 s2. destruct v0; try fails. destruct (find str s0); try fails; apply ret_val2; post. }
  destruct (bytes_eqb f n_replace).
  { destruct args as [|a0 [|a1 ?]]; try fails.
    bind_ev as v0 s2. bind_ev as v1 s3. destruct v0; try fails. destruct v1; try fails.
    destruct (replace str s0 s1); try fails. apply ret_val3; post. }
  destruct args as [|a0 ?]; try fails.
  bind_ev as v0 s2. destruct v0; try fails. apply ret_val2; post.
Qed.

Lemma array_call_spec : forall items f args G s O T C recv, aligned G (env s) -> cfloor C <= length G ->
  Runs (menv G (env s)) O (recv :: T) C (iarray_call iev items f args G s) (PostE G T C).
Proof.
  intros items f args G s O T C recv Ha Hf. unfold iarray_call.
  destruct (negb (mem_name f array_methods)); [fails|].
  destruct (bytes_eqb f n_len); [apply ret_val1; post|].
  destruct (bytes_eqb f n_join); [|fails].
  destruct args as [|a0 ?]; try fails.
  bind_ev as v0 s2. destruct v0; try fails. apply ret_val2; post.
Qed.

Lemma member_call_spec : forall o f args G s O T C, aligned G (env s) -> cfloor C <= length G ->
  Runs (menv G (env s)) O T C (imember_call iev o f args G s) (PostE G T C).
Proof.
  intros o f args G s O T C Ha Hf. unfold imember_call.
  destruct (mem_name f array_mut_methods).
  - destruct (bytes_eqb f n_push).
    + destruct args as [|a0 ?]; [fails|]. bind_ev as v s1.
      eapply Runs_tellk; [reflexivity|]. apply (mutate_spec o (MPush v)); assumption.
    + destruct (bytes_eqb f n_pop); [apply (mutate_spec o MPop)|apply (mutate_spec o MReverse)]; assumption.
  - destruct (mem_name f proc_mut_names); [fails|].
    bind_ev as recv s1. destruct recv.
    + destruct (mem_name f number_methods); [apply ret_val1; post|fails].
    + apply string_call_spec; assumption.
    + fails.
    + fails.
    + apply array_call_spec; assumption.
Qed.

Lemma builtin_call_spec : forall g args G s O T C, aligned G (env s) -> cfloor C <= length G ->
  Runs (menv G (env s)) O T C (ibuiltin_call iev g args G s) (PostE G T C).
Proof.
  intros g args G s O T C Ha Hf. unfold ibuiltin_call.
  eapply Runs_bind; [apply evals_spec; assumption|].
  intros [vs s1] E1 T1 C1 O1 (-> & Hal1 & -> & ->). cbn [fst snd] in *.
  destruct vs as [|v [|? ?]]; try fails. cbn [rev app].
  destruct g; try fails.
  - eapply Runs_out; [reflexivity|post].
  - eapply Runs_emit; [reflexivity|post].
  - apply ret_val1; post.
Qed.

Lemma aligned_false : forall G E, aligned G E -> aligned (false :: G) E.
Proof. unfold aligned. intros. cbn [ntrue]. lia. Qed.
Lemma aligned_push : forall G E sc, aligned G E -> aligned (true :: G) (sc :: E).
Proof. unfold aligned. intros. cbn [ntrue length]. lia. Qed.
Lemma aligned_pop : forall G E, aligned (true :: G) E -> exists sc E', E = sc :: E' /\ aligned G E'.
Proof. unfold aligned. intros G [|sc E'] H; cbn [ntrue length] in H; [discriminate|]. exists sc, E'. split; [reflexivity|lia]. Qed.

Lemma astep_callbind : forall G E O vs T0 fl C fid ls ps, aligned G E -> length ps = length vs ->
  fl = S (length G) ->
  astep (mkASt ([] :: menv G E) O (rev vs ++ []) (mkACtl false T0 fl :: C)) (OCallBind (seq (esize E) (length vs))) =
  Some (mkASt (menv (true :: G) (bind_params fid ls ps vs 0%Z [] :: E)) O [] (mkACtl false T0 fl :: C)).
Proof.
  intros G E O vs T0 fl C fid ls ps Ha Hlen ->.
  cbn [astep a_env a_out a_tmps a_ctl ac_loop ac_floor negb andb length].
  rewrite (menv_length G E Ha), Nat.eqb_refl, seq_length, app_nil_r, rev_length, Nat.eqb_refl, rev_involutive.
  cbn [andb menv]. rewrite (bind_params_img fid ls ps vs 0%Z [] (esize E) Hlen).
  cbn [length img_scope]. rewrite Nat.add_0_r. reflexivity.
Qed.

Lemma astep_callend : forall G E O T0 fl C rvs rv, aligned (true :: G) E -> fl = S (length G) ->
  (rvs = [] /\ rv = VNull \/ rvs = [rv]) ->
  astep (mkASt (menv (true :: G) E) O rvs (mkACtl false T0 fl :: C)) OCallEnd =
  Some (mkASt (menv G (tl E)) O (rv :: T0) C) /\ aligned G (tl E).
Proof.
  intros G E O T0 fl C rvs rv Ha -> Hrv. destruct (aligned_pop _ _ Ha) as (sc & E' & -> & Ha').
  split; [|exact Ha']. cbn [menv astep a_env a_out a_tmps a_ctl ac_loop ac_floor ac_saved negb andb length tl].
  rewrite (menv_length G E' Ha'), Nat.eqb_refl.
  destruct Hrv as [[-> ->]| ->]; reflexivity.
Qed.

Lemma user_call_spec : forall fname args target G s O T C, aligned G (env s) -> cfloor C <= length G ->
  Runs (menv G (env s)) O T C (iuser_call iev ieb fname args target G s) (PostE G T C).
Proof.
  intros fname args target G s O T C Ha Hf. unfold iuser_call.
  destruct (lookup_fn target fname (fns s)) as [fd|]; [|fails].
  eapply Runs_tellk; [reflexivity|]. cbn [a_env a_tmps a_ctl length].
  rewrite (menv_length G (env s) Ha).
  change ([] :: menv G (env s)) with (menv (false :: G) (env s)).
  eapply Runs_bind; [apply evals_spec; [apply aligned_false; assumption|cbn [cfloor ac_floor length]; lia]|].
  intros [vs s1] E1 T1 C1 O1 (-> & Hal1 & -> & ->). cbn [fst snd] in *.
  destruct (Nat.eqb (length vs) (length (f_params fd))) eqn:Elen; cbn [negb]; [|fails].
  apply Nat.eqb_eq in Elen.
  destruct (match f_id fd with Some _ => (f_llen fd <? Z.of_nat (length (f_params fd)))%Z | None => false end); [fails|].
  assert (Hal1' : aligned G (env s1)) by (unfold aligned in *; cbn [ntrue] in Hal1; lia).
  eapply Runs_tellk.
  { cbn [arun menv]. rewrite (astep_callbind G (env s1) O1 vs T (S (length G)) C (f_id fd) (f_lstart fd) (f_params fd) Hal1' (eq_sym Elen) eq_refl).
    reflexivity. }
  set (s2 := push_scope (bind_params (f_id fd) (f_lstart fd) (f_params fd) vs 0%Z []) s1).
  change (bind_params (f_id fd) (f_lstart fd) (f_params fd) vs 0%Z [] :: env s1) with (env s2).
  assert (Hal2 : aligned (true :: G) (env s2)) by (apply aligned_push; exact Hal1').
  eapply Runs_bind; [apply Heb; [exact Hal2|cbn [cfloor ac_floor length]; lia]|].
  intros [fl s3] E3 T3 C3 O3 HP. inF HP.
  destruct fl; try fails.
  - destruct (astep_callend G (env s3) O3 T (S (length G)) C [] VNull H eq_refl (or_introl (conj eq_refl eq_refl))) as [Hs Hal4].
    eapply Runs_emit; [cbn [arun ftmps]; rewrite Hs; reflexivity|post].
  - destruct (astep_callend G (env s3) O3 T (S (length G)) C [v] v H eq_refl (or_intror eq_refl)) as [Hs Hal4].
    eapply Runs_emit; [cbn [arun ftmps]; rewrite Hs; reflexivity|post].
Qed.

Lemma arun_drops2_mat : forall E O T C x y v,
  arun (mkASt E O (x :: y :: T) C) (drops 2 ++ mat_ops v) = Some (mkASt E O (v :: T) C).
Proof.
  intros. change (drops 2 ++ mat_ops v) with (ODrop :: ODrop :: mat_ops v).
  cbn [arun astep a_env a_out a_tmps a_ctl]. apply arun_mat.
Qed.

Lemma eval_body_spec : ev_spec (ieval_body eps iev ieb).
Proof.
  intros e G s O T C Ha Hf. destruct e.
  - eapply Runs_emit; [reflexivity|post].
  - eapply Runs_emit; [reflexivity|post].
  - (* EInterp *) cbn [ieval_body].
    eapply Runs_bind with (Q1 := fun b E' T' C' => interp_segs (env s) segs = Ok b /\ E' = menv G (env s) /\ T' = T /\ C' = C).
    { apply Runs_lift. auto. }
    intros b E2 T2 C2 O2 (Hb & -> & -> & ->).
    eapply Runs_emit; [|post]. rewrite arun_app. cbn [arun astep a_env a_out a_tmps a_ctl app].
    rewrite (arun_interp G (env s) Ha segs [] b O2 T C Hb). reflexivity.
  - eapply Runs_emit; [reflexivity|post].
  - eapply Runs_emit; [reflexivity|post].
  - (* EVar *) cbn [ieval_body]. destruct (lookup_env l n (env s)) as [v|] eqn:El; [|fails].
    eapply Runs_emit; [cbn [arun]; rewrite (astep_read _ _ _ _ _ _ _ _ El Ha); reflexivity|post].
  - (* EBin *)
    destruct op; cbn [ieval_body].
    1-5,8-10: (bind_ev as l s1; bind_ev as r s2;
      match goal with |- Runs _ _ _ _ (bindI (liftI (binop_values eps ?o _ _)) _) _ =>
        eapply Runs_bind with (Q1 := fun v E' T' C' => binop_values eps o l r = Ok v /\ E' = menv G (env s2) /\ T' = r :: l :: T /\ C' = C)
      end;
      [apply Runs_lift; auto|];
      intros v E3 T3 C3 O3 (Hb & -> & -> & ->);
      eapply Runs_emit; [|post]).
    + (* Add *) unfold bin_ops. destruct l, r; try apply arun_drops2_mat.
      cbn in Hb. inversion Hb; subst. reflexivity.
    + apply arun_drops2_mat.
    + apply arun_drops2_mat.
    + apply arun_drops2_mat.
    + apply arun_drops2_mat.
    + apply arun_drops2_mat.
    + apply arun_drops2_mat.
    + apply arun_drops2_mat.
    + (* And *) bind_ev as l s1.
      destruct l as [x|str|[|]| |vs].
      1,2,3,6: (bind_ev as r s2; destruct r; try fails; (eapply Runs_emit; [reflexivity|post])).
      all: (eapply Runs_emit; [reflexivity|post]).
    + (* Or *) bind_ev as l s1.
      destruct l as [x|str|[|]| |vs].
      1,2,4,5,6: (bind_ev as r s2; destruct r; try fails; (eapply Runs_emit; [reflexivity|post])).
      all: (eapply Runs_emit; [reflexivity|post]).
  - (* EUn *) cbn [ieval_body]. bind_ev as v s1.
    destruct op, v; try fails; eapply Runs_emit; try reflexivity; post.
  - (* EArr *) cbn [ieval_body]. eapply Runs_bind; [apply evals_spec; assumption|].
    intros [vs s1] E1 T1 C1 O1 (-> & Hal1 & -> & ->). cbn [fst snd] in *.
    eapply Runs_emit; [cbn [arun]; rewrite astep_mkarr; reflexivity|post].
  - (* EIdx *) cbn [ieval_body]. bind_ev as av s1. bind_ev as iv s2.
    destruct av as [| | | |items]; try fails. destruct iv as [x| | | |]; try fails.
    destruct (negb (is_finite x) || negb (is_int x)); [fails|].
    destruct ((to_isize x <? 0)%Z || (len_z items <=? to_isize x)%Z); [fails|].
    destruct (nth_value items (Z.to_nat (to_isize x))) as [v|] eqn:En; [|fails].
    eapply Runs_emit; [|post]. cbn [arun astep a_env a_out a_tmps a_ctl].
    rewrite <- nth_value_nth_error, En. reflexivity.
  - (* EMember *) fails.
  - (* ECall *)
    destruct e; try fails.
    + cbn [ieval_body]. destruct (global_builtin n); [apply builtin_call_spec|apply user_call_spec]; assumption.
    + cbn [ieval_body]. apply member_call_spec; assumption.
Qed.

End BodySpecs.

Lemma hoist_env : forall P b s s1, hoist P b s = Ok s1 -> env s1 = env s.
Proof.
  induction b as [|t r IH]; intros s s1 H; cbn [hoist] in H.
  - inversion H; reflexivity.
  - destruct t; try (apply IH; exact H).
    destruct (in_plan_fn P fid); [apply IH; exact H|].
    destruct (fns s) as [|sc rest]; [discriminate|]. apply IH in H. exact H.
Qed.

Lemma astep_popscope : forall G E O T C, aligned (true :: G) E -> cfloor C <= length G ->
  astep (mkASt (menv (true :: G) E) O T C) OPopScope = Some (mkASt (menv G (tl E)) O T C) /\ aligned G (tl E).
Proof.
  intros G E O T C Ha Hf. destruct (aligned_pop _ _ Ha) as (sc & E' & -> & Ha'). split; [|exact Ha'].
  cbn [menv astep a_env a_out a_tmps a_ctl tl]. unfold afloor_of. cbn [a_ctl]. fold (cfloor C).
  rewrite (menv_length G E' Ha'). replace (Nat.leb (cfloor C) (length G)) with true by (symmetry; apply Nat.leb_le; exact Hf).
  reflexivity.
Qed.

Lemma astep_storeidx : forall l n G E root path nv root' E' O T C,
  aligned G E -> lookup_env l n E = Some root -> Forall (fun i => 0 <= i)%Z path ->
  assign_path root path nv = Ok root' -> assign_env l n root' E = Some E' ->
  astep (mkASt (menv G E) O (nv :: T) C)
        (OStoreIdx (key_of l n E) (removelast (nat_path path)) (last (nat_path path) 0)) =
    Some (mkASt (menv G E') O T C) /\ aligned G E'.
Proof.
  intros l n G E root path nv root' E' O T C Ha Hl Hnn Hp Hs.
  destruct (lookup_env_key l n G E root Hl Ha) as (k & Hk & _ & Hf).
  destruct (assign_env_key l n root' G E E' Hs Ha) as (k' & Hk' & Hset & Hal & _).
  assert (k' = k) by congruence. subst k'. rewrite (key_of_eq _ _ _ _ Hk). split; [|exact Hal].
  destruct (assign_path_sim path root nv root' Hnn Hp) as (old & Hold).
  cbn [astep a_env a_out a_tmps a_ctl]. rewrite Hf, Hold, Hset. reflexivity.
Qed.

Section StmtSpecs.
Variable P : plan.
Variable eps : f64.
Variable iev : expr -> list bool -> st -> IM (value * st).
Variable iex : stmt -> list bool -> st -> IM (flow * st).
Variable iel : expr -> list stmt -> list bool -> st -> IM (flow * st).
Variable ieb : list stmt -> list bool -> st -> IM (flow * st).
Hypothesis Hev : ev_spec iev.
Hypothesis Hex : ex_spec iex.
Hypothesis Hel : el_spec iel.
Hypothesis Heb : eb_spec ieb.

Tactic Notation "bind_ev" "as" ident(v) ident(s1) ident(O1) := eapply Runs_bind; [apply Hev; assumption|];
  let HP := fresh "HP" in
  intros [v s1] ? ? ? O1 HP; inE HP.

Lemma exec_body_spec : ex_spec (iexec_body iev iel ieb).
Proof.
  intros t G s O C Ha Hf.
  assert (Hf' : cfloor C <= length (true :: G)) by (cbn [length]; exact Hf).
  destruct t; cbn [iexec_body].
  - (* SFun *) apply Runs_ret. post.
  - (* SMake *) bind_ev as v s1 O0.
    destruct (astep_make l n v G (env s1) O0 [] C H) as [Hs Hal].
    eapply Runs_emit; [cbn [arun]; rewrite Hs; reflexivity|post].
  - (* SSet *) bind_ev as v s1 O0.
    destruct (assign_env l n v (env s1)) as [e'|] eqn:Es; [|fails].
    destruct (astep_assign l n v (true :: G) (env s1) e' O0 [] C Es H) as [Hs Hal].
    eapply Runs_emit; [cbn [arun]; rewrite Hs; reflexivity|post].
  - (* SSetIdx *) bind_ev as v s1 O0.
    destruct (flatten_target target []) as [[[vn vl] idx]|]; [|fails].
    eapply Runs_bind; [apply (indices_spec iev Hev); assumption|].
    intros [path s2] E2 T2 C2 O2 (-> & Hal2 & -> & -> & Hnn). cbn [fst snd] in *.
    destruct (lookup_env vl vn (env s2)) as [root|] eqn:El; [|fails].
    eapply Runs_bind with (Q1 := fun rr E' T' C' => assign_path root path v = Ok rr /\ E' = menv (true :: G) (env s2) /\ T' = [v] /\ C' = C).
    { apply Runs_lift. auto. }
    intros root' E3 T3 C3 O3 (Hp & -> & -> & ->).
    destruct (assign_env vl vn root' (env s2)) as [e'|] eqn:Es; [|fails].
    destruct (astep_storeidx vl vn (true :: G) (env s2) root path v root' e' O3 [] C Hal2 El Hnn Hp Es) as [Hs Hal].
    eapply Runs_emit; [cbn [arun]; rewrite Hs; reflexivity|post].
  - (* SIf *) bind_ev as cv s1 O0.
    eapply Runs_bind with (Q1 := fun (b : bool) E' T' C' => E' = menv (true :: G) (env s1) /\ T' = [cv] /\ C' = C).
    { apply Runs_lift. auto. }
    intros b E3 T3 C3 O3 (-> & -> & ->).
    eapply Runs_tellk; [reflexivity|].
    destruct b; [apply Heb; assumption|].
    destruct f; [apply Heb; assumption|]. apply Runs_ret. post.
  - (* SLoop *) apply Hel; assumption.
  - (* SBlock *) apply Heb; assumption.
  - (* SRet *) destruct e.
    + bind_ev as v s1 O0. apply Runs_ret. post.
    + eapply Runs_emit; [reflexivity|post].
  - apply Runs_ret. post.
  - apply Runs_ret. post.
  - (* SExpr *) bind_ev as v s1 O0. eapply Runs_emit; [reflexivity|post].
Qed.

Lemma loop_body_spec : el_spec (iloop_body iev iel ieb).
Proof.
  intros c b G s O C Ha Hf. unfold iloop_body.
  bind_ev as cv s1 O0.
  eapply Runs_bind with (Q1 := fun (b : bool) E' T' C' => E' = menv G (env s1) /\ T' = [cv] /\ C' = C).
  { apply Runs_lift. auto. }
  intros bb E3 T3 C3 O3 (-> & -> & ->).
  eapply Runs_tellk; [reflexivity|].
  destruct (negb bb); [apply Runs_ret; post|].
  eapply Runs_tellk; [reflexivity|]. cbn [a_env a_tmps a_ctl].
  eapply Runs_bind; [apply Heb; [assumption|cbn [cfloor ac_floor]; rewrite menv_length by assumption; lia]|].
  intros [fl s2] E2 T2 C2 O2 HP. inF HP.
  assert (Hlen : Nat.eqb (length (menv G (env s2))) (length (menv G (env s1))) = true)
    by (rewrite !menv_length by assumption; apply Nat.eqb_refl).
  destruct fl.
  - eapply Runs_tellk; [cbn [arun astep a_env a_out a_tmps a_ctl ac_loop ac_floor ac_saved ftmps andb]; rewrite Hlen; reflexivity|].
    apply Hel; assumption.
  - eapply Runs_emit; [cbn [arun astep a_env a_out a_tmps a_ctl ac_loop ac_floor ac_saved ftmps andb app]; rewrite Hlen; reflexivity|post].
  - eapply Runs_emit; [cbn [arun astep a_env a_out a_tmps a_ctl ac_loop ac_floor ac_saved ftmps andb app]; rewrite Hlen; reflexivity|post].
  - eapply Runs_tellk; [cbn [arun astep a_env a_out a_tmps a_ctl ac_loop ac_floor ac_saved ftmps andb]; rewrite Hlen; reflexivity|].
    apply Hel; assumption.
Qed.

Lemma stmts_spec : forall ts G s O C, aligned (true :: G) (env s) -> cfloor C <= length G ->
  Runs (menv (true :: G) (env s)) O [] C (istmts_with P iex ts (true :: G) s) (PostF G C).
Proof.
  induction ts as [|t r IH]; intros G s O C Ha Hf; cbn [istmts_with].
  - destruct (astep_popscope G (env s) O [] C Ha Hf) as [Hs Hal].
    eapply Runs_emit; [cbn [arun]; rewrite Hs; reflexivity|]. unfold PostF. cbn [fst snd pop_scope env ftmps]. auto.
  - destruct (in_plan_stmt P (stmt_sid t)); [apply IH; assumption|].
    eapply Runs_bind; [apply Hex; [assumption|lia]|].
    intros [fl s'] E2 T2 C2 O2 HP. inF HP.
    destruct fl as [|v| |]; [apply IH; assumption| | |].
    + destruct (astep_popscope G (env s') O2 [v] C H Hf) as [Hs Hal].
      eapply Runs_emit; [cbn [arun ftmps]; rewrite Hs; reflexivity|]. unfold PostF. cbn [fst snd pop_scope env ftmps]. auto.
    + destruct (astep_popscope G (env s') O2 [] C H Hf) as [Hs Hal].
      eapply Runs_emit; [cbn [arun ftmps]; rewrite Hs; reflexivity|]. unfold PostF. cbn [fst snd pop_scope env ftmps]. auto.
    + destruct (astep_popscope G (env s') O2 [] C H Hf) as [Hs Hal].
      eapply Runs_emit; [cbn [arun ftmps]; rewrite Hs; reflexivity|]. unfold PostF. cbn [fst snd pop_scope env ftmps]. auto.
Qed.

Lemma block_body_spec : eb_spec (iblock_body P iex).
Proof.
  intros b G s O C Ha Hf. unfold iblock_body.
  eapply Runs_tellk; [reflexivity|]. cbn [a_env a_out a_tmps a_ctl].
  eapply Runs_bind with (Q1 := fun s1 E' T' C' => env s1 = [] :: env s /\ E' = [] :: menv G (env s) /\ T' = [] /\ C' = C).
  { apply Runs_lift. intros s1 Hh. apply hoist_env in Hh. cbn in Hh. auto. }
  intros s1 E3 T3 C3 O3 (He & -> & -> & ->).
  assert (Hm : [] :: menv G (env s) = menv (true :: G) (env s1)) by (rewrite He; reflexivity).
  rewrite Hm. apply stmts_spec; [rewrite He; apply aligned_push; exact Ha|exact Hf].
Qed.
End StmtSpecs.

Theorem spec_all : forall P eps n,
  ev_spec (ieval P eps n) /\ ex_spec (iexec P eps n) /\ el_spec (iexec_loop P eps n) /\ eb_spec (iexec_block P eps n).
Proof.
  intros P eps. induction n as [|n (IHe & IHx & IHl & IHb)].
  - refine (conj _ (conj _ (conj _ _))); unfold ev_spec, ex_spec, el_spec, eb_spec; intros; cbn; fails.
  - refine (conj _ (conj _ (conj _ _))).
    + intros e G s O T C Ha Hf. cbn [ieval]. apply eval_body_spec; assumption.
    + intros t G s O C Ha Hf. cbn [iexec]. apply exec_body_spec; assumption.
    + intros c b G s O C Ha Hf. cbn [iexec_loop]. apply loop_body_spec; assumption.
    + intros b G s O C Ha Hf. cbn [iexec_block]. apply (block_body_spec P (iexec P eps n)); assumption.
Qed.

(* the reclamation-free machine, run on the issued operations, prints what run_impl prints *)
Theorem twin_run : forall p eps fuel prog,
  exists ast, arun ainit (eval_ops p eps fuel prog) = Some ast /\
    a_out ast = fst (run_impl p eps fuel prog).
Proof.
  intros. destruct (spec_all p eps fuel) as (_ & _ & _ & Hb).
  destruct (Hb prog [true] init_st [] []) as (E' & T' & C' & Hrun & _); [reflexivity|cbn; lia|].
  unfold eval_ops, irun. exists (mkASt E' ([] ++ fst (snd (iexec_block p eps fuel prog [true] init_st))) T' C').
  split; [exact Hrun|]. cbn [a_out app]. rewrite <- irun_mirror. reflexivity.
Qed.

(* ================================================================== *)
(* D. progress: an operation the reclamation-free machine executes is never ill-formed for the
      machine with reclamation (under the invariant and the agreement of MemProofs)          *)

Lemma erase_varr_inv : forall h v ys, erase h v = Some (VArr ys) ->
  exists r a sid cap items, v = MArr r a sid cap items /\ store_live h r a sid = true /\
    erase_list h items = Some ys.
Proof.
  intros h v ys He. destruct v as [x|b| |r a len|r a len cap|r a sid cap items]; try discriminate.
  - cbn [erase] in He. destruct (read_bytes h r a len); discriminate.
  - cbn [erase] in He. destruct (read_bytes h r a len); discriminate.
  - rewrite erase_arr in He. destruct (store_live h r a sid) eqn:Es; [|discriminate].
    destruct (erase_list h items) as [ys'|] eqn:El; [|discriminate]. inversion He; subst.
    exists r, a, sid, cap, items. auto.
Qed.

Lemma F2_nth_back {A B} (R : A -> B -> Prop) : forall l l' i y, Forall2 R l l' -> nth_error l' i = Some y ->
  exists x, nth_error l i = Some x /\ R x y.
Proof.
  intros l l' i y H. revert i. induction H as [|a b l l' Hab Hl IH]; intros [|i] Hn; cbn in *; try discriminate.
  - inversion Hn; subst. eauto.
  - apply IH. exact Hn.
Qed.

Section ModifyIll.
  Variables (R AR : Type).
  Variable f : heap -> mvalue -> mres (heap * mvalue * R).
  Variable af : value -> option (value * AR).
  Hypothesis f_ill : forall h v a, erase h v = Some a -> af a <> None -> f h v <> MIll.

  Lemma modify_at_not_ill : forall path h v a, erase h v = Some a -> amodify_at af path a <> None ->
    modify_at f path h v <> MIll.
  Proof.
    induction path as [|i rest IH]; intros h v a He Ha; cbn [modify_at amodify_at] in *.
    - eapply f_ill; eauto.
    - destruct a as [| | | |ys]; try congruence.
      destruct (erase_varr_inv h v ys He) as (r & a0 & sid & cap & items & -> & Es & El). rewrite Es.
      destruct (nth_error ys i) as [asub|] eqn:En; [|congruence].
      apply erase_list_Forall2 in El. destruct (F2_nth_back _ _ _ _ _ El En) as (sub & Hn & Hsub). rewrite Hn.
      assert (Hrest : amodify_at af rest asub <> None) by (destruct (amodify_at af rest asub); congruence).
      specialize (IH h sub asub Hsub Hrest).
      destruct (modify_at f rest h sub) as [[[h' sub'] x]| |]; congruence.
  Qed.
End ModifyIll.

Lemma f_set_not_ill : forall i nv anv h v a, erase h v = Some a -> af_set i anv a <> None -> f_set i nv h v <> MIll.
Proof.
  intros i nv anv h v a He Ha. unfold af_set in Ha. destruct a as [| | | |ys]; try congruence.
  destruct (erase_varr_inv h v ys He) as (r & a0 & sid & cap & items & -> & Es & El). cbn [f_set]. rewrite Es.
  destruct (nth_error ys i) as [old|] eqn:En; [|congruence].
  apply erase_list_Forall2 in El. destruct (F2_nth_back _ _ _ _ _ El En) as (sub & Hn & _). rewrite Hn. discriminate.
Qed.

Lemma store_live_region : forall h r a sid, store_live h r a sid = true -> r = RPers \/ r = RFrame.
Proof.
  intros h r a sid H. unfold store_live, objs in H. destruct r; auto; destruct a; discriminate.
Qed.

Lemma f_push_not_ill : forall nv anv h v a, erase h v = Some a -> af_push anv a <> None -> f_push nv h v <> MIll.
Proof.
  intros nv anv h v a He Ha. unfold af_push in Ha. destruct a as [| | | |ys]; try congruence.
  destruct (erase_varr_inv h v ys He) as (r & a0 & sid & cap & items & -> & Es & El). cbn [f_push]. rewrite Es.
  destruct (Nat.ltb (length items) cap); [discriminate|].
  destruct (fresh_sid h) as [h0 sid'].
  destruct (store_live_region _ _ _ _ Es) as [-> | ->]; cbn [region_alloc].
  - destruct (pers_alloc h0 (OVec sid')). discriminate.
  - destruct (frame_alloc h0 (OVec sid')). discriminate.
Qed.

Lemma f_pop_not_ill : forall h v a, erase h v = Some a -> af_pop a <> None -> f_pop h v <> MIll.
Proof.
  intros h v a He Ha. unfold af_pop in Ha. destruct a as [| | | |ys]; try congruence.
  destruct (erase_varr_inv h v ys He) as (r & a0 & sid & cap & items & -> & Es & El). cbn [f_pop]. rewrite Es.
  destruct items; discriminate.
Qed.

Lemma f_rev_not_ill : forall h v a, erase h v = Some a -> af_rev a <> None -> f_rev h v <> MIll.
Proof.
  intros h v a He Ha. unfold af_rev in Ha. destruct a as [| | | |ys]; try congruence.
  destruct (erase_varr_inv h v ys He) as (r & a0 & sid & cap & items & -> & Es & El). cbn [f_rev]. rewrite Es.
  discriminate.
Qed.

Lemma str_bytes_not_ill : forall h v b, erase h v = Some (VStr b) -> str_bytes h v <> MIll.
Proof.
  intros h v b He. destruct v as [x|bb| |r a len|r a len cap|r a sid cap items]; try discriminate.
  - cbn [str_bytes]. destruct (read_bytes h r a len); discriminate.
  - cbn [str_bytes]. destruct (read_bytes h r a len); discriminate.
  - rewrite erase_arr in He. destruct (store_live h r a sid); [|discriminate].
    destruct (erase_list h items); discriminate.
Qed.

Lemma some_neq_none {A} (x : option A) y : x = Some y -> x <> None.
Proof. congruence. Qed.

Lemma step_not_ill : forall o st ast ast', MemInv st -> Sim st ast ->
  astep ast o = Some ast' -> step cfg_repaired st o <> MIll.
Proof.
  intros o [h e out tmps ctl] [ae aout atmps actl] ast' Hinv [Se So St Sc] Ha.
  pose proof (inv_wf _ Hinv) as Hwf.
  cbn [m_heap m_env m_out m_tmps m_ctl a_env a_out a_tmps a_ctl] in *.
  pose proof (Forall2_len _ _ _ Se) as Hle. pose proof (Forall2_len _ _ _ St) as Hlt.
  destruct o; cbn [step astep m_heap m_env m_out m_tmps m_ctl a_env a_out a_tmps a_ctl c_alias c_promote_params c_stage cfg_repaired] in *;
    unfold scope, ascope in *.
  - discriminate.
  - unfold static_alloc. discriminate.
  - (* ORead *) pose proof (env_find_F2 _ x e ae Se) as Hf. destruct (env_find x e) as [v|].
    + destruct (clone_into false h v) as [[h1 v']|]; discriminate.
    + rewrite Hf in Ha. discriminate.
  - (* OInterp *) pose proof (env_find_F2 _ x e ae Se) as Hf. destruct (env_find x e) as [v|].
    + destruct (erase h v); [|discriminate]. unfold frame_alloc. discriminate.
    + rewrite Hf in Ha. discriminate.
  - (* OConcat *)
    destruct St as [|r ar ? ? Hr St]; [discriminate|]. destruct St as [|l al ? ? Hl St]; [destruct ar; discriminate|].
    destruct ar as [|br| | |]; try discriminate. destruct al as [|bl| | |]; try discriminate.
    pose proof (str_bytes_not_ill h l bl Hl) as Hn1. pose proof (str_bytes_not_ill h r br Hr) as Hn2.
    destruct (str_bytes h l) as [b1| |]; cbn [mbind]; [|congruence|discriminate].
    destruct (str_bytes h r) as [b2| |]; cbn [mbind]; [unfold frame_alloc; discriminate|congruence|discriminate].
  - (* OMkArr *) rewrite <- Hlt in Ha. destruct (Nat.leb n (length tmps)); [|discriminate].
    unfold fresh_sid, frame_alloc. discriminate.
  - (* OIndex *)
    destruct St as [|v av ? ? Hv St]; [discriminate|]. destruct av as [| | | |ys]; try discriminate.
    destruct (erase_varr_inv h v ys Hv) as (r & a0 & sid & cap & items & -> & Es & El). rewrite Es.
    destruct (nth_error ys i) as [y|] eqn:En; [|discriminate].
    apply erase_list_Forall2 in El. destruct (F2_nth_back _ _ _ _ _ El En) as (sub & Hn & _). rewrite Hn. discriminate.
  - (* ODrop *) destruct St; [discriminate|discriminate].
  - (* OPromote *) destruct St; [discriminate|]. destruct (promote h x) as [[? ?]|]; discriminate.
  - (* OMake *)
    destruct St as [|v av ? ? Hv St]; [discriminate|]. destruct Se as [|sc asc ? ? Hsc Se]; [discriminate|].
    destruct (scope_find x sc) as [old|] eqn:Ef.
    + destruct (overwrite h old v) as [[h1 v']|]; [|discriminate].
      destruct (scope_set_some x v' sc old Ef) as [sc' Hs]. rewrite Hs. discriminate.
    + destruct (promote h v) as [[? ?]|]; discriminate.
  - (* OAssign *)
    destruct St as [|v av ? ? Hv St]; [discriminate|].
    pose proof (env_find_F2 _ x e ae Se) as Hf. destruct (env_find x e) as [old|] eqn:Ef.
    + destruct (overwrite h old v) as [[h1 v']|]; [|discriminate].
      destruct (env_set_some x v' e old Ef) as [e' Hs]. rewrite Hs. discriminate.
    + rewrite Hf in Ha. discriminate.
  - (* OStoreIdx *)
    destruct St as [|v av ? ? Hv St]; [discriminate|].
    destruct (promote_gen v h av Hwf Hv) as (h1 & v1 & Hp & _ & Hext & _). rewrite Hp.
    pose proof (env_find_F2 _ x e ae Se) as Hf. destruct (env_find x e) as [root|] eqn:Ef; [|rewrite Hf in Ha; discriminate].
    destruct Hf as (aroot & Haf & Hroot). rewrite Haf in Ha.
    destruct (amodify_at (af_set i av) path aroot) as [[aroot' aold]|] eqn:Eam; [|discriminate].
    assert (Hroot1 : erase h1 root = Some aroot) by (eapply erase_hext; eauto using vall_any).
    pose proof (modify_at_not_ill _ _ (f_set i v1) (af_set i av) (f_set_not_ill i v1 av) path h1 root aroot Hroot1
                  (some_neq_none _ _ Eam)) as Hni.
    destruct (modify_at (f_set i v1) path h1 root) as [[[h2 root'] old]| |]; cbn [mbind]; [|congruence|discriminate].
    destruct (return_to_pool h2 old); [|discriminate].
    destruct (env_set_some x root' e root Ef) as [e' Hs]. rewrite Hs. discriminate.
  - (* OPush *)
    destruct St as [|v av ? ? Hv St]; [discriminate|].
    destruct (promote_gen v h av Hwf Hv) as (h1 & v1 & Hp & _ & Hext & _). rewrite Hp.
    pose proof (env_find_F2 _ x e ae Se) as Hf. destruct (env_find x e) as [root|] eqn:Ef; [|rewrite Hf in Ha; discriminate].
    destruct Hf as (aroot & Haf & Hroot). rewrite Haf in Ha.
    destruct (amodify_at (af_push av) path aroot) as [[aroot' aold]|] eqn:Eam; [|discriminate].
    assert (Hroot1 : erase h1 root = Some aroot) by (eapply erase_hext; eauto using vall_any).
    pose proof (modify_at_not_ill _ _ (f_push v1) (af_push av) (f_push_not_ill v1 av) path h1 root aroot Hroot1
                  (some_neq_none _ _ Eam)) as Hni.
    destruct (modify_at (f_push v1) path h1 root) as [[[h2 root'] old]| |]; cbn [mbind]; [|congruence|discriminate].
    destruct (env_set_some x root' e root Ef) as [e' Hs]. rewrite Hs. discriminate.
  - (* OPop *)
    pose proof (env_find_F2 _ x e ae Se) as Hf. destruct (env_find x e) as [root|] eqn:Ef; [|rewrite Hf in Ha; discriminate].
    destruct Hf as (aroot & Haf & Hroot). rewrite Haf in Ha.
    destruct (amodify_at af_pop path aroot) as [[aroot' aold]|] eqn:Eam; [|discriminate].
    pose proof (modify_at_not_ill _ _ f_pop af_pop f_pop_not_ill path h root aroot Hroot (some_neq_none _ _ Eam)) as Hni.
    destruct (modify_at f_pop path h root) as [[[h2 root'] old]| |]; cbn [mbind]; [|congruence|discriminate].
    destruct (env_set_some x root' e root Ef) as [e' Hs]. rewrite Hs. discriminate.
  - (* OShout *) destruct St; [discriminate|]. destruct (promote h x) as [[? ?]|]; discriminate.
  - (* OPushScope *) discriminate.
  - (* OPopScope *)
    destruct Se as [|sc asc e0 ae0 Hsc Se]; [discriminate|].
    unfold floor_of, afloor_of in *. cbn [m_ctl a_ctl] in *. rewrite (floor_sim _ _ _ Sc).
    rewrite (Forall2_len _ _ _ Se).
    destruct (Nat.leb match actl with [] => 0 | c :: _ => ac_floor c end (length ae0)); [|discriminate].
    destruct (return_all h (rev (map snd sc))); discriminate.
  - (* OCallBegin *) discriminate.
  - (* OCallBind *)
    destruct Sc as [|cr acr ? ? (Hl1 & Hl2 & Hl3) Sc]; [discriminate|].
    destruct Se as [|sc asc e0 ae0 Hsc Se]; [discriminate|].
    cbn [length] in *. rewrite Hl1, Hl2, Hlt. rewrite (Forall2_len _ _ _ Se).
    destruct (negb (ac_loop acr) && Nat.eqb (S (length ae0)) (ac_floor acr) && Nat.eqb (length params) (length atmps));
      [|discriminate].
    destruct (bind_args true h params (rev tmps) sc) as [[? ?]|]; discriminate.
  - (* OCallEnd *)
    destruct Sc as [|cr acr ? ? (Hl1 & Hl2 & Hl3) Sc]; [discriminate|].
    destruct Se as [|sc asc e0 ae0 Hsc Se]; [discriminate|].
    cbn [length] in *. rewrite Hl1, Hl2. rewrite (Forall2_len _ _ _ Se).
    destruct (negb (ac_loop acr) && Nat.eqb (S (length ae0)) (ac_floor acr)); [|discriminate].
    assert (Hrv : (match tmps with [] => Some MNull | [v] => Some v | _ => None end) <> None).
    { destruct St as [|? ? ? ? ? St]; [discriminate|]. destruct St; [discriminate|]. discriminate. }
    destruct (match tmps with [] => Some MNull | [v] => Some v | _ => None end) as [rv|]; [|congruence].
    destruct (return_all h (rev (map snd sc))); [|discriminate].
    destruct (relocate true h0 rv (c_mark cr)) as [[? ?]|]; discriminate.
  - (* OLoopIter *) discriminate.
  - (* OLoopIterEnd *)
    destruct Sc as [|cr acr ? ? (Hl1 & Hl2 & Hl3) Sc]; [discriminate|].
    destruct St; [|discriminate].
    rewrite Hl1, Hl2, Hle. destruct (ac_loop acr && Nat.eqb (length ae) (ac_floor acr)); discriminate.
  - (* OLoopExit *)
    destruct Sc as [|cr acr ? ? (Hl1 & Hl2 & Hl3) Sc]; [discriminate|].
    rewrite Hl1, Hl2, Hle. destruct (ac_loop acr && Nat.eqb (length ae) (ac_floor acr)); discriminate.
  - (* OReverse *)
    pose proof (env_find_F2 _ x e ae Se) as Hf. destruct (env_find x e) as [root|] eqn:Ef; [|rewrite Hf in Ha; discriminate].
    destruct Hf as (aroot & Haf & Hroot). rewrite Haf in Ha.
    destruct (amodify_at af_rev path aroot) as [[aroot' aold]|] eqn:Eam; [|discriminate].
    pose proof (modify_at_not_ill _ _ f_rev af_rev f_rev_not_ill path h root aroot Hroot (some_neq_none _ _ Eam)) as Hni.
    destruct (modify_at f_rev path h root) as [[[h2 root'] old]| |]; cbn [mbind]; [|congruence|discriminate].
    destruct (env_set_some x root' e root Ef) as [e' Hs]. rewrite Hs. discriminate.
Qed.

(* ================================================================== *)
(* E. composition                                                      *)

Lemma run_total : forall ops st ast ast', MemInv st -> Sim st ast -> arun ast ops = Some ast' ->
  exists st', run cfg_repaired st ops = MOk st' /\ MemInv st' /\ Sim st' ast'.
Proof.
  induction ops as [|o ops IH]; intros st ast ast' Hinv Hsim Ha; cbn [run arun] in *.
  - inversion Ha; subst. exists st. auto.
  - destruct (astep ast o) as [ast1|] eqn:Eo; [|discriminate].
    destruct (step_ok o st ast Hinv Hsim) as [Hnf Hok].
    pose proof (step_not_ill o st ast ast1 Hinv Hsim Eo) as Hni.
    destruct (step cfg_repaired st o) as [st1| |] eqn:Es; [|congruence|congruence].
    destruct (Hok st1 eq_refl) as (ast1' & Eo' & Hinv1 & Hsim1).
    assert (ast1' = ast1) by congruence. subst ast1'.
    eapply IH; eauto.
Qed.

(* the evaluator only issues sequences the machine accepts; no read of dead storage occurs *)
Lemma memeval_ops_wellformed_lemma : forall p eps fuel prog,
  exists st, run cfg_repaired init_state (eval_ops p eps fuel prog) = MOk st /\ MemInv st.
Proof.
  intros. destruct (twin_run p eps fuel prog) as (ast & Ha & _).
  destruct (run_total _ _ _ _ init_inv init_sim Ha) as (st & Hr & Hi & _). exists st. auto.
Qed.

Lemma memeval_observe_lemma : forall p eps fuel prog,
  observe cfg_repaired (eval_ops p eps fuel prog) = VOk (fst (run_impl p eps fuel prog)).
Proof.
  intros. destruct (twin_run p eps fuel prog) as (ast & Ha & Hout).
  destruct (run_total _ _ _ _ init_inv init_sim Ha) as (st & Hr & Hi & Hs).
  unfold observe. rewrite Hr. rewrite (all_some_Forall2 _ _ _ (sim_out _ _ _ Hs)), Hout. reflexivity.
Qed.

Lemma memeval_erases_to_eval_lemma : forall p eps fuel prog,
  run_mem cfg_repaired p eps fuel prog = Some (run_impl p eps fuel prog).
Proof.
  intros. unfold run_mem. pose proof (memeval_observe_lemma p eps fuel prog) as Ho.
  pose proof (irun_mirror p eps fuel prog) as Hm. unfold eval_ops in Ho.
  destruct (irun p eps fuel prog) as [ops [out r]]. cbn [fst snd] in *. rewrite Ho, <- Hm. reflexivity.
Qed.

Require Import NS.theories.GenMem NS.theories.MemSrc.

Lemma memeval_erases_to_eval_source_lemma : forall p eps fuel prog,
  run_mem cfg_source p eps fuel prog = Some (run_impl p eps fuel prog).
Proof. intros. rewrite (proj2 source_discipline_lemma). apply memeval_erases_to_eval_lemma. Qed.

(* the instrumented evaluator is Lang's evaluator: same printed values, same ending *)
Lemma memeval_mirror_lemma : forall p eps fuel prog,
  (fst (snd (irun p eps fuel prog)), ending_of_res (snd (snd (irun p eps fuel prog)))) = run_impl p eps fuel prog.
Proof. exact irun_mirror. Qed.

Lemma memeval_twin_lemma : forall p eps fuel prog,
  aobserve (eval_ops p eps fuel prog) = Some (fst (run_impl p eps fuel prog)).
Proof.
  intros. destruct (twin_run p eps fuel prog) as (ast & Ha & Hout). unfold aobserve. rewrite Ha, Hout. reflexivity.
Qed.
