(* MemProofs.v — proofs about theories/Mem.v (C02). *)
From Coq Require Import ZArith List Bool Arith Lia Permutation.
Require Import NS.theories.Generated NS.theories.Pool NS.theories.F64 NS.theories.Lang NS.theories.Mem
               NS.theories.MemInv.
Import ListNotations.
Local Open Scope nat_scope.

(* ------------------------------------------------------------------ *)
(* lists *)

Lemma nth_error_firstn_lt {A} : forall (l : list A) m a, a < m -> nth_error (firstn m l) a = nth_error l a.
Proof.
  induction l as [|x l IH]; intros m a Hlt.
  - rewrite firstn_nil. reflexivity.
  - destruct m as [|m]; [lia|]. destruct a as [|a]; cbn [firstn nth_error]; [reflexivity|].
    apply IH. lia.
Qed.

Lemma nth_error_firstn_ge {A} : forall (l : list A) m a, m <= a -> nth_error (firstn m l) a = None.
Proof.
  intros l m a Hge. apply nth_error_None. rewrite firstn_length. lia.
Qed.

Lemma nth_error_snoc_old {A} : forall (l : list A) x a o, nth_error l a = Some o -> nth_error (l ++ [x]) a = Some o.
Proof.
  intros l x a o H. rewrite nth_error_app1; [exact H|]. apply nth_error_Some. congruence.
Qed.

Lemma nth_error_snoc_new {A} : forall (l : list A) x, nth_error (l ++ [x]) (length l) = Some x.
Proof.
  intros l x. rewrite nth_error_app2 by lia. rewrite Nat.sub_diag. reflexivity.
Qed.

Lemma nth_error_upd_same {A} : forall (l : list A) i x, i < length l -> nth_error (upd_nth i x l) i = Some x.
Proof.
  induction l as [|y l IH]; intros i x Hlt; cbn [length] in Hlt; [lia|].
  destruct i as [|i]; cbn [upd_nth nth_error]; [reflexivity|]. apply IH. lia.
Qed.

Lemma nth_error_upd_other {A} : forall (l : list A) i j x, i <> j -> nth_error (upd_nth i x l) j = nth_error l j.
Proof.
  induction l as [|y l IH]; intros i j x Hne.
  - destruct i; reflexivity.
  - destruct i as [|i]; destruct j as [|j]; cbn [upd_nth nth_error]; try reflexivity; try lia.
    apply IH. lia.
Qed.

Lemma upd_nth_length {A} : forall (l : list A) i x, length (upd_nth i x l) = length l.
Proof.
  induction l as [|y l IH]; intros i x; destruct i; cbn [upd_nth length]; auto.
Qed.

(* ------------------------------------------------------------------ *)
(* induction on values with the nested list *)

Section MValueInd.
  Variable P : mvalue -> Prop.
  Hypothesis HNum : forall x, P (MNum x).
  Hypothesis HBool : forall b, P (MBool b).
  Hypothesis HNull : P MNull.
  Hypothesis HBor : forall r a len, P (MBorrowed r a len).
  Hypothesis HOwn : forall r a len cap, P (MOwned r a len cap).
  Hypothesis HArr : forall r a sid cap items, Forall P items -> P (MArr r a sid cap items).

  Fixpoint mvalue_ind' (v : mvalue) : P v :=
    match v with
    | MNum x => HNum x
    | MBool b => HBool b
    | MNull => HNull
    | MBorrowed r a len => HBor r a len
    | MOwned r a len cap => HOwn r a len cap
    | MArr r a sid cap items =>
        HArr r a sid cap items
          ((fix go (l : list mvalue) : Forall P l :=
              match l with
              | [] => Forall_nil P
              | x :: t => Forall_cons x (mvalue_ind' x) (go t)
              end) items)
    end.
End MValueInd.

Lemma erase_arr : forall h r a sid cap items,
  erase h (MArr r a sid cap items) =
  if store_live h r a sid then option_map VArr (erase_list h items) else None.
Proof. reflexivity. Qed.

Lemma erase_list_cons : forall h x t,
  erase_list h (x :: t) =
  match erase h x, erase_list h t with Some y, Some ys => Some (y :: ys) | _, _ => None end.
Proof. reflexivity. Qed.

Lemma refs_arr : forall r a sid cap items, refs (MArr r a sid cap items) = RefS r a sid :: refs_list items.
Proof. reflexivity. Qed.

Lemma refs_list_cons : forall x t, refs_list (x :: t) = refs x ++ refs_list t.
Proof. reflexivity. Qed.

Lemma refs_list_flat_map : forall l, refs_list l = flat_map refs l.
Proof. induction l as [|x t IH]; [reflexivity|]. rewrite refs_list_cons, IH. reflexivity. Qed.

Lemma refs_list_app : forall l1 l2, refs_list (l1 ++ l2) = refs_list l1 ++ refs_list l2.
Proof. intros. rewrite !refs_list_flat_map. apply flat_map_app. Qed.

(* erase_list as a Forall2 *)
Lemma erase_list_Forall2 : forall h l vs,
  erase_list h l = Some vs <-> Forall2 (fun v a => erase h v = Some a) l vs.
Proof.
  induction l as [|x t IH]; intros vs.
  - cbn. split.
    + intros H. inversion H. constructor.
    + intros H. inversion H. reflexivity.
  - rewrite erase_list_cons. split.
    + intros H. destruct (erase h x) as [y|] eqn:Ex; [|discriminate].
      destruct (erase_list h t) as [ys|] eqn:Et; [|discriminate].
      inversion H; subst. constructor; [exact Ex|]. apply IH. reflexivity.
    + intros H. inversion H as [|? y ? ys Hx Ht]; subst. rewrite Hx.
      apply IH in Ht. rewrite Ht. reflexivity.
Qed.

(* ------------------------------------------------------------------ *)
(* heap extension restricted to a class of references *)

Lemma hext_refl : forall P h, hext P h h.
Proof. intros P h rf p _ H. exact H. Qed.

Lemma hext_trans : forall P h1 h2 h3, hext P h1 h2 -> hext P h2 h3 -> hext P h1 h3.
Proof. intros P h1 h2 h3 H12 H23 rf p HP H. apply H23; [exact HP|]. apply H12; assumption. Qed.

Lemma hext_weaken : forall (P Q : ref -> Prop) h h', (forall rf, Q rf -> P rf) -> hext P h h' -> hext Q h h'.
Proof. intros P Q h h' HPQ H rf p HQ Hr. apply H; auto. Qed.

Lemma vall_arr : forall P r a sid cap items,
  vall P (MArr r a sid cap items) <-> P (RefS r a sid) /\ Forall (vall P) items.
Proof.
  intros P r a sid cap items. unfold vall. rewrite refs_arr. split.
  - intros H. inversion H as [|? ? H1 H2]; subst. split; [exact H1|].
    clear H H1. induction items as [|x t IH]; [constructor|].
    rewrite refs_list_cons in H2. apply Forall_app in H2. destruct H2 as [Hx Ht].
    constructor; [exact Hx|]. apply IH. exact Ht.
  - intros [H1 H2]. constructor; [exact H1|].
    induction H2 as [|x t Hx Ht IH]; [constructor|].
    rewrite refs_list_cons. apply Forall_app. split; assumption.
Qed.

Lemma store_live_rd : forall h r a sid, store_live h r a sid = true <-> rd h (RefS r a sid) = Some [].
Proof.
  intros. cbn [rd]. destruct (store_live h r a sid); split; intros H; try reflexivity; try discriminate.
Qed.

Lemma erase_hext : forall P h h', hext P h h' ->
  forall v x, vall P v -> erase h v = Some x -> erase h' v = Some x.
Proof.
  intros P h h' Hext v. induction v as [x|b| |r a len|r a len cap|r a sid cap items IH] using mvalue_ind';
    intros y Hall He; try exact He.
  - cbn [erase] in *. destruct (read_bytes h r a len) as [b|] eqn:Er; [|discriminate].
    inversion Hall as [|? ? H1 _]; subst.
    assert (Hr : rd h' (RefB false r a len) = Some b) by (apply Hext; [exact H1|exact Er]).
    cbn [rd] in Hr. rewrite Hr. exact He.
  - cbn [erase] in *. destruct (read_bytes h r a len) as [b|] eqn:Er; [|discriminate].
    inversion Hall as [|? ? H1 _]; subst.
    assert (Hr : rd h' (RefB true r a len) = Some b) by (apply Hext; [exact H1|exact Er]).
    cbn [rd] in Hr. rewrite Hr. exact He.
  - rewrite erase_arr in *. apply vall_arr in Hall. destruct Hall as [HS Hitems].
    destruct (store_live h r a sid) eqn:Es; [|discriminate].
    apply store_live_rd in Es. apply (Hext _ _ HS) in Es. apply store_live_rd in Es. rewrite Es.
    destruct (erase_list h items) as [ys|] eqn:El; [|discriminate].
    assert (El' : erase_list h' items = Some ys).
    { apply erase_list_Forall2. apply erase_list_Forall2 in El.
      clear He Es HS. revert ys El. induction items as [|x t IHt]; intros ys El.
      - inversion El. constructor.
      - inversion El as [|? y0 ? ys0 Hx Ht]; subst.
        inversion IH as [|? ? IHx IHrest]; subst.
        inversion Hitems as [|? ? Hx1 Ht1]; subst.
        constructor; [apply IHx; assumption|]. apply IHt; assumption. }
    rewrite El'. exact He.
Qed.

Lemma erase_list_hext : forall P h h', hext P h h' ->
  forall l xs, Forall (vall P) l -> erase_list h l = Some xs -> erase_list h' l = Some xs.
Proof.
  intros P h h' Hext l xs Hall He. apply erase_list_Forall2. apply erase_list_Forall2 in He.
  revert Hall. induction He as [|v a l xs Hv Hl IH]; intros Hall; [constructor|].
  inversion Hall; subst. constructor; [eapply erase_hext; eauto|]. apply IH. assumption.
Qed.

(* every reference of a value that erases is readable *)
Lemma erase_refs_live : forall h v x, erase h v = Some x -> Forall (fun rf => rd h rf <> None) (refs v).
Proof.
  intros h v. induction v as [x|b| |r a len|r a len cap|r a sid cap items IH] using mvalue_ind';
    intros y He; try (constructor; fail).
  - cbn [erase] in He. constructor; [|constructor]. cbn [rd].
    destruct (read_bytes h r a len); [discriminate|discriminate].
  - cbn [erase] in He. constructor; [|constructor]. cbn [rd].
    destruct (read_bytes h r a len); [discriminate|discriminate].
  - rewrite erase_arr in He. destruct (store_live h r a sid) eqn:Es; [|discriminate].
    rewrite refs_arr. constructor.
    + cbn [rd]. rewrite Es. discriminate.
    + destruct (erase_list h items) as [ys|] eqn:El; [|discriminate].
      apply erase_list_Forall2 in El. clear He Es.
      revert ys El. induction items as [|x t IHt]; intros ys El; [constructor|].
      inversion El as [|? y0 ? ys0 Hx Ht]; subst. inversion IH as [|? ? IHx IHrest]; subst.
      rewrite refs_list_cons. apply Forall_app. split; [eapply IHx; eauto|eapply IHt; eauto].
Qed.

(* ------------------------------------------------------------------ *)
(* predicates on references *)

Lemma ids_of_app : forall l1 l2, ids_of (l1 ++ l2) = ids_of l1 ++ ids_of l2.
Proof.
  induction l1 as [|rf t IH]; intros l2; [reflexivity|].
  destruct rf as [o r a len|r a sid]; [destruct r|]; cbn [ids_of app]; rewrite ?IH; reflexivity.
Qed.

Lemma In_ids_of : forall l i, In i (ids_of l) <-> exists o len, In (RefB o RPool i len) l.
Proof.
  induction l as [|rf t IH]; intros i.
  - cbn. split; [tauto|]. intros (o & len & H). exact H.
  - split.
    + intros H. destruct rf as [o r a len|r a sid]; [destruct r|]; cbn [ids_of] in H;
        try (apply IH in H; destruct H as (o' & len' & H); exists o', len'; right; exact H).
      destruct H as [H|H].
      * subst. exists o, len. left. reflexivity.
      * apply IH in H. destruct H as (o' & len' & H). exists o', len'. right. exact H.
    + intros (o & len & [H|H]).
      * subst. cbn [ids_of]. left. reflexivity.
      * assert (Hi : In i (ids_of t)) by (apply IH; eauto).
        destruct rf as [o' r a len'|r a sid]; [destruct r|]; cbn [ids_of]; auto. right. exact Hi.
Qed.

Lemma avoid_of_ids : forall l bad, (forall i, In i (ids_of l) -> ~ In i bad) -> Forall (avoid bad) l.
Proof.
  intros l bad H. apply Forall_forall. intros rf Hin.
  destruct rf as [o r a len|r a sid]; [destruct r|]; cbn [avoid]; auto.
  apply H. apply In_ids_of. eauto.
Qed.

Lemma ids_live : forall h v x i, erase h v = Some x -> In i (ids v) -> slot_live h i.
Proof.
  intros h v x i He Hin. apply erase_refs_live in He.
  apply In_ids_of in Hin. destruct Hin as (o & len & Hin).
  rewrite Forall_forall in He. specialize (He _ Hin). cbn [rd read_bytes] in He.
  destruct (nth_error (h_slots h) i) as [[c [b|]]|] eqn:E; try congruence.
  exists c, b. exact E.
Qed.

(* ------------------------------------------------------------------ *)
(* rd under the heap updates *)

Lemma hext_frame_alloc : forall h o, hext anyref h (fst (frame_alloc h o)).
Proof.
  intros h o rf p _ H. destruct rf as [ow r a len|r a sid]; destruct r; cbn in *; try exact H.
  - destruct (nth_error (h_frame h) a) as [ob|] eqn:E; [|discriminate].
    rewrite (nth_error_snoc_old _ _ _ _ E). exact H.
  - unfold store_live in *. cbn in *.
    destruct (nth_error (h_frame h) a) as [ob|] eqn:E; [|discriminate].
    rewrite (nth_error_snoc_old _ _ _ _ E). exact H.
Qed.

Lemma hext_pers_alloc : forall h o, hext anyref h (fst (pers_alloc h o)).
Proof.
  intros h o rf p _ H. destruct rf as [ow r a len|r a sid]; destruct r; cbn in *; try exact H.
  - destruct (nth_error (h_pers h) a) as [ob|] eqn:E; [|discriminate].
    rewrite (nth_error_snoc_old _ _ _ _ E). exact H.
  - unfold store_live in *. cbn in *.
    destruct (nth_error (h_pers h) a) as [ob|] eqn:E; [|discriminate].
    rewrite (nth_error_snoc_old _ _ _ _ E). exact H.
Qed.

Lemma hext_static_alloc : forall h b, hext anyref h (fst (static_alloc h b)).
Proof.
  intros h b rf p _ H. destruct rf as [ow r a len|r a sid]; destruct r; cbn in *; try exact H.
  destruct (nth_error (h_static h) a) as [ob|] eqn:E; [|discriminate].
  rewrite (nth_error_snoc_old _ _ _ _ E). exact H.
Qed.

Lemma rd_fresh_sid : forall h rf, rd (fst (fresh_sid h)) rf = rd h rf.
Proof. intros h rf. destruct rf as [ow r a len|r a sid]; destruct r; reflexivity. Qed.

Lemma hext_fresh_sid : forall h, hext anyref h (fst (fresh_sid h)).
Proof. intros h rf p _ H. rewrite rd_fresh_sid. exact H. Qed.

Lemma hext_frame_reset : forall h m, hext (below m) h (frame_reset h m).
Proof.
  intros h m rf p HP H. destruct rf as [ow r a len|r a sid]; destruct r; cbn in *; try exact H.
  - rewrite nth_error_firstn_lt by (apply HP; reflexivity). exact H.
  - unfold store_live in *. cbn in *. rewrite nth_error_firstn_lt by (apply HP; reflexivity). exact H.
Qed.

Lemma rd_set_frame_nf : forall h f rf, nf rf -> rd (set_frame h f) rf = rd h rf.
Proof.
  intros h f rf Hn. destruct rf as [ow r a len|r a sid]; destruct r; try reflexivity;
    exfalso; apply Hn; reflexivity.
Qed.

(* values without frame references do not depend on the frame at all *)
Lemma hext_set_frame_nf : forall h f, hext nf h (set_frame h f).
Proof. intros h f rf p Hn H. rewrite rd_set_frame_nf; assumption. Qed.

Lemma frame_len_alloc : forall h o, length (h_frame (fst (frame_alloc h o))) = S (length (h_frame h)).
Proof. intros. cbn. rewrite app_length. cbn. lia. Qed.

(* a live frame reference lies below the watermark *)
Lemma live_below : forall h rf, rd h rf <> None -> below (length (h_frame h)) rf.
Proof.
  intros h rf H Hr. destruct rf as [ow r a len|r a sid]; cbn in Hr; subst; cbn in *.
  - apply nth_error_Some. intros E. rewrite E in H. congruence.
  - unfold store_live in H. cbn in H. apply nth_error_Some. intros E. rewrite E in H. congruence.
Qed.

Lemma erase_below : forall h v x, erase h v = Some x -> vall (below (length (h_frame h))) v.
Proof.
  intros h v x He. apply erase_refs_live in He. unfold vall.
  eapply Forall_impl; [|exact He]. intros rf H. apply live_below. exact H.
Qed.

Lemma below_mono : forall m m' rf, m <= m' -> below m rf -> below m' rf.
Proof. intros m m' rf Hle H Hr. specialize (H Hr). lia. Qed.

Lemma nf_below : forall m rf, nf rf -> below m rf.
Proof. intros m rf Hn Hr. exfalso. apply Hn. exact Hr. Qed.

(* ------------------------------------------------------------------ *)
(* the pool *)

Lemma empty_heap_wf : HeapWF empty_heap.
Proof. split; [intros i []|constructor]. Qed.

Lemma take_free_perm : forall slots c free i free',
  take_free slots c free = Some (i, free') -> Permutation free (i :: free').
Proof.
  intros slots c. induction free as [|j t IH]; intros i free' H; cbn [take_free] in H; [discriminate|].
  destruct (slot_has_class slots c j).
  - inversion H; subst. apply Permutation_refl.
  - destruct (take_free slots c t) as [[k t']|] eqn:E; [|discriminate]. inversion H; subst.
    specialize (IH _ _ eq_refl). eapply perm_trans; [apply perm_skip; exact IH|]. apply perm_swap.
Qed.

Lemma heapwf_frame : forall h f, HeapWF h -> HeapWF (set_frame h f).
Proof. intros h f [H1 H2]. split; assumption. Qed.
Lemma heapwf_pers : forall h f, HeapWF h -> HeapWF (set_pers h f).
Proof. intros h f [H1 H2]. split; assumption. Qed.
Lemma heapwf_static : forall h f, HeapWF h -> HeapWF (set_static h f).
Proof. intros h f [H1 H2]. split; assumption. Qed.
Lemma heapwf_fresh_sid : forall h, HeapWF h -> HeapWF (fst (fresh_sid h)).
Proof. intros h [H1 H2]. split; assumption. Qed.

Lemma check_len_self : forall b, check_len (length b) b = Some b.
Proof. intros b. unfold check_len. rewrite Nat.eqb_refl. reflexivity. Qed.

Lemma alloc_str_spec : forall h b h' v, HeapWF h -> alloc_str h b = (h', v) ->
  HeapWF h' /\ hext anyref h h' /\ erase h' v = Some (VStr b) /\
  h_frame h' = h_frame h /\ vall nf v /\ vall bsr v /\ NoDup (ids v) /\
  (forall i, In i (ids v) -> ~ slot_live h i).
Proof.
  intros h b h' v Hwf H. unfold alloc_str in H.
  assert (Hfallback : forall h1 v1,
    (let '(h0, a) := pers_alloc h (OBytes b) in (h0, MOwned RPers a (length b) (length b))) = (h1, v1) ->
    HeapWF h1 /\ hext anyref h h1 /\ erase h1 v1 = Some (VStr b) /\
    h_frame h1 = h_frame h /\ vall nf v1 /\ vall bsr v1 /\ NoDup (ids v1) /\
    (forall i, In i (ids v1) -> ~ slot_live h i)).
  { intros h1 v1 E. cbn in E. inversion E; subst. refine (conj _ (conj _ (conj _ (conj _ (conj _ (conj _ (conj _ _))))))).
    - apply heapwf_pers. exact Hwf.
    - apply (hext_pers_alloc h (OBytes b)).
    - cbn. rewrite nth_error_snoc_new. rewrite check_len_self. reflexivity.
    - reflexivity.
    - constructor; [|constructor]. cbn. discriminate.
    - constructor; [|constructor]. cbn. exact I.
    - constructor.
    - intros i []. }
  destruct (size_class (Z.of_nat (length b))) as [c|]; [|apply Hfallback; exact H].
  destruct (take_free (h_slots h) c (h_free h)) as [[i free']|] eqn:Et.
  - inversion H; subst. clear H Hfallback.
    pose proof (take_free_perm _ _ _ _ _ Et) as Hperm.
    destruct Hwf as [Hpoison Hnodup].
    assert (Hi : In i (h_free h)) by (eapply Permutation_in; [apply Permutation_sym; exact Hperm|left; reflexivity]).
    destruct (Hpoison _ Hi) as [ci Hsi].
    assert (Hlt : i < length (h_slots h)) by (apply nth_error_Some; congruence).
    assert (Hnd' : NoDup (i :: free')) by (eapply Permutation_NoDup; eauto).
    refine (conj _ (conj _ (conj _ (conj _ (conj _ (conj _ (conj _ _))))))).
    + split; cbn.
      * intros j Hj. assert (j <> i) by (inversion Hnd'; subst; intros ->; contradiction).
        rewrite nth_error_upd_other by congruence. apply Hpoison.
        eapply Permutation_in; [apply Permutation_sym; exact Hperm|right; exact Hj].
      * inversion Hnd'; assumption.
    + intros rf p _ Hr. destruct rf as [ow r a len|r a sid]; destruct r; cbn in *; try exact Hr.
      destruct (Nat.eq_dec a i) as [->|Hne].
      * rewrite Hsi in Hr. discriminate.
      * rewrite nth_error_upd_other by congruence. exact Hr.
    + cbn. rewrite nth_error_upd_same by exact Hlt. rewrite check_len_self. reflexivity.
    + reflexivity.
    + constructor; [|constructor]. cbn. discriminate.
    + constructor; [|constructor]. exact I.
    + cbn. constructor; [intros []|constructor].
    + cbn. intros j [<-|[]] (c' & b' & Hl). rewrite Hsi in Hl. discriminate.
  - destruct (Z.ltb (count_class (h_slots h) c) (class_cap c)); [|apply Hfallback; exact H].
    inversion H; subst. clear H Hfallback. destruct Hwf as [Hpoison Hnodup].
    refine (conj _ (conj _ (conj _ (conj _ (conj _ (conj _ (conj _ _))))))).
    + split; cbn; [|exact Hnodup]. intros j Hj. destruct (Hpoison _ Hj) as [cj Hsj].
      exists cj. apply nth_error_snoc_old. exact Hsj.
    + intros rf p _ Hr. destruct rf as [ow r a len|r a sid]; destruct r; cbn in *; try exact Hr.
      destruct (nth_error (h_slots h) a) as [s|] eqn:E; [|discriminate].
      rewrite (nth_error_snoc_old _ _ _ _ E). exact Hr.
    + cbn. rewrite nth_error_snoc_new. rewrite check_len_self. reflexivity.
    + reflexivity.
    + constructor; [|constructor]. cbn. discriminate.
    + constructor; [|constructor]. exact I.
    + cbn. constructor; [intros []|constructor].
    + cbn. intros j [<-|[]] (c' & b' & Hl).
      assert (length (h_slots h) < length (h_slots h)) by (apply nth_error_Some; congruence). lia.
Qed.

Lemma return_to_pool_spec : forall h v h', HeapWF h -> return_to_pool h v = Some h' ->
  HeapWF h' /\ hext (avoid (ids v)) h h' /\ same_bump h h'.
Proof.
  intros h v h' Hwf H.
  assert (Hsame : h' = h -> HeapWF h' /\ hext (avoid (ids v)) h h' /\ same_bump h h').
  { intros ->. split; [exact Hwf|]. split; [apply hext_refl|]. repeat split. }
  destruct v as [x|b| |r a len|r a len cap|r a sid cap items]; cbn [return_to_pool] in H;
    try (inversion H; subst; apply Hsame; reflexivity).
  destruct r; try (inversion H; subst; apply Hsame; reflexivity).
  destruct (nth_error (h_slots h) a) as [[c cl]|] eqn:Es; [|inversion H; subst; apply Hsame; reflexivity].
  destruct (match size_class (Z.of_nat cap) with Some c' => Z.eqb c' c | None => false end);
    [|inversion H; subst; apply Hsame; reflexivity].
  destruct cl as [b|]; [|discriminate]. inversion H; subst. clear H Hsame.
  destruct Hwf as [Hpoison Hnodup].
  assert (Hlt : a < length (h_slots h)) by (apply nth_error_Some; congruence).
  split; [|split].
  - split; cbn.
    + intros j [<-|Hj].
      * exists c. apply nth_error_upd_same. exact Hlt.
      * destruct (Nat.eq_dec a j) as [<-|Hne]; [exists c; apply nth_error_upd_same; exact Hlt|].
        rewrite nth_error_upd_other by exact Hne. apply Hpoison. exact Hj.
    + constructor; [|exact Hnodup]. intros Hin. destruct (Hpoison _ Hin) as [c' Hc']. congruence.
  - intros rf p HP Hr. destruct rf as [ow r a' len'|r a' sid]; destruct r; cbn in *; try exact Hr.
    assert (a' <> a) by (intros ->; apply HP; left; reflexivity).
    rewrite nth_error_upd_other by congruence. exact Hr.
  - repeat split.
Qed.

Lemma return_to_pool_live : forall h v x, erase h v = Some x -> return_to_pool h v <> None.
Proof.
  intros h v x He. destruct v as [y|b| |r a len|r a len cap|r a sid cap items]; cbn [return_to_pool]; try discriminate.
  destruct r; try discriminate.
  cbn [erase read_bytes] in He.
  destruct (nth_error (h_slots h) a) as [[c [b|]]|]; try discriminate.
  destruct (match size_class (Z.of_nat cap) with Some c' => Z.eqb c' c | None => false end); discriminate.
Qed.

(* ------------------------------------------------------------------ *)
(* NoDup helpers *)

Lemma nodup_app_intro {A} : forall (l1 l2 : list A),
  NoDup l1 -> NoDup l2 -> (forall i, In i l1 -> In i l2 -> False) -> NoDup (l1 ++ l2).
Proof.
  induction l1 as [|x t IH]; intros l2 H1 H2 Hd; [exact H2|].
  inversion H1; subst. cbn. constructor.
  - intros Hin. apply in_app_or in Hin. destruct Hin as [Hin|Hin]; [contradiction|].
    apply (Hd x); [left; reflexivity|exact Hin].
  - apply IH; [assumption|assumption|]. intros i Hi1 Hi2. apply (Hd i); [right; exact Hi1|exact Hi2].
Qed.

Lemma nodup_app_elim {A} : forall (l1 l2 : list A),
  NoDup (l1 ++ l2) -> NoDup l1 /\ NoDup l2 /\ (forall i, In i l1 -> In i l2 -> False).
Proof.
  induction l1 as [|x t IH]; intros l2 H.
  - split; [constructor|]. split; [exact H|]. intros i [].
  - cbn in H. inversion H as [|? ? Hx Ht]; subst. destruct (IH _ Ht) as (H1 & H2 & Hd).
    split; [|split].
    + constructor; [|exact H1]. intros Hin. apply Hx. apply in_or_app. left. exact Hin.
    + exact H2.
    + intros i [<-|Hi] Hi2.
      * apply Hx. apply in_or_app. right. exact Hi2.
      * apply (Hd i); assumption.
Qed.

Lemma slot_live_mono : forall h h' i, hext anyref h h' -> slot_live h i -> slot_live h' i.
Proof.
  intros h h' i Hext (c & b & Hs).
  assert (Hr : rd h (RefB true RPool i (length b)) = Some b).
  { cbn. rewrite Hs. apply check_len_self. }
  apply (Hext _ _ I) in Hr. cbn in Hr.
  destruct (nth_error (h_slots h') i) as [[c' [b'|]]|] eqn:E; try discriminate. exists c', b'. exact E.
Qed.

Lemma ids_arr : forall r a sid cap items, ids (MArr r a sid cap items) = ids_of (refs_list items).
Proof. reflexivity. Qed.

Lemma ids_list_live : forall h l xs i,
  erase_list h l = Some xs -> In i (ids_of (refs_list l)) -> slot_live h i.
Proof.
  intros h l xs i He. apply erase_list_Forall2 in He. induction He as [|v a l xs Hv Hl IH]; intros Hin.
  - destruct Hin.
  - rewrite refs_list_cons, ids_of_app in Hin. apply in_app_or in Hin. destruct Hin as [Hin|Hin].
    + eapply ids_live; eauto.
    + apply IH. exact Hin.
Qed.

Lemma vall_any : forall v, vall anyref v.
Proof. intros v. apply Forall_forall. intros; exact I. Qed.

Lemma Forall_vall_any : forall l, Forall (vall anyref) l.
Proof. intros l. apply Forall_forall. intros; apply vall_any. Qed.

(* ------------------------------------------------------------------ *)
(* promote *)

Definition promote_post (h : heap) (v : mvalue) (x : value) (h' : heap) (v' : mvalue) : Prop :=
  HeapWF h' /\ hext anyref h h' /\ erase h' v' = Some x /\ vall nf v' /\ vall bsr v' /\
  NoDup (ids v') /\ (forall i, In i (ids v') -> In i (ids v) \/ ~ slot_live h i) /\
  h_frame h' = h_frame h.

Definition promote_ok (v : mvalue) : Prop :=
  forall h x, HeapWF h -> erase h v = Some x -> vall bsr v -> NoDup (ids v) ->
  exists h' v', promote h v = Some (h', v') /\ promote_post h v x h' v'.

Lemma promote_list_ok : forall l, Forall promote_ok l ->
  forall h xs, HeapWF h -> erase_list h l = Some xs -> Forall (vall bsr) l -> NoDup (ids_of (refs_list l)) ->
  exists h' l', map_heap promote h l = Some (h', l') /\
    HeapWF h' /\ hext anyref h h' /\ erase_list h' l' = Some xs /\ Forall (vall nf) l' /\
    Forall (vall bsr) l' /\ NoDup (ids_of (refs_list l')) /\
    (forall i, In i (ids_of (refs_list l')) -> In i (ids_of (refs_list l)) \/ ~ slot_live h i) /\
    h_frame h' = h_frame h /\ length l' = length l.
Proof.
  induction l as [|v t IH]; intros HF h xs Hwf He Hbs Hnd.
  - exists h, []. cbn in *. inversion He; subst.
    refine (conj eq_refl (conj Hwf (conj (hext_refl _ _) (conj eq_refl (conj _ (conj _ (conj _ (conj _ (conj eq_refl eq_refl))))))))).
    + constructor.
    + constructor.
    + constructor.
    + intros i [].
  - inversion HF as [|? ? Hv Ht]; subst. rewrite erase_list_cons in He.
    destruct (erase h v) as [y|] eqn:Ey; [|discriminate].
    destruct (erase_list h t) as [ys|] eqn:Eys; [|discriminate]. inversion He; subst. clear He.
    inversion Hbs as [|? ? Hbv Hbt]; subst.
    rewrite refs_list_cons, ids_of_app in Hnd. destruct (nodup_app_elim _ _ Hnd) as (Hndv & Hndt & Hdisj).
    destruct (Hv h y Hwf Ey Hbv Hndv) as (h1 & v' & Hp & Hwf1 & Hext1 & Ev' & Hnf' & Hbs' & Hnd' & Hids' & Hfr1).
    assert (Eys1 : erase_list h1 t = Some ys) by (eapply erase_list_hext; eauto using Forall_vall_any).
    destruct (IH Ht h1 ys Hwf1 Eys1 Hbt Hndt) as (h2 & t' & Hm & Hwf2 & Hext2 & Et' & Hnft & Hbst & Hndt' & Hidst & Hfr2 & Hlen).
    exists h2, (v' :: t'). cbn [map_heap]. rewrite Hp. fold (map_heap promote). rewrite Hm.
    split; [reflexivity|]. split; [exact Hwf2|]. split; [eapply hext_trans; eauto|].
    split.
    { rewrite erase_list_cons. rewrite (erase_hext _ _ _ Hext2 v' y (vall_any _) Ev'), Et'. reflexivity. }
    split; [constructor; assumption|]. split; [constructor; assumption|].
    split.
    { rewrite refs_list_cons, ids_of_app. apply nodup_app_intro; [exact Hnd'|exact Hndt'|].
      intros i Hi1 Hi2. destruct (Hids' _ Hi1) as [Hiv|Hdead]; destruct (Hidst _ Hi2) as [Hit|Hdead1].
      - eapply Hdisj; eauto.
      - apply Hdead1. eapply slot_live_mono; [exact Hext1|]. eapply ids_live; eauto.
      - apply Hdead. eapply ids_list_live; eauto.
      - apply Hdead1. eapply ids_live; [exact Ev'|exact Hi1]. }
    split.
    { intros i Hi. rewrite refs_list_cons, ids_of_app in Hi. apply in_app_or in Hi.
      rewrite refs_list_cons, ids_of_app. destruct Hi as [Hi|Hi].
      - destruct (Hids' _ Hi) as [H1|H1]; [left; apply in_or_app; left; exact H1|right; exact H1].
      - destruct (Hidst _ Hi) as [H1|H1]; [left; apply in_or_app; right; exact H1|].
        right. intros Hl. apply H1. eapply slot_live_mono; eauto. }
    split; [congruence|]. cbn. congruence.
Qed.

Lemma promote_post_same : forall h v x, HeapWF h -> erase h v = Some x -> vall nf v -> vall bsr v ->
  NoDup (ids v) -> promote_post h v x h v.
Proof.
  intros h v x Hwf He Hnf Hbs Hnd.
  refine (conj Hwf (conj (hext_refl _ _) (conj He (conj Hnf (conj Hbs (conj Hnd (conj _ eq_refl))))))).
  intros i Hi. left. exact Hi.
Qed.

Lemma promote_spec : forall v, promote_ok v.
Proof.
  induction v as [x|b| |r a len|r a len cap|r a sid cap items IH] using mvalue_ind';
    intros h y Hwf He Hbs Hnd.
  - exists h, (MNum x). split; [reflexivity|]. apply promote_post_same; auto; constructor.
  - exists h, (MBool b). split; [reflexivity|]. apply promote_post_same; auto; constructor.
  - exists h, MNull. split; [reflexivity|]. apply promote_post_same; auto; constructor.
  - inversion Hbs as [|? ? Hr _]; subst. cbn in Hr. subst r.
    exists h, (MBorrowed RStatic a len). split; [reflexivity|]. apply promote_post_same; auto.
    constructor; [cbn; discriminate|constructor].
  - destruct r.
    + exists h, (MOwned RStatic a len cap). split; [reflexivity|]. apply promote_post_same; auto.
      constructor; [cbn; discriminate|constructor].
    + exists h, (MOwned RPers a len cap). split; [reflexivity|]. apply promote_post_same; auto.
      constructor; [cbn; discriminate|constructor].
    + cbn [erase] in He. destruct (read_bytes h RFrame a len) as [b|] eqn:Er; [|discriminate].
      inversion He; subst. destruct (alloc_str h b) as [h' v'] eqn:Ea.
      destruct (alloc_str_spec _ _ _ _ Hwf Ea) as (Hwf' & Hext & Ev' & Hfr & Hnf & Hbs' & Hnd' & Hdead).
      exists h', v'. cbn [promote]. rewrite Er, Ea. split; [reflexivity|].
      refine (conj Hwf' (conj Hext (conj Ev' (conj Hnf (conj Hbs' (conj Hnd' (conj _ Hfr))))))).
      intros i Hi. right. apply Hdead. exact Hi.
    + exists h, (MOwned RPool a len cap). split; [reflexivity|]. apply promote_post_same; auto.
      constructor; [cbn; discriminate|constructor].
  - rewrite erase_arr in He. destruct (store_live h r a sid) eqn:Es; [|discriminate].
    destruct (erase_list h items) as [ys|] eqn:El; [|discriminate]. inversion He; subst. clear He.
    apply vall_arr in Hbs. destruct Hbs as [_ Hbs]. rewrite ids_arr in Hnd.
    cbn [promote]. rewrite Es.
    destruct (fresh_sid h) as [h0 sid'] eqn:Ef. destruct (pers_alloc h0 (OVec sid')) as [h1 a'] eqn:Ep.
    assert (Hh0 : h0 = fst (fresh_sid h)) by (rewrite Ef; reflexivity).
    assert (Hh1 : h1 = fst (pers_alloc h0 (OVec sid'))) by (rewrite Ep; reflexivity).
    assert (Hext01 : hext anyref h h1).
    { eapply hext_trans; [apply hext_fresh_sid|]. rewrite <- Hh0. rewrite Hh1. apply hext_pers_alloc. }
    assert (Hwf1 : HeapWF h1).
    { rewrite Hh1. cbn. apply heapwf_pers. rewrite Hh0. apply heapwf_fresh_sid. exact Hwf. }
    assert (El1 : erase_list h1 items = Some ys) by (eapply erase_list_hext; eauto using Forall_vall_any).
    destruct (promote_list_ok items IH h1 ys Hwf1 El1 Hbs Hnd)
      as (h2 & items' & Hm & Hwf2 & Hext2 & Et' & Hnft & Hbst & Hndt' & Hidst & Hfr2 & Hlen).
    rewrite Hm. exists h2, (MArr RPers a' sid' (length items) items'). split; [reflexivity|].
    assert (Ha' : a' = length (h_pers h0)) by (cbn in Ep; inversion Ep; reflexivity).
    assert (Hlive1 : rd h1 (RefS RPers a' sid') = Some []).
    { apply store_live_rd. rewrite Hh1, Ha'. unfold store_live. cbn.
      rewrite nth_error_snoc_new. rewrite Nat.eqb_refl. reflexivity. }
    split; [exact Hwf2|]. split; [eapply hext_trans; eauto|]. split.
    { rewrite erase_arr. apply (Hext2 _ _ I) in Hlive1. apply store_live_rd in Hlive1.
      rewrite Hlive1, Et'. reflexivity. }
    split; [apply vall_arr; split; [cbn; discriminate|exact Hnft]|].
    split; [apply vall_arr; split; [exact I|exact Hbst]|].
    split; [rewrite ids_arr; exact Hndt'|]. split.
    { intros i Hi. rewrite ids_arr in *. destruct (Hidst _ Hi) as [H1|H1]; [left; exact H1|].
      right. intros Hl. apply H1. eapply slot_live_mono; eauto. }
    rewrite Hfr2, Hh1. cbn. rewrite Hh0. reflexivity.
Qed.

(* ------------------------------------------------------------------ *)
(* clone_into (owned strings copied: the code after 8134a3d) *)

Definition clone_post (h : heap) (x : value) (h' : heap) (v' : mvalue) : Prop :=
  HeapWF h' /\ hext anyref h h' /\ erase h' v' = Some x /\ ids v' = [] /\ vall bsr v' /\
  length (h_frame h) <= length (h_frame h').

Definition clone_ok (v : mvalue) : Prop :=
  forall h x, HeapWF h -> erase h v = Some x -> vall bsr v ->
  exists h' v', clone_into false h v = Some (h', v') /\ clone_post h x h' v'.

Lemma clone_list_ok : forall l, Forall clone_ok l ->
  forall h xs, HeapWF h -> erase_list h l = Some xs -> Forall (vall bsr) l ->
  exists h' l', map_heap (clone_into false) h l = Some (h', l') /\
    HeapWF h' /\ hext anyref h h' /\ erase_list h' l' = Some xs /\
    ids_of (refs_list l') = [] /\ Forall (vall bsr) l' /\
    length (h_frame h) <= length (h_frame h') /\ length l' = length l.
Proof.
  induction l as [|v t IH]; intros HF h xs Hwf He Hbs.
  - exists h, []. cbn in *. inversion He; subst.
    refine (conj eq_refl (conj Hwf (conj (hext_refl _ _) (conj eq_refl (conj eq_refl (conj _ (conj (le_n _) eq_refl))))))).
    constructor.
  - inversion HF as [|? ? Hv Ht]; subst. rewrite erase_list_cons in He.
    destruct (erase h v) as [y|] eqn:Ey; [|discriminate].
    destruct (erase_list h t) as [ys|] eqn:Eys; [|discriminate]. inversion He; subst. clear He.
    inversion Hbs as [|? ? Hbv Hbt]; subst.
    destruct (Hv h y Hwf Ey Hbv) as (h1 & v' & Hp & Hwf1 & Hext1 & Ev' & Hids' & Hbs' & Hfr1).
    assert (Eys1 : erase_list h1 t = Some ys) by (eapply erase_list_hext; eauto using Forall_vall_any).
    destruct (IH Ht h1 ys Hwf1 Eys1 Hbt) as (h2 & t' & Hm & Hwf2 & Hext2 & Et' & Hidst & Hbst & Hfr2 & Hlen).
    exists h2, (v' :: t'). cbn [map_heap]. rewrite Hp. fold (map_heap (clone_into false)). rewrite Hm.
    split; [reflexivity|]. split; [exact Hwf2|]. split; [eapply hext_trans; eauto|].
    split.
    { rewrite erase_list_cons. rewrite (erase_hext _ _ _ Hext2 v' y (vall_any _) Ev'), Et'. reflexivity. }
    split.
    { rewrite refs_list_cons, ids_of_app. unfold ids in Hids'. rewrite Hids', Hidst. reflexivity. }
    split; [constructor; assumption|]. split; [lia|]. cbn. congruence.
Qed.

Lemma clone_spec : forall v, clone_ok v.
Proof.
  induction v as [x|b| |r a len|r a len cap|r a sid cap items IH] using mvalue_ind';
    intros h y Hwf He Hbs.
  - exists h, (MNum x). split; [reflexivity|].
    refine (conj Hwf (conj (hext_refl _ _) (conj He (conj eq_refl (conj Hbs (le_n _)))))).
  - exists h, (MBool b). split; [reflexivity|].
    refine (conj Hwf (conj (hext_refl _ _) (conj He (conj eq_refl (conj Hbs (le_n _)))))).
  - exists h, MNull. split; [reflexivity|].
    refine (conj Hwf (conj (hext_refl _ _) (conj He (conj eq_refl (conj Hbs (le_n _)))))).
  - inversion Hbs as [|? ? Hr _]; subst. cbn in Hr. subst r.
    exists h, (MBorrowed RStatic a len). split; [reflexivity|].
    refine (conj Hwf (conj (hext_refl _ _) (conj He (conj eq_refl (conj Hbs (le_n _)))))).
  - cbn [erase] in He. destruct (read_bytes h r a len) as [b|] eqn:Er; [|discriminate].
    inversion He; subst. cbn [clone_into]. rewrite Er.
    assert (Hlen : length b = len).
    { destruct r; cbn in Er; unfold check_len in Er.
      - destruct (nth_error (h_static h) a) as [b0|]; [|discriminate].
        destruct (Nat.eqb (length b0) len) eqn:E; [|discriminate]. inversion Er; subst. apply Nat.eqb_eq. exact E.
      - destruct (nth_error (h_pers h) a) as [[b0|s]|]; try discriminate.
        destruct (Nat.eqb (length b0) len) eqn:E; [|discriminate]. inversion Er; subst. apply Nat.eqb_eq. exact E.
      - destruct (nth_error (h_frame h) a) as [[b0|s]|]; try discriminate.
        destruct (Nat.eqb (length b0) len) eqn:E; [|discriminate]. inversion Er; subst. apply Nat.eqb_eq. exact E.
      - destruct (nth_error (h_slots h) a) as [[c [b0|]]|]; try discriminate.
        destruct (Nat.eqb (length b0) len) eqn:E; [|discriminate]. inversion Er; subst. apply Nat.eqb_eq. exact E. }
    eexists _, _. split; [reflexivity|].
    refine (conj _ (conj (hext_frame_alloc h (OBytes b)) (conj _ (conj eq_refl (conj _ _))))).
    + apply heapwf_frame. exact Hwf.
    + cbn. rewrite nth_error_snoc_new. subst len. rewrite check_len_self. reflexivity.
    + constructor; [exact I|constructor].
    + cbn. rewrite app_length. lia.
  - rewrite erase_arr in He. destruct (store_live h r a sid) eqn:Es; [|discriminate].
    destruct (erase_list h items) as [ys|] eqn:El; [|discriminate]. inversion He; subst. clear He.
    apply vall_arr in Hbs. destruct Hbs as [_ Hbs].
    cbn [clone_into]. rewrite Es.
    destruct (fresh_sid h) as [h0 sid'] eqn:Ef. destruct (frame_alloc h0 (OVec sid')) as [h1 a'] eqn:Ep.
    assert (Hh0 : h0 = fst (fresh_sid h)) by (rewrite Ef; reflexivity).
    assert (Hh1 : h1 = fst (frame_alloc h0 (OVec sid'))) by (rewrite Ep; reflexivity).
    assert (Hext01 : hext anyref h h1).
    { eapply hext_trans; [apply hext_fresh_sid|]. rewrite <- Hh0. rewrite Hh1. apply hext_frame_alloc. }
    assert (Hwf1 : HeapWF h1).
    { rewrite Hh1. cbn. apply heapwf_frame. rewrite Hh0. apply heapwf_fresh_sid. exact Hwf. }
    assert (El1 : erase_list h1 items = Some ys) by (eapply erase_list_hext; eauto using Forall_vall_any).
    destruct (clone_list_ok items IH h1 ys Hwf1 El1 Hbs)
      as (h2 & items' & Hm & Hwf2 & Hext2 & Et' & Hidst & Hbst & Hfr2 & Hlen).
    rewrite Hm. exists h2, (MArr RFrame a' sid' (length items) items'). split; [reflexivity|].
    assert (Ha' : a' = length (h_frame h0)) by (cbn in Ep; inversion Ep; reflexivity).
    assert (Hlive1 : rd h1 (RefS RFrame a' sid') = Some []).
    { apply store_live_rd. rewrite Hh1, Ha'. unfold store_live. cbn.
      rewrite nth_error_snoc_new. rewrite Nat.eqb_refl. reflexivity. }
    split; [exact Hwf2|]. split; [eapply hext_trans; eauto|]. split.
    { rewrite erase_arr. apply (Hext2 _ _ I) in Hlive1. apply store_live_rd in Hlive1.
      rewrite Hlive1, Et'. reflexivity. }
    split; [rewrite ids_arr; exact Hidst|].
    split; [apply vall_arr; split; [exact I|exact Hbst]|].
    assert (length (h_frame h) <= length (h_frame h1)).
    { rewrite Hh1. cbn. rewrite app_length. rewrite Hh0. cbn. lia. }
    lia.
Qed.

(* ------------------------------------------------------------------ *)
(* relocate_return_value and pop_scope *)

Lemma read_bytes_len : forall h r a len b, read_bytes h r a len = Some b -> length b = len.
Proof.
  intros h r a len b Er. destruct r; cbn in Er; unfold check_len in Er.
  - destruct (nth_error (h_static h) a) as [b0|]; [|discriminate].
    destruct (Nat.eqb (length b0) len) eqn:E; [|discriminate]. inversion Er; subst. apply Nat.eqb_eq. exact E.
  - destruct (nth_error (h_pers h) a) as [[b0|s]|]; try discriminate.
    destruct (Nat.eqb (length b0) len) eqn:E; [|discriminate]. inversion Er; subst. apply Nat.eqb_eq. exact E.
  - destruct (nth_error (h_frame h) a) as [[b0|s]|]; try discriminate.
    destruct (Nat.eqb (length b0) len) eqn:E; [|discriminate]. inversion Er; subst. apply Nat.eqb_eq. exact E.
  - destruct (nth_error (h_slots h) a) as [[c [b0|]]|]; try discriminate.
    destruct (Nat.eqb (length b0) len) eqn:E; [|discriminate]. inversion Er; subst. apply Nat.eqb_eq. exact E.
Qed.

Definition relocate_post (h : heap) (v : mvalue) (x : value) (mark : nat) (h' : heap) (v' : mvalue) : Prop :=
  HeapWF h' /\ hext (below mark) h h' /\ erase h' v' = Some x /\ vall bsr v' /\ NoDup (ids v') /\
  (forall i, In i (ids v') -> In i (ids v) \/ ~ slot_live h i) /\ mark <= length (h_frame h').

Lemma firstn_snoc_len {A} : forall (l : list A) x, firstn (length l) (l ++ [x]) = l.
Proof. intros l x. rewrite firstn_app, Nat.sub_diag, firstn_all. cbn. apply app_nil_r. Qed.

Lemma hext_below_any : forall m h h', hext anyref h h' -> hext (below m) h h'.
Proof. intros m h h' H. eapply hext_weaken; [|exact H]. intros; exact I. Qed.

Lemma relocate_spec : forall h v x mark, HeapWF h -> erase h v = Some x -> vall bsr v -> NoDup (ids v) ->
  mark <= length (h_frame h) ->
  exists h' v', relocate true h v mark = Some (h', v') /\ relocate_post h v x mark h' v'.
Proof.
  intros h v x mark Hwf He Hbs Hnd Hmark.
  assert (Hsimple : vall nf v -> ~ (exists r a s c l, v = MArr r a s c l) ->
                    relocate true h v mark = Some (frame_reset h mark, v) ->
                    exists h' v', relocate true h v mark = Some (h', v') /\ relocate_post h v x mark h' v').
  { intros Hnf _ Hr. exists (frame_reset h mark), v. split; [exact Hr|].
    refine (conj _ (conj (hext_frame_reset h mark) (conj _ (conj Hbs (conj Hnd (conj _ _)))))).
    - apply heapwf_frame. exact Hwf.
    - eapply erase_hext; [apply (hext_set_frame_nf h)|exact Hnf|exact He].
    - intros i Hi. left. exact Hi.
    - cbn. rewrite firstn_length. lia. }
  destruct v as [y|b| |r a len|r a len cap|r a sid cap items].
  - apply Hsimple; [constructor| intros (?&?&?&?&?&E); discriminate |reflexivity].
  - apply Hsimple; [constructor| intros (?&?&?&?&?&E); discriminate |reflexivity].
  - apply Hsimple; [constructor| intros (?&?&?&?&?&E); discriminate |reflexivity].
  - inversion Hbs as [|? ? Hr _]; subst. cbn in Hr. subst r.
    apply Hsimple; [constructor; [cbn; discriminate|constructor]| intros (?&?&?&?&?&E); discriminate |reflexivity].
  - destruct r;
      try (apply Hsimple; [constructor; [cbn; discriminate|constructor]| intros (?&?&?&?&?&E); discriminate |reflexivity]).
    (* a frame-owned string: staged through the persistent arena *)
    cbn [erase] in He. destruct (read_bytes h RFrame a len) as [b|] eqn:Er; [|discriminate].
    inversion He; subst. pose proof (read_bytes_len _ _ _ _ _ Er) as Hlen.
    cbn [relocate]. rewrite Er.
    assert (Hstaged : read_bytes (frame_reset (fst (pers_alloc h (OBytes b))) mark) RPers (length (h_pers h)) len = Some b).
    { cbn. rewrite nth_error_snoc_new. subst len. apply check_len_self. }
    cbn [pers_alloc fst] in Hstaged. cbn [pers_alloc]. rewrite Hstaged.
    eexists _, _. split; [reflexivity|].
    assert (Hheap : pers_reset (fst (frame_alloc (frame_reset (set_pers h (h_pers h ++ [OBytes b])) mark) (OBytes b))) (length (h_pers h))
                    = fst (frame_alloc (frame_reset h mark) (OBytes b))).
    { destruct h as [st pe fr sl fe nx]. cbn. unfold pers_reset, set_pers, set_frame. cbn.
      rewrite firstn_snoc_len. reflexivity. }
    cbn [frame_alloc fst] in Hheap. cbn [frame_alloc]. rewrite Hheap.
    refine (conj _ (conj _ (conj _ (conj _ (conj _ (conj _ _)))))).
    + apply heapwf_frame. apply heapwf_frame. exact Hwf.
    + eapply hext_trans; [apply hext_frame_reset|].
      apply hext_below_any. apply (hext_frame_alloc (frame_reset h mark) (OBytes b)).
    + cbn. rewrite nth_error_snoc_new. subst len. rewrite check_len_self. reflexivity.
    + constructor; [exact I|constructor].
    + constructor.
    + intros i [].
    + cbn. rewrite app_length, firstn_length. lia.
  - (* arrays are promoted *)
    destruct (promote_spec _ h x Hwf He Hbs Hnd) as (h1 & v' & Hp & Hwf1 & Hext1 & Ev' & Hnf' & Hbs' & Hnd' & Hids' & Hfr1).
    exists (frame_reset h1 mark), v'. split.
    { cbn [relocate]. change (promote h (MArr r a sid cap items)) with (promote h (MArr r a sid cap items)). rewrite Hp. reflexivity. }
    refine (conj _ (conj _ (conj _ (conj Hbs' (conj Hnd' (conj Hids' _)))))).
    + apply heapwf_frame. exact Hwf1.
    + eapply hext_trans; [apply hext_below_any; exact Hext1|apply hext_frame_reset].
    + eapply erase_hext; [apply (hext_set_frame_nf h1)|exact Hnf'|exact Ev'].
    + cbn. rewrite firstn_length, Hfr1. lia.
Qed.

Lemma ids_of_refs_list : forall l, ids_of (refs_list l) = flat_map ids l.
Proof.
  induction l as [|x t IH]; [reflexivity|]. rewrite refs_list_cons, ids_of_app, IH. reflexivity.
Qed.

Lemma avoid_app : forall l1 l2 rf, avoid (l1 ++ l2) rf -> avoid l1 rf /\ avoid l2 rf.
Proof.
  intros l1 l2 rf H. destruct rf as [o r a len|r a sid]; [destruct r|]; cbn in *; auto.
  split; intros Hin; apply H; apply in_or_app; auto.
Qed.

Lemma return_all_spec : forall vs h, HeapWF h -> Forall (fun v => erase h v <> None) vs ->
  NoDup (flat_map ids vs) ->
  exists h', return_all h vs = Some h' /\ HeapWF h' /\ hext (avoid (flat_map ids vs)) h h' /\ same_bump h h'.
Proof.
  induction vs as [|v t IH]; intros h Hwf Hlive Hnd.
  - exists h. split; [reflexivity|]. split; [exact Hwf|]. split; [apply hext_refl|]. repeat split.
  - inversion Hlive as [|? ? Hv Ht]; subst. cbn [flat_map] in Hnd.
    destruct (nodup_app_elim _ _ Hnd) as (Hndv & Hndt & Hdisj).
    destruct (erase h v) as [x|] eqn:Ex; [|congruence].
    destruct (return_to_pool h v) as [h1|] eqn:Er; [|exfalso; eapply return_to_pool_live; eauto].
    destruct (return_to_pool_spec _ _ _ Hwf Er) as (Hwf1 & Hext1 & Hsb1).
    assert (Ht1 : Forall (fun w => erase h1 w <> None) t).
    { apply Forall_forall. intros w Hw. rewrite Forall_forall in Ht. specialize (Ht _ Hw).
      destruct (erase h w) as [y|] eqn:Ey; [|congruence].
      rewrite (erase_hext _ _ _ Hext1 w y); [discriminate| |exact Ey].
      apply avoid_of_ids. intros i Hi Hiv. apply (Hdisj i Hiv).
      apply in_flat_map. exists w. split; assumption. }
    destruct (IH h1 Hwf1 Ht1 Hndt) as (h' & Hra & Hwf' & Hext' & Hsb').
    exists h'. cbn [return_all]. rewrite Er. split; [exact Hra|]. split; [exact Hwf'|]. split.
    + eapply hext_trans; eapply hext_weaken; try eassumption; intros rf Hrf; apply avoid_app in Hrf; tauto.
    + destruct Hsb1 as (A1 & A2 & A3). destruct Hsb' as (B1 & B2 & B3). repeat split; congruence.
Qed.

(* ------------------------------------------------------------------ *)
(* Forall2 helpers *)

Lemma Forall2_impl_Forall {A B} (P : A -> Prop) (R R' : A -> B -> Prop) : forall l l',
  Forall P l -> (forall a b, P a -> R a b -> R' a b) -> Forall2 R l l' -> Forall2 R' l l'.
Proof.
  intros l l' HP Himp H. induction H as [|a b l l' Hab Hl IH]; [constructor|].
  inversion HP; subst. constructor; [apply Himp; assumption|]. apply IH. assumption.
Qed.

Lemma Forall2_rev {A B} (R : A -> B -> Prop) : forall l l', Forall2 R l l' -> Forall2 R (rev l) (rev l').
Proof.
  intros l l' H. induction H as [|a b l l' Hab Hl IH]; [constructor|].
  cbn. apply Forall2_app; [exact IH|]. constructor; [exact Hab|constructor].
Qed.

Lemma Forall2_firstn {A B} (R : A -> B -> Prop) : forall n l l', Forall2 R l l' -> Forall2 R (firstn n l) (firstn n l').
Proof.
  induction n as [|n IH]; intros l l' H; [constructor|].
  destruct H as [|a b l l' Hab Hl]; [constructor|]. cbn. constructor; [exact Hab|]. apply IH. exact Hl.
Qed.

Lemma Forall2_skipn {A B} (R : A -> B -> Prop) : forall n l l', Forall2 R l l' -> Forall2 R (skipn n l) (skipn n l').
Proof.
  induction n as [|n IH]; intros l l' H; [exact H|].
  destruct H as [|a b l l' Hab Hl]; [constructor|]. cbn. apply IH. exact Hl.
Qed.

Lemma Forall2_nth_error {A B} (R : A -> B -> Prop) : forall l l' i x,
  Forall2 R l l' -> nth_error l i = Some x -> exists y, nth_error l' i = Some y /\ R x y.
Proof.
  intros l l' i x H. revert i. induction H as [|a b l l' Hab Hl IH]; intros i Hi.
  - destruct i; discriminate.
  - destruct i as [|i]; cbn in *.
    + inversion Hi; subst. exists b. split; [reflexivity|exact Hab].
    + apply IH. exact Hi.
Qed.

Lemma Forall2_len {A B} (R : A -> B -> Prop) : forall l l', Forall2 R l l' -> length l = length l'.
Proof. intros l l' H. induction H; cbn; congruence. Qed.

Lemma Forall2_nth_error_none {A B} (R : A -> B -> Prop) : forall l l' i,
  Forall2 R l l' -> nth_error l i = None -> nth_error l' i = None.
Proof.
  intros l l' i H Hn. apply nth_error_None. apply nth_error_None in Hn.
  rewrite <- (Forall2_len _ _ _ H). exact Hn.
Qed.

Lemma Forall2_upd_nth {A B} (R : A -> B -> Prop) : forall l l' i x y,
  Forall2 R l l' -> R x y -> Forall2 R (upd_nth i x l) (upd_nth i y l').
Proof.
  intros l l' i x y H Hxy. revert i. induction H as [|a b l l' Hab Hl IH]; intros i.
  - destruct i; constructor.
  - destruct i as [|i]; cbn; constructor; auto.
Qed.

Lemma Forall2_removelast {A B} (R : A -> B -> Prop) : forall l l',
  Forall2 R l l' -> Forall2 R (removelast l) (removelast l').
Proof.
  intros l l' H. induction H as [|a b l l' Hab Hl IH]; [constructor|].
  cbn. destruct Hl as [|a2 b2 l2 l2' H2 Hl2]; [constructor|].
  constructor; [exact Hab|exact IH].
Qed.

Lemma Forall2_last {A B} (R : A -> B -> Prop) : forall l l' da db,
  Forall2 R l l' -> R da db -> R (last l da) (last l' db).
Proof.
  intros l l' da db H Hd. induction H as [|a b l l' Hab Hl IH]; [exact Hd|].
  cbn. destruct Hl as [|a2 b2 l2 l2' H2 Hl2]; [exact Hab|exact IH].
Qed.

(* ------------------------------------------------------------------ *)
(* transfer of the agreement relation along a heap extension *)

Lemma vrel_transfer : forall P h h', hext P h h' -> forall vs xs,
  Forall (vall P) vs -> Forall2 (vrel h) vs xs -> Forall2 (vrel h') vs xs.
Proof.
  intros P h h' Hext vs xs HP H. eapply Forall2_impl_Forall; [exact HP| |exact H].
  intros v a Hv Hr. unfold vrel in *. eapply erase_hext; eauto.
Qed.

Lemma env_vals_cons : forall sc e, env_vals (sc :: e) = map snd sc ++ env_vals e.
Proof. reflexivity. Qed.

Lemma scope_transfer : forall P h h', hext P h h' -> forall (sc : scope) (asc : ascope),
  Forall (vall P) (map snd sc) -> Forall2 (prel (vrel h)) sc asc -> Forall2 (prel (vrel h')) sc asc.
Proof.
  intros P h h' Hext sc asc HP H. induction H as [|p q sc asc Hpq Hl IH]; [constructor|].
  cbn in HP. inversion HP; subst. constructor; [|apply IH; assumption].
  destruct Hpq as [Hn Hv]. split; [exact Hn|]. unfold vrel in *. eapply erase_hext; eauto.
Qed.

Lemma env_transfer : forall P h h', hext P h h' -> forall (e : list scope) (ae : list ascope),
  Forall (vall P) (env_vals e) -> Forall2 (Forall2 (prel (vrel h))) e ae -> Forall2 (Forall2 (prel (vrel h'))) e ae.
Proof.
  intros P h h' Hext e ae HP H. induction H as [|sc asc e ae Hs Hl IH]; [constructor|].
  rewrite env_vals_cons in HP. apply Forall_app in HP. destruct HP as [HP1 HP2].
  constructor; [eapply scope_transfer; eauto|apply IH; assumption].
Qed.

Lemma ctl_transfer : forall P h h', hext P h h' -> forall (ctl : list ctl) (actl : list actl),
  Forall (vall P) (all_saved ctl) -> Forall2 (crel (vrel h)) ctl actl -> Forall2 (crel (vrel h')) ctl actl.
Proof.
  intros P h h' Hext ctl actl HP H. induction H as [|c ac ctl actl Hc Hl IH]; [constructor|].
  cbn [all_saved flat_map] in HP. apply Forall_app in HP. destruct HP as [HP1 HP2].
  constructor; [|apply IH; exact HP2].
  destruct Hc as (H1 & H2 & H3). refine (conj H1 (conj H2 _)). eapply vrel_transfer; eauto.
Qed.

(* ------------------------------------------------------------------ *)
(* environments *)

Lemma scope_find_in : forall x (sc : scope) v, scope_find x sc = Some v -> In v (map snd sc).
Proof.
  intros x sc v. induction sc as [|[y w] t IH]; cbn; [discriminate|].
  destruct (Nat.eqb x y); intros H; [inversion H; left; reflexivity|right; apply IH; exact H].
Qed.

Lemma env_find_in : forall x (e : list scope) v, env_find x e = Some v -> In v (env_vals e).
Proof.
  intros x e v. induction e as [|sc t IH]; cbn [env_find]; [discriminate|].
  rewrite env_vals_cons. destruct (scope_find x sc) as [w|] eqn:E; intros H.
  - inversion H; subst. apply in_or_app. left. eapply scope_find_in; eauto.
  - apply in_or_app. right. apply IH. exact H.
Qed.

Lemma scope_set_perm : forall x w (sc : scope) old sc1, scope_find x sc = Some old -> scope_set x w sc = Some sc1 ->
  exists R, Permutation (map snd sc) (old :: R) /\ Permutation (map snd sc1) (w :: R).
Proof.
  intros x w. induction sc as [|[y u] t IH]; intros old sc1 Hf Hs; cbn in *; [discriminate|].
  destruct (Nat.eqb x y).
  - inversion Hf; inversion Hs; subst. exists (map snd t). split; apply Permutation_refl.
  - destruct (scope_set x w t) as [t'|] eqn:Et; [|discriminate]. inversion Hs; subst.
    destruct (IH old t' Hf eq_refl) as (R & H1 & H2). exists (u :: R). cbn. split.
    + eapply perm_trans; [apply perm_skip; exact H1|apply perm_swap].
    + eapply perm_trans; [apply perm_skip; exact H2|apply perm_swap].
Qed.

Lemma scope_set_none {A} : forall x (w : A) sc, scope_find x sc = None -> scope_set x w sc = None.
Proof.
  intros x w. induction sc as [|[y u] t IH]; intros H; cbn in *; [reflexivity|].
  destruct (Nat.eqb x y); [discriminate|]. rewrite IH by exact H. reflexivity.
Qed.

Lemma scope_set_some {A} : forall x (w : A) sc old, scope_find x sc = Some old -> exists sc1, scope_set x w sc = Some sc1.
Proof.
  intros x w. induction sc as [|[y u] t IH]; intros old H; cbn in *; [discriminate|].
  destruct (Nat.eqb x y); [eexists; reflexivity|].
  destruct (IH _ H) as [t' Ht]. rewrite Ht. eexists; reflexivity.
Qed.

Lemma env_set_perm : forall x w (e : list scope) old e1, env_find x e = Some old -> env_set x w e = Some e1 ->
  exists R, Permutation (env_vals e) (old :: R) /\ Permutation (env_vals e1) (w :: R).
Proof.
  intros x w. induction e as [|sc t IH]; intros old e1 Hf Hs; cbn [env_find env_set] in *; [discriminate|].
  destruct (scope_find x sc) as [u|] eqn:Efs.
  - inversion Hf; subst. destruct (scope_set_some x w sc old Efs) as [sc1 Hsc1]. rewrite Hsc1 in Hs.
    inversion Hs; subst. destruct (scope_set_perm _ _ _ _ _ Efs Hsc1) as (R & H1 & H2).
    exists (R ++ env_vals t). rewrite !env_vals_cons. split.
    + change (old :: R ++ env_vals t) with ((old :: R) ++ env_vals t). apply Permutation_app_tail. exact H1.
    + change (w :: R ++ env_vals t) with ((w :: R) ++ env_vals t). apply Permutation_app_tail. exact H2.
  - rewrite (scope_set_none _ _ _ Efs) in Hs.
    destruct (env_set x w t) as [t'|] eqn:Et; [|discriminate]. inversion Hs; subst.
    destruct (IH old t' Hf eq_refl) as (R & H1 & H2). exists (map snd sc ++ R). rewrite !env_vals_cons. split.
    + eapply perm_trans; [apply Permutation_app_head; exact H1|]. apply Permutation_sym. apply Permutation_middle.
    + eapply perm_trans; [apply Permutation_app_head; exact H2|]. apply Permutation_sym. apply Permutation_middle.
Qed.

Lemma env_set_some {A} : forall x (w : A) e old, env_find x e = Some old -> exists e1, env_set x w e = Some e1.
Proof.
  intros x w. induction e as [|sc t IH]; intros old H; cbn [env_find env_set] in *; [discriminate|].
  destruct (scope_find x sc) as [u|] eqn:Efs.
  - destruct (scope_set_some x w sc u Efs) as [sc1 Hsc1]. rewrite Hsc1. eexists; reflexivity.
  - rewrite (scope_set_none _ _ _ Efs). destruct (IH _ H) as [t' Ht]. rewrite Ht. eexists; reflexivity.
Qed.

Lemma scope_set_twice {A} : forall x (w v : A) sc sc1, scope_set x w sc = Some sc1 -> scope_set x v sc1 = scope_set x v sc.
Proof.
  intros x w v. induction sc as [|[y u] t IH]; intros sc1 H; cbn in *; [discriminate|].
  destruct (Nat.eqb x y) eqn:E.
  - inversion H; subst. cbn. rewrite E. reflexivity.
  - destruct (scope_set x w t) as [t'|] eqn:Et; [|discriminate]. inversion H; subst. cbn. rewrite E.
    rewrite (IH t' eq_refl). reflexivity.
Qed.

Lemma scope_set_find_none {A} : forall x (w : A) sc sc1, scope_set x w sc = Some sc1 -> scope_find x sc <> None.
Proof.
  intros x w. induction sc as [|[y u] t IH]; intros sc1 H; cbn in *; [discriminate|].
  destruct (Nat.eqb x y); [discriminate|].
  destruct (scope_set x w t) as [t'|] eqn:Et; [|discriminate]. eapply IH; eauto.
Qed.

Lemma env_set_twice {A} : forall x (w v : A) e e1, env_set x w e = Some e1 -> env_set x v e1 = env_set x v e.
Proof.
  intros x w v. induction e as [|sc t IH]; intros e1 H; cbn [env_set] in *; [discriminate|].
  destruct (scope_set x w sc) as [sc1|] eqn:Es.
  - inversion H; subst. cbn [env_set]. rewrite (scope_set_twice _ _ v _ _ Es).
    destruct (scope_find x sc) as [u|] eqn:Ef; [|exfalso; eapply scope_set_find_none; eauto].
    destruct (scope_set_some x v sc u Ef) as [s2 Hs2]. rewrite Hs2. reflexivity.
  - destruct (env_set x w t) as [t'|] eqn:Et; [|discriminate]. inversion H; subst. cbn [env_set].
    assert (Hn : scope_set x v sc = None).
    { destruct (scope_find x sc) as [u|] eqn:Ef.
      - destruct (scope_set_some x w sc u Ef) as [s1 Hs1]. congruence.
      - apply scope_set_none. exact Ef. }
    rewrite Hn. rewrite (IH t' eq_refl). reflexivity.
Qed.

Section EnvRel.
  Variable Q : mvalue -> value -> Prop.

  Lemma scope_find_F2 : forall x (sc : scope) (asc : ascope), Forall2 (prel Q) sc asc ->
    match scope_find x sc with
    | Some v => exists a, ascope_find x asc = Some a /\ Q v a
    | None => ascope_find x asc = None
    end.
  Proof.
    intros x sc asc H. induction H as [|[y v] [z a] sc asc [Hn Hq] Hl IH]; cbn; [reflexivity|].
    cbn in Hn, Hq. subst z. destruct (Nat.eqb x y); [exists a; split; [reflexivity|exact Hq]|exact IH].
  Qed.

  Lemma env_find_F2 : forall x (e : list scope) (ae : list ascope), Forall2 (Forall2 (prel Q)) e ae ->
    match env_find x e with
    | Some v => exists a, aenv_find x ae = Some a /\ Q v a
    | None => aenv_find x ae = None
    end.
  Proof.
    intros x e ae H. induction H as [|sc asc e ae Hs Hl IH]; cbn [env_find aenv_find]; [reflexivity|].
    pose proof (scope_find_F2 x sc asc Hs) as Hf. destruct (scope_find x sc) as [v|].
    - destruct Hf as (a & Ha & Hq). rewrite Ha. exists a. split; [reflexivity|exact Hq].
    - rewrite Hf. exact IH.
  Qed.

  Lemma scope_set_F2 : forall x v a (sc : scope) (asc : ascope) sc', Forall2 (prel Q) sc asc -> Q v a ->
    scope_set x v sc = Some sc' -> exists asc', ascope_set x a asc = Some asc' /\ Forall2 (prel Q) sc' asc'.
  Proof.
    intros x v a sc asc sc' H Hq. revert sc'. induction H as [|[y w] [z b] sc asc [Hn Hw] Hl IH]; intros sc' Hs; cbn in *; [discriminate|].
    subst z. destruct (Nat.eqb x y).
    - inversion Hs; subst. eexists. split; [reflexivity|]. constructor; [split; [reflexivity|exact Hq]|exact Hl].
    - destruct (scope_set x v sc) as [t'|] eqn:Et; [|discriminate]. inversion Hs; subst.
      destruct (IH t' eq_refl) as (asc' & Ha & HF). rewrite Ha. eexists. split; [reflexivity|].
      constructor; [split; [reflexivity|exact Hw]|exact HF].
  Qed.

  Lemma scope_set_F2_none : forall x v a (sc : scope) (asc : ascope), Forall2 (prel Q) sc asc ->
    scope_set x v sc = None -> ascope_set x a asc = None.
  Proof.
    intros x v a sc asc H. induction H as [|[y w] [z b] sc asc [Hn Hw] Hl IH]; intros Hs; cbn in *; [reflexivity|].
    subst z. destruct (Nat.eqb x y); [discriminate|].
    destruct (scope_set x v sc) as [t'|] eqn:Et; [discriminate|]. rewrite IH by reflexivity. reflexivity.
  Qed.

  Lemma env_set_F2 : forall x v a (e : list scope) (ae : list ascope) e', Forall2 (Forall2 (prel Q)) e ae -> Q v a ->
    env_set x v e = Some e' -> exists ae', aenv_set x a ae = Some ae' /\ Forall2 (Forall2 (prel Q)) e' ae'.
  Proof.
    intros x v a e ae e' H Hq. revert e'. induction H as [|sc asc e ae Hs Hl IH]; intros e' Hset; cbn [env_set aenv_set] in *; [discriminate|].
    destruct (scope_set x v sc) as [sc'|] eqn:Es.
    - inversion Hset; subst. destruct (scope_set_F2 x v a sc asc sc' Hs Hq Es) as (asc' & Ha & HF).
      rewrite Ha. eexists. split; [reflexivity|]. constructor; assumption.
    - rewrite (scope_set_F2_none x v a sc asc Hs Es).
      destruct (env_set x v e) as [t'|] eqn:Et; [|discriminate]. inversion Hset; subst.
      destruct (IH t' eq_refl) as (ae' & Ha & HF). rewrite Ha. eexists. split; [reflexivity|].
      constructor; assumption.
  Qed.
End EnvRel.

(* ------------------------------------------------------------------ *)
(* the root invariant without the control stack: stored roots s, temporaries t *)

Definition Good (h : heap) (s t : list mvalue) : Prop :=
  HeapWF h /\ Forall (fun v => erase h v <> None) (s ++ t) /\ NoDup (flat_map ids (s ++ t)) /\
  Forall (vall nf) s /\ Forall (vall bsr) (s ++ t).

Lemma good_perm : forall h s t s' t', Permutation s s' -> Permutation t t' -> Good h s t -> Good h s' t'.
Proof.
  intros h s t s' t' Hs Ht (Hwf & Hl & Hn & Hf & Hb).
  assert (Hp : Permutation (s ++ t) (s' ++ t')) by (apply Permutation_app; assumption).
  refine (conj Hwf (conj _ (conj _ (conj _ _)))).
  - eapply Permutation_Forall; eauto.
  - eapply Permutation_NoDup; [|exact Hn]. apply Permutation_flat_map. exact Hp.
  - eapply Permutation_Forall; eauto.
  - eapply Permutation_Forall; eauto.
Qed.

Lemma good_split_t : forall h s v t, Good h s (v :: t) ->
  Good h s t /\ (exists x, erase h v = Some x) /\ vall bsr v /\ NoDup (ids v) /\
  (forall i, In i (ids v) -> ~ In i (flat_map ids (s ++ t))).
Proof.
  intros h s v t (Hwf & Hl & Hn & Hf & Hb).
  assert (Hp : Permutation (s ++ v :: t) (v :: s ++ t)) by (apply Permutation_sym, Permutation_middle).
  pose proof (Permutation_Forall Hp Hl) as Hl'. pose proof (Permutation_Forall Hp Hb) as Hb'.
  pose proof (Permutation_NoDup (Permutation_flat_map ids Hp) Hn) as Hn'. cbn [flat_map] in Hn'.
  inversion Hl' as [|? ? Hv Hrest]; subst. inversion Hb' as [|? ? Hbv Hbrest]; subst.
  destruct (nodup_app_elim _ _ Hn') as (Hnv & Hnrest & Hdisj).
  split; [refine (conj Hwf (conj Hrest (conj Hnrest (conj Hf Hbrest))))|].
  split; [destruct (erase h v) as [x|]; [exists x; reflexivity|congruence]|].
  split; [exact Hbv|]. split; [exact Hnv|]. intros i Hi Hi2. eapply Hdisj; eauto.
Qed.

Lemma good_join_t : forall h s v t, Good h s t -> erase h v <> None -> vall bsr v -> NoDup (ids v) ->
  (forall i, In i (ids v) -> ~ In i (flat_map ids (s ++ t))) -> Good h s (v :: t).
Proof.
  intros h s v t (Hwf & Hl & Hn & Hf & Hb) Hv Hbv Hnv Hdisj.
  assert (Hp : Permutation (v :: s ++ t) (s ++ v :: t)) by apply Permutation_middle.
  refine (conj Hwf (conj _ (conj _ (conj Hf _)))).
  - eapply Permutation_Forall; [exact Hp|]. constructor; assumption.
  - eapply Permutation_NoDup; [apply Permutation_flat_map; exact Hp|]. cbn [flat_map].
    apply nodup_app_intro; [exact Hnv|exact Hn|]. intros i H1 H2. eapply Hdisj; eauto.
  - eapply Permutation_Forall; [exact Hp|]. constructor; assumption.
Qed.

Lemma good_move_ts : forall h s v t, Good h s (v :: t) -> vall nf v -> Good h (v :: s) t.
Proof.
  intros h s v t (Hwf & Hl & Hn & Hf & Hb) Hnf.
  assert (Hp : Permutation (s ++ v :: t) ((v :: s) ++ t)) by (apply Permutation_sym; cbn; apply Permutation_middle).
  refine (conj Hwf (conj _ (conj _ (conj _ _)))).
  - eapply Permutation_Forall; eauto.
  - eapply Permutation_NoDup; [apply Permutation_flat_map; exact Hp|exact Hn].
  - constructor; assumption.
  - eapply Permutation_Forall; eauto.
Qed.

Lemma good_move_st : forall h s v t, Good h (v :: s) t -> Good h s (v :: t).
Proof.
  intros h s v t (Hwf & Hl & Hn & Hf & Hb).
  assert (Hp : Permutation ((v :: s) ++ t) (s ++ v :: t)) by (cbn; apply Permutation_middle).
  inversion Hf; subst. refine (conj Hwf (conj _ (conj _ (conj _ _)))).
  - eapply Permutation_Forall; eauto.
  - eapply Permutation_NoDup; [apply Permutation_flat_map; exact Hp|exact Hn].
  - assumption.
  - eapply Permutation_Forall; eauto.
Qed.

Lemma good_hext : forall P h h' s t, Good h s t -> HeapWF h' -> hext P h h' -> Forall (vall P) (s ++ t) -> Good h' s t.
Proof.
  intros P h h' s t (Hwf & Hl & Hn & Hf & Hb) Hwf' Hext HP.
  refine (conj Hwf' (conj _ (conj Hn (conj Hf Hb)))).
  rewrite Forall_forall in *. intros v Hv. specialize (Hl v Hv). specialize (HP v Hv).
  destruct (erase h v) as [x|] eqn:E; [|congruence].
  rewrite (erase_hext _ _ _ Hext v x HP E). discriminate.
Qed.

Lemma good_roots_live : forall h s t i, Good h s t -> In i (flat_map ids (s ++ t)) -> slot_live h i.
Proof.
  intros h s t i (Hwf & Hl & Hn & Hf & Hb) Hi. apply in_flat_map in Hi. destruct Hi as (v & Hv & Hiv).
  rewrite Forall_forall in Hl. specialize (Hl v Hv). destruct (erase h v) as [x|] eqn:E; [|congruence].
  eapply ids_live; eauto.
Qed.

Lemma good_promote_t : forall h s v t x h' v', Good h s (v :: t) -> erase h v = Some x ->
  promote_post h v x h' v' -> Good h' s (v' :: t).
Proof.
  intros h s v t x h' v' HG Ev (Hwf' & Hext & Ev' & Hnf' & Hbs' & Hnd' & Hids' & Hfr).
  destruct (good_split_t _ _ _ _ HG) as (HG0 & _ & _ & _ & Hdisj).
  apply good_join_t.
  - eapply good_hext; [exact HG0|exact Hwf'|exact Hext|]. apply Forall_forall. intros; apply vall_any.
  - rewrite Ev'. discriminate.
  - exact Hbs'.
  - exact Hnd'.
  - intros i Hi Hi2. destruct (Hids' _ Hi) as [H1|H1].
    + eapply Hdisj; eauto.
    + apply H1. eapply good_roots_live; eauto.
Qed.

Lemma good_free_t : forall h s old t h1, Good h s (old :: t) -> return_to_pool h old = Some h1 -> Good h1 s t.
Proof.
  intros h s old t h1 HG Hr.
  destruct (good_split_t _ _ _ _ HG) as (HG0 & _ & _ & _ & Hdisj).
  destruct HG as (Hwf & _). destruct (return_to_pool_spec _ _ _ Hwf Hr) as (Hwf1 & Hext & _).
  eapply good_hext; [exact HG0|exact Hwf1|exact Hext|].
  apply Forall_forall. intros w Hw. apply avoid_of_ids. intros i Hi Hio.
  apply (Hdisj i Hio). apply in_flat_map. exists w. split; assumption.
Qed.

Lemma good_drop_t : forall h s v t, Good h s (v :: t) -> Good h s t.
Proof. intros h s v t HG. apply good_split_t in HG. tauto. Qed.

Lemma good_return_all : forall olds h s t, Good h s (olds ++ t) ->
  exists h1, return_all h olds = Some h1 /\ Good h1 s t /\ same_bump h h1.
Proof.
  induction olds as [|o olds IH]; intros h s t HG.
  - exists h. split; [reflexivity|]. split; [exact HG|]. repeat split.
  - cbn [app] in HG. destruct (good_split_t _ _ _ _ HG) as (_ & (x & Ex) & _).
    destruct (return_to_pool h o) as [h1|] eqn:Er; [|exfalso; eapply return_to_pool_live; eauto].
    pose proof (good_free_t _ _ _ _ _ HG Er) as HG1.
    destruct HG as (Hwf & _). destruct (return_to_pool_spec _ _ _ Hwf Er) as (_ & _ & Hsb1).
    destruct (IH h1 s t HG1) as (h2 & Hra & HG2 & Hsb2).
    exists h2. cbn [return_all]. rewrite Er. split; [exact Hra|]. split; [exact HG2|].
    destruct Hsb1 as (A1 & A2 & A3). destruct Hsb2 as (B1 & B2 & B3). repeat split; congruence.
Qed.

Lemma good_in : forall h s t v, Good h s t -> In v (s ++ t) ->
  (exists x, erase h v = Some x) /\ vall bsr v /\ NoDup (ids v).
Proof.
  intros h s t v HG Hin. apply in_split in Hin. destruct Hin as (l1 & l2 & Heq).
  assert (Hp : Permutation (s ++ t) (v :: l1 ++ l2)) by (rewrite Heq; apply Permutation_sym, Permutation_middle).
  assert (HG' : Good h [] (v :: l1 ++ l2)).
  { destruct HG as (Hwf & Hl & Hn & Hf & Hb). refine (conj Hwf (conj _ (conj _ (conj _ _)))); cbn [app].
    - eapply Permutation_Forall; eauto.
    - eapply Permutation_NoDup; [apply Permutation_flat_map; exact Hp|exact Hn].
    - constructor.
    - eapply Permutation_Forall; eauto. }
  destruct (good_split_t _ _ _ _ HG') as (_ & H1 & H2 & H3 & _). auto.
Qed.

(* ------------------------------------------------------------------ *)
(* the control stack *)

Lemma ctlok_mono : forall ctl fh fh', fh <= fh' -> CtlOK ctl fh -> CtlOK ctl fh'.
Proof.
  intros [|c rest] fh fh' Hle H; [exact I|]. destruct H as (H1 & H2 & H3).
  refine (conj _ (conj H2 H3)). lia.
Qed.

Lemma ctlok_saved_below : forall ctl fh, CtlOK ctl fh -> Forall (vall (below fh)) (all_saved ctl).
Proof.
  induction ctl as [|c rest IH]; intros fh H; [constructor|].
  destruct H as (H1 & H2 & H3). cbn [all_saved flat_map]. apply Forall_app. split.
  - eapply Forall_impl; [|exact H2]. intros v Hv. eapply Forall_impl; [|exact Hv].
    intros rf Hrf. eapply below_mono; eauto.
  - specialize (IH _ H3). eapply Forall_impl; [|exact IH]. intros v Hv. eapply Forall_impl; [|exact Hv].
    intros rf Hrf. eapply below_mono; eauto.
Qed.

Lemma meminv_good : forall st, MemInv st <->
  Good (m_heap st) (stored st) (temps st) /\ CtlOK (m_ctl st) (length (h_frame (m_heap st))).
Proof.
  intros st. split.
  - intros [H1 H2 H3 H4 H5 H6]. split; [|exact H6]. refine (conj H1 (conj H2 (conj H3 (conj H4 H5)))).
  - intros [(H1 & H2 & H3 & H4 & H5) H6]. constructor; assumption.
Qed.

(* ------------------------------------------------------------------ *)
(* modification of an array element reached by an index path *)

Lemma perm_ctx {A} : forall (X Y S S' O I : list A),
  Permutation (S' ++ O) (S ++ I) -> Permutation ((X ++ S' ++ Y) ++ O) ((X ++ S ++ Y) ++ I).
Proof.
  intros X Y S S' O I H. rewrite <- !app_assoc. apply Permutation_app_head.
  eapply perm_trans; [apply Permutation_app_head; apply Permutation_app_comm|].
  rewrite !app_assoc. eapply perm_trans; [apply Permutation_app_tail; exact H|].
  rewrite <- !app_assoc. apply Permutation_app_head. apply Permutation_app_comm.
Qed.

Lemma nth_error_split_upd {A} : forall (l : list A) i x y, nth_error l i = Some x ->
  l = firstn i l ++ x :: skipn (S i) l /\ upd_nth i y l = firstn i l ++ y :: skipn (S i) l.
Proof.
  induction l as [|z l IH]; intros i x y H; [destruct i; discriminate|].
  destruct i as [|i]; cbn in *.
  - inversion H; subst. split; reflexivity.
  - destruct (IH i x y H) as [H1 H2]. split; [f_equal; exact H1|f_equal; exact H2].
Qed.

Lemma Forall_upd_nth {A} (P : A -> Prop) : forall l i x, Forall P l -> P x -> Forall P (upd_nth i x l).
Proof.
  induction l as [|z l IH]; intros i x HF Hx; [destruct i; constructor|].
  inversion HF; subst. destruct i as [|i]; cbn; constructor; auto.
Qed.

Lemma erase_list_app : forall h l1 l2 x1 x2, erase_list h l1 = Some x1 -> erase_list h l2 = Some x2 ->
  erase_list h (l1 ++ l2) = Some (x1 ++ x2).
Proof.
  intros h l1 l2 x1 x2 H1 H2. apply erase_list_Forall2. apply Forall2_app; apply erase_list_Forall2; assumption.
Qed.

Section Modify.
  Variables (R AR : Type).
  Variable f : heap -> mvalue -> mres (heap * mvalue * R).
  Variable af : value -> option (value * AR).
  Variable Pre : heap -> Prop.                       (* what is known about the heap f is called on *)
  Variable ids_in : list nat.
  Variable ids_out : R -> list nat.
  Variable resrel : heap -> R -> AR -> Prop.

  Definition fpost (h : heap) (v : mvalue) (a : value) (h' : heap) (v' : mvalue) (res : R) : Prop :=
    exists a' ares, af a = Some (a', ares) /\ HeapWF h' /\ hext anyref h h' /\ h_frame h' = h_frame h /\
      erase h' v' = Some a' /\ resrel h' res ares /\ vall nf v' /\ vall bsr v' /\
      Permutation (ids v' ++ ids_out res) (ids v ++ ids_in).

  Hypothesis f_ok : forall h v a, Pre h -> HeapWF h -> erase h v = Some a -> vall nf v -> vall bsr v ->
    f h v <> MFault /\
    (forall h' v' res, f h v = MOk (h', v', res) -> fpost h v a h' v' res).

  Lemma modify_at_ok : forall path h v a, Pre h -> HeapWF h -> erase h v = Some a -> vall nf v -> vall bsr v ->
    modify_at f path h v <> MFault /\
    (forall h' v' res, modify_at f path h v = MOk (h', v', res) ->
       exists a' ares, amodify_at af path a = Some (a', ares) /\ HeapWF h' /\ hext anyref h h' /\
         h_frame h' = h_frame h /\ erase h' v' = Some a' /\ resrel h' res ares /\ vall nf v' /\ vall bsr v' /\
         Permutation (ids v' ++ ids_out res) (ids v ++ ids_in)).
  Proof.
    induction path as [|i rest IH]; intros h v a HPre Hwf He Hnf Hbs.
    - cbn [modify_at amodify_at]. apply f_ok; assumption.
    - cbn [modify_at amodify_at].
      destruct v as [x|b| |r0 a0 len|r0 a0 len cap|r a0 sid cap items];
        try (split; [discriminate|intros ? ? ? E; discriminate]).
      rewrite erase_arr in He. destruct (store_live h r a0 sid) eqn:Es; [|discriminate].
      destruct (erase_list h items) as [ys|] eqn:El; [|discriminate]. inversion He; subst. clear He.
      destruct (nth_error items i) as [sub|] eqn:En; [|split; [discriminate|intros ? ? ? E; discriminate]].
      pose proof El as El2. apply erase_list_Forall2 in El2.
      destruct (Forall2_nth_error _ _ _ _ _ El2 En) as (asub & Han & Hsub). rewrite Han.
      apply vall_arr in Hnf. destruct Hnf as [HnfS Hnfi]. apply vall_arr in Hbs. destruct Hbs as [_ Hbsi].
      assert (Hnfsub : vall nf sub) by (rewrite Forall_forall in Hnfi; apply Hnfi; eapply nth_error_In; eauto).
      assert (Hbssub : vall bsr sub) by (rewrite Forall_forall in Hbsi; apply Hbsi; eapply nth_error_In; eauto).
      destruct (IH h sub asub HPre Hwf Hsub Hnfsub Hbssub) as [Hnofault Hok].
      destruct (modify_at f rest h sub) as [[[h1 sub'] res1]| |] eqn:Em.
      + split; [discriminate|]. intros h' v' res E. inversion E; subst. clear E.
        destruct (Hok _ _ _ eq_refl) as (asub' & ares & Ham & Hwf' & Hext & Hfr & Esub' & Hres & Hnf' & Hbs' & Hperm).
        rewrite Ham. exists (VArr (upd_nth i asub' ys)), ares. split; [reflexivity|].
        split; [exact Hwf'|]. split; [exact Hext|]. split; [exact Hfr|]. split.
        { rewrite erase_arr. apply store_live_rd in Es. apply (Hext _ _ I) in Es. apply store_live_rd in Es. rewrite Es.
          assert (El' : erase_list h' (upd_nth i sub' items) = Some (upd_nth i asub' ys)).
          { apply erase_list_Forall2. apply Forall2_upd_nth; [|exact Esub'].
            apply erase_list_Forall2. eapply erase_list_hext; eauto using Forall_vall_any. }
          rewrite El'. reflexivity. }
        split; [exact Hres|].
        split; [apply vall_arr; split; [exact HnfS|apply Forall_upd_nth; assumption]|].
        split; [apply vall_arr; split; [exact I|apply Forall_upd_nth; assumption]|].
        rewrite !ids_arr. destruct (nth_error_split_upd items i sub sub' En) as [Hs1 Hs2].
        rewrite Hs2.
        assert (Hids : ids_of (refs_list items) = ids_of (refs_list (firstn i items ++ sub :: skipn (S i) items)))
          by (rewrite <- Hs1; reflexivity).
        rewrite Hids. rewrite !refs_list_app, !refs_list_cons, !ids_of_app.
        apply perm_ctx. exact Hperm.
      + split; [discriminate|]. intros ? ? ? E; discriminate.
      + exfalso. apply Hnofault. reflexivity.
  Qed.
End Modify.

Definition val_pre (nv : mvalue) (anv : value) (h : heap) : Prop :=
  erase h nv = Some anv /\ vall nf nv /\ vall bsr nv.
Definition val_res (h : heap) (r : mvalue) (ar : value) : Prop :=
  erase h r = Some ar /\ vall nf r /\ vall bsr r.

Lemma f_set_ok : forall i nv anv h v a, val_pre nv anv h -> HeapWF h -> erase h v = Some a -> vall nf v -> vall bsr v ->
  f_set i nv h v <> MFault /\
  (forall h' v' res, f_set i nv h v = MOk (h', v', res) ->
     fpost mvalue value (af_set i anv) (ids nv) ids val_res h v a h' v' res).
Proof.
  intros i nv anv h v a (Env & Hnfn & Hbsn) Hwf He Hnf Hbs. unfold f_set.
  destruct v as [x|b| |r0 a0 len|r0 a0 len cap|r a0 sid cap items];
    try (split; [discriminate|intros ? ? ? E; discriminate]).
  rewrite erase_arr in He. destruct (store_live h r a0 sid) eqn:Es; [|discriminate].
  destruct (erase_list h items) as [ys|] eqn:El; [|discriminate]. inversion He; subst. clear He.
  destruct (nth_error items i) as [old|] eqn:En; [|split; [discriminate|intros ? ? ? E; discriminate]].
  split; [discriminate|]. intros h' v' res E. injection E as Eh Ev Er. subst v' res h.
  pose proof El as El2. apply erase_list_Forall2 in El2.
  destruct (Forall2_nth_error _ _ _ _ _ El2 En) as (aold & Han & Hold).
  apply vall_arr in Hnf. destruct Hnf as [HnfS Hnfi]. apply vall_arr in Hbs. destruct Hbs as [_ Hbsi].
  exists (VArr (upd_nth i anv ys)), aold. cbn [af_set]. rewrite Han. split; [reflexivity|].
  split; [exact Hwf|]. split; [apply hext_refl|]. split; [reflexivity|]. split.
  { rewrite erase_arr, Es.
    assert (El' : erase_list h' (upd_nth i nv items) = Some (upd_nth i anv ys))
      by (apply erase_list_Forall2; apply Forall2_upd_nth; assumption).
    rewrite El'. reflexivity. }
  split.
  { split; [exact Hold|]. rewrite Forall_forall in Hnfi, Hbsi. split; [apply Hnfi|apply Hbsi]; eapply nth_error_In; eauto. }
  split; [apply vall_arr; split; [exact HnfS|apply Forall_upd_nth; assumption]|].
  split; [apply vall_arr; split; [exact I|apply Forall_upd_nth; assumption]|].
  rewrite !ids_arr. destruct (nth_error_split_upd items i old nv En) as [Hs1 Hs2]. rewrite Hs2.
  assert (Hids : ids_of (refs_list items) = ids_of (refs_list (firstn i items ++ old :: skipn (S i) items)))
    by (rewrite <- Hs1; reflexivity).
  rewrite Hids. rewrite !refs_list_app, !refs_list_cons, !ids_of_app.
  apply perm_ctx. apply Permutation_app_comm.
Qed.

Lemma f_push_ok : forall nv anv h v a, val_pre nv anv h -> HeapWF h -> erase h v = Some a -> vall nf v -> vall bsr v ->
  f_push nv h v <> MFault /\
  (forall h' v' res, f_push nv h v = MOk (h', v', res) ->
     fpost unit unit (af_push anv) (ids nv) (fun _ => []) (fun _ _ _ => True) h v a h' v' res).
Proof.
  intros nv anv h v a (Env & Hnfn & Hbsn) Hwf He Hnf Hbs. unfold f_push.
  destruct v as [x|b| |r0 a0 len|r0 a0 len cap|r a0 sid cap items];
    try (split; [discriminate|intros ? ? ? E; discriminate]).
  rewrite erase_arr in He. destruct (store_live h r a0 sid) eqn:Es; [|discriminate].
  destruct (erase_list h items) as [ys|] eqn:El; [|discriminate]. inversion He; subst. clear He.
  apply vall_arr in Hnf. destruct Hnf as [HnfS Hnfi]. apply vall_arr in Hbs. destruct Hbs as [_ Hbsi].
  assert (Hidsapp : ids_of (refs_list (items ++ [nv])) = ids_of (refs_list items) ++ ids nv).
  { rewrite refs_list_app, ids_of_app. cbn [refs_list]. rewrite app_nil_r. reflexivity. }
  destruct (Nat.ltb (length items) cap).
  - split; [discriminate|]. intros h' v' res E. inversion E; subst. clear E.
    exists (VArr (ys ++ [anv])), tt. split; [reflexivity|].
    split; [exact Hwf|]. split; [apply hext_refl|]. split; [reflexivity|]. split.
    { rewrite erase_arr, Es.
      assert (El' : erase_list h' (items ++ [nv]) = Some (ys ++ [anv])).
      { apply erase_list_app; [exact El|]. cbn. rewrite Env. reflexivity. }
      rewrite El'. reflexivity. }
    split; [exact I|].
    split; [apply vall_arr; split; [exact HnfS|apply Forall_app; split; [assumption|constructor; [assumption|constructor]]]|].
    split; [apply vall_arr; split; [exact I|apply Forall_app; split; [assumption|constructor; [assumption|constructor]]]|].
    rewrite !ids_arr, Hidsapp, app_nil_r. apply Permutation_refl.
  - destruct (fresh_sid h) as [h0 sid'] eqn:Ef.
    destruct r; cbn [region_alloc]; try (split; [discriminate|intros ? ? ? E; discriminate]).
    + (* RPers *)
      destruct (pers_alloc h0 (OVec sid')) as [h1 a'] eqn:Ep.
      split; [discriminate|]. intros h' v' res E. inversion E; subst. clear E.
      assert (Hh0 : h0 = fst (fresh_sid h)) by (rewrite Ef; reflexivity).
      assert (Hh1 : h' = fst (pers_alloc h0 (OVec sid'))) by (rewrite Ep; reflexivity).
      assert (Hext : hext anyref h h').
      { eapply hext_trans; [apply hext_fresh_sid|]. rewrite <- Hh0. rewrite Hh1. apply hext_pers_alloc. }
      assert (Ha' : a' = length (h_pers h0)) by (cbn in Ep; inversion Ep; reflexivity).
      exists (VArr (ys ++ [anv])), tt. split; [reflexivity|].
      split; [rewrite Hh1; cbn; apply heapwf_pers; rewrite Hh0; apply heapwf_fresh_sid; exact Hwf|].
      split; [exact Hext|]. split; [rewrite Hh1; cbn; rewrite Hh0; reflexivity|]. split.
      { rewrite erase_arr.
        assert (Hl : store_live h' RPers a' sid' = true).
        { rewrite Hh1, Ha'. unfold store_live. cbn. rewrite nth_error_snoc_new, Nat.eqb_refl. reflexivity. }
        rewrite Hl.
        assert (El' : erase_list h' (items ++ [nv]) = Some (ys ++ [anv])).
        { apply erase_list_app; [eapply erase_list_hext; eauto using Forall_vall_any|].
          cbn. rewrite (erase_hext _ _ _ Hext nv anv (vall_any _) Env). reflexivity. }
        rewrite El'. reflexivity. }
      split; [exact I|].
      split; [apply vall_arr; split; [cbn; discriminate|apply Forall_app; split; [assumption|constructor; [assumption|constructor]]]|].
      split; [apply vall_arr; split; [exact I|apply Forall_app; split; [assumption|constructor; [assumption|constructor]]]|].
      rewrite !ids_arr, Hidsapp, app_nil_r. apply Permutation_refl.
    + (* RFrame is excluded: the array is stored *)
      exfalso. apply HnfS. reflexivity.
Qed.

Lemma f_pop_ok : forall h v a, True -> HeapWF h -> erase h v = Some a -> vall nf v -> vall bsr v ->
  f_pop h v <> MFault /\
  (forall h' v' res, f_pop h v = MOk (h', v', res) ->
     fpost mvalue value af_pop [] ids val_res h v a h' v' res).
Proof.
  intros h v a _ Hwf He Hnf Hbs. unfold f_pop.
  destruct v as [x|b| |r0 a0 len|r0 a0 len cap|r a0 sid cap items];
    try (split; [discriminate|intros ? ? ? E; discriminate]).
  pose proof He as He0. pose proof Hnf as Hnf0. pose proof Hbs as Hbs0.
  rewrite erase_arr in He. destruct (store_live h r a0 sid) eqn:Es; [|discriminate].
  destruct (erase_list h items) as [ys|] eqn:El; [|discriminate]. inversion He; subst. clear He.
  apply vall_arr in Hnf. destruct Hnf as [HnfS Hnfi]. apply vall_arr in Hbs. destruct Hbs as [_ Hbsi].
  pose proof El as El2. apply erase_list_Forall2 in El2.
  destruct items as [|it0 itr].
  - split; [discriminate|]. intros h' v' res E. inversion E; subst. clear E. inversion El2; subst.
    exists (VArr []), VNull. split; [reflexivity|]. split; [exact Hwf|]. split; [apply hext_refl|]. split; [reflexivity|].
    split; [exact He0|]. split; [split; [reflexivity|split; constructor]|]. split; [exact Hnf0|]. split; [exact Hbs0|].
    apply Permutation_refl.
  - split; [discriminate|]. intros h' v' res E.
    assert (E' : (h', v', res) = (h, MArr r a0 sid cap (removelast (it0 :: itr)), last (it0 :: itr) MNull))
      by (inversion E; reflexivity).
    clear E. set (items := it0 :: itr) in *. injection E' as Eh Ev Er. subst h' v' res. rename h into h'.
    assert (Hne : items <> []) by discriminate.
    assert (Hys : ys <> []) by (intros ->; inversion El2).
    pose proof (app_removelast_last MNull Hne) as Hsplit.
    exists (VArr (removelast ys)), (last ys VNull). split.
    { cbn [af_pop]. destruct ys; [congruence|reflexivity]. }
    split; [exact Hwf|]. split; [apply hext_refl|]. split; [reflexivity|]. split.
    { rewrite erase_arr, Es.
      assert (El' : erase_list h' (removelast items) = Some (removelast ys))
        by (apply erase_list_Forall2; apply Forall2_removelast; exact El2).
      change (option_map VArr (erase_list h' (removelast items)) = Some (VArr (removelast ys))).
      rewrite El'. reflexivity. }
    assert (Hnfs : Forall (vall nf) (removelast items) /\ vall nf (last items MNull)).
    { rewrite Hsplit in Hnfi. apply Forall_app in Hnfi. destruct Hnfi as [H1 H2]. inversion H2; subst. auto. }
    assert (Hbss : Forall (vall bsr) (removelast items) /\ vall bsr (last items MNull)).
    { rewrite Hsplit in Hbsi. apply Forall_app in Hbsi. destruct Hbsi as [H1 H2]. inversion H2; subst. auto. }
    split.
    { change (val_res h' (last items MNull) (last ys VNull)).
      split; [|split; tauto]. apply (Forall2_last (fun v a => erase h' v = Some a)); [exact El2|reflexivity]. }
    split; [apply vall_arr; split; [exact HnfS|tauto]|].
    split; [apply vall_arr; split; [exact I|tauto]|].
    rewrite !ids_arr, app_nil_r.
    assert (Hids : ids_of (refs_list items) = ids_of (refs_list (removelast items ++ [last items MNull])))
      by (rewrite <- Hsplit; reflexivity).
    rewrite Hids, refs_list_app, ids_of_app. cbn [refs_list]. rewrite app_nil_r. apply Permutation_refl.
Qed.

(* ArrayBuiltin::reverse (added with MemEval): an in-place permutation *)
Lemma f_rev_ok : forall h v a, True -> HeapWF h -> erase h v = Some a -> vall nf v -> vall bsr v ->
  f_rev h v <> MFault /\
  (forall h' v' res, f_rev h v = MOk (h', v', res) ->
     fpost unit unit af_rev [] (fun _ => []) (fun _ _ _ => True) h v a h' v' res).
Proof.
  intros h v a _ Hwf He Hnf Hbs. unfold f_rev.
  destruct v as [x|b| |r0 a0 len|r0 a0 len cap|r a0 sid cap items];
    try (split; [discriminate|intros ? ? ? E; discriminate]).
  rewrite erase_arr in He. destruct (store_live h r a0 sid) eqn:Es; [|discriminate].
  destruct (erase_list h items) as [ys|] eqn:El; [|discriminate]. inversion He; subst. clear He.
  apply vall_arr in Hnf. destruct Hnf as [HnfS Hnfi]. apply vall_arr in Hbs. destruct Hbs as [_ Hbsi].
  split; [discriminate|]. intros h' v' res E. inversion E; subst. clear E.
  exists (VArr (rev ys)), tt. split; [reflexivity|].
  split; [exact Hwf|]. split; [apply hext_refl|]. split; [reflexivity|]. split.
  { rewrite erase_arr, Es.
    assert (El' : erase_list h' (rev items) = Some (rev ys)).
    { apply erase_list_Forall2. apply Forall2_rev. apply erase_list_Forall2. exact El. }
    rewrite El'. reflexivity. }
  split; [exact I|].
  split; [apply vall_arr; split; [exact HnfS|apply Forall_rev; assumption]|].
  split; [apply vall_arr; split; [exact I|apply Forall_rev; assumption]|].
  rewrite !ids_arr, !app_nil_r, !ids_of_refs_list.
  apply Permutation_flat_map. apply Permutation_sym. apply Permutation_rev.
Qed.

(* ------------------------------------------------------------------ *)
(* one machine step preserves the invariant and the agreement *)

Definition StepOK (o : op) : Prop := forall st ast, MemInv st -> Sim st ast ->
  step cfg_repaired st o <> MFault /\
  (forall st', step cfg_repaired st o = MOk st' ->
     exists ast', astep ast o = Some ast' /\ MemInv st' /\ Sim st' ast').

Lemma mk_inv : forall h e out tmps ctl,
  Good h (env_vals e ++ out) (tmps ++ all_saved ctl) -> CtlOK ctl (length (h_frame h)) ->
  MemInv (mkSt h e out tmps ctl).
Proof. intros. apply meminv_good. split; assumption. Qed.

Lemma mk_sim : forall h e out tmps ctl ae aout atmps actl,
  Forall2 (Forall2 (prel (vrel h))) e ae -> Forall2 (vrel h) out aout -> Forall2 (vrel h) tmps atmps ->
  Forall2 (crel (vrel h)) ctl actl -> Sim (mkSt h e out tmps ctl) (mkASt ae aout atmps actl).
Proof. intros. constructor; assumption. Qed.

Ltac start :=
  intros [h e out tmps ctl] [ae aout atmps actl] Hinv Hsim;
  apply meminv_good in Hinv; unfold stored, temps in Hinv;
  cbn [m_heap m_env m_out m_tmps m_ctl] in Hinv; destruct Hinv as [HG HC];
  destruct Hsim as [Se So St Sc]; cbn [m_heap m_env m_out m_tmps m_ctl a_env a_out a_tmps a_ctl] in *.

Lemma env_any : forall h h' e ae, hext anyref h h' ->
  Forall2 (Forall2 (prel (vrel h))) e ae -> Forall2 (Forall2 (prel (vrel h'))) e ae.
Proof. intros. eapply env_transfer; eauto using Forall_vall_any. Qed.
Lemma vals_any : forall h h' l al, hext anyref h h' -> Forall2 (vrel h) l al -> Forall2 (vrel h') l al.
Proof. intros. eapply vrel_transfer; eauto using Forall_vall_any. Qed.
Lemma ctl_any : forall h h' c ac, hext anyref h h' -> Forall2 (crel (vrel h)) c ac -> Forall2 (crel (vrel h')) c ac.
Proof. intros. eapply ctl_transfer; eauto using Forall_vall_any. Qed.

Lemma good_any : forall h h' s t, Good h s t -> HeapWF h' -> hext anyref h h' -> Good h' s t.
Proof. intros. eapply good_hext; eauto using Forall_vall_any. Qed.

(* a new temporary that owns no pool slot *)
Lemma good_new_t : forall h s t v, Good h s t -> erase h v <> None -> vall bsr v -> ids v = [] -> Good h s (v :: t).
Proof.
  intros h s t v HG He Hb Hi. apply good_join_t; auto.
  - rewrite Hi. constructor.
  - rewrite Hi. intros i [].
Qed.

Lemma step_scalar : forall s, StepOK (OScalar s).
Proof.
  intros s. start. split; [discriminate|]. intros st' E. cbn in E. inversion E; subst. clear E.
  eexists. split; [reflexivity|]. split.
  - apply mk_inv; [|exact HC]. cbn [app]. apply good_new_t; auto; destruct s; cbn; try discriminate; constructor.
  - apply mk_sim; [exact Se|exact So| |exact Sc]. constructor; [|exact St]. destruct s; reflexivity.
Qed.

Lemma step_lit : forall b, StepOK (OLit b).
Proof.
  intros b. start. split; [cbn; discriminate|]. intros st' E. cbn in E. inversion E; subst. clear E.
  pose proof (hext_static_alloc h b) as Hext. cbn [static_alloc fst] in Hext.
  assert (Hwf' : HeapWF (set_static h (h_static h ++ [b]))) by (apply heapwf_static; apply HG).
  eexists. split; [reflexivity|]. split.
  - apply mk_inv; [|exact HC]. cbn [app]. apply good_new_t.
    + eapply good_any; eauto.
    + cbn. rewrite nth_error_snoc_new, check_len_self. discriminate.
    + constructor; [reflexivity|constructor].
    + reflexivity.
  - apply mk_sim; eauto using env_any, vals_any, ctl_any.
    constructor; [|eauto using vals_any]. unfold vrel. cbn. rewrite nth_error_snoc_new, check_len_self. reflexivity.
Qed.

Lemma step_drop : StepOK ODrop.
Proof.
  start. split; [cbn; destruct tmps; discriminate|]. intros st' E. cbn in E.
  destruct tmps as [|v rest]; [discriminate|]. inversion E; subst. clear E.
  inversion St as [|? a ? arest Hv Hrest]; subst. eexists. split; [reflexivity|]. split.
  - apply mk_inv; [|exact HC]. cbn [app] in HG. eapply good_drop_t; eauto.
  - apply mk_sim; assumption.
Qed.

Lemma step_pushscope : StepOK OPushScope.
Proof.
  start. split; [discriminate|]. intros st' E. cbn in E. inversion E; subst. clear E.
  eexists. split; [reflexivity|]. split.
  - apply mk_inv; [|exact HC]. exact HG.
  - apply mk_sim; [|exact So|exact St|exact Sc]. constructor; [constructor|exact Se].
Qed.

Lemma live_erase_list : forall h l, Forall (fun v => erase h v <> None) l -> exists xs, erase_list h l = Some xs.
Proof.
  intros h l H. induction H as [|v l Hv Hl IH]; [exists []; reflexivity|].
  destruct IH as [xs Hxs]. destruct (erase h v) as [x|] eqn:E; [|congruence].
  exists (x :: xs). rewrite erase_list_cons, E, Hxs. reflexivity.
Qed.

Lemma erase_list_live : forall h l xs, erase_list h l = Some xs -> Forall (fun v => erase h v <> None) l.
Proof.
  intros h l xs H. apply erase_list_Forall2 in H. induction H as [|v a l xs Hv Hl IH]; constructor; auto.
  rewrite Hv. discriminate.
Qed.

Lemma good_drop_app : forall l h s t, Good h s (l ++ t) -> Good h s t.
Proof. induction l as [|v l IH]; intros h s t H; [exact H|]. apply IH. eapply good_drop_t. exact H. Qed.

Lemma good_bundle : forall h s l t r a sid cap items, Permutation items l -> Good h s (l ++ t) ->
  store_live h r a sid = true -> Good h s (MArr r a sid cap items :: t).
Proof.
  intros h s l t r a sid cap items Hperm (Hwf & Hl & Hn & Hf & Hb) Hlive.
  assert (Hp1 : Permutation (s ++ l ++ t) (l ++ s ++ t)).
  { rewrite !app_assoc. apply Permutation_app_tail. apply Permutation_app_comm. }
  assert (Hp2 : Permutation (MArr r a sid cap items :: s ++ t) (s ++ MArr r a sid cap items :: t)) by apply Permutation_middle.
  pose proof (Permutation_Forall Hp1 Hl) as Hl1. apply Forall_app in Hl1. destruct Hl1 as [Hll Hlst].
  pose proof (Permutation_Forall Hp1 Hb) as Hb1. apply Forall_app in Hb1. destruct Hb1 as [Hbl Hbst].
  pose proof (Permutation_NoDup (Permutation_flat_map ids Hp1) Hn) as Hn1. rewrite flat_map_app in Hn1.
  refine (conj Hwf (conj _ (conj _ (conj Hf _)))).
  - eapply Permutation_Forall; [exact Hp2|]. constructor; [|exact Hlst].
    rewrite erase_arr, Hlive.
    destruct (live_erase_list h items) as [xs Hxs].
    { eapply Permutation_Forall; [apply Permutation_sym; exact Hperm|exact Hll]. }
    rewrite Hxs. discriminate.
  - eapply Permutation_NoDup; [apply Permutation_flat_map; exact Hp2|]. cbn [flat_map].
    rewrite ids_arr, ids_of_refs_list.
    eapply Permutation_NoDup; [|exact Hn1]. apply Permutation_app_tail.
    apply Permutation_flat_map. apply Permutation_sym. exact Hperm.
  - eapply Permutation_Forall; [exact Hp2|]. constructor; [|exact Hbst].
    apply vall_arr. split; [exact I|]. eapply Permutation_Forall; [apply Permutation_sym; exact Hperm|exact Hbl].
Qed.

Lemma good_unbundle : forall h s t r a sid cap items, Good h s (MArr r a sid cap items :: t) -> Good h s (items ++ t).
Proof.
  intros h s t r a sid cap items (Hwf & Hl & Hn & Hf & Hb).
  assert (Hp2 : Permutation (s ++ MArr r a sid cap items :: t) (MArr r a sid cap items :: s ++ t))
    by (apply Permutation_sym, Permutation_middle).
  assert (Hp1 : Permutation (items ++ s ++ t) (s ++ items ++ t)).
  { rewrite !app_assoc. apply Permutation_app_tail. apply Permutation_app_comm. }
  pose proof (Permutation_Forall Hp2 Hl) as Hl2. inversion Hl2 as [|? ? Harr Hlst]; subst.
  pose proof (Permutation_Forall Hp2 Hb) as Hb2. inversion Hb2 as [|? ? Hbarr Hbst]; subst.
  pose proof (Permutation_NoDup (Permutation_flat_map ids Hp2) Hn) as Hn2. cbn [flat_map] in Hn2.
  rewrite ids_arr, ids_of_refs_list in Hn2.
  rewrite erase_arr in Harr. destruct (store_live h r a sid); [|congruence].
  destruct (erase_list h items) as [xs|] eqn:El; [|cbn in Harr; congruence].
  apply vall_arr in Hbarr. destruct Hbarr as [_ Hbitems].
  refine (conj Hwf (conj _ (conj _ (conj Hf _)))).
  - eapply Permutation_Forall; [exact Hp1|]. apply Forall_app. split; [eapply erase_list_live; eauto|exact Hlst].
  - eapply Permutation_NoDup; [apply Permutation_flat_map; exact Hp1|]. rewrite flat_map_app. exact Hn2.
  - eapply Permutation_Forall; [exact Hp1|]. apply Forall_app. split; assumption.
Qed.

Lemma nth_error_perm {A} : forall (l : list A) i x, nth_error l i = Some x -> exists rest, Permutation l (x :: rest).
Proof.
  intros l i x H. destruct (nth_error_split_upd l i x x H) as [Hs _].
  exists (firstn i l ++ skipn (S i) l). rewrite Hs at 1. apply Permutation_sym, Permutation_middle.
Qed.

Lemma step_read : forall x, StepOK (ORead x).
Proof.
  intros x. start. cbn [step m_env m_heap cfg_repaired c_alias].
  pose proof (env_find_F2 _ x e ae Se) as Hf.
  destruct (env_find x e) as [v|] eqn:Ef; [|split; [discriminate|intros ? E; discriminate]].
  destruct Hf as (a & Haf & Hva).
  assert (Hin : In v ((env_vals e ++ out) ++ tmps ++ all_saved ctl)).
  { apply in_or_app. left. apply in_or_app. left. eapply env_find_in; eauto. }
  destruct (good_in _ _ _ _ HG Hin) as ((xv & Exv) & Hbv & _).
  destruct HG as (Hwf & HGrest). pose proof (conj Hwf HGrest) as HG.
  destruct (clone_spec v h xv Hwf Exv Hbv) as (h1 & v' & Hc & Hwf1 & Hext & Ev' & Hids & Hbs' & Hfr).
  rewrite Hc. split; [discriminate|]. intros st' E. inversion E; subst. clear E.
  cbn [astep a_env a_out a_tmps a_ctl]. rewrite Haf. eexists. split; [reflexivity|]. split.
  - apply mk_inv; [|eapply ctlok_mono; eauto]. cbn [app]. apply good_new_t; auto.
    + eapply good_any; eauto.
    + rewrite Ev'. discriminate.
  - apply mk_sim; [eauto using env_any|eauto using vals_any| |eauto using ctl_any]. constructor; [|eauto using vals_any].
    unfold vrel in *. congruence.
Qed.

Lemma step_interp : forall x, StepOK (OInterp x).
Proof.
  intros x. start. cbn [step m_env m_heap].
  pose proof (env_find_F2 _ x e ae Se) as Hf.
  destruct (env_find x e) as [v|] eqn:Ef; [|split; [discriminate|intros ? E; discriminate]].
  destruct Hf as (a & Haf & Hva).
  assert (Hin : In v ((env_vals e ++ out) ++ tmps ++ all_saved ctl)).
  { apply in_or_app. left. apply in_or_app. left. eapply env_find_in; eauto. }
  destruct (good_in _ _ _ _ HG Hin) as ((xv & Exv) & Hbv & _).
  rewrite Exv. cbn [frame_alloc]. split; [discriminate|]. intros st' E. inversion E; subst. clear E.
  pose proof (hext_frame_alloc h (OBytes (display xv))) as Hext. cbn [frame_alloc fst] in Hext.
  assert (Hwf' : HeapWF (set_frame h (h_frame h ++ [OBytes (display xv)]))) by (apply heapwf_frame; apply HG).
  assert (Enew : erase (set_frame h (h_frame h ++ [OBytes (display xv)]))
                   (MOwned RFrame (length (h_frame h)) (length (display xv)) (length (display xv))) = Some (VStr (display xv))).
  { cbn. rewrite nth_error_snoc_new, check_len_self. reflexivity. }
  cbn [astep a_env a_out a_tmps a_ctl]. rewrite Haf. eexists. split; [reflexivity|]. split.
  - apply mk_inv; [|eapply ctlok_mono; [|exact HC]; cbn; rewrite app_length; lia]. cbn [app]. apply good_new_t.
    + eapply good_any; eauto.
    + rewrite Enew. discriminate.
    + constructor; [exact I|constructor].
    + reflexivity.
  - apply mk_sim; [eauto using env_any|eauto using vals_any| |eauto using ctl_any]. constructor; [|eauto using vals_any].
    unfold vrel in *. rewrite Enew. congruence.
Qed.

Lemma str_bytes_sim : forall h v a, erase h v = Some a ->
  str_bytes h v <> MFault /\ (forall b, str_bytes h v = MOk b -> a = VStr b).
Proof.
  intros h v a He. destruct v as [x|b| |r a0 len|r a0 len cap|r a0 sid cap items]; cbn [str_bytes];
    try (split; [discriminate|intros ? E; discriminate]).
  - cbn [erase] in He. destruct (read_bytes h r a0 len) as [b|]; [|discriminate]. cbn.
    split; [discriminate|]. intros b' E. inversion E; subst. inversion He. reflexivity.
  - cbn [erase] in He. destruct (read_bytes h r a0 len) as [b|]; [|discriminate]. cbn.
    split; [discriminate|]. intros b' E. inversion E; subst. inversion He. reflexivity.
Qed.

Lemma step_concat : StepOK OConcat.
Proof.
  start. cbn [step m_tmps m_heap].
  destruct tmps as [|r [|l rest]]; try (split; [discriminate|intros ? E; discriminate]).
  inversion St as [|? ar ? ? Hr St1]; subst. inversion St1 as [|? al ? arest Hl Hrest]; subst.
  destruct (str_bytes_sim _ _ _ Hl) as [Hnfl Hokl]. destruct (str_bytes_sim _ _ _ Hr) as [Hnfr Hokr].
  destruct (str_bytes h l) as [bl| |] eqn:El; cbn [mbind]; try (split; [discriminate|intros ? E; discriminate]);
    [|exfalso; apply Hnfl; reflexivity].
  destruct (str_bytes h r) as [br| |] eqn:Er; cbn [mbind]; try (split; [discriminate|intros ? E; discriminate]);
    [|exfalso; apply Hnfr; reflexivity].
  cbn [frame_alloc]. split; [discriminate|]. intros st' E. inversion E; subst. clear E.
  rewrite (Hokl _ eq_refl), (Hokr _ eq_refl).
  pose proof (hext_frame_alloc h (OBytes (bl ++ br))) as Hext. cbn [frame_alloc fst] in Hext.
  assert (Hwf' : HeapWF (set_frame h (h_frame h ++ [OBytes (bl ++ br)]))) by (apply heapwf_frame; apply HG).
  assert (Enew : erase (set_frame h (h_frame h ++ [OBytes (bl ++ br)]))
                   (MOwned RFrame (length (h_frame h)) (length (bl ++ br)) (length (bl ++ br))) = Some (VStr (bl ++ br))).
  { cbn. rewrite nth_error_snoc_new, check_len_self. reflexivity. }
  eexists. split; [reflexivity|]. split.
  - apply mk_inv; [|eapply ctlok_mono; [|exact HC]; cbn; rewrite app_length; lia]. cbn [app] in *. apply good_new_t.
    + eapply good_any; eauto. eapply good_drop_t. eapply good_drop_t. exact HG.
    + rewrite Enew. discriminate.
    + constructor; [exact I|constructor].
    + reflexivity.
  - apply mk_sim; [eauto using env_any|eauto using vals_any| |eauto using ctl_any]. constructor; [exact Enew|eauto using vals_any].
Qed.

Lemma firstn_skipn_perm {A} : forall n (l : list A), Permutation (rev (firstn n l)) (firstn n l).
Proof. intros. apply Permutation_sym, Permutation_rev. Qed.

Lemma step_mkarr : forall n, StepOK (OMkArr n).
Proof.
  intros n. start. cbn [step m_tmps m_heap].
  destruct (Nat.leb n (length tmps)) eqn:Eleb; [|split; [discriminate|intros ? E; discriminate]].
  cbn [fresh_sid frame_alloc]. split; [discriminate|]. intros st' E. inversion E; subst. clear E.
  match goal with |- context [set_frame ?a ?b] => set (h1 := set_frame a b) end.
  assert (Hext : hext anyref h h1).
  { eapply hext_trans; [apply hext_fresh_sid|apply (hext_frame_alloc (fst (fresh_sid h)) (OVec (h_next h)))]. }
  assert (Hwf1 : HeapWF h1) by (apply heapwf_frame; apply (heapwf_fresh_sid h); apply HG).
  assert (Hlive : store_live h1 RFrame (length (h_frame h)) (h_next h) = true).
  { unfold store_live. cbn. rewrite nth_error_snoc_new, Nat.eqb_refl. reflexivity. }
  assert (Hlen : length tmps = length atmps) by (eapply Forall2_len; eauto).
  cbn [astep a_env a_out a_tmps a_ctl]. rewrite <- Hlen, Eleb. eexists. split; [reflexivity|]. split.
  - apply mk_inv; [|eapply ctlok_mono; [|exact HC]; cbn; rewrite app_length; lia]. cbn [app].
    apply (good_bundle h1 _ (firstn n tmps)); [apply firstn_skipn_perm| |exact Hlive].
    rewrite app_assoc, firstn_skipn. eapply good_any; eauto.
  - apply mk_sim; [eauto using env_any|eauto using vals_any| |eauto using ctl_any]. constructor.
    + unfold vrel. rewrite erase_arr, Hlive.
      assert (El : erase_list h1 (rev (firstn n tmps)) = Some (rev (firstn n atmps))).
      { apply erase_list_Forall2. apply Forall2_rev. apply Forall2_firstn. eapply vals_any; eauto. }
      rewrite El. reflexivity.
    + apply Forall2_skipn. eapply vals_any; eauto.
Qed.

Lemma step_index : forall i, StepOK (OIndex i).
Proof.
  intros i. start. cbn [step m_tmps m_heap].
  destruct tmps as [|[x|b| |r a len|r a len cap|r a sid cap items] rest];
    try (split; [discriminate|intros ? E; discriminate]).
  inversion St as [|? aarr ? arest Harr Hrest]; subst. unfold vrel in Harr. rewrite erase_arr in Harr.
  destruct (store_live h r a sid) eqn:Es; [|discriminate].
  destruct (erase_list h items) as [ys|] eqn:El; [|discriminate]. inversion Harr; subst. clear Harr.
  destruct (nth_error items i) as [el|] eqn:En; [|split; [discriminate|intros ? E; discriminate]].
  split; [discriminate|]. intros st' E. inversion E; subst. clear E.
  apply erase_list_Forall2 in El. destruct (Forall2_nth_error _ _ _ _ _ El En) as (ael & Hael & Hel).
  cbn [astep a_env a_out a_tmps a_ctl]. rewrite Hael. eexists. split; [reflexivity|]. split.
  - apply mk_inv; [|exact HC]. cbn [app] in *. apply good_unbundle in HG.
    destruct (nth_error_perm _ _ _ En) as [others Hp].
    eapply good_perm in HG; [|apply Permutation_refl|apply Permutation_app_tail; exact Hp].
    cbn [app] in HG. apply good_split_t in HG. destruct HG as (HG0 & Hlive & Hb & Hn & Hd).
    apply good_join_t; [eapply good_drop_app; eauto|destruct Hlive as [? ->]; discriminate|exact Hb|exact Hn|].
    intros j Hj Hj2. apply (Hd j Hj). rewrite !flat_map_app in *. apply in_app_or in Hj2.
    apply in_or_app. destruct Hj2 as [Hj2|Hj2]; [left; exact Hj2|right; apply in_or_app; right; exact Hj2].
  - apply mk_sim; [exact Se|exact So| |exact Sc]. constructor; [exact Hel|exact Hrest].
Qed.

Lemma step_promote : StepOK OPromote.
Proof.
  start. cbn [step m_tmps m_heap].
  destruct tmps as [|v rest]; [split; [discriminate|intros ? E; discriminate]|].
  inversion St as [|? a ? arest Hv Hrest]; subst. cbn [app] in HG.
  destruct (good_split_t _ _ _ _ HG) as (_ & _ & Hbv & Hnv & _).
  destruct HG as (Hwf & HGrest). pose proof (conj Hwf HGrest) as HG.
  destruct (promote_spec v h a Hwf Hv Hbv Hnv) as (h1 & v' & Hp & Hpost).
  rewrite Hp. split; [discriminate|]. intros st' E. inversion E; subst. clear E.
  pose proof Hpost as (Hwf1 & Hext & Ev' & _ & _ & _ & _ & Hfr).
  cbn [astep a_env a_out a_tmps a_ctl]. eexists. split; [reflexivity|]. split.
  - apply mk_inv; [|rewrite Hfr; exact HC]. cbn [app]. eapply good_promote_t; eauto.
  - apply mk_sim; [eauto using env_any|eauto using vals_any| |eauto using ctl_any]. constructor; [exact Ev'|eauto using vals_any].
Qed.

Lemma step_shout : StepOK OShout.
Proof.
  start. cbn [step m_tmps m_heap].
  destruct tmps as [|v rest]; [split; [discriminate|intros ? E; discriminate]|].
  inversion St as [|? a ? arest Hv Hrest]; subst. cbn [app] in HG.
  destruct (good_split_t _ _ _ _ HG) as (_ & _ & Hbv & Hnv & _).
  destruct HG as (Hwf & HGrest). pose proof (conj Hwf HGrest) as HG.
  destruct (promote_spec v h a Hwf Hv Hbv Hnv) as (h1 & v' & Hp & Hpost).
  rewrite Hp. split; [discriminate|]. intros st' E. inversion E; subst. clear E.
  pose proof Hpost as (Hwf1 & Hext & Ev' & Hnf' & _ & _ & _ & Hfr).
  cbn [astep a_env a_out a_tmps a_ctl]. eexists. split; [reflexivity|]. split.
  - apply mk_inv; [|rewrite Hfr; exact HC].
    eapply good_perm; [| apply Permutation_refl | eapply good_move_ts; [eapply good_promote_t; eauto|exact Hnf']].
    rewrite app_assoc. apply Permutation_cons_append.
  - apply mk_sim; eauto using env_any, vals_any, ctl_any.
    apply Forall2_app; [eauto using vals_any|]. constructor; [exact Ev'|constructor].
Qed.

(* ------------------------------------------------------------------ *)
(* overwrite_slot: free the old value, then promote the new one *)

Lemma good_free_hext : forall h s old t h1, Good h s (old :: t) -> return_to_pool h old = Some h1 ->
  hext (avoid (ids old)) h h1 /\ Forall (vall (avoid (ids old))) (s ++ t) /\ h_frame h1 = h_frame h.
Proof.
  intros h s old t h1 HG Hr.
  destruct (good_split_t _ _ _ _ HG) as (_ & _ & _ & _ & Hdisj).
  destruct HG as (Hwf & _). destruct (return_to_pool_spec _ _ _ Hwf Hr) as (_ & Hext & (_ & _ & Hfr)).
  split; [exact Hext|]. split; [|exact Hfr].
  apply Forall_forall. intros w Hw. apply avoid_of_ids. intros i Hi Hio.
  apply (Hdisj i Hio). apply in_flat_map. exists w. split; assumption.
Qed.

Lemma overwrite_core : forall h s old v t a, Good h s (old :: v :: t) -> erase h v = Some a ->
  exists h1 h2 v', return_to_pool h old = Some h1 /\ promote h1 v = Some (h2, v') /\
    Good h2 (v' :: s) t /\ erase h2 v' = Some a /\ hext (avoid (ids old)) h h2 /\
    Forall (vall (avoid (ids old))) (s ++ t) /\ h_frame h2 = h_frame h.
Proof.
  intros h s old v t a HG Hv.
  destruct (good_split_t _ _ _ _ HG) as (_ & (xo & Exo) & _).
  destruct (return_to_pool h old) as [h1|] eqn:Er; [|exfalso; eapply return_to_pool_live; eauto].
  destruct (good_free_hext _ _ _ _ _ HG Er) as (Hext1 & Hav & Hfr1).
  pose proof (good_free_t _ _ _ _ _ HG Er) as HG2.
  assert (Hv1 : erase h1 v = Some a).
  { eapply erase_hext; [exact Hext1| |exact Hv]. rewrite Forall_forall in Hav. apply Hav.
    apply in_or_app. right. left. reflexivity. }
  destruct (good_split_t _ _ _ _ HG2) as (_ & _ & Hbv & Hnv & _).
  destruct HG2 as (Hwf1 & HG2rest). pose proof (conj Hwf1 HG2rest) as HG2.
  destruct (promote_spec v h1 a Hwf1 Hv1 Hbv Hnv) as (h2 & v' & Hp & Hpost).
  pose proof Hpost as (Hwf2 & Hext2 & Ev' & Hnf' & _ & _ & _ & Hfr2).
  exists h1, h2, v'. split; [reflexivity|]. split; [exact Hp|]. split.
  { apply good_move_ts; [eapply good_promote_t; eauto|exact Hnf']. }
  split; [exact Ev'|]. split.
  { eapply hext_trans; [exact Hext1|]. eapply hext_weaken; [|exact Hext2]. intros; exact I. }
  split; [|congruence].
  apply Forall_forall. intros w Hw. rewrite Forall_forall in Hav. apply Hav.
  apply in_app_or in Hw. apply in_or_app. destruct Hw as [Hw|Hw]; [left; exact Hw|right; right; exact Hw].
Qed.

Lemma Forall_perm_cons_null : forall (P : mvalue -> Prop) l R, Permutation l (MNull :: R) -> P MNull -> Forall P R -> Forall P l.
Proof.
  intros P l R Hp H0 HR. eapply Permutation_Forall; [apply Permutation_sym; exact Hp|]. constructor; assumption.
Qed.

Lemma vall_null : forall P, vall P MNull.
Proof. intros P. constructor. Qed.

Ltac ill := split; [intros E; cbv iota in E; discriminate|intros ? E; cbv iota in E; discriminate].

Lemma step_assign : forall x, StepOK (OAssign x).
Proof.
  intros x. start. cbn [step m_tmps m_env m_heap].
  destruct tmps as [|v rest]; [ill|].
  inversion St as [|? a ? arest Hv Hrest]; subst.
  pose proof (env_find_F2 _ x e ae Se) as Hf.
  destruct (env_find x e) as [old|] eqn:Ef; [|ill].
  destruct Hf as (aold & Hafind & Hold).
  destruct (env_set_some x MNull e old Ef) as [em Hem].
  destruct (env_set_perm x MNull e old em Ef Hem) as (R & HpR & HpM).
  assert (HG1 : Good h (R ++ out) (old :: v :: rest ++ all_saved ctl)).
  { apply good_move_st. eapply good_perm; [|apply Permutation_refl|exact HG].
    change (old :: R ++ out) with ((old :: R) ++ out). apply Permutation_app_tail. exact HpR. }
  destruct (overwrite_core _ _ _ _ _ _ HG1 Hv) as (h1 & h2 & v' & Er & Hp & HG2 & Ev' & Hext & Hav & Hfr).
  unfold overwrite. rewrite Er, Hp.
  destruct (env_set_some x v' e old Ef) as [e' He']. rewrite He'.
  split; [discriminate|]. intros st' E. inversion E; subst. clear E.
  apply Forall_app in Hav. destruct Hav as [HavRo Havt]. apply Forall_app in HavRo. destruct HavRo as [HavR Havo].
  apply Forall_app in Havt. destruct Havt as [Havr Havs].
  (* the environment, through the placeholder *)
  destruct (env_set_F2 (vrel h) x MNull VNull e ae em Se eq_refl Hem) as (aem & Haem & Fem).
  assert (Fem2 : Forall2 (Forall2 (prel (vrel h2))) em aem).
  { eapply env_transfer; [exact Hext| |exact Fem].
    eapply Forall_perm_cons_null; [exact HpM|apply vall_null|exact HavR]. }
  assert (He'm : env_set x v' em = Some e') by (rewrite (env_set_twice _ _ v' _ _ Hem); exact He').
  destruct (env_set_F2 (vrel h2) x v' a em aem e' Fem2 Ev' He'm) as (ae' & Hae' & Fe').
  assert (Hae : aenv_set x a ae = Some ae') by (rewrite <- (env_set_twice _ _ a _ _ Haem); exact Hae').
  cbn [astep a_env a_out a_tmps a_ctl]. rewrite Hafind, Hae. eexists. split; [reflexivity|]. split.
  - apply mk_inv; [|rewrite Hfr; exact HC].
    destruct (env_set_perm x v' e old e' Ef He') as (R' & HpR' & HpE').
    eapply good_perm; [|apply Permutation_refl|exact HG2].
    change (v' :: R ++ out) with ((v' :: R) ++ out). apply Permutation_app_tail.
    apply Permutation_sym. eapply perm_trans; [exact HpE'|]. apply perm_skip.
    eapply Permutation_cons_inv. eapply perm_trans; [apply Permutation_sym; exact HpR'|exact HpR].
  - apply mk_sim; [exact Fe'| | |].
    + eapply vrel_transfer; eauto.
    + eapply vrel_transfer; eauto.
    + eapply ctl_transfer; eauto.
Qed.

Lemma good_move_st_app : forall l h s t, Good h (l ++ s) t -> Good h s (l ++ t).
Proof.
  induction l as [|v l IH]; intros h s t H; [exact H|].
  cbn [app] in *. apply good_move_st in H.
  eapply good_perm; [apply Permutation_refl| |apply IH; eapply good_perm; [apply Permutation_refl| |exact H]].
  - apply Permutation_sym. apply Permutation_middle.
  - apply Permutation_refl.
Qed.

Lemma good_replace : forall h h' s olds news t, Good h s (olds ++ t) -> HeapWF h' -> hext anyref h h' ->
  Forall (fun v => erase h' v <> None) news -> Forall (vall bsr) news ->
  Permutation (flat_map ids news) (flat_map ids olds) -> Good h' s (news ++ t).
Proof.
  intros h h' s olds news t HG Hwf' Hext Hlive Hbs Hperm.
  pose proof (good_drop_app _ _ _ _ HG) as HG0. pose proof (good_any _ _ _ _ HG0 Hwf' Hext) as (_ & Hl0 & Hn0 & Hf0 & Hb0).
  destruct HG as (_ & _ & Hn & _ & _).
  assert (Hp : forall l : list mvalue, Permutation (s ++ l ++ t) (l ++ s ++ t)).
  { intros l. rewrite !app_assoc. apply Permutation_app_tail. apply Permutation_app_comm. }
  refine (conj Hwf' (conj _ (conj _ (conj Hf0 _)))).
  - eapply Permutation_Forall; [apply Permutation_sym; apply Hp|]. apply Forall_app. split; assumption.
  - eapply Permutation_NoDup; [apply Permutation_flat_map; apply Permutation_sym; apply Hp|].
    rewrite flat_map_app. eapply Permutation_NoDup; [apply Permutation_app_tail; apply Permutation_sym; exact Hperm|].
    rewrite <- flat_map_app. eapply Permutation_NoDup; [apply Permutation_flat_map; apply Hp|exact Hn].
  - eapply Permutation_Forall; [apply Permutation_sym; apply Hp|]. apply Forall_app. split; assumption.
Qed.

Lemma good_return_all2 : forall olds h s t, Good h s (olds ++ t) ->
  exists h1, return_all h olds = Some h1 /\ Good h1 s t /\ same_bump h h1 /\
    hext (avoid (flat_map ids olds)) h h1 /\ Forall (vall (avoid (flat_map ids olds))) (s ++ t).
Proof.
  intros olds h s t HG. pose proof HG as (Hwf & Hl & Hn & _ & _).
  assert (Hp : Permutation (s ++ olds ++ t) (olds ++ s ++ t)).
  { rewrite !app_assoc. apply Permutation_app_tail. apply Permutation_app_comm. }
  pose proof (Permutation_Forall Hp Hl) as Hl1. apply Forall_app in Hl1. destruct Hl1 as [Hlo _].
  pose proof (Permutation_NoDup (Permutation_flat_map ids Hp) Hn) as Hn1. rewrite flat_map_app in Hn1.
  destruct (nodup_app_elim _ _ Hn1) as (Hno & _ & Hdisj).
  destruct (return_all_spec olds h Hwf Hlo Hno) as (h1 & Hra & Hwf1 & Hext & Hsb).
  assert (Hav : Forall (vall (avoid (flat_map ids olds))) (s ++ t)).
  { apply Forall_forall. intros w Hw. apply avoid_of_ids. intros i Hi Hio.
    apply (Hdisj i Hio). apply in_flat_map. exists w. split; assumption. }
  exists h1. split; [exact Hra|]. split; [|split; [exact Hsb|split; [exact Hext|exact Hav]]].
  eapply good_hext; [eapply good_drop_app; exact HG|exact Hwf1|exact Hext|exact Hav].
Qed.

Lemma floor_sim : forall Q (ctl : list ctl) (actl : list actl), Forall2 (crel Q) ctl actl ->
  match ctl with [] => 0 | c :: _ => c_floor c end = match actl with [] => 0 | c :: _ => ac_floor c end.
Proof. intros Q ctl actl H. destruct H as [|c ac ? ? (H1 & H2 & H3) _]; [reflexivity|exact H2]. Qed.

Lemma step_popscope : StepOK OPopScope.
Proof.
  start. cbn [step m_env m_heap]. unfold floor_of. cbn [m_ctl m_out m_tmps].
  destruct e as [|sc e0]; [ill|].
  inversion Se as [|? asc ? ae0 Hsc Se0]; subst.
  destruct (Nat.leb (match ctl with [] => 0 | c :: _ => c_floor c end) (length e0)) eqn:Efl; [|ill].
  rewrite env_vals_cons, <- app_assoc in HG.
  assert (HG1 : Good h (env_vals e0 ++ out) (rev (map snd sc) ++ tmps ++ all_saved ctl)).
  { eapply good_perm; [apply Permutation_refl| |apply good_move_st_app; exact HG].
    apply Permutation_app_tail. apply Permutation_rev. }
  destruct (good_return_all2 _ _ _ _ HG1) as (h1 & Hra & HG2 & (_ & _ & Hfr) & Hext & Hav).
  rewrite Hra. split; [discriminate|]. intros st' E. inversion E; subst. clear E.
  apply Forall_app in Hav. destruct Hav as [Hav1 Hav2]. apply Forall_app in Hav1. destruct Hav1 as [Have Havo].
  apply Forall_app in Hav2. destruct Hav2 as [Havt Havs].
  cbn [astep a_env a_out a_tmps a_ctl]. unfold afloor_of. cbn [a_ctl].
  assert (Hl : @length ascope ae0 = length e0) by (symmetry; eapply Forall2_len; eauto).
  rewrite <- (floor_sim _ _ _ Sc).
  rewrite Hl, Efl.
  eexists. split; [reflexivity|]. split.
  - apply mk_inv; [exact HG2|rewrite Hfr; exact HC].
  - apply mk_sim.
    + eapply env_transfer; eauto.
    + eapply vrel_transfer; eauto.
    + eapply vrel_transfer; eauto.
    + eapply ctl_transfer; eauto.
Qed.

Lemma step_make : forall x, StepOK (OMake x).
Proof.
  intros x st ast Hinv Hsim.
  destruct st as [h e out tmps ctl]. destruct ast as [ae aout atmps actl].
  destruct tmps as [|v rest]; [cbn; ill|].
  destruct e as [|sc e0]; [cbn; ill|].
  pose proof Hsim as [Se So St Sc]. cbn [m_heap m_env m_out m_tmps m_ctl a_env a_out a_tmps a_ctl] in *.
  inversion Se as [|? asc ? ae0 Hsc Se0]; subst. inversion St as [|? a ? arest Hv Hrest]; subst.
  pose proof (scope_find_F2 _ x sc asc Hsc) as Hf.
  destruct (scope_find x sc) as [old|] eqn:Ef.
  - (* the variable exists in the innermost scope: same as an assignment *)
    destruct Hf as (aold & Hafind & Hold).
    assert (Hc : step cfg_repaired (mkSt h (sc :: e0) out (v :: rest) ctl) (OMake x) =
                 step cfg_repaired (mkSt h (sc :: e0) out (v :: rest) ctl) (OAssign x)).
    { cbn [step m_tmps m_env m_heap env_find env_set]. rewrite Ef.
      destruct (overwrite h old v) as [[h1 v']|]; [|reflexivity].
      destruct (scope_set_some x v' sc old Ef) as [sc1 Hsc1]. rewrite Hsc1. reflexivity. }
    assert (Ha : astep (mkASt (asc :: ae0) aout (a :: arest) actl) (OMake x) =
                 astep (mkASt (asc :: ae0) aout (a :: arest) actl) (OAssign x)).
    { cbn [astep a_env a_out a_tmps a_ctl env_find env_set]. rewrite Hafind.
      destruct (scope_set_some x a asc aold Hafind) as [asc1 Hasc1]. rewrite Hasc1. reflexivity. }
    rewrite Hc, Ha. apply step_assign; assumption.
  - (* a new variable *)
    apply meminv_good in Hinv. unfold stored, temps in Hinv.
    cbn [m_heap m_env m_out m_tmps m_ctl] in Hinv. destruct Hinv as [HG HC].
    cbn [step m_tmps m_env m_heap]. rewrite Ef. cbn [app] in HG.
    destruct (good_split_t _ _ _ _ HG) as (_ & _ & Hbv & Hnv & _).
    destruct HG as (Hwf & HGrest). pose proof (conj Hwf HGrest) as HG.
    destruct (promote_spec v h a Hwf Hv Hbv Hnv) as (h1 & v' & Hp & Hpost).
    rewrite Hp. split; [discriminate|]. intros st' E. inversion E; subst. clear E.
    pose proof Hpost as (Hwf1 & Hext & Ev' & Hnf' & _ & _ & _ & Hfr).
    cbn [astep a_env a_out a_tmps a_ctl]. rewrite Hf. eexists. split; [reflexivity|]. split.
    + apply mk_inv; [|rewrite Hfr; exact HC].
      change (env_vals (((x, v') :: sc) :: e0) ++ out) with (v' :: env_vals (sc :: e0) ++ out).
      apply good_move_ts; [eapply good_promote_t; eauto|exact Hnf'].
    + apply mk_sim; [|eauto using vals_any|eauto using vals_any|eauto using ctl_any].
      constructor; [|eapply env_any; eauto].
      constructor; [split; [reflexivity|exact Ev']|].
      assert (Hsc' : Forall2 (Forall2 (prel (vrel h1))) [sc] [asc]) by (eapply env_any; eauto).
      inversion Hsc'; assumption.
Qed.

(* ------------------------------------------------------------------ *)
(* replacing the value of one variable *)

Lemma env_root_setup : forall h x (e : list scope) out T root, env_find x e = Some root ->
  Good h (env_vals e ++ out) T ->
  exists em R, env_set x MNull e = Some em /\ Permutation (env_vals e) (root :: R) /\
    Permutation (env_vals em) (MNull :: R) /\ Good h (R ++ out) (root :: T) /\ vall nf root.
Proof.
  intros h x e out T root Ef HG.
  destruct (env_set_some x MNull e root Ef) as [em Hem].
  destruct (env_set_perm x MNull e root em Ef Hem) as (R & HpR & HpM).
  exists em, R. split; [exact Hem|]. split; [exact HpR|]. split; [exact HpM|].
  assert (HG' : Good h ((root :: R) ++ out) T).
  { eapply good_perm; [|apply Permutation_refl|exact HG]. apply Permutation_app_tail. exact HpR. }
  split; [apply good_move_st; exact HG'|].
  destruct HG' as (_ & _ & _ & Hnf & _). inversion Hnf; assumption.
Qed.

Lemma env_root_finish : forall h x (e : list scope) out T root root' R e',
  env_find x e = Some root -> Permutation (env_vals e) (root :: R) -> env_set x root' e = Some e' ->
  Good h (R ++ out) (root' :: T) -> vall nf root' -> Good h (env_vals e' ++ out) T.
Proof.
  intros h x e out T root root' R e' Ef HpR He' HG Hnf.
  destruct (env_set_perm x root' e root e' Ef He') as (R' & HpR' & HpE').
  eapply good_perm; [|apply Permutation_refl|apply good_move_ts; [exact HG|exact Hnf]].
  change (root' :: R ++ out) with ((root' :: R) ++ out). apply Permutation_app_tail.
  apply Permutation_sym. eapply perm_trans; [exact HpE'|]. apply perm_skip.
  eapply Permutation_cons_inv. eapply perm_trans; [apply Permutation_sym; exact HpR'|exact HpR].
Qed.

Lemma env_replace_sim : forall P h h' x (e em e' : list scope) (ae : list ascope) R root' aroot',
  Forall2 (Forall2 (prel (vrel h))) e ae -> env_set x MNull e = Some em ->
  Permutation (env_vals em) (MNull :: R) -> hext P h h' -> Forall (vall P) R ->
  erase h' root' = Some aroot' -> env_set x root' e = Some e' ->
  exists ae', aenv_set x aroot' ae = Some ae' /\ Forall2 (Forall2 (prel (vrel h'))) e' ae'.
Proof.
  intros P h h' x e em e' ae R root' aroot' Se Hem HpM Hext HR Er He'.
  destruct (env_set_F2 (vrel h) x MNull VNull e ae em Se eq_refl Hem) as (aem & Haem & Fem).
  assert (Fem2 : Forall2 (Forall2 (prel (vrel h'))) em aem).
  { eapply env_transfer; [exact Hext| |exact Fem].
    eapply Forall_perm_cons_null; [exact HpM|apply vall_null|exact HR]. }
  assert (He'm : env_set x root' em = Some e') by (rewrite (env_set_twice _ _ root' _ _ Hem); exact He').
  destruct (env_set_F2 (vrel h') x root' aroot' em aem e' Fem2 Er He'm) as (ae' & Hae' & Fe').
  exists ae'. split; [|exact Fe']. rewrite <- (env_set_twice _ _ aroot' _ _ Haem). exact Hae'.
Qed.

Lemma step_storeidx : forall x path i, StepOK (OStoreIdx x path i).
Proof.
  intros x path i. start. cbn [step m_tmps m_env m_heap].
  destruct tmps as [|v rest]; [ill|].
  inversion St as [|? a ? arest Hv Hrest]; subst. cbn [app] in HG.
  destruct (good_split_t _ _ _ _ HG) as (_ & _ & Hbv & Hnv & _).
  destruct HG as (Hwf & HGrest). pose proof (conj Hwf HGrest) as HG.
  destruct (promote_spec v h a Hwf Hv Hbv Hnv) as (h1 & v1 & Hp & Hpost).
  rewrite Hp. pose proof Hpost as (Hwf1 & Hext1 & Ev1 & Hnf1 & Hbs1 & _ & _ & Hfr1).
  pose proof (good_promote_t _ _ _ _ _ _ _ HG Hv Hpost) as HG1.
  pose proof (env_find_F2 _ x e ae Se) as Hf.
  destruct (env_find x e) as [root|] eqn:Ef; [|ill].
  destruct Hf as (aroot & Hafind & Hroot).
  destruct (env_root_setup _ _ _ _ _ _ Ef HG1) as (em & R & Hem & HpR & HpM & HG2 & Hnfroot).
  assert (Hroot1 : erase h1 root = Some aroot) by (eapply erase_hext; eauto using vall_any).
  destruct (good_split_t _ _ _ _ HG2) as (_ & _ & Hbsroot & _ & _).
  destruct (modify_at_ok _ _ (f_set i v1) (af_set i a) (val_pre v1 a) (ids v1) ids val_res
              (fun h0 v0 a0 => f_set_ok i v1 a h0 v0 a0) path h1 root aroot
              (conj Ev1 (conj Hnf1 Hbs1)) Hwf1 Hroot1 Hnfroot Hbsroot) as [Hnofault Hok].
  destruct (modify_at (f_set i v1) path h1 root) as [[[h2 root'] old]| |] eqn:Em; cbn [mbind];
    [|ill|exfalso; apply Hnofault; reflexivity].
  destruct (Hok _ _ _ eq_refl) as (aroot' & aold & Ham & Hwf2 & Hext2 & Hfr2 & Eroot' & (Eold & Hnfold & Hbsold) & Hnfroot' & Hbsroot' & Hperm).
  assert (HG3 : Good h2 (R ++ out) (old :: root' :: rest ++ all_saved ctl)).
  { apply (good_replace h1 h2 (R ++ out) [root; v1] [old; root']); [exact HG2|exact Hwf2|exact Hext2| | |].
    - constructor; [rewrite Eold; discriminate|constructor; [rewrite Eroot'; discriminate|constructor]].
    - constructor; [exact Hbsold|constructor; [exact Hbsroot'|constructor]].
    - cbn [flat_map]. rewrite !app_nil_r. apply perm_trans with (ids root' ++ ids old); [apply Permutation_app_comm|exact Hperm]. }
  destruct (return_to_pool h2 old) as [h3|] eqn:Er; [|split; [|intros ? E; discriminate];
    exfalso; eapply return_to_pool_live; eauto].
  destruct (good_free_hext _ _ _ _ _ HG3 Er) as (Hext3 & Hav & Hfr3).
  pose proof (good_free_t _ _ _ _ _ HG3 Er) as HG4.
  destruct (env_set_some x root' e root Ef) as [e' He']. rewrite He'.
  split; [discriminate|]. intros st' E. inversion E; subst. clear E.
  apply Forall_app in Hav. destruct Hav as [HavRo Havt]. apply Forall_app in HavRo. destruct HavRo as [HavR Havo].
  inversion Havt as [|? ? Havroot' Havt']; subst. apply Forall_app in Havt'. destruct Havt' as [Havr Havs].
  assert (Hext12 : hext anyref h h2) by (eapply hext_trans; eauto).
  assert (Eroot3 : erase h3 root' = Some aroot') by (eapply erase_hext; eauto).
  destruct (env_replace_sim _ h2 h3 x e em e' ae R root' aroot' (env_any _ _ _ _ Hext12 Se) Hem HpM Hext3 HavR Eroot3 He')
    as (ae' & Hae' & Fe').
  cbn [astep a_env a_out a_tmps a_ctl]. rewrite Hafind, Ham, Hae'. eexists. split; [reflexivity|]. split.
  - apply mk_inv; [|rewrite Hfr3, Hfr2, Hfr1; exact HC].
    eapply env_root_finish; eauto.
  - apply mk_sim; [exact Fe'| | |].
    + eapply vrel_transfer; [exact Hext3|exact Havo|eauto using vals_any].
    + eapply vrel_transfer; [exact Hext3|exact Havr|eauto using vals_any].
    + eapply ctl_transfer; [exact Hext3|exact Havs|eauto using ctl_any].
Qed.

Lemma step_push : forall x path, StepOK (OPush x path).
Proof.
  intros x path. start. cbn [step m_tmps m_env m_heap].
  destruct tmps as [|v rest]; [ill|].
  inversion St as [|? a ? arest Hv Hrest]; subst. cbn [app] in HG.
  destruct (good_split_t _ _ _ _ HG) as (_ & _ & Hbv & Hnv & _).
  destruct HG as (Hwf & HGrest). pose proof (conj Hwf HGrest) as HG.
  destruct (promote_spec v h a Hwf Hv Hbv Hnv) as (h1 & v1 & Hp & Hpost).
  rewrite Hp. pose proof Hpost as (Hwf1 & Hext1 & Ev1 & Hnf1 & Hbs1 & _ & _ & Hfr1).
  pose proof (good_promote_t _ _ _ _ _ _ _ HG Hv Hpost) as HG1.
  pose proof (env_find_F2 _ x e ae Se) as Hf.
  destruct (env_find x e) as [root|] eqn:Ef; [|ill].
  destruct Hf as (aroot & Hafind & Hroot).
  destruct (env_root_setup _ _ _ _ _ _ Ef HG1) as (em & R & Hem & HpR & HpM & HG2 & Hnfroot).
  assert (Hroot1 : erase h1 root = Some aroot) by (eapply erase_hext; eauto using vall_any).
  destruct (good_split_t _ _ _ _ HG2) as (_ & _ & Hbsroot & _ & _).
  destruct (modify_at_ok _ _ (f_push v1) (af_push a) (val_pre v1 a) (ids v1) (fun _ => []) (fun _ _ _ => True)
              (fun h0 v0 a0 => f_push_ok v1 a h0 v0 a0) path h1 root aroot
              (conj Ev1 (conj Hnf1 Hbs1)) Hwf1 Hroot1 Hnfroot Hbsroot) as [Hnofault Hok].
  destruct (modify_at (f_push v1) path h1 root) as [[[h2 root'] u]| |] eqn:Em; cbn [mbind];
    [|ill|exfalso; apply Hnofault; reflexivity].
  destruct (Hok _ _ _ eq_refl) as (aroot' & au & Ham & Hwf2 & Hext2 & Hfr2 & Eroot' & _ & Hnfroot' & Hbsroot' & Hperm).
  assert (HG3 : Good h2 (R ++ out) (root' :: rest ++ all_saved ctl)).
  { apply (good_replace h1 h2 (R ++ out) [root; v1] [root']); [exact HG2|exact Hwf2|exact Hext2| | |].
    - constructor; [rewrite Eroot'; discriminate|constructor].
    - constructor; [exact Hbsroot'|constructor].
    - cbn [flat_map]. rewrite !app_nil_r. rewrite app_nil_r in Hperm. exact Hperm. }
  destruct (env_set_some x root' e root Ef) as [e' He']. rewrite He'.
  split; [discriminate|]. intros st' E. inversion E; subst. clear E.
  assert (Hext12 : hext anyref h h2) by (eapply hext_trans; eauto).
  destruct (env_replace_sim anyref h2 h2 x e em e' ae R root' aroot' (env_any _ _ _ _ Hext12 Se) Hem HpM
              (hext_refl _ _) (Forall_vall_any R) Eroot' He') as (ae' & Hae' & Fe').
  cbn [astep a_env a_out a_tmps a_ctl]. rewrite Hafind, Ham, Hae'. eexists. split; [reflexivity|]. split.
  - apply mk_inv; [|rewrite Hfr2, Hfr1; exact HC]. eapply env_root_finish; eauto.
  - apply mk_sim; [exact Fe'|eauto using vals_any|eauto using vals_any|eauto using ctl_any].
Qed.

Lemma step_pop : forall x path, StepOK (OPop x path).
Proof.
  intros x path. start. cbn [step m_tmps m_env m_heap].
  pose proof (env_find_F2 _ x e ae Se) as Hf.
  destruct (env_find x e) as [root|] eqn:Ef; [|ill].
  destruct Hf as (aroot & Hafind & Hroot).
  destruct (env_root_setup _ _ _ _ _ _ Ef HG) as (em & R & Hem & HpR & HpM & HG2 & Hnfroot).
  destruct (good_split_t _ _ _ _ HG2) as (_ & _ & Hbsroot & _ & _).
  destruct HG as (Hwf & HGrest). pose proof (conj Hwf HGrest) as HG.
  destruct (modify_at_ok _ _ f_pop af_pop (fun _ => True) [] ids val_res
              (fun h0 v0 a0 => f_pop_ok h0 v0 a0) path h root aroot I Hwf Hroot Hnfroot Hbsroot) as [Hnofault Hok].
  destruct (modify_at f_pop path h root) as [[[h2 root'] r]| |] eqn:Em; cbn [mbind];
    [|ill|exfalso; apply Hnofault; reflexivity].
  destruct (Hok _ _ _ eq_refl) as (aroot' & ar & Ham & Hwf2 & Hext2 & Hfr2 & Eroot' & (Er & Hnfr & Hbsr) & Hnfroot' & Hbsroot' & Hperm).
  assert (HG3 : Good h2 (R ++ out) (root' :: r :: tmps ++ all_saved ctl)).
  { apply (good_replace h h2 (R ++ out) [root] [root'; r]); [exact HG2|exact Hwf2|exact Hext2| | |].
    - constructor; [rewrite Eroot'; discriminate|constructor; [rewrite Er; discriminate|constructor]].
    - constructor; [exact Hbsroot'|constructor; [exact Hbsr|constructor]].
    - cbn [flat_map]. rewrite !app_nil_r. rewrite app_nil_r in Hperm. exact Hperm. }
  destruct (env_set_some x root' e root Ef) as [e' He']. rewrite He'.
  split; [discriminate|]. intros st' E. inversion E; subst. clear E.
  destruct (env_replace_sim anyref h2 h2 x e em e' ae R root' aroot' (env_any _ _ _ _ Hext2 Se) Hem HpM
              (hext_refl _ _) (Forall_vall_any R) Eroot' He') as (ae' & Hae' & Fe').
  cbn [astep a_env a_out a_tmps a_ctl]. rewrite Hafind, Ham, Hae'. eexists. split; [reflexivity|]. split.
  - apply mk_inv; [|rewrite Hfr2; exact HC].
    change ((r :: tmps) ++ all_saved ctl) with (r :: tmps ++ all_saved ctl). eapply env_root_finish; eauto.
  - apply mk_sim; [exact Fe'|eauto using vals_any| |eauto using ctl_any].
    constructor; [exact Er|eauto using vals_any].
Qed.

Lemma step_reverse : forall x path, StepOK (OReverse x path).
Proof.
  intros x path. start. cbn [step m_tmps m_env m_heap].
  pose proof (env_find_F2 _ x e ae Se) as Hf.
  destruct (env_find x e) as [root|] eqn:Ef; [|ill].
  destruct Hf as (aroot & Hafind & Hroot).
  destruct (env_root_setup _ _ _ _ _ _ Ef HG) as (em & R & Hem & HpR & HpM & HG2 & Hnfroot).
  destruct (good_split_t _ _ _ _ HG2) as (_ & _ & Hbsroot & _ & _).
  destruct HG as (Hwf & HGrest). pose proof (conj Hwf HGrest) as HG.
  destruct (modify_at_ok _ _ f_rev af_rev (fun _ => True) [] (fun _ => []) (fun _ _ _ => True)
              (fun h0 v0 a0 => f_rev_ok h0 v0 a0) path h root aroot I Hwf Hroot Hnfroot Hbsroot) as [Hnofault Hok].
  destruct (modify_at f_rev path h root) as [[[h2 root'] r]| |] eqn:Em; cbn [mbind];
    [|ill|exfalso; apply Hnofault; reflexivity].
  destruct (Hok _ _ _ eq_refl) as (aroot' & ar & Ham & Hwf2 & Hext2 & Hfr2 & Eroot' & _ & Hnfroot' & Hbsroot' & Hperm).
  assert (HG3 : Good h2 (R ++ out) (root' :: tmps ++ all_saved ctl)).
  { apply (good_replace h h2 (R ++ out) [root] [root']); [exact HG2|exact Hwf2|exact Hext2| | |].
    - constructor; [rewrite Eroot'; discriminate|constructor].
    - constructor; [exact Hbsroot'|constructor].
    - cbn [flat_map]. rewrite !app_nil_r. rewrite !app_nil_r in Hperm. exact Hperm. }
  destruct (env_set_some x root' e root Ef) as [e' He']. rewrite He'.
  split; [discriminate|]. intros st' E. inversion E; subst. clear E.
  destruct (env_replace_sim anyref h2 h2 x e em e' ae R root' aroot' (env_any _ _ _ _ Hext2 Se) Hem HpM
              (hext_refl _ _) (Forall_vall_any R) Eroot' He') as (ae' & Hae' & Fe').
  cbn [astep a_env a_out a_tmps a_ctl]. rewrite Hafind, Ham, Hae'. eexists. split; [reflexivity|]. split.
  - apply mk_inv; [|rewrite Hfr2; exact HC]. eapply env_root_finish; eauto.
  - apply mk_sim; [exact Fe'|eauto using vals_any|eauto using vals_any|eauto using ctl_any].
Qed.

(* ------------------------------------------------------------------ *)
(* loops and calls *)

Lemma nf_vall_below : forall m l, Forall (vall nf) l -> Forall (vall (below m)) l.
Proof.
  intros m l H. eapply Forall_impl; [|exact H]. intros v Hv. eapply Forall_impl; [|exact Hv].
  intros rf Hrf. apply nf_below. exact Hrf.
Qed.

Lemma live_vall_below : forall h l, Forall (fun v => erase h v <> None) l -> Forall (vall (below (length (h_frame h)))) l.
Proof.
  intros h l H. eapply Forall_impl; [|exact H]. intros v Hv.
  destruct (erase h v) as [x|] eqn:E; [|congruence]. eapply erase_below; eauto.
Qed.

Lemma step_loopiter : StepOK OLoopIter.
Proof.
  start. split; [discriminate|]. intros st' E. cbn in E. inversion E; subst. clear E.
  cbn [astep a_env a_out a_tmps a_ctl]. eexists. split; [reflexivity|]. split.
  - apply mk_inv; [exact HG|]. cbn [CtlOK c_mark c_saved]. split; [lia|]. split; [|exact HC].
    apply live_vall_below. destruct HG as (_ & Hl & _). apply Forall_app in Hl. destruct Hl as [_ Hl].
    apply Forall_app in Hl. tauto.
  - apply mk_sim; [exact Se|exact So|constructor|]. constructor; [|exact Sc].
    split; [reflexivity|]. split; [cbn; eapply Forall2_len; eauto|exact St].
Qed.

Lemma step_callbegin : StepOK OCallBegin.
Proof.
  start. split; [discriminate|]. intros st' E. cbn in E. inversion E; subst. clear E.
  cbn [astep a_env a_out a_tmps a_ctl]. eexists. split; [reflexivity|]. split.
  - apply mk_inv; [exact HG|]. cbn [CtlOK c_mark c_saved]. split; [lia|]. split; [|exact HC].
    apply live_vall_below. destruct HG as (_ & Hl & _). apply Forall_app in Hl. destruct Hl as [_ Hl].
    apply Forall_app in Hl. tauto.
  - apply mk_sim; [|exact So|constructor|].
    + constructor; [constructor|exact Se].
    + constructor; [|exact Sc].
      split; [reflexivity|]. split; [cbn; f_equal; eapply Forall2_len; eauto|exact St].
Qed.

Lemma firstn_length_le {A} : forall (l : list A) m, m <= length l -> length (firstn m l) = m.
Proof. intros l m H. rewrite firstn_length. lia. Qed.

Lemma step_loopiterend : StepOK OLoopIterEnd.
Proof.
  start. cbn [step m_ctl m_tmps m_env m_heap].
  destruct ctl as [|cr rest]; [ill|]. destruct tmps as [|? ?]; [|ill].
  inversion Sc as [|? acr ? arest (Hloop & Hfloor & Hsaved) Sc']; subst. inversion St; subst.
  destruct (c_loop cr && Nat.eqb (length e) (c_floor cr)) eqn:Econd; [|ill].
  split; [discriminate|]. intros st' E. inversion E; subst. clear E.
  destruct HC as (Hmark & Hbelow & HCrest). cbn [app all_saved flat_map] in HG.
  assert (HP : Forall (vall (below (c_mark cr))) ((env_vals e ++ out) ++ c_saved cr ++ all_saved rest)).
  { apply Forall_app. split; [apply nf_vall_below; apply HG|].
    apply Forall_app. split; [exact Hbelow|apply ctlok_saved_below; exact HCrest]. }
  pose proof (hext_frame_reset h (c_mark cr)) as Hext.
  assert (Hwf' : HeapWF (frame_reset h (c_mark cr))) by (apply heapwf_frame; apply HG).
  apply Forall_app in HP. destruct HP as [HPs HPt]. apply Forall_app in HPs. destruct HPs as [HPe HPo].
  apply Forall_app in HPt. destruct HPt as [HPc HPr].
  assert (Hl : @length ascope ae = length e) by (symmetry; eapply Forall2_len; eauto).
  cbn [astep a_env a_out a_tmps a_ctl]. rewrite <- Hloop, <- Hfloor, Hl, Econd.
  eexists. split; [reflexivity|]. split.
  - apply mk_inv.
    + eapply good_hext; [exact HG|exact Hwf'|exact Hext|].
      apply Forall_app. split; apply Forall_app; split; assumption.
    + cbn [frame_reset set_frame h_frame]. rewrite firstn_length_le by exact Hmark. exact HCrest.
  - apply mk_sim.
    + eapply env_transfer; eauto.
    + eapply vrel_transfer; eauto.
    + eapply vrel_transfer; eauto.
    + eapply ctl_transfer; eauto.
Qed.

Lemma step_loopexit : StepOK OLoopExit.
Proof.
  start. cbn [step m_ctl m_tmps m_env m_heap].
  destruct ctl as [|cr rest]; [ill|].
  inversion Sc as [|? acr ? arest (Hloop & Hfloor & Hsaved) Sc']; subst.
  destruct (c_loop cr && Nat.eqb (length e) (c_floor cr)) eqn:Econd; [|ill].
  split; [discriminate|]. intros st' E. inversion E; subst. clear E.
  destruct HC as (Hmark & Hbelow & HCrest). cbn [all_saved flat_map] in HG.
  assert (Hl : @length ascope ae = length e) by (symmetry; eapply Forall2_len; eauto).
  cbn [astep a_env a_out a_tmps a_ctl]. rewrite <- Hloop, <- Hfloor, Hl, Econd.
  eexists. split; [reflexivity|]. split.
  - apply mk_inv; [|eapply ctlok_mono; eauto]. rewrite <- app_assoc. exact HG.
  - apply mk_sim; [exact Se|exact So|apply Forall2_app; assumption|exact Sc'].
Qed.

Lemma bind_args_ok : forall xs vs (sc : scope) h s t avs (asc : ascope),
  length xs = length vs -> Good h (map snd sc ++ s) (vs ++ t) ->
  Forall2 (vrel h) vs avs -> Forall2 (prel (vrel h)) sc asc ->
  exists h1 sc', bind_args true h xs vs sc = Some (h1, sc') /\ Good h1 (map snd sc' ++ s) t /\
    hext anyref h h1 /\ h_frame h1 = h_frame h /\ Forall2 (prel (vrel h1)) sc' (abind_args xs avs asc).
Proof.
  induction xs as [|x xs IH]; intros vs sc h s t avs asc Hlen HG Hvs Hsc.
  - destruct vs; [|discriminate]. inversion Hvs; subst. exists h, sc. cbn.
    split; [reflexivity|]. split; [exact HG|]. split; [apply hext_refl|]. split; [reflexivity|exact Hsc].
  - destruct vs as [|v vs]; [discriminate|]. inversion Hvs as [|? a ? avs' Hv Hvs']; subst.
    cbn [app] in HG. destruct (good_split_t _ _ _ _ HG) as (_ & _ & Hbv & Hnv & _).
    destruct HG as (Hwf & HGrest). pose proof (conj Hwf HGrest) as HG.
    destruct (promote_spec v h a Hwf Hv Hbv Hnv) as (h1 & v' & Hp & Hpost).
    pose proof Hpost as (Hwf1 & Hext1 & Ev' & Hnf' & _ & _ & _ & Hfr1).
    pose proof (good_move_ts _ _ _ _ (good_promote_t _ _ _ _ _ _ _ HG Hv Hpost) Hnf') as HG1.
    assert (Hsc1 : Forall2 (prel (vrel h1)) ((x, v') :: sc) ((x, a) :: asc)).
    { constructor; [split; [reflexivity|exact Ev']|].
      assert (Hx : Forall2 (Forall2 (prel (vrel h1))) [sc] [asc]) by (eapply env_any; eauto).
      inversion Hx; assumption. }
    destruct (IH vs ((x, v') :: sc) h1 s t avs' ((x, a) :: asc)) as (h2 & sc' & Hb & HG2 & Hext2 & Hfr2 & Hsc2).
    + cbn in Hlen. lia.
    + exact HG1.
    + eapply vals_any; eauto.
    + exact Hsc1.
    + exists h2, sc'. cbn [bind_args abind_args]. rewrite Hp. split; [exact Hb|]. split; [exact HG2|].
      split; [eapply hext_trans; eauto|]. split; [congruence|exact Hsc2].
Qed.

Lemma step_callbind : forall xs, StepOK (OCallBind xs).
Proof.
  intros xs. start. cbn [step m_ctl m_tmps m_env m_heap cfg_repaired c_promote_params].
  destruct ctl as [|cr rest]; [ill|]. destruct e as [|sc e0]; [ill|].
  inversion Sc as [|? acr ? arest (Hloop & Hfloor & Hsaved) Sc']; subst.
  inversion Se as [|? asc ? ae0 Hsc Se0]; subst.
  destruct (negb (c_loop cr) && Nat.eqb (length (sc :: e0)) (c_floor cr) && Nat.eqb (length xs) (length tmps)) eqn:Econd; [|ill].
  assert (Hlen : length xs = length (rev tmps)).
  { rewrite rev_length. apply Nat.eqb_eq. apply andb_prop in Econd. tauto. }
  rewrite env_vals_cons, <- app_assoc in HG.
  assert (HG1 : Good h (map snd sc ++ env_vals e0 ++ out) (rev tmps ++ all_saved (cr :: rest))).
  { eapply good_perm; [apply Permutation_refl| |exact HG]. apply Permutation_app_tail. apply Permutation_rev. }
  destruct (bind_args_ok xs (rev tmps) sc h _ _ (rev atmps) asc Hlen HG1 (Forall2_rev _ _ _ St) Hsc)
    as (h1 & sc' & Hb & HG2 & Hext & Hfr & Hsc').
  rewrite Hb. split; [discriminate|]. intros st' E. inversion E; subst. clear E.
  assert (Hl : @length ascope (asc :: ae0) = length (sc :: e0)) by (symmetry; eapply Forall2_len; eauto).
  assert (Hlt : @length value atmps = length tmps) by (symmetry; eapply Forall2_len; eauto).
  cbn [astep a_env a_out a_tmps a_ctl]. rewrite <- Hloop, <- Hfloor, Hl, Hlt, Econd.
  eexists. split; [reflexivity|]. split.
  - apply mk_inv; [|rewrite Hfr; exact HC]. rewrite env_vals_cons, <- app_assoc. exact HG2.
  - apply mk_sim; [|eauto using vals_any|constructor|eauto using ctl_any].
    constructor; [exact Hsc'|eapply env_any; eauto].
Qed.

Lemma good_relocate : forall h S rv T arv mark, Good h S (rv :: T) -> erase h rv = Some arv ->
  Forall (vall (below mark)) (S ++ T) -> mark <= length (h_frame h) ->
  exists h2 rv', relocate true h rv mark = Some (h2, rv') /\ Good h2 S (rv' :: T) /\
    erase h2 rv' = Some arv /\ hext (below mark) h h2 /\ mark <= length (h_frame h2).
Proof.
  intros h S rv T arv mark HG Hrv HP Hmark.
  destruct (good_split_t _ _ _ _ HG) as (HG0 & _ & Hbv & Hnv & Hdisj).
  destruct HG as (Hwf & _).
  destruct (relocate_spec h rv arv mark Hwf Hrv Hbv Hnv Hmark) as (h2 & rv' & Hr & Hwf2 & Hext & Erv' & Hbs' & Hnd' & Hids' & Hm2).
  exists h2, rv'. split; [exact Hr|]. split; [|split; [exact Erv'|split; [exact Hext|exact Hm2]]].
  apply good_join_t.
  - eapply good_hext; eauto.
  - rewrite Erv'. discriminate.
  - exact Hbs'.
  - exact Hnd'.
  - intros i Hi Hi2. destruct (Hids' _ Hi) as [H1|H1].
    + eapply Hdisj; eauto.
    + apply H1. eapply good_roots_live; eauto.
Qed.

Lemma step_callend : StepOK OCallEnd.
Proof.
  start. cbn [step m_ctl m_tmps m_env m_heap cfg_repaired c_stage].
  destruct ctl as [|cr rest]; [ill|]. destruct e as [|psc e0]; [ill|].
  inversion Sc as [|? acr ? arest (Hloop & Hfloor & Hsaved) Sc']; subst.
  inversion Se as [|? apsc ? ae0 Hpsc Se0]; subst.
  destruct (negb (c_loop cr) && Nat.eqb (length (psc :: e0)) (c_floor cr)) eqn:Econd; [|ill].
  destruct HC as (Hmark & Hbelow & HCrest). cbn [all_saved flat_map] in HG.
  (* the pending return value *)
  assert (Hrv : exists rv arv, (match tmps with [] => Some MNull | [v] => Some v | _ => None end) = Some rv ->
            True) by (exists MNull, VNull; auto).
  clear Hrv.
  destruct (match tmps with [] => Some MNull | [v] => Some v | _ :: _ :: _ => None end) as [rv|] eqn:Erv; [|ill].
  assert (Harv : exists arv, (match atmps with [] => Some VNull | [v] => Some v | _ :: _ :: _ => None end) = Some arv /\
                    erase h rv = Some arv /\
                    Good h (env_vals (psc :: e0) ++ out) (rv :: c_saved cr ++ all_saved rest)).
  { destruct tmps as [|v [|v2 tl]]; inversion Erv; subst.
    - inversion St; subst. exists VNull. split; [reflexivity|]. split; [reflexivity|].
      cbn [app] in HG. apply good_new_t; auto; [discriminate|constructor].
    - inversion St as [|? a ? ? Hv Hnil]; subst. inversion Hnil; subst. exists a.
      split; [reflexivity|]. split; [exact Hv|exact HG]. }
  destruct Harv as (arv & Haerv & Hrv & HG0).
  rewrite env_vals_cons, <- app_assoc in HG0.
  assert (HG1 : Good h (env_vals e0 ++ out) (rev (map snd psc) ++ rv :: c_saved cr ++ all_saved rest)).
  { eapply good_perm; [apply Permutation_refl| |apply good_move_st_app; exact HG0].
    apply Permutation_app_tail. apply Permutation_rev. }
  destruct (good_return_all2 _ _ _ _ HG1) as (h1 & Hra & HG2 & (_ & _ & Hfr1) & Hext1 & Hav).
  rewrite Hra.
  apply Forall_app in Hav. destruct Hav as [Hav1 Hav2]. apply Forall_app in Hav1. destruct Hav1 as [Have Havo].
  inversion Hav2 as [|? ? Havrv Hav3]; subst. apply Forall_app in Hav3. destruct Hav3 as [Havc Havr].
  assert (Hrv1 : erase h1 rv = Some arv) by (eapply erase_hext; eauto).
  assert (HP : Forall (vall (below (c_mark cr))) ((env_vals e0 ++ out) ++ c_saved cr ++ all_saved rest)).
  { apply Forall_app. split; [apply nf_vall_below; apply HG2|].
    apply Forall_app. split; [exact Hbelow|apply ctlok_saved_below; exact HCrest]. }
  assert (Hmark1 : c_mark cr <= length (h_frame h1)) by (rewrite Hfr1; exact Hmark).
  destruct (good_relocate _ _ _ _ _ _ HG2 Hrv1 HP Hmark1) as (h2 & rv' & Hrel & HG3 & Erv' & Hext2 & Hm2).
  rewrite Hrel. split; [discriminate|]. intros st' E. inversion E; subst. clear E.
  apply Forall_app in HP. destruct HP as [HPs HPt]. apply Forall_app in HPs. destruct HPs as [HPe HPo].
  apply Forall_app in HPt. destruct HPt as [HPc HPr].
  assert (Hl : @length ascope (apsc :: ae0) = length (psc :: e0)) by (symmetry; eapply Forall2_len; eauto).
  cbn [astep a_env a_out a_tmps a_ctl]. rewrite <- Hloop, <- Hfloor, Hl, Econd, Haerv.
  eexists. split; [reflexivity|]. split.
  - apply mk_inv; [exact HG3|]. eapply ctlok_mono; eauto.
  - apply mk_sim.
    + eapply env_transfer; [exact Hext2|exact HPe|]. eapply env_transfer; eauto.
    + eapply vrel_transfer; [exact Hext2|exact HPo|]. eapply vrel_transfer; eauto.
    + constructor; [exact Erv'|]. eapply vrel_transfer; [exact Hext2|exact HPc|]. eapply vrel_transfer; eauto.
    + eapply ctl_transfer; [exact Hext2|exact HPr|]. eapply ctl_transfer; eauto.
Qed.

(* ------------------------------------------------------------------ *)
(* every op, every history *)

Lemma step_ok : forall o, StepOK o.
Proof.
  destruct o.
  - apply step_scalar.
  - apply step_lit.
  - apply step_read.
  - apply step_interp.
  - apply step_concat.
  - apply step_mkarr.
  - apply step_index.
  - apply step_drop.
  - apply step_promote.
  - apply step_make.
  - apply step_assign.
  - apply step_storeidx.
  - apply step_push.
  - apply step_pop.
  - apply step_shout.
  - apply step_pushscope.
  - apply step_popscope.
  - apply step_callbegin.
  - apply step_callbind.
  - apply step_callend.
  - apply step_loopiter.
  - apply step_loopiterend.
  - apply step_loopexit.
  - apply step_reverse.
Qed.

Lemma run_ok : forall ops st ast, MemInv st -> Sim st ast ->
  run cfg_repaired st ops <> MFault /\
  (forall st', run cfg_repaired st ops = MOk st' ->
     exists ast', arun ast ops = Some ast' /\ MemInv st' /\ Sim st' ast').
Proof.
  induction ops as [|o ops IH]; intros st ast Hinv Hsim.
  - cbn. split; [discriminate|]. intros st' E. inversion E; subst. exists ast. auto.
  - cbn [run arun]. destruct (step_ok o st ast Hinv Hsim) as [Hnf Hok].
    destruct (step cfg_repaired st o) as [st1| |] eqn:Es.
    + destruct (Hok st1 eq_refl) as (ast1 & Ha & Hinv1 & Hsim1). rewrite Ha.
      apply IH; assumption.
    + split; [discriminate|]. intros st' E. discriminate.
    + exfalso. apply Hnf. reflexivity.
Qed.

Lemma init_inv : MemInv init_state.
Proof.
  constructor; cbn.
  - apply empty_heap_wf.
  - constructor.
  - constructor.
  - constructor.
  - constructor.
  - exact I.
Qed.

Lemma init_sim : Sim init_state ainit.
Proof. constructor; cbn; repeat constructor. Qed.

Lemma meminv_reachable_lemma : forall ops,
  run cfg_repaired init_state ops <> MFault /\
  (forall st, run cfg_repaired init_state ops = MOk st ->
     MemInv st /\ exists ast, arun ainit ops = Some ast /\ Sim st ast).
Proof.
  intros ops. destruct (run_ok ops init_state ainit init_inv init_sim) as [H1 H2].
  split; [exact H1|]. intros st E. destruct (H2 st E) as (ast & Ha & Hi & Hs).
  split; [exact Hi|]. exists ast. auto.
Qed.

(* what the executable tie prints: the framed machine either rejects the sequence as
   ill-formed or prints exactly what the reclamation-free machine prints *)
Lemma all_some_Forall2 : forall h (l : list mvalue) (xs : list value),
  Forall2 (vrel h) l xs -> all_some (map (erase h) l) = Some xs.
Proof.
  intros h l xs H. induction H as [|v a l xs Hv Hl IH]; [reflexivity|].
  cbn [map all_some fold_right]. unfold all_some in IH. rewrite IH, Hv. reflexivity.
Qed.

Lemma observe_agrees_lemma : forall ops,
  observe cfg_repaired ops = VIll \/
  exists vs, observe cfg_repaired ops = VOk vs /\ aobserve ops = Some vs.
Proof.
  intros ops. unfold observe, aobserve. destruct (meminv_reachable_lemma ops) as [Hnf Hok].
  destruct (run cfg_repaired init_state ops) as [st| |] eqn:Er.
  - right. destruct (Hok st eq_refl) as (_ & ast & Ha & Hs). rewrite Ha.
    exists (a_out ast). split; [|reflexivity].
    rewrite (all_some_Forall2 _ _ _ (sim_out _ _ _ Hs)). reflexivity.
  - left. reflexivity.
  - exfalso. apply Hnf. reflexivity.
Qed.

(* ------------------------------------------------------------------ *)
(* the named per-operation statements *)

Lemma promote_no_frame_refs_lemma : forall h v x, HeapWF h -> erase h v = Some x -> vall bsr v -> NoDup (ids v) ->
  exists h' v', promote h v = Some (h', v') /\ erase h' v' = Some x /\ vall nf v' /\ vall bsr v' /\
    HeapWF h' /\ h_frame h' = h_frame h.
Proof.
  intros h v x Hwf He Hbs Hnd.
  destruct (promote_spec v h x Hwf He Hbs Hnd) as (h' & v' & Hp & Hwf' & _ & Ev' & Hnf & Hbs' & _ & _ & Hfr).
  exists h', v'. auto 10.
Qed.

Lemma env_find_set_other {A} : forall x y (w : A) e e', x <> y -> env_set x w e = Some e' -> env_find y e' = env_find y e.
Proof.
  intros x y w. 
  assert (Hsc : forall sc sc', x <> y -> scope_set x w sc = Some sc' -> scope_find y sc' = scope_find y sc).
  { induction sc as [|[z u] t IH]; intros sc' Hne H; cbn in *; [discriminate|].
    destruct (Nat.eqb x z) eqn:Exz.
    - inversion H; subst. cbn. apply Nat.eqb_eq in Exz. subst z.
      destruct (Nat.eqb y x) eqn:Eyx; [apply Nat.eqb_eq in Eyx; congruence|reflexivity].
    - destruct (scope_set x w t) as [t'|] eqn:Et; [|discriminate]. inversion H; subst. cbn.
      destruct (Nat.eqb y z); [reflexivity|]. apply IH; auto. }
  induction e as [|sc t IH]; intros e' Hne H; cbn [env_set] in H; [discriminate|].
  destruct (scope_set x w sc) as [sc'|] eqn:Es.
  - inversion H; subst. cbn [env_find]. rewrite (Hsc _ _ Hne Es). reflexivity.
  - destruct (env_set x w t) as [t'|] eqn:Et; [|discriminate]. inversion H; subst. cbn [env_find].
    rewrite (IH t' Hne eq_refl). reflexivity.
Qed.

Lemma overwrite_safe_lemma : forall st ast x st', MemInv st -> Sim st ast ->
  step cfg_repaired st (OAssign x) = MOk st' ->
  MemInv st' /\ m_out st' = m_out st /\
  (forall y v a, y <> x -> env_find y (m_env st) = Some v -> erase (m_heap st) v = Some a ->
     exists v', env_find y (m_env st') = Some v' /\ erase (m_heap st') v' = Some a) /\
  (forall v a, In v (m_out st) -> erase (m_heap st) v = Some a -> erase (m_heap st') v = Some a).
Proof.
  intros st ast x st' Hinv Hsim Hstep.
  destruct (step_assign x st ast Hinv Hsim) as [_ Hok].
  destruct (Hok st' Hstep) as (ast' & Ha & Hinv' & Hsim').
  split; [exact Hinv'|].
  assert (Hout : m_out st' = m_out st /\ a_out ast' = a_out ast /\
                 exists v0 a0, env_set x v0 (m_env st) = Some (m_env st') /\ aenv_set x a0 (a_env ast) = Some (a_env ast')).
  { destruct st as [h e out tmps ctl]. destruct ast as [ae aout atmps actl].
    cbn [step m_tmps m_env m_heap m_out m_ctl] in Hstep. cbn [astep a_env a_out a_tmps a_ctl] in Ha.
    destruct tmps as [|v rest]; [discriminate|].
    destruct (env_find x e) as [old|]; [|discriminate].
    destruct (overwrite h old v) as [[h1 v']|]; [|discriminate].
    destruct (env_set x v' e) as [e'|] eqn:Ee; [|discriminate]. inversion Hstep; subst. cbn.
    destruct atmps as [|a arest]; [discriminate|].
    destruct (env_find x ae) as [aold|]; [|discriminate].
    destruct (env_set x a ae) as [ae'|] eqn:Eae; [|discriminate]. inversion Ha; subst. cbn.
    split; [reflexivity|]. split; [reflexivity|]. exists v', a. split; assumption. }
  destruct Hout as (Ho & Hao & v0 & a0 & Hes & Haes).
  split; [exact Ho|]. split.
  - intros y v a Hne Hf Hv.
    pose proof (env_find_F2 _ y _ _ (sim_env _ _ _ Hsim)) as H1. rewrite Hf in H1.
    destruct H1 as (a1 & Haf & Hva). unfold vrel in Hva. assert (a1 = a) by congruence. subst a1.
    pose proof (env_find_F2 _ y _ _ (sim_env _ _ _ Hsim')) as H2.
    rewrite (env_find_set_other x y v0 _ _ (not_eq_sym Hne) Hes), Hf in H2.
    assert (Hx : env_find y (m_env st') = Some v) by (rewrite (env_find_set_other x y v0 _ _ (not_eq_sym Hne) Hes); exact Hf).
    exists v. split; [exact Hx|].
    pose proof (env_find_F2 _ y _ _ (sim_env _ _ _ Hsim')) as H3. rewrite Hx in H3.
    destruct H3 as (a3 & Haf3 & Hva3). rewrite (env_find_set_other x y a0 _ _ (not_eq_sym Hne) Haes) in Haf3.
    unfold vrel in Hva3. congruence.
  - intros v a Hin Hv.
    pose proof (sim_out _ _ _ Hsim) as So. pose proof (sim_out _ _ _ Hsim') as So'. rewrite Ho, Hao in So'.
    clear - Hin Hv So So'. revert So'. induction So as [|w b l bl Hwb Hl IH]; intros So'; [destruct Hin|].
    inversion So' as [|? ? ? ? Hwb' Hl']; subst. destruct Hin as [<-|Hin].
    + unfold vrel in *. congruence.
    + apply IH; assumption.
Qed.

Lemma pop_scope_safe_lemma : forall st ast st', MemInv st -> Sim st ast ->
  step cfg_repaired st OPopScope = MOk st' ->
  MemInv st' /\ exists ast', astep ast OPopScope = Some ast' /\ Sim st' ast'.
Proof.
  intros st ast st' Hinv Hsim Hstep. destruct (step_popscope st ast Hinv Hsim) as [_ Hok].
  destruct (Hok st' Hstep) as (ast' & Ha & Hinv' & Hsim'). split; [exact Hinv'|]. exists ast'. auto.
Qed.

Lemma loop_reset_safe_lemma : forall st st', MemInv st -> step cfg_repaired st OLoopIterEnd = MOk st' ->
  m_env st' = m_env st /\ m_out st' = m_out st /\
  (exists cr rest, m_ctl st = cr :: rest /\ m_heap st' = frame_reset (m_heap st) (c_mark cr)) /\
  (forall v a, In v (stored st) -> erase (m_heap st) v = Some a -> erase (m_heap st') v = Some a).
Proof.
  intros [h e out tmps ctl] st' Hinv Hstep. cbn [step m_ctl m_tmps m_env m_heap m_out] in Hstep.
  destruct ctl as [|cr rest]; [discriminate|]. destruct tmps; [|discriminate].
  destruct (c_loop cr && Nat.eqb (length e) (c_floor cr)); [|discriminate]. inversion Hstep; subst. cbn.
  split; [reflexivity|]. split; [reflexivity|]. split; [exists cr, rest; auto|].
  intros v a Hin Hv. eapply erase_hext; [apply (hext_set_frame_nf h)| |exact Hv].
  pose proof (inv_nf _ Hinv) as Hnf. rewrite Forall_forall in Hnf. apply Hnf. exact Hin.
Qed.

Lemma relocate_sound_lemma : forall h v x mark, HeapWF h -> erase h v = Some x -> vall bsr v -> NoDup (ids v) ->
  mark <= length (h_frame h) ->
  exists h' v', relocate true h v mark = Some (h', v') /\ erase h' v' = Some x /\ HeapWF h' /\
    hext (below mark) h h' /\ mark <= length (h_frame h').
Proof.
  intros h v x mark Hwf He Hbs Hnd Hm.
  destruct (relocate_spec h v x mark Hwf He Hbs Hnd Hm) as (h' & v' & Hr & Hwf' & Hext & Ev' & _ & _ & _ & Hm').
  exists h', v'. auto 10.
Qed.

(* ------------------------------------------------------------------ *)
(* promote, for arbitrary live values (Borrowed aliases into the frame or a pool slot included,
   as they existed before 8134a3d): the result has no frame reference and no such alias *)

Definition promote_gen_ok (v : mvalue) : Prop :=
  forall h x, HeapWF h -> erase h v = Some x ->
  exists h' v', promote h v = Some (h', v') /\ HeapWF h' /\ hext anyref h h' /\ erase h' v' = Some x /\
    vall nf v' /\ vall nbp v' /\ h_frame h' = h_frame h.

Lemma promote_gen_list : forall l, Forall promote_gen_ok l ->
  forall h xs, HeapWF h -> erase_list h l = Some xs ->
  exists h' l', map_heap promote h l = Some (h', l') /\ HeapWF h' /\ hext anyref h h' /\
    erase_list h' l' = Some xs /\ Forall (vall nf) l' /\ Forall (vall nbp) l' /\ h_frame h' = h_frame h.
Proof.
  induction l as [|v t IH]; intros HF h xs Hwf He.
  - exists h, []. cbn in *. inversion He; subst.
    refine (conj eq_refl (conj Hwf (conj (hext_refl _ _) (conj eq_refl (conj _ (conj _ eq_refl)))))); constructor.
  - inversion HF as [|? ? Hv Ht]; subst. rewrite erase_list_cons in He.
    destruct (erase h v) as [y|] eqn:Ey; [|discriminate].
    destruct (erase_list h t) as [ys|] eqn:Eys; [|discriminate]. inversion He; subst. clear He.
    destruct (Hv h y Hwf Ey) as (h1 & v' & Hp & Hwf1 & Hext1 & Ev' & Hnf' & Hnb' & Hfr1).
    assert (Eys1 : erase_list h1 t = Some ys) by (eapply erase_list_hext; eauto using Forall_vall_any).
    destruct (IH Ht h1 ys Hwf1 Eys1) as (h2 & t' & Hm & Hwf2 & Hext2 & Et' & Hnft & Hnbt & Hfr2).
    exists h2, (v' :: t'). cbn [map_heap]. rewrite Hp. fold (map_heap promote). rewrite Hm.
    split; [reflexivity|]. split; [exact Hwf2|]. split; [eapply hext_trans; eauto|]. split.
    { rewrite erase_list_cons. rewrite (erase_hext _ _ _ Hext2 v' y (vall_any _) Ev'), Et'. reflexivity. }
    split; [constructor; assumption|]. split; [constructor; assumption|congruence].
Qed.

Lemma promote_gen : forall v, promote_gen_ok v.
Proof.
  assert (Hsame : forall h v x, HeapWF h -> erase h v = Some x -> vall nf v -> vall nbp v ->
            promote h v = Some (h, v) ->
            exists h' v', promote h v = Some (h', v') /\ HeapWF h' /\ hext anyref h h' /\ erase h' v' = Some x /\
              vall nf v' /\ vall nbp v' /\ h_frame h' = h_frame h).
  { intros h v x Hwf He Hnf Hnb Hp. exists h, v. auto 10 using hext_refl. }
  assert (Hcopy : forall h b, HeapWF h ->
            exists h' v', alloc_str h b = (h', v') /\ HeapWF h' /\ hext anyref h h' /\ erase h' v' = Some (VStr b) /\
              vall nf v' /\ vall nbp v' /\ h_frame h' = h_frame h).
  { intros h b Hwf. destruct (alloc_str h b) as [h' v'] eqn:Ea.
    destruct (alloc_str_spec _ _ _ _ Hwf Ea) as (Hwf' & Hext & Ev' & Hfr & Hnf & Hbs' & _ & _).
    exists h', v'. refine (conj eq_refl (conj Hwf' (conj Hext (conj Ev' (conj Hnf (conj _ Hfr)))))).
    eapply Forall_impl; [|exact Hbs']. intros rf Hrf. destruct rf as [[|] r a len|r a sid]; cbn in *; auto.
    subst r. exact I. }
  induction v as [x|b| |r a len|r a len cap|r a sid cap items IH] using mvalue_ind'; intros h y Hwf He.
  - apply Hsame; auto; constructor.
  - apply Hsame; auto; constructor.
  - apply Hsame; auto; constructor.
  - destruct r.
    + apply Hsame; auto; (constructor; [cbn; try discriminate; exact I|constructor]).
    + apply Hsame; auto; (constructor; [cbn; try discriminate; exact I|constructor]).
    + cbn [erase] in He. destruct (read_bytes h RFrame a len) as [b|] eqn:Er; [|discriminate]. inversion He; subst.
      destruct (Hcopy h b Hwf) as (h' & v' & Ea & Hrest). exists h', v'. cbn [promote]. rewrite Er, Ea. auto.
    + cbn [erase] in He. destruct (read_bytes h RPool a len) as [b|] eqn:Er; [|discriminate]. inversion He; subst.
      destruct (Hcopy h b Hwf) as (h' & v' & Ea & Hrest). exists h', v'. cbn [promote]. rewrite Er, Ea. auto.
  - destruct r.
    + apply Hsame; auto; (constructor; [cbn; try discriminate; exact I|constructor]).
    + apply Hsame; auto; (constructor; [cbn; try discriminate; exact I|constructor]).
    + cbn [erase] in He. destruct (read_bytes h RFrame a len) as [b|] eqn:Er; [|discriminate]. inversion He; subst.
      destruct (Hcopy h b Hwf) as (h' & v' & Ea & Hrest). exists h', v'. cbn [promote]. rewrite Er, Ea. auto.
    + apply Hsame; auto; (constructor; [cbn; try discriminate; exact I|constructor]).
  - rewrite erase_arr in He. destruct (store_live h r a sid) eqn:Es; [|discriminate].
    destruct (erase_list h items) as [ys|] eqn:El; [|discriminate]. inversion He; subst. clear He.
    cbn [promote]. rewrite Es.
    destruct (fresh_sid h) as [h0 sid'] eqn:Ef. destruct (pers_alloc h0 (OVec sid')) as [h1 a'] eqn:Ep.
    assert (Hh0 : h0 = fst (fresh_sid h)) by (rewrite Ef; reflexivity).
    assert (Hh1 : h1 = fst (pers_alloc h0 (OVec sid'))) by (rewrite Ep; reflexivity).
    assert (Hext01 : hext anyref h h1).
    { eapply hext_trans; [apply hext_fresh_sid|]. rewrite <- Hh0. rewrite Hh1. apply hext_pers_alloc. }
    assert (Hwf1 : HeapWF h1).
    { rewrite Hh1. cbn. apply heapwf_pers. rewrite Hh0. apply heapwf_fresh_sid. exact Hwf. }
    assert (El1 : erase_list h1 items = Some ys) by (eapply erase_list_hext; eauto using Forall_vall_any).
    destruct (promote_gen_list items IH h1 ys Hwf1 El1) as (h2 & items' & Hm & Hwf2 & Hext2 & Et' & Hnft & Hnbt & Hfr2).
    rewrite Hm. exists h2, (MArr RPers a' sid' (length items) items'). split; [reflexivity|].
    assert (Ha' : a' = length (h_pers h0)) by (cbn in Ep; inversion Ep; reflexivity).
    assert (Hlive1 : rd h1 (RefS RPers a' sid') = Some []).
    { apply store_live_rd. rewrite Hh1, Ha'. unfold store_live. cbn.
      rewrite nth_error_snoc_new. rewrite Nat.eqb_refl. reflexivity. }
    split; [exact Hwf2|]. split; [eapply hext_trans; eauto|]. split.
    { rewrite erase_arr. apply (Hext2 _ _ I) in Hlive1. apply store_live_rd in Hlive1.
      rewrite Hlive1, Et'. reflexivity. }
    split; [apply vall_arr; split; [cbn; discriminate|exact Hnft]|].
    split; [apply vall_arr; split; [exact I|exact Hnbt]|].
    rewrite Hfr2, Hh1. cbn. rewrite Hh0. reflexivity.
Qed.

(* a value without frame references reads back unchanged after ANY frame reset: what a promotion that looks at
   the box only (HostHandle::promote) relies on for the contents of a persistent record *)
Lemma nf_survives_reset_lemma : forall h v x m, erase h v = Some x -> vall nf v ->
  erase (frame_reset h m) v = Some x.
Proof.
  intros h v x m He Hnf. unfold frame_reset. eapply erase_hext; [apply (hext_set_frame_nf h)|exact Hnf|exact He].
Qed.

(* ------------------------------------------------------------------ *)
(* the source as it is today (flags regenerated by translator/gen_mem.py) *)
Require Import NS.theories.GenMem NS.theories.MemSrc.

Lemma source_discipline_lemma : source_discipline = true /\ cfg_source = cfg_repaired.
Proof. split; reflexivity. Qed.

Lemma meminv_reachable_source_lemma : forall ops,
  run cfg_source init_state ops <> MFault /\
  (forall st, run cfg_source init_state ops = MOk st ->
     MemInv st /\ exists ast, arun ainit ops = Some ast /\ Sim st ast).
Proof. intros ops. rewrite (proj2 source_discipline_lemma). apply meminv_reachable_lemma. Qed.
