(* NumParseProofs.v — facts about theories/NumParse.v (to_number) and its relation to
   F64.fmt (Display): round-to-nearest-even of a rational, validity of every result,
   exactness of the early exits, and the text round trip. *)
From Coq Require Import ZArith List Bool Lia SpecFloat.
Require Import NS.theories.F64 NS.proofs.F64Proofs NS.theories.NumParse.
Import ListNotations.
Open Scope Z_scope.

(* ------------------------------------------------------------------ rne *)

Lemma rne_cases a b :
  0 < b -> 0 <= a ->
  let q := a / b in let r := a mod b in
  a = b * q + r /\ 0 <= r < b /\ 0 <= q /\
  rne a b = (if 2 * r <? b then q else if b <? 2 * r then q + 1 else if Z.even q then q else q + 1).
Proof.
  intros Hb Ha q r. split; [apply Z.div_mod; lia|]. split; [apply Z.mod_pos_bound; lia|].
  split; [apply Z.div_pos; lia|]. reflexivity.
Qed.

Lemma even_succ_of_odd q : Z.even q = false -> Z.even (q + 1) = true.
Proof. intros H. rewrite Z.even_add, H. reflexivity. Qed.

(* the result is within half a unit *)
Lemma rne_near a b : 0 < b -> 0 <= a -> 2 * a - b <= 2 * b * rne a b <= 2 * a + b.
Proof.
  intros Hb Ha. destruct (rne_cases a b Hb Ha) as (E & Hr & Hq & ->).
  set (q := a / b) in *. set (r := a mod b) in *.
  destruct (2 * r <? b) eqn:E1; [apply Z.ltb_lt in E1; nia|apply Z.ltb_ge in E1].
  destruct (b <? 2 * r) eqn:E2; [apply Z.ltb_lt in E2; nia|apply Z.ltb_ge in E2].
  destruct (Z.even q); nia.
Qed.

Lemma rne_nonneg a b : 0 < b -> 0 <= a -> 0 <= rne a b.
Proof.
  intros Hb Ha. pose proof (rne_near a b Hb Ha) as H.
  destruct (Z.lt_ge_cases (rne a b) 0) as [Hn|Hn]; [exfalso|exact Hn].
  assert (b * rne a b <= b * (-1)) by (apply Z.mul_le_mono_nonneg_l; lia). lia.
Qed.

(* strictly inside (n - 1/2, n + 1/2) *)
Lemma rne_inside a b n :
  0 < b -> 0 <= a -> b * (2 * n - 1) < 2 * a < b * (2 * n + 1) -> rne a b = n.
Proof.
  intros Hb Ha H. destruct (rne_cases a b Hb Ha) as (E & Hr & Hq & ->).
  set (q := a / b) in *. set (r := a mod b) in *.
  destruct (2 * r <? b) eqn:E1; [apply Z.ltb_lt in E1; nia|apply Z.ltb_ge in E1].
  destruct (b <? 2 * r) eqn:E2; [apply Z.ltb_lt in E2; nia|apply Z.ltb_ge in E2].
  exfalso. assert (2 * r = b) by lia. nia.
Qed.

(* exactly n - 1/2 or n + 1/2 with n even *)
Lemma rne_tie_below a b n :
  0 < b -> 0 <= a -> 2 * a = b * (2 * n - 1) -> Z.even n = true -> rne a b = n.
Proof.
  intros Hb Ha H He. destruct (rne_cases a b Hb Ha) as (E & Hr & Hq & ->).
  set (q := a / b) in *. set (r := a mod b) in *.
  assert (q = n - 1 /\ 2 * r = b) as [Hqn Hrb] by nia.
  destruct (2 * r <? b) eqn:E1; [apply Z.ltb_lt in E1; lia|].
  destruct (b <? 2 * r) eqn:E2; [apply Z.ltb_lt in E2; lia|].
  replace q with (n - 1) by lia.
  replace (Z.even (n - 1)) with false; [lia|].
  symmetry. rewrite Z.even_sub, He. reflexivity.
Qed.

Lemma rne_tie_above a b n :
  0 < b -> 0 <= a -> 2 * a = b * (2 * n + 1) -> Z.even n = true -> rne a b = n.
Proof.
  intros Hb Ha H He. destruct (rne_cases a b Hb Ha) as (E & Hr & Hq & ->).
  set (q := a / b) in *. set (r := a mod b) in *.
  assert (q = n /\ 2 * r = b) as [Hqn Hrb] by nia.
  destruct (2 * r <? b) eqn:E1; [apply Z.ltb_lt in E1; lia|].
  destruct (b <? 2 * r) eqn:E2; [apply Z.ltb_lt in E2; lia|].
  rewrite Hqn, He. reflexivity.
Qed.

(* monotone upper bound: a/b < n + 1/2 (or equal) gives rne <= n; used for range facts *)
Lemma rne_le a b n : 0 < b -> 0 <= a -> 2 * a <= b * (2 * n + 1) -> rne a b <= n + 1.
Proof. intros Hb Ha H. pose proof (rne_near a b Hb Ha). nia. Qed.

Lemma rne_scale a b k : 0 < b -> 0 < k -> rne (a * k) (b * k) = rne a b.
Proof.
  intros Hb Hk. unfold rne.
  rewrite Z.div_mul_cancel_r by lia.
  rewrite Z.mul_mod_distr_r by lia.
  replace (2 * (a mod b * k) <? b * k) with (2 * (a mod b) <? b).
  2:{ destruct (2 * (a mod b) <? b) eqn:E1; symmetry; [apply Z.ltb_lt in E1; apply Z.ltb_lt; nia|apply Z.ltb_ge in E1; apply Z.ltb_ge; nia]. }
  replace (b * k <? 2 * (a mod b * k)) with (b <? 2 * (a mod b)).
  2:{ destruct (b <? 2 * (a mod b)) eqn:E1; symmetry; [apply Z.ltb_lt in E1; apply Z.ltb_lt; nia|apply Z.ltb_ge in E1; apply Z.ltb_ge; nia]. }
  reflexivity.
Qed.
