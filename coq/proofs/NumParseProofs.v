(* NumParseProofs.v — facts about theories/NumParse.v (to_number) and its relation to
   F64.fmt (Display): round-to-nearest-even of a rational, validity of every result,
   exactness of the early exits, and the text round trip. *)
From Coq Require Import ZArith List Bool Lia SpecFloat.
Require Import NS.theories.F64 NS.proofs.F64Proofs NS.theories.NumParse.
Import ListNotations.
Open Scope Z_scope.

(* ------------------------------------------------------------------ rne *)

Lemma rne_cases a b :
  0 < b -> 0 <= a ->
  let q := a / b in let r := a mod b in
  a = b * q + r /\ 0 <= r < b /\ 0 <= q /\
  rne a b = (if 2 * r <? b then q else if b <? 2 * r then q + 1 else if Z.even q then q else q + 1).
Proof.
  intros Hb Ha q r. split; [apply Z.div_mod; lia|]. split; [apply Z.mod_pos_bound; lia|].
  split; [apply Z.div_pos; lia|]. reflexivity.
Qed.

Lemma even_succ_of_odd q : Z.even q = false -> Z.even (q + 1) = true.
Proof. intros H. rewrite Z.even_add, H. reflexivity. Qed.

(* the result is within half a unit *)
Lemma rne_near a b : 0 < b -> 0 <= a -> 2 * a - b <= 2 * b * rne a b <= 2 * a + b.
Proof.
  intros Hb Ha. destruct (rne_cases a b Hb Ha) as (E & Hr & Hq & ->).
  set (q := a / b) in *. set (r := a mod b) in *.
  destruct (2 * r <? b) eqn:E1; [apply Z.ltb_lt in E1; nia|apply Z.ltb_ge in E1].
  destruct (b <? 2 * r) eqn:E2; [apply Z.ltb_lt in E2; nia|apply Z.ltb_ge in E2].
  destruct (Z.even q); nia.
Qed.

Lemma rne_nonneg a b : 0 < b -> 0 <= a -> 0 <= rne a b.
Proof.
  intros Hb Ha. pose proof (rne_near a b Hb Ha) as H.
  destruct (Z.lt_ge_cases (rne a b) 0) as [Hn|Hn]; [exfalso|exact Hn].
  assert (b * rne a b <= b * (-1)) by (apply Z.mul_le_mono_nonneg_l; lia). lia.
Qed.

(* q = n from b*(2n-1) < b*(2q+1) and b*(2q) < b*(2n+1), all products of b being atoms for lia *)
Lemma sandwich_eq b q n : 0 < b -> b * (2 * n - 1) < b * (2 * q + 1) -> b * (2 * q) < b * (2 * n + 1) -> q = n.
Proof.
  intros Hb H1 H2. apply Z.mul_lt_mono_pos_l in H1; [|exact Hb]. apply Z.mul_lt_mono_pos_l in H2; [|exact Hb]. lia.
Qed.

(* strictly inside (n - 1/2, n + 1/2) *)
Lemma rne_inside a b n :
  0 < b -> 0 <= a -> b * (2 * n - 1) < 2 * a < b * (2 * n + 1) -> rne a b = n.
Proof.
  intros Hb Ha H. destruct (rne_cases a b Hb Ha) as (E & Hr & Hq & ->).
  set (q := a / b) in *. set (r := a mod b) in *.
  destruct (2 * r <? b) eqn:E1; [apply Z.ltb_lt in E1|apply Z.ltb_ge in E1].
  { apply (sandwich_eq b); [exact Hb|lia|lia]. }
  destruct (b <? 2 * r) eqn:E2; [apply Z.ltb_lt in E2|apply Z.ltb_ge in E2].
  { assert (H1 : b * q < b * n) by lia.
    assert (H2 : b * (2 * n) < b * (2 * q + 3)) by lia.
    apply Z.mul_lt_mono_pos_l in H1; [|exact Hb]. apply Z.mul_lt_mono_pos_l in H2; [|exact Hb]. lia. }
  exfalso. assert (Hrb : 2 * r = b) by lia.
  assert (H1 : b * (2 * n - 1) < b * (2 * q + 1)) by lia.
  assert (H2 : b * (2 * q + 1) < b * (2 * n + 1)) by lia.
  apply Z.mul_lt_mono_pos_l in H1; [|exact Hb]. apply Z.mul_lt_mono_pos_l in H2; [|exact Hb]. lia.
Qed.

(* exactly n - 1/2 or n + 1/2 with n even *)
Lemma rne_tie_below a b n :
  0 < b -> 0 <= a -> 2 * a = b * (2 * n - 1) -> Z.even n = true -> rne a b = n.
Proof.
  intros Hb Ha H He. destruct (rne_cases a b Hb Ha) as (E & Hr & Hq & ->).
  set (q := a / b) in *. set (r := a mod b) in *.
  assert (Hqn : q = n - 1).
  { assert (H1 : b * (2 * q) <= b * (2 * n - 1)) by lia.
    assert (H2 : b * (2 * n - 3) < b * (2 * q + 1)) by lia.
    apply Z.mul_le_mono_pos_l in H1; [|exact Hb]. apply Z.mul_lt_mono_pos_l in H2; [|exact Hb]. lia. }
  assert (Hrb : 2 * r = b) by (subst q; lia).
  destruct (2 * r <? b) eqn:E1; [apply Z.ltb_lt in E1; lia|].
  destruct (b <? 2 * r) eqn:E2; [apply Z.ltb_lt in E2; lia|].
  rewrite Hqn.
  replace (Z.even (n - 1)) with false; [lia|].
  symmetry. rewrite Z.even_sub, He. reflexivity.
Qed.

Lemma rne_tie_above a b n :
  0 < b -> 0 <= a -> 2 * a = b * (2 * n + 1) -> Z.even n = true -> rne a b = n.
Proof.
  intros Hb Ha H He. destruct (rne_cases a b Hb Ha) as (E & Hr & Hq & ->).
  set (q := a / b) in *. set (r := a mod b) in *.
  assert (Hqn : q = n).
  { assert (H1 : b * (2 * q) <= b * (2 * n + 1)) by lia.
    assert (H2 : b * (2 * n - 1) < b * (2 * q + 1)) by lia.
    apply Z.mul_le_mono_pos_l in H1; [|exact Hb]. apply Z.mul_lt_mono_pos_l in H2; [|exact Hb]. lia. }
  assert (Hrb : 2 * r = b) by (subst q; lia).
  destruct (2 * r <? b) eqn:E1; [apply Z.ltb_lt in E1; lia|].
  destruct (b <? 2 * r) eqn:E2; [apply Z.ltb_lt in E2; lia|].
  rewrite Hqn, He. reflexivity.
Qed.

(* monotone upper bound: a/b < n + 1/2 (or equal) gives rne <= n; used for range facts *)
Lemma rne_le a b n : 0 < b -> 0 <= a -> 2 * a <= b * (2 * n + 1) -> rne a b <= n + 1.
Proof. intros Hb Ha H. pose proof (rne_near a b Hb Ha). nia. Qed.

Lemma rne_scale a b k : 0 < b -> 0 < k -> rne (a * k) (b * k) = rne a b.
Proof.
  intros Hb Hk. unfold rne.
  rewrite Z.div_mul_cancel_r by lia.
  rewrite Z.mul_mod_distr_r by lia.
  replace (2 * (a mod b * k) <? b * k) with (2 * (a mod b) <? b).
  2:{ destruct (2 * (a mod b) <? b) eqn:E1; symmetry; [apply Z.ltb_lt in E1; apply Z.ltb_lt; nia|apply Z.ltb_ge in E1; apply Z.ltb_ge; nia]. }
  replace (b * k <? 2 * (a mod b * k)) with (b <? 2 * (a mod b)).
  2:{ destruct (b <? 2 * (a mod b)) eqn:E1; symmetry; [apply Z.ltb_lt in E1; apply Z.ltb_lt; nia|apply Z.ltb_ge in E1; apply Z.ltb_ge; nia]. }
  reflexivity.
Qed.

(* ------------------------------------------------------------------ powers of two *)

Lemma pow2_pos k : 0 <= k -> 0 < 2 ^ k.
Proof. intros H. apply Z.pow_pos_nonneg; lia. Qed.

Lemma pow2_add x y : 0 <= x -> 0 <= y -> 2 ^ (x + y) = 2 ^ x * 2 ^ y.
Proof. intros. apply Z.pow_add_r; assumption. Qed.

Lemma pow2_lt_inv x y : 0 <= y -> 2 ^ x < 2 ^ y -> x < y.
Proof. intros Hy H. apply (Z.pow_lt_mono_r_iff 2); [lia|exact Hy|exact H]. Qed.

Lemma pow2_le_mono x y : 0 <= x <= y -> 2 ^ x <= 2 ^ y.
Proof. intros H. apply Z.pow_le_mono_r; lia. Qed.

Lemma pow2_lt_mono x y : 0 <= x < y -> 2 ^ x < 2 ^ y.
Proof. intros H. apply Z.pow_lt_mono_r; lia. Qed.

(* 2^k <= a/b < 2^(k+1), with both sides scaled by 2^N so that all exponents are natural *)
Definition binade_at (a b k N : Z) : Prop :=
  0 <= N /\ 0 <= N + k /\ b * 2 ^ (N + k) <= a * 2 ^ N < b * 2 ^ (N + k + 1).

Lemma binade_shift a b k N M : 0 < b -> binade_at a b k N -> N <= M -> binade_at a b k M.
Proof.
  intros Hb (HN & HNk & H1 & H2) HM. unfold binade_at.
  split; [lia|]. split; [lia|].
  assert (E1 : 2 ^ (M + k) = 2 ^ (N + k) * 2 ^ (M - N)) by (rewrite <- pow2_add by lia; f_equal; lia).
  assert (E2 : 2 ^ (M + k + 1) = 2 ^ (N + k + 1) * 2 ^ (M - N)) by (rewrite <- pow2_add by lia; f_equal; lia).
  assert (E3 : 2 ^ M = 2 ^ N * 2 ^ (M - N)) by (rewrite <- pow2_add by lia; f_equal; lia).
  rewrite E1, E2, E3.
  pose proof (pow2_pos (M - N) ltac:(lia)) as Hp.
  set (p := 2 ^ (M - N)) in *. set (x := 2 ^ (N + k)) in *. set (y := 2 ^ N) in *. set (z := 2 ^ (N + k + 1)) in *.
  replace (b * (x * p)) with (b * x * p) by ring. replace (a * (y * p)) with (a * y * p) by ring.
  replace (b * (z * p)) with (b * z * p) by ring.
  split; [apply Z.mul_le_mono_nonneg_r; lia|apply Z.mul_lt_mono_pos_r; lia].
Qed.

Lemma binade_unique a b k k' N N' :
  0 < a -> 0 < b -> binade_at a b k N -> binade_at a b k' N' -> k = k'.
Proof.
  intros Ha Hb H H'.
  pose proof (binade_shift a b k N (N + N') Hb H ltac:(destruct H'; lia)) as (A0 & A1 & A2 & A3).
  pose proof (binade_shift a b k' N' (N + N') Hb H' ltac:(destruct H; lia)) as (B0 & B1 & B2 & B3).
  set (M := N + N') in *.
  assert (L1 : b * 2 ^ (M + k) < b * 2 ^ (M + k' + 1)) by lia.
  assert (L2 : b * 2 ^ (M + k') < b * 2 ^ (M + k + 1)) by lia.
  apply Z.mul_lt_mono_pos_l in L1; [|exact Hb]. apply Z.mul_lt_mono_pos_l in L2; [|exact Hb].
  apply pow2_lt_inv in L1; [|lia]. apply pow2_lt_inv in L2; [|lia]. lia.
Qed.

Lemma flog2_q_spec a b :
  0 < a -> 0 < b -> binade_at a b (flog2_q a b) (Z.abs (flog2_q a b) + 1).
Proof.
  intros Ha Hb.
  pose proof (Z.log2_spec a Ha) as [La1 La2]. pose proof (Z.log2_spec b Hb) as [Lb1 Lb2].
  pose proof (Z.log2_nonneg a) as La0. pose proof (Z.log2_nonneg b) as Lb0.
  unfold flog2_q. set (la := Z.log2 a) in *. set (lb := Z.log2 b) in *. set (l := la - lb).
  set (ge := if 0 <=? l then b * 2 ^ l <=? a else b <=? a * 2 ^ (- l)).
  (* ge decides 2^l <= a/b; state it at an arbitrary natural scale *)
  assert (Hge : forall N, 0 <= N -> 0 <= N + l -> (ge = true <-> b * 2 ^ (N + l) <= a * 2 ^ N)).
  { intros N HN HNl. subst ge. pose proof (pow2_pos N HN) as HpN. destruct (0 <=? l) eqn:El.
    - apply Z.leb_le in El. rewrite Z.leb_le. rewrite (Z.add_comm N l), pow2_add by lia.
      pose proof (pow2_pos l El). set (pl := 2 ^ l) in *. set (pN := 2 ^ N) in *. split; intros; nia.
    - apply Z.leb_gt in El. rewrite Z.leb_le.
      replace N with ((N + l) + (- l)) at 2 by lia. rewrite (pow2_add (N + l) (- l)) by lia.
      pose proof (pow2_pos (N + l) HNl). pose proof (pow2_pos (- l) ltac:(lia)).
      set (p1 := 2 ^ (N + l)) in *. set (p2 := 2 ^ (- l)) in *. split; intros; nia. }
  (* the two outer bounds that hold whatever ge says *)
  assert (Hlow : forall N, 0 <= N -> 0 <= N + l - 1 -> b * 2 ^ (N + l - 1) <= a * 2 ^ N).
  { intros N HN HNl. pose proof (pow2_pos N HN) as HpN.
    assert (b * 2 ^ (N + l - 1) <= 2 ^ (lb + 1) * 2 ^ (N + l - 1)).
    { apply Z.mul_le_mono_nonneg_r; [pose proof (pow2_pos (N + l - 1) HNl); lia|lia]. }
    assert (2 ^ (lb + 1) * 2 ^ (N + l - 1) = 2 ^ la * 2 ^ N).
    { rewrite <- !pow2_add by lia. f_equal. subst l. lia. }
    assert (2 ^ la * 2 ^ N <= a * 2 ^ N) by (apply Z.mul_le_mono_nonneg_r; lia). lia. }
  assert (Hhigh : forall N, 0 <= N -> 0 <= N + l + 1 -> a * 2 ^ N < b * 2 ^ (N + l + 1)).
  { intros N HN HNl. pose proof (pow2_pos N HN) as HpN.
    assert (a * 2 ^ N < 2 ^ (la + 1) * 2 ^ N) by (apply Z.mul_lt_mono_pos_r; lia).
    assert (2 ^ (la + 1) * 2 ^ N = 2 ^ lb * 2 ^ (N + l + 1)).
    { rewrite <- !pow2_add by lia. f_equal. subst l. lia. }
    assert (2 ^ lb * 2 ^ (N + l + 1) <= b * 2 ^ (N + l + 1)).
    { apply Z.mul_le_mono_nonneg_r; [pose proof (pow2_pos (N + l + 1) HNl); lia|lia]. }
    lia. }
  destruct ge eqn:Eg.
  - set (N := Z.abs l + 1). unfold binade_at. split; [lia|]. split; [lia|]. split.
    + apply Hge; [lia|lia|reflexivity].
    + apply Hhigh; lia.
  - set (N := Z.abs (l - 1) + 1). unfold binade_at. split; [lia|]. split; [lia|]. split.
    + replace (N + (l - 1)) with (N + l - 1) by lia. apply Hlow; lia.
    + replace (N + (l - 1) + 1) with (N + l) by lia.
      destruct (Z.lt_ge_cases (a * 2 ^ N) (b * 2 ^ (N + l))) as [Hlt|Hge']; [exact Hlt|].
      apply (Hge N) in Hge'; [congruence|lia|lia].
Qed.

Lemma flog2_q_unique a b k N : 0 < a -> 0 < b -> binade_at a b k N -> flog2_q a b = k.
Proof.
  intros Ha Hb H. eapply binade_unique; [exact Ha|exact Hb|apply flog2_q_spec; assumption|exact H].
Qed.

(* bounds on flog2_q from one comparison at any natural scale *)
Lemma flog2_q_ge a b k N :
  0 < a -> 0 < b -> 0 <= N -> 0 <= N + k -> b * 2 ^ (N + k) <= a * 2 ^ N -> k <= flog2_q a b.
Proof.
  intros Ha Hb HN HNk H.
  pose proof (flog2_q_spec a b Ha Hb) as S. set (f := flog2_q a b) in *.
  pose proof (binade_shift a b f _ (Z.abs f + 1 + N) Hb S ltac:(lia)) as (A0 & A1 & A2 & A3).
  set (M := Z.abs f + 1 + N) in *.
  assert (E1 : 2 ^ (M + k) = 2 ^ (N + k) * 2 ^ (M - N)) by (rewrite <- pow2_add by lia; f_equal; lia).
  assert (E3 : 2 ^ M = 2 ^ N * 2 ^ (M - N)) by (rewrite <- pow2_add by lia; f_equal; lia).
  pose proof (pow2_pos (M - N) ltac:(lia)) as Hp.
  assert (H' : b * 2 ^ (M + k) <= a * 2 ^ M).
  { rewrite E1, E3. replace (b * (2 ^ (N + k) * 2 ^ (M - N))) with (b * 2 ^ (N + k) * 2 ^ (M - N)) by ring.
    replace (a * (2 ^ N * 2 ^ (M - N))) with (a * 2 ^ N * 2 ^ (M - N)) by ring.
    apply Z.mul_le_mono_nonneg_r; lia. }
  assert (L : b * 2 ^ (M + k) < b * 2 ^ (M + f + 1)) by lia.
  apply Z.mul_lt_mono_pos_l in L; [|exact Hb]. apply pow2_lt_inv in L; lia.
Qed.

Lemma flog2_q_lt a b k N :
  0 < a -> 0 < b -> 0 <= N -> 0 <= N + k -> a * 2 ^ N < b * 2 ^ (N + k) -> flog2_q a b < k.
Proof.
  intros Ha Hb HN HNk H.
  pose proof (flog2_q_spec a b Ha Hb) as S. set (f := flog2_q a b) in *.
  pose proof (binade_shift a b f _ (Z.abs f + 1 + N) Hb S ltac:(lia)) as (A0 & A1 & A2 & A3).
  set (M := Z.abs f + 1 + N) in *.
  assert (E1 : 2 ^ (M + k) = 2 ^ (N + k) * 2 ^ (M - N)) by (rewrite <- pow2_add by lia; f_equal; lia).
  assert (E3 : 2 ^ M = 2 ^ N * 2 ^ (M - N)) by (rewrite <- pow2_add by lia; f_equal; lia).
  pose proof (pow2_pos (M - N) ltac:(lia)) as Hp.
  assert (H' : a * 2 ^ M < b * 2 ^ (M + k)).
  { rewrite E1, E3. replace (b * (2 ^ (N + k) * 2 ^ (M - N))) with (b * 2 ^ (N + k) * 2 ^ (M - N)) by ring.
    replace (a * (2 ^ N * 2 ^ (M - N))) with (a * 2 ^ N * 2 ^ (M - N)) by ring.
    apply Z.mul_lt_mono_pos_r; lia. }
  assert (L : b * 2 ^ (M + f) < b * 2 ^ (M + k)) by lia.
  apply Z.mul_lt_mono_pos_l in L; [|exact Hb]. apply pow2_lt_inv in L; lia.
Qed.

(* scaled_rne in units of 2^-1074: one shape for both signs of E *)
Lemma scaled_rne_norm a b E :
  0 < b -> -1074 <= E -> scaled_rne a b E = rne (a * 2 ^ 1074) (b * 2 ^ (E + 1074)).
Proof.
  intros Hb HE. unfold scaled_rne. destruct (0 <=? E) eqn:E0.
  - apply Z.leb_le in E0. rewrite (Z.add_comm E 1074), pow2_add by lia.
    replace (b * (2 ^ 1074 * 2 ^ E)) with (b * 2 ^ E * 2 ^ 1074) by ring.
    symmetry. apply rne_scale; [pose proof (pow2_pos E E0); nia|apply pow2_pos; lia].
  - apply Z.leb_gt in E0.
    replace (2 ^ 1074) with (2 ^ (- E) * 2 ^ (E + 1074)) by (rewrite <- pow2_add by lia; f_equal; lia).
    replace (a * (2 ^ (- E) * 2 ^ (E + 1074))) with (a * 2 ^ (- E) * 2 ^ (E + 1074)) by ring.
    symmetry. apply rne_scale; [exact Hb|apply pow2_pos; lia].
Qed.

Lemma rne_le_of_le a b n : 0 < b -> 0 <= a -> a <= b * n -> rne a b <= n.
Proof.
  intros Hb Ha H. pose proof (rne_near a b Hb Ha) as [_ N2].
  assert (L : b * (2 * rne a b) < b * (2 * n + 2)) by lia.
  apply Z.mul_lt_mono_pos_l in L; [lia|exact Hb].
Qed.

Lemma rne_ge_of_ge a b n : 0 < b -> 0 <= a -> b * n <= a -> n <= rne a b.
Proof.
  intros Hb Ha H. pose proof (rne_near a b Hb Ha) as [N1 _].
  assert (L : b * (2 * n - 2) < b * (2 * rne a b)) by lia.
  apply Z.mul_lt_mono_pos_l in L; [lia|exact Hb].
Qed.

(* ------------------------------------------------------------------ round_q *)

Lemma p1076 : 2 ^ 1076 = 4 * 2 ^ 1074.
Proof. replace 1076 with (2 + 1074) by lia. rewrite pow2_add by lia. reflexivity. Qed.

Lemma round_q_unfold neg a b :
  0 < b ->
  let f := flog2_q a b in
  let E := Z.max (-1074) (f - 52) in
  let M := rne (a * 2 ^ 1074) (b * 2 ^ (E + 1074)) in
  round_q neg a b =
    (let '(M', E') := if M =? 2 ^ 53 then (2 ^ 52, E + 1) else (M, E) in
     if 971 <? E' then S754_infinity neg
     else match M' with Zpos p => S754_finite neg p E' | _ => S754_zero neg end).
Proof.
  intros Hb f E M. unfold round_q. fold f. fold E.
  rewrite (scaled_rne_norm a b E Hb) by (subst E; lia). reflexivity.
Qed.

(* every result of the rounding is a canonical binary64 *)
Theorem round_q_valid : forall neg a b, 0 < a -> 0 < b -> valid (round_q neg a b).
Proof.
  intros neg a b Ha Hb. rewrite (round_q_unfold neg a b Hb). cbv zeta.
  set (f := flog2_q a b). set (E := Z.max (-1074) (f - 52)).
  assert (HE : -1074 <= E) by (subst E; lia).
  pose proof (pow2_pos 1074 ltac:(lia)) as HU. set (U := 2 ^ 1074) in *.
  pose proof (pow2_pos (E + 1074) ltac:(lia)) as HP. 
  set (A := a * U). set (B := b * 2 ^ (E + 1074)).
  assert (HA : 0 <= A) by (subst A; nia). assert (HB : 0 < B) by (subst B; nia).
  set (M := rne A B). pose proof (rne_nonneg A B HB HA) as HM0. fold M in HM0.
  (* a/b < 2^(k) for every k > f, at scale 1074 *)
  assert (Hup : forall k, f < k -> 0 <= 1074 + k -> a * U < b * 2 ^ (1074 + k)).
  { intros k Hk Hk0. destruct (Z.lt_ge_cases (a * U) (b * 2 ^ (1074 + k))) as [L|G]; [exact L|exfalso].
    pose proof (flog2_q_ge a b k 1074 Ha Hb ltac:(lia) Hk0 G). fold f in H. lia. }
  assert (Hdn : 0 <= 1074 + f -> b * 2 ^ (1074 + f) <= a * U).
  { intros Hf0. destruct (Z.lt_ge_cases (a * U) (b * 2 ^ (1074 + f))) as [L|G]; [exfalso|exact G].
    pose proof (flog2_q_lt a b f 1074 Ha Hb ltac:(lia) Hf0 L). fold f in H. lia. }
  assert (HM53 : M <= 2 ^ 53).
  { apply rne_le_of_le; [exact HB|exact HA|]. subst A B.
    replace (b * 2 ^ (E + 1074) * 2 ^ 53) with (b * 2 ^ (1074 + (E + 53))).
    2:{ replace (1074 + (E + 53)) with (E + 1074 + 53) by lia. rewrite (pow2_add (E + 1074) 53) by lia. ring. }
    apply Z.lt_le_incl. apply Hup; subst E; lia. }
  rewrite p53, p52 in *.
  destruct (M =? 9007199254740992) eqn:EM.
  - destruct (971 <? E + 1) eqn:E9; [exact I|]. apply Z.ltb_ge in E9. cbn [valid]. right. rewrite p52, p53. lia.
  - apply Z.eqb_neq in EM. destruct (971 <? E) eqn:E9; [exact I|]. apply Z.ltb_ge in E9.
    destruct M as [|p|p] eqn:EMp; [exact I| |exact I].
    cbn [valid]. rewrite p52, p53.
    destruct (Z.eq_dec E (-1074)) as [HEq|HNe].
    + destruct (Z.lt_ge_cases (Z.pos p) 4503599627370496) as [L|G]; [left; split; assumption|right; lia].
    + right. split; [|lia]. split; [|lia].
      (* E = f - 52 *)
      assert (HEf : E = f - 52) by (subst E; lia).
      rewrite <- EMp. apply rne_ge_of_ge; [exact HB|exact HA|]. subst A B.
      replace (b * 2 ^ (E + 1074) * 4503599627370496) with (b * 2 ^ (1074 + f)).
      2:{ rewrite <- p52. replace (1074 + f) with (E + 1074 + 52) by lia. rewrite (pow2_add (E + 1074) 52) by lia. ring. }
      apply Hdn. lia.
Qed.

(* a/b lies in the set of reals that round to m*2^e: between the midpoints to the two
   neighbouring doubles (the lower one is half as far when m*2^e is a power of two above the
   subnormal range), end points included exactly when m is even.  Everything is written in
   units of 2^-1076 so that it is a statement about integers. *)
Definition lo4 (m : positive) (e : Z) : Z :=
  if (Zpos m =? 2 ^ 52) && (-1074 <? e) then 4 * Zpos m - 1 else 4 * Zpos m - 2.

Definition in_round_interval (m : positive) (e : Z) (a b : Z) : Prop :=
  let P := 2 ^ (e + 1074) in
  let c := a * 2 ^ 1076 in
  if Z.even (Zpos m) then lo4 m e * P * b <= c <= (4 * Zpos m + 2) * P * b
  else lo4 m e * P * b < c < (4 * Zpos m + 2) * P * b.

Theorem round_q_interval : forall neg m e a b,
  0 < a -> 0 < b -> valid (S754_finite neg m e) -> in_round_interval m e a b ->
  round_q neg a b = S754_finite neg m e.
Proof.
  intros neg m e a b Ha Hb Hv Hin. rewrite (round_q_unfold neg a b Hb). cbv zeta.
  set (f := flog2_q a b). set (E := Z.max (-1074) (f - 52)).
  cbn [valid] in Hv. unfold in_round_interval, lo4 in Hin. rewrite p1076 in Hin. rewrite p52, p53 in *.
  assert (He : -1074 <= e <= 971) by lia.
  pose proof (pow2_pos 1074 ltac:(lia)) as HU. set (U := 2 ^ 1074) in *.
  pose proof (pow2_pos (e + 1074) ltac:(lia)) as HP. set (P := 2 ^ (e + 1074)) in *.
  set (A := a * U). assert (HA : 0 < A) by (subst A; nia).
  set (B := b * P). assert (HB : 0 < B) by (subst B; nia).
  set (mz := Z.pos m) in *. assert (Hm0 : 0 < mz) by (subst mz; lia).
  (* the interval in terms of A and B, weak form *)
  set (below := (mz =? 4503599627370496) && (-1074 <? e)) in *.
  assert (Hweak : (if below then 4 * mz - 1 else 4 * mz - 2) * B <= 4 * A <= (4 * mz + 2) * B).
  { subst A B. destruct (Z.even mz); destruct below; nia. }
  assert (Hstrict : Z.even mz = false ->
                    (if below then 4 * mz - 1 else 4 * mz - 2) * B < 4 * A < (4 * mz + 2) * B).
  { intros Hodd. rewrite Hodd in Hin. subst A B. destruct below; nia. }
  clear Hin.
  (* comparisons of a/b with powers of two, at scale 1076 where a*2^1076 = 4A *)
  assert (Hscale : forall k, 0 <= k -> b * 2 ^ (1076 + (k + e - 2)) = B * 2 ^ k).
  { intros k Hk. subst B P. replace (1076 + (k + e - 2)) with (e + 1074 + k) by lia.
    rewrite (pow2_add (e + 1074) k) by lia. ring. }
  assert (H4A : a * 2 ^ 1076 = 4 * A) by (rewrite p1076; subst A U; ring).
  assert (Hf_lt : forall k, 0 <= k -> 4 * A < B * 2 ^ k -> f < k + e - 2).
  { intros k Hk H. apply (flog2_q_lt a b (k + e - 2) 1076 Ha Hb); [lia|lia|]. rewrite Hscale, H4A by lia. exact H. }
  assert (Hf_ge : forall k, 0 <= k -> B * 2 ^ k <= 4 * A -> k + e - 2 <= f).
  { intros k Hk H. apply (flog2_q_ge a b (k + e - 2) 1076 Ha Hb); [lia|lia|]. rewrite Hscale, H4A by lia. exact H. }
  assert (q55 : 2 ^ 55 = 36028797018963968) by reflexivity.
  assert (q54 : 2 ^ 54 = 18014398509481984) by reflexivity.
  assert (q53 : 2 ^ 53 = 9007199254740992) by reflexivity.
  (* f < 53 + e in every case *)
  assert (Hf_hi : f < 53 + e).
  { replace (53 + e) with (55 + e - 2) by lia. apply Hf_lt; [lia|]. rewrite q55. nia. }
  destruct (below && (4 * A <? 4 * mz * B)) eqn:Ebb.
  - (* just below a power of two: one binade down, rounds up to 2^53 and renormalises *)
    apply andb_true_iff in Ebb as [Eb Elt]. apply Z.ltb_lt in Elt. rewrite Eb in Hweak, Hstrict.
    subst below. apply andb_true_iff in Eb as [Em Ee]. apply Z.eqb_eq in Em. apply Z.ltb_lt in Ee.
    assert (Hf : f = 51 + e).
    { assert (53 + e - 2 <= f) by (apply Hf_ge; [lia|rewrite q53; nia]).
      assert (f < 54 + e - 2) by (apply Hf_lt; [lia|rewrite q54; nia]). lia. }
    assert (HE : E = e - 1) by (subst E; lia).
    assert (HB' : b * 2 ^ (E + 1074) * 2 = B).
    { subst B P. rewrite HE. replace (e + 1074) with ((e - 1 + 1074) + 1) by lia.
      rewrite (pow2_add (e - 1 + 1074) 1) by lia. change (2 ^ 1) with 2. ring. }
    pose proof (pow2_pos (E + 1074) ltac:(lia)) as HP'.
    set (B' := b * 2 ^ (E + 1074)) in *. assert (HB'0 : 0 < B') by (subst B'; nia).
    fold A.
    assert (HM : rne A B' = 9007199254740992).
    { destruct (Z.eq_dec (2 * A) (B' * (2 * 9007199254740992 - 1))) as [Tie|NTie].
      - apply rne_tie_below; [exact HB'0|lia|lia|reflexivity].
      - apply rne_inside; [exact HB'0|lia|].
        destruct (Z.even mz) eqn:Ev.
        + nia.
        + specialize (Hstrict eq_refl). nia. }
    rewrite HM. cbn [Z.eqb Pos.eqb]. rewrite HE.
    replace (e - 1 + 1) with e by lia.
    destruct (971 <? e) eqn:E9; [apply Z.ltb_lt in E9; lia|].
    assert (Hmp : m = 4503599627370496%positive) by (subst mz; lia). rewrite Hmp. reflexivity.
  - (* same binade: E = e and the mantissa rounds to m *)
    assert (Hnb : below = false \/ 4 * mz * B <= 4 * A).
    { apply andb_false_iff in Ebb as [H|H]; [left; exact H|right; apply Z.ltb_ge in H; exact H]. }
    assert (HE : E = e).
    { subst E. destruct (Z.eq_dec e (-1074)) as [Hem|Hem]; [lia|].
      (* normal range: f = 52 + e *)
      assert (Hnorm : 4503599627370496 <= mz) by lia.
      assert (54 + e - 2 <= f); [|lia].
      apply Hf_ge; [lia|]. rewrite q54.
      destruct Hnb as [Hb0|Hge].
      + rewrite Hb0 in Hweak. subst below. apply andb_false_iff in Hb0 as [Hb0|Hb0].
        * apply Z.eqb_neq in Hb0. nia.
        * apply Z.ltb_ge in Hb0. lia.
      + nia. }
    rewrite HE. fold P. fold B. fold A.
    assert (HM : rne A B = mz).
    { assert (Hlow : B * (2 * mz - 1) <= 2 * A).
      { destruct Hnb as [Hb0|Hge]; [rewrite Hb0 in Hweak; nia|nia]. }
      assert (Hlow' : Z.even mz = false -> B * (2 * mz - 1) < 2 * A).
      { intros Hodd. specialize (Hstrict Hodd). destruct Hnb as [Hb0|Hge]; [rewrite Hb0 in Hstrict; nia|nia]. }
      assert (Hupw : 2 * A <= B * (2 * mz + 1)) by nia.
      assert (Hupw' : Z.even mz = false -> 2 * A < B * (2 * mz + 1)).
      { intros Hodd. specialize (Hstrict Hodd). nia. }
      destruct (Z.even mz) eqn:Ev.
      - destruct (Z.eq_dec (2 * A) (B * (2 * mz - 1))) as [T1|N1]; [apply rne_tie_below; [exact HB|lia|exact T1|exact Ev]|].
        destruct (Z.eq_dec (2 * A) (B * (2 * mz + 1))) as [T2|N2]; [apply rne_tie_above; [exact HB|lia|exact T2|exact Ev]|].
        apply rne_inside; [exact HB|lia|lia].
      - apply rne_inside; [exact HB|lia|]. split; [apply Hlow'; reflexivity|apply Hupw'; reflexivity]. }
    rewrite HM.
    destruct (mz =? 9007199254740992) eqn:E53; [apply Z.eqb_eq in E53; lia|].
    destruct (971 <? e) eqn:E9; [apply Z.ltb_lt in E9; lia|].
    subst mz. reflexivity.
Qed.

(* ------------------------------------------------------------------ digit strings *)

Definition digit (d : Z) : Prop := 48 <= d <= 57.

Lemma is_digit_spec d : is_digit d = true <-> digit d.
Proof. unfold is_digit, digit. rewrite andb_true_iff, !Z.leb_le. tauto. Qed.

Lemma pow10_pos k : 0 <= k -> 0 < 10 ^ k.
Proof. intros. apply Z.pow_pos_nonneg; lia. Qed.

Lemma pow10_add x y : 0 <= x -> 0 <= y -> 10 ^ (x + y) = 10 ^ x * 10 ^ y.
Proof. intros. apply Z.pow_add_r; assumption. Qed.

Lemma pow10_succ x : 0 <= x -> 10 ^ (x + 1) = 10 * 10 ^ x.
Proof. intros. rewrite pow10_add by lia. change (10 ^ 1) with 10. ring. Qed.

Lemma digits_val_acc ds : forall acc,
  digits_val acc ds = acc * 10 ^ Z.of_nat (length ds) + digits_val 0 ds.
Proof.
  induction ds as [|d t IH]; intros acc; cbn [digits_val length].
  - change (10 ^ Z.of_nat 0) with 1. lia.
  - rewrite (IH (acc * 10 + (d - 48))), (IH (0 * 10 + (d - 48))).
    rewrite Nat2Z.inj_succ, <- Z.add_1_r, pow10_succ by lia. ring.
Qed.

Lemma digits_val_bound ds :
  Forall digit ds -> 0 <= digits_val 0 ds < 10 ^ Z.of_nat (length ds).
Proof.
  induction 1 as [|d t Hd Ht IH]; cbn [digits_val length].
  - change (10 ^ Z.of_nat 0) with 1. lia.
  - rewrite digits_val_acc. rewrite Nat2Z.inj_succ, <- Z.add_1_r, pow10_succ by lia.
    unfold digit in Hd. pose proof (pow10_pos (Z.of_nat (length t)) ltac:(lia)). nia.
Qed.

Lemma digits_val_app a b : forall acc,
  digits_val acc (a ++ b) = digits_val (digits_val acc a) b.
Proof. induction a as [|d t IH]; intros acc; cbn [digits_val app]; [reflexivity|apply IH]. Qed.

Lemma digits_val_zeros n : forall acc, digits_val acc (zeros n) = acc * 10 ^ Z.of_nat n.
Proof.
  induction n as [|n IH]; intros acc; cbn [zeros digits_val].
  - change (10 ^ Z.of_nat 0) with 1. lia.
  - rewrite IH. rewrite Nat2Z.inj_succ, <- Z.add_1_r, pow10_succ by lia. ring.
Qed.

Lemma zeros_digit n : Forall digit (zeros n).
Proof. induction n; cbn [zeros]; constructor; [unfold digit; lia|assumption]. Qed.

Lemma zeros_length n : length (zeros n) = n.
Proof. induction n; cbn [zeros length]; congruence. Qed.

Lemma strip_val ds : digits_val 0 (strip_leading_zeros ds) = digits_val 0 ds.
Proof.
  induction ds as [|d t IH]; cbn [strip_leading_zeros]; [reflexivity|].
  destruct (d =? 48) eqn:E; [|reflexivity]. apply Z.eqb_eq in E. subst d. cbn [digits_val]. exact IH.
Qed.

Lemma strip_digit ds : Forall digit ds -> Forall digit (strip_leading_zeros ds).
Proof.
  induction 1 as [|d t Hd Ht IH]; cbn [strip_leading_zeros]; [constructor|].
  destruct (d =? 48); [exact IH|constructor; assumption].
Qed.

Lemma strip_head ds d t : strip_leading_zeros ds = d :: t -> d <> 48.
Proof.
  induction ds as [|x r IH]; cbn [strip_leading_zeros]; [discriminate|].
  destruct (x =? 48) eqn:E; [exact IH|]. intros H. inversion H; subst. apply Z.eqb_neq in E. exact E.
Qed.

(* a digit string that does not start with '0' has its full magnitude *)
Lemma digits_val_lower d t :
  Forall digit (d :: t) -> d <> 48 -> 10 ^ Z.of_nat (length t) <= digits_val 0 (d :: t).
Proof.
  intros H Hd. inversion H as [|x y Hx Hy]; subst. cbn [digits_val]. rewrite digits_val_acc.
  pose proof (digits_val_bound t Hy). unfold digit in Hx.
  pose proof (pow10_pos (Z.of_nat (length t)) ltac:(lia)). nia.
Qed.

Lemma strip_nil_val ds : Forall digit ds -> (strip_leading_zeros ds = [] <-> digits_val 0 ds = 0).
Proof.
  intros H. rewrite <- strip_val. pose proof (strip_digit ds H) as Hs.
  destruct (strip_leading_zeros ds) as [|d t] eqn:E; [cbn; tauto|].
  split; [discriminate|]. intros H0. exfalso.
  pose proof (digits_val_lower d t Hs (strip_head ds d t E)).
  pose proof (pow10_pos (Z.of_nat (length t)) ltac:(lia)). lia.
Qed.

(* ------------------------------------------------------------------ overflow / underflow of round_q *)

Lemma round_q_overflow neg a b : 0 < a -> 0 < b -> b * 2 ^ 1024 <= a -> round_q neg a b = S754_infinity neg.
Proof.
  intros Ha Hb H. rewrite (round_q_unfold neg a b Hb). cbv zeta.
  assert (Hf : 1024 <= flog2_q a b).
  { apply (flog2_q_ge a b 1024 0 Ha Hb); [lia|lia|]. change (2 ^ 0) with 1. rewrite Z.mul_1_r. exact H. }
  set (f := flog2_q a b) in *. set (E := Z.max (-1074) (f - 52)).
  assert (HE : 972 <= E) by (subst E; lia).
  destruct (rne (a * 2 ^ 1074) (b * 2 ^ (E + 1074)) =? 2 ^ 53).
  - replace (971 <? E + 1) with true by (symmetry; apply Z.ltb_lt; lia). reflexivity.
  - replace (971 <? E) with true by (symmetry; apply Z.ltb_lt; lia). reflexivity.
Qed.

Lemma round_q_underflow neg a b : 0 < a -> 0 < b -> a * 2 ^ 1075 < b -> round_q neg a b = S754_zero neg.
Proof.
  intros Ha Hb H. rewrite (round_q_unfold neg a b Hb). cbv zeta.
  assert (H1075 : 2 ^ 1075 = 2 * 2 ^ 1074) by (replace 1075 with (1 + 1074) by lia; rewrite pow2_add by lia; reflexivity).
  pose proof (pow2_pos 1074 ltac:(lia)) as HU. rewrite H1075 in H. set (U := 2 ^ 1074) in *.
  assert (Hf : flog2_q a b < -1074).
  { apply (flog2_q_lt a b (-1074) 1074 Ha Hb); [lia|lia|]. change (2 ^ (1074 + -1074)) with 1. fold U. nia. }
  set (f := flog2_q a b) in *. set (E := Z.max (-1074) (f - 52)).
  assert (HE : E = -1074) by (subst E; lia). rewrite HE.
  change (2 ^ (-1074 + 1074)) with 1. rewrite Z.mul_1_r.
  assert (HM : rne (a * U) b = 0) by (apply rne_inside; [exact Hb|nia|nia]).
  rewrite HM. reflexivity.
Qed.

Lemma c_overflow : 2 ^ 1024 <= 10 ^ 310. Proof. vm_compute. discriminate. Qed.
Lemma c_underflow : 2 ^ 1075 <= 10 ^ 331. Proof. vm_compute. discriminate. Qed.

(* the value of a numeral: digits read as an integer w, times 10^e, correctly rounded *)
Definition exact_round (neg : bool) (w e : Z) : f64 :=
  if w =? 0 then S754_zero neg else let '(a, b) := dec_fraction w e in round_q neg a b.

(* the early exits of round_dec return what rounding the exact fraction returns *)
Theorem round_dec_exact : forall neg ds e,
  Forall digit ds -> round_dec neg ds e = exact_round neg (digits_val 0 ds) e.
Proof.
  intros neg ds e Hd. unfold round_dec, exact_round.
  pose proof (strip_nil_val ds Hd) as Hnil. pose proof (strip_digit ds Hd) as Hsd.
  pose proof (strip_val ds) as Hv.
  destruct (strip_leading_zeros ds) as [|d t] eqn:Es.
  - replace (digits_val 0 ds) with 0 by (symmetry; apply Hnil; reflexivity). reflexivity.
  - pose proof (digits_val_lower d t Hsd (strip_head ds d t Es)) as Hlow.
    pose proof (digits_val_bound (d :: t) Hsd) as Hup.
    rewrite Hv in Hlow, Hup. set (w := digits_val 0 ds) in *.
    cbn [length] in *. rewrite Nat2Z.inj_succ, <- Z.add_1_r in *.
    set (n := Z.of_nat (length t)) in *. assert (Hn : 0 <= n) by (subst n; lia).
    pose proof (pow10_pos n Hn) as Hpn.
    destruct (w =? 0) eqn:Ew; [apply Z.eqb_eq in Ew; lia|].
    destruct (310 <? n + 1 + e) eqn:E1.
    + apply Z.ltb_lt in E1. unfold dec_fraction. destruct (0 <=? e) eqn:Ee.
      * apply Z.leb_le in Ee. symmetry. apply round_q_overflow; [pose proof (pow10_pos e Ee); nia|lia|].
        rewrite Z.mul_1_l. apply Z.le_trans with (10 ^ 310); [exact c_overflow|].
        apply Z.le_trans with (10 ^ (n + e)); [apply Z.pow_le_mono_r; lia|].
        rewrite pow10_add by lia. apply Z.mul_le_mono_nonneg_r; [pose proof (pow10_pos e Ee); lia|lia].
      * apply Z.leb_gt in Ee. symmetry. apply round_q_overflow; [lia|apply pow10_pos; lia|].
        apply Z.le_trans with (10 ^ (- e) * 10 ^ 310);
          [apply Z.mul_le_mono_nonneg_l; [pose proof (pow10_pos (- e) ltac:(lia)); lia|exact c_overflow]|].
        rewrite <- pow10_add by lia. apply Z.le_trans with (10 ^ n); [apply Z.pow_le_mono_r; lia|lia].
    + destruct (n + 1 + e <? -330) eqn:E2.
      * apply Z.ltb_lt in E2. unfold dec_fraction. destruct (0 <=? e) eqn:Ee; [apply Z.leb_le in Ee; lia|].
        symmetry. apply round_q_underflow; [lia|apply pow10_pos; lia|].
        apply Z.lt_le_trans with (10 ^ (n + 1) * 10 ^ 331).
        -- pose proof c_underflow. pose proof (pow2_pos 1075 ltac:(lia)). nia.
        -- rewrite <- pow10_add by lia. apply Z.pow_le_mono_r; lia.
      * rewrite Hv. reflexivity.
Qed.

(* ------------------------------------------------------------------ parsing what Display prints *)

Lemma span_digits_app ds r :
  Forall digit ds -> match r with [] => True | c :: _ => is_digit c = false end ->
  span_digits (ds ++ r) = (ds, r).
Proof.
  intros Hd Hr. induction Hd as [|d t Hdd Ht IH]; cbn [app span_digits].
  - destruct r as [|c r']; [reflexivity|]. cbn [span_digits]. rewrite Hr. reflexivity.
  - apply is_digit_spec in Hdd. rewrite Hdd, IH. reflexivity.
Qed.

Lemma span_digits_all ds : Forall digit ds -> span_digits ds = (ds, []).
Proof. intros H. rewrite <- (app_nil_r ds) at 1. apply span_digits_app; [exact H|exact I]. Qed.

Lemma parse_decimal_int ds :
  Forall digit ds -> ds <> [] -> parse_decimal ds = Some (ds, 0).
Proof.
  intros Hd Hne. unfold parse_decimal. rewrite (span_digits_all ds Hd). rewrite app_nil_r.
  destruct ds as [|d t]; [congruence|]. reflexivity.
Qed.

Lemma parse_decimal_frac ip fp :
  Forall digit ip -> Forall digit fp -> ip ++ fp <> [] ->
  parse_decimal (ip ++ 46 :: fp) = Some (ip ++ fp, - Z.of_nat (length fp)).
Proof.
  intros Hi Hf Hne. unfold parse_decimal.
  rewrite (span_digits_app ip (46 :: fp) Hi) by reflexivity.
  cbn [Z.eqb Pos.eqb]. rewrite (span_digits_all fp Hf).
  destruct (ip ++ fp) as [|d t]; [congruence|]. reflexivity.
Qed.

(* dec_digits *)
Lemma digits_fuel_spec : forall f n acc,
  0 <= n < 2 ^ Z.of_nat f -> (1 <= f)%nat ->
  exists ds, digits_fuel f n acc = ds ++ acc /\ Forall digit ds /\ ds <> [] /\ digits_val 0 ds = n.
Proof.
  induction f as [|f IH]; intros n acc Hn Hf; [lia|]. cbn [digits_fuel].
  destruct (n <? 10) eqn:E10.
  - apply Z.ltb_lt in E10. exists [48 + n]. split; [reflexivity|]. split; [constructor; [unfold digit; lia|constructor]|].
    split; [discriminate|]. cbn [digits_val]. lia.
  - apply Z.ltb_ge in E10.
    rewrite Nat2Z.inj_succ, <- Z.add_1_r in Hn. rewrite (pow2_add (Z.of_nat f) 1) in Hn by lia. change (2 ^ 1) with 2 in Hn.
    assert (Hf1 : (1 <= f)%nat).
    { destruct f as [|f']; [|lia]. change (2 ^ Z.of_nat 0) with 1 in Hn. lia. }
    assert (Hq : 0 <= n / 10 < 2 ^ Z.of_nat f).
    { split; [apply Z.div_pos; lia|]. apply Z.div_lt_upper_bound; lia. }
    destruct (IH (n / 10) ((48 + n mod 10) :: acc) Hq Hf1) as (ds & E & Hd & Hne & Hv).
    exists (ds ++ [48 + n mod 10]). split; [rewrite E, <- app_assoc; reflexivity|].
    pose proof (Z.mod_pos_bound n 10 ltac:(lia)) as Hm.
    split; [apply Forall_app; split; [exact Hd|constructor; [unfold digit; lia|constructor]]|].
    split; [destruct ds; discriminate|].
    rewrite digits_val_app, Hv. cbn [digits_val]. pose proof (Z.div_mod n 10 ltac:(lia)). lia.
Qed.

Lemma dec_digits_spec q :
  0 < q -> Forall digit (dec_digits q) /\ dec_digits q <> [] /\ digits_val 0 (dec_digits q) = q.
Proof.
  intros Hq. unfold dec_digits.
  destruct (digits_fuel_spec (S (Z.to_nat (Z.log2 (Z.max q 1)))) q []) as (ds & E & Hd & Hne & Hv).
  - rewrite Z.max_l by lia. rewrite Nat2Z.inj_succ, Z2Nat.id by apply Z.log2_nonneg.
    pose proof (Z.log2_spec q Hq). lia.
  - lia.
  - rewrite E, app_nil_r. auto.
Qed.

(* the fraction a candidate (q, j) of `shortest` stands for: q * 10^(-j) *)
Definition cand (q j : Z) : Z * Z := if 0 <=? j then (q, 10 ^ j) else (q * 10 ^ (- j), 1).

Lemma firstn_skipn_digit {n} (ds : list Z) : Forall digit ds -> Forall digit (firstn n ds) /\ Forall digit (skipn n ds).
Proof.
  intros H. rewrite <- (firstn_skipn n ds) in H. apply Forall_app in H. exact H.
Qed.

Lemma parse_plain q j :
  0 < q ->
  exists ds e c t,
    plain q j = c :: t /\ digit c /\
    parse_decimal (plain q j) = Some (ds, e) /\ Forall digit ds /\ 0 < digits_val 0 ds /\
    let '(a, b) := dec_fraction (digits_val 0 ds) e in
    let '(cn, cd) := cand q j in 0 < a /\ 0 < b /\ a * cd = cn * b.
Proof.
  intros Hq. destruct (dec_digits_spec q Hq) as (Hd & Hne & Hv).
  unfold plain, cand. set (dq := dec_digits q) in *.
  destruct dq as [|c0 t0] eqn:Edq; [congruence|]. rewrite <- Edq in *.
  assert (Hc0 : digit c0) by (rewrite Edq in Hd; inversion Hd; assumption).
  destruct (j <=? 0) eqn:Ej.
  - apply Z.leb_le in Ej. exists (dq ++ zeros (Z.to_nat (- j))), 0, c0, (t0 ++ zeros (Z.to_nat (- j))).
    split; [rewrite Edq; reflexivity|]. split; [exact Hc0|].
    assert (Hall : Forall digit (dq ++ zeros (Z.to_nat (- j)))) by (apply Forall_app; split; [exact Hd|apply zeros_digit]).
    split; [apply parse_decimal_int; [exact Hall|rewrite Edq; discriminate]|]. split; [exact Hall|].
    rewrite digits_val_app, Hv, digits_val_zeros, Z2Nat.id by lia.
    pose proof (pow10_pos (- j) ltac:(lia)) as Hp. split; [nia|].
    unfold dec_fraction. cbn [Z.leb Z.compare]. change (10 ^ 0) with 1.
    destruct (0 <=? j) eqn:Ej0.
    + apply Z.leb_le in Ej0. assert (j = 0) by lia. subst j. change (10 ^ (- 0)) with 1. change (10 ^ 0) with 1. lia.
    + nia.
  - apply Z.leb_gt in Ej. replace (0 <=? j) with true by (symmetry; apply Z.leb_le; lia).
    pose proof (pow10_pos j ltac:(lia)) as Hp.
    destruct (j <? Z.of_nat (length dq)) eqn:Ejn.
    + apply Z.ltb_lt in Ejn. set (k := Z.to_nat (Z.of_nat (length dq) - j)).
      assert (Hk : (1 <= k <= length dq)%nat) by (subst k; lia).
      destruct (@firstn_skipn_digit k dq Hd) as [Hf Hs].
      assert (Hfirst : exists t1, firstn k dq = c0 :: t1).
      { rewrite Edq. destruct k as [|k']; [lia|]. cbn [firstn]. eexists; reflexivity. }
      destruct Hfirst as [t1 Et1].
      exists dq, (- j), c0, (t1 ++ [46] ++ skipn k dq).
      split; [rewrite Et1; reflexivity|]. split; [exact Hc0|].
      assert (Hlen : Z.of_nat (length (skipn k dq)) = j) by (rewrite skipn_length; subst k; lia).
      split.
      { change ([46] ++ skipn k dq) with (46 :: skipn k dq).
        rewrite parse_decimal_frac; [|exact Hf|exact Hs|rewrite firstn_skipn, Edq; discriminate].
        rewrite firstn_skipn, Hlen. reflexivity. }
      split; [exact Hd|]. rewrite Hv. split; [exact Hq|].
      unfold dec_fraction. replace (0 <=? - j) with false by (symmetry; apply Z.leb_gt; lia).
      rewrite Z.opp_involutive. lia.
    + apply Z.ltb_ge in Ejn. set (z := zeros (Z.to_nat (j - Z.of_nat (length dq)))).
      exists ([48] ++ z ++ dq), (- j), 48, ([46] ++ z ++ dq).
      split; [reflexivity|]. split; [unfold digit; lia|].
      assert (Hz : Forall digit (z ++ dq)) by (apply Forall_app; split; [apply zeros_digit|exact Hd]).
      assert (Hlen : Z.of_nat (length (z ++ dq)) = j).
      { rewrite app_length. subst z. rewrite zeros_length. lia. }
      split.
      { change ([48; 46] ++ z ++ dq) with ([48] ++ 46 :: (z ++ dq)).
        rewrite parse_decimal_frac; [|constructor; [unfold digit; lia|constructor]|exact Hz|discriminate].
        rewrite Hlen. reflexivity. }
      split; [constructor; [unfold digit; lia|exact Hz]|].
      assert (Hval : digits_val 0 ([48] ++ z ++ dq) = q).
      { cbn [app digits_val]. change (0 * 10 + (48 - 48)) with 0. rewrite digits_val_app. subst z.
        rewrite digits_val_zeros. rewrite Z.mul_0_l. exact Hv. }
      rewrite Hval. split; [exact Hq|].
      unfold dec_fraction. replace (0 <=? - j) with false by (symmetry; apply Z.leb_gt; lia).
      rewrite Z.opp_involutive. lia.
Qed.

(* ------------------------------------------------------------------ F64.interval / in_interval *)

(* in_round_interval depends only on the value a/b *)
Lemma in_round_interval_ext m e a b a' b' :
  0 < b -> 0 < b' -> a * b' = a' * b -> in_round_interval m e a b -> in_round_interval m e a' b'.
Proof.
  intros Hb Hb' Heq. unfold in_round_interval. cbv zeta.
  set (C := 2 ^ 1076). set (P := 2 ^ (e + 1074)). set (L := lo4 m e * P). set (H := (4 * Z.pos m + 2) * P).
  assert (Tle : forall X, X * b <= a * C -> X * b' <= a' * C).
  { intros X HX. apply (Z.mul_le_mono_pos_r _ _ b Hb).
    replace (a' * C * b) with (a * C * b') by (rewrite <- (Z.mul_assoc a' C b), (Z.mul_comm C b), Z.mul_assoc, <- Heq; ring).
    replace (X * b' * b) with (X * b * b') by ring. apply Z.mul_le_mono_nonneg_r; lia. }
  assert (Tge : forall X, a * C <= X * b -> a' * C <= X * b').
  { intros X HX. apply (Z.mul_le_mono_pos_r _ _ b Hb).
    replace (a' * C * b) with (a * C * b') by (rewrite <- (Z.mul_assoc a' C b), (Z.mul_comm C b), Z.mul_assoc, <- Heq; ring).
    replace (X * b' * b) with (X * b * b') by ring. apply Z.mul_le_mono_nonneg_r; lia. }
  assert (Tlt : forall X, X * b < a * C -> X * b' < a' * C).
  { intros X HX. apply (Z.mul_lt_mono_pos_r b _ _ Hb).
    replace (a' * C * b) with (a * C * b') by (rewrite <- (Z.mul_assoc a' C b), (Z.mul_comm C b), Z.mul_assoc, <- Heq; ring).
    replace (X * b' * b) with (X * b * b') by ring. apply Z.mul_lt_mono_pos_r; lia. }
  assert (Tgt : forall X, a * C < X * b -> a' * C < X * b').
  { intros X HX. apply (Z.mul_lt_mono_pos_r b _ _ Hb).
    replace (a' * C * b) with (a * C * b') by (rewrite <- (Z.mul_assoc a' C b), (Z.mul_comm C b), Z.mul_assoc, <- Heq; ring).
    replace (X * b' * b) with (X * b * b') by ring. apply Z.mul_lt_mono_pos_r; lia. }
  destruct (Z.even (Z.pos m)); intros [H1 H2]; split; auto.
Qed.

(* comparisons survive multiplication of both sides by positive factors *)
Lemma cmp_transfer_le X Y X' Y' k1 k2 :
  0 < k1 -> 0 < k2 -> X * k1 = X' * k2 -> Y * k1 = Y' * k2 -> (X <= Y <-> X' <= Y').
Proof.
  intros H1 H2 EX EY. rewrite (Z.mul_le_mono_pos_r X Y k1 H1), EX, EY, <- (Z.mul_le_mono_pos_r X' Y' k2 H2). tauto.
Qed.

Lemma cmp_transfer_lt X Y X' Y' k1 k2 :
  0 < k1 -> 0 < k2 -> X * k1 = X' * k2 -> Y * k1 = Y' * k2 -> (X < Y <-> X' < Y').
Proof.
  intros H1 H2 EX EY. rewrite (Z.mul_lt_mono_pos_r k1 X Y H1), EX, EY, <- (Z.mul_lt_mono_pos_r k2 X' Y' H2). tauto.
Qed.

(* F64.in_interval (F64.interval m e) is that set *)
Lemma in_interval_round_iff m e cn cd :
  -1074 <= e -> 0 < cd ->
  (in_interval (interval m e) cn cd = true <-> in_round_interval m e cn cd).
Proof.
  intros He Hcd. unfold interval, in_round_interval, lo4. cbv zeta.
  set (mz := Z.pos m). set (bd := (mz =? 2 ^ 52) && (-1074 <? e)).
  set (lo := if bd then 4 * mz - 1 else 4 * mz - 2). set (hi := 4 * mz + 2).
  pose proof (pow2_pos 1076 ltac:(lia)) as HC. set (C := 2 ^ 1076) in *.
  pose proof (pow2_pos (e + 1074) ltac:(lia)) as HP. set (P := 2 ^ (e + 1074)) in *.
  destruct (0 <=? e - 2) eqn:Ee.
  - apply Z.leb_le in Ee. pose proof (pow2_pos (e - 2) Ee) as HQ.
    assert (EP : P = 2 ^ (e - 2) * C).
    { subst P C. replace (e + 1074) with ((e - 2) + 1076) by lia. rewrite pow2_add by lia. reflexivity. }
    set (Q := 2 ^ (e - 2)) in *. unfold in_interval.
    assert (L1 : forall x, (x * Q * cd <= cn * 1 <-> x * P * cd <= cn * C)).
    { intros x. apply (cmp_transfer_le _ _ _ _ C 1); [lia|lia|rewrite EP; ring|ring]. }
    assert (L2 : forall x, (cn * 1 <= x * Q * cd <-> cn * C <= x * P * cd)).
    { intros x. apply (cmp_transfer_le _ _ _ _ C 1); [lia|lia|ring|rewrite EP; ring]. }
    assert (L3 : forall x, (x * Q * cd < cn * 1 <-> x * P * cd < cn * C)).
    { intros x. apply (cmp_transfer_lt _ _ _ _ C 1); [lia|lia|rewrite EP; ring|ring]. }
    assert (L4 : forall x, (cn * 1 < x * Q * cd <-> cn * C < x * P * cd)).
    { intros x. apply (cmp_transfer_lt _ _ _ _ C 1); [lia|lia|ring|rewrite EP; ring]. }
    destruct (Z.even mz); rewrite andb_true_iff.
    + rewrite !Z.leb_le, L1, L2. tauto.
    + rewrite !Z.ltb_lt, L3, L4. tauto.
  - apply Z.leb_gt in Ee. pose proof (pow2_pos (- (e - 2)) ltac:(lia)) as HQ.
    assert (EP : 2 ^ (- (e - 2)) * P = C).
    { subst P C. rewrite <- pow2_add by lia. f_equal. lia. }
    set (Q := 2 ^ (- (e - 2))) in *. unfold in_interval.
    assert (L1 : forall x, (x * cd <= cn * Q <-> x * P * cd <= cn * C)).
    { intros x. apply (cmp_transfer_le _ _ _ _ P 1); [lia|lia|ring|rewrite <- EP; ring]. }
    assert (L2 : forall x, (cn * Q <= x * cd <-> cn * C <= x * P * cd)).
    { intros x. apply (cmp_transfer_le _ _ _ _ P 1); [lia|lia|rewrite <- EP; ring|ring]. }
    assert (L3 : forall x, (x * cd < cn * Q <-> x * P * cd < cn * C)).
    { intros x. apply (cmp_transfer_lt _ _ _ _ P 1); [lia|lia|ring|rewrite <- EP; ring]. }
    assert (L4 : forall x, (cn * Q < x * cd <-> cn * C < x * P * cd)).
    { intros x. apply (cmp_transfer_lt _ _ _ _ P 1); [lia|lia|rewrite <- EP; ring|ring]. }
    destruct (Z.even mz); rewrite andb_true_iff.
    + rewrite !Z.leb_le, L1, L2. tauto.
    + rewrite !Z.ltb_lt, L3, L4. tauto.
Qed.

Lemma in_interval_round m e cn cd :
  -1074 <= e -> 0 < cd ->
  in_interval (interval m e) cn cd = true -> in_round_interval m e cn cd.
Proof. intros He Hcd. apply in_interval_round_iff; assumption. Qed.

(* anything in the rounding interval is positive *)
Lemma in_round_interval_pos m e a b : -1074 <= e -> 0 < b -> in_round_interval m e a b -> 0 < a.
Proof.
  intros He Hb. unfold in_round_interval, lo4. cbv zeta.
  pose proof (pow2_pos (e + 1074) ltac:(lia)) as HP. pose proof (pow2_pos 1076 ltac:(lia)) as HC.
  set (P := 2 ^ (e + 1074)) in *. set (C := 2 ^ 1076) in *.
  assert (Hl : 0 < (if (Z.pos m =? 2 ^ 52) && (-1074 <? e) then 4 * Z.pos m - 1 else 4 * Z.pos m - 2) * P * b).
  { destruct ((Z.pos m =? 2 ^ 52) && (-1074 <? e)); apply Z.mul_pos_pos; try lia; apply Z.mul_pos_pos; lia. }
  destruct (Z.even (Z.pos m)); intros [H1 _]; nia.
Qed.

(* ------------------------------------------------------------------ strip_zeros keeps the value *)

Lemma cand_pos q j : 0 < q -> 0 < fst (cand q j) /\ 0 < snd (cand q j).
Proof.
  intros Hq. unfold cand. destruct (0 <=? j) eqn:Ej; cbn [fst snd].
  - apply Z.leb_le in Ej. split; [exact Hq|apply pow10_pos; exact Ej].
  - apply Z.leb_gt in Ej. pose proof (pow10_pos (- j) ltac:(lia)). split; [nia|lia].
Qed.

Lemma cand_div10 q j :
  q mod 10 = 0 ->
  fst (cand q j) * snd (cand (q / 10) (j - 1)) = fst (cand (q / 10) (j - 1)) * snd (cand q j).
Proof.
  intros Hm. assert (Hq : q = 10 * (q / 10)) by (pose proof (Z.div_mod q 10 ltac:(lia)); lia).
  set (q' := q / 10) in *. unfold cand.
  destruct (0 <=? j) eqn:Ej; destruct (0 <=? j - 1) eqn:Ej1; cbn [fst snd];
    try apply Z.leb_le in Ej; try apply Z.leb_gt in Ej; try apply Z.leb_le in Ej1; try apply Z.leb_gt in Ej1; try lia.
  - replace j with ((j - 1) + 1) at 2 by lia. rewrite pow10_succ by lia. rewrite Hq. ring.
  - assert (j = 0) by lia. subst j. change (10 ^ 0) with 1. change (10 ^ (- (0 - 1))) with 10. lia.
  - replace (- (j - 1)) with ((- j) + 1) by lia. rewrite pow10_succ by lia. rewrite Hq. ring.
Qed.

Lemma strip_zeros_spec : forall f q j,
  0 < q ->
  let '(q', j') := strip_zeros f q j in
  0 < q' /\ fst (cand q j) * snd (cand q' j') = fst (cand q' j') * snd (cand q j).
Proof.
  induction f as [|f IH]; intros q j Hq; cbn [strip_zeros]; [split; [exact Hq|reflexivity]|].
  destruct ((q mod 10 =? 0) && (0 <? q)) eqn:E; [|split; [exact Hq|reflexivity]].
  apply andb_true_iff in E as [Em _]. apply Z.eqb_eq in Em.
  assert (Hq' : 0 < q / 10).
  { pose proof (Z.div_mod q 10 ltac:(lia)). destruct (Z.lt_ge_cases 0 (q / 10)); [assumption|lia]. }
  specialize (IH (q / 10) (j - 1) Hq'). destruct (strip_zeros f (q / 10) (j - 1)) as [q' j'].
  destruct IH as [Hp Heq]. split; [exact Hp|].
  pose proof (cand_div10 q j Em) as H1.
  destruct (cand_pos q j Hq) as [A1 A2]. destruct (cand_pos (q / 10) (j - 1) Hq') as [B1 B2].
  destruct (cand_pos q' j' Hp) as [C1 C2].
  set (a := fst (cand q j)) in *. set (b := snd (cand q j)) in *.
  set (c := fst (cand (q / 10) (j - 1))) in *. set (d := snd (cand (q / 10) (j - 1))) in *.
  set (x := fst (cand q' j')) in *. set (y := snd (cand q' j')) in *.
  (* a d = c b, c y = x d  ==>  a y = x b *)
  apply (Z.mul_reg_r _ _ d); [lia|].
  replace (a * y * d) with (a * d * y) by ring. rewrite H1.
  replace (c * b * y) with (c * y * b) by ring. rewrite Heq. ring.
Qed.

(* ------------------------------------------------------------------ the round trip, given that the
   digits chosen by F64.shortest lie in the rounding interval *)

Lemma to_number_signed_plain (s : bool) q j :
  0 < q ->
  exists a b, 0 < a /\ 0 < b /\ a * snd (cand q j) = fst (cand q j) * b /\
  to_number ((if s then [45] else []) ++ plain q j) = round_q s a b.
Proof.
  intros Hq. destruct (parse_plain q j Hq) as (ds & e & c & t & Ec & Hc & Hp & Hd & Hw & Hfrac).
  destruct (dec_fraction (digits_val 0 ds) e) as [a b] eqn:Edf. destruct (cand q j) as [cn cd] eqn:Ecd.
  destruct Hfrac as (Ha & Hb & Heq). exists a, b. split; [exact Ha|]. split; [exact Hb|]. split; [exact Heq|].
  assert (Hbody : forall neg, match parse_decimal (plain q j) with
                              | Some (ds, e) => Some (round_dec neg ds e)
                              | None => if is_inf_text (plain q j) then Some (S754_infinity neg)
                                        else if is_nan_text (plain q j) then Some S754_nan else None
                              end = Some (round_q neg a b)).
  { intros neg. rewrite Hp. rewrite (round_dec_exact neg ds e Hd). unfold exact_round.
    replace (digits_val 0 ds =? 0) with false by (symmetry; apply Z.eqb_neq; lia). rewrite Edf. reflexivity. }
  unfold to_number, parse_f64. unfold digit in Hc. destruct s; cbn [app].
  - cbn [Z.eqb Pos.eqb orb]. rewrite Ec at 1. rewrite Hbody. reflexivity.
  - rewrite Ec at 1. cbv iota beta.
    replace (c =? 45) with false by (symmetry; apply Z.eqb_neq; lia).
    replace (c =? 43) with false by (symmetry; apply Z.eqb_neq; lia). cbn [orb].
    rewrite Ec at 1. cbv iota beta. rewrite Hbody. reflexivity.
Qed.

Definition fmt_digits (m : positive) (e : Z) : Z * Z :=
  let '(a, b) := if 0 <=? e then (Zpos m * 2 ^ e, 1) else (Zpos m, 2 ^ (- e)) in
  let l2 := Z.log2 (Zpos m) + e in
  let k0 := (l2 * 30103) / 100000 + 2 in
  let k10 := log10_down 8%nat a b k0 in
  shortest 17%nat 1 a b k10 (interval m e).

Lemma fmt_pos_digits m e :
  fmt_pos m e = let '(q, j) := fmt_digits m e in let '(q', j') := strip_zeros 20%nat q j in plain q' j'.
Proof. unfold fmt_pos, fmt_digits. destruct (0 <=? e); reflexivity. Qed.

Theorem roundtrip_finite_if : forall s m e,
  valid (S754_finite s m e) ->
  (let '(q, j) := fmt_digits m e in 0 < q /\ in_interval (interval m e) (fst (cand q j)) (snd (cand q j)) = true) ->
  to_number (fmt (S754_finite s m e)) = S754_finite s m e.
Proof.
  intros s m e Hv Hin. cbn [fmt]. rewrite fmt_pos_digits.
  destruct (fmt_digits m e) as [q j]. destruct Hin as [Hq Hin].
  pose proof (strip_zeros_spec 20%nat q j Hq) as Hs. destruct (strip_zeros 20%nat q j) as [q' j'].
  destruct Hs as [Hq' Heq].
  destruct (to_number_signed_plain s q' j' Hq') as (a & b & Ha & Hb & Hab & ->).
  assert (He : -1074 <= e) by (cbn [valid] in Hv; lia).
  destruct (cand_pos q j Hq) as [A1 A2]. destruct (cand_pos q' j' Hq') as [B1 B2].
  apply round_q_interval; [exact Ha|exact Hb|exact Hv|].
  apply (in_round_interval_ext m e (fst (cand q' j')) (snd (cand q' j'))); [exact B2|exact Hb|lia|].
  apply (in_round_interval_ext m e (fst (cand q j)) (snd (cand q j))); [exact A2|exact B2|exact Heq|].
  apply in_interval_round; [exact He|exact A2|exact Hin].
Qed.

(* ------------------------------------------------------------------ F64.shortest ends inside the interval *)

Definition fmt_frac (m : positive) (e : Z) : Z * Z :=
  if 0 <=? e then (Zpos m * 2 ^ e, 1) else (Zpos m, 2 ^ (- e)).

(* the value m*2^e in the integer units of in_round_interval *)
Lemma fmt_frac_units m e :
  -1074 <= e ->
  let '(a, b) := fmt_frac m e in
  0 < a /\ 0 < b /\ a * 2 ^ 1076 = 4 * Zpos m * 2 ^ (e + 1074) * b.
Proof.
  intros He. unfold fmt_frac. destruct (0 <=? e) eqn:Ee.
  - apply Z.leb_le in Ee. pose proof (pow2_pos e Ee). split; [nia|]. split; [lia|].
    replace (e + 1074) with (e + 1074) by lia. rewrite p1076.
    rewrite (pow2_add e 1074) by lia. ring.
  - apply Z.leb_gt in Ee. pose proof (pow2_pos (- e) ltac:(lia)). split; [lia|]. split; [lia|].
    rewrite p1076. replace (2 ^ 1074) with (2 ^ (e + 1074) * 2 ^ (- e)) by (rewrite <- pow2_add by lia; f_equal; lia). ring.
Qed.

Definition scaled_cand_ok (m : positive) (e j a b : Z) : Prop :=
  let '(sa, sb) := pow10_scale a b j in
  0 < sa /\ 0 < sb /\
  forall q, let '(cn, cd) := cand q j in
    0 < cd /\
    (forall x, x * 2 ^ (e + 1074) * cd <= cn * 2 ^ 1076 <-> x * sa <= 4 * Zpos m * q * sb) /\
    (forall x, cn * 2 ^ 1076 <= x * 2 ^ (e + 1074) * cd <-> 4 * Zpos m * q * sb <= x * sa) /\
    (forall x, x * 2 ^ (e + 1074) * cd < cn * 2 ^ 1076 <-> x * sa < 4 * Zpos m * q * sb) /\
    (forall x, cn * 2 ^ 1076 < x * 2 ^ (e + 1074) * cd <-> 4 * Zpos m * q * sb < x * sa).

Lemma scaled_cand m e j a b :
  -1074 <= e -> 0 < a -> 0 < b -> a * 2 ^ 1076 = 4 * Zpos m * 2 ^ (e + 1074) * b ->
  scaled_cand_ok m e j a b.
Proof.
  intros He Ha Hb F0. unfold scaled_cand_ok, pow10_scale, cand.
  pose proof (pow2_pos 1076 ltac:(lia)) as HC. set (C := 2 ^ 1076) in *.
  pose proof (pow2_pos (e + 1074) ltac:(lia)) as HP. set (P := 2 ^ (e + 1074)) in *.
  set (mz := Z.pos m) in *.
  destruct (0 <=? j) eqn:Ej.
  - apply Z.leb_le in Ej. pose proof (pow10_pos j Ej) as HT. set (T := 10 ^ j) in *.
    split; [nia|]. split; [exact Hb|]. intros q. split; [exact HT|].
    assert (K1 : 0 < a * T * b) by nia. assert (K2 : 0 < P * T * b) by nia.
    assert (EY : q * C * (a * T * b) = 4 * mz * q * b * (P * T * b)).
    { replace (q * C * (a * T * b)) with (a * C * (q * T * b)) by ring. rewrite F0. ring. }
    split; [|split; [|split]]; intros x.
    + apply (cmp_transfer_le _ _ _ _ (a * T * b) (P * T * b) K1 K2); [ring|exact EY].
    + apply (cmp_transfer_le _ _ _ _ (a * T * b) (P * T * b) K1 K2); [exact EY|ring].
    + apply (cmp_transfer_lt _ _ _ _ (a * T * b) (P * T * b) K1 K2); [ring|exact EY].
    + apply (cmp_transfer_lt _ _ _ _ (a * T * b) (P * T * b) K1 K2); [exact EY|ring].
  - apply Z.leb_gt in Ej. pose proof (pow10_pos (- j) ltac:(lia)) as HT. set (T := 10 ^ (- j)) in *.
    split; [exact Ha|]. split; [nia|]. intros q. split; [lia|].
    assert (K1 : 0 < a * b) by nia. assert (K2 : 0 < P * b) by nia.
    assert (EY : q * T * C * (a * b) = 4 * mz * q * (b * T) * (P * b)).
    { replace (q * T * C * (a * b)) with (a * C * (q * T * b)) by ring. rewrite F0. ring. }
    split; [|split; [|split]]; intros x.
    + apply (cmp_transfer_le _ _ _ _ (a * b) (P * b) K1 K2); [ring|exact EY].
    + apply (cmp_transfer_le _ _ _ _ (a * b) (P * b) K1 K2); [exact EY|ring].
    + apply (cmp_transfer_lt _ _ _ _ (a * b) (P * b) K1 K2); [ring|exact EY].
    + apply (cmp_transfer_lt _ _ _ _ (a * b) (P * b) K1 K2); [exact EY|ring].
Qed.

(* 10^k <= a/b, as F64.log10_down tests it *)
Definition p10le (a b k : Z) : Prop := if 0 <=? k then b * 10 ^ k <= a else b <= a * 10 ^ (- k).

Lemma log10_down_le a b : forall fuel k,
  p10le a b (k - Z.of_nat fuel) -> p10le a b (log10_down fuel a b k).
Proof.
  induction fuel as [|f IH]; intros k H; cbn [log10_down].
  - replace (k - Z.of_nat 0) with k in H by lia. exact H.
  - destruct (if 0 <=? k then b * 10 ^ k <=? a else b <=? a * 10 ^ (- k)) eqn:E.
    + unfold p10le. destruct (0 <=? k); apply Z.leb_le in E; exact E.
    + apply IH. replace (k - 1 - Z.of_nat f) with (k - Z.of_nat (S f)) by lia. exact H.
Qed.

(* with 17 digits the grid is finer than the interval: 10^16 * sb <= sa *)
Lemma scaled_at_17 a b k10 :
  0 < a -> 0 < b -> p10le a b k10 ->
  let '(sa, sb) := pow10_scale a b (16 - k10) in 10 ^ 16 * sb <= sa.
Proof.
  intros Ha Hb H. unfold p10le in H. unfold pow10_scale.
  destruct (0 <=? 16 - k10) eqn:Ej.
  - apply Z.leb_le in Ej. destruct (0 <=? k10) eqn:Ek.
    + apply Z.leb_le in Ek. replace 16 with (k10 + (16 - k10)) at 1 by lia. rewrite pow10_add by lia.
      pose proof (pow10_pos (16 - k10) Ej). nia.
    + apply Z.leb_gt in Ek. replace (16 - k10) with (16 + - k10) by lia. rewrite pow10_add by lia.
      pose proof (pow10_pos 16 ltac:(lia)). nia.
  - apply Z.leb_gt in Ej. replace (0 <=? k10) with true in H by (symmetry; apply Z.leb_le; lia).
    replace k10 with (16 + - (16 - k10)) in H by lia. rewrite pow10_add in H by lia. lia.
Qed.

Lemma hi_lo_gap : 3 * 10 ^ 16 > 4 * 2 ^ 52 /\ 10 ^ 16 > 2 ^ 53.
Proof. split; reflexivity. Qed.

(* at precision 17 one of the two neighbouring 17-digit decimals is inside *)
Lemma step_17 m e k10 :
  valid (S754_finite false m e) ->
  let '(a, b) := fmt_frac m e in
  p10le a b k10 ->
  let j := 16 - k10 in
  let '(sa, sb) := pow10_scale a b j in
  let q0 := sa / sb in
  (let '(cn, cd) := cand q0 j in in_interval (interval m e) cn cd) ||
  (let '(cn, cd) := cand (q0 + 1) j in in_interval (interval m e) cn cd) = true.
Proof.
  intros Hv. cbn [valid] in Hv. assert (He : -1074 <= e) by lia.
  pose proof (fmt_frac_units m e He) as HF. destruct (fmt_frac m e) as [a b]. destruct HF as (Ha & Hb & F0).
  intros Hk. cbv zeta.
  pose proof (scaled_cand m e (16 - k10) a b He Ha Hb F0) as HS. unfold scaled_cand_ok in HS.
  pose proof (scaled_at_17 a b k10 Ha Hb Hk) as H17.
  destruct (pow10_scale a b (16 - k10)) as [sa sb]. destruct HS as (Hsa & Hsb & HS).
  set (q0 := sa / sb).
  pose proof (Z.div_mod sa sb ltac:(lia)) as Hdm. pose proof (Z.mod_pos_bound sa sb Hsb) as Hmb. fold q0 in Hdm.
  assert (Hq0 : sb * q0 <= sa < sb * (q0 + 1)) by lia.
  pose proof (HS q0) as H0. pose proof (HS (q0 + 1)) as H1.
  destruct (cand q0 (16 - k10)) as [cn0 cd0]. destruct (cand (q0 + 1) (16 - k10)) as [cn1 cd1].
  destruct H0 as (Hcd0 & A1 & A2 & A3 & A4). destruct H1 as (Hcd1 & B1 & B2 & B3 & B4).
  destruct (in_interval (interval m e) cn0 cd0) eqn:I0; [reflexivity|].
  destruct (in_interval (interval m e) cn1 cd1) eqn:I1; [reflexivity|]. exfalso.
  assert (N0 : ~ in_round_interval m e cn0 cd0).
  { intros H. apply (in_interval_round_iff m e cn0 cd0 He Hcd0) in H. congruence. }
  assert (N1 : ~ in_round_interval m e cn1 cd1).
  { intros H. apply (in_interval_round_iff m e cn1 cd1 He Hcd1) in H. congruence. }
  unfold in_round_interval, lo4 in N0, N1. cbv zeta in N0, N1.
  rewrite p52, p53 in *. destruct hi_lo_gap as [G1 G2]. rewrite p52 in G1. rewrite p53 in G2.
  set (mz := Z.pos m) in *. set (T := 10 ^ 16) in *.
  set (lo := if (mz =? 4503599627370496) && (-1074 <? e) then 4 * mz - 1 else 4 * mz - 2) in *.
  assert (Hlo : 4 * mz - 2 <= lo < 4 * mz /\ (lo = 4 * mz - 1 -> mz = 4503599627370496)).
  { subst lo. destruct (mz =? 4503599627370496) eqn:Em; cbn [andb].
    - apply Z.eqb_eq in Em. destruct (-1074 <? e); lia.
    - lia. }
  assert (Hmz : 0 < mz < 9007199254740992) by (subst mz; lia).
  (* the far sides hold by themselves *)
  assert (U0 : 4 * mz * q0 * sb <= (4 * mz + 2) * sa) by nia.
  assert (U0' : 4 * mz * q0 * sb < (4 * mz + 2) * sa) by nia.
  assert (L1 : lo * sa <= 4 * mz * (q0 + 1) * sb) by nia.
  assert (L1' : lo * sa < 4 * mz * (q0 + 1) * sb) by nia.
  destruct (Z.even mz).
  - assert (X0 : ~ lo * sa <= 4 * mz * q0 * sb).
    { intros H. apply N0. split; [apply A1; exact H|apply A2; exact U0]. }
    assert (X1 : ~ 4 * mz * (q0 + 1) * sb <= (4 * mz + 2) * sa).
    { intros H. apply N1. split; [apply B1; exact L1|apply B2; exact H]. }
    nia.
  - assert (X0 : ~ lo * sa < 4 * mz * q0 * sb).
    { intros H. apply N0. split; [apply A3; exact H|apply A4; exact U0']. }
    assert (X1 : ~ 4 * mz * (q0 + 1) * sb < (4 * mz + 2) * sa).
    { intros H. apply N1. split; [apply B3; exact L1'|apply B4; exact H]. }
    nia.
Qed.

Lemma shortest_S f p a b k10 iv :
  shortest (S f) p a b k10 iv =
  (let j := p - 1 - k10 in
   let '(sa, sb) := pow10_scale a b j in
   let q0 := sa / sb in
   let r := sa mod sb in
   let in0 := let '(cn, cd) := cand q0 j in in_interval iv cn cd in
   let in1 := let '(cn, cd) := cand (q0 + 1) j in in_interval iv cn cd in
   let up := sb <=? 2 * r in
   if in0 && in1 then (if up then q0 + 1 else q0, j)
   else if in0 then (q0, j)
   else if in1 then (q0 + 1, j)
   else shortest f (p + 1) a b k10 iv).
Proof. cbn [shortest]. cbv zeta. destruct (pow10_scale a b (p - 1 - k10)). reflexivity. Qed.

(* whenever the search has a precision at which a neighbour is inside before the fuel ends, it
   returns digits inside the interval *)
Lemma shortest_ok a b k10 iv : forall fuel p,
  (1 <= fuel)%nat ->
  (let j := (p + Z.of_nat fuel - 1) - 1 - k10 in
   let '(sa, sb) := pow10_scale a b j in
   let q0 := sa / sb in
   (let '(cn, cd) := cand q0 j in in_interval iv cn cd) ||
   (let '(cn, cd) := cand (q0 + 1) j in in_interval iv cn cd) = true) ->
  let '(q, j) := shortest fuel p a b k10 iv in
  (let '(cn, cd) := cand q j in in_interval iv cn cd) = true.
Proof.
  induction fuel as [|f IH]; intros p Hf H; [lia|].
  rewrite shortest_S. cbv zeta.
  destruct (pow10_scale a b (p - 1 - k10)) as [sa sb] eqn:Eps.
  set (q0 := sa / sb).
  destruct (let '(cn, cd) := cand q0 (p - 1 - k10) in in_interval iv cn cd) eqn:I0;
  destruct (let '(cn, cd) := cand (q0 + 1) (p - 1 - k10) in in_interval iv cn cd) eqn:I1; cbn [andb].
  - destruct (sb <=? 2 * (sa mod sb)); assumption.
  - exact I0.
  - exact I1.
  - destruct f as [|f'].
    + exfalso. cbv zeta in H. replace (p + Z.of_nat 1 - 1 - 1 - k10) with (p - 1 - k10) in H by lia.
      rewrite Eps in H. fold q0 in H. rewrite I0, I1 in H. discriminate.
    + apply IH; [lia|]. replace (p + 1 + Z.of_nat (S f') - 1) with (p + Z.of_nat (S (S f')) - 1) by lia. exact H.
Qed.

(* the starting estimate of log10 is never more than 8 above: 10^(k0 - 8) <= 2^l2 for every
   binary exponent of a finite double *)
Definition k0_of (l2 : Z) : Z := (l2 * 30103) / 100000 + 2.
Definition k0_low_ok (l2 : Z) : bool :=
  let k := k0_of l2 - 8 in
  let '(pa, pb) := if 0 <=? l2 then (2 ^ l2, 1) else (1, 2 ^ (- l2)) in
  if 0 <=? k then pb * 10 ^ k <=? pa else pb <=? pa * 10 ^ (- k).
Definition l2_range : list Z := map (fun i => Z.of_nat i - 1074) (seq 0 2098).

Lemma k0_low_sweep : forallb k0_low_ok l2_range = true.
Proof. vm_compute. reflexivity. Qed.

Lemma k0_low l2 : -1074 <= l2 <= 1023 -> k0_low_ok l2 = true.
Proof.
  intros H. pose proof k0_low_sweep as S. rewrite forallb_forall in S. apply S.
  unfold l2_range. apply in_map_iff. exists (Z.to_nat (l2 + 1074)). split; [lia|].
  apply in_seq. lia.
Qed.

Lemma fmt_k10_le m e :
  valid (S754_finite false m e) ->
  let '(a, b) := fmt_frac m e in
  p10le a b (log10_down 8%nat a b (k0_of (Z.log2 (Zpos m) + e))).
Proof.
  intros Hv. cbn [valid] in Hv. rewrite p52, p53 in Hv.
  pose proof (Z.log2_spec (Z.pos m) ltac:(lia)) as [L1 L2]. pose proof (Z.log2_nonneg (Z.pos m)) as L0.
  assert (Hl52 : Z.log2 (Z.pos m) <= 52).
  { destruct (Z.le_gt_cases (Z.log2 (Z.pos m)) 52) as [H|H]; [exact H|exfalso].
    assert (2 ^ 53 <= 2 ^ Z.log2 (Z.pos m)) by (apply pow2_le_mono; lia). rewrite p53 in *. lia. }
  set (lm := Z.log2 (Z.pos m)) in *. set (l2 := lm + e).
  assert (Hl2 : -1074 <= l2 <= 1023) by (subst l2; lia).
  pose proof (k0_low l2 Hl2) as Hk. unfold k0_low_ok in Hk.
  unfold fmt_frac. set (k := k0_of l2 - 8) in *.
  assert (Hgoal : p10le (fst (if 0 <=? e then (Z.pos m * 2 ^ e, 1) else (Z.pos m, 2 ^ (- e))))
                        (snd (if 0 <=? e then (Z.pos m * 2 ^ e, 1) else (Z.pos m, 2 ^ (- e)))) k).
  { unfold p10le.
    destruct (0 <=? e) eqn:Ee; cbn [fst snd]; [apply Z.leb_le in Ee|apply Z.leb_gt in Ee].
    - (* l2 >= 0 *)
      replace (0 <=? l2) with true in Hk by (symmetry; apply Z.leb_le; lia).
      assert (Hv2 : 2 ^ l2 <= Z.pos m * 2 ^ e).
      { subst l2. rewrite pow2_add by lia. apply Z.mul_le_mono_nonneg_r; [pose proof (pow2_pos e Ee); lia|lia]. }
      destruct (0 <=? k) eqn:Ek.
      + apply Z.leb_le in Hk. lia.
      + apply Z.leb_le in Hk. apply Z.leb_gt in Ek. pose proof (pow10_pos (- k) ltac:(lia)). nia.
    - pose proof (pow2_pos (- e) ltac:(lia)) as HQ.
      destruct (0 <=? l2) eqn:El; [apply Z.leb_le in El|apply Z.leb_gt in El].
      + (* 2^l2 * 2^(-e) = 2^lm <= m *)
        assert (Hv2 : 2 ^ l2 * 2 ^ (- e) <= Z.pos m).
        { rewrite <- pow2_add by lia. replace (l2 + - e) with lm by (subst l2; lia). lia. }
        destruct (0 <=? k) eqn:Ek.
        * apply Z.leb_le in Hk. apply Z.leb_le in Ek. pose proof (pow10_pos k Ek). nia.
        * apply Z.leb_le in Hk. apply Z.leb_gt in Ek. pose proof (pow10_pos (- k) ltac:(lia)). nia.
      + (* 2^(-e) = 2^(-l2) * 2^lm *)
        assert (Hv2 : 2 ^ (- e) <= 2 ^ (- l2) * Z.pos m).
        { replace (- e) with (- l2 + lm) by (subst l2; lia). rewrite pow2_add by lia.
          apply Z.mul_le_mono_nonneg_l; [pose proof (pow2_pos (- l2) ltac:(lia)); lia|lia]. }
        pose proof (pow2_pos (- l2) ltac:(lia)) as HQ2.
        destruct (0 <=? k) eqn:Ek.
        * apply Z.leb_le in Hk. apply Z.leb_le in Ek. pose proof (pow10_pos k Ek). nia.
        * apply Z.leb_le in Hk. apply Z.leb_gt in Ek. pose proof (pow10_pos (- k) ltac:(lia)). nia. }
  destruct (0 <=? e); cbn [fst snd] in Hgoal; apply log10_down_le;
    (replace (k0_of l2 - Z.of_nat 8) with k by (subst k; lia)); exact Hgoal.
Qed.

Theorem fmt_digits_in_interval : forall m e,
  valid (S754_finite false m e) ->
  let '(q, j) := fmt_digits m e in
  0 < q /\ in_interval (interval m e) (fst (cand q j)) (snd (cand q j)) = true.
Proof.
  intros m e Hv. assert (He : -1074 <= e) by (cbn [valid] in Hv; lia).
  unfold fmt_digits. change (if 0 <=? e then (Z.pos m * 2 ^ e, 1) else (Z.pos m, 2 ^ (- e))) with (fmt_frac m e).
  pose proof (fmt_k10_le m e Hv) as Hk. pose proof (fmt_frac_units m e He) as HF.
  destruct (fmt_frac m e) as [a b] eqn:Efr. destruct HF as (Ha & Hb & F0).
  change (Z.log2 (Z.pos m) + e) with (Z.log2 (Z.pos m) + e) in *.
  fold (k0_of (Z.log2 (Z.pos m) + e)).
  set (k10 := log10_down 8 a b (k0_of (Z.log2 (Z.pos m) + e))) in *.
  pose proof (step_17 m e k10 Hv) as H17. rewrite Efr in H17. specialize (H17 Hk). cbv zeta in H17.
  pose proof (shortest_ok a b k10 (interval m e) 17%nat 1 ltac:(lia)) as Hs. cbv zeta in Hs.
  replace (1 + Z.of_nat 17 - 1 - 1 - k10) with (16 - k10) in Hs by lia.
  specialize (Hs H17). destruct (shortest 17 1 a b k10 (interval m e)) as [q j].
  destruct (cand q j) as [cn cd] eqn:Ec. cbn [fst snd].
  split; [|exact Hs].
  assert (Hcd : 0 < cd).
  { unfold cand in Ec. destruct (0 <=? j) eqn:Ej; inversion Ec; subst; [apply pow10_pos; apply Z.leb_le; exact Ej|lia]. }
  pose proof (in_round_interval_pos m e cn cd He Hcd (in_interval_round m e cn cd He Hcd Hs)) as Hcn.
  unfold cand in Ec. destruct (0 <=? j) eqn:Ej; inversion Ec; subst; [exact Hcn|].
  apply Z.leb_gt in Ej. pose proof (pow10_pos (- j) ltac:(lia)). nia.
Qed.

(* Display then to_number is the identity on every binary64 value (NaN to NaN) *)
Theorem parse_of_fmt_roundtrip : forall x, valid x -> to_number (fmt x) = x.
Proof.
  intros [s|s| |s m e] Hv.
  - destruct s; reflexivity.
  - destruct s; reflexivity.
  - reflexivity.
  - apply roundtrip_finite_if; [exact Hv|]. apply fmt_digits_in_interval. exact Hv.
Qed.

(* every byte string yields a canonical binary64; parse errors yield NaN *)
Lemma digits_span s : Forall digit (fst (span_digits s)).
Proof.
  induction s as [|c t IH]; cbn [span_digits]; [constructor|].
  destruct (is_digit c) eqn:E; [|constructor].
  destruct (span_digits t) as [d r]. cbn [fst] in *. constructor; [apply is_digit_spec; exact E|exact IH].
Qed.

Lemma parse_decimal_digits s ds e : parse_decimal s = Some (ds, e) -> Forall digit ds.
Proof.
  unfold parse_decimal. pose proof (digits_span s) as H1.
  destruct (span_digits s) as [ip r1]. cbn [fst] in H1.
  assert (H2 : Forall digit (fst (match r1 with
                                  | c :: t => if c =? 46 then span_digits t else ([], r1)
                                  | [] => ([], r1)
                                  end))).
  { destruct r1 as [|c t]; [constructor|]. destruct (c =? 46); [apply digits_span|constructor]. }
  destruct (match r1 with | c :: t => if c =? 46 then span_digits t else ([], r1) | [] => ([], r1) end) as [fp r2].
  cbn [fst] in H2. assert (H3 : Forall digit (ip ++ fp)) by (apply Forall_app; split; assumption).
  destruct (ip ++ fp) as [|d t] eqn:E; [discriminate|].
  destruct r2 as [|c t2].
  - intros H. inversion H; subst. exact H3.
  - destruct ((c =? 101) || (c =? 69)); [|discriminate]. destruct (parse_exp t2); [|discriminate].
    intros H. inversion H; subst. exact H3.
Qed.

Lemma exact_round_valid neg w e : 0 <= w -> valid (exact_round neg w e).
Proof.
  intros Hw. unfold exact_round. destruct (w =? 0) eqn:E; [exact I|]. apply Z.eqb_neq in E.
  unfold dec_fraction. destruct (0 <=? e) eqn:Ee.
  - apply Z.leb_le in Ee. apply round_q_valid; [pose proof (pow10_pos e Ee); nia|lia].
  - apply Z.leb_gt in Ee. apply round_q_valid; [lia|apply pow10_pos; lia].
Qed.

Theorem to_number_valid : forall s, valid (to_number s).
Proof.
  intros s. unfold to_number, parse_f64. destruct s as [|c t]; [exact I|].
  set (body := if (c =? 45) || (c =? 43) then t else c :: t). destruct body as [|c' t'] eqn:Eb; [exact I|].
  destruct (parse_decimal (c' :: t')) as [[ds e]|] eqn:Ep.
  - rewrite (round_dec_exact _ ds e (parse_decimal_digits _ ds e Ep)).
    apply exact_round_valid. apply (digits_val_bound ds (parse_decimal_digits _ ds e Ep)).
  - destruct (is_inf_text (c' :: t')); [exact I|]. destruct (is_nan_text (c' :: t')); exact I.
Qed.

(* the value of an accepted numeral is the correctly rounded decimal: digits ds scaled by 10^e *)
Theorem to_number_decimal : forall sgn body ds e,
  (sgn = [] \/ sgn = [43] \/ sgn = [45]) ->
  (match body with c :: _ => c <> 43 /\ c <> 45 | [] => False end) ->
  parse_decimal body = Some (ds, e) ->
  to_number (sgn ++ body) =
  exact_round (match sgn with [45] => true | _ => false end) (digits_val 0 ds) e.
Proof.
  intros sgn body ds e Hs Hb Hp. pose proof (parse_decimal_digits body ds e Hp) as Hd.
  destruct body as [|c t]; [tauto|]. destruct Hb as [H43 H45].
  unfold to_number, parse_f64.
  destruct Hs as [->|[->| ->]]; cbn [app].
  - replace (c =? 45) with false by (symmetry; apply Z.eqb_neq; exact H45).
    replace (c =? 43) with false by (symmetry; apply Z.eqb_neq; exact H43). cbn [orb].
    rewrite Hp. apply round_dec_exact. exact Hd.
  - cbn [Z.eqb Pos.eqb orb]. rewrite Hp. apply round_dec_exact. exact Hd.
  - cbn [Z.eqb Pos.eqb orb]. rewrite Hp. apply round_dec_exact. exact Hd.
Qed.

(* signs and zeros *)
Theorem to_number_zero : forall sgn body ds e,
  (sgn = [] \/ sgn = [43] \/ sgn = [45]) ->
  (match body with c :: _ => c <> 43 /\ c <> 45 | [] => False end) ->
  parse_decimal body = Some (ds, e) -> digits_val 0 ds = 0 ->
  to_number (sgn ++ body) = S754_zero (match sgn with [45] => true | _ => false end).
Proof.
  intros sgn body ds e Hs Hb Hp Hz. rewrite (to_number_decimal sgn body ds e Hs Hb Hp).
  unfold exact_round. rewrite Hz. reflexivity.
Qed.

Lemma round_q_sign neg a b : sign_of (round_q neg a b) = neg.
Proof.
  unfold round_q. destruct (scaled_rne a b _ =? 2 ^ 53).
  - destruct (971 <? _); reflexivity.
  - destruct (971 <? _); [reflexivity|]. destruct (scaled_rne a b _); reflexivity.
Qed.

Theorem to_number_sign : forall sgn body ds e,
  (sgn = [] \/ sgn = [43] \/ sgn = [45]) ->
  (match body with c :: _ => c <> 43 /\ c <> 45 | [] => False end) ->
  parse_decimal body = Some (ds, e) ->
  sign_of (to_number (sgn ++ body)) = (match sgn with [45] => true | _ => false end).
Proof.
  intros sgn body ds e Hs Hb Hp. rewrite (to_number_decimal sgn body ds e Hs Hb Hp).
  unfold exact_round. destruct (digits_val 0 ds =? 0); [reflexivity|].
  destruct (dec_fraction (digits_val 0 ds) e). apply round_q_sign.
Qed.

Theorem to_number_error : forall s, parse_f64 s = None -> to_number s = S754_nan.
Proof. intros s H. unfold to_number. rewrite H. reflexivity. Qed.

(* ------------------------------------------------------------------ what the grammar can accept *)

Definition numeric_char (b : Z) : Prop := digit b \/ b = 46 \/ b = 101 \/ b = 69 \/ b = 43 \/ b = 45.

Lemma span_digits_eq s : s = fst (span_digits s) ++ snd (span_digits s).
Proof.
  induction s as [|c t IH]; cbn [span_digits]; [reflexivity|].
  destruct (is_digit c); [|reflexivity]. destruct (span_digits t) as [d r]. cbn [fst snd app] in *. congruence.
Qed.

Lemma digits_numeric ds : Forall digit ds -> Forall numeric_char ds.
Proof. intros H. eapply Forall_impl; [|exact H]. intros a Ha. left. exact Ha. Qed.

Lemma parse_exp_chars s x : parse_exp s = Some x -> Forall numeric_char s.
Proof.
  unfold parse_exp.
  assert (G : forall s1, (let '(ds, r) := span_digits s1 in
                          match ds, r with _ :: _, [] => Some 0 | _, _ => None end) <> None -> Forall numeric_char s1).
  { intros s1 H. pose proof (span_digits_eq s1) as E. pose proof (digits_span s1) as D.
    destruct (span_digits s1) as [ds r]. cbn [fst snd] in *. destruct ds as [|d ds']; [congruence|].
    destruct r; [|congruence]. rewrite E, app_nil_r. apply digits_numeric. exact D. }
  destruct s as [|c t].
  - intros H. constructor.
  - destruct (c =? 45) eqn:E45; [|destruct (c =? 43) eqn:E43].
    + apply Z.eqb_eq in E45. intros H. constructor; [unfold numeric_char; lia|]. apply G.
      destruct (span_digits t) as [ds r]. destruct ds; [discriminate|]. destruct r; [discriminate|discriminate].
    + apply Z.eqb_eq in E43. intros H. constructor; [unfold numeric_char; lia|]. apply G.
      destruct (span_digits t) as [ds r]. destruct ds; [discriminate|]. destruct r; [discriminate|discriminate].
    + intros H. apply G. destruct (span_digits (c :: t)) as [ds r]. destruct ds; [discriminate|]. destruct r; [discriminate|discriminate].
Qed.

Lemma parse_decimal_chars s ds e : parse_decimal s = Some (ds, e) -> Forall numeric_char s.
Proof.
  unfold parse_decimal. pose proof (span_digits_eq s) as E1. pose proof (digits_span s) as D1.
  destruct (span_digits s) as [ip r1]. cbn [fst snd] in *. rewrite E1. intros H.
  apply Forall_app. split; [apply digits_numeric; exact D1|].
  assert (Tail : forall fp r2, Forall digit fp ->
            match ip ++ fp with
            | [] => None
            | d :: t => match r2 with
                        | [] => Some (d :: t, - Z.of_nat (length fp))
                        | c :: t2 => if (c =? 101) || (c =? 69)
                                     then match parse_exp t2 with Some x => Some (d :: t, x - Z.of_nat (length fp)) | None => None end
                                     else None
                        end
            end = Some (ds, e) -> Forall numeric_char (fp ++ r2)).
  { intros fp r2 Dfp H2. apply Forall_app. split; [apply digits_numeric; exact Dfp|].
    destruct (ip ++ fp); [discriminate|]. destruct r2 as [|c t2]; [constructor|].
    destruct ((c =? 101) || (c =? 69)) eqn:Ec; [|discriminate].
    destruct (parse_exp t2) as [x|] eqn:Ex; [|discriminate].
    constructor; [|eapply parse_exp_chars; exact Ex].
    apply orb_true_iff in Ec as [Ec|Ec]; apply Z.eqb_eq in Ec; unfold numeric_char; lia. }
  destruct r1 as [|c t].
  - constructor.
  - destruct (c =? 46) eqn:E46.
    + apply Z.eqb_eq in E46. constructor; [unfold numeric_char; lia|].
      pose proof (span_digits_eq t) as E2. pose proof (digits_span t) as D2.
      destruct (span_digits t) as [fp r2]. cbn [fst snd] in *. rewrite E2. apply Tail; assumption.
    + apply (Tail [] (c :: t)); [constructor|exact H].
Qed.

Lemma bytes_eqb_length a : forall b, bytes_eqb a b = true -> length a = length b.
Proof.
  induction a as [|x a IH]; intros [|y b]; cbn [bytes_eqb length]; try discriminate; [reflexivity|].
  intros H. apply andb_true_iff in H as [_ H]. f_equal. apply IH. exact H.
Qed.

(* Everything to_number accepts is: one optional sign, then either only characters of
   0-9 . e E + - or a 3- or 8-byte word that is inf / infinity / nan up to letter case.  In
   particular white space, underscores, other alphabets' digits and trailing text are NaN. *)
Theorem parse_f64_shape : forall s x,
  parse_f64 s = Some x ->
  exists sgn body, s = sgn ++ body /\ (sgn = [] \/ sgn = [43] \/ sgn = [45]) /\ body <> [] /\
    (Forall numeric_char body \/
     ((is_inf_text body = true \/ is_nan_text body = true) /\ (length body = 3 \/ length body = 8)%nat)).
Proof.
  intros s x. unfold parse_f64. destruct s as [|c t]; [discriminate|].
  set (body := if (c =? 45) || (c =? 43) then t else c :: t).
  assert (Hs : exists sgn, c :: t = sgn ++ body /\ (sgn = [] \/ sgn = [43] \/ sgn = [45])).
  { subst body. destruct (c =? 45) eqn:E45; [apply Z.eqb_eq in E45; subst c; exists [45]; cbn; auto|].
    destruct (c =? 43) eqn:E43; [apply Z.eqb_eq in E43; subst c; exists [43]; cbn; auto|].
    exists []. cbn. auto. }
  destruct Hs as (sgn & Es & Hsgn). destruct body as [|c' t'] eqn:Eb; [discriminate|].
  intros H. exists sgn, (c' :: t'). split; [exact Es|]. split; [exact Hsgn|]. split; [discriminate|].
  destruct (parse_decimal (c' :: t')) as [[ds e]|] eqn:Ep.
  - left. eapply parse_decimal_chars. exact Ep.
  - right. destruct (is_inf_text (c' :: t')) eqn:Ei.
    + split; [left; reflexivity|]. unfold is_inf_text, fold_case in Ei. apply orb_true_iff in Ei as [Ei|Ei];
        apply bytes_eqb_length in Ei; rewrite map_length in Ei; cbn [length] in Ei |- *; lia.
    + destruct (is_nan_text (c' :: t')) eqn:En; [|discriminate]. split; [right; reflexivity|].
      unfold is_nan_text, fold_case in En. apply bytes_eqb_length in En. rewrite map_length in En. cbn [length] in En |- *. lia.
Qed.

(* ------------------------------------------------------------------ cross-checks against SpecFloat *)

(* round_q is this file's own rounding.  On operands that are exactly representable, IEEE division
   (SpecFloat.SFdiv, correctly rounded by definition of the standard) must give the same double,
   and on integers so must SpecFloat.binary_normalize: checked on a small grid that contains ties,
   mantissa carries, subnormal and overflowing quotients (kept small: coqchk re-evaluates it with
   the kernel's lazy machine in the thorough tier). *)
Definition xs_small : list Z := [3; 10; 4503599627370497; 9007199254740991].
Definition pow_shifts : list Z := [0; 54; 970; 1000].

(* operands must themselves be finite doubles for the comparison to make sense *)
Definition fits (n : Z) : bool := n <? 2 ^ 1024.
Definition div_ok (a b : Z) : bool :=
  negb (fits a && fits b) || Z.eqb (to_bits (round_q false a b)) (to_bits (fdiv (of_Z a) (of_Z b))).
Definition int_ok (n : Z) : bool := Z.eqb (to_bits (round_q false n 1)) (to_bits (of_Z n)).

Lemma round_q_vs_SFdiv :
  forallb (fun a => forallb (fun b =>
    forallb (fun k => div_ok (a * 2 ^ k) b && div_ok a (b * 2 ^ k)) pow_shifts) xs_small) xs_small = true.
Proof. vm_compute. reflexivity. Qed.

Lemma round_q_vs_binary_normalize :
  forallb (fun a => forallb (fun k =>
    int_ok (a * 2 ^ k) && int_ok (a * 2 ^ k + 1) && int_ok (a * 2 ^ k + 2 ^ (k / 2)) && int_ok (a * 10 ^ (k / 4))) pow_shifts) xs_small = true.
Proof. vm_compute. reflexivity. Qed.
