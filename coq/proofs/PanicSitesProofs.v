(* PanicSitesProofs — the panic-site table of src/runtime.rs (regenerated on every run by
   translator/gen_panicsites.py into theories/GenPanicSites.v) against the hand-maintained
   mapping to Lang.psite: same key set, every modelled site has an origin in the source. *)
From Coq Require Import List String Bool Arith.
Require Import NS.theories.Lang NS.theories.GenPanicSites.
Import ListNotations.

Definition mem_str (k : string) (l : list string) : bool := existsb (String.eqb k) l.
Definition subset_b (a b : list string) : bool := forallb (fun k => mem_str k b) a.

(* the keys found in the source (plus the declared pseudo-sites) are exactly the keys of
   the mapping table *)
Definition same_keys : bool :=
  subset_b (scanned ++ pseudo) (map fst mapped)
  && subset_b (map fst mapped) (scanned ++ pseudo)
  && Nat.eqb (List.length mapped) (List.length (scanned ++ pseudo)).

Lemma same_keys_true : same_keys = true.
Proof. vm_compute. reflexivity. Qed.

Lemma mem_str_In k l : mem_str k l = true -> In k l.
Proof.
  unfold mem_str. intros H. apply existsb_exists in H. destruct H as [x [Hin He]].
  apply String.eqb_eq in He. subst. exact Hin.
Qed.

Lemma scanned_all_mapped : forall k, In k scanned -> exists t, In (k, t) mapped.
Proof.
  intros k Hk. pose proof same_keys_true as H. unfold same_keys in H.
  apply andb_prop in H. destruct H as [H _]. apply andb_prop in H. destruct H as [H _].
  unfold subset_b in H. rewrite forallb_forall in H.
  specialize (H k (in_or_app _ _ _ (or_introl Hk))). apply mem_str_In in H.
  apply in_map_iff in H. destruct H as [[k' t] [E Hin]]. cbn in E. subst. exists t. exact Hin.
Qed.

Lemma mapped_all_scanned : forall k t, In (k, t) mapped -> In k (scanned ++ pseudo).
Proof.
  intros k t Hk. pose proof same_keys_true as H. unfold same_keys in H.
  apply andb_prop in H. destruct H as [H _]. apply andb_prop in H. destruct H as [_ H].
  unfold subset_b in H. rewrite forallb_forall in H.
  apply mem_str_In. apply H. apply in_map_iff. exists (k, t). auto.
Qed.

Definition psite_tag (p : psite) : nat :=
  match p with
  | PNumOp => 0 | PVarMissing => 1 | PFuncMissing => 2 | PArgCount => 3 | PBuiltinArity => 4
  | PBreakEscapes => 5 | PAssignMissing => 6 | PMutVarMissing => 7 | PArgIndex => 8 | PSegVar => 9
  | PParamRange => 10 | PNoFnScope => 11 | PIdxAssignEnd => 12 | PFind => 13 | PMutBuiltin => 14
  end.
Definition psite_eqb (p q : psite) : bool := Nat.eqb (psite_tag p) (psite_tag q).

(* every constructor of Lang.psite is the image of at least one key: the model has no
   panic site without a counterpart in the source *)
Definition every_psite_has_origin : bool :=
  forallb (fun p => existsb (fun kt => match snd kt with Site q => psite_eqb p q | NotModelled _ => false end) mapped)
          all_psites.

Lemma every_psite_has_origin_true : every_psite_has_origin = true.
Proof. vm_compute. reflexivity. Qed.

Lemma all_psites_complete : forall p : psite, In p all_psites.
Proof. intros p; destruct p; cbn; tauto. Qed.
