(* ParserNatural — the parser model only ever copies positions: moving every position of the token
   list along a function h (with h 0 = 0, because Range::default() = 0..0 is built in) moves every
   position of the result along h and changes nothing else.  With h = fun _ => 0 this says that the
   syntax tree modulo spans, the diagnostic kinds and labels, and the number of tokens pulled are
   a function of the token kinds / payloads / owned flags alone (C10's parse_ignores_spans). *)
From Coq Require Import ZArith List Bool Arith Lia.
Require Import NS.theories.Utf8 NS.theories.GenLexer NS.theories.Lexer NS.theories.GenParser NS.theories.Parser.
Require Import NS.proofs.ParserProofs.
Require NS.theories.Lang NS.theories.GenPratt.
Import ListNotations.
Open Scope nat_scope.

Section Natural.

Variable h : nat -> nat.
Hypothesis h0 : h 0 = 0.

Definition map_es (p : sexpr * pstate) : sexpr * pstate := (map_expr h (fst p), map_state h (snd p)).
Definition map_ls (p : list sexpr * pstate) : list sexpr * pstate := (map (map_expr h) (fst p), map_state h (snd p)).
Definition map_ss (p : sstmt * pstate) : sstmt * pstate := (map_stmt h (fst p), map_state h (snd p)).
Definition map_lss (p : list sstmt * pstate) : list sstmt * pstate :=
  (map (map_stmt h) (fst p), map_state h (snd p)).
Definition map_bs (p : list sstmt * span * pstate) : list sstmt * span * pstate :=
  (map (map_stmt h) (fst (fst p)), map_span h (snd (fst p)), map_state h (snd p)).
Definition map_ps (p : list bytes * list span * pstate) : list bytes * list span * pstate :=
  (fst (fst p), map (map_span h) (snd (fst p)), map_state h (snd p)).

(* ---- observers *)
Lemma kind_map st : kind (map_state h st) = kind st.
Proof. reflexivity. Qed.
Lemma cstart_map st : cstart (map_state h st) = h (cstart st).
Proof. reflexivity. Qed.
Lemma cend_map st : cend (map_state h st) = h (cend st).
Proof. reflexivity. Qed.
Lemma cspan_map st : cspan (map_state h st) = map_span h (cspan st).
Proof. reflexivity. Qed.
Lemma payload_map st : payload (map_state h st) = payload st.
Proof. reflexivity. Qed.
Lemma owned_map st : t_owned (cur (map_state h st)) = t_owned (cur st).
Proof. reflexivity. Qed.
Lemma pair_map a b : (h a, h b) = map_span h (a, b).
Proof. reflexivity. Qed.
Lemma fst_map_span s : fst (map_span h s) = h (fst s).
Proof. reflexivity. Qed.
Lemma snd_map_span s : snd (map_span h s) = h (snd s).
Proof. reflexivity. Qed.
Lemma no_span_map : no_span = map_span h no_span.
Proof. unfold no_span, map_span. cbn. rewrite h0. reflexivity. Qed.

Lemma span_of_map e : span_of (map_expr h e) = map_span h (span_of e).
Proof. destruct e; reflexivity. Qed.

(* ---- state transformers *)
Lemma bump_map st : bump (map_state h st) = map_state h (bump st).
Proof. unfold bump. cbn [rest map_state]. destruct (rest st); reflexivity. Qed.

Lemma take_v_map v st : take_v v (map_state h st) = map_state h (take_v v st).
Proof. unfold take_v. destruct (v_expr_takes_token v); reflexivity. Qed.

Lemma emit_map e sp lbl st : emit e (map_span h sp) lbl (map_state h st) = map_state h (emit e sp lbl st).
Proof. reflexivity. Qed.

Lemma emit_here_map e lbl st : emit_here e lbl (map_state h st) = map_state h (emit_here e lbl st).
Proof. reflexivity. Qed.

Lemma expect_map k e sp lbl st :
  expect k e (map_span h sp) lbl (map_state h st) = map_state h (expect k e sp lbl st).
Proof. unfold expect. rewrite kind_map. destruct (tok_eqb (kind st) k); [apply bump_map | reflexivity]. Qed.

Lemma expect_here_map k e lbl st : expect_here k e lbl (map_state h st) = map_state h (expect_here k e lbl st).
Proof. unfold expect_here. rewrite cspan_map. apply expect_map. Qed.

Lemma sync_rest_map : forall r lo,
  sync_rest (h lo) (map (map_tok h) r) =
  (let '(c, r', e) := sync_rest lo r in (map_tok h c, map (map_tok h) r', e)).
Proof.
  induction r as [|t r IH]; intro lo; cbn [sync_rest map].
  - reflexivity.
  - cbn [map_tok t_kind]. destruct (mem_tok (t_kind t) sync_toks); [reflexivity|].
    cbn [t_end]. apply IH.
Qed.

Lemma synchronize_map st : synchronize (map_state h st) = map_state h (synchronize st).
Proof.
  unfold synchronize. rewrite kind_map. destruct (mem_tok (kind st) sync_toks); [reflexivity|].
  rewrite cend_map. cbn [rest map_state]. rewrite sync_rest_map.
  destruct (sync_rest (cend st) (rest st)) as ((c, r'), e). reflexivity.
Qed.

Lemma name_or_placeholder_map sp lbl st :
  name_or_placeholder (map_span h sp) lbl (map_state h st) =
  (fst (name_or_placeholder sp lbl st), map_state h (snd (name_or_placeholder sp lbl st))).
Proof.
  unfold name_or_placeholder. rewrite kind_map.
  destruct (tok_eqb (kind st) TIdentifier); [reflexivity|].
  destruct (mem_tok (kind st) reserved_toks); reflexivity.
Qed.

Lemma init_map ts : init (map (map_tok h) ts) = map_state h (init ts).
Proof.
  destruct ts as [|t r]; cbn [init map]; [|reflexivity].
  unfold map_state. cbn [cur rest errs at_end map]. unfold map_tok, eof_tok. cbn. rewrite h0. reflexivity.
Qed.

Hint Rewrite kind_map cstart_map cend_map cspan_map payload_map owned_map bump_map take_v_map
  emit_here_map expect_here_map synchronize_map span_of_map fst_map_span snd_map_span : pnat.

(* pairs of moved positions are moved spans; then the span-taking transformers commute *)
Ltac nat_norm :=
  repeat (progress (autorewrite with pnat; rewrite ?pair_map, ?emit_map, ?expect_map)).

(* ---- expressions *)

Definition expr_nat_at (f : nat) : Prop :=
  (forall v m st, parse_expression f v m (map_state h st) = map_presult map_es (parse_expression f v m st)) /\
  (forall v lhs m st, continuation f v (map_expr h lhs) m (map_state h st)
                      = map_presult map_es (continuation f v lhs m st)) /\
  (forall v closer bp st, exprs_loop f v closer bp (map_state h st)
                          = map_presult map_ls (exprs_loop f v closer bp st)).

Lemma expr_nat : forall f, expr_nat_at f.
Proof.
  induction f as [|f (IHe & IHc & IHl)].
  - refine (conj _ (conj _ _)); intros; reflexivity.
  - refine (conj _ (conj _ _)).
    + (* parse_expression *)
      intros v m st. rewrite !parse_expression_S. cbv zeta. nat_norm.
      destruct (kind st);
        try (rewrite <- IHc; reflexivity);
        try (rewrite IHe; destruct (parse_expression f v _ (bump (take_v v st))) as [[e st1]|];
             cbn [map_presult]; [|reflexivity]; unfold map_es; cbn [fst snd]; nat_norm;
             rewrite <- IHc; reflexivity).
      (* array literal *)
      set (st1 := bump (take_v v st)).
      assert (L : (if tok_eqb (kind st1) TRBracket then Done ([], map_state h st1)
                   else exprs_loop f v TRBracket GenPratt.elem_bp (map_state h st1))
                  = map_presult map_ls (if tok_eqb (kind st1) TRBracket then Done ([], st1)
                                        else exprs_loop f v TRBracket GenPratt.elem_bp st1)).
      { destruct (tok_eqb (kind st1) TRBracket); [reflexivity | apply IHl]. }
      rewrite L. clear L.
      destruct (if tok_eqb (kind st1) TRBracket then Done ([], st1)
                else exprs_loop f v TRBracket GenPratt.elem_bp st1) as [[es st2]|];
        cbn [map_presult]; [|reflexivity]. unfold map_ls; cbn [fst snd]. nat_norm.
      destruct (tok_eqb (kind st2) TRBracket); nat_norm; rewrite <- IHc; reflexivity.
    + (* continuation *)
      intros v lhs m st. rewrite !continuation_S. cbv zeta. nat_norm.
      destruct (tok_eqb (kind st) TDot).
      { rewrite name_or_placeholder_map.
        destruct (name_or_placeholder (cspan (bump st)) lbl_ident_after_dot (bump st)) as (field, st2).
        cbn [fst snd]. nat_norm. rewrite <- IHc. reflexivity. }
      destruct (tok_eqb (kind st) TLParen).
      { set (st1 := bump st).
        assert (L : (if tok_eqb (kind st1) TRParen then Done ([], map_state h st1)
                     else exprs_loop f v TRParen GenPratt.arg_bp (map_state h st1))
                    = map_presult map_ls (if tok_eqb (kind st1) TRParen then Done ([], st1)
                                          else exprs_loop f v TRParen GenPratt.arg_bp st1)).
        { destruct (tok_eqb (kind st1) TRParen); [reflexivity | apply IHl]. }
        rewrite L. clear L.
        destruct (if tok_eqb (kind st1) TRParen then Done ([], st1)
                  else exprs_loop f v TRParen GenPratt.arg_bp st1) as [[args st2]|];
          cbn [map_presult]; [|reflexivity]. unfold map_ls; cbn [fst snd]. nat_norm.
        rewrite <- IHc. reflexivity. }
      destruct (tok_eqb (kind st) TLBracket).
      { rewrite IHe. destruct (parse_expression f v GenPratt.index_bp (bump st)) as [[idx st2]|];
          cbn [map_presult]; [|reflexivity]. unfold map_es; cbn [fst snd]. nat_norm.
        destruct (tok_eqb (kind st2) TRBracket); nat_norm; rewrite <- IHc; reflexivity. }
      destruct (binop_of_tok (kind st)) as [op|]; [|reflexivity].
      destruct (l_bp op <? m)%Z; [reflexivity|].
      rewrite IHe. destruct (parse_expression f v (r_bp op) (bump st)) as [[rhs st2]|];
        cbn [map_presult]; [|reflexivity]. unfold map_es; cbn [fst snd]. nat_norm.
      rewrite <- IHc. reflexivity.
    + (* exprs_loop *)
      intros v closer bp st. rewrite !exprs_loop_S. rewrite IHe.
      destruct (parse_expression f v bp st) as [[e st1]|]; cbn [map_presult]; [|reflexivity].
      unfold map_es; cbn [fst snd]. nat_norm.
      destruct (tok_eqb (kind st1) TComma); [|reflexivity]. cbv zeta. nat_norm.
      destruct (tok_eqb (kind (bump st1)) closer); [reflexivity|].
      rewrite IHl. destruct (exprs_loop f v closer bp (bump st1)) as [[es st3]|]; reflexivity.
Qed.


(* ---- statement forms *)

Definition pe_nat (pe : expr_parser) : Prop :=
  forall m st, pe m (map_state h st) = map_presult map_es (pe m st).
Definition pc_nat (pc : cont_parser) : Prop :=
  forall lhs m st, pc (map_expr h lhs) m (map_state h st) = map_presult map_es (pc lhs m st).
Definition blk_nat (blk : block_parser) : Prop :=
  forall st, blk (map_state h st) = map_presult map_bs (blk st).
Definition pl_nat (pl : params_parser) : Prop :=
  forall st, pl (map_state h st) = map_presult map_ps (pl st).

Lemma block_body_nat loop :
  (forall st, loop (map_state h st) = map_presult map_lss (loop st)) -> blk_nat (block_body loop).
Proof.
  intros H st. unfold block_body. rewrite H. destruct (loop st) as [[ss st']|]; reflexivity.
Qed.

Lemma params_loop_nat : forall f, pl_nat (params_loop f).
Proof.
  induction f as [|f IH]; intro st; [reflexivity|].
  rewrite !params_loop_S. cbv zeta. nat_norm.
  assert (NEXT : forall name st1,
    (if tok_eqb (kind st1) TComma then
       let* (ps, sps, st2) := params_loop f (map_state h (bump st1)) in
       Done (name :: ps, map_span h (cspan st) :: sps, st2)
     else Done ([name], [map_span h (cspan st)], map_state h st1))
    = map_presult map_ps
        (if tok_eqb (kind st1) TComma then
           let* (ps, sps, st2) := params_loop f (bump st1) in Done (name :: ps, cspan st :: sps, st2)
         else Done ([name], [cspan st], st1))).
  { intros name st1. destruct (tok_eqb (kind st1) TComma); [|reflexivity].
    rewrite IH. destruct (params_loop f (bump st1)) as [[[ps sps] st2]|]; reflexivity. }
  destruct (tok_eqb (kind st) TIdentifier); [apply NEXT|].
  destruct (mem_tok (kind st) reserved_toks); [|reflexivity].
  apply NEXT.
Qed.

Lemma last_end_map sps d : last_end (map (map_span h) sps) (h d) = h (last_end sps d).
Proof.
  unfold last_end. rewrite <- map_rev. destruct (rev sps); reflexivity.
Qed.

Lemma parse_function_def_nat pl blk st : pl_nat pl -> blk_nat blk ->
  parse_function_def pl blk (map_state h st) = map_presult map_ss (parse_function_def pl blk st).
Proof.
  intros PL BK. unfold parse_function_def. nat_norm.
  rewrite name_or_placeholder_map.
  destruct (name_or_placeholder (cspan st) lbl_fn_name (bump st)) as (name, st2). cbn [fst snd].
  nat_norm. rewrite PL.
  destruct (pl (expect TLParen SExpectedLParen (cstart st, snd (cspan (bump st))) lbl_lparen_fn (bump st2)))
    as [[[ps sps] st5]|]; cbn [map_presult]; [|reflexivity].
  unfold map_ps; cbn [fst snd]. nat_norm. rewrite last_end_map. nat_norm. rewrite BK.
  destruct (blk _) as [[[body bsp] st8]|]; cbn [map_presult]; [|reflexivity].
  unfold map_bs; cbn [fst snd]. nat_norm. reflexivity.
Qed.

Lemma parse_return_nat pe st : pe_nat pe ->
  parse_return pe (map_state h st) = map_presult map_ss (parse_return pe st).
Proof.
  intros PE. unfold parse_return. nat_norm.
  destruct (mem_tok (kind (bump st)) return_stop_toks); [reflexivity|].
  rewrite PE. destruct (pe value_bp (bump st)) as [[e st2]|]; reflexivity.
Qed.

Lemma parse_assignment_nat pe st : pe_nat pe ->
  parse_assignment pe (map_state h st) = map_presult map_ss (parse_assignment pe st).
Proof.
  intros PE. unfold parse_assignment. nat_norm.
  destruct (tok_eqb (kind (bump st)) TIdentifier).
  - nat_norm. destruct (tok_eqb (kind (bump (bump st))) TGet); [|reflexivity].
    nat_norm. rewrite PE. destruct (pe value_bp _) as [[e st4]|]; reflexivity.
  - destruct (mem_tok (kind (bump st)) reserved_toks).
    + nat_norm. destruct (tok_eqb (kind (bump _)) TGet); [|reflexivity].
      nat_norm. rewrite PE. destruct (pe value_bp _) as [[e st4]|]; reflexivity.
    + nat_norm. destruct (tok_eqb (kind (bump _)) TGet).
      * nat_norm. rewrite PE. destruct (pe value_bp _) as [[e st4]|]; cbn [map_presult]; [|reflexivity].
        unfold map_ss, map_es; cbn [fst snd map_stmt]. rewrite <- no_span_map. reflexivity.
      * unfold map_ss; cbn [map_presult fst snd map_stmt map_expr]. rewrite <- no_span_map. reflexivity.
Qed.

Lemma parse_if_nat pe blk st : pe_nat pe -> blk_nat blk ->
  parse_if pe blk (map_state h st) = map_presult map_ss (parse_if pe blk st).
Proof.
  intros PE BK. unfold parse_if. nat_norm. rewrite PE.
  destruct (pe cond_bp _) as [[c st3]|]; cbn [map_presult]; [|reflexivity].
  unfold map_es; cbn [fst snd]. nat_norm. rewrite BK.
  destruct (blk _) as [[[tb tsp] st6]|]; cbn [map_presult]; [|reflexivity].
  unfold map_bs; cbn [fst snd]. nat_norm.
  destruct (tok_eqb (kind _) TIfNotSo).
  - nat_norm. rewrite BK. destruct (blk _) as [[[eb ebsp] st10]|]; cbn [map_presult]; [|reflexivity].
    unfold map_bs; cbn [fst snd]. nat_norm. reflexivity.
  - unfold map_ss. cbn [map_presult fst snd map_stmt map]. rewrite <- no_span_map. reflexivity.
Qed.

Lemma parse_loop_nat pe blk st : pe_nat pe -> blk_nat blk ->
  parse_loop pe blk (map_state h st) = map_presult map_ss (parse_loop pe blk st).
Proof.
  intros PE BK. unfold parse_loop. nat_norm. rewrite PE.
  destruct (pe cond_bp _) as [[c st3]|]; cbn [map_presult]; [|reflexivity].
  unfold map_es; cbn [fst snd]. nat_norm. rewrite BK.
  destruct (blk _) as [[[b bsp] st6]|]; cbn [map_presult]; [|reflexivity].
  unfold map_bs; cbn [fst snd]. nat_norm. reflexivity.
Qed.

Lemma parse_block_stmt_nat blk st : blk_nat blk ->
  parse_block_stmt blk (map_state h st) = map_presult map_ss (parse_block_stmt blk st).
Proof.
  intros BK. unfold parse_block_stmt. nat_norm. rewrite BK.
  destruct (blk _) as [[[b bsp] st2]|]; cbn [map_presult]; [|reflexivity].
  unfold map_bs; cbn [fst snd]. nat_norm. reflexivity.
Qed.

Lemma parse_ident_statement_nat pc pe st : pc_nat pc -> pe_nat pe ->
  parse_ident_statement pc pe (map_state h st) = map_presult map_ss (parse_ident_statement pc pe st).
Proof.
  intros PC PE. unfold parse_ident_statement. nat_norm.
  change (XVar (payload st) (map_span h (cspan st))) with (map_expr h (XVar (payload st) (cspan st))).
  rewrite PC. destruct (pc _ GenPratt.stmt_bp (bump st)) as [[e st2]|]; cbn [map_presult]; [|reflexivity].
  unfold map_es; cbn [fst snd]. nat_norm.
  destruct (tok_eqb (kind st2) TGet); [|reflexivity].
  rewrite PE. destruct (pe value_bp (bump st2)) as [[val st4]|]; cbn [map_presult]; [|reflexivity].
  unfold map_es; cbn [fst snd]. nat_norm.
  destruct e; cbn [map_expr]; try reflexivity;
    unfold map_ss; cbn [map_presult fst snd map_stmt map_expr]; rewrite <- no_span_map; reflexivity.
Qed.

Lemma statement_error_nat v st :
  statement_error v (map_state h st) = map_presult map_ss (statement_error v st).
Proof.
  unfold statement_error. nat_norm. destruct (v_stmt_error_bumps v); nat_norm;
    unfold map_ss; cbn [map_presult fst snd map_stmt map_expr]; rewrite <- no_span_map; reflexivity.
Qed.

Definition stmt_nat_at (f : nat) : Prop :=
  (forall v st, parse_statement f v (map_state h st) = map_presult map_ss (parse_statement f v st)) /\
  (forall v st, block_loop f v (map_state h st) = map_presult map_lss (block_loop f v st)).

Lemma stmt_nat : forall f, stmt_nat_at f.
Proof.
  induction f as [|f (IHs & IHb)].
  - split; intros; reflexivity.
  - split.
    + intros v st. rewrite !parse_statement_S. cbv zeta. rewrite kind_map.
      assert (PE : pe_nat (parse_expression f v)) by (intros m st'; apply (proj1 (expr_nat f))).
      assert (PC : pc_nat (continuation f v)) by (intros l m st'; apply (proj1 (proj2 (expr_nat f)))).
      assert (BK : blk_nat (block_body (block_loop f v))) by (apply block_body_nat; intro st'; apply IHb).
      pose proof (params_loop_nat f) as PL.
      destruct (kind st); try apply statement_error_nat.
      * apply parse_ident_statement_nat; assumption.
      * apply parse_assignment_nat; assumption.
      * apply parse_loop_nat; assumption.
      * apply parse_block_stmt_nat; assumption.
      * nat_norm. reflexivity.
      * nat_norm. reflexivity.
      * apply parse_if_nat; assumption.
      * apply parse_function_def_nat; assumption.
      * apply parse_return_nat; assumption.
    + intros v st. rewrite !block_loop_S. rewrite kind_map.
      destruct (mem_tok (kind st) block_stop_toks); [reflexivity|].
      rewrite IHs. destruct (parse_statement f v st) as [[s st1]|]; cbn [map_presult]; [|reflexivity].
      unfold map_ss; cbn [fst snd]. rewrite IHb.
      destruct (block_loop f v st1) as [[ss st2]|]; reflexivity.
Qed.

Lemma program_loop_nat : forall f v st,
  program_loop f v (map_state h st) = map_presult map_lss (program_loop f v st).
Proof.
  induction f as [|f IH]; intros v st; [reflexivity|].
  rewrite !program_loop_S. rewrite kind_map.
  destruct (mem_tok (kind st) stmt_start_toks); [|reflexivity].
  rewrite (proj1 (stmt_nat f)).
  destruct (parse_statement f v st) as [[s st1]|]; cbn [map_presult]; [|reflexivity].
  unfold map_ss; cbn [fst snd]. rewrite IH.
  destruct (program_loop f v st1) as [[ss st2]|]; reflexivity.
Qed.

Theorem parse_from_natural fuel v ts :
  parse_from fuel v (map (map_tok h) ts) = map_presult (map_parsed h) (parse_from fuel v ts).
Proof.
  unfold parse_from. rewrite init_map, program_loop_nat. nat_norm.
  destruct (program_loop fuel v (init ts)) as [[ss st1]|]; cbn [map_presult]; [|reflexivity].
  unfold map_lss; cbn [fst snd]. nat_norm. rewrite map_length.
  destruct (tok_eqb (kind st1) TEOF).
  - unfold map_parsed. cbn [p_stmts p_span p_diags p_pulled p_lexed_all map_state errs rest at_end].
    rewrite map_rev, map_length. reflexivity.
  - unfold map_parsed. cbn [p_stmts p_span p_diags p_pulled p_lexed_all map_state errs rest at_end emit].
    rewrite map_length, map_rev. reflexivity.
Qed.

Theorem parse_program_natural v ts :
  parse_program v (map (map_tok h) ts) = map_presult (map_parsed h) (parse_program v ts).
Proof.
  unfold parse_program, program_fuel. rewrite map_length. apply parse_from_natural.
Qed.

End Natural.
