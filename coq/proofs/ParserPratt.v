(* ParserPratt — on every token list on which the expression-only model Pratt.v (C01) succeeds, the
   expression parser of the full parser model (Parser.parse_expression / continuation /
   exprs_loop, with spans, diagnostics and recovery) returns the same tree, consumes the same
   tokens and reports nothing.  Hence the theorems proved over Pratt.v (round trip through
   printing with minimal or redundant parentheses, precedence levels, left associativity) hold of
   Parser.v, which is the model tied to src/syntax/parser.rs by the PARSER correspondence. *)
From Coq Require Import ZArith List Bool Arith Lia.
Require Import NS.theories.Utf8 NS.theories.GenLexer NS.theories.Lexer NS.theories.GenParser NS.theories.Parser.
Require Import NS.proofs.ParserProofs.
Require NS.theories.Lang NS.theories.GenPratt NS.theories.Pratt NS.proofs.PrattProofs.
Import ListNotations.
Open Scope nat_scope.

(* ------------------------------------------------------------------ abstraction to Pratt.v *)

(* literal tokens become opaque atoms: a tag, then the payload *)
Definition abs_kind (k : tok) (p : bytes) (owned : bool) : Pratt.ptok :=
  match k with
  | TNumber => Pratt.TLit (0%Z :: p)
  | TString => Pratt.TLit ((if owned then 2%Z else 1%Z) :: p)
  | TTrue => Pratt.TLit [3%Z]
  | TFalse => Pratt.TLit [4%Z]
  | TNull => Pratt.TLit [5%Z]
  | TIdentifier => Pratt.TIdent p
  | TNot => Pratt.TNot
  | TLParen => Pratt.TLP
  | TRParen => Pratt.TRP
  | TLBracket => Pratt.TLB
  | TRBracket => Pratt.TRB
  | TComma => Pratt.TComma
  | TDot => Pratt.TDot
  | other => match binop_of_tok other with
             | Some op => Pratt.TOp op
             | None => Pratt.TOther (tok_name other)
             end
  end.
Definition abs_tok (t : token) : Pratt.ptok := abs_kind (t_kind t) (t_payload t) (t_owned t).

Fixpoint abs_expr (e : sexpr) : Pratt.pexpr :=
  match e with
  | XNum t _ => Pratt.PLit (0%Z :: t)
  | XStr raw owned _ _ => Pratt.PLit ((if owned then 2%Z else 1%Z) :: raw)
  | XBool true _ => Pratt.PLit [3%Z]
  | XBool false _ => Pratt.PLit [4%Z]
  | XNull _ => Pratt.PLit [5%Z]
  | XVar n _ => Pratt.PVar n
  | XBin op l r _ => Pratt.PBin op (abs_expr l) (abs_expr r)
  | XUn op a _ => Pratt.PUn op (abs_expr a)
  | XArr es _ => Pratt.PArr (map abs_expr es)
  | XIdx a i _ _ => Pratt.PIdx (abs_expr a) (abs_expr i)
  | XMember o f _ _ => Pratt.PMember (abs_expr o) f
  | XCall c args _ => Pratt.PCall (abs_expr c) (map abs_expr args)
  end.

(* the tokens still ahead of the parser: the current one unless it is EOF, then the unpulled ones *)
Definition toks (st : pstate) : list token :=
  if tok_eqb (kind st) TEOF then [] else cur st :: rest st.
Definition ptoks (st : pstate) : list Pratt.ptok := map abs_tok (toks st).

(* no EOF-kind token ahead (the lexer never produces one), and a synthetic EOF only at the end *)
Definition clean (st : pstate) : Prop :=
  Forall (fun t => t_kind t <> TEOF) (rest st) /\ (kind st = TEOF -> rest st = []).

Definition closer_tok (c : Pratt.closer) : tok :=
  match c with Pratt.CBracket => TRBracket | Pratt.CParen => TRParen end.

(* ------------------------------------------------------------------ facts about the abstraction *)

Lemma ptoks_eof st : kind st = TEOF -> ptoks st = [].
Proof. intro K. unfold ptoks, toks. rewrite K. reflexivity. Qed.

Lemma ptoks_cons st : kind st <> TEOF -> ptoks st = abs_tok (cur st) :: map abs_tok (rest st).
Proof. intro N. unfold ptoks, toks. apply tok_eqb_neq in N. rewrite N. reflexivity. Qed.

Lemma bump_clean st : clean st -> kind st <> TEOF ->
  clean (bump st) /\ ptoks (bump st) = map abs_tok (rest st) /\ errs (bump st) = errs st.
Proof.
  intros (F & E) N. unfold bump. destruct (rest st) as [|t r] eqn:R.
  - refine (conj (conj _ _) (conj _ eq_refl)); cbn [rest]; auto.
  - inversion F as [|? ? Ht Fr]; subst.
    refine (conj (conj Fr _) (conj _ eq_refl)).
    + cbn [rest]. unfold kind. cbn [cur]. intro K. contradiction.
    + rewrite ptoks_cons; [reflexivity|]. unfold kind. cbn [cur]. exact Ht.
Qed.

Lemma bump_take_v v st : bump (take_v v st) = bump st.
Proof.
  unfold take_v. destruct (v_expr_takes_token v); [|reflexivity].
  unfold bump, take. cbn [rest errs at_end]. destruct (rest st); reflexivity.
Qed.

(* ptoks st = p :: r pins the current token *)
Lemma ptoks_head st p r : clean st -> ptoks st = p :: r ->
  kind st <> TEOF /\ p = abs_tok (cur st) /\ r = map abs_tok (rest st).
Proof.
  intros C H. destruct (tok_eqb (kind st) TEOF) eqn:K.
  - apply tok_eqb_eq in K. rewrite (ptoks_eof _ K) in H. discriminate H.
  - apply tok_eqb_neq in K. rewrite (ptoks_cons _ K) in H. inversion H. auto.
Qed.

Lemma ptoks_nil st : clean st -> ptoks st = [] -> kind st = TEOF.
Proof.
  intros C H. destruct (tok_eqb (kind st) TEOF) eqn:K; [apply tok_eqb_eq; exact K|].
  apply tok_eqb_neq in K. rewrite (ptoks_cons _ K) in H. discriminate H.
Qed.

Lemma abs_tok_inv t :
  match abs_tok t with
  | Pratt.TRP => t_kind t = TRParen
  | Pratt.TRB => t_kind t = TRBracket
  | Pratt.TComma => t_kind t = TComma
  | Pratt.TIdent n => t_kind t = TIdentifier /\ t_payload t = n
  | _ => True
  end.
Proof. unfold abs_tok. destruct (t_kind t); cbn; auto. Qed.

Lemma abs_comma t : t_kind t = TComma -> abs_tok t = Pratt.TComma.
Proof. intro K. unfold abs_tok. rewrite K. reflexivity. Qed.

Lemma is_close_abs c t : Pratt.is_close c (abs_tok t) = tok_eqb (t_kind t) (closer_tok c).
Proof. unfold abs_tok. destruct c; destruct (t_kind t); reflexivity. Qed.

(* how the Pratt loop of Pratt.v sees a token, against how Parser.continuation dispatches on it *)
Inductive cont_class (t : token) : Prop :=
  | CDot : t_kind t = TDot -> abs_tok t = Pratt.TDot -> cont_class t
  | CLParen : t_kind t = TLParen -> abs_tok t = Pratt.TLP -> cont_class t
  | CLBracket : t_kind t = TLBracket -> abs_tok t = Pratt.TLB -> cont_class t
  | COp op : tok_eqb (t_kind t) TDot = false -> tok_eqb (t_kind t) TLParen = false ->
             tok_eqb (t_kind t) TLBracket = false ->
             binop_of_tok (t_kind t) = Some op -> abs_tok t = Pratt.TOp op -> cont_class t
  | CStop : tok_eqb (t_kind t) TDot = false -> tok_eqb (t_kind t) TLParen = false ->
            tok_eqb (t_kind t) TLBracket = false -> binop_of_tok (t_kind t) = None ->
            (forall f m lhs r, Pratt.cont (S f) m lhs (abs_tok t :: r) = Pratt.POk (lhs, abs_tok t :: r)) ->
            cont_class t.

Lemma classify t : cont_class t.
Proof.
  unfold abs_tok.
  destruct (t_kind t) eqn:K;
    try (apply CDot; [exact K | unfold abs_tok; rewrite K; reflexivity]);
    try (apply CLParen; [exact K | unfold abs_tok; rewrite K; reflexivity]);
    try (apply CLBracket; [exact K | unfold abs_tok; rewrite K; reflexivity]);
    try (eapply COp; rewrite ?K; [reflexivity | reflexivity | reflexivity | vm_compute; reflexivity
                                  | unfold abs_tok; rewrite K; reflexivity]);
    (apply CStop; rewrite ?K; [reflexivity | reflexivity | reflexivity | vm_compute; reflexivity |
       intros f m lhs r; unfold abs_tok; rewrite K; rewrite PrattProofs.cont_S; reflexivity]).
Qed.

(* ------------------------------------------------------------------ the simulation *)

Definition sim_at (f : nat) : Prop :=
  (forall v m st e r, clean st ->
     Pratt.parse_expr f m (ptoks st) = Pratt.POk (e, r) ->
     exists se st', parse_expression f v m st = Done (se, st') /\ abs_expr se = e /\
                    ptoks st' = r /\ clean st' /\ errs st' = errs st) /\
  (forall v lhs m st e r, clean st ->
     Pratt.cont f m (abs_expr lhs) (ptoks st) = Pratt.POk (e, r) ->
     exists se st', continuation f v lhs m st = Done (se, st') /\ abs_expr se = e /\
                    ptoks st' = r /\ clean st' /\ errs st' = errs st) /\
  (forall v c st es r, clean st ->
     Pratt.elems_loop f c (ptoks st) = Pratt.POk (es, r) ->
     exists ses st', exprs_loop f v (closer_tok c) (Pratt.list_bp c) st = Done (ses, st') /\
                     map abs_expr ses = es /\ kind st' = closer_tok c /\ clean st' /\
                     ptoks (bump st') = r /\ errs st' = errs st).

Lemma pbind_ok {A B} (x : Pratt.pres A) (k : A -> Pratt.pres B) b :
  Pratt.pbind x k = Pratt.POk b -> exists a, x = Pratt.POk a /\ k a = Pratt.POk b.
Proof. destruct x as [a| |]; cbn; intro H; [eauto | discriminate H | discriminate H]. Qed.

Section Step.
Variable f : nat.
Hypothesis IH : sim_at f.
Let IHe := proj1 IH.
Let IHc := proj1 (proj2 IH).
Let IHl := proj2 (proj2 IH).

(* a comma-separated list after `[` / `(`, as the two callers use it *)
Lemma elems_sim v c st1 es r :
  clean st1 ->
  Pratt.parse_elems f c (ptoks st1) = Pratt.POk (es, r) ->
  exists ses st2,
    (if tok_eqb (kind st1) (closer_tok c) then Done ([], st1)
     else exprs_loop f v (closer_tok c) (Pratt.list_bp c) st1) = Done (ses, st2) /\
    map abs_expr ses = es /\ kind st2 = closer_tok c /\ clean st2 /\ ptoks (bump st2) = r /\
    errs st2 = errs st1.
Proof.
  intros C H. destruct f as [|f0]; [discriminate H|].
  rewrite PrattProofs.parse_elems_S in H.
  destruct (ptoks st1) as [|p r0] eqn:P; [discriminate H|].
  destruct (ptoks_head _ _ _ C P) as (N & -> & ->).
  rewrite is_close_abs in H. fold (kind st1) in H.
  destruct (tok_eqb (kind st1) (closer_tok c)) eqn:K.
  - inversion H; subst. apply tok_eqb_eq in K.
    destruct (bump_clean _ C N) as (_ & B2 & _).
    exists [], st1. auto 10.
  - rewrite <- (ptoks_cons _ N) in H.
    apply (PrattProofs.mono_elems_loop f0 (S f0)) in H; [|lia].
    exact (IHl v c st1 es r C H).
Qed.

Lemma expression_sim v m st e r : clean st ->
  Pratt.parse_expr (S f) m (ptoks st) = Pratt.POk (e, r) ->
  exists se st', parse_expression (S f) v m st = Done (se, st') /\ abs_expr se = e /\
                 ptoks st' = r /\ clean st' /\ errs st' = errs st.
Proof.
  intros C H. rewrite PrattProofs.parse_expr_S in H.
  destruct (ptoks st) as [|p r0] eqn:P; [discriminate H|].
  destruct (ptoks_head _ _ _ C P) as (N & -> & ->).
  destruct (bump_clean _ C N) as (C1 & P1 & E1).
  set (R0 := map abs_tok (rest st)) in *.
  rewrite parse_expression_S. cbv zeta. rewrite !bump_take_v.
  assert (LIT : forall se, span_of se = span_of se ->
            Pratt.cont f m (abs_expr se) R0 = Pratt.POk (e, r) ->
            exists se' st', continuation f v se m (bump st) = Done (se', st') /\ abs_expr se' = e /\
                            ptoks st' = r /\ clean st' /\ errs st' = errs st).
  { intros se _ HC. rewrite <- P1 in HC.
    destruct (IHc v se m (bump st) e r C1 HC) as (se' & st' & R & A & B & D & E).
    exists se', st'. rewrite E, E1. auto. }
  unfold abs_tok in H. unfold kind in *.
  destruct (t_kind (cur st)) eqn:K; cbn in H; try discriminate H.
  - (* String *) apply LIT; [reflexivity | exact H].
  - (* Identifier *) apply LIT; [reflexivity | exact H].
  - (* Number *) apply LIT; [reflexivity | exact H].
  - (* Minus *)
    apply pbind_ok in H. destruct H as ((e1 & r1) & H1 & H2).
    rewrite <- P1 in H1.
    destruct (IHe v (GenPratt.unary_bp Lang.Neg) (bump st) e1 r1 C1 H1) as (se1 & st1 & R1 & A1 & B1 & D1 & F1).
    rewrite R1. rewrite <- B1, <- A1 in H2.
    destruct (IHc v (XUn Lang.Neg se1 (cstart st, cend st1)) m st1 e r D1 H2) as (se' & st' & R & A & B & D & E).
    exists se', st'. rewrite E, F1, E1. auto.
  - (* Not *)
    apply pbind_ok in H. destruct H as ((e1 & r1) & H1 & H2).
    rewrite <- P1 in H1.
    destruct (IHe v (GenPratt.unary_bp Lang.Not) (bump st) e1 r1 C1 H1) as (se1 & st1 & R1 & A1 & B1 & D1 & F1).
    rewrite R1. rewrite <- B1, <- A1 in H2.
    destruct (IHc v (XUn Lang.Not se1 (cstart st, cend st1)) m st1 e r D1 H2) as (se' & st' & R & A & B & D & E).
    exists se', st'. rewrite E, F1, E1. auto.
  - (* True *) apply (LIT (XBool true (cspan st))); [reflexivity | exact H].
  - (* False *) apply (LIT (XBool false (cspan st))); [reflexivity | exact H].
  - (* Null *) apply (LIT (XNull (cspan st))); [reflexivity | exact H].
  - (* ( expr ) *)
    apply pbind_ok in H. destruct H as ((e1 & r1) & H1 & H2).
    rewrite <- P1 in H1.
    destruct (IHe v GenPratt.paren_bp (bump st) e1 r1 C1 H1) as (se1 & st1 & R1 & A1 & B1 & D1 & F1).
    rewrite R1. destruct r1 as [|p1 r2]; [discriminate H2|].
    destruct (ptoks_head _ _ _ D1 B1) as (N1 & -> & ->).
    pose proof (abs_tok_inv (cur st1)) as INV.
    destruct (abs_tok (cur st1)); try discriminate H2.
    unfold expect_here, expect. unfold kind. rewrite INV. rewrite tok_eqb_refl.
    destruct (bump_clean _ D1 N1) as (C2 & P2 & E2).
    rewrite <- P2, <- A1 in H2.
    destruct (IHc v se1 m (bump st1) e r C2 H2) as (se' & st' & R & A & B & D & E).
    exists se', st'. rewrite E, E2, F1, E1. auto.
  - (* [ elements ] *)
    apply pbind_ok in H. destruct H as ((es & r1) & H1 & H2).
    rewrite <- P1 in H1.
    destruct (elems_sim v Pratt.CBracket (bump st) es r1 C1 H1) as (ses & st2 & R2 & A2 & K2 & D2 & B2 & F2).
    cbn [closer_tok Pratt.list_bp] in R2. unfold kind in R2. rewrite R2.
    unfold kind in K2. cbn [closer_tok] in K2. rewrite K2. rewrite tok_eqb_refl.
    assert (N2 : kind st2 <> TEOF) by (unfold kind; rewrite K2; discriminate).
    destruct (bump_clean _ D2 N2) as (C3 & P3 & E3).
    rewrite <- B2 in H2.
    assert (AE : abs_expr (XArr ses (cstart st, cend st2)) = Pratt.PArr es) by (cbn [abs_expr]; rewrite A2; reflexivity).
    rewrite <- AE in H2.
    destruct (IHc v _ m (bump st2) e r C3 H2) as (se' & st' & R & A & B & D & E).
    exists se', st'. rewrite E, E3, F2, E1. auto.
Qed.

Lemma continuation_sim v lhs m st e r : clean st ->
  Pratt.cont (S f) m (abs_expr lhs) (ptoks st) = Pratt.POk (e, r) ->
  exists se st', continuation (S f) v lhs m st = Done (se, st') /\ abs_expr se = e /\
                 ptoks st' = r /\ clean st' /\ errs st' = errs st.
Proof.
  intros C H. rewrite continuation_S. cbv zeta.
  destruct (tok_eqb (kind st) TEOF) eqn:KE.
  { (* end of the tokens *)
    apply tok_eqb_eq in KE. rewrite (ptoks_eof _ KE) in H. rewrite PrattProofs.cont_S in H.
    inversion H; subst. rewrite KE. cbn.
    exists lhs, st. rewrite (ptoks_eof _ KE). auto. }
  apply tok_eqb_neq in KE. rewrite (ptoks_cons _ KE) in H.
  destruct (bump_clean _ C KE) as (C1 & P1 & E1).
  unfold kind in *.
  destruct (classify (cur st)) as [K A|K A|K A|op K1 K2 K3 KO A|K1 K2 K3 KO STOP].
  - (* . field *)
    rewrite K. cbn [tok_eqb tok_index Z.eqb Pos.eqb]. rewrite A in H. rewrite PrattProofs.cont_S in H.
    rewrite <- P1 in H.
    destruct (ptoks (bump st)) as [|p1 r1] eqn:PB; [discriminate H|].
    destruct (ptoks_head _ _ _ C1 PB) as (N1 & -> & ->).
    pose proof (abs_tok_inv (cur (bump st))) as INV.
    destruct (abs_tok (cur (bump st))) eqn:AB; try discriminate H.
    destruct INV as (KI & PI).
    unfold name_or_placeholder. unfold kind. rewrite KI. cbn [tok_eqb tok_index Z.eqb Pos.eqb].
    destruct (bump_clean _ C1 N1) as (C2 & P2 & E2).
    rewrite <- P2 in H.
    assert (AE : abs_expr (XMember lhs (payload (bump st)) (cspan (bump st))
                              (fst (span_of lhs), cend (bump (bump st))))
                 = Pratt.PMember (abs_expr lhs) n) by (cbn [abs_expr]; unfold payload; rewrite PI; reflexivity).
    rewrite <- AE in H.
    destruct (IHc v _ m (bump (bump st)) e r C2 H) as (se' & st' & R & A' & B & D & E).
    exists se', st'. rewrite E, E2, E1. auto.
  - (* ( args ) *)
    rewrite K. cbn [tok_eqb tok_index Z.eqb Pos.eqb]. rewrite A in H. rewrite PrattProofs.cont_S in H.
    apply pbind_ok in H. destruct H as ((es & r1) & H1 & H2).
    rewrite <- P1 in H1.
    destruct (elems_sim v Pratt.CParen (bump st) es r1 C1 H1) as (ses & st2 & R2 & A2 & K2 & D2 & B2 & F2).
    cbn [closer_tok Pratt.list_bp] in R2. unfold kind in R2. rewrite R2.
    unfold expect_here, expect. rewrite K2. cbn [closer_tok]. rewrite tok_eqb_refl.
    assert (N2 : kind st2 <> TEOF) by (rewrite K2; discriminate).
    destruct (bump_clean _ D2 N2) as (C3 & P3 & E3).
    rewrite <- B2 in H2.
    assert (AE : abs_expr (XCall lhs ses (fst (span_of lhs), cend (bump st2))) = Pratt.PCall (abs_expr lhs) es)
      by (cbn [abs_expr]; rewrite A2; reflexivity).
    rewrite <- AE in H2.
    destruct (IHc v _ m (bump st2) e r C3 H2) as (se' & st' & R & A' & B & D & E).
    exists se', st'. rewrite E, E3, F2, E1. auto.
  - (* [ index ] *)
    rewrite K. cbn [tok_eqb tok_index Z.eqb Pos.eqb]. rewrite A in H. rewrite PrattProofs.cont_S in H.
    apply pbind_ok in H. destruct H as ((e1 & r1) & H1 & H2).
    rewrite <- P1 in H1.
    destruct (IHe v GenPratt.index_bp (bump st) e1 r1 C1 H1) as (se1 & st1 & R1 & A1 & B1 & D1 & F1).
    rewrite R1. destruct r1 as [|p1 r2]; [discriminate H2|].
    destruct (ptoks_head _ _ _ D1 B1) as (N1 & -> & ->).
    pose proof (abs_tok_inv (cur st1)) as INV.
    destruct (abs_tok (cur st1)); try discriminate H2.
    unfold kind. rewrite INV. rewrite tok_eqb_refl.
    destruct (bump_clean _ D1 N1) as (C2 & P2 & E2).
    rewrite <- P2 in H2.
    assert (AE : abs_expr (XIdx lhs se1 (t_start (cur st), cend st1) (fst (span_of lhs), cend st1))
                 = Pratt.PIdx (abs_expr lhs) e1) by (cbn [abs_expr]; rewrite A1; reflexivity).
    rewrite <- AE in H2.
    destruct (IHc v _ m (bump st1) e r C2 H2) as (se' & st' & R & A' & B & D & E).
    exists se', st'. rewrite E, E2, F1, E1. auto.
  - (* binary operator *)
    rewrite K1, K2, K3, KO. rewrite A in H. rewrite PrattProofs.cont_S in H.
    change (Pratt.l_bp op) with (l_bp op) in H. change (Pratt.r_bp op) with (r_bp op) in H.
    destruct (l_bp op <? m)%Z.
    + inversion H; subst. exists lhs, st. rewrite (ptoks_cons _ KE), A. auto.
    + apply pbind_ok in H. destruct H as ((e1 & r1) & H1 & H2).
      rewrite <- P1 in H1.
      destruct (IHe v (r_bp op) (bump st) e1 r1 C1 H1) as (se1 & st1 & R1 & A1 & B1 & D1 & F1).
      rewrite R1. rewrite <- B1 in H2.
      assert (AE : abs_expr (XBin op lhs se1 (fst (span_of lhs), cend st1)) = Pratt.PBin op (abs_expr lhs) e1)
        by (cbn [abs_expr]; rewrite A1; reflexivity).
      rewrite <- AE in H2.
      destruct (IHc v _ m st1 e r D1 H2) as (se' & st' & R & A' & B & D & E).
      exists se', st'. rewrite E, F1, E1. auto.
  - (* anything else ends the expression *)
    rewrite K1, K2, K3, KO. rewrite STOP in H. inversion H; subst.
    exists lhs, st. rewrite (ptoks_cons _ KE). auto.
Qed.

Lemma exprs_loop_sim v c st es r : clean st ->
  Pratt.elems_loop (S f) c (ptoks st) = Pratt.POk (es, r) ->
  exists ses st', exprs_loop (S f) v (closer_tok c) (Pratt.list_bp c) st = Done (ses, st') /\
                  map abs_expr ses = es /\ kind st' = closer_tok c /\ clean st' /\
                  ptoks (bump st') = r /\ errs st' = errs st.
Proof.
  intros C H. rewrite PrattProofs.elems_loop_S in H.
  apply pbind_ok in H. destruct H as ((e1 & r1) & H1 & H2).
  destruct (IHe v (Pratt.list_bp c) st e1 r1 C H1) as (se1 & st1 & R1 & A1 & B1 & D1 & F1).
  rewrite exprs_loop_S. rewrite R1.
  destruct r1 as [|p1 r2]; [discriminate H2|].
  destruct (ptoks_head _ _ _ D1 B1) as (N1 & -> & ->).
  destruct (bump_clean _ D1 N1) as (C2 & P2 & E2).
  destruct (tok_eqb (kind st1) TComma) eqn:KC.
  - apply tok_eqb_eq in KC. unfold kind in KC. rewrite (abs_comma _ KC) in H2. cbv zeta.
    rewrite <- P2 in H2.
    destruct (ptoks (bump st1)) as [|p3 r3] eqn:PB; [discriminate H2|].
    destruct (ptoks_head _ _ _ C2 PB) as (N2 & -> & ->).
    rewrite is_close_abs in H2. fold (kind (bump st1)) in H2.
    destruct (tok_eqb (kind (bump st1)) (closer_tok c)) eqn:KK.
    + inversion H2; subst. apply tok_eqb_eq in KK.
      destruct (bump_clean _ C2 N2) as (_ & P3 & _).
      exists [se1], (bump st1). rewrite E2, F1. auto 10.
    + apply pbind_ok in H2. destruct H2 as ((es' & r4) & H3 & H4). inversion H4; subst.
      rewrite <- (ptoks_cons _ N2) in H3.
      destruct (IHl v c (bump st1) es' r C2 H3) as (ses & st3 & R3 & A3 & K3 & D3 & B3 & F3).
      rewrite R3. exists (se1 :: ses), st3. cbn [map]. rewrite A3, F3, E2, F1. auto 10.
  - (* no comma: the closer must follow *)
    assert (NC : abs_tok (cur st1) <> Pratt.TComma).
    { intro AC. pose proof (abs_tok_inv (cur st1)) as INV. rewrite AC in INV.
      unfold kind in KC. rewrite INV in KC. discriminate KC. }
    assert (H3 : (if Pratt.is_close c (abs_tok (cur st1)) then Pratt.POk ([e1], map abs_tok (rest st1))
                  else Pratt.PErr) = Pratt.POk (es, r)).
    { destruct (abs_tok (cur st1)); try exact H2. contradiction. }
    rewrite is_close_abs in H3. fold (kind st1) in H3.
    destruct (tok_eqb (kind st1) (closer_tok c)) eqn:KK; [|discriminate H3].
    inversion H3; subst. apply tok_eqb_eq in KK.
    exists [se1], st1. auto 10.
Qed.

End Step.

Lemma sim : forall f, sim_at f.
Proof.
  induction f as [|f IH].
  - refine (conj _ (conj _ _)); intros; discriminate.
  - refine (conj _ (conj _ _)); intros.
    + eapply expression_sim; eassumption.
    + eapply continuation_sim; eassumption.
    + eapply exprs_loop_sim; eassumption.
Qed.
