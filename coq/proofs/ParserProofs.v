(* ParserProofs — totality of the parser model (theories/Parser.v): with the fuel parse_program
   hands out the parser never runs out, every statement parse consumes at least one token (so
   every recovery path progresses), and every span it builds — in the tree and in the
   diagnostics — is ordered and made of positions of the token list (or 0).
   The position predicate [good] is a parameter: instantiating it with "in range and on a
   character boundary of s" gives C07's span_wf for the parser; with "0 or an end point of a
   token" the token-boundary statement. *)
From Coq Require Import ZArith List Bool Arith Lia.
Require Import NS.theories.Utf8 NS.theories.GenLexer NS.theories.Lexer NS.theories.GenParser NS.theories.Parser.
Require NS.theories.Lang NS.theories.GenPratt.
Import ListNotations.
Open Scope nat_scope.

(* ------------------------------------------------------------------ one-step unfoldings *)

Lemma parse_expression_S f v m st :
  parse_expression (S f) v m st =
    let start := cstart st in
    let sp := cspan st in
    let content := payload st in
    let owned := t_owned (cur st) in
    let st0 := take_v v st in
    let primary : presult (sexpr * pstate) :=
      match kind st with
      | TNumber => Done (XNum content sp, bump st0)
      | TString =>
          Done (XStr content owned
                  (Template.parse_string_literal GenTemplate.variant_of_source content owned) sp,
                bump st0)
      | TTrue => Done (XBool true sp, bump st0)
      | TFalse => Done (XBool false sp, bump st0)
      | TNull => Done (XNull sp, bump st0)
      | TIdentifier => Done (XVar content sp, bump st0)
      | TNot =>
          let* (e, st1) := parse_expression f v (GenPratt.unary_bp Lang.Not) (bump st0) in
          Done (XUn Lang.Not e (start, cend st1), st1)
      | TMinus =>
          let* (e, st1) := parse_expression f v (GenPratt.unary_bp Lang.Neg) (bump st0) in
          Done (XUn Lang.Neg e (start, cend st1), st1)
      | TLParen =>
          let* (e, st1) := parse_expression f v GenPratt.paren_bp (bump st0) in
          Done (e, expect_here TRParen SExpectedNumberOrVariableOrLParen lbl_rparen st1)
      | TLBracket =>
          let st1 := bump st0 in
          let* (es, st2) :=
            (if tok_eqb (kind st1) TRBracket then Done ([], st1)
             else exprs_loop f v TRBracket GenPratt.elem_bp st1) in
          if tok_eqb (kind st2) TRBracket then Done (XArr es (start, cend st2), bump st2)
          else let st3 := emit_here SExpectedRBracket lbl_rbracket st2 in
               Done (XArr es (start, cend st3), st3)
      | _ =>
          let st1 := emit_here SExpectedNumberOrVariableOrLParen lbl_expression st0 in
          let st2 := synchronize st1 in
          Done (XNum [48%Z] (cspan st2), st2)
      end in
    let* (lhs, st') := primary in
    continuation f v lhs m st'.
Proof. reflexivity. Qed.

Lemma continuation_S f v lhs m st :
  continuation (S f) v lhs m st =
    let start := fst (span_of lhs) in
    let k := kind st in
    if tok_eqb k TDot then
      let st1 := bump st in
      let fsp := cspan st1 in
      let '(field, st2) := name_or_placeholder fsp lbl_ident_after_dot st1 in
      let st3 := bump st2 in
      continuation f v (XMember lhs field fsp (start, cend st3)) m st3
    else if tok_eqb k TLParen then
      let st1 := bump st in
      let* (args, st2) :=
        (if tok_eqb (kind st1) TRParen then Done ([], st1)
         else exprs_loop f v TRParen GenPratt.arg_bp st1) in
      let st3 := expect_here TRParen SExpectedRParen lbl_rparen st2 in
      continuation f v (XCall lhs args (start, cend st3)) m st3
    else if tok_eqb k TLBracket then
      let bstart := cstart st in
      let st1 := bump st in
      let* (idx, st2) := parse_expression f v GenPratt.index_bp st1 in
      let e := cend st2 in
      let st3 := if tok_eqb (kind st2) TRBracket then bump st2
                 else emit_here SExpectedRBracket lbl_rbracket st2 in
      continuation f v (XIdx lhs idx (bstart, e) (start, e)) m st3
    else
      match binop_of_tok k with
      | Some op =>
          if (l_bp op <? m)%Z then Done (lhs, st)
          else
            let* (rhs, st2) := parse_expression f v (r_bp op) (bump st) in
            continuation f v (XBin op lhs rhs (start, cend st2)) m st2
      | None => Done (lhs, st)
      end.
Proof. reflexivity. Qed.

Lemma exprs_loop_S f v closer bp st :
  exprs_loop (S f) v closer bp st =
    let* (e, st1) := parse_expression f v bp st in
    if tok_eqb (kind st1) TComma then
      let st2 := bump st1 in
      if tok_eqb (kind st2) closer then Done ([e], st2)
      else let* (es, st3) := exprs_loop f v closer bp st2 in Done (e :: es, st3)
    else Done ([e], st1).
Proof. reflexivity. Qed.

Lemma params_loop_S f st :
  params_loop (S f) st =
    let k := kind st in
    let sp := cspan st in
    let next (name : bytes) (st1 : pstate) :=
      if tok_eqb (kind st1) TComma then
        let* (ps, sps, st2) := params_loop f (bump st1) in Done (name :: ps, sp :: sps, st2)
      else Done ([name], [sp], st1) in
    if tok_eqb k TIdentifier then next (payload st) (bump st)
    else if mem_tok k reserved_toks then
      next placeholder_name (bump (emit SReservedKeyword sp (Some (lbl_reserved k)) st))
    else Done ([], [], st).
Proof. reflexivity. Qed.

Lemma parse_statement_S f v st :
  parse_statement (S f) v st =
    let pe : expr_parser := parse_expression f v in
    let blk : block_parser := block_body (block_loop f v) in
    match kind st with
    | TDo => parse_function_def (params_loop f) blk st
    | TReturn => parse_return pe st
    | TMake => parse_assignment pe st
    | TIfToSay => parse_if pe blk st
    | TJasi => parse_loop pe blk st
    | TComot => let st1 := bump st in Done (YBreak (cstart st, cend st1), st1)
    | TNext => let st1 := bump st in Done (YNext (cstart st, cend st1), st1)
    | TStart => parse_block_stmt blk st
    | TIdentifier => parse_ident_statement (continuation f v) pe st
    | _ => statement_error v st
    end.
Proof. reflexivity. Qed.

Lemma block_loop_S f v st :
  block_loop (S f) v st =
    if mem_tok (kind st) block_stop_toks then Done ([], st)
    else
      let* (s, st1) := parse_statement f v st in
      let* (ss, st2) := block_loop f v st1 in
      Done (s :: ss, st2).
Proof. reflexivity. Qed.

Lemma program_loop_S f v st :
  program_loop (S f) v st =
    if mem_tok (kind st) stmt_start_toks then
      let* (s, st1) := parse_statement f v st in
      let* (ss, st2) := program_loop f v st1 in
      Done (s :: ss, st2)
    else Done ([], st).
Proof. reflexivity. Qed.

(* ------------------------------------------------------------------ token kinds *)

Lemma tok_eqb_eq a b : tok_eqb a b = true <-> a = b.
Proof.
  split.
  - destruct a, b; vm_compute; intro H; try reflexivity; discriminate H.
  - intros ->. unfold tok_eqb. apply Z.eqb_refl.
Qed.

Lemma tok_eqb_neq a b : tok_eqb a b = false <-> a <> b.
Proof.
  split.
  - intros H E. apply tok_eqb_eq in E. congruence.
  - intro N. destruct (tok_eqb a b) eqn:E; [apply tok_eqb_eq in E; contradiction | reflexivity].
Qed.

Lemma tok_eqb_refl a : tok_eqb a a = true.
Proof. apply tok_eqb_eq. reflexivity. Qed.

(* ------------------------------------------------------------------ the invariant *)

Section Total.

Variable good : nat -> Prop.
Hypothesis good_0 : good 0.

Definition span_wf0 (s : span) : Prop := good (fst s) /\ good (snd s) /\ fst s <= snd s.
Definition tok_ok (t : token) : Prop := span_wf0 (t_start t, t_end t).

(* the tokens not yet pulled: each well formed, starting at or after the end of the previous one *)
Fixpoint chain (lo : nat) (r : list token) : Prop :=
  match r with
  | [] => True
  | t :: r' => lo <= t_start t /\ tok_ok t /\ chain (t_end t) r'
  end.

Definition allP {A : Type} (P : A -> Prop) : list A -> Prop :=
  fix go (l : list A) : Prop :=
    match l with
    | [] => True
    | x :: r => P x /\ go r
    end.

Lemma allP_Forall {A} (P : A -> Prop) l : allP P l <-> Forall P l.
Proof.
  induction l as [|x r IH]; cbn [allP].
  - split; constructor.
  - split.
    + intros [H1 H2]. constructor; [assumption | apply IH; assumption].
    + intro H. inversion H; subst. split; [assumption | apply IH; assumption].
Qed.

Lemma allP_app {A} (P : A -> Prop) l1 l2 : allP P (l1 ++ l2) <-> allP P l1 /\ allP P l2.
Proof. induction l1 as [|x r IH]; cbn [allP app]; tauto. Qed.

Fixpoint expr_wf (e : sexpr) : Prop :=
  match e with
  | XNum _ sp | XStr _ _ _ sp | XBool _ sp | XNull sp | XVar _ sp => span_wf0 sp
  | XBin _ l r sp => expr_wf l /\ expr_wf r /\ span_wf0 sp
  | XUn _ a sp => expr_wf a /\ span_wf0 sp
  | XArr es sp => allP expr_wf es /\ span_wf0 sp
  | XIdx a i isp sp => expr_wf a /\ expr_wf i /\ span_wf0 isp /\ span_wf0 sp
  | XMember o _ fsp sp => expr_wf o /\ span_wf0 fsp /\ span_wf0 sp
  | XCall c args sp => expr_wf c /\ allP expr_wf args /\ span_wf0 sp
  end.

Fixpoint stmt_wf (s : sstmt) : Prop :=
  match s with
  | YFun _ nsp _ psps body bsp sp =>
      span_wf0 nsp /\ allP span_wf0 psps /\ allP stmt_wf body /\ span_wf0 bsp /\ span_wf0 sp
  | YMake _ xsp e sp | YSet _ xsp e sp => span_wf0 xsp /\ expr_wf e /\ span_wf0 sp
  | YSetIdx t e sp => expr_wf t /\ expr_wf e /\ span_wf0 sp
  | YIf c t tsp _ f fsp sp =>
      expr_wf c /\ allP stmt_wf t /\ span_wf0 tsp /\ allP stmt_wf f /\ span_wf0 fsp /\ span_wf0 sp
  | YLoop c b bsp sp => expr_wf c /\ allP stmt_wf b /\ span_wf0 bsp /\ span_wf0 sp
  | YBlock b bsp sp => allP stmt_wf b /\ span_wf0 bsp /\ span_wf0 sp
  | YRet None sp => span_wf0 sp
  | YRet (Some e) sp => expr_wf e /\ span_wf0 sp
  | YBreak sp | YNext sp => span_wf0 sp
  | YExpr e sp => expr_wf e /\ span_wf0 sp
  end.

Definition diag_ok (d : pdiag) : Prop := span_wf0 (pd_span d).

Definition inv (st : pstate) : Prop :=
  tok_ok (cur st) /\ chain (cend st) (rest st) /\ allP diag_ok (errs st).

(* st' is st after some parsing: positions only move forward, nothing is un-consumed *)
Definition adv (st st' : pstate) : Prop :=
  cstart st <= cstart st' /\ cend st <= cend st' /\ size st' <= size st.

Lemma kind_of_cur st st' : cur st' = cur st -> kind st' = kind st.
Proof. intro E. unfold kind. rewrite E. reflexivity. Qed.

Lemma adv_refl st : adv st st.
Proof. unfold adv. lia. Qed.

Lemma adv_trans a b c : adv a b -> adv b c -> adv a c.
Proof. unfold adv. lia. Qed.

Lemma no_span_wf : span_wf0 no_span.
Proof. unfold span_wf0, no_span. cbn. auto. Qed.

Lemma inv_cspan st : inv st -> span_wf0 (cspan st).
Proof. intros (H & _). exact H. Qed.

Lemma inv_le st : inv st -> cstart st <= cend st.
Proof. intros ((_ & _ & H) & _). exact H. Qed.

Lemma inv_good_start st : inv st -> good (cstart st).
Proof. intros ((H & _) & _). exact H. Qed.

Lemma inv_good_end st : inv st -> good (cend st).
Proof. intros ((_ & H & _) & _). exact H. Qed.

Lemma mk_span st st' : inv st -> inv st' -> cstart st <= cend st' -> span_wf0 (cstart st, cend st').
Proof.
  intros I I' L. unfold span_wf0. cbn [fst snd].
  split; [apply inv_good_start; assumption|]. split; [apply inv_good_end; assumption | assumption].
Qed.

(* ---- primitives *)

Lemma bump_ok st : inv st ->
  inv (bump st) /\ adv st (bump st) /\ cend st <= cstart (bump st) /\
  (kind st <> TEOF -> size (bump st) < size st) /\ errs (bump st) = errs st.
Proof.
  intros (Hc & Hr & He). pose proof Hc as (G1 & G2 & L). cbn [fst snd] in G1, G2, L.
  unfold bump, adv, size, kind, cstart, cend, inv in *.
  destruct (rest st) as [|t r] eqn:R; cbn [cur rest errs t_start t_end t_kind eof_tok length].
  - refine (conj _ (conj _ (conj _ (conj _ _)))).
    + refine (conj _ (conj _ He)); [|exact I].
      unfold tok_ok, span_wf0. cbn. auto.
    + cbn. destruct (tok_eqb (t_kind (cur st)) TEOF); lia.
    + lia.
    + intro N. apply tok_eqb_neq in N. rewrite N. cbn. lia.
    + reflexivity.
  - destruct Hr as (L1 & T1 & C1). pose proof T1 as (_ & _ & L2). cbn [fst snd] in L2.
    refine (conj _ (conj _ (conj _ (conj _ _)))).
    + refine (conj T1 (conj C1 He)).
    + destruct (tok_eqb (t_kind t) TEOF), (tok_eqb (t_kind (cur st)) TEOF); cbn [length]; lia.
    + lia.
    + intro N. apply tok_eqb_neq in N. rewrite N. destruct (tok_eqb (t_kind t) TEOF); cbn [length]; lia.
    + reflexivity.
Qed.

Lemma take_ok st : inv st ->
  inv (take st) /\ adv st (take st) /\ cstart (take st) = cstart st /\ cend (take st) = cend st /\
  kind (take st) = TEOF /\ rest (take st) = rest st.
Proof.
  intros (Hc & Hr & He).
  unfold take, adv, size, kind, cstart, cend, inv in *. cbn [cur rest errs t_start t_end t_kind eof_tok].
  refine (conj (conj Hc (conj Hr He)) (conj _ (conj eq_refl (conj eq_refl (conj eq_refl eq_refl))))).
  cbn. destruct (tok_eqb (t_kind (cur st)) TEOF); lia.
Qed.

Lemma take_v_ok v st : inv st ->
  inv (take_v v st) /\ adv st (take_v v st) /\ cstart (take_v v st) = cstart st /\
  cend (take_v v st) = cend st /\ rest (take_v v st) = rest st /\
  (kind (take_v v st) = kind st \/ kind (take_v v st) = TEOF).
Proof.
  intro I. unfold take_v. destruct (v_expr_takes_token v).
  - destruct (take_ok st I) as (A & B & C & D & E & F).
    exact (conj A (conj B (conj C (conj D (conj F (or_intror E)))))).
  - exact (conj I (conj (adv_refl st) (conj eq_refl (conj eq_refl (conj eq_refl (or_introl eq_refl)))))).
Qed.

Lemma emit_ok e sp lbl st : inv st -> span_wf0 sp ->
  inv (emit e sp lbl st) /\ adv st (emit e sp lbl st) /\ cur (emit e sp lbl st) = cur st /\
  rest (emit e sp lbl st) = rest st.
Proof.
  intros (Hc & Hr & He) S.
  unfold emit, adv, size, kind, cstart, cend, inv. cbn [cur rest errs allP pd_span].
  refine (conj (conj Hc (conj Hr (conj S He))) (conj _ (conj eq_refl eq_refl))). lia.
Qed.

Lemma emit_here_ok e lbl st : inv st ->
  inv (emit_here e lbl st) /\ adv st (emit_here e lbl st) /\ cur (emit_here e lbl st) = cur st /\
  rest (emit_here e lbl st) = rest st.
Proof. intro I. apply emit_ok; [assumption | apply inv_cspan; assumption]. Qed.

Lemma expect_ok k e sp lbl st : inv st -> span_wf0 sp ->
  inv (expect k e sp lbl st) /\ adv st (expect k e sp lbl st).
Proof.
  intros I S. unfold expect. destruct (tok_eqb (kind st) k).
  - destruct (bump_ok st I) as (A & B & _). auto.
  - destruct (emit_ok e sp (Some lbl) st I S) as (A & B & _). auto.
Qed.

Lemma expect_here_ok k e lbl st : inv st ->
  inv (expect_here k e lbl st) /\ adv st (expect_here k e lbl st).
Proof. intro I. apply expect_ok; [assumption | apply inv_cspan; assumption]. Qed.

Lemma sync_rest_ok : forall r lo, good lo -> chain lo r ->
  let '(c, r', e) := sync_rest lo r in
  tok_ok c /\ chain (t_end c) r' /\ lo <= t_start c /\ lo <= t_end c /\
  length r' + (if tok_eqb (t_kind c) TEOF then 0 else 1) <= length r.
Proof.
  induction r as [|t r IH]; intros lo G C; cbn [sync_rest].
  - cbn. unfold tok_ok, span_wf0. cbn. auto 10.
  - destruct C as (L & T & C'). pose proof T as (G1 & G2 & L2). cbn [fst snd] in *.
    destruct (mem_tok (t_kind t) sync_toks).
    + refine (conj T (conj C' (conj L (conj _ _)))); [lia|].
      destruct (tok_eqb (t_kind t) TEOF); cbn [length]; lia.
    + specialize (IH (t_end t) G2 C'). destruct (sync_rest (t_end t) r) as ((c, r'), e).
      destruct IH as (A & B & D & E & F).
      refine (conj A (conj B (conj _ (conj _ _)))); try lia. cbn [length]. lia.
Qed.

Lemma synchronize_ok st : inv st -> inv (synchronize st) /\ adv st (synchronize st).
Proof.
  intros I. unfold synchronize. destruct (mem_tok (kind st) sync_toks) eqn:M.
  - split; [assumption | apply adv_refl].
  - pose proof I as (Hc & Hr & He).
    pose proof (sync_rest_ok (rest st) (cend st) (inv_good_end st I) Hr) as S.
    destruct (sync_rest (cend st) (rest st)) as ((c, r'), e).
    destruct S as (A & B & D & E & F).
    assert (NE : tok_eqb (kind st) TEOF = false).
    { destruct (tok_eqb (kind st) TEOF) eqn:Q; [|reflexivity].
      apply tok_eqb_eq in Q. rewrite Q in M. vm_compute in M. discriminate M. }
    split.
    + unfold inv. cbn [cur rest errs]. unfold cend. cbn [cur]. auto.
    + unfold adv, size, cstart, cend, kind in *. cbn [cur rest]. rewrite NE.
      pose proof (inv_le st I). unfold cstart, cend in *. lia.
Qed.

(* synchronize right after the token was taken does nothing *)
Lemma synchronize_at_eof st : kind st = TEOF -> synchronize st = st.
Proof. intro K. unfold synchronize. rewrite K. reflexivity. Qed.

Lemma name_or_placeholder_ok sp lbl st : inv st -> span_wf0 sp ->
  inv (snd (name_or_placeholder sp lbl st)) /\ adv st (snd (name_or_placeholder sp lbl st)) /\
  cur (snd (name_or_placeholder sp lbl st)) = cur st /\ rest (snd (name_or_placeholder sp lbl st)) = rest st.
Proof.
  intros I S. unfold name_or_placeholder.
  destruct (tok_eqb (kind st) TIdentifier); cbn [snd].
  - exact (conj I (conj (adv_refl st) (conj eq_refl eq_refl))).
  - destruct (mem_tok (kind st) reserved_toks); cbn [snd].
    + apply emit_ok; [assumption | apply inv_cspan; assumption].
    + apply emit_ok; assumption.
Qed.


Lemma expr_wf_span e : expr_wf e -> span_wf0 (span_of e).
Proof. destruct e; cbn [expr_wf span_of]; tauto. Qed.

Lemma bump_take_ok v st : inv st ->
  inv (bump (take_v v st)) /\ adv st (bump (take_v v st)) /\ cend st <= cstart (bump (take_v v st)) /\
  (kind st <> TEOF -> size (bump (take_v v st)) < size st).
Proof.
  intro I. destruct (take_v_ok v st I) as (I0 & A0 & S0 & E0 & R0 & K0).
  destruct (bump_ok _ I0) as (I1 & A1 & L1 & P1 & _).
  refine (conj I1 (conj (adv_trans _ _ _ A0 A1) (conj _ _))); [lia|].
  intro N. destruct K0 as [K0|K0].
  - rewrite K0 in P1. specialize (P1 N). destruct A0 as (_ & _ & A0). lia.
  - (* the token was taken: it no longer counts *)
    assert (size (take_v v st) < size st).
    { unfold size. rewrite R0, K0. apply tok_eqb_neq in N. rewrite N. cbn. lia. }
    destruct A1 as (_ & _ & A1). lia.
Qed.

(* ------------------------------------------------------------------ expressions *)

Definition expr_post (st : pstate) (r : presult (sexpr * pstate)) : Prop :=
  exists e st', r = Done (e, st') /\ inv st' /\ adv st st' /\ expr_wf e /\
    cstart st <= fst (span_of e) /\ snd (span_of e) <= cend st'.

Definition cont_post (lhs : sexpr) (st : pstate) (r : presult (sexpr * pstate)) : Prop :=
  exists e st', r = Done (e, st') /\ inv st' /\ adv st st' /\ expr_wf e /\
    fst (span_of e) = fst (span_of lhs) /\ snd (span_of e) <= cend st'.

Definition list_post (st : pstate) (r : presult (list sexpr * pstate)) : Prop :=
  exists es st', r = Done (es, st') /\ inv st' /\ adv st st' /\ allP expr_wf es.

Definition expr_total_at (f : nat) : Prop :=
  (forall v m st, inv st -> 3 * size st + 2 <= f -> expr_post st (parse_expression f v m st)) /\
  (forall v lhs m st, inv st -> expr_wf lhs -> snd (span_of lhs) <= cend st -> 3 * size st + 1 <= f ->
     cont_post lhs st (continuation f v lhs m st)) /\
  (forall v closer bp st, inv st -> 3 * size st + 3 <= f -> list_post st (exprs_loop f v closer bp st)).

Section ExprStep.
Variable f : nat.
Hypothesis IH : expr_total_at f.

Let IHe := proj1 IH.
Let IHc := proj1 (proj2 IH).
Let IHl := proj2 (proj2 IH).

(* a primary expression followed by the Pratt loop *)
Lemma primary_then_cont v m st e st1 :
  inv st1 -> adv st st1 -> expr_wf e -> cstart st <= fst (span_of e) -> snd (span_of e) <= cend st1 ->
  3 * size st1 + 1 <= f ->
  expr_post st (continuation f v e m st1).
Proof.
  intros I1 A1 W L1 L2 F.
  destruct (IHc v e m st1 I1 W L2 F) as (e' & st' & R & I' & A' & W' & S1 & S2).
  exists e', st'. refine (conj R (conj I' (conj (adv_trans _ _ _ A1 A') (conj W' (conj _ S2))))).
  rewrite S1. exact L1.
Qed.

Lemma literal_arm v m st e :
  inv st -> 3 * size st + 1 <= f -> expr_wf e -> span_of e = cspan st ->
  expr_post st (continuation f v e m (bump (take_v v st))).
Proof.
  intros I F W S. destruct (bump_take_ok v st I) as (I1 & A1 & L1 & _).
  apply primary_then_cont; try assumption.
  - rewrite S. cbn. lia.
  - rewrite S. cbn [snd cspan]. destruct A1 as (_ & A1 & _). exact A1.
  - destruct A1 as (_ & _ & A1). lia.
Qed.

Lemma error_arm v m st :
  inv st -> 3 * size st + 1 <= f ->
  let st2 := synchronize (emit_here SExpectedNumberOrVariableOrLParen lbl_expression (take_v v st)) in
  expr_post st (continuation f v (XNum [48%Z] (cspan st2)) m st2).
Proof.
  intros I F st2.
  destruct (take_v_ok v st I) as (I0 & A0 & _).
  destruct (emit_here_ok SExpectedNumberOrVariableOrLParen lbl_expression _ I0) as (I1 & A1 & _).
  destruct (synchronize_ok _ I1) as (I2 & A2). fold st2 in I2, A2.
  pose proof (adv_trans _ _ _ A0 (adv_trans _ _ _ A1 A2)) as A.
  apply primary_then_cont; try assumption.
  - cbn [expr_wf]. apply inv_cspan. assumption.
  - cbn. destruct A as (A & _). exact A.
  - cbn. lia.
  - destruct A as (_ & _ & A). lia.
Qed.

Lemma unary_arm v m st op bp :
  inv st -> 3 * size st + 1 <= f -> kind st <> TEOF ->
  expr_post st
    (let* (lhs, st') :=
       (let* (e, st1) := parse_expression f v bp (bump (take_v v st)) in
        Done (XUn op e (cstart st, cend st1), st1)) in
     continuation f v lhs m st').
Proof.
  intros I F N. destruct (bump_take_ok v st I) as (I1 & A1 & L1 & P1). specialize (P1 N).
  destruct (IHe v bp _ I1 ltac:(lia)) as (e & st1 & R & I2 & A2 & W & S1 & S2).
  rewrite R. pose proof (adv_trans _ _ _ A1 A2) as A.
  apply primary_then_cont; try assumption.
  - cbn [expr_wf]. split; [assumption|]. apply mk_span; try assumption.
    pose proof (inv_le _ I). destruct A as (_ & A & _). lia.
  - cbn. lia.
  - cbn. lia.
  - destruct A as (_ & _ & A). lia.
Qed.

Lemma paren_arm v m st :
  inv st -> 3 * size st + 1 <= f -> kind st <> TEOF ->
  expr_post st
    (let* (lhs, st') :=
       (let* (e, st1) := parse_expression f v GenPratt.paren_bp (bump (take_v v st)) in
        Done (e, expect_here TRParen SExpectedNumberOrVariableOrLParen lbl_rparen st1)) in
     continuation f v lhs m st').
Proof.
  intros I F N. destruct (bump_take_ok v st I) as (I1 & A1 & L1 & P1). specialize (P1 N).
  destruct (IHe v GenPratt.paren_bp _ I1 ltac:(lia)) as (e & st1 & R & I2 & A2 & W & S1 & S2).
  rewrite R.
  destruct (expect_here_ok TRParen SExpectedNumberOrVariableOrLParen lbl_rparen _ I2) as (I3 & A3).
  pose proof (adv_trans _ _ _ A1 (adv_trans _ _ _ A2 A3)) as A.
  apply primary_then_cont; try assumption.
  - pose proof (inv_le _ I). lia.
  - destruct A3 as (_ & A3 & _). lia.
  - destruct A as (_ & _ & A). lia.
Qed.

Lemma array_arm v m st :
  inv st -> 3 * size st + 1 <= f -> kind st <> TEOF ->
  expr_post st
    (let* (lhs, st') :=
       (let st1 := bump (take_v v st) in
        let* (es, st2) :=
          (if tok_eqb (kind st1) TRBracket then Done ([], st1)
           else exprs_loop f v TRBracket GenPratt.elem_bp st1) in
        if tok_eqb (kind st2) TRBracket then Done (XArr es (cstart st, cend st2), bump st2)
        else let st3 := emit_here SExpectedRBracket lbl_rbracket st2 in
             Done (XArr es (cstart st, cend st3), st3)) in
     continuation f v lhs m st').
Proof.
  intros I F N. destruct (bump_take_ok v st I) as (I1 & A1 & L1 & P1). specialize (P1 N).
  cbv zeta. set (st1 := bump (take_v v st)) in *.
  assert (L : list_post st1 (if tok_eqb (kind st1) TRBracket then Done ([], st1)
                             else exprs_loop f v TRBracket GenPratt.elem_bp st1)).
  { destruct (tok_eqb (kind st1) TRBracket).
    - exists [], st1. refine (conj eq_refl (conj I1 (conj (adv_refl _) Logic.I))).
    - apply IHl; [assumption | lia]. }
  destruct L as (es & st2 & R & I2 & A2 & W). rewrite R.
  pose proof (adv_trans _ _ _ A1 A2) as A12.
  assert (SP : span_wf0 (cstart st, cend st2)).
  { apply mk_span; try assumption. pose proof (inv_le _ I). destruct A12 as (_ & A12 & _). lia. }
  destruct (tok_eqb (kind st2) TRBracket).
  - destruct (bump_ok _ I2) as (I3 & A3 & _).
    pose proof (adv_trans _ _ _ A12 A3) as A.
    apply primary_then_cont; try assumption.
    + cbn [expr_wf]. split; assumption.
    + cbn. lia.
    + cbn. destruct A3 as (_ & A3 & _). exact A3.
    + destruct A as (_ & _ & A). lia.
  - destruct (emit_here_ok SExpectedRBracket lbl_rbracket _ I2) as (I3 & A3 & C3 & _).
    pose proof (adv_trans _ _ _ A12 A3) as A.
    assert (E3 : cend (emit_here SExpectedRBracket lbl_rbracket st2) = cend st2) by (unfold cend; rewrite C3; reflexivity).
    apply primary_then_cont; try assumption.
    + cbn [expr_wf]. rewrite E3. split; assumption.
    + cbn. lia.
    + cbn. lia.
    + destruct A as (_ & _ & A). lia.
Qed.

Lemma parse_expression_step v m st :
  inv st -> 3 * size st + 2 <= S f -> expr_post st (parse_expression (S f) v m st).
Proof.
  intros I F. assert (F' : 3 * size st + 1 <= f) by lia.
  rewrite parse_expression_S. cbv zeta.
  destruct (kind st) eqn:K;
    try (apply error_arm; assumption);
    try (apply literal_arm; [assumption | assumption | cbn [expr_wf]; apply inv_cspan; assumption | reflexivity]).
  - apply unary_arm; try assumption. rewrite K. discriminate.
  - apply unary_arm; try assumption. rewrite K. discriminate.
  - apply paren_arm; try assumption. rewrite K. discriminate.
  - apply array_arm; try assumption. rewrite K. discriminate.
Qed.

(* the span (start of lhs, end of the current token of a later state) *)
Lemma lhs_span lhs st st' :
  expr_wf lhs -> snd (span_of lhs) <= cend st -> inv st' -> adv st st' ->
  span_wf0 (fst (span_of lhs), cend st').
Proof.
  intros W L I' A. destruct (expr_wf_span _ W) as (G1 & G2 & L0).
  refine (conj G1 (conj (inv_good_end _ I') _)). cbn [fst snd]. destruct A as (_ & A & _). lia.
Qed.

Lemma continuation_step v lhs m st :
  inv st -> expr_wf lhs -> snd (span_of lhs) <= cend st -> 3 * size st + 1 <= S f ->
  cont_post lhs st (continuation (S f) v lhs m st).
Proof.
  intros I W L F.
  assert (STOP : cont_post lhs st (Done (lhs, st))).
  { exists lhs, st. refine (conj eq_refl (conj I (conj (adv_refl _) (conj W (conj eq_refl L))))). }
  rewrite continuation_S. cbv zeta.
  destruct (tok_eqb (kind st) TDot) eqn:KD.
  { (* .field *)
    apply tok_eqb_eq in KD. assert (N : kind st <> TEOF) by (rewrite KD; discriminate).
    destruct (bump_ok _ I) as (I1 & A1 & L1 & P1 & _). specialize (P1 N).
    pose proof (name_or_placeholder_ok (cspan (bump st)) lbl_ident_after_dot _ I1 (inv_cspan _ I1)) as NP.
    destruct (name_or_placeholder (cspan (bump st)) lbl_ident_after_dot (bump st)) as (field, st2).
    cbn [snd] in NP. destruct NP as (I2 & A2 & _).
    destruct (bump_ok _ I2) as (I3 & A3 & _).
    pose proof (adv_trans _ _ _ A1 (adv_trans _ _ _ A2 A3)) as A.
    set (lhs' := XMember lhs field (cspan (bump st)) (fst (span_of lhs), cend (bump st2))).
    assert (W' : expr_wf lhs').
    { cbn [expr_wf lhs']. refine (conj W (conj (inv_cspan _ I1) _)). eapply lhs_span; eassumption. }
    destruct (IHc v lhs' m (bump st2) I3 W' ltac:(cbn; lia) ltac:(unfold adv in *; lia))
      as (e & st' & R & I' & A' & We & S1 & S2).
    exists e, st'. refine (conj R (conj I' (conj (adv_trans _ _ _ A A') (conj We (conj _ S2))))).
    rewrite S1. reflexivity. }
  destruct (tok_eqb (kind st) TLParen) eqn:KP.
  { (* (args) *)
    apply tok_eqb_eq in KP. assert (N : kind st <> TEOF) by (rewrite KP; discriminate).
    destruct (bump_ok _ I) as (I1 & A1 & L1 & P1 & _). specialize (P1 N).
    set (st1 := bump st) in *.
    assert (LP : list_post st1 (if tok_eqb (kind st1) TRParen then Done ([], st1)
                                else exprs_loop f v TRParen GenPratt.arg_bp st1)).
    { destruct (tok_eqb (kind st1) TRParen).
      - exists [], st1. refine (conj eq_refl (conj I1 (conj (adv_refl _) Logic.I))).
      - apply IHl; [assumption | lia]. }
    destruct LP as (args & st2 & R & I2 & A2 & Wa). rewrite R.
    destruct (expect_here_ok TRParen SExpectedRParen lbl_rparen _ I2) as (I3 & A3).
    pose proof (adv_trans _ _ _ A1 (adv_trans _ _ _ A2 A3)) as A.
    set (st3 := expect_here TRParen SExpectedRParen lbl_rparen st2) in *.
    set (lhs' := XCall lhs args (fst (span_of lhs), cend st3)).
    assert (W' : expr_wf lhs').
    { cbn [expr_wf lhs']. refine (conj W (conj Wa _)). eapply lhs_span; eassumption. }
    destruct (IHc v lhs' m st3 I3 W' ltac:(cbn; lia) ltac:(unfold adv in *; lia))
      as (e & st' & R' & I' & A' & We & S1 & S2).
    exists e, st'. refine (conj R' (conj I' (conj (adv_trans _ _ _ A A') (conj We (conj _ S2))))).
    rewrite S1. reflexivity. }
  destruct (tok_eqb (kind st) TLBracket) eqn:KB.
  { (* [index] *)
    apply tok_eqb_eq in KB. assert (N : kind st <> TEOF) by (rewrite KB; discriminate).
    destruct (bump_ok _ I) as (I1 & A1 & L1 & P1 & _). specialize (P1 N).
    destruct (IHe v GenPratt.index_bp _ I1 ltac:(lia)) as (idx & st2 & R & I2 & A2 & Wi & _ & _).
    rewrite R.
    assert (S3 : exists st3, (if tok_eqb (kind st2) TRBracket then bump st2
                              else emit_here SExpectedRBracket lbl_rbracket st2) = st3 /\
                             inv st3 /\ adv st2 st3).
    { eexists. split; [reflexivity|]. destruct (tok_eqb (kind st2) TRBracket).
      - destruct (bump_ok _ I2) as (X & Y & _). auto.
      - destruct (emit_here_ok SExpectedRBracket lbl_rbracket _ I2) as (X & Y & _). auto. }
    destruct S3 as (st3 & E3 & I3 & A3). rewrite E3.
    pose proof (adv_trans _ _ _ A1 A2) as A12.
    pose proof (adv_trans _ _ _ A12 A3) as A.
    set (lhs' := XIdx lhs idx (cstart st, cend st2) (fst (span_of lhs), cend st2)).
    assert (W' : expr_wf lhs').
    { cbn [expr_wf lhs']. refine (conj W (conj Wi (conj _ _))).
      - apply mk_span; try assumption. pose proof (inv_le _ I). destruct A12 as (_ & A12 & _). lia.
      - eapply lhs_span; eassumption. }
    destruct (IHc v lhs' m st3 I3 W' ltac:(cbn; unfold adv in *; lia)
                ltac:(unfold adv in *; lia))
      as (e & st' & R' & I' & A' & We & S1 & S2).
    exists e, st'. refine (conj R' (conj I' (conj (adv_trans _ _ _ A A') (conj We (conj _ S2))))).
    rewrite S1. reflexivity. }
  destruct (binop_of_tok (kind st)) as [op|] eqn:KO; [|exact STOP].
  destruct (l_bp op <? m)%Z; [exact STOP|].
  assert (N : kind st <> TEOF) by (intro E; rewrite E in KO; vm_compute in KO; discriminate KO).
  destruct (bump_ok _ I) as (I1 & A1 & L1 & P1 & _). specialize (P1 N).
  destruct (IHe v (r_bp op) _ I1 ltac:(lia)) as (rhs & st2 & R & I2 & A2 & Wr & _ & _).
  rewrite R. pose proof (adv_trans _ _ _ A1 A2) as A.
  set (lhs' := XBin op lhs rhs (fst (span_of lhs), cend st2)).
  assert (W' : expr_wf lhs').
  { cbn [expr_wf lhs']. refine (conj W (conj Wr _)). eapply lhs_span; eassumption. }
  destruct (IHc v lhs' m st2 I2 W' ltac:(cbn; lia) ltac:(unfold adv in *; lia))
    as (e & st' & R' & I' & A' & We & S1 & S2).
  exists e, st'. refine (conj R' (conj I' (conj (adv_trans _ _ _ A A') (conj We (conj _ S2))))).
  rewrite S1. reflexivity.
Qed.

Lemma exprs_loop_step v closer bp st :
  inv st -> 3 * size st + 3 <= S f -> list_post st (exprs_loop (S f) v closer bp st).
Proof.
  intros I F. rewrite exprs_loop_S.
  destruct (IHe v bp st I ltac:(lia)) as (e & st1 & R & I1 & A1 & W & _ & _). rewrite R.
  destruct (tok_eqb (kind st1) TComma) eqn:KC.
  - apply tok_eqb_eq in KC. assert (N : kind st1 <> TEOF) by (rewrite KC; discriminate).
    destruct (bump_ok _ I1) as (I2 & A2 & _ & P2 & _). specialize (P2 N). cbv zeta.
    pose proof (adv_trans _ _ _ A1 A2) as A.
    destruct (tok_eqb (kind (bump st1)) closer).
    + exists [e], (bump st1). refine (conj eq_refl (conj I2 (conj A (conj W Logic.I)))).
    + destruct (IHl v closer bp (bump st1) I2 ltac:(unfold adv in *; lia))
        as (es & st3 & R3 & I3 & A3 & Ws).
      rewrite R3. exists (e :: es), st3.
      refine (conj eq_refl (conj I3 (conj (adv_trans _ _ _ A A3) (conj W Ws)))).
  - exists [e], st1. refine (conj eq_refl (conj I1 (conj A1 (conj W Logic.I)))).
Qed.

End ExprStep.

Lemma expr_total : forall f, expr_total_at f.
Proof.
  induction f as [|f IH].
  - refine (conj _ (conj _ _)); intros; lia.
  - refine (conj _ (conj _ _)); intros.
    + apply parse_expression_step; assumption.
    + apply continuation_step; assumption.
    + apply exprs_loop_step; assumption.
Qed.


(* ------------------------------------------------------------------ statements *)

Definition stmt_post (st : pstate) (r : presult (sstmt * pstate)) : Prop :=
  exists s st', r = Done (s, st') /\ inv st' /\ adv st st' /\ stmt_wf s /\
    (kind st <> TEOF -> size st' < size st).

Definition stmts_post (st : pstate) (r : presult (list sstmt * pstate)) : Prop :=
  exists ss st', r = Done (ss, st') /\ inv st' /\ adv st st' /\ allP stmt_wf ss.

Definition blk_post (st : pstate) (r : presult (list sstmt * span * pstate)) : Prop :=
  exists ss sp st', r = Done (ss, sp, st') /\ inv st' /\ adv st st' /\ allP stmt_wf ss /\ span_wf0 sp.

Definition params_post (st : pstate) (r : presult (list bytes * list span * pstate)) : Prop :=
  exists ps sps st', r = Done (ps, sps, st') /\ inv st' /\ adv st st' /\
    allP (fun sp => span_wf0 sp /\ cstart st <= fst sp) sps.

(* what the statement forms need of the parsers handed to them, on states of size <= n *)
Definition pe_ok (n : nat) (pe : expr_parser) : Prop :=
  forall m st, inv st -> size st <= n -> expr_post st (pe m st).
Definition pc_ok (n : nat) (pc : cont_parser) : Prop :=
  forall lhs m st, inv st -> expr_wf lhs -> snd (span_of lhs) <= cend st -> size st <= n ->
    cont_post lhs st (pc lhs m st).
Definition blk_ok (n : nat) (blk : block_parser) : Prop :=
  forall st, inv st -> size st <= n -> blk_post st (blk st).
Definition pl_ok (n : nat) (pl : params_parser) : Prop :=
  forall st, inv st -> size st <= n -> params_post st (pl st).

Lemma mk_span2 st sp : inv st -> span_wf0 sp -> cstart st <= snd sp -> span_wf0 (cstart st, snd sp).
Proof.
  intros I (_ & G & _) L. refine (conj (inv_good_start _ I) (conj G L)).
Qed.

Ltac adv_lia := unfold adv in *; lia.
Ltac span_tac :=
  first [ assumption
        | apply no_span_wf
        | apply inv_cspan; assumption
        | apply mk_span; [assumption | assumption | adv_lia] ].

Lemma block_body_ok n loop :
  (forall st, inv st -> size st <= n -> stmts_post st (loop st)) -> blk_ok n (block_body loop).
Proof.
  intros H st I S. unfold block_body.
  destruct (H st I S) as (ss & st' & R & I' & A & W). rewrite R.
  exists ss, (cstart st, cend st'), st'.
  refine (conj eq_refl (conj I' (conj A (conj W _)))).
  pose proof (inv_le _ I). span_tac.
Qed.

Lemma parse_return_ok n pe st :
  pe_ok n pe -> inv st -> kind st <> TEOF -> size st <= S n -> stmt_post st (parse_return pe st).
Proof.
  intros PE I N S. unfold parse_return.
  destruct (bump_ok _ I) as (I1 & A1 & L1 & P1 & _). specialize (P1 N).
  pose proof (inv_le _ I) as LE.
  destruct (mem_tok (kind (bump st)) return_stop_toks).
  - exists (YRet None (cstart st, cend (bump st))), (bump st).
    refine (conj eq_refl (conj I1 (conj A1 (conj _ (fun _ => P1))))). cbn [stmt_wf]. span_tac.
  - destruct (PE value_bp _ I1 ltac:(lia)) as (e & st2 & R & I2 & A2 & W & _ & _). rewrite R.
    exists (YRet (Some e) (cstart st, cend st2)), st2.
    refine (conj eq_refl (conj I2 (conj (adv_trans _ _ _ A1 A2) (conj _ (fun _ => _))))).
    + cbn [stmt_wf]. split; [assumption | span_tac].
    + adv_lia.
Qed.

Lemma parse_assignment_ok n pe st :
  pe_ok n pe -> inv st -> kind st <> TEOF -> size st <= S n -> stmt_post st (parse_assignment pe st).
Proof.
  intros PE I N S. unfold parse_assignment.
  destruct (bump_ok _ I) as (I1 & A1 & L1 & P1 & _). specialize (P1 N).
  pose proof (inv_le _ I) as LE. set (st1 := bump st) in *.
  assert (X : exists var var_sp st2,
    (if tok_eqb (kind st1) TIdentifier then (payload st1, cspan st1, st1)
     else if mem_tok (kind st1) reserved_toks then
       (placeholder_name, cspan st1, emit SReservedKeyword (cspan st1) (Some (lbl_reserved (kind st1))) st1)
     else (placeholder_name, no_span, emit SExpectedIdentifier (cspan st) (Some lbl_var_name) st1))
    = (var, var_sp, st2) /\ inv st2 /\ adv st1 st2 /\ span_wf0 var_sp).
  { destruct (tok_eqb (kind st1) TIdentifier).
    - do 3 eexists. refine (conj eq_refl (conj I1 (conj (adv_refl _) _))). span_tac.
    - destruct (mem_tok (kind st1) reserved_toks).
      + destruct (emit_ok SReservedKeyword (cspan st1) (Some (lbl_reserved (kind st1))) _ I1 (inv_cspan _ I1)) as (X & Y & _).
        do 3 eexists. refine (conj eq_refl (conj X (conj Y _))). span_tac.
      + destruct (emit_ok SExpectedIdentifier (cspan st) (Some lbl_var_name) _ I1 (inv_cspan _ I)) as (X & Y & _).
        do 3 eexists. refine (conj eq_refl (conj X (conj Y _))). span_tac. }
  destruct X as (var & var_sp & st2 & E & I2 & A2 & WS). rewrite E.
  destruct (bump_ok _ I2) as (I3 & A3 & _).
  destruct (tok_eqb (kind (bump st2)) TGet).
  - destruct (bump_ok _ I3) as (I4 & A4 & _).
    destruct (PE value_bp _ I4 ltac:(adv_lia)) as (e & st5 & R & I5 & A5 & W & _ & _). rewrite R.
    exists (YMake var var_sp e (cstart st, cend st5)), st5.
    refine (conj eq_refl (conj I5 (conj _ (conj _ (fun _ => _))))); [adv_lia | | adv_lia].
    cbn [stmt_wf]. refine (conj WS (conj W _)). span_tac.
  - exists (YMake var var_sp (XNull var_sp) (cstart st, cend (bump st2))), (bump st2).
    refine (conj eq_refl (conj I3 (conj _ (conj _ (fun _ => _))))); [adv_lia | | adv_lia].
    cbn [stmt_wf expr_wf]. refine (conj WS (conj WS _)). span_tac.
Qed.

Lemma parse_block_stmt_ok n blk st :
  blk_ok n blk -> inv st -> kind st <> TEOF -> size st <= S n -> stmt_post st (parse_block_stmt blk st).
Proof.
  intros BK I N S. unfold parse_block_stmt.
  destruct (bump_ok _ I) as (I1 & A1 & L1 & P1 & _). specialize (P1 N).
  pose proof (inv_le _ I) as LE.
  destruct (BK _ I1 ltac:(lia)) as (ss & bsp & st2 & R & I2 & A2 & W & WB). rewrite R.
  destruct (expect_here_ok TEnd SUnterminatedBlock lbl_end_block _ I2) as (I3 & A3).
  eexists _, _. refine (conj eq_refl (conj I3 (conj _ (conj _ (fun _ => _))))); [adv_lia | | adv_lia].
  cbn [stmt_wf]. refine (conj W (conj WB _)). span_tac.
Qed.

Lemma parse_loop_ok n pe blk st :
  pe_ok n pe -> blk_ok n blk -> inv st -> kind st <> TEOF -> size st <= S n ->
  stmt_post st (parse_loop pe blk st).
Proof.
  intros PE BK I N S. unfold parse_loop.
  destruct (bump_ok _ I) as (I1 & A1 & L1 & P1 & _). specialize (P1 N).
  pose proof (inv_le _ I) as LE.
  destruct (expect_ok TLParen SExpectedLParen (cspan st) lbl_lparen_jasi _ I1 (inv_cspan _ I)) as (I2 & A2).
  destruct (PE cond_bp _ I2 ltac:(adv_lia)) as (c & st3 & R & I3 & A3 & W & C1 & C2). rewrite R.
  assert (SP1 : span_wf0 (cstart st, snd (span_of c))).
  { apply mk_span2; [assumption | apply expr_wf_span; assumption |].
    destruct (expr_wf_span _ W) as (_ & _ & X). adv_lia. }
  destruct (expect_ok TRParen SExpectedRParen _ lbl_rparen _ I3 SP1) as (I4 & A4).
  set (st4 := expect TRParen SExpectedRParen (cstart st, snd (span_of c)) lbl_rparen st3) in *.
  assert (SP2 : span_wf0 (cstart st, cend st3)) by span_tac.
  destruct (expect_ok TStart SExpectedStartBlock _ lbl_start_after_rparen _ I4 SP2) as (I5 & A5).
  destruct (BK _ I5 ltac:(adv_lia)) as (ss & bsp & st6 & R6 & I6 & A6 & WS & WB). rewrite R6.
  assert (SP3 : span_wf0 (cstart st, cend st4)) by span_tac.
  destruct (expect_ok TEnd SUnterminatedBlock _ lbl_end_block _ I6 SP3) as (I7 & A7).
  eexists _, _. refine (conj eq_refl (conj I7 (conj _ (conj _ (fun _ => _))))); [adv_lia | | adv_lia].
  cbn [stmt_wf]. refine (conj W (conj WS (conj WB _))). span_tac.
Qed.

Lemma parse_if_ok n pe blk st :
  pe_ok n pe -> blk_ok n blk -> inv st -> kind st <> TEOF -> size st <= S n ->
  stmt_post st (parse_if pe blk st).
Proof.
  intros PE BK I N S. unfold parse_if.
  destruct (bump_ok _ I) as (I1 & A1 & L1 & P1 & _). specialize (P1 N).
  pose proof (inv_le _ I) as LE.
  destruct (expect_ok TLParen SExpectedLParen (cspan st) lbl_lparen_if _ I1 (inv_cspan _ I)) as (I2 & A2).
  destruct (PE cond_bp _ I2 ltac:(adv_lia)) as (c & st3 & R & I3 & A3 & W & C1 & C2). rewrite R.
  assert (SP1 : span_wf0 (cstart st, snd (span_of c))).
  { apply mk_span2; [assumption | apply expr_wf_span; assumption |].
    destruct (expr_wf_span _ W) as (_ & _ & X). adv_lia. }
  destruct (expect_ok TRParen SExpectedRParen _ lbl_rparen _ I3 SP1) as (I4 & A4).
  set (st4 := expect TRParen SExpectedRParen (cstart st, snd (span_of c)) lbl_rparen st3) in *.
  assert (SP2 : span_wf0 (cstart st, cend st3)) by span_tac.
  destruct (expect_ok TStart SExpectedStartBlock _ lbl_start_after_rparen _ I4 SP2) as (I5 & A5).
  destruct (BK _ I5 ltac:(adv_lia)) as (ss & bsp & st6 & R6 & I6 & A6 & WS & WB). rewrite R6.
  destruct (expect_here_ok TEnd SUnterminatedBlock lbl_end_block _ I6) as (I7 & A7).
  set (st7 := expect_here TEnd SUnterminatedBlock lbl_end_block st6) in *.
  destruct (tok_eqb (kind st7) TIfNotSo).
  - destruct (bump_ok _ I7) as (I8 & A8 & _).
    destruct (expect_ok TStart SExpectedStartBlock (cspan st7) lbl_start_after_else _ I8 (inv_cspan _ I7)) as (I9 & A9).
    destruct (BK _ I9 ltac:(adv_lia)) as (es & ebsp & st10 & R10 & I10 & A10 & WES & WEB). rewrite R10.
    assert (SP4 : span_wf0 (fst (cspan st7), cend (bump st7))).
    { cbn [fst cspan]. pose proof (inv_le _ I7). span_tac. }
    destruct (expect_ok TEnd SUnterminatedBlock _ lbl_end_block _ I10 SP4) as (I11 & A11).
    eexists _, _. refine (conj eq_refl (conj I11 (conj _ (conj _ (fun _ => _))))); [adv_lia | | adv_lia].
    cbn [stmt_wf]. refine (conj W (conj WS (conj WB (conj WES (conj WEB _))))). span_tac.
  - eexists _, _. refine (conj eq_refl (conj I7 (conj _ (conj _ (fun _ => _))))); [adv_lia | | adv_lia].
    cbn [stmt_wf allP]. refine (conj W (conj WS (conj WB (conj Logic.I (conj no_span_wf _))))). span_tac.
Qed.

Lemma last_end_good st sps d :
  allP (fun sp => span_wf0 sp /\ cstart st <= fst sp) sps -> good d -> cstart st <= d ->
  good (last_end sps d) /\ cstart st <= last_end sps d.
Proof.
  intros H G L. unfold last_end.
  assert (H' : allP (fun sp => span_wf0 sp /\ cstart st <= fst sp) (rev sps)).
  { apply allP_Forall. apply Forall_rev. apply allP_Forall. exact H. }
  destruct (rev sps) as [|sp r]; [auto|].
  destruct H' as (((_ & G2 & L2) & L3) & _). split; [assumption | lia].
Qed.

Lemma parse_function_def_ok n pl blk st :
  pl_ok n pl -> blk_ok n blk -> inv st -> kind st <> TEOF -> size st <= S n ->
  stmt_post st (parse_function_def pl blk st).
Proof.
  intros PL BK I N S. unfold parse_function_def.
  destruct (bump_ok _ I) as (I1 & A1 & L1 & P1 & _). specialize (P1 N).
  pose proof (inv_le _ I) as LE.
  pose proof (name_or_placeholder_ok (cspan st) lbl_fn_name _ I1 (inv_cspan _ I)) as NP.
  destruct (name_or_placeholder (cspan st) lbl_fn_name (bump st)) as (name, st2).
  cbn [snd] in NP. destruct NP as (I2 & A2 & _).
  destruct (bump_ok _ I2) as (I3 & A3 & _).
  assert (SP1 : span_wf0 (cstart st, snd (cspan (bump st)))) by (cbn [snd cspan]; span_tac).
  destruct (expect_ok TLParen SExpectedLParen _ lbl_lparen_fn _ I3 SP1) as (I4 & A4).
  set (st4 := expect TLParen SExpectedLParen (cstart st, snd (cspan (bump st))) lbl_lparen_fn (bump st2)) in *.
  destruct (PL _ I4 ltac:(adv_lia)) as (ps & sps & st5 & R5 & I5 & A5 & WP). rewrite R5.
  assert (SP2 : span_wf0 (cstart st, last_end sps (cend (bump st2)))).
  { assert (WP' : allP (fun sp => span_wf0 sp /\ cstart st <= fst sp) sps).
    { apply allP_Forall. apply allP_Forall in WP. eapply Forall_impl; [|exact WP].
      cbn beta. intros sp (X & Y). split; [assumption | adv_lia]. }
    destruct (last_end_good st sps (cend (bump st2)) WP' (inv_good_end _ I3) ltac:(adv_lia)) as (G & L).
    refine (conj (inv_good_start _ I) (conj G L)). }
  destruct (expect_ok TRParen SExpectedRParen _ lbl_rparen _ I5 SP2) as (I6 & A6).
  set (st6 := expect TRParen SExpectedRParen (cstart st, last_end sps (cend (bump st2))) lbl_rparen st5) in *.
  assert (SP3 : span_wf0 (cstart st, cend st5)) by span_tac.
  destruct (expect_ok TStart SExpectedStartBlock _ lbl_start_after_rparen _ I6 SP3) as (I7 & A7).
  destruct (BK _ I7 ltac:(adv_lia)) as (ss & bsp & st8 & R8 & I8 & A8 & WS & WB). rewrite R8.
  assert (SP4 : span_wf0 (cstart st, cend st6)) by span_tac.
  destruct (expect_ok TEnd SUnterminatedBlock _ lbl_end_block _ I8 SP4) as (I9 & A9).
  eexists _, _. refine (conj eq_refl (conj I9 (conj _ (conj _ (fun _ => _))))); [adv_lia | | adv_lia].
  cbn [stmt_wf fst cspan].
  refine (conj SP3 (conj _ (conj WS (conj WB _)))); [|span_tac].
  apply allP_Forall. apply allP_Forall in WP. eapply Forall_impl; [|exact WP]. cbn beta. tauto.
Qed.

Lemma parse_ident_statement_ok n pc pe st :
  pc_ok n pc -> pe_ok n pe -> inv st -> kind st <> TEOF -> size st <= S n ->
  stmt_post st (parse_ident_statement pc pe st).
Proof.
  intros PC PE I N S. unfold parse_ident_statement.
  destruct (bump_ok _ I) as (I1 & A1 & L1 & P1 & _). specialize (P1 N).
  pose proof (inv_le _ I) as LE.
  destruct (PC (XVar (payload st) (cspan st)) GenPratt.stmt_bp _ I1 (inv_cspan _ I)
              ltac:(cbn; adv_lia) ltac:(lia)) as (e & st2 & R & I2 & A2 & W & _ & _).
  rewrite R.
  destruct (tok_eqb (kind st2) TGet).
  - destruct (bump_ok _ I2) as (I3 & A3 & _).
    destruct (PE value_bp _ I3 ltac:(adv_lia)) as (val & st4 & R4 & I4 & A4 & WV & _ & _). rewrite R4.
    assert (SP : span_wf0 (cstart st, cend st4)) by span_tac.
    assert (BAD : stmt_post st (Done (YExpr (XNull no_span) no_span,
                    emit SInvalidAssignmentTarget (cstart st, cend st4) (Some lbl_assign_target) st4))).
    { destruct (emit_ok SInvalidAssignmentTarget _ (Some lbl_assign_target) _ I4 SP) as (I5 & A5 & _).
      eexists _, _. refine (conj eq_refl (conj I5 (conj _ (conj _ (fun _ => _))))); [adv_lia | | adv_lia].
      cbn [stmt_wf expr_wf]. split; apply no_span_wf. }
    destruct e; try exact BAD.
    + eexists _, _. refine (conj eq_refl (conj I4 (conj _ (conj _ (fun _ => _))))); [adv_lia | | adv_lia].
      cbn [stmt_wf]. cbn [expr_wf] in W. auto.
    + eexists _, _. refine (conj eq_refl (conj I4 (conj _ (conj _ (fun _ => _))))); [adv_lia | | adv_lia].
      cbn [stmt_wf]. auto.
  - eexists _, _. refine (conj eq_refl (conj I2 (conj _ (conj _ (fun _ => _))))); [adv_lia | | adv_lia].
    cbn [stmt_wf]. split; [assumption | span_tac].
Qed.

(* the recovery of the default arm progresses because it bumps first *)
Lemma statement_error_ok v st :
  v_stmt_error_bumps v = true -> inv st -> stmt_post st (statement_error v st).
Proof.
  intros B I. unfold statement_error. rewrite B.
  destruct (emit_here_ok SExpectedStatement lbl_statement _ I) as (I1 & A1 & C1 & R1).
  destruct (bump_ok _ I1) as (I2 & A2 & _ & P2 & _).
  destruct (synchronize_ok _ I2) as (I3 & A3).
  eexists _, _. refine (conj eq_refl (conj I3 (conj _ (conj _ (fun N => _))))); [adv_lia | |].
  - cbn [stmt_wf expr_wf]. split; apply no_span_wf.
  - assert (N' : kind (emit_here SExpectedStatement lbl_statement st) <> TEOF) by (rewrite (kind_of_cur _ _ C1); exact N).
    specialize (P2 N'). adv_lia.
Qed.

Lemma params_loop_ok : forall f st, inv st -> size st < f -> params_post st (params_loop f st).
Proof.
  induction f as [|f IH]; intros st I F; [lia|].
  rewrite params_loop_S. cbv zeta.
  assert (NEXT : forall name st1, inv st1 -> adv st st1 -> size st1 < size st ->
    params_post st
      (if tok_eqb (kind st1) TComma then
         let* (ps, sps, st2) := params_loop f (bump st1) in Done (name :: ps, cspan st :: sps, st2)
       else Done ([name], [cspan st], st1))).
  { intros name st1 I1 A1 P1.
    destruct (tok_eqb (kind st1) TComma) eqn:KC.
    - destruct (bump_ok _ I1) as (I2 & A2 & _).
      destruct (IH _ I2 ltac:(adv_lia)) as (ps & sps & st3 & R & I3 & A3 & W). rewrite R.
      eexists _, _, _. refine (conj eq_refl (conj I3 (conj _ _))); [adv_lia|].
      cbn [allP]. refine (conj (conj (inv_cspan _ I) _) _); [cbn; lia|].
      apply allP_Forall. apply allP_Forall in W. eapply Forall_impl; [|exact W].
      cbn beta. intros sp (X & Y). split; [assumption | adv_lia].
    - eexists _, _, _. refine (conj eq_refl (conj I1 (conj A1 _))).
      cbn [allP]. refine (conj (conj (inv_cspan _ I) _) Logic.I). cbn. lia. }
  destruct (tok_eqb (kind st) TIdentifier) eqn:KI.
  - apply tok_eqb_eq in KI. assert (N : kind st <> TEOF) by (rewrite KI; discriminate).
    destruct (bump_ok _ I) as (I1 & A1 & _ & P1 & _). apply NEXT; auto.
  - destruct (mem_tok (kind st) reserved_toks) eqn:KR.
    + assert (N : kind st <> TEOF) by (intro E; rewrite E in KR; vm_compute in KR; discriminate KR).
      destruct (emit_ok SReservedKeyword (cspan st) (Some (lbl_reserved (kind st))) _ I (inv_cspan _ I))
        as (I0 & A0 & C0 & R0).
      destruct (bump_ok _ I0) as (I1 & A1 & _ & P1 & _).
      assert (N' : kind (emit SReservedKeyword (cspan st) (Some (lbl_reserved (kind st))) st) <> TEOF)
        by (rewrite (kind_of_cur _ _ C0); exact N).
      specialize (P1 N'). apply NEXT; [assumption | adv_lia | adv_lia].
    + eexists _, _, _. refine (conj eq_refl (conj I (conj (adv_refl _) Logic.I))).
Qed.

Definition stmt_total_at (v : pvariant) (f : nat) : Prop :=
  (forall st, inv st -> 3 * size st + 1 <= f -> stmt_post st (parse_statement f v st)) /\
  (forall st, inv st -> 3 * size st + 2 <= f -> stmts_post st (block_loop f v st)).

Lemma stmt_total v : v_stmt_error_bumps v = true -> forall f, stmt_total_at v f.
Proof.
  intros B. induction f as [|f (IHs & IHb)].
  - split; intros; lia.
  - split.
    + intros st I F. rewrite parse_statement_S. cbv zeta.
      destruct (tok_eqb (kind st) TEOF) eqn:KE.
      { apply tok_eqb_eq in KE. rewrite KE. apply statement_error_ok; assumption. }
      apply tok_eqb_neq in KE.
      assert (SZ : 1 <= size st).
      { unfold size. apply tok_eqb_neq in KE. rewrite KE. lia. }
      set (n := size st - 1).
      assert (PE : pe_ok n (parse_expression f v)).
      { intros m st' I' S'. apply (proj1 (expr_total f)); [assumption | lia]. }
      assert (PC : pc_ok n (continuation f v)).
      { intros lhs m st' I' W' L' S'. apply (proj1 (proj2 (expr_total f))); try assumption. lia. }
      assert (BK : blk_ok n (block_body (block_loop f v))).
      { apply block_body_ok. intros st' I' S'. apply IHb; [assumption | lia]. }
      assert (PL : pl_ok n (params_loop f)).
      { intros st' I' S'. apply params_loop_ok; [assumption | lia]. }
      assert (SN : size st <= S n) by lia.
      destruct (kind st) eqn:K; try (apply statement_error_ok; assumption);
        try (rewrite <- K in KE).
      * apply parse_ident_statement_ok with (n := n); assumption.
      * apply parse_assignment_ok with (n := n); assumption.
      * apply parse_loop_ok with (n := n); assumption.
      * apply parse_block_stmt_ok with (n := n); assumption.
      * (* comot *)
        destruct (bump_ok _ I) as (I1 & A1 & _ & P1 & _). pose proof (inv_le _ I).
        eexists _, _. refine (conj eq_refl (conj I1 (conj A1 (conj _ (fun _ => P1 KE))))).
        cbn [stmt_wf]. span_tac.
      * (* next *)
        destruct (bump_ok _ I) as (I1 & A1 & _ & P1 & _). pose proof (inv_le _ I).
        eexists _, _. refine (conj eq_refl (conj I1 (conj A1 (conj _ (fun _ => P1 KE))))).
        cbn [stmt_wf]. span_tac.
      * apply parse_if_ok with (n := n); assumption.
      * apply parse_function_def_ok with (n := n); assumption.
      * apply parse_return_ok with (n := n); assumption.
    + intros st I F. rewrite block_loop_S.
      destruct (mem_tok (kind st) block_stop_toks) eqn:KS.
      * exists [], st. refine (conj eq_refl (conj I (conj (adv_refl _) Logic.I))).
      * assert (N : kind st <> TEOF) by (intro E; rewrite E in KS; vm_compute in KS; discriminate KS).
        destruct (IHs st I ltac:(lia)) as (s & st1 & R & I1 & A1 & W & P). rewrite R. specialize (P N).
        destruct (IHb st1 I1 ltac:(lia)) as (ss & st2 & R2 & I2 & A2 & WS). rewrite R2.
        exists (s :: ss), st2. refine (conj eq_refl (conj I2 (conj (adv_trans _ _ _ A1 A2) (conj W WS)))).
Qed.

Lemma program_loop_ok v : v_stmt_error_bumps v = true ->
  forall f st, inv st -> 3 * size st + 2 <= f -> stmts_post st (program_loop f v st).
Proof.
  intros B. induction f as [|f IH]; intros st I F; [lia|].
  rewrite program_loop_S.
  destruct (mem_tok (kind st) stmt_start_toks) eqn:KS.
  - assert (N : kind st <> TEOF) by (intro E; rewrite E in KS; vm_compute in KS; discriminate KS).
    destruct (proj1 (stmt_total v B f) st I ltac:(lia)) as (s & st1 & R & I1 & A1 & W & P). rewrite R.
    specialize (P N).
    destruct (IH st1 I1 ltac:(lia)) as (ss & st2 & R2 & I2 & A2 & WS). rewrite R2.
    exists (s :: ss), st2. refine (conj eq_refl (conj I2 (conj (adv_trans _ _ _ A1 A2) (conj W WS)))).
  - exists [], st. refine (conj eq_refl (conj I (conj (adv_refl _) Logic.I))).
Qed.

(* ------------------------------------------------------------------ parse_program *)

Lemma init_inv ts : chain 0 ts -> inv (init ts) /\ size (init ts) <= length ts.
Proof.
  intro C. destruct ts as [|t r]; cbn [init].
  - split; [|cbn; lia]. unfold inv. cbn. unfold tok_ok, span_wf0. cbn. auto 10.
  - destruct C as (_ & T & C). split.
    + unfold inv. cbn [cur rest errs allP]. unfold cend. cbn [cur]. auto.
    + unfold size, kind. cbn [cur rest length]. destruct (tok_eqb (t_kind t) TEOF); lia.
Qed.

Theorem parse_program_total v ts :
  v_stmt_error_bumps v = true -> chain 0 ts ->
  exists p, parse_program v ts = Done p /\
    allP stmt_wf (p_stmts p) /\ span_wf0 (p_span p) /\ allP diag_ok (p_diags p) /\
    p_pulled p <= length ts.
Proof.
  intros B C. unfold parse_program, parse_from, program_fuel.
  destruct (init_inv ts C) as (I0 & S0).
  destruct (program_loop_ok v B (3 * length ts + 4) (init ts) I0 ltac:(lia)) as (ss & st1 & R & I1 & A1 & W).
  rewrite R. eexists. split; [reflexivity|]. cbn [p_stmts p_span p_diags p_pulled].
  refine (conj W (conj _ (conj _ _))).
  - pose proof (inv_le _ I0). span_tac.
  - assert (E : allP diag_ok (errs (if tok_eqb (kind st1) TEOF then st1
                  else emit STrailingTokensAfterProgramEnd (cspan st1) None st1))).
    { destruct (tok_eqb (kind st1) TEOF).
      - apply I1.
      - destruct (emit_ok STrailingTokensAfterProgramEnd (cspan st1) None _ I1 (inv_cspan _ I1)) as (X & _). apply X. }
    apply allP_Forall. apply Forall_rev. apply allP_Forall. exact E.
  - lia.
Qed.

End Total.
