(* ParserReparse — print / parse round trip for whole programs, first fragment: a program that is a
   sequence of declarations `make <name> get <expression>`.  The canonical printer writes each
   expression with Pratt.print (parentheses exactly where the generated binding powers need them,
   plus any redundant ones); parse_program gives the declarations back, silently, and uses every
   token.  (The general statement — every statement form, nested blocks — is not proved.) *)
From Coq Require Import ZArith List Bool Arith Lia.
Require Import NS.theories.Utf8 NS.theories.GenLexer NS.theories.Lexer NS.theories.GenParser NS.theories.Parser.
Require Import NS.proofs.ParserProofs NS.proofs.ParserPratt NS.proofs.ParserTheorems.
Require NS.theories.Lang NS.theories.GenPratt NS.theories.Pratt NS.proofs.PrattProofs.
Import ListNotations.
Open Scope nat_scope.

Definition decl := (bytes * Pratt.aexpr)%type.

(* the printed form of one declaration / of a program, as the expression model sees tokens *)
Definition decl_ptoks (d : decl) : list Pratt.ptok :=
  Pratt.TOther (tok_name TMake) :: Pratt.TIdent (fst d) :: Pratt.TOther (tok_name TGet) :: Pratt.print (snd d).
Definition prog_ptoks (ds : list decl) : list Pratt.ptok := flat_map decl_ptoks ds.

(* statement s is the declaration d *)
Definition is_decl (s : sstmt) (d : decl) : Prop :=
  exists xsp se sp, s = YMake (fst d) xsp se sp /\ abs_expr se = Pratt.erase (snd d).

Lemma abs_make_inv t : abs_tok t = Pratt.TOther (tok_name TMake) -> t_kind t = TMake.
Proof. unfold abs_tok. destruct (t_kind t); cbn; intro H; try discriminate H; reflexivity. Qed.

Lemma abs_get_inv t : abs_tok t = Pratt.TOther (tok_name TGet) -> t_kind t = TGet.
Proof. unfold abs_tok. destruct (t_kind t); cbn; intro H; try discriminate H; reflexivity. Qed.

(* a declaration (or nothing) after an expression does not continue it *)
Lemma prog_stops k ds : PrattProofs.stops k (prog_ptoks ds).
Proof. destruct ds as [|d r]; cbn; auto. Qed.

Lemma decls_loop v : forall ds f st,
  clean st -> ptoks st = prog_ptoks ds -> 3 * length (ptoks st) + 2 <= f ->
  exists ss st', program_loop f v st = Done (ss, st') /\ Forall2 is_decl ss ds /\
                 kind st' = TEOF /\ rest st' = [] /\ errs st' = errs st.
Proof.
  induction ds as [|d ds IH]; intros f st C P F.
  - (* no declaration left: the parser is at the end *)
    cbn in P. pose proof (ptoks_nil _ C P) as K.
    destruct f as [|f]; [lia|]. rewrite program_loop_S, K.
    cbn [mem_tok existsb stmt_start_toks tok_eqb tok_index Z.eqb Pos.eqb orb].
    exists [], st. destruct C as (_ & C).
    exact (conj eq_refl (conj (Forall2_nil _) (conj K (conj (C K) eq_refl)))).
  - cbn [prog_ptoks flat_map] in P. fold (prog_ptoks ds) in P. unfold decl_ptoks in P. cbn [app] in P.
    set (rest_p := prog_ptoks ds) in *.
    (* make *)
    destruct (ptoks_head _ _ _ C P) as (N0 & A0 & R0).
    pose proof (abs_make_inv _ (eq_sym A0)) as K0.
    destruct (bump_clean _ C N0) as (C1 & P1 & E1). rewrite <- R0 in P1.
    (* name *)
    destruct (ptoks_head _ _ _ C1 P1) as (N1 & A1 & R1).
    pose proof (abs_tok_inv (cur (bump st))) as INV. rewrite <- A1 in INV. destruct INV as (K1 & X1).
    destruct (bump_clean _ C1 N1) as (C2 & P2 & E2). rewrite <- R1 in P2.
    (* get *)
    destruct (ptoks_head _ _ _ C2 P2) as (N2 & A2 & R2).
    pose proof (abs_get_inv _ (eq_sym A2)) as K2.
    destruct (bump_clean _ C2 N2) as (C3 & P3 & E3). rewrite <- R2 in P3.
    set (stE := bump (bump (bump st))) in *.
    (* the expression, followed by the remaining declarations *)
    assert (LEN : length (ptoks st) = 3 + length (ptoks stE)) by (rewrite P, P3; reflexivity).
    destruct f as [|f1]; [lia|]. destruct f1 as [|f2]; [lia|].
    assert (PR : Pratt.parse_expr f2 0 (ptoks stE) = Pratt.POk (Pratt.erase (snd d), rest_p)).
    { rewrite P3.
      destruct (proj1 PrattProofs.roundtrip_main (snd d) 0%Z 0%Z rest_p (Pratt.erase (snd d), rest_p) 1)
        as (f0 & Hf0).
      - lia.
      - pose proof (PrattProofs.tf_un_pos PrattProofs.the_table Lang.Not).
        pose proof (PrattProofs.post_ctx_gt_un Lang.Not). lia.
      - unfold PrattProofs.cond. destruct (PrattProofs.opn 0 (snd d)); [apply prog_stops | exact I].
      - apply PrattProofs.stops_cont. apply prog_stops.
      - apply PrattProofs.parse_expr_any_fuel in Hf0.
        eapply PrattProofs.mono_parse_expr; [|exact Hf0].
        unfold Pratt.print in P3. rewrite <- P3. lia. }
    destruct (proj1 (sim f2) v 0%Z stE _ _ C3 PR) as (se & st' & RE & AE & PE & CE & EE).
    (* run the statement *)
    rewrite program_loop_S. unfold kind at 1. rewrite K0.
    cbn [mem_tok existsb stmt_start_toks tok_eqb tok_index Z.eqb Pos.eqb orb].
    rewrite parse_statement_S. cbv zeta. unfold kind at 1. rewrite K0.
    unfold parse_assignment. unfold kind at 1. rewrite K1. cbn [tok_eqb tok_index Z.eqb Pos.eqb].
    unfold kind at 1. rewrite K2. cbn [tok_eqb tok_index Z.eqb Pos.eqb].
    change value_bp with 0%Z. fold stE. rewrite RE.
    (* the remaining declarations *)
    destruct (IH (S f2) st' CE PE ltac:(rewrite PE; rewrite P in F; cbn [length] in F;
                                          rewrite app_length in F; lia))
      as (ss & st'' & RL & FL & KL & RR & EL).
    rewrite RL. eexists _, st''. split; [reflexivity|].
    refine (conj _ (conj KL (conj RR _))).
    + constructor; [|exact FL]. unfold is_decl. eexists _, se, _. split; [|exact AE].
      unfold payload. rewrite X1. reflexivity.
    + rewrite EL, EE, E3, E2, E1. reflexivity.
Qed.

(* parse (print ds) = ds: whatever tokens spell the printed program *)
Theorem declarations_reparse : forall v (ds : list decl) ts, no_eof ts ->
  map abs_tok ts = prog_ptoks ds ->
  exists p, parse_program v ts = Done p /\ p_diags p = [] /\ Forall2 is_decl (p_stmts p) ds /\
            p_pulled p = length ts.
Proof.
  intros v ds ts NE H. destruct (init_clean ts NE) as (C & PT & E0).
  unfold parse_program, parse_from, program_fuel.
  destruct (decls_loop v ds (3 * length ts + 4) (init ts) C ltac:(rewrite PT; exact H)
              ltac:(rewrite PT, map_length; lia)) as (ss & st' & R & FL & K & RR & E).
  rewrite R. rewrite K. cbn [tok_eqb tok_index Z.eqb Pos.eqb].
  eexists. split; [reflexivity|]. cbn [p_diags p_stmts p_pulled]. rewrite E, E0, RR.
  refine (conj eq_refl (conj FL _)). cbn [length]. lia.
Qed.

(* ---- in the shape "parse, print, parse again": for a tree that consists of declarations, the
   canonical print of the tree (no redundant parentheses: Pratt.embed) parses back to it *)
Definition decl_of (s : sstmt) : option (bytes * Pratt.pexpr) :=
  match s with YMake x _ e _ => Some (x, abs_expr e) | _ => None end.

Definition canonical_ptoks (des : list (bytes * Pratt.pexpr)) : list Pratt.ptok :=
  prog_ptoks (map (fun d => (fst d, Pratt.embed (snd d))) des).

Lemma is_decl_of s d : is_decl s d -> decl_of s = Some (fst d, Pratt.erase (snd d)).
Proof. intros (xsp & se & sp & -> & A). cbn [decl_of]. rewrite A. reflexivity. Qed.

Theorem accepted_programs_reparse_partial : forall v ss des,
  map decl_of ss = map Some des ->
  forall ts, no_eof ts -> map abs_tok ts = canonical_ptoks des ->
  exists p, parse_program v ts = Done p /\ p_diags p = [] /\
            map decl_of (p_stmts p) = map decl_of ss /\ p_pulled p = length ts.
Proof.
  intros v ss des HS ts NE H.
  destruct (declarations_reparse v _ ts NE H) as (p & R & D & F & PL).
  exists p. refine (conj R (conj D (conj _ PL))). rewrite HS.
  clear - F. remember (p_stmts p) as l eqn:E. clear E. revert l F.
  induction des as [|d r IH]; intros l F; cbn [map] in F; inversion F as [|s d' l' r' H1 H2]; subst; [reflexivity|].
  cbn [map]. rewrite (is_decl_of _ _ H1). cbn [fst snd]. rewrite PrattProofs.erase_embed.
  rewrite (IH _ H2). destruct d; reflexivity.
Qed.
