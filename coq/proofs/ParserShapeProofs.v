(* ParserShapeProofs — every syntax tree the parser model returns has index expressions as
   index-assignment targets, and so has its named Lang AST (Parser.to_lang). *)
From Coq Require Import ZArith List Bool Lia.
Require Import NS.theories.GenLexer NS.theories.Lexer NS.theories.GenParser.
Require Import NS.theories.F64 NS.theories.Lang NS.theories.WfStatic NS.theories.Parser NS.theories.ParserShape.
Require Import NS.theories.RulesWf.
Require Import NS.proofs.ParserProofs.
Import ListNotations.

Definition blk_shape (blk : block_parser) : Prop :=
  forall st ss sp st', blk st = Done (ss, sp, st') -> forallb yidx ss = true.

Lemma block_body_shape loop :
  (forall st ss st', loop st = Done (ss, st') -> forallb yidx ss = true) -> blk_shape (block_body loop).
Proof.
  intros H st ss sp st' E. unfold block_body in E.
  destruct (loop st) as [[ss0 st0]|] eqn:El; [| discriminate E]. inversion E; subst. exact (H _ _ _ El).
Qed.

Lemma parse_function_def_shape pl blk st s st' :
  blk_shape blk -> parse_function_def pl blk st = Done (s, st') -> yidx s = true.
Proof.
  intros HB E. unfold parse_function_def in E. cbv zeta in E.
  destruct (name_or_placeholder _ _ _) as [name st2].
  destruct (pl _) as [[[ps sps] st5]|]; [| discriminate E].
  destruct (blk _) as [[[body bsp] st8]|] eqn:Eb; [| discriminate E].
  inversion E; subst. cbn [yidx]. exact (HB _ _ _ _ Eb).
Qed.

Lemma parse_return_shape pe st s st' : parse_return pe st = Done (s, st') -> yidx s = true.
Proof.
  intro E. unfold parse_return in E. cbv zeta in E.
  destruct (mem_tok _ _); [inversion E; reflexivity|].
  destruct (pe _ _) as [[e st2]|]; [| discriminate E]. inversion E; reflexivity.
Qed.

Lemma parse_assignment_shape pe st s st' : parse_assignment pe st = Done (s, st') -> yidx s = true.
Proof.
  intro E. unfold parse_assignment in E. cbv zeta in E.
  destruct (if tok_eqb _ TIdentifier then _ else _) as [[var var_sp] st2].
  destruct (tok_eqb _ TGet).
  - destruct (pe _ _) as [[e st4]|]; [| discriminate E]. inversion E; reflexivity.
  - inversion E; reflexivity.
Qed.

Lemma parse_if_shape pe blk st s st' :
  blk_shape blk -> parse_if pe blk st = Done (s, st') -> yidx s = true.
Proof.
  intros HB E. unfold parse_if in E. cbv zeta in E.
  destruct (pe _ _) as [[cond st3]|]; [| discriminate E].
  destruct (blk _) as [[[tb tsp] st6]|] eqn:Et; [| discriminate E].
  destruct (tok_eqb _ TIfNotSo).
  - destruct (blk _) as [[[eb esp] st10]|] eqn:Ee in E; [| discriminate E].
    inversion E; subst. cbn [yidx]. rewrite (HB _ _ _ _ Et), (HB _ _ _ _ Ee). reflexivity.
  - inversion E; subst. cbn [yidx forallb]. rewrite (HB _ _ _ _ Et). reflexivity.
Qed.

Lemma parse_loop_shape pe blk st s st' :
  blk_shape blk -> parse_loop pe blk st = Done (s, st') -> yidx s = true.
Proof.
  intros HB E. unfold parse_loop in E. cbv zeta in E.
  destruct (pe _ _) as [[cond st3]|]; [| discriminate E].
  destruct (blk _) as [[[body bsp] st6]|] eqn:Eb; [| discriminate E].
  inversion E; subst. cbn [yidx]. exact (HB _ _ _ _ Eb).
Qed.

Lemma parse_block_stmt_shape blk st s st' :
  blk_shape blk -> parse_block_stmt blk st = Done (s, st') -> yidx s = true.
Proof.
  intros HB E. unfold parse_block_stmt in E. cbv zeta in E.
  destruct (blk _) as [[[body bsp] st2]|] eqn:Eb; [| discriminate E].
  inversion E; subst. cbn [yidx]. exact (HB _ _ _ _ Eb).
Qed.

(* the only producer of YSetIdx: the parsed assignment target is an XIdx *)
Lemma parse_ident_statement_shape pc pe st s st' :
  parse_ident_statement pc pe st = Done (s, st') -> yidx s = true.
Proof.
  intro E. unfold parse_ident_statement in E. cbv zeta in E.
  destruct (pc _ _ _) as [[e st2]|]; [| discriminate E].
  destruct (tok_eqb _ TGet).
  - destruct (pe _ _) as [[val st4]|]; [| discriminate E].
    destruct e; inversion E; reflexivity.
  - inversion E; reflexivity.
Qed.

Lemma statement_error_shape v st s st' : statement_error v st = Done (s, st') -> yidx s = true.
Proof. intro E. unfold statement_error in E. inversion E; reflexivity. Qed.

Lemma stmt_shape v : forall f,
  (forall st s st', parse_statement f v st = Done (s, st') -> yidx s = true) /\
  (forall st ss st', block_loop f v st = Done (ss, st') -> forallb yidx ss = true).
Proof.
  induction f as [|f [IHs IHb]]; [split; intros; discriminate|]. split.
  - intros st s st' E. rewrite parse_statement_S in E. cbv zeta in E.
    assert (BK : blk_shape (block_body (block_loop f v))) by (apply block_body_shape; exact IHb).
    destruct (kind st);
      first [ exact (statement_error_shape _ _ _ _ E)
            | exact (parse_ident_statement_shape _ _ _ _ _ E)
            | exact (parse_assignment_shape _ _ _ _ E)
            | exact (parse_loop_shape _ _ _ _ _ BK E)
            | exact (parse_block_stmt_shape _ _ _ _ BK E)
            | exact (parse_if_shape _ _ _ _ _ BK E)
            | exact (parse_function_def_shape _ _ _ _ _ BK E)
            | exact (parse_return_shape _ _ _ _ E)
            | (inversion E; reflexivity) ].
  - intros st ss st' E. rewrite block_loop_S in E.
    destruct (mem_tok _ _); [inversion E; reflexivity|].
    destruct (parse_statement f v st) as [[s st1]|] eqn:Es; [| discriminate E].
    destruct (block_loop f v st1) as [[ss2 st2]|] eqn:Eb; [| discriminate E].
    inversion E; subst. cbn [forallb]. rewrite (IHs _ _ _ Es), (IHb _ _ _ Eb). reflexivity.
Qed.

Lemma program_loop_shape v : forall f st ss st',
  program_loop f v st = Done (ss, st') -> forallb yidx ss = true.
Proof.
  induction f as [|f IH]; intros st ss st' E; [discriminate E|].
  rewrite program_loop_S in E. destruct (mem_tok _ _); [| inversion E; reflexivity].
  destruct (parse_statement f v st) as [[s st1]|] eqn:Es; [| discriminate E].
  destruct (program_loop f v st1) as [[ss2 st2]|] eqn:Eb; [| discriminate E].
  inversion E; subst. cbn [forallb]. rewrite (proj1 (stmt_shape v f) _ _ _ Es), (IH _ _ _ Eb). reflexivity.
Qed.

Lemma parse_program_shape v ts r : parse_program v ts = Done r -> forallb yidx (p_stmts r) = true.
Proof.
  unfold parse_program, parse_from. cbv zeta.
  destruct (program_loop _ v (init ts)) as [[ss st1]|] eqn:E; [| discriminate].
  intro H. inversion H; subst. cbn [p_stmts]. exact (program_loop_shape _ _ _ _ _ E).
Qed.

(* the named Lang AST of the tree *)
Lemma is_index_to_lang num e : is_index (to_lang_expr num e) = is_xidx e.
Proof. destruct e; try reflexivity. destruct parts; reflexivity. Qed.

Lemma idxt_to_lang num : forall s, idxt_stmt (to_lang_stmt num s) = yidx s.
Proof.
  fix IH 1. intro s.
  assert (L : forall b, (fix all (l : list sstmt) : Prop := match l with [] => True | x :: r => idxt_stmt (to_lang_stmt num x) = yidx x /\ all r end) b ->
              forallb idxt_stmt (map (to_lang_stmt num) b) = forallb yidx b).
  { induction b as [|x b IHb]; intros H; [reflexivity|]. destruct H as [Hx Hr]. cbn [map forallb]. rewrite Hx, (IHb Hr). reflexivity. }
  destruct s as [n nsp ps sps body bsp sp | | | t e sp | c t tsp he f fsp sp | c b bsp sp | b bsp sp | | | | ];
    cbn [to_lang_stmt idxt_stmt yidx]; try reflexivity.
  - apply L. induction body as [|x body IHb]; [exact I | split; [apply IH | exact IHb]].
  - apply is_index_to_lang.
  - assert (Ht : forallb idxt_stmt (map (to_lang_stmt num) t) = forallb yidx t).
    { apply L. induction t as [|x t IHt]; [exact I | split; [apply IH | exact IHt]]. }
    assert (Hf : forallb idxt_stmt (map (to_lang_stmt num) f) = forallb yidx f).
    { apply L. induction f as [|x f IHf]; [exact I | split; [apply IH | exact IHf]]. }
    rewrite Ht. destruct he; [rewrite Hf|]; reflexivity.
  - apply L. induction b as [|x b IHb]; [exact I | split; [apply IH | exact IHb]].
  - apply L. induction b as [|x b IHb]; [exact I | split; [apply IH | exact IHb]].
Qed.

Lemma idx_targets_to_lang num ss : idx_targets (to_lang num ss) = forallb yidx ss.
Proof.
  unfold idx_targets, to_lang. induction ss as [|s ss IH]; [reflexivity|].
  cbn [map forallb]. rewrite idxt_to_lang, IH. reflexivity.
Qed.

(* what Properties/C06.v states: whatever the parser model returns, for any token list and
   either source variant, its named Lang AST satisfies the shape hypothesis of
   C06_rules_accept_implies_wf_static *)
Lemma parser_idx_targets v ts r num :
  parse_program v ts = Done r -> idx_targets (to_lang num (p_stmts r)) = true.
Proof. intro H. rewrite idx_targets_to_lang. exact (parse_program_shape v ts r H). Qed.

(* the shape does not depend on the ids the resolver attaches afterwards *)
Lemma idxt_erase : forall t, idxt_stmt (erase_stmt t) = idxt_stmt t.
Proof.
  fix IH 1. intro t.
  assert (L : forall b, (fix all (l : list stmt) : Prop := match l with [] => True | x :: r => idxt_stmt (erase_stmt x) = idxt_stmt x /\ all r end) b ->
              forallb idxt_stmt (map erase_stmt b) = forallb idxt_stmt b).
  { induction b as [|x b IHb]; intros H; [reflexivity|]. destruct H as [Hx Hr]. cbn [map forallb]. rewrite Hx, (IHb Hr). reflexivity. }
  destruct t as [sid n ps body fid ls ll | | | sid tg e | sid c t f | sid c b | sid b | | | | ];
    cbn [erase_stmt idxt_stmt]; try reflexivity.
  - apply L. induction body as [|x body IHb]; [exact I | split; [apply IH | exact IHb]].
  - destruct tg; reflexivity.
  - assert (Ht : forallb idxt_stmt (map erase_stmt t) = forallb idxt_stmt t).
    { apply L. induction t as [|x t IHt]; [exact I | split; [apply IH | exact IHt]]. }
    rewrite Ht. destruct f as [fb|]; cbn [option_map]; [| reflexivity].
    assert (Hf : forallb idxt_stmt (map erase_stmt fb) = forallb idxt_stmt fb).
    { apply L. induction fb as [|x fb IHf]; [exact I | split; [apply IH | exact IHf]]. }
    rewrite Hf. reflexivity.
  - apply L. induction b as [|x b IHb]; [exact I | split; [apply IH | exact IHb]].
  - apply L. induction b as [|x b IHb]; [exact I | split; [apply IH | exact IHb]].
Qed.

Lemma idx_targets_erase p : idx_targets (erase_ids p) = idx_targets p.
Proof.
  unfold idx_targets, erase_ids. induction p as [|t p IH]; [reflexivity|].
  cbn [map forallb]. rewrite idxt_erase, IH. reflexivity.
Qed.

(* a resolved tree that is the parser's tree with ids attached has the shape *)
Lemma resolved_parse_idx_targets v ts r num p :
  parse_program v ts = Done r -> erase_ids p = to_lang num (p_stmts r) -> idx_targets p = true.
Proof.
  intros Hp He. rewrite <- idx_targets_erase, He. exact (parser_idx_targets v ts r num Hp).
Qed.
