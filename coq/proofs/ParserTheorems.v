(* ParserTheorems — the statements Properties/PARSER.v exports, assembled from ParserProofs
   (totality, spans), ParserNatural (positions are only copied), ParserPratt (coincidence with
   the expression-only model of C01) and the lexer theorem of C07. *)
From Coq Require Import ZArith List Bool Arith Lia.
Require Import NS.theories.Utf8 NS.theories.GenLexer NS.theories.Lexer NS.theories.GenParser NS.theories.Parser.
Require Import NS.proofs.ParserProofs NS.proofs.ParserNatural NS.proofs.ParserPratt.
Require NS.theories.F64 NS.theories.Lang NS.theories.GenPratt NS.theories.Pratt NS.theories.Template.
Require NS.proofs.PrattProofs NS.proofs.LexerProofs.
Import ListNotations.
Open Scope nat_scope.

(* ================================================================== (a) totality, spans *)

(* the switch the termination argument needs, read off the generated file: changing the default
   arm of parse_statement so that it no longer bumps breaks this line *)
Lemma source_stmt_error_bumps : v_stmt_error_bumps variant_of_source = true.
Proof. reflexivity. Qed.

(* ---- instance 1: positions inside a text, on character boundaries (C07's span_wf) *)
Definition in_text (s : bytes) (p : nat) : Prop := p <= length s /\ is_boundary s p = true.

Lemma in_text_0 s : in_text s 0.
Proof. split; [lia | apply Utf8Proofs_boundary_0]. Qed.
