(* ParserTheorems — the statements Properties/PARSER.v exports, assembled from ParserProofs
   (totality, spans), ParserNatural (positions are only copied), ParserPratt (coincidence with
   the expression-only model of C01) and the lexer theorem of C07. *)
From Coq Require Import ZArith List Bool Arith Lia.
Require Import NS.theories.Utf8 NS.theories.GenLexer NS.theories.Lexer NS.theories.GenParser NS.theories.Parser.
Require Import NS.proofs.ParserProofs NS.proofs.ParserNatural NS.proofs.ParserPratt.
Require NS.theories.F64 NS.theories.Lang NS.theories.GenPratt NS.theories.Pratt NS.theories.Template.
Require NS.proofs.PrattProofs NS.proofs.Utf8Proofs NS.proofs.FrontendProofs.
Import ListNotations.
Open Scope nat_scope.

(* ================================================================== (a) totality, spans *)

(* the switch the termination argument needs, read off the generated file: changing the default
   arm of parse_statement so that it no longer bumps breaks this line *)
Lemma source_stmt_error_bumps : v_stmt_error_bumps Parser.variant_of_source = true.
Proof. reflexivity. Qed.

(* every span of the result satisfies [good] at both ends and is ordered *)
Definition result_spans_ok (good : nat -> Prop) (p : parsed) : Prop :=
  allP (stmt_wf good) (p_stmts p) /\ span_wf0 good (p_span p) /\ allP (diag_ok good) (p_diags p).

Theorem parse_total_generic :
  forall (good : nat -> Prop) v ts, good 0 -> v_stmt_error_bumps v = true -> chain good 0 ts ->
  exists p, parse_program v ts = Done p /\ result_spans_ok good p /\ p_pulled p <= length ts.
Proof.
  intros good v ts G0 B C.
  destruct (parse_program_total good G0 v ts B C) as (p & R & W1 & W2 & W3 & W4).
  exists p. unfold result_spans_ok. auto.
Qed.

(* ---- instance 1: positions inside a text, on character boundaries (C07's span_wf) *)
Definition in_text (s : bytes) (p : nat) : Prop := p <= length s /\ is_boundary s p = true.

Lemma in_text_span s a b : span_wf0 (in_text s) (a, b) <-> span_wf s a b.
Proof. unfold span_wf0, in_text, span_wf. cbn [fst snd]. split; intros; repeat split; try tauto; lia. Qed.

Lemma lexer_tokens_chain s : forall ts lo,
  Forall (token_wf s) ts -> tokens_ordered lo ts -> chain (in_text s) lo ts.
Proof.
  induction ts as [|t r IH]; intros lo F O; cbn [chain]; [exact I|].
  inversion F as [|? ? Ht Fr]; subst. destruct O as (L1 & L2 & O).
  refine (conj L1 (conj _ (IH _ Fr O))).
  unfold tok_ok. apply in_text_span. exact Ht.
Qed.

(* the parser on the tokens of a text: total, and every span it builds is a span of the text *)
Theorem parse_total_in_text : forall s ts,
  Forall (token_wf s) ts -> tokens_ordered 0 ts ->
  exists p, parse_program Parser.variant_of_source ts = Done p /\ result_spans_ok (in_text s) p /\
            p_pulled p <= length ts.
Proof.
  intros s ts F O. apply parse_total_generic.
  - split; [lia | apply Utf8Proofs.boundary_0].
  - exact source_stmt_error_bumps.
  - apply lexer_tokens_chain; assumption.
Qed.

(* lexer and parser together, for every valid UTF-8 text *)
Theorem lex_parse_total : forall s, valid_utf8 s = true ->
  exists toks ldiags p,
    lex Lexer.variant_of_source s = Ok (toks, ldiags, length s) /\
    parse_program Parser.variant_of_source toks = Done p /\
    result_spans_ok (in_text s) p /\ Forall (diag_wf s) ldiags.
Proof.
  intros s V. destruct (FrontendProofs.lex_total_spans_wf s V) as (toks & ds & L & F & D & O).
  destruct (parse_total_in_text s toks F O) as (p & R & W & _).
  exists toks, ds, p. auto.
Qed.

(* what C07 renders: every syntax diagnostic (and its label, which carries the same span) *)
Corollary syntax_diagnostics_wf : forall s ts p,
  Forall (token_wf s) ts -> tokens_ordered 0 ts ->
  parse_program Parser.variant_of_source ts = Done p ->
  Forall (fun d => span_wf s (fst (pd_span d)) (snd (pd_span d))) (p_diags p).
Proof.
  intros s ts p F O R. destruct (parse_total_in_text s ts F O) as (p' & R' & (_ & _ & W) & _).
  rewrite R in R'. inversion R'; subst p'.
  apply allP_Forall in W. eapply Forall_impl; [|exact W].
  intros d H. apply in_text_span. unfold diag_ok in H. destruct (pd_span d). exact H.
Qed.

(* ---- instance 2: every position is 0 or an end point of a token *)
Definition token_pos (ts : list token) (p : nat) : Prop :=
  p = 0 \/ exists t, In t ts /\ (p = t_start t \/ p = t_end t).

Definition ordered (ts : list token) : Prop := chain (fun _ => True) 0 ts.

Lemma chain_weaken (g1 g2 : nat -> Prop) : forall ts lo,
  (forall t, In t ts -> g2 (t_start t) /\ g2 (t_end t)) -> chain g1 lo ts -> chain g2 lo ts.
Proof.
  induction ts as [|t r IH]; intros lo H C; cbn [chain] in *; [exact I|].
  destruct C as (L & (_ & _ & L2) & C). cbn [fst snd] in L2.
  refine (conj L (conj _ (IH _ (fun t' Ht' => H t' (or_intror Ht')) C))).
  destruct (H t (or_introl eq_refl)) as (G1 & G2). exact (conj G1 (conj G2 L2)).
Qed.

Theorem parse_total_token_positions : forall ts, ordered ts ->
  exists p, parse_program Parser.variant_of_source ts = Done p /\ result_spans_ok (token_pos ts) p /\
            p_pulled p <= length ts.
Proof.
  intros ts O. apply parse_total_generic.
  - left. reflexivity.
  - exact source_stmt_error_bumps.
  - eapply chain_weaken; [|exact O]. intros t Ht. split; right; exists t; auto.
Qed.

Lemma tokens_ordered_ordered : forall ts lo, tokens_ordered lo ts -> chain (fun _ => True) lo ts.
Proof.
  induction ts as [|t r IH]; intros lo O; cbn [chain]; [exact I|].
  destruct O as (L1 & L2 & O). refine (conj L1 (conj _ (IH _ O))).
  unfold tok_ok, span_wf0. cbn [fst snd]. repeat split; auto. lia.
Qed.

(* ---- progress of one statement / of recovery *)
Theorem statement_progress : forall (good : nat -> Prop) v f st,
  good 0 -> v_stmt_error_bumps v = true -> inv good st -> 3 * size st + 1 <= f -> kind st <> TEOF ->
  exists s st', parse_statement f v st = Done (s, st') /\ size st' < size st /\ inv good st'.
Proof.
  intros good v f st G0 B I F N.
  destruct (proj1 (stmt_total good G0 v B f) st I F) as (s & st' & R & I' & _ & _ & P).
  exists s, st'. auto.
Qed.

Lemma synchronize_stops : forall st, mem_tok (kind (synchronize st)) sync_toks = true.
Proof.
  intro st. unfold synchronize. destruct (mem_tok (kind st) sync_toks) eqn:M; [exact M|].
  assert (H : forall r lo, mem_tok (t_kind (fst (fst (sync_rest lo r)))) sync_toks = true).
  { induction r as [|t r IH]; intro lo; cbn [sync_rest]; [reflexivity|].
    destruct (mem_tok (t_kind t) sync_toks) eqn:E; [exact E | apply IH]. }
  specialize (H (rest st) (cend st)). destruct (sync_rest (cend st) (rest st)) as ((c, r'), e). exact H.
Qed.

(* ================================================================== (b) spans are ignored *)

Lemma kpo_forget : forall ts1 ts2, map kpo ts1 = map kpo ts2 ->
  map (map_tok forget) ts1 = map (map_tok forget) ts2.
Proof.
  induction ts1 as [|a r IH]; intros [|b r2] H; try discriminate H; [reflexivity|].
  cbn [map] in *. inversion H as [[K P O R]]. f_equal; [|apply IH; exact R].
  unfold map_tok. rewrite K, P, O. reflexivity.
Qed.

Theorem parse_ignores_spans : forall v ts1 ts2, map kpo ts1 = map kpo ts2 ->
  map_presult (map_parsed forget) (parse_program v ts1)
  = map_presult (map_parsed forget) (parse_program v ts2).
Proof.
  intros v ts1 ts2 H.
  rewrite <- !(parse_program_natural forget eq_refl). rewrite (kpo_forget _ _ H). reflexivity.
Qed.

(* induction principles for the nested trees *)
Section SexprInd.
  Variable P : sexpr -> Prop.
  Hypothesis HNum : forall t sp, P (XNum t sp).
  Hypothesis HStr : forall r o p sp, P (XStr r o p sp).
  Hypothesis HBool : forall b sp, P (XBool b sp).
  Hypothesis HNull : forall sp, P (XNull sp).
  Hypothesis HVar : forall n sp, P (XVar n sp).
  Hypothesis HBin : forall op l r sp, P l -> P r -> P (XBin op l r sp).
  Hypothesis HUn : forall op a sp, P a -> P (XUn op a sp).
  Hypothesis HArr : forall es sp, Forall P es -> P (XArr es sp).
  Hypothesis HIdx : forall a i isp sp, P a -> P i -> P (XIdx a i isp sp).
  Hypothesis HMember : forall o f fsp sp, P o -> P (XMember o f fsp sp).
  Hypothesis HCall : forall c args sp, P c -> Forall P args -> P (XCall c args sp).
  Fixpoint sexpr_ind' (e : sexpr) : P e :=
    let all := fix all (l : list sexpr) : Forall P l :=
      match l with [] => Forall_nil P | x :: r => Forall_cons x (sexpr_ind' x) (all r) end in
    match e with
    | XNum t sp => HNum t sp
    | XStr r o p sp => HStr r o p sp
    | XBool b sp => HBool b sp
    | XNull sp => HNull sp
    | XVar n sp => HVar n sp
    | XBin op l r sp => HBin op l r sp (sexpr_ind' l) (sexpr_ind' r)
    | XUn op a sp => HUn op a sp (sexpr_ind' a)
    | XArr es sp => HArr es sp (all es)
    | XIdx a i isp sp => HIdx a i isp sp (sexpr_ind' a) (sexpr_ind' i)
    | XMember o f fsp sp => HMember o f fsp sp (sexpr_ind' o)
    | XCall c args sp => HCall c args sp (sexpr_ind' c) (all args)
    end.
End SexprInd.

Section SstmtInd.
  Variable P : sstmt -> Prop.
  Hypothesis HFun : forall n nsp ps psps body bsp sp, Forall P body -> P (YFun n nsp ps psps body bsp sp).
  Hypothesis HMake : forall x xsp e sp, P (YMake x xsp e sp).
  Hypothesis HSet : forall x xsp e sp, P (YSet x xsp e sp).
  Hypothesis HSetIdx : forall t e sp, P (YSetIdx t e sp).
  Hypothesis HIf : forall c t tsp he f fsp sp, Forall P t -> Forall P f -> P (YIf c t tsp he f fsp sp).
  Hypothesis HLoop : forall c b bsp sp, Forall P b -> P (YLoop c b bsp sp).
  Hypothesis HBlock : forall b bsp sp, Forall P b -> P (YBlock b bsp sp).
  Hypothesis HRet : forall e sp, P (YRet e sp).
  Hypothesis HBreak : forall sp, P (YBreak sp).
  Hypothesis HNext : forall sp, P (YNext sp).
  Hypothesis HExpr : forall e sp, P (YExpr e sp).
  Fixpoint sstmt_ind' (s : sstmt) : P s :=
    let all := fix all (l : list sstmt) : Forall P l :=
      match l with [] => Forall_nil P | x :: r => Forall_cons x (sstmt_ind' x) (all r) end in
    match s with
    | YFun n nsp ps psps body bsp sp => HFun n nsp ps psps body bsp sp (all body)
    | YMake x xsp e sp => HMake x xsp e sp
    | YSet x xsp e sp => HSet x xsp e sp
    | YSetIdx t e sp => HSetIdx t e sp
    | YIf c t tsp he f fsp sp => HIf c t tsp he f fsp sp (all t) (all f)
    | YLoop c b bsp sp => HLoop c b bsp sp (all b)
    | YBlock b bsp sp => HBlock b bsp sp (all b)
    | YRet e sp => HRet e sp
    | YBreak sp => HBreak sp
    | YNext sp => HNext sp
    | YExpr e sp => HExpr e sp
    end.
End SstmtInd.

Lemma map_ext_Forall {A B} (g1 g2 : A -> B) l : Forall (fun x => g1 x = g2 x) l -> map g1 l = map g2 l.
Proof. induction 1 as [|x r H _ IH]; cbn [map]; [reflexivity | rewrite H, IH; reflexivity]. Qed.

(* the named Lang AST does not see positions *)
Lemma to_lang_expr_map num h : forall e, to_lang_expr num (map_expr h e) = to_lang_expr num e.
Proof.
  induction e using sexpr_ind'; cbn [map_expr to_lang_expr]; try reflexivity;
    rewrite ?IHe, ?IHe1, ?IHe2; try reflexivity.
  - f_equal. rewrite map_map. apply map_ext_Forall. assumption.
  - f_equal. rewrite map_map. apply map_ext_Forall. assumption.
Qed.

Lemma to_lang_stmt_map num h : forall s, to_lang_stmt num (map_stmt h s) = to_lang_stmt num s.
Proof.
  induction s using sstmt_ind'; cbn [map_stmt to_lang_stmt]; rewrite ?to_lang_expr_map;
    rewrite ?map_map; try reflexivity.
  - f_equal. apply map_ext_Forall. assumption.
  - f_equal; [apply map_ext_Forall; assumption|].
    destruct he; [f_equal; apply map_ext_Forall; assumption | reflexivity].
  - f_equal. apply map_ext_Forall. assumption.
  - f_equal. apply map_ext_Forall. assumption.
  - destruct e; cbn [option_map]; rewrite ?to_lang_expr_map; reflexivity.
Qed.

Lemma to_lang_map num h ss : to_lang num (map (map_stmt h) ss) = to_lang num ss.
Proof. unfold to_lang. rewrite map_map. apply map_ext. apply to_lang_stmt_map. Qed.

Lemma diag_kinds_map h ds : diag_kinds (map (map_diag h) ds) = diag_kinds ds.
Proof. unfold diag_kinds. rewrite map_map. reflexivity. Qed.

(* the form C10 uses: same kinds / payloads => same named AST, same tree modulo spans, same
   diagnostic kinds and labels, same number of tokens pulled *)
Corollary parse_ignores_spans_views : forall v ts1 ts2 p1 p2, map kpo ts1 = map kpo ts2 ->
  parse_program v ts1 = Done p1 -> parse_program v ts2 = Done p2 ->
  strip_stmts (p_stmts p1) = strip_stmts (p_stmts p2) /\
  (forall num, to_lang num (p_stmts p1) = to_lang num (p_stmts p2)) /\
  diag_kinds (p_diags p1) = diag_kinds (p_diags p2) /\
  p_pulled p1 = p_pulled p2 /\ p_lexed_all p1 = p_lexed_all p2.
Proof.
  intros v ts1 ts2 p1 p2 H R1 R2. pose proof (parse_ignores_spans v ts1 ts2 H) as E.
  rewrite R1, R2 in E. cbn [map_presult] in E.
  assert (E' : map_parsed forget p1 = map_parsed forget p2) by congruence.
  pose proof (f_equal p_stmts E') as E1. pose proof (f_equal p_diags E') as E3.
  pose proof (f_equal p_pulled E') as E4. pose proof (f_equal p_lexed_all E') as E5.
  unfold map_parsed in E1, E3, E4, E5. cbn [p_stmts p_diags p_pulled p_lexed_all] in E1, E3, E4, E5.
  refine (conj E1 (conj _ (conj _ (conj E4 E5)))).
  - intro num. rewrite <- (to_lang_map num forget (p_stmts p1)), <- (to_lang_map num forget (p_stmts p2)).
    unfold strip_stmts in E1. rewrite E1. reflexivity.
  - rewrite <- (diag_kinds_map forget (p_diags p1)), <- (diag_kinds_map forget (p_diags p2)).
    rewrite E3. reflexivity.
Qed.

(* two layouts of one program: both parse (totality), to the same thing *)
Corollary relayout_same_parse : forall ts1 ts2, ordered ts1 -> ordered ts2 -> map kpo ts1 = map kpo ts2 ->
  exists p1 p2, parse_program Parser.variant_of_source ts1 = Done p1 /\
                parse_program Parser.variant_of_source ts2 = Done p2 /\
                strip_stmts (p_stmts p1) = strip_stmts (p_stmts p2) /\
                (forall num, to_lang num (p_stmts p1) = to_lang num (p_stmts p2)) /\
                diag_kinds (p_diags p1) = diag_kinds (p_diags p2).
Proof.
  intros ts1 ts2 O1 O2 H.
  destruct (parse_total_token_positions ts1 O1) as (p1 & R1 & _).
  destruct (parse_total_token_positions ts2 O2) as (p2 & R2 & _).
  destruct (parse_ignores_spans_views _ _ _ _ _ H R1 R2) as (A & B & C & _).
  exists p1, p2. auto.
Qed.

(* ================================================================== (c) the expression grammar *)

Definition no_eof (ts : list token) : Prop := Forall (fun t => t_kind t <> TEOF) ts.

Lemma init_clean ts : no_eof ts -> clean (init ts) /\ ptoks (init ts) = map abs_tok ts /\ errs (init ts) = [].
Proof.
  intro F. destruct ts as [|t r]; cbn [init].
  - refine (conj (conj _ _) (conj eq_refl eq_refl)); cbn [rest]; auto.
  - inversion F as [|? ? Ht Fr]; subst. refine (conj (conj Fr _) (conj _ eq_refl)).
    + unfold kind. cbn [cur rest]. intro K. contradiction.
    + rewrite ptoks_cons; [reflexivity | exact Ht].
Qed.

(* whatever Pratt.v (the model C01 proved the grammar theorems about) makes of an expression's
   tokens, the full parser model makes the same of them: same tree, all tokens used, no diagnostic *)
Theorem expression_agrees_with_pratt : forall v ts e, no_eof ts ->
  Pratt.parse_tokens (map abs_tok ts) = Pratt.POk e ->
  exists se st', parse_expression (S (3 * length ts)) v 0%Z (init ts) = Done (se, st') /\
                 abs_expr se = e /\ kind st' = TEOF /\ rest st' = [] /\ errs st' = [].
Proof.
  intros v ts e F H. unfold Pratt.parse_tokens in H. rewrite map_length in H.
  destruct (Pratt.parse_expr (S (3 * length ts)) 0 (map abs_tok ts)) as [[e' r]| |] eqn:P; try discriminate H.
  destruct r; [|discriminate H]. inversion H; subst e'.
  destruct (init_clean ts F) as (C & PT & E0).
  rewrite <- PT in P.
  destruct (proj1 (sim (S (3 * length ts))) v 0%Z (init ts) e [] C P) as (se & st' & R & A & B & D & E).
  exists se, st'. rewrite E, E0.
  pose proof (ptoks_nil _ D B) as K. destruct D as (_ & D).
  exact (conj R (conj A (conj K (conj (D K) eq_refl)))).
Qed.

(* the same with any larger fuel (Pratt.v's results are stable under more fuel) *)
Lemma expression_agrees_with_pratt_fuel : forall v ts e F, no_eof ts -> S (3 * length ts) <= F ->
  Pratt.parse_tokens (map abs_tok ts) = Pratt.POk e ->
  exists se st', parse_expression F v 0%Z (init ts) = Done (se, st') /\
                 abs_expr se = e /\ kind st' = TEOF /\ rest st' = [] /\ errs st' = [].
Proof.
  intros v ts e F NE LE H. unfold Pratt.parse_tokens in H. rewrite map_length in H.
  destruct (Pratt.parse_expr (S (3 * length ts)) 0 (map abs_tok ts)) as [[e' r]| |] eqn:P; try discriminate H.
  destruct r; [|discriminate H]. inversion H; subst e'.
  apply (PrattProofs.mono_parse_expr _ F) in P; [|exact LE].
  destruct (init_clean ts NE) as (C & PT & E0).
  rewrite <- PT in P.
  destruct (proj1 (sim F) v 0%Z (init ts) e [] C P) as (se & st' & R & A & B & D & E).
  exists se, st'. rewrite E, E0.
  pose proof (ptoks_nil _ D B) as K. destruct D as (_ & D).
  exact (conj R (conj A (conj K (conj (D K) eq_refl)))).
Qed.

(* an expression in statement position, through parse_program: `make <name> get <expression>`
   parses silently to one declaration whose value is the tree *)
Theorem make_statement_roundtrip : forall v mk id gt (a : Pratt.aexpr) ts,
  t_kind mk = TMake -> t_kind id = TIdentifier -> t_kind gt = TGet ->
  no_eof ts -> map abs_tok ts = Pratt.print a ->
  exists p se sp, parse_program v (mk :: id :: gt :: ts) = Done p /\ p_diags p = [] /\
    p_stmts p = [YMake (t_payload id) (t_start id, t_end id) se sp] /\ abs_expr se = Pratt.erase a /\
    p_pulled p = 3 + length ts.
Proof.
  intros v mk id gt a ts KM KI KG NE H.
  assert (NN : ts <> []).
  { intro E. subst ts. cbn [map] in H. destruct (PrattProofs.pr_head a 0%Z) as (t & r & P & _).
    unfold Pratt.print in H. rewrite P in H. discriminate H. }
  destruct ts as [|t r]; [contradiction|].
  set (ts := t :: r) in *.
  assert (PT : Pratt.parse_tokens (map abs_tok ts) = Pratt.POk (Pratt.erase a))
    by (rewrite H; apply PrattProofs.pratt_roundtrip).
  unfold parse_program, parse_from, program_fuel.
  set (n := length ts).
  replace (3 * length (mk :: id :: gt :: ts) + 4) with (S (S (3 * n + 11))) by (cbn [length]; fold n; lia).
  rewrite program_loop_S.
  assert (K0 : kind (init (mk :: id :: gt :: ts)) = TMake) by exact KM.
  rewrite K0. cbn [mem_tok existsb stmt_start_toks tok_eqb tok_index Z.eqb Pos.eqb orb].
  rewrite parse_statement_S. cbv zeta. rewrite K0.
  unfold parse_assignment.
  assert (K1 : kind (bump (init (mk :: id :: gt :: ts))) = TIdentifier) by exact KI.
  rewrite K1. cbn [tok_eqb tok_index Z.eqb Pos.eqb].
  assert (K2 : kind (bump (bump (init (mk :: id :: gt :: ts)))) = TGet) by exact KG.
  rewrite K2. cbn [tok_eqb tok_index Z.eqb Pos.eqb].
  assert (ST : bump (bump (bump (init (mk :: id :: gt :: ts)))) = init ts) by reflexivity.
  rewrite ST.
  destruct (expression_agrees_with_pratt_fuel v ts _ (3 * n + 11) NE ltac:(fold n; lia) PT)
    as (se & st' & R & A & K & RR & E).
  change value_bp with 0%Z. rewrite R.
  rewrite program_loop_S. rewrite K.
  cbn [mem_tok existsb stmt_start_toks tok_eqb tok_index Z.eqb Pos.eqb orb].
  rewrite K. cbn [tok_eqb tok_index Z.eqb Pos.eqb].
  eexists _, se, _. split; [reflexivity|]. cbn [p_diags p_stmts p_pulled]. rewrite E, RR.
  refine (conj eq_refl (conj eq_refl (conj A _))).
  cbn [length]. fold n. lia.
Qed.

(* C01's round trip, on the full parser model: print any tree with parentheses exactly where the
   generated binding powers require them plus any redundant ones (Pratt.print of an aexpr); any
   concrete tokens spelling that print parse back to the tree *)
Theorem pratt_roundtrip : forall v (a : Pratt.aexpr) ts, no_eof ts ->
  map abs_tok ts = Pratt.print a ->
  exists se st', parse_expression (S (3 * length ts)) v 0%Z (init ts) = Done (se, st') /\
                 abs_expr se = Pratt.erase a /\ kind st' = TEOF /\ rest st' = [] /\ errs st' = [].
Proof.
  intros v a ts F H. apply expression_agrees_with_pratt; [exact F|].
  rewrite H. apply PrattProofs.pratt_roundtrip.
Qed.

(* redundant parentheses do not change the tree *)
Theorem parens_redundant : forall v (a1 a2 : Pratt.aexpr) ts1 ts2, no_eof ts1 -> no_eof ts2 ->
  map abs_tok ts1 = Pratt.print a1 -> map abs_tok ts2 = Pratt.print a2 -> Pratt.erase a1 = Pratt.erase a2 ->
  exists se1 st1 se2 st2,
    parse_expression (S (3 * length ts1)) v 0%Z (init ts1) = Done (se1, st1) /\
    parse_expression (S (3 * length ts2)) v 0%Z (init ts2) = Done (se2, st2) /\
    abs_expr se1 = abs_expr se2 /\ errs st1 = [] /\ errs st2 = [].
Proof.
  intros v a1 a2 ts1 ts2 F1 F2 H1 H2 E.
  destruct (pratt_roundtrip v a1 ts1 F1 H1) as (se1 & st1 & R1 & A1 & _ & _ & E1).
  destruct (pratt_roundtrip v a2 ts2 F2 H2) as (se2 & st2 & R2 & A2 & _ & _ & E2).
  exists se1, st1, se2, st2. rewrite A1, A2. auto.
Qed.

(* precedence and associativity, as corollaries (any operand tokens x y z that are identifiers) *)
Definition ident_op_tokens (ts : list token) x a y b z : Prop :=
  map abs_tok ts = [Pratt.TIdent x; Pratt.TOp a; Pratt.TIdent y; Pratt.TOp b; Pratt.TIdent z].

Corollary precedence_looser_first : forall v ts x a y b z, no_eof ts -> ident_op_tokens ts x a y b z ->
  (Pratt.level a < Pratt.level b)%Z ->
  exists se st', parse_expression (S (3 * length ts)) v 0%Z (init ts) = Done (se, st') /\ errs st' = [] /\
    abs_expr se = Pratt.PBin a (Pratt.PVar x) (Pratt.PBin b (Pratt.PVar y) (Pratt.PVar z)).
Proof.
  intros v ts x a y b z F H L.
  destruct (expression_agrees_with_pratt v ts _ F ltac:(rewrite H; apply PrattProofs.prec_looser_first; exact L))
    as (se & st' & R & A & _ & _ & E).
  exists se, st'. auto.
Qed.

Corollary precedence_tighter_first : forall v ts x a y b z, no_eof ts -> ident_op_tokens ts x b y a z ->
  (Pratt.level a < Pratt.level b)%Z ->
  exists se st', parse_expression (S (3 * length ts)) v 0%Z (init ts) = Done (se, st') /\ errs st' = [] /\
    abs_expr se = Pratt.PBin a (Pratt.PBin b (Pratt.PVar x) (Pratt.PVar y)) (Pratt.PVar z).
Proof.
  intros v ts x a y b z F H L.
  destruct (expression_agrees_with_pratt v ts _ F ltac:(rewrite H; apply PrattProofs.prec_tighter_first; exact L))
    as (se & st' & R & A & _ & _ & E).
  exists se, st'. auto.
Qed.

Corollary left_associative : forall v ts x a y b z, no_eof ts -> ident_op_tokens ts x a y b z ->
  Pratt.level a = Pratt.level b ->
  exists se st', parse_expression (S (3 * length ts)) v 0%Z (init ts) = Done (se, st') /\ errs st' = [] /\
    abs_expr se = Pratt.PBin b (Pratt.PBin a (Pratt.PVar x) (Pratt.PVar y)) (Pratt.PVar z).
Proof.
  intros v ts x a y b z F H L.
  destruct (expression_agrees_with_pratt v ts _ F ltac:(rewrite H; apply PrattProofs.left_assoc; exact L))
    as (se & st' & R & A & _ & _ & E).
  exists se, st'. auto.
Qed.

Corollary unary_tighter_than_binary : forall v ts u op x y, no_eof ts ->
  map abs_tok ts = [Pratt.un_tok u; Pratt.TIdent x; Pratt.TOp op; Pratt.TIdent y] ->
  exists se st', parse_expression (S (3 * length ts)) v 0%Z (init ts) = Done (se, st') /\ errs st' = [] /\
    abs_expr se = Pratt.PBin op (Pratt.PUn u (Pratt.PVar x)) (Pratt.PVar y).
Proof.
  intros v ts u op x y F H.
  destruct (expression_agrees_with_pratt v ts _ F ltac:(rewrite H; apply PrattProofs.unary_tighter_than_binary))
    as (se & st' & R & A & _ & _ & E).
  exists se, st'. auto.
Qed.

Corollary postfix_tighter_than_unary : forall v ts u x f, no_eof ts ->
  map abs_tok ts = [Pratt.un_tok u; Pratt.TIdent x; Pratt.TDot; Pratt.TIdent f; Pratt.TLP; Pratt.TRP] ->
  exists se st', parse_expression (S (3 * length ts)) v 0%Z (init ts) = Done (se, st') /\ errs st' = [] /\
    abs_expr se = Pratt.PUn u (Pratt.PCall (Pratt.PMember (Pratt.PVar x) f) []).
Proof.
  intros v ts u x f F H.
  destruct (expression_agrees_with_pratt v ts _ F ltac:(rewrite H; apply PrattProofs.postfix_tighter_than_unary))
    as (se & st' & R & A & _ & _ & E).
  exists se, st'. auto.
Qed.

(* the side conditions of C01's proof, of the GENERATED table (vm_compute in PrattProofs) *)
Lemma table_conditions : Pratt.table_ok = true /\ Pratt.levels_ok = true.
Proof. exact (conj PrattProofs.table_ok_true PrattProofs.levels_ok_true). Qed.

(* every ptok that can occur in a print has a concrete token (non-vacuity of the hypotheses) *)
Definition conc_tok (p : Pratt.ptok) : token :=
  let mk k pl := {| t_kind := k; t_payload := pl; t_owned := false; t_start := 0; t_end := 0 |} in
  match p with
  | Pratt.TLit a => mk TNumber (tl a)
  | Pratt.TIdent n => mk TIdentifier n
  | Pratt.TNot => mk TNot []
  | Pratt.TOp op =>
      mk (match op with
          | Lang.Add => TAdd | Lang.Minus => TMinus | Lang.Times => TTimes | Lang.Divide => TDivide
          | Lang.Mod => TMod | Lang.And => TAnd | Lang.Or => TOr | Lang.OEq => TNa | Lang.OGt => TPass
          | Lang.OLt => TSmallPass end) []
  | Pratt.TLP => mk TLParen [] | Pratt.TRP => mk TRParen []
  | Pratt.TLB => mk TLBracket [] | Pratt.TRB => mk TRBracket []
  | Pratt.TComma => mk TComma [] | Pratt.TDot => mk TDot []
  | Pratt.TOther _ => mk TGet []
  end.

Lemma conc_tok_abs_op : forall op, abs_tok (conc_tok (Pratt.TOp op)) = Pratt.TOp op.
Proof. destruct op; vm_compute; reflexivity. Qed.
