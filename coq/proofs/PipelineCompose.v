(* PipelineCompose — the run-time half of the end-to-end theorems: on the tree the PARSER built,
   resolved by the names-only resolution, the transcription of runtime.rs computes what the
   documented semantics prescribes (C04 o PipelineResolve o PipelineErase), and never reaches the
   structural panic sites (C06 round 2 o the same). *)
From Coq Require Import ZArith List Bool Arith Lia.
Require Import NS.theories.Utf8 NS.theories.GenLexer NS.theories.Lexer NS.theories.GenParser NS.theories.Parser.
Require Import NS.theories.Pipeline.
Require Import NS.theories.F64 NS.theories.Lang NS.theories.Spec NS.theories.StaticRules NS.theories.LexResolve
               NS.theories.RulesWf NS.theories.Template.
Require NS.theories.NumParse.
Require Import NS.proofs.ParserTheorems NS.proofs.ParserShapeProofs NS.proofs.PipelineProofs
               NS.proofs.PipelineResolve NS.proofs.PipelineErase.
Require Import NS.proofs.ScopeProofs NS.proofs.ScopeCalls NS.proofs.RulesNoPanic.
Import ListNotations.

(* ================================================================== the parser's tree carries no id *)

Lemma to_lang_expr_id_free num : forall e, erase_expr (to_lang_expr num e) = to_lang_expr num e.
Proof.
  induction e as [t sp | raw owned parts sp | b sp | sp | n sp | op l r sp IHl IHr | op a sp IHa | es sp IHes
                 | a i isp sp IHa IHi | o f fsp sp IHo | c args sp IHc IHargs] using sexpr_ind';
    cbn [to_lang_expr erase_expr]; try reflexivity; rewrite ?IHl, ?IHr, ?IHa, ?IHi, ?IHo, ?IHc; try reflexivity.
  - destruct parts as [s|segs]; cbn [erase_expr]; [reflexivity|]. f_equal.
    rewrite map_map. apply map_ext. intros [s|n]; reflexivity.
  - f_equal. rewrite map_map. apply map_ext_Forall. assumption.
  - f_equal. rewrite map_map. apply map_ext_Forall. assumption.
Qed.

Lemma to_lang_stmt_id_free num : forall s, erase_stmt (to_lang_stmt num s) = to_lang_stmt num s.
Proof.
  induction s using sstmt_ind'; cbn [to_lang_stmt erase_stmt]; rewrite ?to_lang_expr_id_free;
    rewrite ?map_map; try reflexivity.
  - f_equal. apply map_ext_Forall. assumption.
  - f_equal; [apply map_ext_Forall; assumption|].
    destruct he; cbn [option_map]; [f_equal; rewrite map_map; apply map_ext_Forall; assumption | reflexivity].
  - f_equal. apply map_ext_Forall. assumption.
  - f_equal. apply map_ext_Forall. assumption.
  - destruct e; cbn [option_map]; rewrite ?to_lang_expr_id_free; reflexivity.
Qed.

Lemma to_lang_id_free num ss : erase_ids (to_lang num ss) = to_lang num ss.
Proof. unfold erase_ids, to_lang. rewrite map_map. apply map_ext. apply to_lang_stmt_id_free. Qed.

(* ================================================================== facts about the resolved tree *)

Record resolved_facts (d : front_data) (p : list stmt) : Prop := {
  rf_erase : erase_ids p = fd_ast d;                       (* the names are the parser's *)
  rf_lexical : lexical p = true;                           (* C04's binding relation *)
  rf_rules : StaticRules.check p = fd_viol d;              (* the static rules see the same program *)
  rf_idx : idx_targets p = true                            (* the parser's shape guarantee *)
}.

Lemma resolved_facts_of : forall src d p, front src = Front d -> ids (fd_ast d) = Some p -> resolved_facts d p.
Proof.
  intros src d p Fd I. destruct (front_inv src d Fd) as (fin & L & P & C & A & V).
  unfold ids in I.
  assert (E : erase_ids p = fd_ast d).
  { rewrite (lex_ids_erase _ _ I), A. apply to_lang_id_free. }
  constructor.
  - exact E.
  - exact (lex_ids_lexical _ _ I).
  - rewrite <- (check_erase p), E. symmetry. exact V.
  - eapply resolved_parse_idx_targets; [exact P|]. rewrite E. exact A.
Qed.

(* ================================================================== (d) implementation = reference, end to end *)

Theorem impl_equals_spec_end_to_end_lemma : forall eps fuel src o e,
  run_source eps fuel src = Ran o e -> comparable e = true ->
  run_source_impl eps fuel src = Ran o (ending_of e) \/ run_source_impl eps fuel src = Unresolved.
Proof.
  intros eps fuel src o e H Cm.
  destruct (ran_was_accepted_lemma eps fuel src o e H) as (d & Fd & Acc & S).
  unfold run_source_impl. rewrite Fd. cbn [impl_of_front].
  rewrite (proj2 (rejecting_phase_none d) Acc).
  destruct (ids (fd_ast d)) as [p|] eqn:I; [left | right; reflexivity].
  destruct (resolved_facts_of src d p Fd I) as [E Lx _ _].
  assert (S' : run_spec eps fuel p = (o, e)).
  { rewrite <- S. apply run_spec_same_names. rewrite E. unfold ids in I.
    destruct (front_inv src d Fd) as (_ & _ & _ & _ & A & _). rewrite A. symmetry. apply to_lang_id_free. }
  rewrite (impl_equals_spec_scoping eps fuel p o e Lx S' Cm). reflexivity.
Qed.

(* with the resolution given *)
Theorem impl_equals_spec_resolved_lemma : forall eps fuel src d p o e,
  front src = Front d -> accepted d = true -> ids (fd_ast d) = Some p ->
  run_spec eps fuel (fd_ast d) = (o, e) -> comparable e = true ->
  run_impl None eps fuel p = (o, ending_of e) /\ run_source_impl eps fuel src = Ran o (ending_of e).
Proof.
  intros eps fuel src d p o e Fd Acc I S Cm.
  assert (H : run_source eps fuel src = Ran o e).
  { unfold run_source. rewrite Fd. cbn [spec_of_front]. rewrite (proj2 (rejecting_phase_none d) Acc), S. reflexivity. }
  destruct (impl_equals_spec_end_to_end_lemma eps fuel src o e H Cm) as [R|R].
  - split; [|exact R]. unfold run_source_impl in R. rewrite Fd in R. cbn [impl_of_front] in R.
    rewrite (proj2 (rejecting_phase_none d) Acc), I in R.
    destruct (run_impl None eps fuel p) as [o' e']. inversion R; subst. reflexivity.
  - unfold run_source_impl in R. rewrite Fd in R. cbn [impl_of_front] in R.
    rewrite (proj2 (rejecting_phase_none d) Acc), I in R.
    destruct (run_impl None eps fuel p). discriminate R.
Qed.

(* ================================================================== (e) accepted programs never reach the
   structural panic sites *)

Theorem accepted_never_panics_end_to_end_lemma : forall eps fuel src o s,
  run_source_impl eps fuel src = Ran o (Panicked s) ->
  s <> PArgCount /\ s <> PBuiltinArity /\ s <> PArgIndex /\ s <> PBreakEscapes /\
  s <> PIdxAssignEnd /\ s <> PParamRange.
Proof.
  intros eps fuel src o s H.
  destruct (ran_impl_was_accepted_lemma eps fuel src o (Panicked s) H) as (d & p & Fd & Acc & I & R).
  destruct (resolved_facts_of src d p Fd I) as [E Lx Rl Ix].
  apply accepted_iff in Acc. destruct Acc as (_ & _ & V). rewrite V in Rl.
  apply (accepted_by_rules_lexical_never_panics_structural p Rl Lx Ix None eps fuel s).
  rewrite R. reflexivity.
Qed.

(* the four sites that are dead for every program *)
Require Import NS.proofs.LangNoPanic.
Theorem accepted_never_panics_dead_sites_lemma : forall eps fuel src o s,
  run_source_impl eps fuel src = Ran o (Panicked s) ->
  s <> PNumOp /\ s <> PMutBuiltin /\ s <> PNoFnScope /\ s <> PFind.
Proof.
  intros eps fuel src o s H.
  destruct (ran_impl_was_accepted_lemma eps fuel src o (Panicked s) H) as (d & p & Fd & Acc & I & R).
  apply (dead_by_construction None eps fuel p s). rewrite R. reflexivity.
Qed.

(* ================================================================== no `Unresolved` outcome *)
Require Import NS.proofs.PipelineResolvable.

Theorem accepted_resolves_lemma : forall src d,
  front src = Front d -> accepted d = true -> exists p, ids (fd_ast d) = Some p /\ resolved_facts d p.
Proof.
  intros src d Fd Acc. destruct (front_inv src d Fd) as (_ & _ & _ & _ & _ & V).
  apply accepted_iff in Acc. destruct Acc as (_ & _ & Vn). rewrite V in Vn.
  destruct (check_resolves (fd_ast d) Vn) as (p & I). exists p. split; [exact I|].
  exact (resolved_facts_of src d p Fd I).
Qed.

Theorem never_unresolved_lemma : forall eps fuel src, run_source_impl eps fuel src <> Unresolved.
Proof.
  intros eps fuel src H. unfold run_source_impl in H.
  destruct (front src) as [d|f] eqn:Fd; cbn [impl_of_front] in H; [|discriminate H].
  destruct (rejecting_phase d) eqn:R; [discriminate H|]. apply rejecting_phase_none in R.
  destruct (accepted_resolves_lemma src d Fd R) as (p & I & _). rewrite I in H.
  destruct (run_impl None eps fuel p). discriminate H.
Qed.

Theorem impl_equals_spec_end_to_end_full : forall eps fuel src o e,
  run_source eps fuel src = Ran o e -> comparable e = true ->
  run_source_impl eps fuel src = Ran o (ScopeProofs.ending_of e).
Proof.
  intros eps fuel src o e H Cm.
  destruct (impl_equals_spec_end_to_end_lemma eps fuel src o e H Cm) as [R|R]; [exact R|].
  exfalso. exact (never_unresolved_lemma eps fuel src R).
Qed.

(* the two runners reject together, and an accepted text is evaluated by both *)
Theorem runners_agree_on_acceptance : forall eps fuel src,
  (forall ph r, run_source eps fuel src = Rejected ph r <-> run_source_impl eps fuel src = Rejected ph r) /\
  ((exists o e, run_source eps fuel src = Ran o e) <-> (exists o e, run_source_impl eps fuel src = Ran o e)).
Proof.
  intros eps fuel src. unfold run_source, run_source_impl.
  destruct (front src) as [d|f] eqn:Fd; cbn [spec_of_front impl_of_front].
  - destruct (rejecting_phase d) as [ph0|] eqn:R.
    + split; [intros; split; intro H; inversion H; reflexivity|]. split; intros (o & e & H); discriminate H.
    + apply rejecting_phase_none in R. destruct (accepted_resolves_lemma src d Fd R) as (p & I & _). rewrite I.
      destruct (run_spec eps fuel (fd_ast d)) as [o1 e1]. destruct (run_impl None eps fuel p) as [o2 e2].
      split; [intros; split; intro H; discriminate H|]. split; intros _; eauto.
  - split; [intros; split; intro H; discriminate H|]. split; intros (o & e & H); discriminate H.
Qed.

Lemma resolved_tree_facts_lemma : forall src d p,
  front src = Front d -> ids (fd_ast d) = Some p ->
  erase_ids p = fd_ast d /\ lexical p = true /\ StaticRules.check p = fd_viol d /\ idx_targets p = true.
Proof. intros src d p Fd I. destruct (resolved_facts_of src d p Fd I). auto. Qed.

(* ================================================================== the fuel is a bound, not an input *)
Require Import NS.proofs.LangFuel.

Theorem run_source_impl_fuel_mono : forall eps n m src o e,
  (n <= m)%nat -> run_source_impl eps n src = Ran o e -> e <> EFuel -> run_source_impl eps m src = Ran o e.
Proof.
  intros eps n m src o e Le H Ne. unfold run_source_impl in *.
  destruct (front src) as [d|f]; cbn [impl_of_front] in *; [|discriminate H].
  destruct (rejecting_phase d); [discriminate H|]. destruct (ids (fd_ast d)) as [p|]; [|discriminate H].
  destruct (run_impl None eps n p) as [o' e'] eqn:R. inversion H; subst.
  rewrite (run_impl_fuel_mono None eps n m p o e Le R Ne). reflexivity.
Qed.

(* acceptance, the rejecting phase and the diagnostics do not depend on eps or fuel *)
Theorem rejection_independent_of_fuel : forall eps1 n1 eps2 n2 src ph r,
  run_source eps1 n1 src = Rejected ph r ->
  run_source eps2 n2 src = Rejected ph r /\ run_source_impl eps2 n2 src = Rejected ph r.
Proof.
  intros eps1 n1 eps2 n2 src ph r H. unfold run_source, run_source_impl in *.
  destruct (front src) as [d|f]; cbn [spec_of_front impl_of_front] in *; [|discriminate H].
  destruct (rejecting_phase d) as [ph0|].
  - inversion H; subst. split; reflexivity.
  - destruct (run_spec eps1 n1 (fd_ast d)). discriminate H.
Qed.
