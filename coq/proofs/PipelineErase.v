(* PipelineErase — the static rules and the reference semantics read NAMES only:
     check_erase    : StaticRules.check (erase_ids p) = StaticRules.check p
     run_spec_erase : Spec.run_spec eps fuel (erase_ids p) = Spec.run_spec eps fuel p
   (both definitions ignore every id field syntactically; these are the lemmas that let the
   theorems about the resolved tree speak about the tree the parser built). *)
From Coq Require Import ZArith List Bool Lia.
Require Import NS.theories.F64 NS.theories.Lang NS.theories.GenRules NS.theories.StaticRules NS.theories.RulesWf.
Require Import NS.proofs.StaticRulesProofs NS.proofs.RulesImplyWf.
Import ListNotations.
Open Scope Z_scope.

(* ================================================================== list helpers *)

Lemma existsb_map_ext {A} (g g2 : A -> bool) (h : A -> A) : forall l,
  Forall (fun x => g (h x) = g2 x) l -> existsb g (map h l) = existsb g2 l.
Proof. induction 1 as [|x l Hx _ IH]; cbn [map existsb]; [reflexivity | rewrite Hx, IH; reflexivity]. Qed.

Lemma flat_map_map_ext {A B} (g g2 : A -> list B) (h : A -> A) : forall l,
  Forall (fun x => g (h x) = g2 x) l -> flat_map g (map h l) = flat_map g2 l.
Proof. induction 1 as [|x l Hx _ IH]; cbn [map flat_map]; [reflexivity | rewrite Hx, IH; reflexivity]. Qed.

Lemma Forall_all {A} (P : A -> Prop) (l : list A) : (forall x, P x) -> Forall P l.
Proof. intro H. apply Forall_forall. intros x _. apply H. Qed.

(* ================================================================== expressions *)

Definition esig (sig : option (list stmt)) : option (list stmt) := option_map (map erase_stmt) sig.

Lemma stmt_defines_erase f : forall s, stmt_defines f (erase_stmt s) = stmt_defines f s.
Proof.
  induction s as [sid n ps body fid ls ll IHb | sid n l e | sid n l e | sid tg e | sid cnd t fb IHt IHf
                 | sid cnd b IHb | sid b IHb | sid eo | sid | sid | sid e] using stmt_ind';
    cbn [erase_stmt stmt_defines]; try reflexivity.
  - rewrite (existsb_map_ext _ _ _ _ IHt). destruct fb as [fb|]; cbn [option_map]; [|reflexivity].
    rewrite (existsb_map_ext _ _ _ _ IHf). reflexivity.
  - apply existsb_map_ext. exact IHb.
  - apply existsb_map_ext. exact IHb.
Qed.

Lemma defines_in_erase f body :
  existsb (stmt_defines f) (map erase_stmt body) = existsb (stmt_defines f) body.
Proof. apply existsb_map_ext. apply Forall_all. apply stmt_defines_erase. Qed.

Definition EQ (e : expr) : Prop :=
  (forall sig c, infer_in (esig sig) c (erase_expr e) = infer_in sig c e) /\
  (forall c, root_declared c (erase_expr e) = root_declared c e) /\
  (forall c, check_expr c (erase_expr e) = check_expr c e).

Definition EQ2 (e : expr) : Prop := EQ e /\ match e with EMember o _ => EQ o | _ => True end.

Lemma seg_rules_erase c s : seg_rules c (erase_seg s) = seg_rules c s.
Proof. destruct s; reflexivity. Qed.

Lemma member_call_rules_ext c o1 o2 f a0 n :
  infer c o1 = infer c o2 -> root_declared c o1 = root_declared c o2 ->
  member_call_rules c o1 f a0 n = member_call_rules c o2 f a0 n.
Proof. intros E1 E2. unfold member_call_rules. rewrite E1, E2. reflexivity. Qed.

Lemma infer_of_EQ e c : EQ e -> infer c (erase_expr e) = infer c e.
Proof. intros (H & _). exact (H None c). Qed.

Lemma expr_EQ2 : forall e, EQ2 e.
Proof.
  induction e as [x | s | segs | b | | n l | op a b IHa IHb | op a IHa | es IHes | a i IHa IHi | o f IHo
                 | callee args t IHc IHargs] using expr_ind'.
  - split; [|exact I]. repeat split; reflexivity.
  - split; [|exact I]. repeat split; reflexivity.
  - split; [|exact I]. refine (conj _ (conj _ _)); try reflexivity.
    intro c. cbn [erase_expr check_expr]. apply flat_map_map_ext. apply Forall_all. apply seg_rules_erase.
  - split; [|exact I]. repeat split; reflexivity.
  - split; [|exact I]. repeat split; reflexivity.
  - split; [|exact I]. refine (conj _ (conj _ _)); try reflexivity. intros [body|] c; reflexivity.
  - destruct IHa as ((Ia & Ra & Ca) & _). destruct IHb as ((Ib & Rb & Cb) & _).
    split; [|exact I]. refine (conj _ (conj _ _)).
    + intros sig c. cbn [erase_expr infer_in]. rewrite Ia, Ib. reflexivity.
    + reflexivity.
    + intro c. cbn [erase_expr check_expr].
      rewrite Ca, Cb, (infer_of_EQ a c (conj Ia (conj Ra Ca))), (infer_of_EQ b c (conj Ib (conj Rb Cb))). reflexivity.
  - destruct IHa as ((Ia & Ra & Ca) & _).
    split; [|exact I]. refine (conj _ (conj _ _)).
    + intros sig c. cbn [erase_expr infer_in]. rewrite Ia. reflexivity.
    + reflexivity.
    + intro c. cbn [erase_expr check_expr]. rewrite Ca, (infer_of_EQ a c (conj Ia (conj Ra Ca))). reflexivity.
  - split; [|exact I]. refine (conj _ (conj _ _)); try reflexivity.
    intro c. cbn [erase_expr check_expr]. apply flat_map_map_ext.
    eapply Forall_impl; [|exact IHes]. intros e ((_ & _ & C) & _). apply C.
  - destruct IHa as ((Ia & Ra & Ca) & _). destruct IHi as ((Ii & Ri & Ci) & _).
    split; [|exact I]. refine (conj _ (conj _ _)).
    + reflexivity.
    + intro c. cbn [erase_expr root_declared]. apply Ra.
    + intro c. cbn [erase_expr check_expr].
      rewrite Ca, Ci, (infer_of_EQ a c (conj Ia (conj Ra Ca))), (infer_of_EQ i c (conj Ii (conj Ri Ci))). reflexivity.
  - destruct IHo as (Eo & _). pose proof Eo as (Io & Ro & Co).
    split; [|exact Eo]. refine (conj _ (conj _ _)).
    + reflexivity.
    + intro c. cbn [erase_expr root_declared]. apply Ro.
    + intro c. cbn [erase_expr check_expr]. apply Co.
  - split; [|exact I]. refine (conj _ (conj _ _)).
    + intros sig c. cbn [erase_expr].
      destruct callee as [x | s | segs | b | | f l | op a b | op a | es | a i | o f | c0 args0 t0];
        try reflexivity.
      * cbn [erase_expr infer_in]. destruct (global_lookup f); [reflexivity|].
        destruct sig as [body|]; cbn [esig option_map]; [rewrite defines_in_erase|]; reflexivity.
      * cbn [erase_expr infer_in]. destruct IHc as (_ & (Io & _ & _)). rewrite Io. reflexivity.
    + reflexivity.
    + intro c. cbn [erase_expr check_expr].
      assert (A0 : match map erase_expr args with a :: _ => Some (infer c a) | [] => None end =
                   match args with a :: _ => Some (infer c a) | [] => None end).
      { destruct args as [|a r]; [reflexivity|]. cbn [map]. inversion IHargs; subst.
        rewrite (infer_of_EQ a c (proj1 H1)). reflexivity. }
      assert (AF : flat_map (check_expr c) (map erase_expr args) = flat_map (check_expr c) args).
      { apply flat_map_map_ext. eapply Forall_impl; [|exact IHargs]. intros e ((_ & _ & C) & _). apply C. }
      rewrite A0, AF, map_length.
      pose proof (proj2 (proj2 (proj1 IHc)) c) as Ec.
      destruct callee as [x | s | segs | b | | f l | op a b | op a | es | a i | o f | c0 args0 t0];
        try exact (f_equal (fun z => z ++ flat_map (check_expr c) args) Ec).
      * reflexivity.
      * destruct IHc as (_ & (Io & Ro & Co)). cbn [erase_expr]. rewrite Co.
        rewrite (member_call_rules_ext c (erase_expr o) o f _ _ (infer_of_EQ o c (conj Io (conj Ro Co))) (Ro c)). reflexivity.
Qed.

Lemma infer_in_erase e sig c : infer_in (esig sig) c (erase_expr e) = infer_in sig c e.
Proof. exact (proj1 (proj1 (expr_EQ2 e)) sig c). Qed.
Lemma infer_erase e c : infer c (erase_expr e) = infer c e.
Proof. exact (infer_in_erase e None c). Qed.
Lemma check_expr_erase e c : check_expr c (erase_expr e) = check_expr c e.
Proof. exact (proj2 (proj2 (proj1 (expr_EQ2 e))) c). Qed.
Lemma cond_rules_erase e c : cond_rules c (erase_expr e) = cond_rules c e.
Proof. unfold cond_rules. rewrite infer_erase. reflexivity. Qed.

(* ================================================================== signatures of a block *)

Lemma ret_types_stmt_erase sig c : forall s,
  ret_types_stmt (esig sig) c (erase_stmt s) = ret_types_stmt sig c s.
Proof.
  induction s as [sid n ps body fid ls ll IHb | sid n l e | sid n l e | sid tg e | sid cnd t fb IHt IHf
                 | sid cnd b IHb | sid b IHb | sid eo | sid | sid | sid e] using stmt_ind';
    cbn [erase_stmt ret_types_stmt]; try reflexivity.
  - rewrite (flat_map_map_ext _ _ _ _ IHt). destruct fb as [fb|]; cbn [option_map]; [|reflexivity].
    rewrite (flat_map_map_ext _ _ _ _ IHf). reflexivity.
  - apply flat_map_map_ext. exact IHb.
  - apply flat_map_map_ext. exact IHb.
  - destruct eo as [e|]; cbn [option_map]; [|reflexivity]. rewrite infer_in_erase. reflexivity.
Qed.

Lemma ret_type_of_erase c sigs body : ret_type_of c sigs (map erase_stmt body) = ret_type_of c sigs body.
Proof.
  unfold ret_type_of. f_equal.
  destruct src_signature_names_dynamic.
  - change (Some (map erase_stmt body)) with (esig (Some body)).
    apply flat_map_map_ext. apply Forall_all. intro s. apply ret_types_stmt_erase.
  - change (@None (list stmt)) with (esig None).
    apply flat_map_map_ext. apply Forall_all. intro s. apply ret_types_stmt_erase.
Qed.

Definition ereg (r : fsig * list stmt) : fsig * list stmt := (fst r, map erase_stmt (snd r)).
Definition emap (regs : list (fsig * list stmt)) := map ereg regs.

Lemma emap_fst regs : map fst (emap regs) = map fst regs.
Proof. unfold emap. rewrite map_map. apply map_ext. intros [g b]. reflexivity. Qed.

Lemma registered_erase : forall b seen, registered seen (map erase_stmt b) = emap (registered seen b).
Proof.
  induction b as [|s r IH]; intro seen; [reflexivity|].
  destruct s; cbn [map erase_stmt registered]; try apply IH.
  destruct (mem_name n seen); [apply IH|]. cbn [emap map ereg fst snd]. rewrite IH. reflexivity.
Qed.

Lemma sweep_erase c : forall todo done,
  sweep c (emap done) (emap todo) = (emap (fst (sweep c done todo)), snd (sweep c done todo)).
Proof.
  induction todo as [|[g body] r IH]; intro done; [reflexivity|].
  cbn [emap map sweep]. change (ereg (g, body)) with (g, map erase_stmt body).
  change (map ereg done) with (emap done). change (map ereg r) with (emap r).
  assert (E1 : map fst (emap done ++ (g, map erase_stmt body) :: emap r) = map fst (done ++ (g, body) :: r)).
  { rewrite !map_app. cbn [map fst]. rewrite !emap_fst. reflexivity. }
  rewrite E1, ret_type_of_erase.
  set (t := ret_type_of c (map fst (done ++ (g, body) :: r)) body).
  set (g' := {| fg_name := fg_name g; fg_arity := fg_arity g; fg_ret := t |}).
  replace (emap done ++ [(g', map erase_stmt body)]) with (emap (done ++ [(g', body)]))
    by (unfold emap; rewrite map_app; reflexivity).
  rewrite IH. destruct (sweep c (done ++ [(g', body)]) r) as [res ch]. reflexivity.
Qed.

Lemma refine_erase c : forall n regs, refine n c (emap regs) = emap (refine n c regs).
Proof.
  induction n as [|n IH]; intro regs; [reflexivity|].
  cbn [refine]. change (@nil (fsig * list stmt)) with (emap []) at 1. rewrite sweep_erase.
  destruct (sweep c [] regs) as [regs' ch]. cbn [fst snd]. destruct ch; [apply IH | reflexivity].
Qed.

Lemma sigs_of_erase c b : sigs_of c (map erase_stmt b) = sigs_of c b.
Proof.
  unfold sigs_of. rewrite registered_erase. unfold emap at 1. rewrite map_length.
  rewrite refine_erase, emap_fst. reflexivity.
Qed.

Lemma enter_block_erase c b : enter_block c (map erase_stmt b) = enter_block c b.
Proof. unfold enter_block. rewrite sigs_of_erase. reflexivity. Qed.

(* ================================================================== statements *)

Lemma local_rules_erase c seen s : local_rules c seen (erase_stmt s) = local_rules c seen s.
Proof.
  destruct s as [sid n ps body fid ls ll | sid n l e | sid n l e | sid tg e | sid cnd t fb
                 | sid cnd b | sid b | sid eo | sid | sid | sid e];
    cbn [erase_stmt local_rules]; rewrite ?check_expr_erase, ?cond_rules_erase; try reflexivity.
  destruct eo as [e|]; cbn [option_map]; rewrite ?check_expr_erase; reflexivity.
Qed.

Lemma after_erase c s : after c (erase_stmt s) = after c s.
Proof. destruct s; cbn [erase_stmt after]; rewrite ?infer_erase; reflexivity. Qed.

Lemma see_erase seen s : see seen (erase_stmt s) = see seen s.
Proof. destruct s; reflexivity. Qed.

Definition CS (s : stmt) : Prop := forall c seen, check_stmt c seen (erase_stmt s) = check_stmt c seen s.

Lemma check_stmts_erase : forall l, Forall CS l ->
  forall c seen i, check_stmts c seen i (map erase_stmt l) = check_stmts c seen i l.
Proof.
  induction 1 as [|s r Hs _ IH]; intros c seen i; [reflexivity|].
  cbn [map]. rewrite !check_stmts_cons, Hs, after_erase, see_erase, IH. reflexivity.
Qed.

Lemma check_block_erase c b : Forall CS b -> check_block c (map erase_stmt b) = check_block c b.
Proof. intro H. rewrite !check_block_unfold, enter_block_erase. apply check_stmts_erase. exact H. Qed.

Lemma check_stmt_erase : forall s, CS s.
Proof.
  induction s as [sid n ps body fid ls ll IHb | sid n l e | sid n l e | sid tg e | sid cnd t fb IHt IHf
                 | sid cnd b IHb | sid b IHb | sid eo | sid | sid | sid e] using stmt_ind';
    intros c seen; rewrite !check_stmt_unfold, local_rules_erase; f_equal; cbn [erase_stmt nested]; try reflexivity.
  - rewrite (check_block_erase _ _ IHb). reflexivity.
  - rewrite (check_block_erase _ _ IHt). destruct fb as [fb|]; cbn [option_map]; [|reflexivity].
    rewrite (check_block_erase _ _ IHf). reflexivity.
  - rewrite (check_block_erase _ _ IHb). reflexivity.
  - rewrite (check_block_erase _ _ IHb). reflexivity.
Qed.

Theorem check_erase : forall p, StaticRules.check (erase_ids p) = StaticRules.check p.
Proof.
  intro p. unfold StaticRules.check, erase_ids. apply (check_block_erase cx0 p).
  apply Forall_all. apply check_stmt_erase.
Qed.

(* ================================================================== the reference semantics reads names only *)
Require Import NS.theories.StrLib NS.theories.Spec NS.proofs.SpecUnfold.
Require NS.theories.NumParse NS.theories.CaseMap.

Definition ecl (cl : closure) : closure :=
  {| c_name := c_name cl; c_params := c_params cl; c_body := erase_ids (c_body cl);
     c_frame := c_frame cl; c_vis := c_vis cl |}.
Definition efr (f : frame) : frame :=
  {| fr_slots := fr_slots f; fr_fns := map ecl (fr_fns f); fr_parent := fr_parent f |}.
Definition eh (h : heap) : heap := map efr h.

Definition smap {A B} (g : A -> B) (m : SM A) : SM B :=
  (fst m, match snd m with
          | SOk a => SOk (g a) | SErr e => SErr e | SStuck => SStuck | SFuel => SFuel | SUnsupp => SUnsupp
          end).

Definition GH {A} (x : A * heap) : A * heap := (fst x, eh (snd x)).

Lemma smap_sret {A B} (g : A -> B) (a : A) : smap g (sret a) = sret (g a).
Proof. reflexivity. Qed.

Lemma smap_of_res {A B} (g : A -> B) (r : res A) : smap g (of_res r) = of_res (match r with Ok a => Ok (g a) | Err e => Err e | Panic p => Panic p | Fuel => Fuel | Unsupp => Unsupp end).
Proof. destruct r; reflexivity. Qed.

Lemma nth_eh h i : nth_error (eh h) i = option_map efr (nth_error h i).
Proof. unfold eh. apply nth_error_map. Qed.

Lemma resolve_var_eh n : forall c h, resolve_var (eh h) n c = resolve_var h n c.
Proof.
  induction c as [|[fid vis] r IH]; intro h; [reflexivity|].
  cbn [resolve_var]. rewrite nth_eh. destruct (nth_error h fid) as [f|]; cbn [option_map]; [|reflexivity].
  cbn [efr fr_slots]. rewrite IH. reflexivity.
Qed.

Lemma read_var_eh h n c : read_var (eh h) n c = read_var h n c.
Proof.
  unfold read_var. rewrite resolve_var_eh. destruct (resolve_var h n c) as [[fid|]|]; try reflexivity.
  rewrite nth_eh. destruct (nth_error h fid); reflexivity.
Qed.

Lemma set_nth_eh : forall h i f, set_nth_frame (eh h) i (efr f) = eh (set_nth_frame h i f).
Proof.
  induction h as [|x r IH]; intros [|k] f; try reflexivity.
  cbn [eh map set_nth_frame]. f_equal. apply IH.
Qed.

Lemma write_var_eh h n c v : write_var (eh h) n c v = smap eh (write_var h n c v).
Proof.
  unfold write_var. rewrite resolve_var_eh. destruct (resolve_var h n c) as [[fid|]|]; try reflexivity.
  rewrite nth_eh. destruct (nth_error h fid) as [f|]; cbn [option_map]; [|reflexivity].
  cbn [efr fr_slots fr_fns fr_parent]. destruct (slot_set n v (fr_slots f)) as [sl|]; [|reflexivity].
  rewrite smap_sret. f_equal.
  exact (set_nth_eh h fid {| fr_slots := sl; fr_fns := fr_fns f; fr_parent := fr_parent f |}).
Qed.

Lemma declare_var_eh h cur n v : declare_var (eh h) cur n v = smap eh (declare_var h cur n v).
Proof.
  unfold declare_var. rewrite nth_eh. destruct (nth_error h cur) as [f|]; cbn [option_map]; [|reflexivity].
  cbn [efr fr_slots fr_fns fr_parent]. rewrite smap_sret. f_equal.
  exact (set_nth_eh h cur {| fr_slots := match slot_set n v (fr_slots f) with Some sl => sl | None => fr_slots f ++ [(n, v)] end;
                             fr_fns := fr_fns f; fr_parent := fr_parent f |}).
Qed.

Lemma find_closure_ecl n : forall cs, find_closure n (map ecl cs) = option_map ecl (find_closure n cs).
Proof.
  induction cs as [|cl r IH]; [reflexivity|]. cbn [map find_closure ecl c_name].
  destruct (bytes_eqb (c_name cl) n); [reflexivity | exact IH].
Qed.

Lemma resolve_fn_eh n : forall c h, resolve_fn (eh h) n c = option_map ecl (resolve_fn h n c).
Proof.
  induction c as [|[fid vis] r IH]; intro h; [reflexivity|].
  cbn [resolve_fn]. rewrite nth_eh. destruct (nth_error h fid) as [f|]; cbn [option_map]; [|reflexivity].
  cbn [efr fr_fns]. rewrite find_closure_ecl. destruct (find_closure n (fr_fns f)); cbn [option_map]; [reflexivity | apply IH].
Qed.

Lemma eh_app h1 h2 : eh (h1 ++ h2) = eh h1 ++ eh h2.
Proof. unfold eh. apply map_app. Qed.
Lemma eh_length h : length (eh h) = length h.
Proof. unfold eh. apply map_length. Qed.

Lemma new_frame_eh h slots parent :
  new_frame (eh h) slots parent = (eh (fst (new_frame h slots parent)), snd (new_frame h slots parent)).
Proof. unfold new_frame. cbn [fst snd]. rewrite eh_app, eh_length. reflexivity. Qed.

Lemma with_fns_eh h fid cs : with_fns (eh h) fid (map ecl cs) = eh (with_fns h fid cs).
Proof.
  unfold with_fns. rewrite nth_eh. destruct (nth_error h fid) as [f|]; cbn [option_map]; [|reflexivity].
  cbn [efr fr_slots fr_parent].
  exact (set_nth_eh h fid {| fr_slots := fr_slots f; fr_fns := cs; fr_parent := fr_parent f |}).
Qed.

Lemma block_closures_erase fid : forall b seen acc,
  block_closures (erase_ids b) fid seen (map ecl acc) = map ecl (block_closures b fid seen acc).
Proof.
  unfold erase_ids. induction b as [|t r IH]; intros seen acc; [reflexivity|].
  destruct t; cbn [map erase_stmt block_closures]; try apply IH.
  exact (IH seen ({| c_name := n; c_params := ps; c_body := body; c_frame := fid; c_vis := seen |} :: acc)).
Qed.

Lemma flatten_named_erase : forall t acc,
  flatten_named (erase_expr t) (map erase_expr acc) =
  option_map (fun x => (fst x, map erase_expr (snd x))) (flatten_named t acc).
Proof.
  induction t; intro acc; cbn [erase_expr flatten_named]; try reflexivity.
  exact (IHt1 (t2 :: acc)).
Qed.

Lemma sinterp_eh h c : forall segs, sinterp (eh h) c (map erase_seg segs) = sinterp h c segs.
Proof.
  induction segs as [|[b|n l] r IH]; [reflexivity | |].
  - cbn [map erase_seg]. rewrite !sinterp_lit, IH. reflexivity.
  - cbn [map erase_seg]. rewrite !sinterp_var, read_var_eh, IH. reflexivity.
Qed.

Section SpecErase.
Variable eps : f64.

Definition EV := expr -> heap -> SM (value * heap).
Definition ev_ok (ev' ev : EV) : Prop := forall e h, ev' (erase_expr e) (eh h) = smap GH (ev e h).

Lemma sevals_with_eh ev' ev : ev_ok ev' ev -> forall es h,
  sevals_with ev' (map erase_expr es) (eh h) = smap GH (sevals_with ev es h).
Proof.
  intro H. induction es as [|e r IH]; intro h; [reflexivity|].
  cbn [map]. rewrite !sevals_with_cons, H.
  destruct (ev e h) as [o [[v h1]| | | | ]]; try reflexivity.
  cbn [smap sbind fst snd GH]. rewrite IH.
  destruct (sevals_with ev r h1) as [o2 [[vs h2]| | | | ]]; reflexivity.
Qed.

Lemma sindices_with_eh ev' ev : ev_ok ev' ev -> forall es h,
  sindices_with ev' (map erase_expr es) (eh h) = smap GH (sindices_with ev es h).
Proof.
  intro H. induction es as [|e r IH]; intro h; [reflexivity|].
  cbn [map]. rewrite !sindices_with_cons, H.
  destruct (ev e h) as [o [[v h1]| | | | ]]; try reflexivity.
  cbn [smap sbind fst snd GH]. destruct (index_value v) as [i| | | | ]; try reflexivity.
  cbn [of_res sret sbind]. rewrite IH.
  destruct (sindices_with ev r h1) as [o2 [[vs h2]| | | | ]]; reflexivity.
Qed.

Lemma smutate_with_eh ev' ev c : ev_ok ev' ev -> forall o op h,
  smutate_with ev' c (erase_expr o) op (eh h) = smap GH (smutate_with ev c o op h).
Proof.
  intros H o op h. destruct o; try reflexivity.
  - (* variable *)
    cbn [erase_expr smutate_with]. rewrite read_var_eh.
    destruct (read_var h n c) as [o1 [root| | | | ]]; try reflexivity.
    cbn [sbind]. destruct (mutate_path root [] op) as [[root' r]| | | | ]; try reflexivity.
    cbn [of_res sret sbind]. rewrite write_var_eh.
    destruct (write_var h n c root') as [o2 [h'| | | | ]]; reflexivity.
  - (* index chain *)
    change (erase_expr (EIdx o1 o2)) with (EIdx (erase_expr o1) (erase_expr o2)).
    cbn [smutate_with]. change (EIdx (erase_expr o1) (erase_expr o2)) with (erase_expr (EIdx o1 o2)).
    change (@nil expr) with (map erase_expr []) at 1. rewrite flatten_named_erase.
    destruct (flatten_named (EIdx o1 o2) []) as [[vn idx]|]; cbn [option_map fst snd]; [|reflexivity].
    rewrite (sindices_with_eh _ _ H).
    destruct (sindices_with ev idx h) as [o3 [[path h1]| | | | ]]; try reflexivity.
    cbn [smap sbind fst snd GH]. rewrite read_var_eh.
    destruct (read_var h1 vn c) as [o4 [root| | | | ]]; try reflexivity.
    cbn [sbind]. destruct (mutate_path root path op) as [[root' r]| | | | ]; try reflexivity.
    cbn [of_res sret sbind]. rewrite write_var_eh.
    destruct (write_var h1 vn c root') as [o5 [h'| | | | ]]; reflexivity.
Qed.

Lemma sstmts_with_eh (ex' ex : stmt -> heap -> SM (flow * heap)) :
  (forall t h, ex' (erase_stmt t) (eh h) = smap GH (ex t h)) -> forall ts h,
  sstmts_with ex' (map erase_stmt ts) (eh h) = smap GH (sstmts_with ex ts h).
Proof.
  intro H. induction ts as [|t r IH]; intro h; [reflexivity|].
  cbn [map]. rewrite !sstmts_with_cons, H.
  destruct (ex t h) as [o [[fl h1]| | | | ]]; try reflexivity.
  cbn [smap sbind fst snd GH]. destruct fl; try reflexivity. rewrite IH.
  destruct (sstmts_with ex r h1) as [o2 [[fl2 h2]| | | | ]]; reflexivity.
Qed.

End SpecErase.

Section SpecStep.
Variable eps : f64.
Variable n : nat.
Hypothesis HA : forall e c h, seval eps n (erase_expr e) c (eh h) = smap GH (seval eps n e c h).
Hypothesis HB : forall t c h, sexec eps n (erase_stmt t) c (eh h) = smap GH (sexec eps n t c h).
Hypothesis HC : forall cnd body c h,
  sloop eps n (erase_expr cnd) (erase_ids body) c (eh h) = smap GH (sloop eps n cnd body c h).
Hypothesis HD : forall b c h, sblock eps n (erase_ids b) c (eh h) = smap GH (sblock eps n b c h).

Ltac red1 := cbn [smap sbind sret serr sstuck GH fst snd of_res app].

(* push the erasure through one layer of binds and matches: rewrite the recursive calls with the
   hypotheses, case on their results, case on the scrutinised values *)
Ltac crunch :=
  repeat first
    [ progress red1
    | rewrite HA
    | rewrite read_var_eh
    | rewrite write_var_eh
    | rewrite declare_var_eh
    | match goal with
      | |- context [seval eps n ?x ?c ?h] =>
          lazymatch x with
          | erase_expr _ => fail
          | _ => destruct (seval eps n x c h) as [? [[? ?]| ? | | | ]]
          end
      end
    | match goal with
      | |- context [declare_var ?h ?a ?b ?v] =>
          lazymatch h with eh _ => fail | _ => destruct (declare_var h a b v) as [? [?| ? | | | ]] end
      | |- context [write_var ?h ?a ?b ?v] =>
          lazymatch h with eh _ => fail | _ => destruct (write_var h a b v) as [? [?| ? | | | ]] end
      end
    | match goal with
      | |- context [sbind ?m _] =>
          lazymatch m with
          | context [eh _] => fail
          | context [erase_expr _] => fail
          | (_, _) => fail
          | _ => destruct m as [? [?| ? | | | ]]
          end
      end
    | match goal with
      | |- context [match ?x with _ => _ end] =>
          first [ is_var x
                | match type of x with
                  | bool => idtac
                  | option _ => lazymatch x with context [eh _] => fail | context [erase_expr _] => fail | _ => idtac end
                  | res _ => idtac
                  end ];
          destruct x
      end ].

Lemma ev_ok_n c : ev_ok (fun e h => seval eps n e c h) (fun e h => seval eps n e c h).
Proof. intros e h. apply HA. Qed.

Lemma scall_user_eh fname args c h :
  scall_user eps n fname (map erase_expr args) c (eh h) = smap GH (scall_user eps n fname args c h).
Proof.
  unfold scall_user. rewrite resolve_fn_eh. destruct (resolve_fn h fname c) as [cl|]; [|reflexivity].
  cbn [option_map]. rewrite (sevals_with_eh _ _ (ev_ok_n c)).
  destruct (sevals_with _ args h) as [o [[vs h1]| | | | ]]; try reflexivity.
  red1. cbn [ecl c_params c_frame c_vis c_body].
  destruct (negb (Nat.eqb (length vs) (length (c_params cl)))); [reflexivity|].
  rewrite nth_eh, new_frame_eh.
  destruct (nth_error h1 (c_frame cl)) as [df|]; cbn [option_map efr fr_parent].
  - destruct (new_frame h1 (sbindp (c_params cl) vs []) ((c_frame cl, Some (c_vis cl)) :: fr_parent df)) as [h2 pf].
    cbn [fst snd]. rewrite HD.
    destruct (sblock eps n (c_body cl) _ h2) as [o2 [[fl h3]| | | | ]]; try reflexivity.
    destruct fl; reflexivity.
  - destruct (new_frame h1 (sbindp (c_params cl) vs []) []) as [h2 pf].
    cbn [fst snd]. rewrite HD.
    destruct (sblock eps n (c_body cl) _ h2) as [o2 [[fl h3]| | | | ]]; try reflexivity.
    destruct fl; reflexivity.
Qed.

Lemma seval_step : forall e c h, seval eps (S n) (erase_expr e) c (eh h) = smap GH (seval eps (S n) e c h).
Proof.
  intros e c h. rewrite !seval_S. cbv zeta.
  destruct e as [x | s | segs | b | | vn l | op a b | op a | es | a i | o f | callee args t].
  - reflexivity.
  - reflexivity.
  - cbn [erase_expr]. rewrite sinterp_eh. destruct (sinterp h c segs) as [o [b| | | | ]]; reflexivity.
  - reflexivity.
  - reflexivity.
  - cbn [erase_expr]. crunch; reflexivity.
  - cbn [erase_expr]. destruct op; crunch; reflexivity.
  - cbn [erase_expr]. crunch; reflexivity.
  - cbn [erase_expr]. rewrite (sevals_with_eh _ _ (ev_ok_n c)).
    destruct (sevals_with _ es h) as [o [[vs h1]| | | | ]]; reflexivity.
  - cbn [erase_expr]. crunch; reflexivity.
  - reflexivity.
  - cbn [erase_expr].
    destruct callee as [x | s | segs | b | | fname l | op a b | op a | es | a i | o f | c0 args0 t0];
      try reflexivity.
    + (* a name *)
      cbn [erase_expr]. destruct (global_builtin fname) as [g|]; [|apply scall_user_eh].
      rewrite (sevals_with_eh _ _ (ev_ok_n c)).
      destruct (sevals_with _ args h) as [o [[vs h1]| | | | ]]; try reflexivity.
      red1. destruct vs as [|v [|v2 r]]; try reflexivity. destruct g; reflexivity.
    + (* a method *)
      cbn [erase_expr].
      destruct (Lang.mem_name f array_mut_methods).
      { destruct (bytes_eqb f n_push).
        - destruct args as [|a0 r]; [reflexivity|]. cbn [map]. rewrite HA.
          destruct (seval eps n a0 c h) as [o1 [[v h1]| | | | ]]; try reflexivity.
          red1. rewrite (smutate_with_eh _ _ c (ev_ok_n c)).
          destruct (smutate_with _ c o (MPush v) h1) as [o2 [[r2 h2]| | | | ]]; reflexivity.
        - destruct (bytes_eqb f n_pop); apply (smutate_with_eh _ _ c (ev_ok_n c)). }
      destruct (Lang.mem_name f proc_mut_names); [reflexivity|].
      destruct args as [|a0 [|a1 r]]; cbn [map]; crunch; reflexivity.
Qed.

Lemma sexec_step : forall t c h, sexec eps (S n) (erase_stmt t) c (eh h) = smap GH (sexec eps (S n) t c h).
Proof.
  intros t c h. rewrite !sexec_S. cbv zeta.
  destruct t as [sid fn ps body fid ls ll | sid vn l e | sid vn l e | sid tg e | sid cnd tb fb
                 | sid cnd b | sid b | sid eo | sid | sid | sid e]; cbn [erase_stmt].
  - reflexivity.
  - crunch; reflexivity.
  - crunch; reflexivity.
  - rewrite HA. destruct (seval eps n e c h) as [o [[v h1]| | | | ]]; try reflexivity. red1.
    change (@nil expr) with (map erase_expr []) at 1. rewrite flatten_named_erase.
    destruct (flatten_named tg []) as [[vn idx]|]; cbn [option_map fst snd]; [|reflexivity].
    rewrite (sindices_with_eh _ _ (ev_ok_n c)).
    destruct (sindices_with _ idx h1) as [o3 [[path h2]| | | | ]]; try reflexivity.
    crunch; reflexivity.
  - rewrite HA. destruct (seval eps n cnd c h) as [o [[v h1]| | | | ]]; try reflexivity. red1.
    destruct (truthy_cond v) as [b| | | | ]; try reflexivity. red1. destruct b.
    + change (map erase_stmt tb) with (erase_ids tb). rewrite HD.
      destruct (sblock eps n tb c h1) as [o2 [[fl h2]| | | | ]]; reflexivity.
    + destruct fb as [fb|]; cbn [option_map]; [|reflexivity].
      change (map erase_stmt fb) with (erase_ids fb). rewrite HD.
      destruct (sblock eps n fb c h1) as [o2 [[fl h2]| | | | ]]; reflexivity.
  - change (map erase_stmt b) with (erase_ids b). apply HC.
  - change (map erase_stmt b) with (erase_ids b). apply HD.
  - destruct eo as [e|]; cbn [option_map]; [|reflexivity]. crunch; reflexivity.
  - reflexivity.
  - reflexivity.
  - crunch; reflexivity.
Qed.

Lemma sloop_step : forall cnd body c h,
  sloop eps (S n) (erase_expr cnd) (erase_ids body) c (eh h) = smap GH (sloop eps (S n) cnd body c h).
Proof.
  intros cnd body c h. rewrite !sloop_S. rewrite HA.
  destruct (seval eps n cnd c h) as [o [[v h1]| | | | ]]; try reflexivity. red1.
  destruct (truthy_cond v) as [b| | | | ]; try reflexivity. red1. destruct b; cbn [negb]; [|reflexivity].
  rewrite HD. destruct (sblock eps n body c h1) as [o2 [[fl h2]| | | | ]]; try reflexivity. red1.
  destruct fl; try reflexivity; rewrite HC;
    destruct (sloop eps n cnd body c h2) as [o3 [[fl3 h3]| | | | ]]; reflexivity.
Qed.

Lemma sblock_step : forall b c h, sblock eps (S n) (erase_ids b) c (eh h) = smap GH (sblock eps (S n) b c h).
Proof.
  intros b c h. rewrite !sblock_S. rewrite new_frame_eh.
  destruct (new_frame h [] c) as [h1 fid]. cbn [fst snd].
  change (@nil closure) with (map ecl []) at 1. rewrite block_closures_erase, with_fns_eh.
  unfold erase_ids. apply sstmts_with_eh. intros t h'. apply HB.
Qed.

End SpecStep.

Lemma spec_erase_all eps : forall n,
  (forall e c h, seval eps n (erase_expr e) c (eh h) = smap GH (seval eps n e c h)) /\
  (forall t c h, sexec eps n (erase_stmt t) c (eh h) = smap GH (sexec eps n t c h)) /\
  (forall cnd body c h,
     sloop eps n (erase_expr cnd) (erase_ids body) c (eh h) = smap GH (sloop eps n cnd body c h)) /\
  (forall b c h, sblock eps n (erase_ids b) c (eh h) = smap GH (sblock eps n b c h)).
Proof.
  induction n as [|n (HA & HB & HC & HD)].
  - refine (conj _ (conj _ (conj _ _))); intros; reflexivity.
  - refine (conj _ (conj _ (conj _ _))).
    + apply seval_step; assumption.
    + apply sexec_step; assumption.
    + apply sloop_step; assumption.
    + apply sblock_step; assumption.
Qed.

Theorem run_spec_erase : forall eps fuel p, run_spec eps fuel (erase_ids p) = run_spec eps fuel p.
Proof.
  intros eps fuel p. unfold run_spec.
  pose proof (proj2 (proj2 (proj2 (spec_erase_all eps fuel))) p [] []) as H. cbn [eh map] in H. rewrite H.
  destruct (sblock eps fuel p [] []) as [o [[fl h]| | | | ]]; reflexivity.
Qed.

(* two trees with the same names have the same documented meaning *)
Corollary run_spec_same_names : forall eps fuel p q,
  erase_ids p = erase_ids q -> run_spec eps fuel p = run_spec eps fuel q.
Proof. intros eps fuel p q E. rewrite <- (run_spec_erase eps fuel p), <- (run_spec_erase eps fuel q), E. reflexivity. Qed.
