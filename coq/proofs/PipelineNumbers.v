(* PipelineNumbers — every Number token the lexer model hands out carries a payload of the shape
   digits or digits '.' digits (Pipeline.number_literal), for every text and both lexer variants:
   the hypothesis of number_literal_parses is a FACT about the lexer's output.  Only the cursor
   equation c_rest = skipn c_pos s is needed for the scanner of numbers; that every cursor the
   token loop reaches satisfies it is LexerProofs' invariant (valid UTF-8). *)
From Coq Require Import ZArith List Bool Arith Lia.
Require Import NS.theories.Utf8 NS.theories.GenLexer NS.theories.Lexer NS.theories.Pipeline.
Require Import NS.proofs.Utf8Proofs NS.proofs.LexerProofs NS.proofs.PipelineProofs.
Require NS.proofs.FrontendProofs.
Import ListNotations.
Open Scope nat_scope.

Section Numbers.
Variable s : bytes.

Definition crest (c : cursor) : Prop := c_rest c = skipn (c_pos c) s.

Lemma crest_adv1 c : crest c -> crest (adv1 c).
Proof.
  unfold crest, adv1. cbn. intro H. rewrite H. clear H. generalize (c_pos c). intro n.
  revert s. induction n as [|n IH]; intro l; destruct l; cbn; try reflexivity. apply IH.
Qed.

Lemma crest_advn c n : crest c -> crest (advn n c).
Proof. unfold crest, advn. cbn. intro H. rewrite H. apply skipn_skipn'. Qed.

Lemma crest_cons r pos b t : crest {| c_rest := r; c_pos := pos |} -> r = b :: t ->
  crest {| c_rest := t; c_pos := S pos |}.
Proof.
  intros H E. pose proof (crest_adv1 _ H) as A. unfold adv1 in A. cbn in A. rewrite E in A. exact A.
Qed.

Lemma skip_while_span p : forall r pos, crest {| c_rest := r; c_pos := pos |} ->
  let c' := skip_while p r pos in
  crest c' /\ exists ds, r = ds ++ c_rest c' /\ forallb p ds = true /\ c_pos c' = pos + length ds /\
    match c_rest c' with b :: _ => p b = false | [] => True end.
Proof.
  induction r as [|b t IH]; intros pos H; cbn [skip_while].
  - split; [exact H|]. exists []. cbn. repeat split; auto.
  - destruct (p b) eqn:E.
    + destruct (IH (S pos) (crest_cons _ _ _ _ H eq_refl)) as (C & ds & R & F & P & St).
      split; [exact C|]. exists (b :: ds). cbn [app forallb length]. rewrite E, F, <- R.
      repeat split; auto. lia.
    + split; [exact H|]. exists []. cbn. repeat split; auto.
Qed.

Lemma crest_skip_whitespace c : crest c -> crest (skip_whitespace c).
Proof.
  intro H. unfold skip_whitespace.
  assert (H' : crest {| c_rest := c_rest c; c_pos := c_pos c |}) by exact H.
  exact (proj1 (skip_while_span is_ws _ _ H')).
Qed.

Lemma crest_skip_comment c : crest c -> crest (skip_comment c).
Proof.
  intro H. unfold skip_comment. pose proof (crest_advn c (memchr2 10 13 (c_rest c)) H) as A.
  destruct (c_rest (advn _ c)) as [|ch r]; [exact A|]. destruct (is_nl ch); [apply crest_adv1|]; exact A.
Qed.

Lemma slice_some a b x : slice s a b = Some x -> x = firstn (b - a) (skipn a s).
Proof. unfold slice. destruct (_ && _ && _ && _); intro H; inversion H. reflexivity. Qed.

Lemma firstn_app_len {A} (l r : list A) : firstn (length l) (l ++ r) = l.
Proof. rewrite firstn_app, Nat.sub_diag, firstn_all. cbn. apply app_nil_r. Qed.

Lemma digits_no_dot ds : forallb is_digit ds = true -> ds <> [] -> number_literal ds = true.
Proof.
  intros F N. unfold number_literal. rewrite <- (app_nil_r ds) at 1. rewrite (split_at_dot_digits ds [] F).
  cbn [split_at_dot fst snd]. rewrite app_nil_r. destruct ds; [congruence | exact F].
Qed.

Lemma digits_dot_digits d1 d2 : forallb is_digit d1 = true -> d1 <> [] -> forallb is_digit d2 = true -> d2 <> [] ->
  number_literal (d1 ++ 46%Z :: d2) = true.
Proof.
  intros F1 N1 F2 N2. unfold number_literal. rewrite (split_at_dot_digits d1 (46%Z :: d2) F1).
  cbn [split_at_dot Z.eqb Pos.eqb fst snd]. rewrite app_nil_r.
  destruct d1; [congruence|]. destruct d2; [congruence|]. unfold all_digits. rewrite F1, F2. reflexivity.
Qed.

(* the result of the part of scan_number behind the digits: the payload is the text from start *)
Lemma suffix_payload start c k p o c' ds :
  scan_number_suffix s start c = Ok (k, p, o, c', ds) ->
  k = TNumber /\ p = firstn (c_pos c - start) (skipn start s).
Proof.
  unfold scan_number_suffix. destruct (is_alpha_us _).
  - destruct (slice s start (c_pos c)) as [num|] eqn:Sl; intro H; inversion H; subst.
    split; [reflexivity | exact (slice_some _ _ _ Sl)].
  - destruct (slice s start (c_pos c)) as [num|] eqn:Sl; intro H; inversion H; subst.
    split; [reflexivity | exact (slice_some _ _ _ Sl)].
Qed.

Definition tok_ok3 (r : token * cursor * list diag) : Prop := tok_number_ok (fst (fst r)) = true.

Lemma scan_number_ok v c b after (k : cursor -> outcome (token * cursor * list diag)) kd p o c' ds :
  crest c -> c_rest c = b :: after -> is_digit b = true ->
  (forall c3 r, crest c3 -> k c3 = Ok r -> tok_ok3 r) ->
  scan_number v s (c_pos c) c k = Ok (kd, p, o, c', ds) ->
  (if tok_eqb kd TNumber then number_literal p else true) = true.
Proof.
  intros Cr Er Db Hk H. unfold scan_number in H.
  assert (Cr0 : crest {| c_rest := c_rest c; c_pos := c_pos c |}) by exact Cr.
  destruct (skip_while_span is_digit (c_rest c) (c_pos c) Cr0) as (C1 & d1 & R1 & F1 & P1 & St1).
  set (c1 := skip_while is_digit (c_rest c) (c_pos c)) in *.
  assert (N1 : d1 <> []).
  { intro E. subst d1. cbn in R1. rewrite <- R1, Er in St1. rewrite Db in St1. discriminate St1. }
  assert (TXT : skipn (c_pos c) s = d1 ++ c_rest c1) by (rewrite <- Cr; exact R1).
  assert (PLAIN : forall k0 p0 o0 c0 ds0, scan_number_suffix s (c_pos c) c1 = Ok (k0, p0, o0, c0, ds0) ->
                  (if tok_eqb k0 TNumber then number_literal p0 else true) = true).
  { intros k0 p0 o0 c0 ds0 E. destruct (suffix_payload _ _ _ _ _ _ _ E) as (-> & ->).
    rewrite P1. replace (c_pos c + length d1 - c_pos c) with (length d1) by lia.
    rewrite TXT, firstn_app_len. cbn. apply digits_no_dot; assumption. }
  destruct (c_rest c1) as [|dot t] eqn:E1; [exact (PLAIN _ _ _ _ _ H)|].
  destruct (dot =? 46)%Z eqn:Ed; [|exact (PLAIN _ _ _ _ _ H)].
  apply Z.eqb_eq in Ed. subst dot.
  assert (C2 : crest {| c_rest := t; c_pos := S (c_pos c1) |}).
  { apply (crest_cons (c_rest c1) (c_pos c1) 46%Z t); [destruct c1; exact C1 | exact E1]. }
  destruct (negb (is_digit (head_or_zero t))) eqn:Bd.
  - (* bad dot: the token is the next one *)
    match type of H with match k ?c3 with _ => _ end = _ => destruct (k c3) as [[[t' c4] ds']| |] eqn:Ek;
      [|discriminate H|discriminate H]; assert (C3 : crest c3) by (destruct (v_skip_byte_after_bad_dot v); [apply crest_adv1|]; exact C2) end.
    inversion H; subst. exact (Hk _ _ C3 Ek).
  - apply negb_false_iff in Bd.
    destruct (skip_while_span is_digit t (S (c_pos c1)) C2) as (C3 & d2 & R2 & F2 & P2 & St2).
    set (c2 := skip_while is_digit t (S (c_pos c1))) in *.
    assert (N2 : d2 <> []).
    { intro E. subst d2. cbn in R2. destruct t as [|b2 t2]; [cbn in Bd; discriminate Bd|]. cbn in Bd.
      rewrite <- R2 in St2. rewrite Bd in St2. discriminate St2. }
    cbn [c_rest c_pos] in H. fold c2 in H.
    destruct (suffix_payload _ _ _ _ _ _ _ H) as (-> & ->).
    rewrite P2, P1. replace (S (c_pos c + length d1) + length d2 - c_pos c) with (length (d1 ++ 46%Z :: d2))
      by (rewrite app_length; cbn [length]; lia).
    rewrite TXT, R2. replace (d1 ++ 46%Z :: d2 ++ c_rest c2) with ((d1 ++ 46%Z :: d2) ++ c_rest c2)
      by (rewrite <- app_assoc; reflexivity).
    rewrite firstn_app_len. cbn. apply digits_dot_digits; assumption.
Qed.

(* the other scanners never produce a Number token *)
Lemma table_kinds :
  forallb (fun e => negb (tok_eqb (snd e) TNumber)) punct_table = true /\
  forallb (fun e => negb (tok_eqb (snd e) TNumber)) keyword_table = true /\
  forallb (fun e => forallb (fun a => negb (tok_eqb (snd a) TNumber)) (snd e)) multi_table = true.
Proof. vm_compute. repeat split. Qed.

Lemma try_alternatives_kind : forall alts c k c',
  forallb (fun a => negb (tok_eqb (snd a) TNumber)) alts = true ->
  try_alternatives c alts = Some (k, c') -> tok_eqb k TNumber = false.
Proof.
  induction alts as [|[ws k0] r IH]; intros c k c' F H; cbn [try_alternatives] in H; [discriminate H|].
  cbn [forallb snd] in F. apply andb_true_iff in F. destruct F as [F0 Fr].
  destruct (consume_seq c ws) as [c1 ok]. destruct ok.
  - inversion H; subst. apply negb_true_iff. exact F0.
  - exact (IH _ _ _ Fr H).
Qed.

Lemma scan_ident_kind start c k p o c' ds :
  scan_identifier_or_keyword s start c = Ok (k, p, o, c', ds) -> tok_eqb k TNumber = false.
Proof.
  destruct table_kinds as (_ & Tk & Tm).
  unfold scan_identifier_or_keyword. destruct (slice s start _) as [word|]; [|discriminate].
  destruct (assoc_bytes word multi_table) as [alts|] eqn:Em.
  - destruct (assoc_bytes_in _ _ _ _ Em) as (w' & Hin).
    rewrite forallb_forall in Tm. pose proof (Tm _ Hin) as Fa. cbn [snd] in Fa.
    destruct (try_alternatives _ alts) as [[k1 c2]|] eqn:Et; intro H; inversion H; subst; [|reflexivity].
    exact (try_alternatives_kind _ _ _ _ Fa Et).
  - destruct (assoc_bytes word keyword_table) as [k1|] eqn:Ek; intro H; inversion H; subst; [|reflexivity].
    destruct (assoc_bytes_in _ _ _ _ Ek) as (w' & Hin). rewrite forallb_forall in Tk.
    pose proof (Tk _ Hin) as Fa. cbn [snd] in Fa. apply negb_true_iff. exact Fa.
Qed.

Lemma scan_string_loop_kind v : forall fuel start beg quote cur esc buf k p o c' ds,
  scan_string_loop fuel v s start beg quote cur esc buf = Ok (k, p, o, c', ds) -> k = TString.
Proof.
  induction fuel as [|fuel IH]; intros start beg quote cur esc buf k p o c' ds H; [discriminate H|].
  cbn [scan_string_loop] in H.
  repeat match type of H with
         | (if ?b then _ else _) = _ => destruct b
         | match ?x with _ => _ end = _ =>
             lazymatch x with
             | scan_string_loop _ _ _ _ _ _ _ _ _ =>
                 let E := fresh "E" in destruct x as [[[[[? ?] ?] ?] ?]| |] eqn:E;
                 [ apply IH in E | discriminate H | discriminate H ]
             | _ => destruct x
             end
         end; try discriminate H; try (inversion H; subst; reflexivity); try (inversion H; subst; assumption);
    try (eapply IH; exact H).
Qed.

Lemma next_token_number v : forall fuel c r, crest c -> next_token fuel v s c = Ok r -> tok_ok3 r.
Proof.
  induction fuel as [|fuel IH]; intros c r Cr H; [discriminate H|].
  cbn [next_token] in H. pose proof (crest_skip_whitespace c Cr) as C1.
  set (c1 := skip_whitespace c) in *.
  destruct (c_rest c1) as [|b after] eqn:E1.
  - inversion H; subst. reflexivity.
  - destruct (b =? 35)%Z.
    + exact (IH _ _ (crest_skip_comment _ C1) H).
    + destruct (mem_z b quote_bytes).
      * unfold finish, scan_string in H.
        destruct (scan_string_loop _ v s _ _ b _ false []) as [[[[[k p] o] c'] ds]| |] eqn:Es; try discriminate H.
        apply scan_string_loop_kind in Es. subst k. inversion H; subst. reflexivity.
      * destruct (assoc_z b punct_table) as [k|] eqn:Ep.
        -- cbn [finish mk_token] in H. inversion H; subst. unfold tok_ok3, tok_number_ok. cbn.
           destruct table_kinds as (Tp & _ & _). rewrite forallb_forall in Tp.
           pose proof (Tp _ (assoc_z_in _ _ _ _ Ep)) as Fa. cbn [snd] in Fa. apply negb_true_iff in Fa. rewrite Fa. reflexivity.
        -- destruct (is_digit b) eqn:Db.
           ++ unfold finish in H.
              destruct (scan_number v s (c_pos c1) c1 (next_token fuel v s)) as [[[[[k p] o] c'] ds]| |] eqn:En;
                try discriminate H.
              inversion H; subst. unfold tok_ok3, tok_number_ok. cbn.
              exact (scan_number_ok v c1 b after _ _ _ _ _ _ C1 E1 Db (fun c3 r0 C3 E3 => IH c3 r0 C3 E3) En).
           ++ destruct (is_alpha_us b).
              ** unfold finish in H.
                 destruct (scan_identifier_or_keyword s (c_pos c1) c1) as [[[[[k p] o] c'] ds]| |] eqn:Ei;
                   try discriminate H.
                 inversion H; subst. unfold tok_ok3, tok_number_ok. cbn. rewrite (scan_ident_kind _ _ _ _ _ _ _ Ei). reflexivity.
              ** destruct (negb (is_ascii b)).
                 --- match type of H with (if ?x then _ else _) = _ => destruct x; [discriminate H|] end.
                     unfold prepend_diag in H.
                     destruct (next_token fuel v s (advn (char_width b) c1)) as [[[t c'] ds]| |] eqn:En; try discriminate H.
                     inversion H; subst. exact (IH _ _ (crest_advn _ _ C1) En).
                 --- unfold prepend_diag in H.
                     destruct (next_token fuel v s (adv1 c1)) as [[[t c'] ds]| |] eqn:En; try discriminate H.
                     inversion H; subst. exact (IH _ _ (crest_adv1 _ C1) En).
Qed.

End Numbers.

(* every token of a valid text: the cursors of the token loop satisfy LexerProofs' invariant *)
Lemma lex_loop_numbers s (V : valid_utf8 s = true) v : v = Lexer.variant_of_source ->
  forall fuel c ts ds fin, cur_ok s c -> length (c_rest c) < fuel ->
  lex_loop fuel v s c = Ok (ts, ds, fin) -> Forall (fun t => tok_number_ok t = true) ts.
Proof.
  intros Ev. induction fuel as [|fuel IH]; intros c ts ds fin Ok0 Lf H; [discriminate H|].
  cbn [lex_loop] in H.
  destruct (next_token (token_fuel c) v s c) as [[[t c'] d0]| |] eqn:Nt; try discriminate H.
  pose proof (next_token_number s v _ c _ (proj1 Ok0) Nt) as Tn.
  destruct (is_eof t && (length s <=? c_pos c')) eqn:E.
  - inversion H; subst. constructor.
  - destruct (lex_loop fuel v s c') as [[[ts' ds'] fin']| |] eqn:LL; try discriminate H.
    inversion H; subst. constructor; [exact Tn|].
    destruct (FrontendProofs.lex_progress s c V (cur_ok_wf s c Ok0)) as (t2 & c2 & ds2 & N2 & W2 & _ & _ & Pr).
    rewrite Nt in N2. inversion N2; subst t2 c2 ds2.
    assert (Ok1 : cur_ok s c').
    { destruct W2 as (R & L & B). refine (conj R (conj L _)). rewrite R.
      apply Utf8Proofs.boundary_valid_suffix; assumption. }
    apply (IH c' ts' ds' fin Ok1); [|exact LL].
    destruct Pr as [Pr|(Ee & Pe)].
    + rewrite (cur_ok_len s c' Ok1). rewrite (cur_ok_len s c Ok0) in Lf. destruct Ok0 as (_ & L0 & _). destruct Ok1 as (_ & L1 & _). lia.
    + rewrite Ee in E. cbn in E. apply Nat.leb_gt in E. lia.
Qed.

Theorem lexer_numbers_are_literals : forall s, valid_utf8 s = true -> forall toks ds fin,
  lex Lexer.variant_of_source s = Ok (toks, ds, fin) -> Forall (fun t => tok_number_ok t = true) toks.
Proof.
  intros s V toks ds fin H. unfold lex in H.
  eapply (lex_loop_numbers s V _ eq_refl); [apply (cur_ok_start s V) | | exact H]. cbn. lia.
Qed.

Corollary front_numbers_are_literals : forall s d, valid_utf8 s = true -> front s = Front d ->
  Forall (fun t => tok_number_ok t = true) (fd_tokens d).
Proof.
  intros s d V Fd. destruct (front_inv s d Fd) as (fin & L & _). exact (lexer_numbers_are_literals s V _ _ _ L).
Qed.
