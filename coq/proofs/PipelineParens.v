(* PipelineParens — redundant parentheses, end to end: two source texts that lex (without
   diagnostics) to `make <name> get <expression tokens>` whose expression tokens print two
   annotated trees with the same erasure (= differ only in parentheses the grammar does not need)
   have the same named AST, hence literally the same outcome under both runners.
   Composition of PARSER_make_statement_roundtrip with the observation that the parser builds the
   string parts of a literal from its raw text (so the abstraction abs_expr of C01's Pratt model
   determines the named AST). *)
From Coq Require Import ZArith List Bool Arith Lia.
Require Import NS.theories.Utf8 NS.theories.GenLexer NS.theories.Lexer NS.theories.GenParser NS.theories.Parser.
Require Import NS.theories.Pipeline.
Require NS.theories.F64 NS.theories.Lang NS.theories.Spec NS.theories.StaticRules NS.theories.Pratt
        NS.theories.Template NS.theories.GenTemplate NS.theories.GenPratt.
Require Import NS.proofs.ParserProofs NS.proofs.ParserPratt NS.proofs.ParserTheorems NS.proofs.PipelineProofs.
Import ListNotations.
Open Scope nat_scope.

(* every string node carries the parts computed from its own raw text *)
Fixpoint canon (e : sexpr) : Prop :=
  match e with
  | XStr raw owned parts _ => parts = Template.parse_string_literal GenTemplate.variant_of_source raw owned
  | XBin _ l r _ => canon l /\ canon r
  | XUn _ a _ => canon a
  | XArr es _ => (fix all (l : list sexpr) : Prop := match l with [] => True | x :: r => canon x /\ all r end) es
  | XIdx a i _ _ => canon a /\ canon i
  | XMember o _ _ _ => canon o
  | XCall c args _ =>
      canon c /\ (fix all (l : list sexpr) : Prop := match l with [] => True | x :: r => canon x /\ all r end) args
  | _ => True
  end.

Fixpoint canon_all (l : list sexpr) : Prop := match l with [] => True | x :: r => canon x /\ canon_all r end.

Lemma canon_arr es sp : canon (XArr es sp) <-> canon_all es.
Proof. cbn [canon]. induction es as [|x r IH]; cbn [canon_all]; tauto. Qed.
Lemma canon_call c args sp : canon (XCall c args sp) <-> canon c /\ canon_all args.
Proof. cbn [canon]. induction args as [|x r IH]; cbn [canon_all]; tauto. Qed.

(* the expression parser only builds canonical trees *)
Lemma expr_canon v : forall f,
  (forall m st e st', parse_expression f v m st = Done (e, st') -> canon e) /\
  (forall lhs m st e st', canon lhs -> continuation f v lhs m st = Done (e, st') -> canon e) /\
  (forall closer bp st es st', exprs_loop f v closer bp st = Done (es, st') -> canon_all es).
Proof.
  induction f as [|f (IHe & IHc & IHl)]; [repeat split; intros; discriminate|].
  refine (conj _ (conj _ _)).
  - intros m st e st' E. rewrite parse_expression_S in E. cbv zeta in E.
    match type of E with (let* p := ?prim in _) = _ => destruct prim as [[lhs st1]|] eqn:P; [|discriminate E] end.
    apply (IHc lhs m st1 e st'); [|exact E].
    destruct (kind st); try (inversion P; subst; exact I).
    + inversion P; subst. reflexivity.
    + destruct (parse_expression f v _ _) as [[a st2]|] eqn:Ea; [|discriminate P]. inversion P; subst.
      exact (IHe _ _ _ _ Ea).
    + destruct (parse_expression f v _ _) as [[a st2]|] eqn:Ea; [|discriminate P]. inversion P; subst.
      exact (IHe _ _ _ _ Ea).
    + destruct (parse_expression f v _ _) as [[a st2]|] eqn:Ea; [|discriminate P]. inversion P; subst.
      exact (IHe _ _ _ _ Ea).
    + destruct (tok_eqb _ TRBracket) eqn:K.
      * cbn in P. destruct (tok_eqb _ TRBracket) in P; inversion P; subst; apply canon_arr; exact I.
      * destruct (exprs_loop f v _ _ _) as [[es st2]|] eqn:El; [|discriminate P].
        cbn in P. destruct (tok_eqb _ TRBracket) in P; inversion P; subst; apply canon_arr; exact (IHl _ _ _ _ _ El).
  - intros lhs m st e st' Hl E. rewrite continuation_S in E. cbv zeta in E.
    destruct (tok_eqb (kind st) TDot).
    + destruct (name_or_placeholder _ _ _) as [field st2]. refine (IHc _ _ _ _ _ _ E). exact Hl.
    + destruct (tok_eqb (kind st) TLParen).
      * destruct (tok_eqb _ TRParen).
        -- cbn in E. refine (IHc _ _ _ _ _ _ E). apply canon_call. exact (conj Hl I).
        -- destruct (exprs_loop f v _ _ _) as [[args st2]|] eqn:El; [|discriminate E].
           cbn in E. refine (IHc _ _ _ _ _ _ E). apply canon_call. exact (conj Hl (IHl _ _ _ _ _ El)).
      * destruct (tok_eqb (kind st) TLBracket).
        -- destruct (parse_expression f v _ _) as [[idx st2]|] eqn:Ei; [|discriminate E].
           cbn in E. refine (IHc _ _ _ _ _ _ E). exact (conj Hl (IHe _ _ _ _ Ei)).
        -- destruct (binop_of_tok (kind st)) as [op|]; [|inversion E; subst; exact Hl].
           destruct (l_bp op <? m)%Z; [inversion E; subst; exact Hl|].
           destruct (parse_expression f v _ _) as [[rhs st2]|] eqn:Er; [|discriminate E].
           cbn in E. refine (IHc _ _ _ _ _ _ E). exact (conj Hl (IHe _ _ _ _ Er)).
  - intros closer bp st es st' E. rewrite exprs_loop_S in E.
    destruct (parse_expression f v bp st) as [[e st1]|] eqn:Ee; [|discriminate E]. cbn in E.
    pose proof (IHe _ _ _ _ Ee) as Ce.
    destruct (tok_eqb (kind st1) TComma).
    + destruct (tok_eqb _ closer).
      * inversion E; subst. cbn. auto.
      * destruct (exprs_loop f v closer bp _) as [[es2 st3]|] eqn:El; [|discriminate E].
        inversion E; subst. cbn. split; [exact Ce | exact (IHl _ _ _ _ _ El)].
    + inversion E; subst. cbn. auto.
Qed.

(* on canonical trees the abstraction of C01's expression model determines the named AST *)
Lemma abs_expr_to_lang num : forall e1 e2, canon e1 -> canon e2 -> abs_expr e1 = abs_expr e2 ->
  to_lang_expr num e1 = to_lang_expr num e2.
Proof.
  induction e1 as [t sp | raw owned parts sp | b sp | sp | n sp | op l r sp IHl IHr | op a sp IHa | es sp IHes
                 | a i isp sp IHa IHi | o f fsp sp IHo | c args sp IHc IHargs] using sexpr_ind';
    intros e2 C1 C2 A;
    destruct e2 as [t2 sp2 | raw2 owned2 parts2 sp2 | b2 sp2 | sp2 | n2 sp2 | op2 l2 r2 sp2 | op2 a2 sp2 | es2 sp2
                   | a2 i2 isp2 sp2 | o2 f2 fsp2 sp2 | c2 args2 sp2];
    cbn [abs_expr] in A;
    try (destruct b); try (destruct b2); try (destruct owned); try (destruct owned2);
    try discriminate A; try reflexivity.
  all: try (inversion A; subst; reflexivity).
  - (* two owned strings *) inversion A; subst. cbn [canon] in C1, C2. subst. reflexivity.
  - (* two borrowed strings *) inversion A; subst. cbn [canon] in C1, C2. subst. reflexivity.
  - inversion A; subst. cbn [canon] in C1, C2. cbn [to_lang_expr].
    rewrite (IHl l2 (proj1 C1) (proj1 C2) H1), (IHr r2 (proj2 C1) (proj2 C2) H2). reflexivity.
  - inversion A; subst. cbn [to_lang_expr]. rewrite (IHa a2 C1 C2 H1). reflexivity.
  - injection A as M. cbn [to_lang_expr]. f_equal. apply (proj1 (canon_arr _ _)) in C1. apply (proj1 (canon_arr _ _)) in C2.
    revert es2 C2 M. induction IHes as [|x xs Hx _ IH]; intros [|y ys] C2 M; try discriminate M; [reflexivity|].
    cbn [map] in *. inversion M. destruct C1 as [Cx C1]. destruct C2 as [Cy C2].
    rewrite (Hx y Cx Cy H0), (IH C1 ys C2 H1). reflexivity.
  - inversion A; subst. cbn [canon] in C1, C2. cbn [to_lang_expr].
    rewrite (IHa a2 (proj1 C1) (proj1 C2) H0), (IHi i2 (proj2 C1) (proj2 C2) H1). reflexivity.
  - inversion A; subst. cbn [to_lang_expr]. rewrite (IHo o2 C1 C2 H0). reflexivity.
  - injection A as Mc M. apply (proj1 (canon_call _ _ _)) in C1. apply (proj1 (canon_call _ _ _)) in C2.
    destruct C1 as [Cc1 C1]. destruct C2 as [Cc2 C2]. cbn [to_lang_expr]. rewrite (IHc c2 Cc1 Cc2 Mc). f_equal.
    clear Mc. revert args2 C2 M. induction IHargs as [|x xs Hx _ IH]; intros [|y ys] C2 M; try discriminate M; [reflexivity|].
    cbn [map] in *. inversion M. destruct C1 as [Cx C1]. destruct C2 as [Cy C2].
    rewrite (Hx y Cx Cy H0), (IH C1 ys C2 H1). reflexivity.
Qed.

(* the value of a declaration the parser builds is canonical *)
Lemma parse_assignment_canon pe st x xsp se sp st' :
  (forall m st e st', pe m st = Done (e, st') -> canon e) ->
  parse_assignment pe st = Done (YMake x xsp se sp, st') -> canon se.
Proof.
  intros Hpe E. unfold parse_assignment in E. cbv zeta in E.
  destruct (if tok_eqb _ TIdentifier then _ else _) as [[var var_sp] st2].
  destruct (tok_eqb _ TGet).
  - destruct (pe _ _) as [[e st4]|] eqn:Ee; [|discriminate E]. inversion E; subst. exact (Hpe _ _ _ _ Ee).
  - inversion E; subst. exact I.
Qed.

Lemma make_statement_canon v mk rest p x xsp se sp :
  t_kind mk = TMake -> parse_program v (mk :: rest) = Done p -> p_stmts p = [YMake x xsp se sp] -> canon se.
Proof.
  intros Km P S. unfold parse_program, parse_from in P.
  assert (F : program_fuel (mk :: rest) = Datatypes.S (Datatypes.S (3 * length rest + 5))).
  { unfold program_fuel. cbn [length]. lia. }
  rewrite F in P. cbv zeta in P. rewrite program_loop_S in P.
  assert (K0 : kind (init (mk :: rest)) = TMake) by exact Km.
  rewrite K0 in P. change (mem_tok TMake stmt_start_toks) with true in P. cbv iota in P.
  rewrite parse_statement_S in P. cbv zeta in P. rewrite K0 in P.
  remember (program_loop (Datatypes.S (3 * length rest + 5)) v) as PL eqn:EPL.
  destruct (parse_assignment _ (init (mk :: rest))) as [[s st1]|] eqn:Ea; [|discriminate P].
  destruct (PL st1) as [[ss st2]|]; [|discriminate P].
  inversion P; subst p. cbn [p_stmts] in S. inversion S; subst.
  eapply parse_assignment_canon; [|exact Ea]. intros m st e st' E. exact (proj1 (expr_canon v _) m st e st' E).
Qed.

(* (c) redundant parentheses, end to end *)
Theorem parens_redundant_end_to_end_lemma : forall eps fuel s1 s2 mk1 id1 gt1 ts1 f1 mk2 id2 gt2 ts2 f2
    (a1 a2 : Pratt.aexpr),
  lex Lexer.variant_of_source s1 = Ok (mk1 :: id1 :: gt1 :: ts1, [], f1) ->
  lex Lexer.variant_of_source s2 = Ok (mk2 :: id2 :: gt2 :: ts2, [], f2) ->
  t_kind mk1 = TMake -> t_kind id1 = TIdentifier -> t_kind gt1 = TGet ->
  t_kind mk2 = TMake -> t_kind id2 = TIdentifier -> t_kind gt2 = TGet ->
  t_payload id1 = t_payload id2 ->
  no_eof ts1 -> no_eof ts2 ->
  map abs_tok ts1 = Pratt.print a1 -> map abs_tok ts2 = Pratt.print a2 -> Pratt.erase a1 = Pratt.erase a2 ->
  (exists d1 d2, front s1 = Front d1 /\ front s2 = Front d2 /\
     fd_lex d1 = [] /\ fd_lex d2 = [] /\ p_diags (fd_parsed d1) = [] /\ p_diags (fd_parsed d2) = [] /\
     fd_ast d1 = fd_ast d2 /\ fd_viol d1 = fd_viol d2) /\
  run_source eps fuel s1 = run_source eps fuel s2 /\
  run_source_impl eps fuel s1 = run_source_impl eps fuel s2.
Proof.
  intros eps fuel s1 s2 mk1 id1 gt1 ts1 f1 mk2 id2 gt2 ts2 f2 a1 a2 L1 L2 K1 K2 K3 K4 K5 K6 Pid N1 N2 A1 A2 Er.
  destruct (make_statement_roundtrip Parser.variant_of_source mk1 id1 gt1 a1 ts1 K1 K2 K3 N1 A1)
    as (p1 & se1 & sp1 & P1 & D1 & S1 & B1 & _).
  destruct (make_statement_roundtrip Parser.variant_of_source mk2 id2 gt2 a2 ts2 K4 K5 K6 N2 A2)
    as (p2 & se2 & sp2 & P2 & D2 & S2 & B2 & _).
  pose proof (make_statement_canon _ _ _ _ _ _ _ _ K1 P1 S1) as C1.
  pose proof (make_statement_canon _ _ _ _ _ _ _ _ K4 P2 S2) as C2.
  assert (EA : to_lang num_of_text (p_stmts p1) = to_lang num_of_text (p_stmts p2)).
  { rewrite S1, S2. unfold to_lang. cbn [map to_lang_stmt]. rewrite Pid.
    rewrite (abs_expr_to_lang num_of_text se1 se2 C1 C2) by (rewrite B1, B2; exact Er). reflexivity. }
  pose proof (front_of_clean_lex _ _ _ L1) as F1. rewrite P1 in F1.
  pose proof (front_of_clean_lex _ _ _ L2) as F2. rewrite P2 in F2.
  split.
  - eexists _, _. refine (conj F1 (conj F2 _)). cbn. rewrite EA. repeat split; assumption.
  - unfold run_source, run_source_impl. rewrite F1, F2. cbn [spec_of_front impl_of_front].
    unfold rejecting_phase, rejection_of. cbn. rewrite D1, D2, EA. split; reflexivity.
Qed.

Lemma parser_builds_canonical_strings : forall v f m st e st',
  parse_expression f v m st = Done (e, st') -> canon e.
Proof. intros v f. exact (proj1 (expr_canon v f)). Qed.
