(* PipelineProofs — the front end of theories/Pipeline.v: the lazily reported lexer diagnostics,
   totality and span well-formedness on valid UTF-8 (C07 lexer theorem + PARSER totality), layout
   invariance (C10 lexer theorem + PARSER parse_ignores_spans + function application), the
   "rejected programs are never evaluated" facts, number literals. *)
From Coq Require Import ZArith List Bool Arith Lia.
Require Import NS.theories.Utf8 NS.theories.GenLexer NS.theories.Lexer NS.theories.GenParser NS.theories.Parser.
Require Import NS.theories.Layout NS.theories.Pipeline.
Require NS.theories.F64 NS.theories.Lang NS.theories.Spec NS.theories.NumParse NS.theories.StaticRules
        NS.theories.LexResolve.
Require Import NS.proofs.ParserProofs NS.proofs.ParserTheorems NS.proofs.LayoutProofs.
Require NS.proofs.FrontendProofs NS.proofs.NumParseProofs.
Import ListNotations.
Open Scope nat_scope.

(* ================================================================== lex_calls is a prefix of lex *)

Lemma lex_calls_prefix : forall fuel v s c ts ds fin,
  lex_loop fuel v s c = Ok (ts, ds, fin) ->
  forall n, exists pre post, lex_calls n v s c = Ok pre /\ ds = pre ++ post /\ (length ts < n -> post = []).
Proof.
  induction fuel as [|fuel IH]; intros v s c ts ds fin H n; [discriminate H|].
  cbn [lex_loop] in H.
  destruct n as [|n].
  - exists [], ds. cbn [lex_calls]. refine (conj eq_refl (conj eq_refl _)). intro L. inversion L.
  - cbn [lex_calls].
    destruct (next_token (token_fuel c) v s c) as [[[t c'] d0] | site p | ] eqn:NT; try discriminate H.
    destruct (is_eof t && (length s <=? c_pos c')) eqn:E.
    + inversion H; subst ts ds fin. exists d0, []. rewrite app_nil_r. auto.
    + destruct (lex_loop fuel v s c') as [[[ts' ds'] fin'] | site p | ] eqn:LL; try discriminate H.
      inversion H; subst ts ds fin.
      destruct (IH v s c' ts' ds' fin' LL n) as (pre & post & C & D & P).
      rewrite C. exists (d0 ++ pre), post. rewrite <- app_assoc, <- D.
      refine (conj eq_refl (conj eq_refl _)). cbn [length]. intro L. apply P. lia.
Qed.

Lemma lex_calls_of_lex : forall v s ts ds fin n,
  lex v s = Ok (ts, ds, fin) ->
  exists pre post, lex_calls n v s (start_cursor s) = Ok pre /\ ds = pre ++ post /\ (length ts < n -> post = []).
Proof. intros v s ts ds fin n H. exact (lex_calls_prefix _ _ _ _ _ _ _ H n). Qed.

Lemma lex_calls_nil : forall v s ts fin n,
  lex v s = Ok (ts, [], fin) -> lex_calls n v s (start_cursor s) = Ok [].
Proof.
  intros v s ts fin n H. destruct (lex_calls_of_lex v s ts [] fin n H) as (pre & post & C & D & _).
  symmetry in D. apply app_eq_nil in D. destruct D as [D _]. subst pre. exact C.
Qed.

(* ================================================================== what [front] is, unfolded *)

Lemma front_unfold : forall src toks ldiags fin p reported,
  lex Lexer.variant_of_source src = Ok (toks, ldiags, fin) ->
  parse_program Parser.variant_of_source toks = Done p ->
  lex_calls (calls_made p) Lexer.variant_of_source src (start_cursor src) = Ok reported ->
  front src = Front {| fd_tokens := toks; fd_lex_all := ldiags; fd_lex := reported; fd_parsed := p;
                       fd_ast := to_lang num_of_text (p_stmts p);
                       fd_viol := StaticRules.check (to_lang num_of_text (p_stmts p)) |}.
Proof. intros src toks ldiags fin p reported L P C. unfold front. rewrite L, P, C. reflexivity. Qed.

Lemma front_inv : forall src d, front src = Front d ->
  exists fin,
    lex Lexer.variant_of_source src = Ok (fd_tokens d, fd_lex_all d, fin) /\
    parse_program Parser.variant_of_source (fd_tokens d) = Done (fd_parsed d) /\
    lex_calls (calls_made (fd_parsed d)) Lexer.variant_of_source src (start_cursor src) = Ok (fd_lex d) /\
    fd_ast d = to_lang num_of_text (p_stmts (fd_parsed d)) /\
    fd_viol d = StaticRules.check (fd_ast d).
Proof.
  intros src d H. unfold front in H.
  destruct (lex Lexer.variant_of_source src) as [[[toks ldiags] fin] | site p | ] eqn:L; try discriminate H.
  destruct (parse_program Parser.variant_of_source toks) as [p|] eqn:P; try discriminate H.
  destruct (lex_calls (calls_made p) Lexer.variant_of_source src (start_cursor src)) as [rep | site q | ] eqn:C;
    try discriminate H.
  inversion H; subst d. cbn. exists fin. auto.
Qed.

(* ================================================================== (a) front_total *)

Definition front_wf (s : bytes) (d : front_data) : Prop :=
  lex Lexer.variant_of_source s = Ok (fd_tokens d, fd_lex_all d, length s) /\
  Forall (token_wf s) (fd_tokens d) /\ tokens_ordered 0 (fd_tokens d) /\
  Forall (diag_wf s) (fd_lex_all d) /\
  (exists unreported, fd_lex_all d = fd_lex d ++ unreported) /\
  Forall (diag_wf s) (fd_lex d) /\
  parse_program Parser.variant_of_source (fd_tokens d) = Done (fd_parsed d) /\
  result_spans_ok (in_text s) (fd_parsed d) /\
  Forall (fun g => span_wf s (fst (pd_span g)) (snd (pd_span g))) (p_diags (fd_parsed d)) /\
  p_pulled (fd_parsed d) <= length (fd_tokens d) /\
  fd_ast d = to_lang num_of_text (p_stmts (fd_parsed d)) /\
  fd_viol d = StaticRules.check (fd_ast d).

Theorem front_total_lemma : forall s, valid_utf8 s = true -> exists d, front s = Front d /\ front_wf s d.
Proof.
  intros s V.
  destruct (FrontendProofs.lex_total_spans_wf s V) as (toks & ds & L & F & D & O).
  destruct (parse_total_in_text s toks F O) as (p & R & W & PL).
  destruct (lex_calls_of_lex _ _ _ _ _ (calls_made p) L) as (pre & post & C & E & _).
  eexists. split; [exact (front_unfold s toks ds (length s) p pre L R C)|].
  unfold front_wf. cbn.
  refine (conj L (conj F (conj O (conj D (conj (ex_intro _ post E) (conj _ (conj R (conj W (conj _ (conj PL (conj eq_refl eq_refl))))))))))).
  - subst ds. apply Forall_app in D. exact (proj1 D).
  - exact (syntax_diagnostics_wf s toks p F O R).
Qed.

(* no front-end failure, for either runner, on valid UTF-8 *)
Lemma run_source_has_front : forall eps fuel s, valid_utf8 s = true -> forall f, run_source eps fuel s <> NoFront f.
Proof.
  intros eps fuel s V f. destruct (front_total_lemma s V) as (d & Fd & _).
  unfold run_source. rewrite Fd. cbn [spec_of_front].
  destruct (rejecting_phase d); [discriminate|]. destruct (Spec.run_spec eps fuel (fd_ast d)). discriminate.
Qed.

Lemma run_source_impl_has_front : forall eps fuel s, valid_utf8 s = true -> forall f, run_source_impl eps fuel s <> NoFront f.
Proof.
  intros eps fuel s V f. destruct (front_total_lemma s V) as (d & Fd & _).
  unfold run_source_impl. rewrite Fd. cbn [impl_of_front].
  destruct (rejecting_phase d); [discriminate|]. destruct (ids (fd_ast d)); [|discriminate].
  destruct (Lang.run_impl None eps fuel l). discriminate.
Qed.

Lemma runs_have_front : forall eps fuel s, valid_utf8 s = true ->
  (forall f, run_source eps fuel s <> NoFront f) /\ (forall f, run_source_impl eps fuel s <> NoFront f).
Proof. intros eps fuel s V. split; [apply run_source_has_front | apply run_source_impl_has_front]; exact V. Qed.

(* ================================================================== acceptance, rejection *)

Lemma rejecting_phase_none : forall d, rejecting_phase d = None <-> accepted d = true.
Proof.
  intro d. unfold rejecting_phase, accepted.
  destruct (is_nil (fd_lex d)), (is_nil (p_diags (fd_parsed d))), (is_nil (fd_viol d)); cbn; split; intro H;
    try discriminate H; reflexivity.
Qed.

Lemma is_nil_true {A} (l : list A) : is_nil l = true <-> l = [].
Proof. destruct l; cbn; split; intro H; try discriminate H; reflexivity. Qed.

Lemma accepted_iff : forall d, accepted d = true <->
  fd_lex d = [] /\ p_diags (fd_parsed d) = [] /\ fd_viol d = [].
Proof.
  intro d. unfold accepted. rewrite !andb_true_iff, !is_nil_true. tauto.
Qed.

(* (f) a program with diagnostics is never evaluated; an evaluated program had none *)
Theorem rejected_not_run_lemma : forall eps fuel src d,
  front src = Front d -> accepted d = false ->
  exists ph, rejecting_phase d = Some ph /\
    run_source eps fuel src = Rejected ph (rejection_of d) /\
    run_source_impl eps fuel src = Rejected ph (rejection_of d).
Proof.
  intros eps fuel src d Fd A. unfold run_source, run_source_impl. rewrite Fd. cbn [spec_of_front impl_of_front].
  destruct (rejecting_phase d) as [ph|] eqn:R.
  - exists ph. auto.
  - apply rejecting_phase_none in R. rewrite R in A. discriminate A.
Qed.

Theorem ran_was_accepted_lemma : forall eps fuel src o e,
  run_source eps fuel src = Ran o e ->
  exists d, front src = Front d /\ accepted d = true /\ Spec.run_spec eps fuel (fd_ast d) = (o, e).
Proof.
  intros eps fuel src o e H. unfold run_source in H.
  destruct (front src) as [d|f] eqn:Fd; cbn [spec_of_front] in H; [|discriminate H].
  destruct (rejecting_phase d) eqn:R; [discriminate H|].
  destruct (Spec.run_spec eps fuel (fd_ast d)) as [o' e'] eqn:S. inversion H; subst.
  exists d. refine (conj eq_refl (conj _ S)). apply rejecting_phase_none. exact R.
Qed.

Theorem ran_impl_was_accepted_lemma : forall eps fuel src o e,
  run_source_impl eps fuel src = Ran o e ->
  exists d p, front src = Front d /\ accepted d = true /\ ids (fd_ast d) = Some p /\
              Lang.run_impl None eps fuel p = (o, e).
Proof.
  intros eps fuel src o e H. unfold run_source_impl in H.
  destruct (front src) as [d|f] eqn:Fd; cbn [impl_of_front] in H; [|discriminate H].
  destruct (rejecting_phase d) eqn:R; [discriminate H|].
  destruct (ids (fd_ast d)) as [p|] eqn:I; [|discriminate H].
  destruct (Lang.run_impl None eps fuel p) as [o' e'] eqn:S. inversion H; subst.
  exists d, p. refine (conj eq_refl (conj _ (conj I S))). apply rejecting_phase_none. exact R.
Qed.

(* ================================================================== outcomes as functions of the view *)

Definition phase_of_view (w : front_view) : option phase :=
  if negb (is_nil (fv_lex w)) then Some PhLexical
  else if negb (is_nil (fv_syntax w)) then Some PhSyntax
  else if negb (is_nil (fv_viol w)) then Some PhStatic
  else None.

Definition rejection_of_view (w : front_view) : rejection_view :=
  if is_nil (fv_lex w) && is_nil (fv_syntax w)
  then {| rv_lex := []; rv_syntax := []; rv_static := fv_viol w |}
  else {| rv_lex := fv_lex w; rv_syntax := fv_syntax w; rv_static := [] |}.

Definition spec_of_view (eps : F64.f64) (fuel : nat) (w : option front_view) : outcome_view Spec.sending :=
  match w with
  | None => VNoFront
  | Some w =>
      match phase_of_view w with
      | Some ph => VRejected ph (rejection_of_view w)
      | None => let '(o, e) := Spec.run_spec eps fuel (fv_ast w) in VRan o e
      end
  end.

Definition impl_of_view (eps : F64.f64) (fuel : nat) (w : option front_view) : outcome_view Lang.ending :=
  match w with
  | None => VNoFront
  | Some w =>
      match phase_of_view w with
      | Some ph => VRejected ph (rejection_of_view w)
      | None =>
          match ids (fv_ast w) with
          | Some p => let '(o, e) := Lang.run_impl None eps fuel p in VRan o e
          | None => VUnresolved
          end
      end
  end.

Lemma is_nil_map {A B} (g : A -> B) (l : list A) : is_nil (map g l) = is_nil l.
Proof. destruct l; reflexivity. Qed.

Lemma phase_of_view_of d : phase_of_view (view_of d) = rejecting_phase d.
Proof.
  unfold phase_of_view, rejecting_phase, view_of. cbn [fv_lex fv_syntax fv_viol].
  unfold diag_kinds. rewrite !is_nil_map. reflexivity.
Qed.

Lemma rejection_of_view_of d : rejection_of_view (view_of d) = rejection_view_of (rejection_of d).
Proof.
  unfold rejection_of_view, rejection_of, view_of. cbn [fv_lex fv_syntax fv_viol].
  unfold diag_kinds. rewrite !is_nil_map.
  destruct (is_nil (fd_lex d) && is_nil (p_diags (fd_parsed d))); reflexivity.
Qed.

Lemma spec_view_factor : forall eps fuel r,
  outcome_view_of (spec_of_front eps fuel r) = spec_of_view eps fuel (front_view_of r).
Proof.
  intros eps fuel [d|f]; cbn [spec_of_front front_view_of spec_of_view outcome_view_of]; [|reflexivity].
  rewrite phase_of_view_of. destruct (rejecting_phase d).
  - cbn [outcome_view_of]. rewrite rejection_of_view_of. reflexivity.
  - cbn [view_of fv_ast]. destruct (Spec.run_spec eps fuel (fd_ast d)). reflexivity.
Qed.

Lemma impl_view_factor : forall eps fuel r,
  outcome_view_of (impl_of_front eps fuel r) = impl_of_view eps fuel (front_view_of r).
Proof.
  intros eps fuel [d|f]; cbn [impl_of_front front_view_of impl_of_view outcome_view_of]; [|reflexivity].
  rewrite phase_of_view_of. destruct (rejecting_phase d).
  - cbn [outcome_view_of]. rewrite rejection_of_view_of. reflexivity.
  - cbn [view_of fv_ast]. destruct (ids (fd_ast d)); [|reflexivity].
    destruct (Lang.run_impl None eps fuel l). reflexivity.
Qed.

(* two texts with the same front view have the same outcomes up to positions *)
Lemma same_view_same_outcomes : forall eps fuel s1 s2,
  front_view_of (front s1) = front_view_of (front s2) ->
  outcome_view_of (run_source eps fuel s1) = outcome_view_of (run_source eps fuel s2) /\
  outcome_view_of (run_source_impl eps fuel s1) = outcome_view_of (run_source_impl eps fuel s2).
Proof.
  intros eps fuel s1 s2 E. unfold run_source, run_source_impl.
  rewrite !spec_view_factor, !impl_view_factor, E. auto.
Qed.

(* ================================================================== (b) layout invariance *)

(* the front view of a text that lexes without diagnostics, as a function of the token list *)
Lemma front_of_clean_lex : forall src toks fin,
  lex Lexer.variant_of_source src = Ok (toks, [], fin) ->
  front src =
    match parse_program Parser.variant_of_source toks with
    | Done p => Front {| fd_tokens := toks; fd_lex_all := []; fd_lex := []; fd_parsed := p;
                         fd_ast := to_lang num_of_text (p_stmts p);
                         fd_viol := StaticRules.check (to_lang num_of_text (p_stmts p)) |}
    | NoFuel => FrontFails FParseFuel
    end.
Proof.
  intros src toks fin L. unfold front. rewrite L.
  destruct (parse_program Parser.variant_of_source toks) as [p|]; [|reflexivity].
  rewrite (lex_calls_nil _ _ _ _ (calls_made p) L). reflexivity.
Qed.

Lemma lex_view_inv : forall v s obs, lex_view v s = Some obs ->
  exists toks fin, lex v s = Ok (toks, [], fin) /\ map Layout.kpo toks = obs.
Proof.
  intros v s obs H. unfold lex_view in H.
  destruct (lex v s) as [[[toks ds] fin] | site p | ]; try discriminate H.
  destruct ds; [|discriminate H]. inversion H. exists toks, fin. auto.
Qed.

Lemma same_tokens_same_view : forall s1 s2 toks1 toks2 fin1 fin2,
  lex Lexer.variant_of_source s1 = Ok (toks1, [], fin1) ->
  lex Lexer.variant_of_source s2 = Ok (toks2, [], fin2) ->
  map Parser.kpo toks1 = map Parser.kpo toks2 ->
  front_view_of (front s1) = front_view_of (front s2).
Proof.
  intros s1 s2 toks1 toks2 fin1 fin2 L1 L2 K.
  rewrite (front_of_clean_lex _ _ _ L1), (front_of_clean_lex _ _ _ L2).
  pose proof (parse_ignores_spans Parser.variant_of_source toks1 toks2 K) as PI.
  destruct (parse_program Parser.variant_of_source toks1) as [p1|] eqn:P1;
  destruct (parse_program Parser.variant_of_source toks2) as [p2|] eqn:P2;
    cbn [map_presult] in PI; try discriminate PI; [|reflexivity].
  destruct (parse_ignores_spans_views Parser.variant_of_source toks1 toks2 p1 p2 K P1 P2) as (T & A & Dk & _ & _).
  cbn [front_view_of]. f_equal. unfold view_of, accepted. cbn.
  rewrite K, T, (A num_of_text), Dk.
  assert (N : is_nil (p_diags p1) = is_nil (p_diags p2)).
  { rewrite <- (is_nil_map (fun d => (pd_err d, pd_label d)) (p_diags p1)),
            <- (is_nil_map (fun d => (pd_err d, pd_label d)) (p_diags p2)).
    unfold diag_kinds in Dk. rewrite Dk. reflexivity. }
  rewrite N. reflexivity.
Qed.

Theorem layout_invariant_front : forall ts l1 l2,
  forallb tk_ok ts = true ->
  wf_layout ts l1 = true -> separating ts l1 = true ->
  wf_layout ts l2 = true -> separating ts l2 = true ->
  front_view_of (front (render ts l1)) = front_view_of (front (render ts l2)).
Proof.
  intros ts l1 l2 K W1 S1 W2 S2.
  destruct (lex_layout_invariant Lexer.variant_of_source ts l1 l2 K W1 S1 W2 S2) as (V1 & V2).
  destruct (lex_view_inv _ _ _ V1) as (t1 & f1 & L1 & M1).
  destruct (lex_view_inv _ _ _ V2) as (t2 & f2 & L2 & M2).
  apply (same_tokens_same_view _ _ t1 t2 f1 f2 L1 L2).
  change (map Layout.kpo t1 = map Layout.kpo t2). rewrite M1, M2. reflexivity.
Qed.

Theorem layout_invariant_end_to_end_lemma : forall eps fuel ts l1 l2,
  forallb tk_ok ts = true ->
  wf_layout ts l1 = true -> separating ts l1 = true ->
  wf_layout ts l2 = true -> separating ts l2 = true ->
  front_view_of (front (render ts l1)) = front_view_of (front (render ts l2)) /\
  outcome_view_of (run_source eps fuel (render ts l1)) = outcome_view_of (run_source eps fuel (render ts l2)) /\
  outcome_view_of (run_source_impl eps fuel (render ts l1)) = outcome_view_of (run_source_impl eps fuel (render ts l2)).
Proof.
  intros eps fuel ts l1 l2 K W1 S1 W2 S2.
  pose proof (layout_invariant_front ts l1 l2 K W1 S1 W2 S2) as E.
  refine (conj E _). apply same_view_same_outcomes. exact E.
Qed.

(* what the view equality means when the text is accepted: literally the same printed values and
   ending (an accepted run carries no positions) *)
Lemma view_ran_inv {E} (o1 o2 : outcome_of E) outs e :
  outcome_view_of o1 = outcome_view_of o2 -> o1 = Ran outs e -> o2 = Ran outs e.
Proof.
  intros V H. subst o1. destruct o2; cbn in V; try discriminate V. inversion V. reflexivity.
Qed.

Theorem layout_invariant_accepted_lemma : forall eps fuel ts l1 l2,
  forallb tk_ok ts = true ->
  wf_layout ts l1 = true -> separating ts l1 = true ->
  wf_layout ts l2 = true -> separating ts l2 = true ->
  (forall o e, run_source eps fuel (render ts l1) = Ran o e -> run_source eps fuel (render ts l2) = Ran o e) /\
  (forall o e, run_source_impl eps fuel (render ts l1) = Ran o e -> run_source_impl eps fuel (render ts l2) = Ran o e).
Proof.
  intros eps fuel ts l1 l2 K W1 S1 W2 S2.
  destruct (layout_invariant_end_to_end_lemma eps fuel ts l1 l2 K W1 S1 W2 S2) as (_ & A & B).
  split; intros o e H; eapply view_ran_inv; eauto.
Qed.

(* the rendered text contains the layout's lexical diagnostics: none *)
Theorem layout_front_no_lexical : forall ts l d,
  forallb tk_ok ts = true -> wf_layout ts l = true -> separating ts l = true ->
  front (render ts l) = Front d ->
  fd_lex_all d = [] /\ fd_lex d = [] /\ map Layout.kpo (fd_tokens d) = map tk_tok ts.
Proof.
  intros ts l d K W S Fd.
  pose proof (lex_render Lexer.variant_of_source ts l K W S) as V.
  destruct (lex_view_inv _ _ _ V) as (t1 & f1 & L1 & M1).
  rewrite (front_of_clean_lex _ _ _ L1) in Fd.
  destruct (parse_program Parser.variant_of_source t1); [|discriminate Fd].
  inversion Fd; subst d. cbn. auto.
Qed.

(* ================================================================== number literals
   The tree keeps the literal text; resolver and runtime call `text.parse::<f64>()`; the model
   reads it with NumParse.to_number.  Every text of the shape the lexer hands out for a Number
   token (digits, or digits '.' digits: [number_literal]) is inside dec2flt's decimal grammar, so
   the NaN fallback of to_number is never taken: the value is the correctly rounded decimal.
   That the lexer model only produces such payloads is checked on every token of every run of the
   correspondence (`numlit`), and is immediate for the token descriptors of C10 (below). *)

Lemma all_digits_spec d : all_digits d = true -> Forall NumParseProofs.digit d /\ d <> [].
Proof.
  destruct d as [|b t]; [discriminate|]. intro H. split; [|discriminate].
  unfold all_digits in H. apply Forall_forall. intros x Hx.
  rewrite forallb_forall in H. specialize (H x Hx). unfold is_digit, in_range in H.
  apply NumParseProofs.is_digit_spec. exact H.
Qed.

Lemma split_at_dot_spec : forall p i f, split_at_dot p = (i, f) ->
  match f with Some fr => p = i ++ 46%Z :: fr | None => p = i end.
Proof.
  induction p as [|b t IH]; intros i f H; cbn [split_at_dot] in H.
  - inversion H. reflexivity.
  - destruct (b =? 46)%Z eqn:E.
    + inversion H; subst. apply Z.eqb_eq in E. subst b. reflexivity.
    + destruct (split_at_dot t) as [i' f'] eqn:S. inversion H; subst. specialize (IH i' f eq_refl).
      destruct f; subst; reflexivity.
Qed.

Theorem number_literal_parses : forall p, number_literal p = true ->
  exists ds e, NumParse.parse_decimal p = Some (ds, e) /\
    num_of_text p = NumParseProofs.exact_round false (NumParse.digits_val 0 ds) e.
Proof.
  intros p H. unfold number_literal in H. destruct (split_at_dot p) as [i f] eqn:S.
  pose proof (split_at_dot_spec p i f S) as Sp.
  assert (body_ok : forall c t, p = c :: t -> all_digits i = true -> c <> 43%Z /\ c <> 45%Z).
  { intros c t E Hi. destruct (all_digits_spec i Hi) as (Fi & Ni).
    destruct i as [|b r]; [congruence|]. assert (c = b) by (destruct f; subst p; inversion E; reflexivity). subst c.
    inversion Fi; subst. unfold NumParseProofs.digit in H2. lia. }
  destruct f as [fr|].
  - apply andb_true_iff in H. destruct H as [Hi Hf].
    destruct (all_digits_spec i Hi) as (Fi & Ni). destruct (all_digits_spec fr Hf) as (Ff & Nf).
    assert (P : NumParse.parse_decimal p = Some (i ++ fr, (- Z.of_nat (length fr))%Z)).
    { rewrite Sp. apply NumParseProofs.parse_decimal_frac; auto. destruct i; [congruence | discriminate]. }
    exists (i ++ fr), (- Z.of_nat (length fr))%Z. split; [exact P|].
    unfold num_of_text. apply (NumParseProofs.to_number_decimal [] p _ _ (or_introl eq_refl)); [|exact P].
    destruct p as [|c t]; [destruct i; discriminate Sp|]. exact (body_ok c t eq_refl Hi).
  - destruct (all_digits_spec i H) as (Fi & Ni). subst p.
    assert (P : NumParse.parse_decimal i = Some (i, 0%Z)) by (apply NumParseProofs.parse_decimal_int; auto).
    exists i, 0%Z. split; [exact P|].
    unfold num_of_text. apply (NumParseProofs.to_number_decimal [] i _ _ (or_introl eq_refl)); [|exact P].
    destruct i as [|c t]; [congruence|]. exact (body_ok c t eq_refl H).
Qed.

(* the spellings C10 renders: a Number descriptor with diagnostic-free digits is such a text *)
Lemma all_digits_of_digits_ok d : digits_ok d = true -> all_digits d = true.
Proof. destruct d; intro H; exact H. Qed.

Lemma split_at_dot_digits : forall i r, forallb is_digit i = true ->
  split_at_dot (i ++ r) = (i ++ fst (split_at_dot r), snd (split_at_dot r)).
Proof.
  induction i as [|b t IH]; intros r H; [cbn [app]; destruct (split_at_dot r); reflexivity|].
  cbn [forallb] in H. apply andb_true_iff in H. destruct H as [Hb Ht].
  cbn [app split_at_dot].
  assert (b =? 46 = false)%Z as ->.
  { unfold is_digit, in_range in Hb. apply andb_true_iff in Hb. destruct Hb as [L1 L2].
    apply Z.leb_le in L1. apply Z.eqb_neq. lia. }
  rewrite (IH r Ht). destruct (split_at_dot r). reflexivity.
Qed.

Theorem rendered_numbers_are_literals : forall t, tk_ok t = true ->
  match t with KNumber _ _ => number_literal (snd (fst (tk_tok t))) = true | _ => True end.
Proof.
  intros [k|k|w|i f|k|q segs last] H; try exact I. cbn [tk_tok fst snd tk_ok] in *.
  apply andb_true_iff in H. destruct H as [Hi Hf]. unfold number_literal, number_text.
  assert (Fi : forallb is_digit i = true) by (destruct i; [discriminate Hi | exact Hi]).
  destruct f as [fr|].
  - rewrite (split_at_dot_digits i (46%Z :: fr) Fi). cbn [split_at_dot Z.eqb Pos.eqb fst snd].
    rewrite app_nil_r, (all_digits_of_digits_ok i Hi), (all_digits_of_digits_ok fr Hf). reflexivity.
  - rewrite <- (app_nil_r i) at 1. rewrite (split_at_dot_digits i [] Fi). cbn [split_at_dot fst snd].
    rewrite app_nil_r. apply all_digits_of_digits_ok. exact Hi.
Qed.
