(* PipelineResolvable — a tree the static rules accept can always be resolved from names:
     check_resolves : StaticRules.check p = [] -> exists q, LexResolve.lex_ids p = Some q
   (lex_ids fails only on an undeclared variable / function name or on duplicate function /
   parameter names in one block — each of which is a static-rule violation).  This removes the
   alternative `Unresolved` from the end-to-end theorems. *)
From Coq Require Import ZArith List Bool Lia.
Require Import NS.theories.F64 NS.theories.Lang NS.theories.GenRules NS.theories.StaticRules NS.theories.LexResolve.
Require Import NS.proofs.StaticRulesProofs NS.proofs.RulesImplyWf NS.proofs.ScopeCalls NS.proofs.PipelineResolve.
Import ListNotations.
Open Scope Z_scope.

(* ================================================================== helpers *)

Lemma opt_all_total {A B} (g : A -> option B) : forall l,
  Forall (fun x => exists y, g x = Some y) l -> exists l', opt_all (map g l) = Some l'.
Proof.
  induction 1 as [|x l (y & Hy) _ (l' & IH)]; [exists []; reflexivity|].
  exists (y :: l'). cbn [map opt_all]. rewrite Hy, IH. reflexivity.
Qed.

Lemma NoDup_nodup_names : forall l, NoDup l -> nodup_names l = true.
Proof.
  induction 1 as [|x l Hx _ IH]; [reflexivity|]. cbn [nodup_names]. rewrite IH, andb_true_r.
  destruct (Lang.mem_name x l) eqn:E; [|reflexivity].
  unfold Lang.mem_name in E. apply existsb_exists in E. destruct E as (y & Hy & Ey).
  apply bytes_eqb_eq in Ey. subst y. contradiction.
Qed.

Lemma assoc_some_in n (g : scope) : In n (scope_names g) -> assoc n g <> None.
Proof.
  induction g as [|[m i] r IH]; cbn [scope_names map fst In assoc]; [tauto|].
  intros [E|H]; [subst; rewrite bytes_eqb_refl; discriminate|].
  destruct (bytes_eqb m n); [discriminate | apply IH; exact H].
Qed.

Lemma lx_predecl_names : forall b k, scope_names (fst (lx_predecl b k)) = fun_names b.
Proof.
  induction b as [|t r IH]; intro k; [reflexivity|].
  destruct t; try (rewrite lx_predecl_other by exact I; apply IH).
  rewrite lx_predecl_fun. cbn [fst scope_names map fun_names]. f_equal. apply IH.
Qed.

(* ================================================================== the two environments *)

Definition DV (c : cx) (E : venv) : Prop := forall x, declared c x = true -> vlookup E x <> None.
Definition DF (c : cx) (F : fenv) : Prop := forall f, lookup_fun (cx_funs c) f <> None -> vlookup F f <> None.

Lemma DV_push c E b : DV c E -> DV (enter_block c b) ([] :: E).
Proof. intros H x D. rewrite declared_enter_block in D. cbn [vlookup assoc]. apply H. exact D. Qed.

Lemma DV_loop c E : DV c E -> DV (loop_cx c) E.
Proof. intros H x D. rewrite declared_loop_cx in D. apply H. exact D. Qed.

Lemma DV_fn c E ps ls : DV c E -> DV (fn_cx c ps) (param_scope ps ls 0 [] :: E).
Proof.
  intros H x D. apply declared_fn_cx in D. cbn [vlookup].
  destruct (assoc x (param_scope ps ls 0 [])) eqn:A; [discriminate|].
  destruct D as [D|D]; [|apply H; exact D].
  exfalso. apply (assoc_some_in x (param_scope ps ls 0 [])); [|exact A].
  rewrite param_scope_names. cbn [scope_names map]. rewrite app_nil_r. apply in_rev in D. exact D.
Qed.

Lemma DV_declare_new c top G n i t : DV c (top :: G) -> DV (declare c n t) (((n, i) :: top) :: G).
Proof.
  intros H x D. rewrite declared_declare in D. cbn [vlookup assoc].
  destruct (bytes_eqb n x) eqn:E; [discriminate|]. cbn [orb] in D. apply H in D. cbn [vlookup] in D. exact D.
Qed.

Lemma DV_declare_old c top G n i t : DV c (top :: G) -> assoc n top = Some i -> DV (declare c n t) (top :: G).
Proof.
  intros H A x D. rewrite declared_declare in D.
  destruct (bytes_eqb n x) eqn:E; [|cbn [orb] in D; apply H; exact D].
  apply bytes_eqb_eq in E. subst x. cbn [vlookup]. rewrite A. discriminate.
Qed.

Lemma sig_find_first_def c b f : sig_find f (sigs_of c b) <> None -> In f (fun_names b).
Proof.
  intro H. pose proof (sigs_of_first_def c b f) as E.
  destruct (sig_find f (sigs_of c b)) as [g|]; [|contradiction H; reflexivity]. cbn [option_map] in E. clear H.
  induction b as [|t r IH]; cbn [first_def] in E; [discriminate E|].
  destruct t; cbn [fun_names]; try (apply IH; exact E).
  destruct (bytes_eqb n f) eqn:En; [left; apply bytes_eqb_eq; exact En | right; apply IH; exact E].
Qed.

Lemma DF_push c F b k : DF c F -> DF (enter_block c b) (fst (lx_predecl b k) :: F).
Proof.
  intros H f L. unfold enter_block, with_sigs in L. cbn [cx_funs lookup_fun] in L. cbn [vlookup].
  destruct (assoc f (fst (lx_predecl b k))) eqn:A; [discriminate|].
  destruct (sig_find f (sigs_of c b)) as [g|] eqn:S.
  - exfalso. apply (assoc_some_in f (fst (lx_predecl b k))); [|exact A].
    rewrite lx_predecl_names. apply (sig_find_first_def c b f). rewrite S. discriminate.
  - apply H. exact L.
Qed.

Lemma DF_nil c F c' : cx_funs c' = cx_funs c -> DF c F -> DF c' ([] :: F).
Proof. intros E H f L. rewrite E in L. cbn [vlookup assoc]. apply H. exact L. Qed.

Lemma DF_same c F c' : cx_funs c' = cx_funs c -> DF c F -> DF c' F.
Proof. intros E H f L. rewrite E in L. apply H. exact L. Qed.

(* ================================================================== expressions *)

Lemma lx_expr_total : forall e c E F, DV c E -> DF c F -> check_expr c e = [] ->
  exists e', lx_expr E F e = Some e'.
Proof.
  induction e as [x | s | segs | b | | n l | op a b IHa IHb | op a IHa | es IHes | a i IHa IHi | o f IHo
                 | callee args t IHc IHargs] using expr_ind'; intros c E F HV HF H; cbn [check_expr] in H.
  - eexists; reflexivity.
  - eexists; reflexivity.
  - cbn [lx_expr]. apply flat_map_nil in H.
    destruct (opt_all_total (lx_seg E) segs) as (s' & Hs).
    { eapply Forall_impl; [|exact H]. intros [b|x l] Hx; [eexists; reflexivity|].
      cbn [seg_rules] in Hx. cbn [lx_seg]. unfold lx_var.
      destruct (declared c x) eqn:D; [|discriminate Hx]. apply HV in D.
      destruct (vlookup E x); [eexists; reflexivity | contradiction D; reflexivity]. }
    rewrite Hs. eexists; reflexivity.
  - eexists; reflexivity.
  - eexists; reflexivity.
  - cbn [lx_expr]. unfold lx_var. destruct (declared c n) eqn:D; [|discriminate H]. apply HV in D.
    destruct (vlookup E n); [eexists; reflexivity | contradiction D; reflexivity].
  - apply app_eq_nil in H. destruct H as [Ha H]. apply app_eq_nil in H. destruct H as [Hb _].
    destruct (IHa c E F HV HF Ha) as (a' & Ea). destruct (IHb c E F HV HF Hb) as (b' & Eb).
    cbn [lx_expr]. rewrite Ea, Eb. eexists; reflexivity.
  - apply app_eq_nil in H. destruct H as [Ha _]. destruct (IHa c E F HV HF Ha) as (a' & Ea).
    cbn [lx_expr]. rewrite Ea. eexists; reflexivity.
  - cbn [lx_expr]. apply flat_map_nil in H.
    destruct (opt_all_total (lx_expr E F) es) as (es' & He).
    { revert IHes. induction H as [|x l Hx _ IH]; intro IHes; constructor.
      - inversion IHes; subst. eauto.
      - inversion IHes; subst. auto. }
    rewrite He. eexists; reflexivity.
  - apply app_eq_nil in H. destruct H as [Ha H]. apply app_eq_nil in H. destruct H as [Hi _].
    destruct (IHa c E F HV HF Ha) as (a' & Ea). destruct (IHi c E F HV HF Hi) as (i' & Ei).
    cbn [lx_expr]. rewrite Ea, Ei. eexists; reflexivity.
  - destruct (IHo c E F HV HF H) as (o' & Eo). cbn [lx_expr]. rewrite Eo. eexists; reflexivity.
  - apply app_eq_nil in H. destruct H as [Hc Ha]. apply flat_map_nil in Ha.
    destruct (opt_all_total (lx_expr E F) args) as (args' & Hargs).
    { clear Hc. revert IHargs. induction Ha as [|x l Hx _ IH]; intro IHargs; constructor.
      - inversion IHargs; subst. eauto.
      - inversion IHargs; subst. auto. }
    cbn [lx_expr]. rewrite Hargs.
    destruct callee as [x | s | segs | b | | f l | op a b | op a | es | a i | o f | c0 args0 t0].
    all: try (destruct (IHc c E F HV HF Hc) as (c' & Ec); rewrite Ec; eexists; reflexivity).
    + (* a name: a built-in or a visible function *)
      unfold fn_call_rules in Hc. pose proof (builtin_tables_agree f) as T.
      destruct (global_lookup f) as [[ar rt]|].
      * destruct T as (_ & T). destruct (global_builtin f); [eexists; reflexivity | contradiction T; reflexivity].
      * rewrite T. destruct (lookup_fun (cx_funs c) f) as [g|] eqn:L; [|discriminate Hc].
        assert (V : vlookup F f <> None) by (apply HF; rewrite L; discriminate).
        destruct (vlookup F f); [eexists; reflexivity | contradiction V; reflexivity].
    + (* a method: the receiver resolves *)
      apply app_eq_nil in Hc. destruct Hc as [Ho _].
      destruct (IHc c E F HV HF Ho) as (c' & Ec). cbn [lx_expr] in Ec.
      destruct (lx_expr E F o) as [o'|]; [eexists; reflexivity | discriminate Ec].
Qed.

(* ================================================================== statements *)

Lemma check_stmts_fun_names : forall ts c seen i, check_stmts c seen i ts = [] ->
  NoDup (fun_names ts) /\ forall n, In n (fun_names ts) -> StaticRules.mem_name n seen = false.
Proof.
  induction ts as [|t r IH]; intros c seen i H; [split; [constructor | intros n []]|].
  rewrite check_stmts_cons in H. apply app_eq_nil in H. destruct H as [H1 H2]. apply map_eq_nil in H1.
  destruct (IH _ _ _ H2) as (N & M).
  destruct t as [sid n ps body fid ls ll | | | | | | | | | | ]; cbn [fun_names see] in *; try (split; assumption).
  rewrite check_stmt_unfold in H1. apply app_eq_nil in H1. destruct H1 as [L _]. apply map_eq_nil in L.
  cbn [local_rules] in L. apply app_eq_nil in L. destruct L as [_ L].
  destruct (StaticRules.mem_name n seen) eqn:Em; [discriminate L|].
  split.
  - constructor; [|exact N]. intro Hin. specialize (M n Hin). unfold StaticRules.mem_name in M. cbn [existsb] in M.
    rewrite bytes_eqb_refl in M. discriminate M.
  - intros m [<-|Hin]; [exact Em|]. specialize (M m Hin). unfold StaticRules.mem_name in *. cbn [existsb] in M.
    apply orb_false_iff in M. tauto.
Qed.

Definition res_goal (t : stmt) : Prop :=
  forall c seen top G F nl nf,
  DV c (top :: G) -> DF c F ->
  match t with
  | SFun _ n _ _ _ _ _ => exists fs F', F = fs :: F' /\ assoc n fs <> None
  | _ => True
  end ->
  check_stmt c seen t = [] ->
  exists t' top' nl' nf', lx_stmt top G F nl nf t = Some (t', top', nl', nf') /\ DV (after c t) (top' :: G).

Lemma lx_stmts_total G fs F' : forall ts, Forall res_goal ts ->
  forall c seen i top nl nf,
  DV c (top :: G) -> DF c (fs :: F') -> (forall n, In n (fun_names ts) -> assoc n fs <> None) ->
  check_stmts c seen i ts = [] ->
  exists ts' nl' nf', lx_stmts top G (fs :: F') nl nf ts = Some (ts', nl', nf').
Proof.
  induction 1 as [|t r Ht _ IH]; intros c seen i top nl nf HV HF HN H; [eexists _, _, _; reflexivity|].
  rewrite check_stmts_cons in H. apply app_eq_nil in H. destruct H as [H1 H2]. apply map_eq_nil in H1.
  destruct (Ht c seen top G (fs :: F') nl nf HV HF) as (t' & top' & nl' & nf' & E1 & HV'); [|exact H1|].
  { destruct t; try exact I. exists fs, F'. split; [reflexivity|]. apply HN. left. reflexivity. }
  destruct (IH (after c t) (see seen t) (S i) top' nl' nf' HV') as (r' & nl2 & nf2 & E2); [| |exact H2|].
  { apply (DF_same c); [apply after_fields | exact HF]. }
  { intros n Hin. apply HN. destruct t; cbn [fun_names]; auto. right. exact Hin. }
  cbn [lx_stmts]. rewrite E1, E2. eexists _, _, _; reflexivity.
Qed.

Lemma lx_block_total b : Forall res_goal b ->
  forall c E F nl nf, DV c E -> DF c F -> check_block c b = [] ->
  exists b' nl' nf', lx_block E F nl nf b = Some (b', nl', nf').
Proof.
  intros Hb c E F nl nf HV HF H. rewrite check_block_unfold in H.
  unfold lx_block. destruct (lx_predecl b nf) as [fs nf1] eqn:Ep.
  assert (Efs : fs = fst (lx_predecl b nf)) by (rewrite Ep; reflexivity).
  destruct (check_stmts_fun_names _ _ _ _ H) as (N & _).
  assert (Nd : nodup_names (scope_names fs) = true).
  { rewrite Efs, lx_predecl_names. apply NoDup_nodup_names. exact N. }
  rewrite Nd. apply (lx_stmts_total E fs F b Hb (enter_block c b) [] 0%nat [] nl nf1).
  - apply DV_push. exact HV.
  - rewrite Efs. apply DF_push. exact HF.
  - intros n Hin. apply assoc_some_in. rewrite Efs, lx_predecl_names. exact Hin.
  - exact H.
Qed.

Lemma after_other c t : match t with SMake _ _ _ _ => False | _ => True end -> after c t = c.
Proof. destruct t; intro H; try contradiction; reflexivity. Qed.

Lemma lx_stmt_total : forall t, res_goal t.
Proof.
  induction t as [sid n ps body fid ls ll IHb | sid n l e | sid n l e | sid tg e | sid cnd t f IHt IHf
                 | sid cnd b IHb | sid b IHb | sid eo | sid | sid | sid e] using stmt_ind';
    intros c seen top G F nl nf HV HF HS H; rewrite check_stmt_unfold in H;
    apply app_eq_nil in H; destruct H as [Hloc Hnest]; apply map_eq_nil in Hloc.
  - (* function definition *)
    destruct HS as (fs & F' & -> & An). rewrite lx_stmt_fun.
    destruct (assoc n fs) as [f|]; [|contradiction An; reflexivity].
    cbn [local_rules] in Hloc. apply app_eq_nil in Hloc. destruct Hloc as [_ Hdup].
    cbn [nested] in Hnest. destruct (StaticRules.mem_name n seen); [discriminate Hdup|].
    apply map_eq_nil in Hnest.
    assert (Np : nodup_names ps = true).
    { apply NoDup_nodup_names. apply (proj1 (proj1 (params_ok_tbl ps) ltac:(rewrite Hdup; apply all_in_nil))). }
    rewrite Np.
    destruct (lx_block_total body IHb (fn_cx c ps) (param_scope ps nl 0 [] :: top :: G) ([] :: fs :: F')
                             (nl + Z.of_nat (length ps)) nf) as (body' & nl' & nf' & Eb).
    + apply DV_fn. exact HV.
    + apply (DF_nil c); [reflexivity | exact HF].
    + exact Hnest.
    + rewrite Eb. eexists _, _, _, _. split; [reflexivity|]. exact HV.
  - (* make *)
    cbn [local_rules] in Hloc. apply app_eq_nil in Hloc. destruct Hloc as [_ He].
    destruct (lx_expr_total e c (top :: G) F HV HF He) as (e' & Ee). cbn [lx_stmt after]. rewrite Ee.
    destruct (assoc n top) as [i|] eqn:A; eexists _, _, _, _; (split; [reflexivity|]).
    + eapply DV_declare_old; eauto.
    + apply DV_declare_new. exact HV.
  - (* assignment *)
    cbn [local_rules] in Hloc. apply app_eq_nil in Hloc. destruct Hloc as [Hd He].
    destruct (declared c n) eqn:D; [|discriminate Hd]. apply HV in D.
    destruct (lx_expr_total e c (top :: G) F HV HF He) as (e' & Ee). cbn [lx_stmt after]. unfold lx_var.
    destruct (vlookup (top :: G) n); [|contradiction D; reflexivity]. rewrite Ee.
    eexists _, _, _, _. split; [reflexivity | exact HV].
  - cbn [local_rules] in Hloc. apply app_eq_nil in Hloc. destruct Hloc as [Ht He].
    destruct (lx_expr_total tg c (top :: G) F HV HF Ht) as (tg' & Et).
    destruct (lx_expr_total e c (top :: G) F HV HF He) as (e' & Ee). cbn [lx_stmt after]. rewrite Et, Ee.
    eexists _, _, _, _. split; [reflexivity | exact HV].
  - cbn [local_rules] in Hloc. apply app_eq_nil in Hloc. destruct Hloc as [Hc _].
    destruct (lx_expr_total cnd c (top :: G) F HV HF Hc) as (c' & Ec).
    cbn [nested] in Hnest. apply app_eq_nil in Hnest. destruct Hnest as [Ht Hf]. apply map_eq_nil in Ht.
    rewrite lx_stmt_if, Ec.
    destruct (lx_block_total t IHt c (top :: G) F nl nf HV HF Ht) as (t' & nl1 & nf1 & Et). rewrite Et.
    destruct f as [fb|].
    + apply map_eq_nil in Hf.
      destruct (lx_block_total fb IHf c (top :: G) F nl1 nf1 HV HF Hf) as (fb' & nl2 & nf2 & Ef). rewrite Ef.
      eexists _, _, _, _. split; [reflexivity | exact HV].
    + eexists _, _, _, _. split; [reflexivity | exact HV].
  - cbn [local_rules] in Hloc. apply app_eq_nil in Hloc. destruct Hloc as [Hc _].
    destruct (lx_expr_total cnd c (top :: G) F HV HF Hc) as (c' & Ec).
    cbn [nested] in Hnest. apply map_eq_nil in Hnest. rewrite lx_stmt_loop, Ec.
    destruct (lx_block_total b IHb (loop_cx c) (top :: G) F nl nf (DV_loop _ _ HV)
                (DF_same c F (loop_cx c) eq_refl HF) Hnest) as (b' & nl1 & nf1 & Eb). rewrite Eb.
    eexists _, _, _, _. split; [reflexivity | exact HV].
  - cbn [nested] in Hnest. apply map_eq_nil in Hnest. rewrite lx_stmt_block.
    destruct (lx_block_total b IHb c (top :: G) F nl nf HV HF Hnest) as (b' & nl1 & nf1 & Eb). rewrite Eb.
    eexists _, _, _, _. split; [reflexivity | exact HV].
  - cbn [local_rules] in Hloc. apply app_eq_nil in Hloc. destruct Hloc as [_ He]. cbn [lx_stmt after].
    destruct eo as [e|].
    + destruct (lx_expr_total e c (top :: G) F HV HF He) as (e' & Ee). rewrite Ee.
      eexists _, _, _, _. split; [reflexivity | exact HV].
    + eexists _, _, _, _. split; [reflexivity | exact HV].
  - eexists _, _, _, _. split; [reflexivity | exact HV].
  - eexists _, _, _, _. split; [reflexivity | exact HV].
  - cbn [local_rules] in Hloc.
    destruct (lx_expr_total e c (top :: G) F HV HF Hloc) as (e' & Ee). cbn [lx_stmt after]. rewrite Ee.
    eexists _, _, _, _. split; [reflexivity | exact HV].
Qed.

Theorem check_resolves : forall p, StaticRules.check p = [] -> exists q, lex_ids p = Some q.
Proof.
  intros p H. rewrite lex_ids_unfold.
  assert (A : Forall res_goal p) by (apply Forall_forall; intros t _; apply lx_stmt_total).
  destruct (lx_block_total p A cx0 [] [] 0 1) as (q & nl & nf & E).
  - intros x D. rewrite declared_cx0 in D. discriminate D.
  - intros f L. cbn in L. contradiction L. reflexivity.
  - exact H.
  - rewrite E. exists q. reflexivity.
Qed.
