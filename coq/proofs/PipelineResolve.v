(* PipelineResolve — the names-only resolution LexResolve.lex_ids, as used by Pipeline.ids:
     lex_ids_erase     : it only attaches ids (the names-only tree is unchanged)
     lex_ids_lexical   : its result satisfies C04's binding relation `lexical`
                         (chk_block: every occurrence carries the id the static environment
                          designates; ids_ok: ids of distinct declarations / functions are distinct)
   The C04 engineer left the second one unproved ("lexical (lex_ids p)"); it is what makes
   C04_impl_equals_spec_scoping and C06_accepted_by_rules_lexical_never_panics_structural
   applicable to the tree the parser built. *)
From Coq Require Import ZArith List Bool Lia.
Require Import NS.theories.F64 NS.theories.Lang NS.theories.LexResolve NS.theories.RulesWf.
Require Import NS.proofs.StaticRulesProofs NS.proofs.RulesImplyWf NS.proofs.ScopeProofs NS.proofs.ScopeCalls.
Import ListNotations.
Open Scope Z_scope.

(* ================================================================== unfolding lx_stmt *)

Definition lx_block (G : venv) (F : fenv) (nl nf : Z) (b : list stmt) : option (list stmt * Z * Z) :=
  let '(fs, nf1) := lx_predecl b nf in
  if nodup_names (scope_names fs) then lx_stmts [] G (fs :: F) nl nf1 b else None.

Lemma lx_go_eq G' F' : forall ts top' nl nf,
  (fix go (ts : list stmt) (top' : scope) (nl nf : Z) {struct ts} : option (list stmt * Z * Z) :=
     match ts with
     | [] => Some ([], nl, nf)
     | t' :: r =>
         match lx_stmt top' G' F' nl nf t' with
         | Some (t'', top'', nl', nf') =>
             match go r top'' nl' nf' with
             | Some (r', nl'', nf'') => Some (t'' :: r', nl'', nf'')
             | None => None
             end
         | None => None
         end
     end) ts top' nl nf = lx_stmts top' G' F' nl nf ts.
Proof.
  induction ts as [|a ts IH]; intros top' nl nf; [reflexivity|].
  cbn [lx_stmts]. destruct (lx_stmt top' G' F' nl nf a) as [[[[t'' top''] nl'] nf']|]; [|reflexivity].
  rewrite <- IH. reflexivity.
Qed.

Lemma lx_stmt_fun top G F nl nf sid n ps body fid ls ll :
  lx_stmt top G F nl nf (SFun sid n ps body fid ls ll) =
  match F with
  | fs :: _ =>
      match assoc n fs with
      | Some f =>
          if nodup_names ps then
            match lx_block (param_scope ps nl 0 [] :: top :: G) ([] :: F) (nl + Z.of_nat (length ps)) nf body with
            | Some (body', nl', nf') => Some (SFun sid n ps body' (Some f) nl (nl' - nl), top, nl', nf')
            | None => None
            end
          else None
      | None => None
      end
  | [] => None
  end.
Proof.
  cbn [lx_stmt]. destruct F as [|fs F']; [reflexivity|]. destruct (assoc n fs); [|reflexivity].
  destruct (nodup_names ps); [|reflexivity]. unfold lx_block.
  destruct (lx_predecl body nf) as [fs' nf1]. destruct (nodup_names (scope_names fs')); [|reflexivity].
  rewrite lx_go_eq. reflexivity.
Qed.

Lemma lx_stmt_if top G F nl nf sid c t f :
  lx_stmt top G F nl nf (SIf sid c t f) =
  match lx_expr (top :: G) F c with
  | Some c' =>
      match lx_block (top :: G) F nl nf t with
      | Some (t', nl1, nf1) =>
          match f with
          | None => Some (SIf sid c' t' None, top, nl1, nf1)
          | Some fb =>
              match lx_block (top :: G) F nl1 nf1 fb with
              | Some (fb', nl2, nf2) => Some (SIf sid c' t' (Some fb'), top, nl2, nf2)
              | None => None
              end
          end
      | None => None
      end
  | None => None
  end.
Proof.
  cbn [lx_stmt]. destruct (lx_expr (top :: G) F c); [|reflexivity]. unfold lx_block.
  destruct (lx_predecl t nf) as [fs' nf1]. destruct (nodup_names (scope_names fs')); [|reflexivity].
  rewrite lx_go_eq. destruct (lx_stmts [] (top :: G) (fs' :: F) nl nf1 t) as [[[t' nl1] nf1']|]; [|reflexivity].
  destruct f as [fb|]; [|reflexivity].
  destruct (lx_predecl fb nf1') as [fs'' nf2]. destruct (nodup_names (scope_names fs'')); [|reflexivity].
  rewrite lx_go_eq. reflexivity.
Qed.

Lemma lx_stmt_loop top G F nl nf sid c b :
  lx_stmt top G F nl nf (SLoop sid c b) =
  match lx_expr (top :: G) F c with
  | Some c' =>
      match lx_block (top :: G) F nl nf b with
      | Some (b', nl1, nf1) => Some (SLoop sid c' b', top, nl1, nf1)
      | None => None
      end
  | None => None
  end.
Proof.
  cbn [lx_stmt]. destruct (lx_expr (top :: G) F c); [|reflexivity]. unfold lx_block.
  destruct (lx_predecl b nf) as [fs' nf1]. destruct (nodup_names (scope_names fs')); [|reflexivity].
  rewrite lx_go_eq. reflexivity.
Qed.

Lemma lx_stmt_block top G F nl nf sid b :
  lx_stmt top G F nl nf (SBlock sid b) =
  match lx_block (top :: G) F nl nf b with
  | Some (b', nl1, nf1) => Some (SBlock sid b', top, nl1, nf1)
  | None => None
  end.
Proof.
  cbn [lx_stmt]. unfold lx_block.
  destruct (lx_predecl b nf) as [fs' nf1]. destruct (nodup_names (scope_names fs')); [|reflexivity].
  rewrite lx_go_eq. reflexivity.
Qed.

Lemma lex_ids_unfold p :
  lex_ids p = match lx_block [] [] 0 1 p with Some (q, _, _) => Some q | None => None end.
Proof.
  unfold lex_ids, lx_block. destruct (lx_predecl p 1) as [fs nf1].
  destruct (nodup_names (scope_names fs)); reflexivity.
Qed.

(* ================================================================== generic helpers *)

Lemma opt_all_Forall2 {A B} (g : A -> option B) : forall l l',
  opt_all (map g l) = Some l' -> Forall2 (fun x y => g x = Some y) l l'.
Proof.
  induction l as [|x l IH]; intros l' H; cbn [map opt_all] in H.
  - inversion H. constructor.
  - destruct (g x) as [y|] eqn:E; [|discriminate H].
    destruct (opt_all (map g l)) as [ys|] eqn:E2; [|discriminate H].
    inversion H; subst. constructor; [exact E | apply IH; reflexivity].
Qed.

Lemma lx_stmts_Forall2 G F : forall ts top nl nf ts' nl' nf',
  lx_stmts top G F nl nf ts = Some (ts', nl', nf') -> length ts' = length ts.
Proof.
  induction ts as [|t r IH]; intros top nl nf ts' nl' nf' H; cbn [lx_stmts] in H.
  - inversion H. reflexivity.
  - destruct (lx_stmt top G F nl nf t) as [[[[t1 top1] nl1] nf1]|]; [|discriminate H].
    destruct (lx_stmts top1 G F nl1 nf1 r) as [[[r1 nl2] nf2]|] eqn:E; [|discriminate H].
    inversion H; subst. cbn [length]. f_equal. eapply IH; eauto.
Qed.

(* ================================================================== lex_ids only attaches ids *)

Lemma lx_seg_erase G sg sg' : lx_seg G sg = Some sg' -> erase_seg sg' = erase_seg sg.
Proof.
  destruct sg as [b|n l]; cbn [lx_seg]; [intro H; inversion H; reflexivity|].
  destruct (lx_var G n); intro H; inversion H. reflexivity.
Qed.

Lemma Forall2_map_eq {A B} (f g : A -> B) : forall l l',
  Forall2 (fun x y => g y = f x) l l' -> map g l' = map f l.
Proof. induction 1; cbn [map]; [reflexivity | f_equal; assumption]. Qed.

Lemma lx_exprs_erase G F : forall es es',
  Forall (fun e => forall G F e', lx_expr G F e = Some e' -> erase_expr e' = erase_expr e) es ->
  opt_all (map (lx_expr G F) es) = Some es' -> map erase_expr es' = map erase_expr es.
Proof.
  intros es es' HP E. apply opt_all_Forall2 in E. apply Forall2_map_eq.
  induction E as [|x y l l' Hxy _ IH]; constructor.
  - inversion HP; subst. eauto.
  - inversion HP; subst. auto.
Qed.

Lemma lx_expr_erase : forall e G F e', lx_expr G F e = Some e' -> erase_expr e' = erase_expr e.
Proof.
  induction e as [x | s | segs | b | | n l | op a b IHa IHb | op a IHa | es IHes | a i IHa IHi | o f IHo
                 | c args t IHc IHargs] using expr_ind'; intros G F e' H; cbn [lx_expr] in H.
  - inversion H; reflexivity.
  - inversion H; reflexivity.
  - destruct (opt_all (map (lx_seg G) segs)) as [s|] eqn:E; [|discriminate H]. inversion H; subst.
    cbn [erase_expr]. f_equal. apply Forall2_map_eq.
    apply opt_all_Forall2 in E. induction E; constructor; auto. eapply lx_seg_erase; eauto.
  - inversion H; reflexivity.
  - inversion H; reflexivity.
  - destruct (lx_var G n); inversion H. reflexivity.
  - destruct (lx_expr G F a) as [a'|] eqn:Ea; [|discriminate H].
    destruct (lx_expr G F b) as [b'|] eqn:Eb; [|discriminate H]. inversion H; subst.
    cbn [erase_expr]. rewrite (IHa _ _ _ Ea), (IHb _ _ _ Eb). reflexivity.
  - destruct (lx_expr G F a) as [a'|] eqn:Ea; [|discriminate H]. inversion H; subst.
    cbn [erase_expr]. rewrite (IHa _ _ _ Ea). reflexivity.
  - destruct (opt_all (map (lx_expr G F) es)) as [es'|] eqn:E; [|discriminate H]. inversion H; subst.
    cbn [erase_expr]. f_equal. exact (lx_exprs_erase G F es es' IHes E).
  - destruct (lx_expr G F a) as [a'|] eqn:Ea; [|discriminate H].
    destruct (lx_expr G F i) as [i'|] eqn:Ei; [|discriminate H]. inversion H; subst.
    cbn [erase_expr]. rewrite (IHa _ _ _ Ea), (IHi _ _ _ Ei). reflexivity.
  - destruct (lx_expr G F o) as [o'|] eqn:Eo; [|discriminate H]. inversion H; subst.
    cbn [erase_expr]. rewrite (IHo _ _ _ Eo). reflexivity.
  - destruct (opt_all (map (lx_expr G F) args)) as [args'|] eqn:E; [|discriminate H].
    pose proof (lx_exprs_erase G F args args' IHargs E) as EA.
    destruct c as [x | s | segs | b | | f l | op a b | op a | es | a i | o f | c0 args0 t0].
    all: try (destruct (lx_expr G F _) as [c'|] eqn:Ec in H; [|discriminate H]; inversion H; subst;
              cbn [erase_expr]; rewrite EA; rewrite (IHc _ _ _ Ec); reflexivity).
    + (* callee is a name *)
      destruct (global_builtin f).
      * inversion H; subst. cbn [erase_expr]. rewrite EA. reflexivity.
      * destruct (vlookup F f); inversion H; subst. cbn [erase_expr]. rewrite EA. reflexivity.
    + (* callee is a member *)
      destruct (lx_expr G F o) as [o'|] eqn:Eo; [|discriminate H]. inversion H; subst.
      cbn [erase_expr]. rewrite EA.
      assert (Em : lx_expr G F (EMember o f) = Some (EMember o' f)) by (cbn [lx_expr]; rewrite Eo; reflexivity).
      pose proof (IHc _ _ _ Em) as X. cbn [erase_expr] in X. inversion X. reflexivity.
Qed.

Definition erase_goal (t : stmt) : Prop :=
  forall top G F nl nf t' top' nl' nf',
  lx_stmt top G F nl nf t = Some (t', top', nl', nf') -> erase_stmt t' = erase_stmt t.

Lemma lx_stmts_erase G F : forall ts, Forall erase_goal ts ->
  forall top nl nf ts' nl' nf',
  lx_stmts top G F nl nf ts = Some (ts', nl', nf') -> map erase_stmt ts' = map erase_stmt ts.
Proof.
  induction 1 as [|t r Ht _ IH]; intros top nl nf ts' nl' nf' H; cbn [lx_stmts] in H.
  - inversion H. reflexivity.
  - destruct (lx_stmt top G F nl nf t) as [[[[t1 top1] nl1] nf1]|] eqn:E1; [|discriminate H].
    destruct (lx_stmts top1 G F nl1 nf1 r) as [[[r1 nl2] nf2]|] eqn:E2; [|discriminate H].
    inversion H; subst. cbn [map]. rewrite (Ht _ _ _ _ _ _ _ _ _ E1), (IH _ _ _ _ _ _ E2). reflexivity.
Qed.

Lemma lx_block_erase G F b : Forall erase_goal b ->
  forall nl nf b' nl' nf', lx_block G F nl nf b = Some (b', nl', nf') -> map erase_stmt b' = map erase_stmt b.
Proof.
  intros Hb nl nf b' nl' nf' H. unfold lx_block in H. destruct (lx_predecl b nf) as [fs nf1].
  destruct (nodup_names (scope_names fs)); [|discriminate H]. eapply lx_stmts_erase; eauto.
Qed.

Lemma lx_stmt_erase : forall t, erase_goal t.
Proof.
  induction t as [sid n ps body fid ls ll IHb | sid n l e | sid n l e | sid tg e | sid cnd t f IHt IHf
                 | sid cnd b IHb | sid b IHb | sid eo | sid | sid | sid e] using stmt_ind';
    intros top G F nl nf t' top' nl' nf' H.
  - rewrite lx_stmt_fun in H. destruct F as [|fs F']; [discriminate H|].
    destruct (assoc n fs); [|discriminate H]. destruct (nodup_names ps); [|discriminate H].
    destruct (lx_block _ _ _ _ body) as [[[body' nl1] nf1]|] eqn:E; [|discriminate H]. inversion H; subst.
    cbn [erase_stmt]. rewrite (lx_block_erase _ _ _ IHb _ _ _ _ _ E). reflexivity.
  - cbn [lx_stmt] in H. destruct (lx_expr (top :: G) F e) as [e'|] eqn:Ee; [|discriminate H].
    destruct (assoc n top); inversion H; subst; cbn [erase_stmt]; rewrite (lx_expr_erase _ _ _ _ Ee); reflexivity.
  - cbn [lx_stmt] in H. destruct (lx_var (top :: G) n); [|discriminate H].
    destruct (lx_expr (top :: G) F e) as [e'|] eqn:Ee; [|discriminate H]. inversion H; subst.
    cbn [erase_stmt]. rewrite (lx_expr_erase _ _ _ _ Ee). reflexivity.
  - cbn [lx_stmt] in H. destruct (lx_expr (top :: G) F tg) as [tg'|] eqn:Et; [|discriminate H].
    destruct (lx_expr (top :: G) F e) as [e'|] eqn:Ee; [|discriminate H]. inversion H; subst.
    cbn [erase_stmt]. rewrite (lx_expr_erase _ _ _ _ Et), (lx_expr_erase _ _ _ _ Ee). reflexivity.
  - rewrite lx_stmt_if in H. destruct (lx_expr (top :: G) F cnd) as [c'|] eqn:Ec; [|discriminate H].
    destruct (lx_block (top :: G) F nl nf t) as [[[t1 nl1] nf1]|] eqn:Et; [|discriminate H].
    destruct f as [fb|].
    + destruct (lx_block (top :: G) F nl1 nf1 fb) as [[[fb1 nl2] nf2]|] eqn:Ef; [|discriminate H].
      inversion H; subst. cbn [erase_stmt option_map].
      rewrite (lx_expr_erase _ _ _ _ Ec), (lx_block_erase _ _ _ IHt _ _ _ _ _ Et), (lx_block_erase _ _ _ IHf _ _ _ _ _ Ef).
      reflexivity.
    + inversion H; subst. cbn [erase_stmt option_map].
      rewrite (lx_expr_erase _ _ _ _ Ec), (lx_block_erase _ _ _ IHt _ _ _ _ _ Et). reflexivity.
  - rewrite lx_stmt_loop in H. destruct (lx_expr (top :: G) F cnd) as [c'|] eqn:Ec; [|discriminate H].
    destruct (lx_block (top :: G) F nl nf b) as [[[b1 nl1] nf1]|] eqn:Eb; [|discriminate H]. inversion H; subst.
    cbn [erase_stmt]. rewrite (lx_expr_erase _ _ _ _ Ec), (lx_block_erase _ _ _ IHb _ _ _ _ _ Eb). reflexivity.
  - rewrite lx_stmt_block in H.
    destruct (lx_block (top :: G) F nl nf b) as [[[b1 nl1] nf1]|] eqn:Eb; [|discriminate H]. inversion H; subst.
    cbn [erase_stmt]. rewrite (lx_block_erase _ _ _ IHb _ _ _ _ _ Eb). reflexivity.
  - cbn [lx_stmt] in H. destruct eo as [e|].
    + destruct (lx_expr (top :: G) F e) as [e'|] eqn:Ee; [|discriminate H]. inversion H; subst.
      cbn [erase_stmt option_map]. rewrite (lx_expr_erase _ _ _ _ Ee). reflexivity.
    + inversion H; subst. reflexivity.
  - cbn [lx_stmt] in H. inversion H; subst. reflexivity.
  - cbn [lx_stmt] in H. inversion H; subst. reflexivity.
  - cbn [lx_stmt] in H. destruct (lx_expr (top :: G) F e) as [e'|] eqn:Ee; [|discriminate H]. inversion H; subst.
    cbn [erase_stmt]. rewrite (lx_expr_erase _ _ _ _ Ee). reflexivity.
Qed.

Theorem lex_ids_erase : forall p q, lex_ids p = Some q -> erase_ids q = erase_ids p.
Proof.
  intros p q H. rewrite lex_ids_unfold in H.
  destruct (lx_block [] [] 0 1 p) as [[[q' nl] nf]|] eqn:E; [|discriminate H]. inversion H; subst q'.
  unfold erase_ids. eapply lx_block_erase; [|exact E]. apply Forall_forall. intros t _. apply lx_stmt_erase.
Qed.

(* ================================================================== the result passes chk_block *)
Require Import NS.proofs.SimKit.

Lemma zopt_eqb_refl i : zopt_eqb (Some i) (Some i) = true.
Proof. cbn. apply Z.eqb_refl. Qed.

Lemma lx_var_chk G n l : lx_var G n = Some l -> chk_var G n l = true.
Proof.
  unfold lx_var, chk_var. destruct (vlookup G n) as [i|]; intro H; inversion H. apply zopt_eqb_refl.
Qed.

Lemma lx_seg_chk G sg sg' : lx_seg G sg = Some sg' -> chk_seg G sg' = true.
Proof.
  destruct sg as [b|n l]; cbn [lx_seg]; [intro H; inversion H; reflexivity|].
  destruct (lx_var G n) as [l'|] eqn:E; intro H; inversion H. cbn [chk_seg]. apply lx_var_chk. exact E.
Qed.

Definition callee_kind (e : expr) : nat :=
  match e with EVar _ _ => 0%nat | EMember _ _ => 1%nat | _ => 2%nat end.

Lemma lx_expr_kind G F e e' : lx_expr G F e = Some e' -> callee_kind e' = callee_kind e.
Proof.
  destruct e; cbn [lx_expr]; intro H;
    repeat match type of H with
           | match ?x with _ => _ end = _ => destruct x; try discriminate H
           end; inversion H; reflexivity.
Qed.

Lemma chk_call_other G F c args t : callee_kind c = 2%nat ->
  chk_expr G F (ECall c args t) = chk_expr G F c && forallb (chk_expr G F) args.
Proof. destruct c; cbn [callee_kind]; intro H; try discriminate H; reflexivity. Qed.

Lemma lx_exprs_chk G F : forall es es',
  Forall (fun e => forall G F e', lx_expr G F e = Some e' -> chk_expr G F e' = true) es ->
  opt_all (map (lx_expr G F) es) = Some es' -> forallb (chk_expr G F) es' = true.
Proof.
  intros es es' HP E. apply opt_all_Forall2 in E.
  induction E as [|x y l l' Hxy _ IH]; [reflexivity|]. cbn [forallb].
  inversion HP; subst. rewrite (H1 _ _ _ Hxy). cbn [andb]. auto.
Qed.

Lemma lx_expr_chk : forall e G F e', lx_expr G F e = Some e' -> chk_expr G F e' = true.
Proof.
  induction e as [x | s | segs | b | | n l | op a b IHa IHb | op a IHa | es IHes | a i IHa IHi | o f IHo
                 | c args t IHc IHargs] using expr_ind'; intros G F e' H; cbn [lx_expr] in H.
  - inversion H; reflexivity.
  - inversion H; reflexivity.
  - destruct (opt_all (map (lx_seg G) segs)) as [s|] eqn:E; [|discriminate H]. inversion H; subst.
    cbn [chk_expr]. apply opt_all_Forall2 in E. clear H.
    induction E as [|x y l l' Hxy _ IH]; [reflexivity|]. cbn [forallb]. rewrite (lx_seg_chk _ _ _ Hxy). exact IH.
  - inversion H; reflexivity.
  - inversion H; reflexivity.
  - destruct (lx_var G n) as [l'|] eqn:E; inversion H. cbn [chk_expr]. apply lx_var_chk. exact E.
  - destruct (lx_expr G F a) as [a'|] eqn:Ea; [|discriminate H].
    destruct (lx_expr G F b) as [b'|] eqn:Eb; [|discriminate H]. inversion H; subst.
    cbn [chk_expr]. rewrite (IHa _ _ _ Ea), (IHb _ _ _ Eb). reflexivity.
  - destruct (lx_expr G F a) as [a'|] eqn:Ea; [|discriminate H]. inversion H; subst.
    cbn [chk_expr]. exact (IHa _ _ _ Ea).
  - destruct (opt_all (map (lx_expr G F) es)) as [es'|] eqn:E; [|discriminate H]. inversion H; subst.
    cbn [chk_expr]. exact (lx_exprs_chk G F es es' IHes E).
  - destruct (lx_expr G F a) as [a'|] eqn:Ea; [|discriminate H].
    destruct (lx_expr G F i) as [i'|] eqn:Ei; [|discriminate H]. inversion H; subst.
    cbn [chk_expr]. rewrite (IHa _ _ _ Ea), (IHi _ _ _ Ei). reflexivity.
  - destruct (lx_expr G F o) as [o'|] eqn:Eo; [|discriminate H]. inversion H; subst.
    cbn [chk_expr]. exact (IHo _ _ _ Eo).
  - destruct (opt_all (map (lx_expr G F) args)) as [args'|] eqn:E; [|discriminate H].
    pose proof (lx_exprs_chk G F args args' IHargs E) as EA.
    destruct c as [x | s | segs | b | | f l | op a b | op a | es | a i | o f | c0 args0 t0].
    all: try (destruct (lx_expr G F _) as [c'|] eqn:Ec in H; [|discriminate H]; inversion H; subst;
              rewrite chk_call_other by (rewrite (lx_expr_kind _ _ _ _ Ec); reflexivity);
              rewrite EA, (IHc _ _ _ Ec); reflexivity).
    + destruct (global_builtin f) eqn:Eg.
      * inversion H; subst. cbn [chk_expr]. rewrite Eg, EA. reflexivity.
      * destruct (vlookup F f) as [fid|] eqn:Ev; inversion H; subst. cbn [chk_expr]. rewrite Eg, Ev, EA.
        rewrite zopt_eqb_refl. reflexivity.
    + destruct (lx_expr G F o) as [o'|] eqn:Eo; [|discriminate H]. inversion H; subst.
      cbn [chk_expr]. rewrite EA.
      assert (Em : lx_expr G F (EMember o f) = Some (EMember o' f)) by (cbn [lx_expr]; rewrite Eo; reflexivity).
      pose proof (IHc _ _ _ Em) as X. cbn [chk_expr] in X. rewrite X. reflexivity.
Qed.

(* what the head of a rewritten statement looks like to predecl *)
Lemma lx_stmt_predecl top G fs F nl nf t t' top' nl' nf' r' :
  lx_stmt top G (fs :: F) nl nf t = Some (t', top', nl', nf') ->
  predecl (t' :: r') =
  match t with
  | SFun _ n _ _ _ _ _ =>
      match assoc n fs with
      | Some f => match predecl r' with Some gs => Some ((n, f) :: gs) | None => None end
      | None => None
      end
  | _ => predecl r'
  end.
Proof.
  destruct t as [sid n ps body fid ls ll | sid n l e | sid n l e | sid tg e | sid cnd t f
                 | sid cnd b | sid b | sid eo | sid | sid | sid e]; intro H.
  - rewrite lx_stmt_fun in H. destruct (assoc n fs) as [f|]; [|discriminate H].
    destruct (nodup_names ps); [|discriminate H].
    destruct (lx_block _ _ _ _ body) as [[[body' nl1] nf1]|]; [|discriminate H]. inversion H; subst. reflexivity.
  - cbn [lx_stmt] in H. destruct (lx_expr _ _ e); [|discriminate H]. destruct (assoc n top); inversion H; reflexivity.
  - cbn [lx_stmt] in H. destruct (lx_var _ n); [|discriminate H]. destruct (lx_expr _ _ e); inversion H; reflexivity.
  - cbn [lx_stmt] in H. destruct (lx_expr _ _ tg); [|discriminate H]. destruct (lx_expr _ _ e); inversion H; reflexivity.
  - rewrite lx_stmt_if in H. destruct (lx_expr _ _ cnd); [|discriminate H].
    destruct (lx_block _ _ nl nf t) as [[[t1 nl1] nf1]|]; [|discriminate H].
    destruct f as [fb|]; [destruct (lx_block _ _ nl1 nf1 fb) as [[[fb1 nl2] nf2]|]; [|discriminate H]|];
      inversion H; reflexivity.
  - rewrite lx_stmt_loop in H. destruct (lx_expr _ _ cnd); [|discriminate H].
    destruct (lx_block _ _ nl nf b) as [[[b1 nl1] nf1]|]; inversion H; reflexivity.
  - rewrite lx_stmt_block in H. destruct (lx_block _ _ nl nf b) as [[[b1 nl1] nf1]|]; inversion H; reflexivity.
  - cbn [lx_stmt] in H. destruct eo as [e|]; [destruct (lx_expr _ _ e)|]; inversion H; reflexivity.
  - cbn [lx_stmt] in H. inversion H; reflexivity.
  - cbn [lx_stmt] in H. inversion H; reflexivity.
  - cbn [lx_stmt] in H. destruct (lx_expr _ _ e); inversion H; reflexivity.
Qed.

Lemma lx_predecl_fun sid n ps body fid ls ll r k :
  lx_predecl (SFun sid n ps body fid ls ll :: r) k =
  ((n, k) :: fst (lx_predecl r (k + 1)), snd (lx_predecl r (k + 1))).
Proof. cbn [lx_predecl]. destruct (lx_predecl r (k + 1)). reflexivity. Qed.

Lemma lx_predecl_other t r k :
  match t with SFun _ _ _ _ _ _ _ => False | _ => True end -> lx_predecl (t :: r) k = lx_predecl r k.
Proof. destruct t; intro H; try contradiction; reflexivity. Qed.

Lemma lx_predecl_mono : forall b k, k <= snd (lx_predecl b k).
Proof.
  induction b as [|t r IH]; intro k; [cbn; lia|].
  destruct t; try (rewrite lx_predecl_other by exact I; apply IH).
  rewrite lx_predecl_fun. cbn [snd]. specialize (IH (k + 1)). lia.
Qed.

Lemma lx_stmts_predecl G fs F : forall ts top nl nf ts' nl' nf' k,
  lx_stmts top G (fs :: F) nl nf ts = Some (ts', nl', nf') ->
  (forall n i, In (n, i) (fst (lx_predecl ts k)) -> assoc n fs = Some i) ->
  predecl ts' = Some (fst (lx_predecl ts k)).
Proof.
  induction ts as [|t r IH]; intros top nl nf ts' nl' nf' k H A; cbn [lx_stmts] in H.
  - inversion H. reflexivity.
  - destruct (lx_stmt top G (fs :: F) nl nf t) as [[[[t1 top1] nl1] nf1]|] eqn:E1; [|discriminate H].
    destruct (lx_stmts top1 G (fs :: F) nl1 nf1 r) as [[[r1 nl2] nf2]|] eqn:E2; [|discriminate H].
    inversion H; subst. rewrite (lx_stmt_predecl _ _ _ _ _ _ _ _ _ _ _ r1 E1).
    destruct t as [sid n ps body fid ls ll | | | | | | | | | | ];
      try (rewrite lx_predecl_other in A |- * by exact I; exact (IH _ _ _ _ _ _ k E2 A)).
    rewrite lx_predecl_fun in A |- *. cbn [fst] in A |- *.
    rewrite (A n k (or_introl eq_refl)).
    rewrite (IH _ _ _ _ _ _ (k + 1) E2 (fun m i Hin => A m i (or_intror Hin))). reflexivity.
Qed.

Definition chk_goal (t : stmt) : Prop :=
  forall top G F nl nf t' top' nl' nf',
  lx_stmt top G F nl nf t = Some (t', top', nl', nf') ->
  chk_stmt top G F t' = Some top' /\ nl <= nl' /\ nf <= nf'.

Lemma lx_stmts_chk G F : forall ts, Forall chk_goal ts ->
  forall top nl nf ts' nl' nf',
  lx_stmts top G F nl nf ts = Some (ts', nl', nf') ->
  chk_stmts G F ts' top = true /\ nl <= nl' /\ nf <= nf'.
Proof.
  induction 1 as [|t r Ht _ IH]; intros top nl nf ts' nl' nf' H; cbn [lx_stmts] in H.
  - inversion H; subst. cbn. repeat split; lia.
  - destruct (lx_stmt top G F nl nf t) as [[[[t1 top1] nl1] nf1]|] eqn:E1; [|discriminate H].
    destruct (lx_stmts top1 G F nl1 nf1 r) as [[[r1 nl2] nf2]|] eqn:E2; [|discriminate H].
    inversion H; subst. destruct (Ht _ _ _ _ _ _ _ _ _ E1) as (C1 & L1 & L2).
    destruct (IH _ _ _ _ _ _ E2) as (C2 & L3 & L4).
    cbn [chk_stmts]. rewrite C1. refine (conj C2 (conj _ _)); lia.
Qed.

Lemma lx_block_chk G F b : Forall chk_goal b ->
  forall nl nf b' nl' nf', lx_block G F nl nf b = Some (b', nl', nf') ->
  chk_block G F b' = true /\ nl <= nl' /\ nf <= nf'.
Proof.
  intros Hb nl nf b' nl' nf' H. unfold lx_block in H.
  destruct (lx_predecl b nf) as [fs nf1] eqn:Ep.
  destruct (nodup_names (scope_names fs)) eqn:Nd; [|discriminate H].
  destruct (lx_stmts_chk _ _ _ Hb _ _ _ _ _ _ H) as (C & L1 & L2).
  assert (P : predecl b' = Some fs).
  { replace fs with (fst (lx_predecl b nf)) by (rewrite Ep; reflexivity).
    eapply lx_stmts_predecl; [exact H|]. rewrite Ep. cbn [fst]. intros n i Hin.
    apply assoc_in; [apply nodup_names_NoDup; exact Nd | exact Hin]. }
  pose proof (lx_predecl_mono b nf) as M. rewrite Ep in M. cbn [snd] in M.
  unfold chk_block. rewrite P, Nd, C. repeat split; lia.
Qed.

Lemma lx_stmt_chk : forall t, chk_goal t.
Proof.
  induction t as [sid n ps body fid ls ll IHb | sid n l e | sid n l e | sid tg e | sid cnd t f IHt IHf
                 | sid cnd b IHb | sid b IHb | sid eo | sid | sid | sid e] using stmt_ind';
    intros top G F nl nf t' top' nl' nf' H.
  - rewrite lx_stmt_fun in H. destruct F as [|fs F']; [discriminate H|].
    destruct (assoc n fs) as [f|] eqn:Ea; [|discriminate H]. destruct (nodup_names ps) eqn:Np; [|discriminate H].
    destruct (lx_block _ _ _ _ body) as [[[body' nl1] nf1]|] eqn:E; [|discriminate H]. inversion H; subst.
    destruct (lx_block_chk _ _ _ IHb _ _ _ _ _ E) as (C & L1 & L2).
    rewrite chk_stmt_fun. rewrite Ea, zopt_eqb_refl, Np, C.
    assert (Z.of_nat (length ps) <=? nl' - nl = true) as -> by (apply Z.leb_le; lia).
    cbn [andb]. repeat split; lia.
  - cbn [lx_stmt] in H. destruct (lx_expr (top :: G) F e) as [e'|] eqn:Ee; [|discriminate H].
    pose proof (lx_expr_chk _ _ _ _ Ee) as Ce.
    destruct (assoc n top) as [i|] eqn:Ea; inversion H; subst; cbn [chk_stmt]; rewrite Ce, Ea.
    + rewrite zopt_eqb_refl. repeat split; lia.
    + repeat split; lia.
  - cbn [lx_stmt] in H. destruct (lx_var (top :: G) n) as [l'|] eqn:Ev; [|discriminate H].
    destruct (lx_expr (top :: G) F e) as [e'|] eqn:Ee; [|discriminate H]. inversion H; subst.
    cbn [chk_stmt]. rewrite (lx_var_chk _ _ _ Ev), (lx_expr_chk _ _ _ _ Ee). repeat split; lia.
  - cbn [lx_stmt] in H. destruct (lx_expr (top :: G) F tg) as [tg'|] eqn:Et; [|discriminate H].
    destruct (lx_expr (top :: G) F e) as [e'|] eqn:Ee; [|discriminate H]. inversion H; subst.
    cbn [chk_stmt]. rewrite (lx_expr_chk _ _ _ _ Et), (lx_expr_chk _ _ _ _ Ee). repeat split; lia.
  - rewrite lx_stmt_if in H. destruct (lx_expr (top :: G) F cnd) as [c'|] eqn:Ec; [|discriminate H].
    destruct (lx_block (top :: G) F nl nf t) as [[[t1 nl1] nf1]|] eqn:Et; [|discriminate H].
    destruct (lx_block_chk _ _ _ IHt _ _ _ _ _ Et) as (C1 & L1 & L2).
    destruct f as [fb|].
    + destruct (lx_block (top :: G) F nl1 nf1 fb) as [[[fb1 nl2] nf2]|] eqn:Ef; [|discriminate H].
      destruct (lx_block_chk _ _ _ IHf _ _ _ _ _ Ef) as (C2 & L3 & L4).
      inversion H; subst. rewrite chk_stmt_if, (lx_expr_chk _ _ _ _ Ec), C1, C2. repeat split; lia.
    + inversion H; subst. rewrite chk_stmt_if, (lx_expr_chk _ _ _ _ Ec), C1. repeat split; lia.
  - rewrite lx_stmt_loop in H. destruct (lx_expr (top :: G) F cnd) as [c'|] eqn:Ec; [|discriminate H].
    destruct (lx_block (top :: G) F nl nf b) as [[[b1 nl1] nf1]|] eqn:Eb; [|discriminate H]. inversion H; subst.
    destruct (lx_block_chk _ _ _ IHb _ _ _ _ _ Eb) as (C1 & L1 & L2).
    rewrite chk_stmt_loop, (lx_expr_chk _ _ _ _ Ec), C1. repeat split; lia.
  - rewrite lx_stmt_block in H.
    destruct (lx_block (top :: G) F nl nf b) as [[[b1 nl1] nf1]|] eqn:Eb; [|discriminate H]. inversion H; subst.
    destruct (lx_block_chk _ _ _ IHb _ _ _ _ _ Eb) as (C1 & L1 & L2).
    rewrite chk_stmt_block, C1. repeat split; lia.
  - cbn [lx_stmt] in H. destruct eo as [e|].
    + destruct (lx_expr (top :: G) F e) as [e'|] eqn:Ee; [|discriminate H]. inversion H; subst.
      cbn [chk_stmt]. rewrite (lx_expr_chk _ _ _ _ Ee). repeat split; lia.
    + inversion H; subst. cbn [chk_stmt]. repeat split; lia.
  - cbn [lx_stmt] in H. inversion H; subst. cbn [chk_stmt]. repeat split; lia.
  - cbn [lx_stmt] in H. inversion H; subst. cbn [chk_stmt]. repeat split; lia.
  - cbn [lx_stmt] in H. destruct (lx_expr (top :: G) F e) as [e'|] eqn:Ee; [|discriminate H]. inversion H; subst.
    cbn [chk_stmt]. rewrite (lx_expr_chk _ _ _ _ Ee). repeat split; lia.
Qed.

Lemma all_chk_goal b : Forall chk_goal b.
Proof. apply Forall_forall. intros t _. apply lx_stmt_chk. Qed.

Theorem lex_ids_chk_block : forall p q, lex_ids p = Some q -> chk_block [] [] q = true.
Proof.
  intros p q H. rewrite lex_ids_unfold in H.
  destruct (lx_block [] [] 0 1 p) as [[[q' nl] nf]|] eqn:E; [|discriminate H]. inversion H; subst q'.
  exact (proj1 (lx_block_chk _ _ _ (all_chk_goal p) _ _ _ _ _ E)).
Qed.

(* ================================================================== the ids it hands out are distinct *)

Definition RNG (l : list Z) (lo hi : Z) : Prop := NoDup l /\ forall x, In x l -> lo <= x < hi.

Lemma RNG_nil lo hi : RNG [] lo hi.
Proof. split; [constructor | intros x []]. Qed.

Lemma RNG_app a b lo mid hi : RNG a lo mid -> RNG b mid hi -> lo <= mid -> mid <= hi -> RNG (a ++ b) lo hi.
Proof.
  intros (Na & Ra) (Nb & Rb) L1 L2. split.
  - apply NoDup_app_intro; auto. intros x Ha Hb. specialize (Ra x Ha). specialize (Rb x Hb). lia.
  - intros x Hx. apply in_app_or in Hx. destruct Hx as [Hx|Hx]; [specialize (Ra x Hx) | specialize (Rb x Hx)]; lia.
Qed.

Lemma RNG_cons l lo hi : RNG l (lo + 1) hi -> lo + 1 <= hi -> RNG (lo :: l) lo hi.
Proof.
  intros (N & R) L. split.
  - constructor; [|exact N]. intro Hin. specialize (R lo Hin). lia.
  - intros x [E|Hx]; [subst; lia | specialize (R x Hx); lia].
Qed.

Lemma RNG_widen l lo hi lo' hi' : RNG l lo hi -> lo' <= lo -> hi <= hi' -> RNG l lo' hi'.
Proof. intros (N & R) L1 L2. split; [exact N|]. intros x Hx. specialize (R x Hx). lia. Qed.

Lemma RNG_seqZ : forall n lo, RNG (seqZ lo n) lo (lo + Z.of_nat n).
Proof.
  induction n as [|n IH]; intro lo; [apply RNG_nil|].
  cbn [seqZ]. apply RNG_cons; [|lia]. eapply RNG_widen; [apply IH | lia | lia].
Qed.

Lemma NoDup_nodupZ l : NoDup l -> nodupZ l = true.
Proof.
  induction 1 as [|x l Hx _ IH]; [reflexivity|]. cbn [nodupZ]. rewrite IH, andb_true_r.
  destruct (memZ x l) eqn:E; [|reflexivity]. apply memZ_in in E. contradiction.
Qed.

Lemma ids_stmt_fun sid n ps body fid ls ll :
  ids_stmt (SFun sid n ps body fid ls ll) = seqZ ls (length ps) ++ ids_block body.
Proof. reflexivity. Qed.
Lemma ids_stmt_if sid c t f :
  ids_stmt (SIf sid c t f) = ids_block t ++ match f with Some fb => ids_block fb | None => [] end.
Proof. reflexivity. Qed.
Lemma ids_stmt_loop sid c b : ids_stmt (SLoop sid c b) = ids_block b.
Proof. reflexivity. Qed.
Lemma ids_stmt_block sid b : ids_stmt (SBlock sid b) = ids_block b.
Proof. reflexivity. Qed.
Lemma fids_stmt_fun sid n ps body fid ls ll :
  fids_stmt (SFun sid n ps body fid ls ll) = (match fid with Some f => [f] | None => [] end) ++ fids_block body.
Proof. reflexivity. Qed.
Lemma fids_stmt_if sid c t f :
  fids_stmt (SIf sid c t f) = fids_block t ++ match f with Some fb => fids_block fb | None => [] end.
Proof. reflexivity. Qed.
Lemma fids_stmt_loop sid c b : fids_stmt (SLoop sid c b) = fids_block b.
Proof. reflexivity. Qed.
Lemma fids_stmt_block sid b : fids_stmt (SBlock sid b) = fids_block b.
Proof. reflexivity. Qed.

Definition seen_ok (seen : list name) (top : scope) : Prop :=
  forall m, mem_name m seen = true <-> assoc m top <> None.

Lemma seen_ok_nil : seen_ok [] [].
Proof. intro m. cbn. split; [discriminate | intro H; contradiction H; reflexivity]. Qed.

Lemma seen_ok_cons seen top n i : seen_ok seen top -> seen_ok (n :: seen) ((n, i) :: top).
Proof.
  intros S m. unfold mem_name in *. cbn [existsb assoc].
  rewrite (StaticRulesProofs.bytes_eqb_sym m n).
  destruct (bytes_eqb n m); cbn [orb]; [split; [discriminate | reflexivity]|]. apply S.
Qed.

Definition nfuns (b : list stmt) : Z := Z.of_nat (length (fst (lx_predecl b 0))).

Lemma lx_predecl_len : forall b k, length (fst (lx_predecl b k)) = length (fst (lx_predecl b 0)).
Proof.
  induction b as [|t r IH]; intro k; [reflexivity|].
  destruct t; try (rewrite !lx_predecl_other by exact I; apply IH).
  rewrite !lx_predecl_fun. cbn [fst length]. rewrite (IH (k + 1)), (IH (0 + 1)). reflexivity.
Qed.

Lemma lx_predecl_snd : forall b k, snd (lx_predecl b k) = k + nfuns b.
Proof.
  unfold nfuns. induction b as [|t r IH]; intro k; [cbn; lia|].
  destruct t; try (rewrite !lx_predecl_other by exact I; apply IH).
  rewrite !lx_predecl_fun. cbn [fst snd length]. rewrite IH, (lx_predecl_len r (0 + 1)). lia.
Qed.

Lemma nfuns_fun sid n ps body fid ls ll r : nfuns (SFun sid n ps body fid ls ll :: r) = 1 + nfuns r.
Proof. unfold nfuns. rewrite lx_predecl_fun. cbn [fst length]. rewrite (lx_predecl_len r (0 + 1)). lia. Qed.

Lemma nfuns_other t r : match t with SFun _ _ _ _ _ _ _ => False | _ => True end -> nfuns (t :: r) = nfuns r.
Proof. intro H. unfold nfuns. rewrite lx_predecl_other by exact H. reflexivity. Qed.

Lemma nfuns_nonneg b : 0 <= nfuns b.
Proof. unfold nfuns. lia. Qed.

Definition ids_goal (t : stmt) : Prop :=
  forall top G F nl nf t' top' nl' nf',
  lx_stmt top G F nl nf t = Some (t', top', nl', nf') ->
  (match t with
   | SMake _ n _ _ =>
       exists sid i e', t' = SMake sid n (Some i) e' /\
         ((assoc n top = Some i /\ top' = top /\ nl' = nl) \/
          (assoc n top = None /\ i = nl /\ top' = (n, nl) :: top /\ nl' = nl + 1))
   | _ => top' = top /\ match t' with SMake _ _ _ _ => False | _ => True end /\ RNG (ids_stmt t') nl nl'
   end) /\
  (match t with
   | SFun _ n _ _ _ _ _ =>
       exists f rest, fids_stmt t' = f :: rest /\
         match F with fs :: _ => assoc n fs = Some f | [] => False end /\ RNG rest nf nf'
   | _ => RNG (fids_stmt t') nf nf'
   end).

Lemma ids_stmts_other t r seen :
  match t with SMake _ _ _ _ => False | _ => True end -> ids_stmts (t :: r) seen = ids_stmt t ++ ids_stmts r seen.
Proof. destruct t; intro H; try contradiction; reflexivity. Qed.

Lemma lx_stmts_ids G F : forall ts, Forall ids_goal ts ->
  forall top nl nf ts' nl' nf' seen,
  lx_stmts top G F nl nf ts = Some (ts', nl', nf') -> seen_ok seen top ->
  RNG (ids_stmts ts' seen) nl nl'.
Proof.
  induction 1 as [|t r Ht _ IH]; intros top nl nf ts' nl' nf' seen H S; cbn [lx_stmts] in H.
  - inversion H; subst. apply RNG_nil.
  - destruct (lx_stmt top G F nl nf t) as [[[[t1 top1] nl1] nf1]|] eqn:E1; [|discriminate H].
    destruct (lx_stmts top1 G F nl1 nf1 r) as [[[r1 nl2] nf2]|] eqn:E2; [|discriminate H].
    inversion H; subst.
    destruct (lx_stmt_chk t _ _ _ _ _ _ _ _ _ E1) as (_ & M1 & _).
    destruct (lx_stmts_chk _ _ _ (all_chk_goal r) _ _ _ _ _ _ E2) as (_ & M2 & _).
    destruct (Ht _ _ _ _ _ _ _ _ _ E1) as (A & _).
    destruct t as [sid n ps body fid ls ll | sid n l e | sid n l e | sid tg e | sid cnd t f
                  | sid cnd b | sid b | sid eo | sid | sid | sid e].
    2: { (* make *)
      destruct A as (sid' & i & e' & -> & [(Ea & -> & ->) | (Ea & -> & -> & ->)]).
      - cbn [ids_stmts]. assert (Hm : mem_name n seen = true) by (apply S; rewrite Ea; discriminate).
        rewrite Hm. exact (IH _ _ _ _ _ _ seen E2 S).
      - cbn [ids_stmts]. assert (Hm : mem_name n seen = false).
        { destruct (mem_name n seen) eqn:X; [|reflexivity]. apply S in X. rewrite Ea in X. contradiction X. reflexivity. }
        rewrite Hm. apply RNG_cons; [|lia]. apply (IH _ _ _ _ _ _ (n :: seen) E2). apply seen_ok_cons. exact S. }
    all: destruct A as (-> & Sh & R1); rewrite ids_stmts_other by exact Sh;
         eapply RNG_app; [exact R1 | exact (IH _ _ _ _ _ _ seen E2 S) | lia | lia].
Qed.

Lemma lx_stmts_fids G fs F : forall ts, Forall ids_goal ts ->
  forall top nl nf ts' nl' nf' k,
  lx_stmts top G (fs :: F) nl nf ts = Some (ts', nl', nf') ->
  (forall n i, In (n, i) (fst (lx_predecl ts k)) -> assoc n fs = Some i) ->
  k + nfuns ts <= nf ->
  NoDup (fids_block ts') /\
  forall x, In x (fids_block ts') -> (k <= x < k + nfuns ts) \/ (nf <= x < nf').
Proof.
  induction 1 as [|t r Ht _ IH]; intros top nl nf ts' nl' nf' k H A K; cbn [lx_stmts] in H.
  - inversion H; subst. cbn [fids_block]. split; [constructor | intros x []].
  - destruct (lx_stmt top G (fs :: F) nl nf t) as [[[[t1 top1] nl1] nf1]|] eqn:E1; [|discriminate H].
    destruct (lx_stmts top1 G (fs :: F) nl1 nf1 r) as [[[r1 nl2] nf2]|] eqn:E2; [|discriminate H].
    inversion H; subst.
    destruct (lx_stmt_chk t _ _ _ _ _ _ _ _ _ E1) as (_ & _ & M1).
    destruct (lx_stmts_chk _ _ _ (all_chk_goal r) _ _ _ _ _ _ E2) as (_ & _ & M2).
    destruct (Ht _ _ _ _ _ _ _ _ _ E1) as (_ & B).
    pose proof (nfuns_nonneg r) as NN.
    cbn [fids_block].
    destruct t as [sid n ps body fid ls ll | sid n l e | sid n l e | sid tg e | sid cnd t f
                  | sid cnd b | sid b | sid eo | sid | sid | sid e].
    1: { (* a definition: head id k, nested ids in [nf, nf1) *)
      destruct B as (f & rest & Ef & Af & (Nr & Rr)). rewrite Ef.
      rewrite lx_predecl_fun in A. cbn [fst] in A. rewrite nfuns_fun in K |- *.
      assert (f = k) by (pose proof (A n k (or_introl eq_refl)) as X; rewrite X in Af; inversion Af; reflexivity).
      subst f.
      destruct (IH _ _ _ _ _ _ (k + 1) E2 (fun m i Hin => A m i (or_intror Hin)) ltac:(lia)) as (N2 & R2).
      split.
      - cbn [app]. constructor.
        + intro Hin. apply in_app_or in Hin. destruct Hin as [Hin|Hin].
          * specialize (Rr k Hin). lia.
          * specialize (R2 k Hin). lia.
        + apply NoDup_app_intro; auto. intros x Ha Hb. specialize (Rr x Ha). specialize (R2 x Hb). lia.
      - intros x Hx. cbn [app] in Hx. destruct Hx as [<-|Hx]; [left; lia|].
        apply in_app_or in Hx. destruct Hx as [Hx|Hx].
        + specialize (Rr x Hx). right. lia.
        + specialize (R2 x Hx). destruct R2 as [R2|R2]; [left | right]; lia. }
    all: destruct B as (Nb & Rb); rewrite lx_predecl_other in A by exact I;
         rewrite nfuns_other in K |- * by exact I;
         destruct (IH _ _ _ _ _ _ k E2 A ltac:(lia)) as (N2 & R2);
         (split;
          [ apply NoDup_app_intro; auto; intros x Ha Hb; specialize (Rb x Ha); specialize (R2 x Hb); lia
          | intros x Hx; apply in_app_or in Hx; destruct Hx as [Hx|Hx];
            [ specialize (Rb x Hx); right; lia
            | specialize (R2 x Hx); destruct R2 as [R2|R2]; [left | right]; lia ] ]).
Qed.

Lemma lx_block_ids G F b : Forall ids_goal b ->
  forall nl nf b' nl' nf', lx_block G F nl nf b = Some (b', nl', nf') ->
  RNG (ids_block b') nl nl' /\ RNG (fids_block b') nf nf'.
Proof.
  intros Hb nl nf b' nl' nf' H. pose proof H as H0. unfold lx_block in H.
  destruct (lx_predecl b nf) as [fs nf1] eqn:Ep.
  destruct (nodup_names (scope_names fs)) eqn:Nd; [|discriminate H].
  split.
  - unfold ids_block. eapply lx_stmts_ids; [exact Hb | exact H | exact seen_ok_nil].
  - pose proof (lx_predecl_snd b nf) as Sn. rewrite Ep in Sn. cbn [snd] in Sn.
    destruct (lx_stmts_chk _ _ _ (all_chk_goal b) _ _ _ _ _ _ H) as (_ & _ & M).
    pose proof (nfuns_nonneg b) as NN.
    destruct (lx_stmts_fids _ _ _ _ Hb _ _ _ _ _ _ nf H) as (N & R).
    + rewrite Ep. cbn [fst]. intros n i Hin. apply assoc_in; [apply nodup_names_NoDup; exact Nd | exact Hin].
    + lia.
    + split; [exact N|]. intros x Hx. specialize (R x Hx). lia.
Qed.

Lemma lx_stmt_ids : forall t, ids_goal t.
Proof.
  induction t as [sid n ps body fid ls ll IHb | sid n l e | sid n l e | sid tg e | sid cnd t f IHt IHf
                 | sid cnd b IHb | sid b IHb | sid eo | sid | sid | sid e] using stmt_ind';
    intros top G F nl nf t' top' nl' nf' H.
  - rewrite lx_stmt_fun in H. destruct F as [|fs F']; [discriminate H|].
    destruct (assoc n fs) as [f|] eqn:Ea; [|discriminate H]. destruct (nodup_names ps) eqn:Np; [|discriminate H].
    destruct (lx_block _ _ _ _ body) as [[[body' nl1] nf1]|] eqn:E; [|discriminate H]. inversion H; subst.
    destruct (lx_block_ids _ _ _ IHb _ _ _ _ _ E) as (R1 & R2).
    destruct (lx_block_chk _ _ _ (all_chk_goal body) _ _ _ _ _ E) as (_ & L1 & L2).
    split.
    + refine (conj eq_refl (conj I _)). rewrite ids_stmt_fun.
      eapply RNG_app; [apply RNG_seqZ | exact R1 | lia | lia].
    + exists f, (fids_block body'). rewrite fids_stmt_fun. cbn [app]. auto.
  - cbn [lx_stmt] in H. destruct (lx_expr (top :: G) F e) as [e'|]; [|discriminate H].
    split; [|destruct (assoc n top); inversion H; subst; apply RNG_nil].
    destruct (assoc n top) as [i|] eqn:Ea; inversion H; subst.
    + exists sid, i, e'. split; [reflexivity|]. left. auto.
    + exists sid, nl, e'. split; [reflexivity|]. right. auto.
  - cbn [lx_stmt] in H. destruct (lx_var (top :: G) n); [|discriminate H].
    destruct (lx_expr (top :: G) F e); [|discriminate H]. inversion H; subst.
    split; [refine (conj eq_refl (conj I _))|]; apply RNG_nil.
  - cbn [lx_stmt] in H. destruct (lx_expr (top :: G) F tg); [|discriminate H].
    destruct (lx_expr (top :: G) F e); [|discriminate H]. inversion H; subst.
    split; [refine (conj eq_refl (conj I _))|]; apply RNG_nil.
  - rewrite lx_stmt_if in H. destruct (lx_expr (top :: G) F cnd) as [c'|]; [|discriminate H].
    destruct (lx_block (top :: G) F nl nf t) as [[[t1 nl1] nf1]|] eqn:Et; [|discriminate H].
    destruct (lx_block_ids _ _ _ IHt _ _ _ _ _ Et) as (R1 & R2).
    destruct (lx_block_chk _ _ _ (all_chk_goal t) _ _ _ _ _ Et) as (_ & L1 & L2).
    destruct f as [fb|].
    + destruct (lx_block (top :: G) F nl1 nf1 fb) as [[[fb1 nl2] nf2]|] eqn:Ef; [|discriminate H].
      destruct (lx_block_ids _ _ _ IHf _ _ _ _ _ Ef) as (R3 & R4).
      destruct (lx_block_chk _ _ _ (all_chk_goal fb) _ _ _ _ _ Ef) as (_ & L3 & L4).
      inversion H; subst. rewrite ids_stmt_if, fids_stmt_if.
      split; [refine (conj eq_refl (conj I _))|]; eapply RNG_app; eauto.
    + inversion H; subst. rewrite ids_stmt_if, fids_stmt_if, !app_nil_r.
      split; [refine (conj eq_refl (conj I _))|]; assumption.
  - rewrite lx_stmt_loop in H. destruct (lx_expr (top :: G) F cnd) as [c'|]; [|discriminate H].
    destruct (lx_block (top :: G) F nl nf b) as [[[b1 nl1] nf1]|] eqn:Eb; [|discriminate H]. inversion H; subst.
    destruct (lx_block_ids _ _ _ IHb _ _ _ _ _ Eb) as (R1 & R2).
    rewrite ids_stmt_loop, fids_stmt_loop. split; [refine (conj eq_refl (conj I _))|]; assumption.
  - rewrite lx_stmt_block in H.
    destruct (lx_block (top :: G) F nl nf b) as [[[b1 nl1] nf1]|] eqn:Eb; [|discriminate H]. inversion H; subst.
    destruct (lx_block_ids _ _ _ IHb _ _ _ _ _ Eb) as (R1 & R2).
    rewrite ids_stmt_block, fids_stmt_block. split; [refine (conj eq_refl (conj I _))|]; assumption.
  - cbn [lx_stmt] in H. destruct eo as [e|].
    + destruct (lx_expr (top :: G) F e); [|discriminate H]. inversion H; subst.
      split; [refine (conj eq_refl (conj I _))|]; apply RNG_nil.
    + inversion H; subst. split; [refine (conj eq_refl (conj I _))|]; apply RNG_nil.
  - cbn [lx_stmt] in H. inversion H; subst. split; [refine (conj eq_refl (conj I _))|]; apply RNG_nil.
  - cbn [lx_stmt] in H. inversion H; subst. split; [refine (conj eq_refl (conj I _))|]; apply RNG_nil.
  - cbn [lx_stmt] in H. destruct (lx_expr (top :: G) F e); [|discriminate H]. inversion H; subst.
    split; [refine (conj eq_refl (conj I _))|]; apply RNG_nil.
Qed.

Theorem lex_ids_ids_ok : forall p q, lex_ids p = Some q -> ids_ok q = true.
Proof.
  intros p q H. rewrite lex_ids_unfold in H.
  destruct (lx_block [] [] 0 1 p) as [[[q' nl] nf]|] eqn:E; [|discriminate H]. inversion H; subst q'.
  assert (A : Forall ids_goal p) by (apply Forall_forall; intros t _; apply lx_stmt_ids).
  destruct (lx_block_ids _ _ _ A _ _ _ _ _ E) as ((N1 & _) & (N2 & _)).
  unfold ids_ok. rewrite (NoDup_nodupZ _ N1), (NoDup_nodupZ _ N2). reflexivity.
Qed.

(* (d) the names-only resolution produces lexical ids *)
Theorem lex_ids_lexical : forall p q, lex_ids p = Some q -> lexical q = true.
Proof.
  intros p q H. unfold lexical. rewrite (lex_ids_chk_block p q H), (lex_ids_ids_ok p q H). reflexivity.
Qed.
