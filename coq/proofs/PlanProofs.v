(* PlanProofs — C03: dropping the covered entries of an optimisation plan does not change
   Lang.run_impl.  One simulation between the run with plan c_p1 on a projected state (dead
   slots and pruned function definitions filtered out) and the run with the residual plan
   c_p2 on the full state, by induction on fuel over the open-recursion bodies of
   LangUnfold.v. *)
From Coq Require Import ZArith List Bool Lia.
Require Import NS.theories.F64 NS.theories.StrLib NS.theories.Lang NS.theories.PlanCheck
               NS.proofs.LangUnfold.
Import ListNotations.
Open Scope Z_scope.

Notation "'do' x <- r ; k" := (bindM r (fun x => k)) (at level 200, x pattern, r at level 100, k at level 200).

(* ------------------------------------------------------------------------------------ *)
(* A. the writer monad under a projection                                                *)

Definition mapR {A B} (g : A -> B) (m : M A) : M B :=
  (fst m, match snd m with
          | Ok a => Ok (g a) | Err e => Err e | Panic p => Panic p | Fuel => Fuel | Unsupp => Unsupp
          end).

Definition tolr {A} (r : res A) : Prop :=
  match r with
  | Fuel => True
  | Panic PVarMissing | Panic PSegVar | Panic PAssignMissing => True
  | _ => False
  end.

(* m1 (pruned run) simulates m2 (residual run): equal up to the projection of the result,
   unless slack is allowed and m2 ends in a tolerated failure *)
Definition simM {A} (SL : Prop) (g : A -> A) (ok : A -> Prop) (m1 m2 : M A) : Prop :=
  (SL /\ tolr (snd m2)) \/ (m1 = mapR g m2 /\ forall o a, m2 = (o, Ok a) -> ok a).

Lemma sim_bind {A B} SL (g : A -> A) (h : B -> B) (okA : A -> Prop) (okB : B -> Prop)
      (m1 m2 : M A) (f1 f2 : A -> M B) :
  simM SL g okA m1 m2 ->
  (forall a, okA a -> simM SL h okB (f1 (g a)) (f2 a)) ->
  simM SL h okB (bindM m1 f1) (bindM m2 f2).
Proof.
  intros [[HS Ht] | [E Hok]] Hf.
  - left. split; [exact HS|].
    destruct m2 as [o2 r2]. cbn in Ht. destruct r2; cbn; try contradiction; exact Ht.
  - subst m1. destruct m2 as [o2 r2]. destruct r2 as [a|e|p| |]; cbn.
    + specialize (Hf a (Hok _ _ eq_refl)). destruct Hf as [[HS Ht]|[E Hk]].
      * left. split; [exact HS|]. destruct (f2 a) as [o' r']. cbn in *. exact Ht.
      * right. rewrite E. destruct (f2 a) as [o' r']. cbn. split; [reflexivity|].
        intros o b Hb. inversion Hb; subst. eapply Hk. reflexivity.
    + right. split; [reflexivity|]. intros o a Ha. discriminate Ha.
    + right. split; [reflexivity|]. intros o a Ha. discriminate Ha.
    + right. split; [reflexivity|]. intros o a Ha. discriminate Ha.
    + right. split; [reflexivity|]. intros o a Ha. discriminate Ha.
Qed.

Lemma sim_out {A} SL (g : A -> A) (ok : A -> Prop) o a :
  ok a -> simM SL g ok (o, Ok (g a)) (o, Ok a).
Proof. intros H. right. split; [reflexivity|]. intros o' a' E. inversion E; subst. exact H. Qed.

Lemma sim_ret {A} SL (g : A -> A) (ok : A -> Prop) a :
  ok a -> simM SL g ok (OkM (g a)) (OkM a).
Proof. apply sim_out. Qed.

Lemma sim_err {A} SL (g : A -> A) (ok : A -> Prop) e : simM SL g ok (ErrM e) (ErrM e).
Proof. right. split; [reflexivity|]. intros o a E. discriminate E. Qed.
Lemma sim_panic {A} SL (g : A -> A) (ok : A -> Prop) p : simM SL g ok (PanicM p) (PanicM p).
Proof. right. split; [reflexivity|]. intros o a E. discriminate E. Qed.
Lemma sim_unsupp {A} SL (g : A -> A) (ok : A -> Prop) : simM SL g ok UnsuppM UnsuppM.
Proof. right. split; [reflexivity|]. intros o a E. discriminate E. Qed.
Lemma sim_fuel {A} SL (g : A -> A) (ok : A -> Prop) : simM SL g ok FuelM FuelM.
Proof. right. split; [reflexivity|]. intros o a E. discriminate E. Qed.

Lemma sim_lift {A} SL (r : res A) : simM SL (fun x => x) (fun _ => True) (lift r) (lift r).
Proof.
  right. split; [|intros; exact I]. unfold lift, mapR. cbn. destruct r; reflexivity.
Qed.

Lemma sim_weaken {A} SL (g : A -> A) (ok ok' : A -> Prop) m1 m2 :
  (forall a, ok a -> ok' a) -> simM SL g ok m1 m2 -> simM SL g ok' m1 m2.
Proof.
  intros W [H|[E H]]; [left; exact H|right]. split; [exact E|]. intros o a Ea. apply W. eapply H. exact Ea.
Qed.

(* ------------------------------------------------------------------------------------ *)
(* B. the projection of states                                                            *)

Section Proj.
Variable c : pcfg.

Definition dead_slot (sl : slot) : bool :=
  match s_id sl with Some i => memz i (c_dead c) | None => false end.
Definition keep_slot (sl : slot) : bool := negb (dead_slot sl).
Definition keep_fn (f : fdef) : bool := negb (only1_fn c (f_id f)).

Definition penv (e : list (list slot)) : list (list slot) := map (filter keep_slot) e.
Definition pfns (f : list (list fdef)) : list (list fdef) := map (filter keep_fn) f.
Definition proj (s : st) : st := {| env := penv (env s); fns := pfns (fns s) |}.

Definition pj {X} (p : X * st) : X * st := (fst p, proj (snd p)).

Lemma opt_eqb_eq a b : opt_eqb a b = true -> a = b /\ exists i, a = Some i.
Proof.
  destruct a as [x|], b as [y|]; cbn; try discriminate.
  intros H. apply Z.eqb_eq in H. subst. split; eauto.
Qed.

Lemma var_ok_keep l n sl : var_ok c l = true -> slot_matches l n sl = true -> keep_slot sl = true.
Proof.
  unfold var_ok, slot_matches, keep_slot, dead_slot. destruct l as [i|].
  - intros Hv Hm. apply opt_eqb_eq in Hm. destruct Hm as [Hm _]. rewrite Hm. exact Hv.
  - intros Hv _. destruct (c_dead c); [|discriminate]. destruct (s_id sl); reflexivity.
Qed.

Lemma find_slot_proj l n sc :
  var_ok c l = true -> find_slot l n (filter keep_slot sc) = find_slot l n sc.
Proof.
  intros Hv. induction sc as [|a r IH]; [reflexivity|]. cbn [filter find_slot].
  destruct (slot_matches l n a) eqn:Hm.
  - rewrite (var_ok_keep _ _ _ Hv Hm). cbn [find_slot]. rewrite Hm. reflexivity.
  - destruct (keep_slot a); [cbn [find_slot]; rewrite Hm|]; exact IH.
Qed.

Lemma lookup_env_penv l n e :
  var_ok c l = true -> lookup_env l n (penv e) = lookup_env l n e.
Proof.
  intros Hv. induction e as [|sc r IH]; [reflexivity|]. cbn [penv map lookup_env].
  rewrite (find_slot_proj _ _ _ Hv). fold (penv r). rewrite IH. reflexivity.
Qed.

Lemma set_slot_proj l n v sc :
  var_ok c l = true ->
  set_slot l n v (filter keep_slot sc) = option_map (filter keep_slot) (set_slot l n v sc).
Proof.
  intros Hv. induction sc as [|a r IH]; [reflexivity|]. cbn [filter set_slot].
  destruct (slot_matches l n a) eqn:Hm.
  - pose proof (var_ok_keep _ _ _ Hv Hm) as Hk. rewrite Hk. cbn [set_slot]. rewrite Hm.
    cbn [option_map filter]. unfold keep_slot, dead_slot in *. cbn [s_id]. rewrite Hk. reflexivity.
  - destruct (keep_slot a) eqn:Hk.
    + cbn [set_slot]. rewrite Hm, IH. destruct (set_slot l n v r); cbn [option_map filter]; [rewrite Hk|]; reflexivity.
    + rewrite IH. destruct (set_slot l n v r); cbn [option_map filter]; [rewrite Hk|]; reflexivity.
Qed.

Lemma assign_env_penv l n v e :
  var_ok c l = true -> assign_env l n v (penv e) = option_map penv (assign_env l n v e).
Proof.
  intros Hv. induction e as [|sc r IH]; [reflexivity|]. cbn [penv map assign_env].
  rewrite (set_slot_proj _ _ _ _ Hv). destruct (set_slot l n v sc); cbn [option_map]; [reflexivity|].
  fold (penv r). rewrite IH. destruct (assign_env l n v r); reflexivity.
Qed.

Lemma define_env_penv l n v e :
  var_ok c l = true -> define_env l n v (penv e) = penv (define_env l n v e).
Proof.
  intros Hv. destruct e as [|sc r]; [reflexivity|]. cbn [penv map define_env].
  rewrite (set_slot_proj _ _ _ _ Hv). destruct (set_slot l n v sc); cbn [option_map map]; [reflexivity|].
  cbn [filter]. assert (keep_slot {| s_id := l; s_name := n; s_val := v |} = true) as ->; [|reflexivity].
  unfold keep_slot, dead_slot. cbn [s_id]. unfold var_ok in Hv. destruct l; [exact Hv|reflexivity].
Qed.

(* writes to a dead id are invisible after projection *)
Lemma set_slot_dead d n v sc sc' :
  memz d (c_dead c) = true -> set_slot (Some d) n v sc = Some sc' ->
  filter keep_slot sc' = filter keep_slot sc.
Proof.
  intros Hd. revert sc'. induction sc as [|a r IH]; intros sc'; [discriminate|]. cbn [set_slot].
  destruct (slot_matches (Some d) n a) eqn:Hm.
  - intros E. inversion E; subst. cbn [filter]. unfold slot_matches in Hm.
    apply opt_eqb_eq in Hm. destruct Hm as [Hm _].
    unfold keep_slot, dead_slot. cbn [s_id]. rewrite Hm, Hd. reflexivity.
  - destruct (set_slot (Some d) n v r) as [r'|]; [|discriminate]. intros E. inversion E; subst.
    cbn [filter]. rewrite (IH r' eq_refl). reflexivity.
Qed.

Lemma define_env_dead d n v e :
  memz d (c_dead c) = true -> penv (define_env (Some d) n v e) = penv e.
Proof.
  intros Hd. destruct e as [|sc r]; [reflexivity|]. cbn [define_env].
  destruct (set_slot (Some d) n v sc) as [sc'|] eqn:E; cbn [penv map].
  - rewrite (set_slot_dead _ _ _ _ _ Hd E). reflexivity.
  - cbn [filter]. unfold keep_slot at 1, dead_slot. cbn [s_id]. rewrite Hd. reflexivity.
Qed.

Lemma assign_env_dead d n v e e' :
  memz d (c_dead c) = true -> assign_env (Some d) n v e = Some e' -> penv e' = penv e.
Proof.
  intros Hd. revert e'. induction e as [|sc r IH]; intros e'; [discriminate|]. cbn [assign_env].
  destruct (set_slot (Some d) n v sc) as [sc'|] eqn:E.
  - intros E'. inversion E'; subst. cbn [penv map]. rewrite (set_slot_dead _ _ _ _ _ Hd E). reflexivity.
  - destruct (assign_env (Some d) n v r) as [r'|]; [|discriminate]. intros E'. inversion E'; subst.
    cbn [penv map]. fold (penv r') (penv r). rewrite (IH r' eq_refl). reflexivity.
Qed.

(* functions *)
Definition fd_ok (f : fdef) : Prop :=
  fn_live c (f_id f) = true ->
  block_ok c true (f_body f) = true /\ params_ok c (f_lstart f) (length (f_params f)) = true.

Definition st_ok (s : st) : Prop :=
  forall sc f, In sc (fns s) -> In f sc -> fd_ok f.

Definition okS {X} (p : X * st) : Prop := st_ok (snd p).

Lemma st_ok_with_env e s : st_ok s -> st_ok (with_env e s).
Proof. intros H. exact H. Qed.
Lemma st_ok_push sl s : st_ok s -> st_ok (push_scope sl s).
Proof.
  intros H sc f [E|Hin] Hf; [subst sc; destruct Hf|]. eapply H; eauto.
Qed.
Lemma st_ok_pop s : st_ok s -> st_ok (pop_scope s).
Proof.
  intros H sc f Hin Hf. cbn in Hin. destruct (fns s) as [|x r] eqn:E; [destruct Hin|].
  eapply (H sc f); [rewrite E; right; exact Hin|exact Hf].
Qed.

Lemma proj_with_env e s : proj (with_env e s) = with_env (penv e) (proj s).
Proof. reflexivity. Qed.
Lemma proj_pop s : proj (pop_scope s) = pop_scope (proj s).
Proof. unfold proj, pop_scope, penv, pfns. cbn. destruct (env s), (fns s); reflexivity. Qed.

Lemma filter_all {A} (f : A -> bool) l : forallb f l = true -> filter f l = l.
Proof.
  induction l as [|a r IH]; [reflexivity|]. cbn. destruct (f a); [|discriminate].
  intros H. rewrite IH; auto.
Qed.

Lemma proj_push sl s :
  forallb keep_slot sl = true -> proj (push_scope sl s) = push_scope sl (proj s).
Proof.
  intros H. unfold proj, push_scope. cbn. rewrite (filter_all _ _ H). reflexivity.
Qed.

Hypothesis Hcfg : cfg_ok c = true.

Lemma cfg_sub_stmt sid : in_plan_stmt (c_p2 c) sid = true -> in_plan_stmt (c_p1 c) sid = true.
Proof.
  unfold cfg_ok in Hcfg. apply andb_prop in Hcfg. destruct Hcfg as [H _].
  apply andb_prop in H. destruct H as [H _]. apply andb_prop in H. destruct H as [H _].
  rewrite forallb_forall in H. unfold in_plan_stmt at 1. destruct (c_p2 c) as [[ss fs]|]; [|discriminate].
  destruct sid as [i|]; [|discriminate]. intros Hi. apply existsb_exists in Hi. destruct Hi as [x [Hx E]].
  apply Z.eqb_eq in E. subst x. apply H. exact Hx.
Qed.

Lemma cfg_sub_fn fid : in_plan_fn (c_p2 c) fid = true -> in_plan_fn (c_p1 c) fid = true.
Proof.
  unfold cfg_ok in Hcfg. apply andb_prop in Hcfg. destruct Hcfg as [H _].
  apply andb_prop in H. destruct H as [H _]. apply andb_prop in H. destruct H as [_ H].
  rewrite forallb_forall in H. unfold in_plan_fn at 1. destruct (c_p2 c) as [[ss fs]|]; [|discriminate].
  destruct fid as [i|]; [|discriminate]. intros Hi. apply existsb_exists in Hi. destruct Hi as [x [Hx E]].
  apply Z.eqb_eq in E. subst x. apply H. exact Hx.
Qed.

Lemma live_not_only1 fid : fn_live c fid = true -> only1_fn c fid = false.
Proof.
  unfold cfg_ok in Hcfg. apply andb_prop in Hcfg. destruct Hcfg as [H Hall].
  apply andb_prop in H. destruct H as [_ Hlive].
  unfold fn_live. intros Hl. apply orb_prop in Hl. destruct Hl as [Hl|Hl].
  - rewrite Hl in Hall. unfold only1_fn. destruct (in_plan_fn (c_p1 c) fid) eqn:E1; [|reflexivity].
    unfold in_plan_fn in E1. unfold fns_of in Hall. destruct (c_p1 c) as [[ss fs]|]; [|discriminate].
    destruct fid as [i|]; [|discriminate]. apply existsb_exists in E1. destruct E1 as [x [Hx E]].
    apply Z.eqb_eq in E. subst x. rewrite forallb_forall in Hall. rewrite (Hall _ Hx). reflexivity.
  - destruct fid as [t|]; [|discriminate]. rewrite forallb_forall in Hlive.
    unfold memz in Hl. apply existsb_exists in Hl. destruct Hl as [x [Hx E]]. apply Z.eqb_eq in E. subst x.
    specialize (Hlive _ Hx). apply negb_true_iff in Hlive. exact Hlive.
Qed.

Lemma find_fn_proj target n sc :
  (forall f, fdef_matches target n f = true -> keep_fn f = true) ->
  find_fn_scope target n (filter keep_fn sc) = find_fn_scope target n sc.
Proof.
  intros Hk. induction sc as [|a r IH]; [reflexivity|]. cbn [filter find_fn_scope].
  destruct (fdef_matches target n a) eqn:Hm.
  - rewrite (Hk _ Hm). cbn [find_fn_scope]. rewrite Hm. reflexivity.
  - destruct (keep_fn a); [cbn [find_fn_scope]; rewrite Hm|]; exact IH.
Qed.

Lemma lookup_fn_pfns target n fs :
  (forall f, fdef_matches target n f = true -> keep_fn f = true) ->
  lookup_fn target n (pfns fs) = lookup_fn target n fs.
Proof.
  intros Hk. induction fs as [|sc r IH]; [reflexivity|]. cbn [pfns map lookup_fn].
  rewrite (find_fn_proj _ _ _ Hk). fold (pfns r). rewrite IH. reflexivity.
Qed.

Lemma call_ok_keep target n f :
  call_ok c target = true -> fdef_matches target n f = true ->
  keep_fn f = true /\ fn_live c (f_id f) = true.
Proof.
  unfold call_ok, fdef_matches. intros Hc Hm.
  assert (fn_live c (f_id f) = true) as Hl.
  { unfold fn_live. destruct target as [t|].
    - apply opt_eqb_eq in Hm. destruct Hm as [Hm _]. rewrite Hm. exact Hc.
    - rewrite Hc. reflexivity. }
  split; [|exact Hl]. unfold keep_fn. rewrite (live_not_only1 _ Hl). reflexivity.
Qed.

Lemma find_fn_In target n sc f : find_fn_scope target n sc = Some f -> In f sc /\ fdef_matches target n f = true.
Proof.
  induction sc as [|a r IH]; [discriminate|]. cbn [find_fn_scope].
  destruct (fdef_matches target n a) eqn:Hm.
  - intros E. inversion E; subst. split; [left; reflexivity|exact Hm].
  - intros E. destruct (IH E) as [H1 H2]. split; [right; exact H1|exact H2].
Qed.

Lemma lookup_fn_In target n fs f :
  lookup_fn target n fs = Some f -> exists sc, In sc fs /\ In f sc /\ fdef_matches target n f = true.
Proof.
  induction fs as [|sc r IH]; [discriminate|]. cbn [lookup_fn].
  destruct (find_fn_scope target n sc) as [g|] eqn:E.
  - intros E'. inversion E'; subst. destruct (find_fn_In _ _ _ _ E) as [H1 H2].
    exists sc. split; [left; reflexivity|]. split; assumption.
  - intros E'. destruct (IH E') as [sc' [H1 [H2 H3]]]. exists sc'. split; [right; exact H1|]. split; assumption.
Qed.

End Proj.
