(* PlanProofs — C03: dropping the covered entries of an optimisation plan does not change
   Lang.run_impl.  One simulation between the run with plan c_p1 on a projected state (dead
   slots and pruned function definitions filtered out) and the run with the residual plan
   c_p2 on the full state, by induction on fuel over the open-recursion bodies of
   LangUnfold.v. *)
From Coq Require Import ZArith List Bool Lia.
Require Import NS.theories.F64 NS.theories.StrLib NS.theories.Lang NS.theories.PlanCheck
               NS.proofs.LangUnfold.
Import ListNotations.
Open Scope Z_scope.

Notation "'do' x <- r ; k" := (bindM r (fun x => k)) (at level 200, x pattern, r at level 100, k at level 200).

(* ------------------------------------------------------------------------------------ *)
(* A. the writer monad under a projection                                                *)

Definition mapR {A B} (g : A -> B) (m : M A) : M B :=
  (fst m, match snd m with
          | Ok a => Ok (g a) | Err e => Err e | Panic p => Panic p | Fuel => Fuel | Unsupp => Unsupp
          end).

Definition tolr {A} (r : res A) : Prop :=
  match r with
  | Fuel => True
  | Panic PVarMissing | Panic PSegVar | Panic PAssignMissing => True
  | _ => False
  end.

Lemma opt_eqb_eq a b : opt_eqb a b = true -> a = b /\ exists i, a = Some i.
Proof.
  destruct a as [x|], b as [y|]; cbn; try discriminate.
  intros H. apply Z.eqb_eq in H. subst. split; eauto.
Qed.

Lemma find_fn_In target n sc f : find_fn_scope target n sc = Some f -> In f sc /\ fdef_matches target n f = true.
Proof.
  induction sc as [|a r IH]; [discriminate|]. cbn [find_fn_scope].
  destruct (fdef_matches target n a) eqn:Hm.
  - intros E. inversion E; subst. split; [left; reflexivity|exact Hm].
  - intros E. destruct (IH E) as [H1 H2]. split; [right; exact H1|exact H2].
Qed.

Lemma lookup_fn_In target n fs f :
  lookup_fn target n fs = Some f -> exists sc, In sc fs /\ In f sc /\ fdef_matches target n f = true.
Proof.
  induction fs as [|sc r IH]; [discriminate|]. cbn [lookup_fn].
  destruct (find_fn_scope target n sc) as [g|] eqn:E.
  - intros E'. inversion E'; subst. destruct (find_fn_In _ _ _ _ E) as [H1 H2].
    exists sc. split; [left; reflexivity|]. split; assumption.
  - intros E'. destruct (IH E') as [sc' [H1 [H2 H3]]]. exists sc'. split; [right; exact H1|]. split; assumption.
Qed.

Lemma tolr_bind {A B} (m : M A) (f : A -> M B) : tolr (snd m) -> tolr (snd (bindM m f)).
Proof. destruct m as [o r]. destruct r; cbn; try contradiction; auto. Qed.

Lemma bindM_ret_nil {A B} (a : A) (f : A -> M B) : bindM ([], Ok a) f = f a.
Proof. cbn. destruct (f a); reflexivity. Qed.

(* typed trap-free expressions (literals, template strings, operator trees over them whose types
   fit) evaluate to a value of their type *)
Lemma interp_res e segs : (exists b, interp_segs e segs = Ok b) \/ interp_segs e segs = Panic PSegVar.
Proof.
  induction segs as [|sg r IH]; cbn [interp_segs]; [left; eauto|]. destruct sg as [b|vn vl].
  - destruct IH as [[b' E]|E]; rewrite E; [left; eauto|right; reflexivity].
  - destruct (lookup_env vl vn e); [|right; reflexivity].
    destruct IH as [[b' E]|E]; rewrite E; [left; eauto|right; reflexivity].
Qed.

Lemma binop_typed eps op l r ta tb t :
  bin_ty op ta tb = Some t -> has_ty l ta = true -> has_ty r tb = true ->
  match op with
  | And | Or => True
  | _ => exists v, binop_values eps op l r = Ok v /\ has_ty v t = true
  end.
Proof.
  destruct op, ta, tb; cbn [bin_ty boolish andb]; try discriminate; try (intros; exact I);
    intros E; inversion E; subst;
    destruct l; cbn [has_ty]; try discriminate; intros _;
    destruct r; cbn [has_ty]; try discriminate; intros _;
    cbn; eexists; split; reflexivity.
Qed.

(* prints nothing; fails in a tolerated way (fuel, a variable that is not there) or returns a
   value (of type t) in the unchanged state *)
Definition ptres (t : option lty) (m : M (value * st)) (s : st) : Prop :=
  exists r, m = ([], r) /\
    (tolr r \/ exists v, r = Ok (v, s) /\ match t with Some ty => has_ty v ty = true | None => True end).

Lemma bind_tol {A B} (m : M A) (f : A -> M B) r :
  m = ([], r) -> tolr r -> exists r', bindM m f = ([], r') /\ tolr r'.
Proof.
  intros -> T. destruct r as [a|e|p| |]; cbn in T; try contradiction; cbn [bindM];
    eexists; (split; [reflexivity|exact T]).
Qed.

Lemma pt_bind_tol {A} t (m : M A) (f : A -> M (value * st)) s r :
  m = ([], r) -> tolr r -> ptres t (bindM m f) s.
Proof.
  intros E T. destruct (bind_tol m f r E T) as [r' [E' T']]. exists r'. split; [exact E'|left; exact T'].
Qed.

Lemma evals_gen (ok : expr -> bool) (ev : expr -> st -> M (value * st)) :
  (forall e s, ok e = true ->
               exists r, ev e s = ([], r) /\ (tolr r \/ exists v, r = Ok (v, s))) ->
  forall es s, forallb ok es = true ->
    exists r, evals_with ev es s = ([], r) /\ (tolr r \/ exists vs, r = Ok (vs, s)).
Proof.
  intros Hev. induction es as [|a r IH]; intros s H; cbn [evals_with forallb] in *.
  - eexists. split; [reflexivity|]. right. eexists. reflexivity.
  - apply andb_prop in H. destruct H as [Ha Hr].
    destruct (Hev a s Ha) as [ra [E [T|[v Ev]]]].
    + destruct (bind_tol _ (fun '(v, s1) => bindM (evals_with ev r s1) (fun '(vs, s2) => OkM (v :: vs, s2))) _ E T)
        as [r' [E' T']]. exists r'. split; [exact E'|left; exact T'].
    + subst ra. rewrite E, bindM_ret_nil. destruct (IH s Hr) as [rr [E' [T|[vs Evs]]]].
      * destruct (bind_tol _ (fun '(vs, s2) => OkM (v :: vs, s2)) _ E' T) as [r' [E'' T']].
        exists r'. split; [exact E''|left; exact T'].
      * subst rr. rewrite E', bindM_ret_nil. eexists. split; [reflexivity|]. right. eexists. reflexivity.
Qed.

Ltac pt_ok := eexists; split; [reflexivity|right; eexists; split; reflexivity].

Lemma lit_ty_eval P eps n : forall e s t, lit_ty e = Some t -> ptres (Some t) (eval P eps n e s) s.
Proof.
  induction n as [|n IH]; intros e s t H; [exists Fuel; split; [reflexivity|left; exact I]|].
  rewrite eval_S. destruct e; cbn [lit_ty] in H; try discriminate.
  - inversion H; subst. cbn [eval_body]. pt_ok.
  - inversion H; subst. cbn [eval_body]. pt_ok.
  - (* EInterp: any template string *)
    inversion H; subst. cbn [eval_body].
    destruct (interp_res (env s) segs) as [[b E]|E]; rewrite E; unfold lift.
    + rewrite bindM_ret_nil. pt_ok.
    + eexists. split; [reflexivity|left; exact I].
  - inversion H; subst. cbn [eval_body]. pt_ok.
  - inversion H; subst. cbn [eval_body]. pt_ok.
  - (* EBin *)
    destruct (lit_ty e1) as [ta|] eqn:Ea; [|discriminate].
    destruct (lit_ty e2) as [tb|] eqn:Eb; [|discriminate].
    pose proof (binop_typed eps op) as Hop.
    destruct (IH e1 s ta Ea) as [r1 [E1 [T1|[l [El Hl]]]]].
    { destruct op; cbn [eval_body]; eapply pt_bind_tol; eauto. }
    subst r1.
    destruct (IH e2 s tb Eb) as [r2 [E2 [T2|[rv [Er Hr]]]]].
    { destruct op; cbn [eval_body]; rewrite E1, bindM_ret_nil;
        try (eapply pt_bind_tol; eauto; fail);
        destruct ta; cbn in H; try discriminate; destruct l; try discriminate Hl;
        try (destruct b); try (eapply pt_bind_tol; eauto; fail);
        (eexists; split; [reflexivity|right; eexists; split; [reflexivity|]];
         destruct tb; cbn in H; try discriminate; inversion H; reflexivity). }
    subst r2. specialize (Hop l rv ta tb t H Hl Hr).
    destruct op; cbn [eval_body]; rewrite E1, bindM_ret_nil;
      try (rewrite E2, bindM_ret_nil; destruct Hop as [v [Ev Hv]]; rewrite Ev; unfold lift;
           rewrite bindM_ret_nil; eexists; split; [reflexivity|right; eexists; split; [reflexivity|exact Hv]]).
    + (* And *)
      destruct ta, tb; cbn in H; try discriminate; inversion H; subst;
        destruct l; try discriminate Hl; try destruct b;
        try (pt_ok; fail);
        rewrite E2, bindM_ret_nil; destruct rv; try discriminate Hr; pt_ok.
    + (* Or *)
      destruct ta, tb; cbn in H; try discriminate; inversion H; subst;
        destruct l; try discriminate Hl; try destruct b;
        try (pt_ok; fail);
        rewrite E2, bindM_ret_nil; destruct rv; try discriminate Hr; pt_ok.
  - (* EUn *)
    destruct op.
    + destruct (lit_ty e) as [ta|] eqn:Ea; [|discriminate].
      destruct (boolish ta) eqn:Eb; [|discriminate]. inversion H; subst.
      destruct (IH e s ta Ea) as [r1 [E1 [T1|[v [Ev Hv]]]]]; cbn [eval_body]; [eapply pt_bind_tol; eauto|].
      subst r1. rewrite E1, bindM_ret_nil. destruct ta; try discriminate Eb; destruct v; try discriminate Hv; pt_ok.
    + destruct (lit_ty e) as [ta|] eqn:Ea; [|discriminate]. destruct ta; try discriminate. inversion H; subst.
      destruct (IH e s TNum Ea) as [r1 [E1 [T1|[v [Ev Hv]]]]]; cbn [eval_body]; [eapply pt_bind_tol; eauto|].
      subst r1. rewrite E1, bindM_ret_nil. destruct v; try discriminate Hv. pt_ok.
  - (* EArr *)
    match type of H with (if ?b then _ else _) = _ => destruct b eqn:Es end; [|discriminate].
    inversion H; subst. cbn [eval_body].
    assert (Hev : forall e0 s0, (match lit_ty e0 with Some _ => true | None => false end) = true ->
                    exists r, eval P eps n e0 s0 = ([], r) /\ (tolr r \/ exists v, r = Ok (v, s0))).
    { intros e0 s0 H0. destruct (lit_ty e0) as [t0|] eqn:E0; [|discriminate].
      destruct (IH e0 s0 t0 E0) as [r [E [T|[v [Ev _]]]]]; exists r; (split; [exact E|]); [left; exact T|right; eauto]. }
    destruct (evals_gen _ (eval P eps n) Hev es s Es) as [r [E [T|[vs Evs]]]].
    + eapply pt_bind_tol; eauto.
    + subst r. rewrite E, bindM_ret_nil. pt_ok.
Qed.

Lemma builtin_pt (ev : expr -> st -> M (value * st)) g a s :
  g = GTypeOf \/ g = GToString ->
  (exists r, ev a s = ([], r) /\ (tolr r \/ exists v, r = Ok (v, s))) ->
  exists r, builtin_call ev g [a] s = ([], r) /\ (tolr r \/ exists v, r = Ok (v, s)).
Proof.
  intros Hg [ra [Ea [T|[v Ev]]]]; unfold builtin_call; cbn [evals_with]; rewrite Ea.
  - destruct ra as [x|x|p| |]; cbn in T; try contradiction; cbn; eexists; (split; [reflexivity|left; exact T]).
  - subst ra. cbn. destruct Hg as [Hg|Hg]; subst g; eexists; (split; [reflexivity|right; eexists; reflexivity]).
Qed.

(* C03 pure_notrap_total: a total pure expression evaluates, in any state, without output
   and without changing the state, to a value — or the run is out of fuel / a variable it
   reads is not there *)
Lemma pure_total_eval P eps n : forall e s, pure_total e = true ->
  exists r, eval P eps n e s = ([], r) /\ (tolr r \/ exists v, r = Ok (v, s)).
Proof.
  induction n as [|n IH]; intros e s H.
  - exists Fuel. split; [reflexivity|left; exact I].
  - assert (Hlit : forall t, lit_ty e = Some t ->
               exists r, eval P eps (S n) e s = ([], r) /\ (tolr r \/ exists v, r = Ok (v, s))).
    { intros t Et. destruct (lit_ty_eval P eps (S n) e s t Et) as [r [E [T|[v [Ev _]]]]];
        exists r; (split; [exact E|]); [left; exact T|right; eauto]. }
    destruct e; cbn [pure_total] in H;
      try (match type of H with (match ?x with _ => _ end) = true => destruct x eqn:El end;
           [eapply Hlit; reflexivity|discriminate]).
    + (* EInterp *) eapply Hlit. reflexivity.
    + (* EVar *)
      rewrite eval_S. cbn [eval_body]. destruct (lookup_env l n0 (env s)).
      * eexists. split; [reflexivity|]. right. eexists. reflexivity.
      * eexists. split; [reflexivity|]. left. exact I.
    + (* EArr *)
      rewrite eval_S. cbn [eval_body].
      destruct (evals_gen pure_total (eval P eps n) IH es s H) as [r [E [T|[vs Evs]]]].
      * destruct (bind_tol _ (fun '(vs, s1) => OkM (VArr vs, s1)) _ E T) as [r' [E' T']].
        exists r'. split; [exact E'|left; exact T'].
      * subst r. rewrite E, bindM_ret_nil. eexists. split; [reflexivity|]. right. eexists. reflexivity.
    + (* ECall: typeof / to_string of a total pure argument *)
      destruct e; try (cbn [lit_ty] in H; discriminate).
      destruct args as [|a [|a2 r]]; try (cbn [lit_ty] in H; discriminate).
      destruct (global_builtin n0) as [g|] eqn:Eg; [|discriminate].
      rewrite eval_S. cbn [eval_body]. rewrite Eg.
      destruct g; try discriminate; (apply builtin_pt; [auto|apply IH; exact H]).
Qed.

(* what the implementation-side family of literal operator trees tests: an expression the
   checker calls total never ends in a runtime error (Type mismatch, Division by zero, ...),
   whatever the state, and prints nothing *)
Lemma pure_total_no_error P eps n e s er :
  pure_total e = true -> snd (eval P eps n e s) <> Err er /\ fst (eval P eps n e s) = [].
Proof.
  intros H. destruct (pure_total_eval P eps n e s H) as [r [E [T|[v Ev]]]]; rewrite E; cbn [fst snd].
  - split; [|reflexivity]. intros X. subst r. exact T.
  - split; [|reflexivity]. intros X. subst r. discriminate X.
Qed.


Lemma hoist_nofun P b s : forallb (fun x => negb (is_fun x)) b = true -> hoist P b s = Ok s.
Proof.
  revert s. induction b as [|a r IH]; intros s H; [reflexivity|]. cbn [forallb] in H.
  apply andb_prop in H. destruct H as [Ha Hr]. destruct a; cbn [is_fun negb] in Ha; try discriminate;
    cbn [hoist]; apply IH; exact Hr.
Qed.


(* ------------------------------------------------------------------------------------ *)
(* D2. pure, trap-free callees (round 4): a call of a function of the table returns, in
       the state it was made in, without output - or the run fails in a way that is not
       compared (fuel: the callee need not terminate; a variable or function that is not
       there, an argument count / parameter range / stray loop-control that the resolver
       rules out: WfStatic / WfScoped)                                                     *)

Definition xs {A} (r : res A) : Prop :=
  match r with
  | Panic PFuncMissing | Panic PArgCount | Panic PParamRange | Panic PBreakEscapes => True
  | _ => False
  end.
Definition tolx {A} (r : res A) : Prop := tolr r \/ xs r.

Lemma bind_tolx {A B} (m : M A) (f : A -> M B) r :
  m = ([], r) -> tolx r -> exists r', bindM m f = ([], r') /\ tolx r'.
Proof.
  intros -> [T|T].
  - destruct (bind_tol ([], r) f r eq_refl T) as [r' [E T']]. exists r'. split; [exact E|left; exact T'].
  - destruct r as [a|e|p| |]; cbn in T; try contradiction; cbn [bindM]; eexists; (split; [reflexivity|right; exact T]).
Qed.

Definition ids (sc : list slot) : list (option Z) := map s_id sc.
Definition eshape (e : list (list slot)) : list (list (option Z)) := map ids e.
Definition dshape (Ds : list (list Z)) : list (list (option Z)) := map (map Some) Ds.

Lemma set_slot_ids l n v sc sc' : set_slot l n v sc = Some sc' -> ids sc' = ids sc.
Proof.
  revert sc'. induction sc as [|a r IH]; intros sc'; cbn [set_slot]; [discriminate|].
  destruct (slot_matches l n a).
  - intros E. inversion E. reflexivity.
  - destruct (set_slot l n v r) as [r'|]; [|discriminate]. intros E. inversion E. cbn [ids map].
    fold (ids r') (ids r). rewrite (IH r' eq_refl). reflexivity.
Qed.

Lemma set_slot_found x n v sc : In (Some x) (ids sc) -> exists sc', set_slot (Some x) n v sc = Some sc'.
Proof.
  induction sc as [|a r IH]; cbn [ids map set_slot]; [intros []|]. fold (ids r).
  unfold slot_matches. destruct (opt_eqb (s_id a) (Some x)) eqn:M; [eauto|].
  intros [E|Hi].
  - rewrite E in M. cbn in M. rewrite Z.eqb_refl in M. discriminate.
  - destruct (IH Hi) as [r' Er]. rewrite Er. eauto.
Qed.

Lemma set_slot_notfound x n v sc : ~ In (Some x) (ids sc) -> set_slot (Some x) n v sc = None.
Proof.
  induction sc as [|a r IH]; cbn [ids map set_slot]; [reflexivity|]. fold (ids r). intros Hn.
  unfold slot_matches. destruct (opt_eqb (s_id a) (Some x)) eqn:M.
  - exfalso. apply Hn. left. destruct (opt_eqb_eq _ _ M) as [E _]. exact E.
  - rewrite IH; [reflexivity|]. intros Hi. apply Hn. right. exact Hi.
Qed.

Lemma memz_iff i l : memz i l = true <-> In i l.
Proof.
  unfold memz. rewrite existsb_exists. split.
  - intros [x [Hx E]]. apply Z.eqb_eq in E. subst. exact Hx.
  - intros H. exists i. split; [exact H|apply Z.eqb_refl].
Qed.

Lemma in_some_map x (D : list Z) : In (Some x) (map Some D) <-> In x D.
Proof.
  rewrite in_map_iff. split; [intros [y [E H]]; inversion E; subst; exact H|intros H; eauto].
Qed.

Lemma assign_own x n v rest : forall Ds a,
  eshape a = dshape Ds -> In x (concat Ds) ->
  exists a', assign_env (Some x) n v (a ++ rest) = Some (a' ++ rest) /\ eshape a' = eshape a.
Proof.
  induction Ds as [|D r IH]; intros a Hs Hin; [destruct Hin|].
  destruct a as [|sc a0]; [discriminate Hs|]. cbn [eshape dshape map] in Hs. injection Hs as Hs1 Hs2.
  cbn [app assign_env]. destruct (set_slot (Some x) n v sc) as [sc'|] eqn:E.
  - exists (sc' :: a0). split; [reflexivity|]. cbn [eshape map]. rewrite (set_slot_ids _ _ _ _ _ E). reflexivity.
  - assert (Hx : ~ In x D).
    { intros Hd. destruct (set_slot_found x n v sc) as [sc' E']; [|congruence].
      rewrite Hs1. apply in_some_map. exact Hd. }
    cbn [concat] in Hin. apply in_app_or in Hin. destruct Hin as [Hin|Hin]; [contradiction|].
    destruct (IH a0 Hs2 Hin) as [a' [Ea Sa]]. rewrite Ea. exists (sc :: a'). split; [reflexivity|].
    cbn [eshape map]. fold (eshape a') (eshape a0). rewrite Sa. reflexivity.
Qed.

Lemma define_own x n v rest sc a0 D Dr :
  eshape (sc :: a0) = dshape (D :: Dr) ->
  exists sc', define_env (Some x) n v ((sc :: a0) ++ rest) = (sc' :: a0) ++ rest /\
              eshape (sc' :: a0) = dshape ((if memz x D then D else x :: D) :: Dr).
Proof.
  intros Hs. cbn [eshape dshape map] in Hs. injection Hs as Hs1 Hs2. cbn [app define_env].
  destruct (memz x D) eqn:Em.
  - apply memz_iff in Em. destruct (set_slot_found x n v sc) as [sc' E]; [rewrite Hs1; apply in_some_map; exact Em|].
    rewrite E. exists sc'. split; [reflexivity|]. cbn [eshape dshape map].
    rewrite (set_slot_ids _ _ _ _ _ E), Hs1, Hs2. reflexivity.
  - rewrite set_slot_notfound.
    + eexists. split; [reflexivity|]. cbn [eshape dshape map]. rewrite <- Hs1, <- Hs2. reflexivity.
    + rewrite Hs1. intros Hi. apply in_some_map in Hi. apply memz_iff in Hi. congruence.
Qed.

Lemma bind_params_shape f ls ps : forall vs k acc accz,
  length vs = length ps -> ids acc = map Some accz ->
  ids (bind_params (Some f) ls ps vs k acc) = map Some (param_ids ls ps k accz).
Proof.
  induction ps as [|p ps IH]; intros vs k acc accz Hl Ha; cbn [bind_params param_ids]; [exact Ha|].
  destruct vs as [|v vs]; [discriminate Hl|]. apply IH; [cbn in Hl; lia|].
  cbn [ids map s_id]. fold (ids acc). rewrite Ha. reflexivity.
Qed.

Section Pure.
Variable P : plan.
Variable eps : f64.
Variable pt : list Z.

Definition pfd_ok (fd : fdef) : Prop :=
  forall f, f_id fd = Some f -> memz f pt = true ->
    pf_stmts P pt [[]; param_ids (f_lstart fd) (f_params fd) 0 []] (f_body fd) = true.
Definition pfns_ok (fs : list (list fdef)) : Prop :=
  forall sc fd, In sc fs -> In fd sc -> pfd_ok fd.

Definition pe_res (m : M (value * st)) (s : st) : Prop :=
  exists r, m = ([], r) /\ (tolx r \/ exists v, r = Ok (v, s)).
(* a statement of a pure body: the scopes a of the running activation keep their shape, what
   lies below them (rest) and the function table are untouched *)
Definition px_res (m : M (flow * st)) (rest : list (list slot)) (F : list (list fdef)) (Ds' : list (list Z)) : Prop :=
  exists r, m = ([], r) /\
    (tolx r \/ exists fl a', r = Ok (fl, {| env := a' ++ rest; fns := F |}) /\ eshape a' = dshape Ds').

Lemma pe_tolx {A} (m : M A) (f : A -> M (value * st)) s r : m = ([], r) -> tolx r -> pe_res (bindM m f) s.
Proof. intros E T. destruct (bind_tolx m f r E T) as [r' [E' T']]. exists r'. split; [exact E'|left; exact T']. Qed.
Lemma px_tolx {A} (m : M A) (f : A -> M (flow * st)) rest F Ds r : m = ([], r) -> tolx r -> px_res (bindM m f) rest F Ds.
Proof. intros E T. destruct (bind_tolx m f r E T) as [r' [E' T']]. exists r'. split; [exact E'|left; exact T']. Qed.

Lemma evals_genx (ok : expr -> bool) (ev : expr -> st -> M (value * st)) s :
  (forall e, ok e = true -> pe_res (ev e s) s) ->
  forall es, forallb ok es = true ->
    exists r, evals_with ev es s = ([], r) /\ (tolx r \/ exists vs, r = Ok (vs, s)).
Proof.
  intros Hev. induction es as [|a r IH]; intros H; cbn [evals_with forallb] in *.
  - eexists. split; [reflexivity|]. right. eexists. reflexivity.
  - apply andb_prop in H. destruct H as [Ha Hr].
    destruct (Hev a Ha) as [ra [E [T|[v Ev]]]].
    + destruct (bind_tolx _ (fun '(v, s1) => bindM (evals_with ev r s1) (fun '(vs, s2) => OkM (v :: vs, s2))) _ E T)
        as [r' [E' T']]. exists r'. split; [exact E'|left; exact T'].
    + subst ra. rewrite E, bindM_ret_nil. destruct (IH Hr) as [rr [E' [T|[vs Evs]]]].
      * destruct (bind_tolx _ (fun '(vs, s2) => OkM (v :: vs, s2)) _ E' T) as [r' [E'' T']].
        exists r'. split; [exact E''|left; exact T'].
      * subst rr. rewrite E', bindM_ret_nil. eexists. split; [reflexivity|]. right. eexists. reflexivity.
Qed.

Lemma pf_stmts_nofun pfs : forall ts Ds, pf_stmts_with P pfs Ds ts = true -> forallb (fun x => negb (is_fun x)) ts = true.
Proof.
  induction ts as [|t r IH]; intros Ds H; [reflexivity|]. cbn [pf_stmts_with] in H. cbn [forallb].
  destruct (is_fun t); [discriminate|]. cbn [negb andb].
  destruct (in_plan_stmt P (stmt_sid t)); [eapply IH; exact H|].
  apply andb_prop in H. destruct H as [_ H]. eapply IH. exact H.
Qed.

Lemma cond_eval n c s : cond_ok c = true ->
  exists r, eval P eps n c s = ([], r) /\ (tolr r \/ exists b, r = Ok (b, s) /\ exists x, truthy_cond b = Ok x).
Proof.
  unfold cond_ok. intros H. destruct (lit_ty c) as [t|] eqn:E; [|discriminate].
  destruct (lit_ty_eval P eps n c s t E) as [r [Er [T|[v [Ev Hv]]]]]; exists r; (split; [exact Er|]); [left; exact T|].
  right. exists v. split; [exact Ev|]. destruct t; try discriminate; destruct v; try discriminate Hv; cbn; eauto.
Qed.

Lemma builtin_ptx (ev : expr -> st -> M (value * st)) g a s :
  g = GTypeOf \/ g = GToString -> pe_res (ev a s) s -> pe_res (builtin_call ev g [a] s) s.
Proof.
  intros Hg [ra [Ea [T|[v Ev]]]]; unfold builtin_call; cbn [evals_with]; rewrite Ea.
  - destruct T as [T|T].
    + destruct ra as [x|x|p| |]; cbn in T; try contradiction; cbn; eexists; (split; [reflexivity|left; left; exact T]).
    + destruct ra as [x|x|p| |]; cbn in T; try contradiction; cbn; eexists; (split; [reflexivity|left; right; exact T]).
  - subst ra. cbn. destruct Hg as [Hg|Hg]; subst g; eexists; (split; [reflexivity|right; eexists; reflexivity]).
Qed.

Lemma decl1_cons D Dr t : exists D', decl1 (D :: Dr) t = D' :: Dr.
Proof. destruct t; cbn [decl1]; eauto. destruct l; eauto. Qed.

Section Step.
Variable n : nat.
Hypothesis IHe : forall e s, pfe pt e = true -> pfns_ok (fns s) -> pe_res (eval P eps n e s) s.
Hypothesis IHx : forall t Ds a rest F, pf_stmt P pt Ds t = true -> pfns_ok F -> eshape a = dshape Ds ->
  px_res (exec P eps n t {| env := a ++ rest; fns := F |}) rest F (decl1 Ds t).
Hypothesis IHl : forall c body Ds a rest F, cond_ok c = true -> pf_stmts P pt ([] :: Ds) body = true ->
  pfns_ok F -> eshape a = dshape Ds ->
  px_res (exec_loop P eps n c body {| env := a ++ rest; fns := F |}) rest F Ds.
Hypothesis IHb : forall b Ds a rest F, pf_stmts P pt ([] :: Ds) b = true ->
  pfns_ok F -> eshape a = dshape Ds ->
  px_res (exec_block P eps n b {| env := a ++ rest; fns := F |}) rest F Ds.

Lemma user_call_pure fname args t s :
  memz t pt = true -> forallb (pfe pt) args = true -> pfns_ok (fns s) ->
  pe_res (user_call (eval P eps n) (exec_block P eps n) fname args (Some t) s) s.
Proof.
  intros Ht Ha Hf. unfold user_call.
  destruct (lookup_fn (Some t) fname (fns s)) as [fd|] eqn:E.
  2:{ eexists. split; [reflexivity|]. left. right. exact I. }
  destruct (lookup_fn_In _ _ _ _ E) as [sc [Hsc [Hfd Hm]]].
  unfold fdef_matches in Hm. destruct (opt_eqb_eq _ _ Hm) as [Eid _].
  pose proof (Hf sc fd Hsc Hfd t Eid Ht) as Hbody.
  destruct (evals_genx (pfe pt) (eval P eps n) s (fun e0 H0 => IHe e0 s H0 Hf) args Ha) as [r [Ev [T|[vs Evs]]]].
  { eapply pe_tolx; eauto. }
  subst r. rewrite Ev, bindM_ret_nil.
  destruct (negb (Nat.eqb (length vs) (length (f_params fd)))) eqn:El.
  { eexists. split; [reflexivity|]. left. right. exact I. }
  apply negb_false_iff in El. apply Nat.eqb_eq in El.
  destruct (match f_id fd with Some _ => f_llen fd <? Z.of_nat (length (f_params fd)) | None => false end).
  { eexists. split; [reflexivity|]. left. right. exact I. }
  cbv zeta.
  set (Pm := bind_params (f_id fd) (f_lstart fd) (f_params fd) vs 0 []).
  destruct s as [e0 F0]. unfold push_scope. cbn [env fns] in *.
  change (Pm :: e0) with ([Pm] ++ e0).
  destruct (IHb (f_body fd) [param_ids (f_lstart fd) (f_params fd) 0 []] [Pm] e0 ([] :: F0) Hbody)
    as [rb [Eb [T|[fl [a' [Er Sa]]]]]].
  { intros sc0 fd0 [E0|H0] Hfd0; [subst sc0; destruct Hfd0|eapply Hf; eauto]. }
  { cbn [eshape dshape map]. f_equal. unfold Pm. rewrite Eid. apply bind_params_shape; [exact El|reflexivity]. }
  { eapply pe_tolx; eauto. }
  subst rb. rewrite Eb, bindM_ret_nil.
  destruct a' as [|p' [|q r']]; try discriminate Sa. unfold pop_scope. cbn [app env fns tl].
  destruct fl.
  - eexists. split; [reflexivity|]. right. eexists. reflexivity.
  - eexists. split; [reflexivity|]. right. eexists. reflexivity.
  - eexists. split; [reflexivity|]. left. right. exact I.
  - eexists. split; [reflexivity|]. left. right. exact I.
Qed.

Lemma pf_eval_step e s : pfe pt e = true -> pfns_ok (fns s) -> pe_res (eval P eps (S n) e s) s.
Proof.
  intros H Hf.
  assert (Hlit : forall t, lit_ty e = Some t -> pe_res (eval P eps (S n) e s) s).
  { intros t Et. destruct (lit_ty_eval P eps (S n) e s t Et) as [r [E [T|[v [Ev _]]]]];
      exists r; (split; [exact E|]); [left; left; exact T|right; eauto]. }
  destruct e; cbn [pfe] in H;
    try (match type of H with (match ?x with _ => _ end) = true => destruct x eqn:El end;
         [eapply Hlit; reflexivity|discriminate]).
  - eapply Hlit. reflexivity.
  - (* EVar *)
    rewrite eval_S. cbn [eval_body]. destruct (lookup_env l n0 (env s)).
    + eexists. split; [reflexivity|]. right. eexists. reflexivity.
    + eexists. split; [reflexivity|]. left. left. exact I.
  - (* EArr *)
    rewrite eval_S. cbn [eval_body].
    destruct (evals_genx (pfe pt) (eval P eps n) s (fun e0 H0 => IHe e0 s H0 Hf) es H) as [r [E [T|[vs Evs]]]].
    + eapply pe_tolx; eauto.
    + subst r. rewrite E, bindM_ret_nil. eexists. split; [reflexivity|]. right. eexists. reflexivity.
  - (* ECall *)
    destruct e; try (cbn [lit_ty] in H; discriminate).
    rewrite eval_S. cbn [eval_body].
    destruct (global_builtin n0) as [g|] eqn:Eg.
    + destruct args as [|a [|a2 r]]; try (destruct g; discriminate).
      assert (Hg : g = GTypeOf \/ g = GToString) by (destruct g; try discriminate; auto).
      assert (Ha : pfe pt a = true) by (destruct g; try discriminate; exact H).
      apply builtin_ptx; [exact Hg|apply IHe; assumption].
    + destruct target as [t|]; [|discriminate]. apply andb_prop in H. destruct H as [Ht Hargs].
      apply user_call_pure; assumption.
Qed.

Lemma pf_exec_step t Ds a rest F :
  pf_stmt P pt Ds t = true -> pfns_ok F -> eshape a = dshape Ds ->
  px_res (exec P eps (S n) t {| env := a ++ rest; fns := F |}) rest F (decl1 Ds t).
Proof.
  intros H Hf Hs. rewrite exec_S. set (s := {| env := a ++ rest; fns := F |}).
  assert (Hfs : pfns_ok (fns s)) by exact Hf.
  destruct t; cbn [pf_stmt] in H; try discriminate; fold (pf_stmts P pt) in H; cbn [exec_body decl1].
  - (* SMake *)
    destruct l as [x|]; [|discriminate]. apply andb_prop in H. destruct H as [He Hl].
    destruct Ds as [|D Dr]; [discriminate Hl|]. destruct a as [|sc a0]; [discriminate Hs|].
    destruct (IHe e s He Hfs) as [r [E [T|[v Ev]]]]; [eapply px_tolx; eauto|].
    subst r. rewrite E, bindM_ret_nil. destruct (define_own x n0 v rest sc a0 D Dr Hs) as [sc' [Ed Sd]].
    unfold with_env, s. cbn [env fns]. rewrite Ed.
    eexists. split; [reflexivity|]. right. exists FNormal, (sc' :: a0). split; [reflexivity|exact Sd].
  - (* SSet *)
    destruct l as [x|]; [|discriminate]. apply andb_prop in H. destruct H as [He Hx]. apply memz_iff in Hx.
    destruct (IHe e s He Hfs) as [r [E [T|[v Ev]]]]; [eapply px_tolx; eauto|].
    subst r. rewrite E, bindM_ret_nil. destruct (assign_own x n0 v rest Ds a Hs Hx) as [a' [Ea Sa]].
    unfold with_env, s. cbn [env fns]. rewrite Ea.
    eexists. split; [reflexivity|]. right. exists FNormal, a'. split; [reflexivity|]. rewrite Sa. exact Hs.
  - (* SIf *)
    apply andb_prop in H. destruct H as [H Hel]. apply andb_prop in H. destruct H as [Hc Hth].
    destruct (cond_eval n c s Hc) as [r [E [T|[b [Eb [x Ex]]]]]]; [eapply px_tolx; eauto; left; exact T|].
    subst r. rewrite E, bindM_ret_nil. unfold lift. rewrite Ex, bindM_ret_nil.
    destruct x.
    + apply IHb; assumption.
    + destruct f as [fb|]; [apply IHb; assumption|].
      eexists. split; [reflexivity|]. right. exists FNormal, a. split; [reflexivity|exact Hs].
  - (* SLoop *)
    apply andb_prop in H. destruct H as [Hc Hb]. apply IHl; assumption.
  - (* SBlock *)
    apply IHb; assumption.
  - (* SRet *)
    destruct e as [e|].
    + destruct (IHe e s H Hfs) as [r [E [T|[v Ev]]]]; [eapply px_tolx; eauto|].
      subst r. rewrite E, bindM_ret_nil.
      eexists. split; [reflexivity|]. right. exists (FReturn v), a. split; [reflexivity|exact Hs].
    + eexists. split; [reflexivity|]. right. exists (FReturn VNull), a. split; [reflexivity|exact Hs].
  - eexists. split; [reflexivity|]. right. exists FBreak, a. split; [reflexivity|exact Hs].
  - eexists. split; [reflexivity|]. right. exists FNext, a. split; [reflexivity|exact Hs].
  - (* SExpr *)
    destruct (IHe e s H Hfs) as [r [E [T|[v Ev]]]]; [eapply px_tolx; eauto|].
    subst r. rewrite E, bindM_ret_nil.
    eexists. split; [reflexivity|]. right. exists FNormal, a. split; [reflexivity|exact Hs].
Qed.

Lemma pf_loop_step c body Ds a rest F :
  cond_ok c = true -> pf_stmts P pt ([] :: Ds) body = true -> pfns_ok F -> eshape a = dshape Ds ->
  px_res (exec_loop P eps (S n) c body {| env := a ++ rest; fns := F |}) rest F Ds.
Proof.
  intros Hc Hb Hf Hs. rewrite exec_loop_S. unfold loop_body. set (s := {| env := a ++ rest; fns := F |}).
  destruct (cond_eval n c s Hc) as [r [E [T|[b [Eb [x Ex]]]]]]; [eapply px_tolx; eauto; left; exact T|].
  subst r. rewrite E, bindM_ret_nil. unfold lift. rewrite Ex, bindM_ret_nil.
  destruct (negb x).
  - eexists. split; [reflexivity|]. right. exists FNormal, a. split; [reflexivity|exact Hs].
  - destruct (IHb body Ds a rest F Hb Hf Hs) as [rb [Er [T|[fl [a' [Eo Sa]]]]]]; [eapply px_tolx; eauto|].
    subst rb. unfold s. rewrite Er, bindM_ret_nil. destruct fl.
    + apply IHl; assumption.
    + eexists. split; [reflexivity|]. right. exists (FReturn v), a'. split; [reflexivity|exact Sa].
    + eexists. split; [reflexivity|]. right. exists FNormal, a'. split; [reflexivity|exact Sa].
    + apply IHl; assumption.
Qed.

Lemma pf_stmts_run : forall ts D Dr sc a0 rest Fh F0,
  pf_stmts P pt (D :: Dr) ts = true -> pfns_ok (Fh :: F0) -> eshape (sc :: a0) = dshape (D :: Dr) ->
  px_res (stmts_with P (exec P eps n) ts {| env := (sc :: a0) ++ rest; fns := Fh :: F0 |}) rest F0 Dr.
Proof.
  induction ts as [|t r IH]; intros D Dr sc a0 rest Fh F0 H Hf Hs; cbn [stmts_with].
  - unfold pop_scope. cbn [app env fns tl]. cbn [eshape dshape map] in Hs. injection Hs as _ Hs2.
    eexists. split; [reflexivity|]. right. exists FNormal, a0. split; [reflexivity|exact Hs2].
  - unfold pf_stmts in H. cbn [pf_stmts_with] in H. fold (pf_stmts P pt) in H.
    destruct (is_fun t); [discriminate|].
    destruct (in_plan_stmt P (stmt_sid t)); [eapply IH; eauto|].
    apply andb_prop in H. destruct H as [Ht Hr].
    destruct (IHx t (D :: Dr) (sc :: a0) rest (Fh :: F0) Ht Hf Hs) as [rt [Et [T|[fl [a' [Eo Sa]]]]]];
      [eapply px_tolx; eauto|].
    subst rt. rewrite Et, bindM_ret_nil.
    destruct (decl1_cons D Dr t) as [D' Ed]. rewrite Ed in Sa, Hr.
    destruct a' as [|sc' a0']; [discriminate Sa|].
    destruct fl.
    + eapply IH; eauto.
    + unfold pop_scope. cbn [app env fns tl]. cbn [eshape dshape map] in Sa. injection Sa as _ Sa2.
      eexists. split; [reflexivity|]. right. exists (FReturn v), a0'. split; [reflexivity|exact Sa2].
    + unfold pop_scope. cbn [app env fns tl]. cbn [eshape dshape map] in Sa. injection Sa as _ Sa2.
      eexists. split; [reflexivity|]. right. exists FBreak, a0'. split; [reflexivity|exact Sa2].
    + unfold pop_scope. cbn [app env fns tl]. cbn [eshape dshape map] in Sa. injection Sa as _ Sa2.
      eexists. split; [reflexivity|]. right. exists FNext, a0'. split; [reflexivity|exact Sa2].
Qed.

Lemma pf_block_step b Ds a rest F :
  pf_stmts P pt ([] :: Ds) b = true -> pfns_ok F -> eshape a = dshape Ds ->
  px_res (exec_block P eps (S n) b {| env := a ++ rest; fns := F |}) rest F Ds.
Proof.
  intros Hb Hf Hs. rewrite exec_block_S. unfold block_body.
  rewrite (hoist_nofun P b _ (pf_stmts_nofun _ _ _ Hb)). unfold lift. rewrite bindM_ret_nil.
  unfold push_scope. cbn [env fns]. change ([] :: a ++ rest) with (([] :: a) ++ rest).
  apply (pf_stmts_run b [] Ds [] a rest [] F); [exact Hb| |cbn [eshape dshape map]; f_equal; exact Hs].
  intros sc0 fd0 [E0|H0] Hfd0; [subst sc0; destruct Hfd0|eapply Hf; eauto].
Qed.

End Step.

Theorem pf_main n :
  (forall e s, pfe pt e = true -> pfns_ok (fns s) -> pe_res (eval P eps n e s) s) /\
  (forall t Ds a rest F, pf_stmt P pt Ds t = true -> pfns_ok F -> eshape a = dshape Ds ->
     px_res (exec P eps n t {| env := a ++ rest; fns := F |}) rest F (decl1 Ds t)) /\
  (forall c body Ds a rest F, cond_ok c = true -> pf_stmts P pt ([] :: Ds) body = true ->
     pfns_ok F -> eshape a = dshape Ds ->
     px_res (exec_loop P eps n c body {| env := a ++ rest; fns := F |}) rest F Ds) /\
  (forall b Ds a rest F, pf_stmts P pt ([] :: Ds) b = true -> pfns_ok F -> eshape a = dshape Ds ->
     px_res (exec_block P eps n b {| env := a ++ rest; fns := F |}) rest F Ds).
Proof.
  induction n as [|n (IHe & IHx & IHl & IHb)].
  - refine (conj _ (conj _ (conj _ _))); intros; eexists; (split; [reflexivity|left; left; exact I]).
  - refine (conj _ (conj _ (conj _ _))); intros.
    + eapply pf_eval_step; eauto.
    + eapply pf_exec_step; eauto.
    + eapply pf_loop_step; eauto.
    + eapply pf_block_step; eauto.
Qed.

(* the form the simulations use: a total pure expression with calls of table functions *)
Corollary pfe_eval n e s : pfe pt e = true -> pfns_ok (fns s) ->
  exists r, eval P eps n e s = ([], r) /\ (tolx r \/ exists v, r = Ok (v, s)).
Proof. intros H Hf. exact (proj1 (pf_main n) e s H Hf). Qed.

End Pure.

(* X = true: the four panic sites the resolver rules out are not compared either (round 4/5) *)
Definition tolX {A} (X : bool) (r : res A) : Prop := tolr r \/ (X = true /\ xs r).

Lemma tolX_bind {A B} X (m : M A) (f : A -> M B) : tolX X (snd m) -> tolX X (snd (bindM m f)).
Proof.
  intros [T|[HX T]]; [left; apply tolr_bind; exact T|right; split; [exact HX|]].
  destruct m as [o r]. destruct r as [a|e|p| |]; cbn in T; try contradiction. cbn. exact T.
Qed.

(* m1 (pruned run) simulates m2 (residual run): equal up to the projection of the result,
   unless slack is allowed and m2 ends in a tolerated failure *)
Definition simM {A} (SL : Prop) (X : bool) (g : A -> A) (ok : A -> Prop) (m1 m2 : M A) : Prop :=
  (SL /\ tolX X (snd m2)) \/ (m1 = mapR g m2 /\ forall o a, m2 = (o, Ok a) -> ok a).

Lemma sim_bind {A B} SL X (g : A -> A) (h : B -> B) (okA : A -> Prop) (okB : B -> Prop)
      (m1 m2 : M A) (f1 f2 : A -> M B) :
  simM SL X g okA m1 m2 ->
  (forall a, okA a -> simM SL X h okB (f1 (g a)) (f2 a)) ->
  simM SL X h okB (bindM m1 f1) (bindM m2 f2).
Proof.
  intros [[HS Ht] | [E Hok]] Hf.
  - left. split; [exact HS|]. apply tolX_bind. exact Ht.
  - subst m1. destruct m2 as [o2 r2]. destruct r2 as [a|e|p| |]; cbn.
    + specialize (Hf a (Hok _ _ eq_refl)). destruct Hf as [[HS Ht]|[E Hk]].
      * left. split; [exact HS|]. destruct (f2 a) as [o' r']. cbn in *. exact Ht.
      * right. rewrite E. destruct (f2 a) as [o' r']. cbn. split; [reflexivity|].
        intros o b Hb. inversion Hb; subst. eapply Hk. reflexivity.
    + right. split; [reflexivity|]. intros o a Ha. discriminate Ha.
    + right. split; [reflexivity|]. intros o a Ha. discriminate Ha.
    + right. split; [reflexivity|]. intros o a Ha. discriminate Ha.
    + right. split; [reflexivity|]. intros o a Ha. discriminate Ha.
Qed.

Lemma sim_out {A} SL X (g : A -> A) (ok : A -> Prop) o a :
  ok a -> simM SL X g ok (o, Ok (g a)) (o, Ok a).
Proof. intros H. right. split; [reflexivity|]. intros o' a' E. inversion E; subst. exact H. Qed.

Lemma sim_ret {A} SL X (g : A -> A) (ok : A -> Prop) a :
  ok a -> simM SL X g ok (OkM (g a)) (OkM a).
Proof. apply sim_out. Qed.

Lemma sim_err {A} SL X (g : A -> A) (ok : A -> Prop) e : simM SL X g ok (ErrM e) (ErrM e).
Proof. right. split; [reflexivity|]. intros o a E. discriminate E. Qed.
Lemma sim_panic {A} SL X (g : A -> A) (ok : A -> Prop) p : simM SL X g ok (PanicM p) (PanicM p).
Proof. right. split; [reflexivity|]. intros o a E. discriminate E. Qed.
Lemma sim_unsupp {A} SL X (g : A -> A) (ok : A -> Prop) : simM SL X g ok UnsuppM UnsuppM.
Proof. right. split; [reflexivity|]. intros o a E. discriminate E. Qed.
Lemma sim_fuel {A} SL X (g : A -> A) (ok : A -> Prop) : simM SL X g ok FuelM FuelM.
Proof. right. split; [reflexivity|]. intros o a E. discriminate E. Qed.

Lemma sim_lift {A} SL X (r : res A) : simM SL X (fun x => x) (fun _ => True) (lift r) (lift r).
Proof.
  right. split; [|intros; exact I]. unfold lift, mapR. cbn. destruct r; reflexivity.
Qed.

Lemma sim_weaken {A} SL X (g : A -> A) (ok ok' : A -> Prop) m1 m2 :
  (forall a, ok a -> ok' a) -> simM SL X g ok m1 m2 -> simM SL X g ok' m1 m2.
Proof.
  intros W [H|[E H]]; [left; exact H|right]. split; [exact E|]. intros o a Ea. apply W. eapply H. exact Ea.
Qed.

(* ------------------------------------------------------------------------------------ *)
(* B. the projection of states                                                            *)

Section Proj.
Variable c : pcfg.

Definition dead_slot (sl : slot) : bool :=
  match s_id sl with Some i => memz i (c_dead c) | None => false end.
Definition keep_slot (sl : slot) : bool := negb (dead_slot sl).
Definition keep_fn (f : fdef) : bool := negb (only1_fn c (f_id f)).

Definition penv (e : list (list slot)) : list (list slot) := map (filter keep_slot) e.
Definition pfns (f : list (list fdef)) : list (list fdef) := map (filter keep_fn) f.
Definition proj (s : st) : st := {| env := penv (env s); fns := pfns (fns s) |}.

Definition pj {X} (p : X * st) : X * st := (fst p, proj (snd p)).

Lemma var_ok_keep l n sl : var_ok c l = true -> slot_matches l n sl = true -> keep_slot sl = true.
Proof.
  unfold var_ok, slot_matches, keep_slot, dead_slot. destruct l as [i|].
  - intros Hv Hm. apply opt_eqb_eq in Hm. destruct Hm as [Hm _]. rewrite Hm. exact Hv.
  - intros Hv _. destruct (c_dead c); [|discriminate]. destruct (s_id sl); reflexivity.
Qed.

Lemma find_slot_proj l n sc :
  var_ok c l = true -> find_slot l n (filter keep_slot sc) = find_slot l n sc.
Proof.
  intros Hv. induction sc as [|a r IH]; [reflexivity|]. cbn [filter find_slot].
  destruct (slot_matches l n a) eqn:Hm.
  - rewrite (var_ok_keep _ _ _ Hv Hm). cbn [find_slot]. rewrite Hm. reflexivity.
  - destruct (keep_slot a); [cbn [find_slot]; rewrite Hm|]; exact IH.
Qed.

Lemma lookup_env_penv l n e :
  var_ok c l = true -> lookup_env l n (penv e) = lookup_env l n e.
Proof.
  intros Hv. induction e as [|sc r IH]; [reflexivity|]. cbn [penv map lookup_env].
  rewrite (find_slot_proj _ _ _ Hv). fold (penv r). rewrite IH. reflexivity.
Qed.

Lemma set_slot_proj l n v sc :
  var_ok c l = true ->
  set_slot l n v (filter keep_slot sc) = option_map (filter keep_slot) (set_slot l n v sc).
Proof.
  intros Hv. induction sc as [|a r IH]; [reflexivity|]. cbn [filter set_slot].
  destruct (slot_matches l n a) eqn:Hm.
  - pose proof (var_ok_keep _ _ _ Hv Hm) as Hk. rewrite Hk. cbn [set_slot]. rewrite Hm.
    cbn [option_map filter]. unfold keep_slot, dead_slot in *. cbn [s_id]. rewrite Hk. reflexivity.
  - destruct (keep_slot a) eqn:Hk.
    + cbn [set_slot]. rewrite Hm, IH. destruct (set_slot l n v r); cbn [option_map filter]; [rewrite Hk|]; reflexivity.
    + rewrite IH. destruct (set_slot l n v r); cbn [option_map filter]; [rewrite Hk|]; reflexivity.
Qed.

Lemma assign_env_penv l n v e :
  var_ok c l = true -> assign_env l n v (penv e) = option_map penv (assign_env l n v e).
Proof.
  intros Hv. induction e as [|sc r IH]; [reflexivity|]. cbn [penv map assign_env].
  rewrite (set_slot_proj _ _ _ _ Hv). destruct (set_slot l n v sc); cbn [option_map]; [reflexivity|].
  fold (penv r). rewrite IH. destruct (assign_env l n v r); reflexivity.
Qed.

Lemma define_env_penv l n v e :
  var_ok c l = true -> define_env l n v (penv e) = penv (define_env l n v e).
Proof.
  intros Hv. destruct e as [|sc r]; [reflexivity|]. cbn [penv map define_env].
  rewrite (set_slot_proj _ _ _ _ Hv). destruct (set_slot l n v sc); cbn [option_map map]; [reflexivity|].
  cbn [filter]. assert (keep_slot {| s_id := l; s_name := n; s_val := v |} = true) as ->; [|reflexivity].
  unfold keep_slot, dead_slot. cbn [s_id]. unfold var_ok in Hv. destruct l; [exact Hv|reflexivity].
Qed.

(* writes to a dead id are invisible after projection *)
Lemma set_slot_dead d n v sc sc' :
  memz d (c_dead c) = true -> set_slot (Some d) n v sc = Some sc' ->
  filter keep_slot sc' = filter keep_slot sc.
Proof.
  intros Hd. revert sc'. induction sc as [|a r IH]; intros sc'; [discriminate|]. cbn [set_slot].
  destruct (slot_matches (Some d) n a) eqn:Hm.
  - intros E. inversion E; subst. cbn [filter]. unfold slot_matches in Hm.
    apply opt_eqb_eq in Hm. destruct Hm as [Hm _].
    unfold keep_slot, dead_slot. cbn [s_id]. rewrite Hm, Hd. reflexivity.
  - destruct (set_slot (Some d) n v r) as [r'|]; [|discriminate]. intros E. inversion E; subst.
    cbn [filter]. rewrite (IH r' eq_refl). reflexivity.
Qed.

Lemma define_env_dead d n v e :
  memz d (c_dead c) = true -> penv (define_env (Some d) n v e) = penv e.
Proof.
  intros Hd. destruct e as [|sc r]; [reflexivity|]. cbn [define_env].
  destruct (set_slot (Some d) n v sc) as [sc'|] eqn:E; cbn [penv map].
  - rewrite (set_slot_dead _ _ _ _ _ Hd E). reflexivity.
  - cbn [filter]. unfold keep_slot at 1, dead_slot. cbn [s_id]. rewrite Hd. reflexivity.
Qed.

Lemma assign_env_dead d n v e e' :
  memz d (c_dead c) = true -> assign_env (Some d) n v e = Some e' -> penv e' = penv e.
Proof.
  intros Hd. revert e'. induction e as [|sc r IH]; intros e'; [discriminate|]. cbn [assign_env].
  destruct (set_slot (Some d) n v sc) as [sc'|] eqn:E.
  - intros E'. inversion E'; subst. cbn [penv map]. rewrite (set_slot_dead _ _ _ _ _ Hd E). reflexivity.
  - destruct (assign_env (Some d) n v r) as [r'|]; [|discriminate]. intros E'. inversion E'; subst.
    cbn [penv map]. fold (penv r') (penv r). rewrite (IH r' eq_refl). reflexivity.
Qed.

(* functions *)
Definition fd_ok (f : fdef) : Prop :=
  (c_calls c = true -> pfd_ok (c_p2 c) (c_pt c) f) /\
  (fn_live c (f_id f) = true ->
   block_ok c true (f_body f) = true /\ params_ok c (f_lstart f) (length (f_params f)) = true).

Definition st_ok (s : st) : Prop :=
  forall sc f, In sc (fns s) -> In f sc -> fd_ok f.

Definition okS {X} (p : X * st) : Prop := st_ok (snd p).

Lemma st_ok_with_env e s : st_ok s -> st_ok (with_env e s).
Proof. intros H. exact H. Qed.
Lemma st_ok_push sl s : st_ok s -> st_ok (push_scope sl s).
Proof.
  intros H sc f [E|Hin] Hf; [subst sc; destruct Hf|]. eapply H; eauto.
Qed.
Lemma st_ok_pop s : st_ok s -> st_ok (pop_scope s).
Proof.
  intros H sc f Hin Hf. cbn in Hin. destruct (fns s) as [|x r] eqn:E; [destruct Hin|].
  eapply (H sc f); [rewrite E; right; exact Hin|exact Hf].
Qed.

Lemma proj_with_env e s : proj (with_env e s) = with_env (penv e) (proj s).
Proof. reflexivity. Qed.
Lemma proj_pop s : proj (pop_scope s) = pop_scope (proj s).
Proof. unfold proj, pop_scope, penv, pfns. cbn. destruct (env s), (fns s); reflexivity. Qed.

Lemma filter_all {A} (f : A -> bool) l : forallb f l = true -> filter f l = l.
Proof.
  induction l as [|a r IH]; [reflexivity|]. cbn. destruct (f a); [|discriminate].
  intros H. rewrite IH; auto.
Qed.

Lemma proj_push sl s :
  forallb keep_slot sl = true -> proj (push_scope sl s) = push_scope sl (proj s).
Proof.
  intros H. unfold proj, push_scope. cbn. rewrite (filter_all _ _ H). reflexivity.
Qed.

Hypothesis Hcfg : cfg_ok c = true.

Lemma cfg_sub_stmt sid : in_plan_stmt (c_p2 c) sid = true -> in_plan_stmt (c_p1 c) sid = true.
Proof.
  unfold cfg_ok in Hcfg. apply andb_prop in Hcfg. destruct Hcfg as [H _].
  apply andb_prop in H. destruct H as [H _]. apply andb_prop in H. destruct H as [H _].
  rewrite forallb_forall in H. unfold in_plan_stmt at 1. destruct (c_p2 c) as [[ss fs]|]; [|discriminate].
  destruct sid as [i|]; [|discriminate]. intros Hi. apply existsb_exists in Hi. destruct Hi as [x [Hx E]].
  apply Z.eqb_eq in E. subst x. apply H. exact Hx.
Qed.

Lemma cfg_sub_fn fid : in_plan_fn (c_p2 c) fid = true -> in_plan_fn (c_p1 c) fid = true.
Proof.
  unfold cfg_ok in Hcfg. apply andb_prop in Hcfg. destruct Hcfg as [H _].
  apply andb_prop in H. destruct H as [H _]. apply andb_prop in H. destruct H as [_ H].
  rewrite forallb_forall in H. unfold in_plan_fn at 1. destruct (c_p2 c) as [[ss fs]|]; [|discriminate].
  destruct fid as [i|]; [|discriminate]. intros Hi. apply existsb_exists in Hi. destruct Hi as [x [Hx E]].
  apply Z.eqb_eq in E. subst x. apply H. exact Hx.
Qed.

Lemma live_not_only1 fid : fn_live c fid = true -> only1_fn c fid = false.
Proof.
  unfold cfg_ok in Hcfg. apply andb_prop in Hcfg. destruct Hcfg as [H Hall].
  apply andb_prop in H. destruct H as [_ Hlive].
  unfold fn_live. intros Hl. apply orb_prop in Hl. destruct Hl as [Hl|Hl].
  - rewrite Hl in Hall. unfold only1_fn. destruct (in_plan_fn (c_p1 c) fid) eqn:E1; [|reflexivity].
    unfold in_plan_fn in E1. unfold fns_of in Hall. destruct (c_p1 c) as [[ss fs]|]; [|discriminate].
    destruct fid as [i|]; [|discriminate]. apply existsb_exists in E1. destruct E1 as [x [Hx E]].
    apply Z.eqb_eq in E. subst x. rewrite forallb_forall in Hall. rewrite (Hall _ Hx). reflexivity.
  - destruct fid as [t|]; [|discriminate]. rewrite forallb_forall in Hlive.
    unfold memz in Hl. apply existsb_exists in Hl. destruct Hl as [x [Hx E]]. apply Z.eqb_eq in E. subst x.
    specialize (Hlive _ Hx). apply negb_true_iff in Hlive. exact Hlive.
Qed.

Lemma find_fn_proj target n sc :
  (forall f, fdef_matches target n f = true -> keep_fn f = true) ->
  find_fn_scope target n (filter keep_fn sc) = find_fn_scope target n sc.
Proof.
  intros Hk. induction sc as [|a r IH]; [reflexivity|]. cbn [filter find_fn_scope].
  destruct (fdef_matches target n a) eqn:Hm.
  - rewrite (Hk _ Hm). cbn [find_fn_scope]. rewrite Hm. reflexivity.
  - destruct (keep_fn a); [cbn [find_fn_scope]; rewrite Hm|]; exact IH.
Qed.

Lemma lookup_fn_pfns target n fs :
  (forall f, fdef_matches target n f = true -> keep_fn f = true) ->
  lookup_fn target n (pfns fs) = lookup_fn target n fs.
Proof.
  intros Hk. induction fs as [|sc r IH]; [reflexivity|]. cbn [pfns map lookup_fn].
  rewrite (find_fn_proj _ _ _ Hk). fold (pfns r). rewrite IH. reflexivity.
Qed.

Lemma call_ok_keep target n f :
  call_ok c target = true -> fdef_matches target n f = true ->
  keep_fn f = true /\ fn_live c (f_id f) = true.
Proof.
  unfold call_ok, fdef_matches. intros Hc Hm.
  assert (fn_live c (f_id f) = true) as Hl.
  { unfold fn_live. destruct target as [t|].
    - apply opt_eqb_eq in Hm. destruct Hm as [Hm _]. rewrite Hm. exact Hc.
    - rewrite Hc. reflexivity. }
  split; [|exact Hl]. unfold keep_fn. rewrite (live_not_only1 _ Hl). reflexivity.
Qed.

End Proj.

(* ------------------------------------------------------------------------------------ *)
(* C. simulation of the open-recursion bodies                                            *)

Lemma flatten_target_ok c t acc vn vl idx :
  flatten_target t acc = Some (vn, vl, idx) ->
  expr_ok c t = true -> forallb (expr_ok c) acc = true ->
  var_ok c vl = true /\ forallb (expr_ok c) idx = true.
Proof.
  revert acc. induction t; intros acc E Ht Hacc; cbn [flatten_target] in E; try discriminate.
  - inversion E; subst. cbn [expr_ok] in Ht. split; assumption.
  - cbn [expr_ok] in Ht. apply andb_prop in Ht. destruct Ht as [H1 H2].
    eapply IHt1; [exact E|exact H1|]. cbn [forallb]. rewrite H2, Hacc. reflexivity.
Qed.

Lemma bind_params_keep c fid ls np ps vs k acc :
  params_ok c ls np = true -> 0 <= k -> k + Z.of_nat (length ps) <= Z.of_nat np ->
  forallb (keep_slot c) acc = true ->
  forallb (keep_slot c) (bind_params fid ls ps vs k acc) = true.
Proof.
  intros Hp. revert vs k acc. induction ps as [|p ps IH]; intros vs k acc Hk Hle Hacc; [exact Hacc|].
  cbn [bind_params]. destruct vs as [|v vs]; [exact Hacc|].
  apply IH; [lia|cbn [length] in Hle; lia|]. cbn [forallb]. rewrite Hacc, andb_true_r.
  unfold keep_slot, dead_slot. cbn [s_id]. destruct fid; [|reflexivity].
  apply negb_true_iff. destruct (memz (ls + k) (c_dead c)) eqn:E; [|reflexivity].
  unfold memz in E. apply existsb_exists in E. destruct E as [d [Hd E]]. apply Z.eqb_eq in E. subst d.
  unfold params_ok in Hp. rewrite forallb_forall in Hp. specialize (Hp _ Hd).
  apply negb_true_iff in Hp. apply andb_false_iff in Hp. cbn [length] in Hle.
  destruct Hp as [Hp|Hp]; [apply Z.leb_gt in Hp|apply Z.ltb_ge in Hp]; lia.
Qed.

Lemma interp_segs_penv c segs e :
  forallb (seg_ok c) segs = true -> interp_segs (penv c e) segs = interp_segs e segs.
Proof.
  induction segs as [|sg r IH]; [reflexivity|]. cbn [forallb]. intros H. apply andb_prop in H.
  destruct H as [H1 H2]. destruct sg as [b|vn vl]; cbn [interp_segs]; rewrite (IH H2); [reflexivity|].
  cbn [seg_ok] in H1. rewrite (lookup_env_penv c _ _ _ H1). reflexivity.
Qed.

Section Sim.
Variable c : pcfg.
Variable eps : f64.
Variable SL : Prop.
Variable X : bool.
Hypothesis Hcfg : cfg_ok c = true.

Notation sim := (simM SL X (pj c) (okS c)).

Ltac sret x := apply (sim_ret SL X (pj c) (okS c) x); unfold okS in *; cbn [snd] in *; auto using st_ok_with_env, st_ok_pop.
Ltac sbind H :=
  eapply sim_bind;
  [ apply H; try assumption
  | let v := fresh "v" in let s := fresh "s" in let Hok := fresh "Hok" in
    intros [v s] Hok; unfold okS in Hok; cbn [pj fst snd] in * ].
Ltac slift :=
  eapply sim_bind; [ apply sim_lift | let x := fresh "x" in intros x _; cbn beta ].

Section Expr.
Variable ev1 ev2 : expr -> st -> M (value * st).
Variable eb1 eb2 : list stmt -> st -> M (flow * st).
Hypothesis Hev : forall e s, expr_ok c e = true -> st_ok c s -> sim (ev1 e (proj c s)) (ev2 e s).
Hypothesis Heb : forall b s, block_ok c true b = true -> st_ok c s -> sim (eb1 b (proj c s)) (eb2 b s).

Lemma evals_sim es s :
  forallb (expr_ok c) es = true -> st_ok c s ->
  sim (evals_with ev1 es (proj c s)) (evals_with ev2 es s).
Proof.
  revert s. induction es as [|a r IH]; intros s H Hs; cbn [evals_with forallb] in *.
  - sret (@nil value, s).
  - apply andb_prop in H. destruct H as [Ha Hr].
    sbind Hev. sbind IH. sret (v :: v0, s1).
Qed.

Lemma indices_sim es s :
  forallb (expr_ok c) es = true -> st_ok c s ->
  sim (indices_with ev1 es (proj c s)) (indices_with ev2 es s).
Proof.
  revert s. induction es as [|a r IH]; intros s H Hs; cbn [indices_with forallb] in *.
  - sret (@nil Z, s).
  - apply andb_prop in H. destruct H as [Ha Hr].
    sbind Hev. slift. sbind IH. sret (x :: v0, s1).
Qed.

Lemma mutate_sim o op s :
  expr_ok c o = true -> st_ok c s ->
  sim (mutate_with ev1 o op (proj c s)) (mutate_with ev2 o op s).
Proof.
  intros Ho Hs. destruct o; cbn [mutate_with]; try apply sim_err.
  - cbn [expr_ok] in Ho. cbn [proj env]. rewrite (lookup_env_penv c _ _ _ Ho).
    destruct (lookup_env l n (env s)) as [root|]; [|apply sim_panic].
    slift. destruct x as [root' r]. rewrite (assign_env_penv c _ _ _ _ Ho).
    destruct (assign_env l n root' (env s)) as [e'|]; cbn [option_map]; [|apply sim_panic].
    sret (r, with_env e' s).
  - destruct (flatten_target (EIdx o1 o2) []) as [[[vn vl] idx]|] eqn:E; [|apply sim_err].
    destruct (flatten_target_ok c _ _ _ _ _ E Ho eq_refl) as [Hv Hi].
    sbind indices_sim. cbn [proj env]. rewrite (lookup_env_penv c _ _ _ Hv).
    destruct (lookup_env vl vn (env s0)) as [root|]; [|apply sim_panic].
    slift. destruct x as [root' r]. rewrite (assign_env_penv c _ _ _ _ Hv).
    destruct (assign_env vl vn root' (env s0)) as [e'|]; cbn [option_map]; [|apply sim_panic].
    sret (r, with_env e' s0).
Qed.


Ltac leaf :=
  first [ apply sim_err | apply sim_panic | apply sim_unsupp | apply sim_fuel
        | match goal with
          | |- simM _ _ _ _ (OkM (?v, proj c ?s)) (OkM (_, ?s)) => sret (v, s)
          end ].

Lemma string_call_sim str f args s :
  forallb (expr_ok c) args = true -> st_ok c s ->
  sim (string_call ev1 str f args (proj c s)) (string_call ev2 str f args s).
Proof.
  intros Ha Hs. unfold string_call.
  destruct (negb (mem_name f string_methods)); [leaf|].
  destruct (bytes_eqb f n_len); [leaf|].
  destruct (bytes_eqb f n_slice).
  { destruct args as [|a0 [|a1 r]]; try leaf. cbn [forallb] in Ha.
    apply andb_prop in Ha. destruct Ha as [H0 Ha]. apply andb_prop in Ha. destruct Ha as [H1 _].
    sbind Hev. sbind Hev. destruct v, v0; leaf. }
  destruct (bytes_eqb f n_to_uppercase). { destruct (is_ascii str); leaf. }
  destruct (bytes_eqb f n_to_lowercase). { destruct (is_ascii str); leaf. }
  destruct (bytes_eqb f n_trim); [leaf|].
  destruct (bytes_eqb f n_to_number); [leaf|].
  destruct (bytes_eqb f n_find).
  { destruct args as [|a0 r]; try leaf. cbn [forallb] in Ha. apply andb_prop in Ha. destruct Ha as [H0 _].
    sbind Hev. destruct v; try leaf. destruct (find str s1); leaf. }
  destruct (bytes_eqb f n_replace).
  { destruct args as [|a0 [|a1 r]]; try leaf. cbn [forallb] in Ha.
    apply andb_prop in Ha. destruct Ha as [H0 Ha]. apply andb_prop in Ha. destruct Ha as [H1 _].
    sbind Hev. sbind Hev. destruct v, v0; try leaf. destruct (replace str s2 s3); leaf. }
  destruct args as [|a0 r]; try leaf. cbn [forallb] in Ha. apply andb_prop in Ha. destruct Ha as [H0 _].
  sbind Hev. destruct v; leaf.
Qed.

Lemma array_call_sim items f args s :
  forallb (expr_ok c) args = true -> st_ok c s ->
  sim (array_call ev1 items f args (proj c s)) (array_call ev2 items f args s).
Proof.
  intros Ha Hs. unfold array_call.
  destruct (negb (mem_name f array_methods)); [leaf|].
  destruct (bytes_eqb f n_len); [leaf|].
  destruct (bytes_eqb f n_join); [|leaf].
  destruct args as [|a0 r]; try leaf. cbn [forallb] in Ha. apply andb_prop in Ha. destruct Ha as [H0 _].
  sbind Hev. destruct v; leaf.
Qed.

Lemma member_call_sim o f args s :
  expr_ok c o = true -> forallb (expr_ok c) args = true -> st_ok c s ->
  sim (member_call ev1 o f args (proj c s)) (member_call ev2 o f args s).
Proof.
  intros Ho Ha Hs. unfold member_call.
  destruct (mem_name f array_mut_methods).
  { destruct (bytes_eqb f n_push).
    - destruct args as [|a0 r]; try leaf. cbn [forallb] in Ha. apply andb_prop in Ha. destruct Ha as [H0 _].
      sbind Hev. apply mutate_sim; assumption.
    - destruct (bytes_eqb f n_pop); apply mutate_sim; assumption. }
  destruct (mem_name f proc_mut_names); [leaf|].
  sbind Hev. destruct v; try leaf.
  - destruct (mem_name f number_methods); leaf.
  - apply string_call_sim; assumption.
  - apply array_call_sim; assumption.
Qed.

Lemma user_call_sim fname args target s :
  call_ok c target = true -> forallb (expr_ok c) args = true -> st_ok c s ->
  sim (user_call ev1 eb1 fname args target (proj c s)) (user_call ev2 eb2 fname args target s).
Proof.
  intros Hc Ha Hs. unfold user_call. cbn [proj fns].
  rewrite (lookup_fn_pfns c target fname (fns s)
             (fun f Hm => proj1 (call_ok_keep c Hcfg target fname f Hc Hm))).
  destruct (lookup_fn target fname (fns s)) as [fd|] eqn:E; [|leaf].
  destruct (lookup_fn_In _ _ _ _ E) as [sc [Hsc [Hfd Hm]]].
  destruct (proj2 (Hs sc fd Hsc Hfd) (proj2 (call_ok_keep c Hcfg target fname fd Hc Hm))) as [Hbody Hpar].
  sbind evals_sim.
  destruct (negb (Nat.eqb (length v) (length (f_params fd)))); [leaf|].
  destruct (match f_id fd with Some _ => f_llen fd <? Z.of_nat (length (f_params fd)) | None => false end); [leaf|].
  cbv zeta.
  rewrite <- (proj_push c).
  2:{ apply (bind_params_keep c _ _ (length (f_params fd))); [exact Hpar|lia|lia|reflexivity]. }
  sbind Heb. { apply st_ok_push. exact Hok. }
  rewrite <- (proj_pop c).
  destruct v0; leaf.
Qed.

Lemma builtin_call_sim g args s :
  forallb (expr_ok c) args = true -> st_ok c s ->
  sim (builtin_call ev1 g args (proj c s)) (builtin_call ev2 g args s).
Proof.
  intros Ha Hs. unfold builtin_call. sbind evals_sim.
  destruct v as [|v1 [|v2 r]]; try leaf.
  destruct g; try leaf.
  apply (sim_out SL X (pj c) (okS c) [v1] (VNull, s0)). exact Hok.
Qed.

Lemma eval_body_sim e s :
  expr_ok c e = true -> st_ok c s ->
  sim (eval_body eps ev1 eb1 e (proj c s)) (eval_body eps ev2 eb2 e s).
Proof.
  intros He Hs. destruct e; cbn [eval_body expr_ok] in *; try leaf.
  - (* EInterp *)
    cbn [proj env]. rewrite (interp_segs_penv c _ _ He). slift. sret (VStr x, s).
  - (* EVar *)
    cbn [proj env]. rewrite (lookup_env_penv c _ _ _ He).
    destruct (lookup_env l n (env s)); leaf.
  - (* EBin *)
    apply andb_prop in He. destruct He as [H1 H2].
    destruct op.
    1-5, 8-10: (sbind Hev; sbind Hev; slift; sret (x, s1)).
    + sbind Hev. destruct v as [| |[|]| |]; try leaf; (sbind Hev; destruct v; leaf).
    + sbind Hev. destruct v as [| |[|]| |]; try leaf; (sbind Hev; destruct v; leaf).
  - (* EUn *)
    sbind Hev. destruct op, v; leaf.
  - (* EArr *)
    sbind evals_sim. sret (VArr v, s0).
  - (* EIdx *)
    apply andb_prop in He. destruct He as [H1 H2].
    sbind Hev. sbind Hev. destruct v; try leaf. destruct v0; try leaf.
    destruct (negb (is_finite x) || negb (is_int x)); [leaf|]. cbv zeta.
    destruct ((to_isize x <? 0) || (len_z vs <=? to_isize x)); [leaf|].
    destruct (nth_value vs (Z.to_nat (to_isize x))); leaf.
  - (* ECall *)
    apply andb_prop in He. destruct He as [Ha Hc].
    destruct e; try leaf.
    + destruct (global_builtin n).
      * apply builtin_call_sim; assumption.
      * apply user_call_sim; assumption.
    + apply member_call_sim; assumption.
Qed.

End Expr.

Lemma block_ok_cons live x r :
  block_ok c live (x :: r) = item_ok c live x && block_ok c (next_live c live x) r.
Proof. reflexivity. Qed.

Lemma block_ok_funs live b :
  block_ok c live b = true -> forall x, In x b -> is_fun x = true -> stmt_ok c x = true.
Proof.
  revert live. induction b as [|a r IH]; intros live H x Hin Hf; [destruct Hin|].
  rewrite block_ok_cons in H. apply andb_prop in H. destruct H as [Hi Hr].
  destruct Hin as [E|Hin]; [subst a|eapply IH; eauto].
  unfold item_ok, item_ok_with in Hi. rewrite Hf in Hi. apply andb_prop in Hi. exact (proj1 Hi).
Qed.

Lemma sim_strengthen {A} (g : A -> A) (ok ok' : A -> Prop) (m1 m2 : M A) :
  simM SL X g ok m1 m2 -> (forall o a, m2 = (o, Ok a) -> ok' a) ->
  simM SL X g (fun a => ok a /\ ok' a) m1 m2.
Proof.
  intros [H|[E H]] H'; [left; exact H|right]. split; [exact E|]. intros o a Ea. split; eauto.
Qed.

Section Stmt.
Variable ev1 ev2 : expr -> st -> M (value * st).
Variable el1 el2 : expr -> list stmt -> st -> M (flow * st).
Variable eb1 eb2 : list stmt -> st -> M (flow * st).
Hypothesis Hev : forall e s, expr_ok c e = true -> st_ok c s -> sim (ev1 e (proj c s)) (ev2 e s).
Hypothesis Hel : forall cnd b s, expr_ok c cnd = true -> block_ok c true b = true -> st_ok c s ->
                                 sim (el1 cnd b (proj c s)) (el2 cnd b s).
Hypothesis Heb : forall b s, block_ok c true b = true -> st_ok c s -> sim (eb1 b (proj c s)) (eb2 b s).

Ltac leaf2 :=
  first [ apply sim_err | apply sim_panic | apply sim_unsupp | apply sim_fuel
        | match goal with
          | |- simM _ _ _ _ (OkM (?v, proj c ?s)) (OkM (_, ?s)) => sret (v, s)
          end ].

Lemma exec_body_sim t s :
  stmt_ok c t = true -> st_ok c s ->
  sim (exec_body ev1 el1 eb1 t (proj c s)) (exec_body ev2 el2 eb2 t s).
Proof.
  intros Ht Hs. destruct t; cbn [exec_body stmt_ok] in *; try leaf2.
  - (* SMake *)
    apply andb_prop in Ht. destruct Ht as [Hv He]. sbind Hev.
    cbn [proj env]. rewrite (define_env_penv c _ _ _ _ Hv). rewrite <- (proj_with_env c). leaf2.
  - (* SSet *)
    apply andb_prop in Ht. destruct Ht as [Hv He]. sbind Hev.
    cbn [proj env]. rewrite (assign_env_penv c _ _ _ _ Hv).
    destruct (assign_env l n v (env s0)) as [e'|]; cbn [option_map]; [|leaf2].
    rewrite <- (proj_with_env c). leaf2.
  - (* SSetIdx *)
    apply andb_prop in Ht. destruct Ht as [Htg He]. sbind Hev.
    destruct (flatten_target target []) as [[[vn vl] idx]|] eqn:E; [|leaf2].
    destruct (flatten_target_ok c _ _ _ _ _ E Htg eq_refl) as [Hv Hi].
    sbind (indices_sim ev1 ev2 Hev). cbn [proj env]. rewrite (lookup_env_penv c _ _ _ Hv).
    destruct (lookup_env vl vn (env s1)) as [root|]; [|leaf2].
    slift. rewrite (assign_env_penv c _ _ _ _ Hv).
    destruct (assign_env vl vn x (env s1)) as [e'|]; cbn [option_map]; [|leaf2].
    rewrite <- (proj_with_env c). leaf2.
  - (* SIf *)
    apply andb_prop in Ht. destruct Ht as [Ht Hel']. apply andb_prop in Ht. destruct Ht as [Hc Hth].
    sbind Hev. slift. destruct x.
    + apply Heb; assumption.
    + destruct f; [apply Heb; assumption|leaf2].
  - (* SLoop *)
    apply andb_prop in Ht. destruct Ht as [Hc Hb]. apply Hel; assumption.
  - (* SBlock *)
    apply Heb; assumption.
  - (* SRet *)
    destruct e; [|leaf2]. sbind Hev. leaf2.
  - (* SExpr *)
    sbind Hev. leaf2.
Qed.

Lemma loop_body_sim cnd b s :
  expr_ok c cnd = true -> block_ok c true b = true -> st_ok c s ->
  sim (loop_body ev1 el1 eb1 cnd b (proj c s)) (loop_body ev2 el2 eb2 cnd b s).
Proof.
  intros Hc Hb Hs. unfold loop_body. sbind Hev. slift.
  destruct (negb x); [leaf2|]. sbind Heb.
  destruct v0; try leaf2; apply Hel; assumption.
Qed.

End Stmt.

Section Block.
Variable ex1 ex2 : stmt -> st -> M (flow * st).
Hypothesis Hex : forall t s, stmt_ok c t = true -> st_ok c s -> sim (ex1 t (proj c s)) (ex2 t s).
Hypothesis Hpruned : forall t s, pruned_ok c t = true -> st_ok c s ->
  (SL /\ tolX X (snd (ex2 t s))) \/
  exists s', ex2 t s = ([], Ok (FNormal, s')) /\ proj c s' = proj c s /\ st_ok c s'.
Hypothesis Hnn : forall t s o s', nn_p (c_p2 c) t = true -> ex2 t s = (o, Ok (FNormal, s')) -> False.

Lemma pruned_not_nn t : pruned_ok c t = true -> nn_p (c_p2 c) t = false.
Proof. destruct t; cbn; try discriminate; reflexivity. Qed.

Lemma stmts_sim ts s :
  block_ok c true ts = true -> st_ok c s ->
  sim (stmts_with (c_p1 c) ex1 ts (proj c s)) (stmts_with (c_p2 c) ex2 ts s).
Proof.
  revert s. induction ts as [|a r IH]; intros s Hb Hs; cbn [stmts_with].
  - rewrite <- (proj_pop c). sret (FNormal, pop_scope s).
  - rewrite block_ok_cons in Hb. apply andb_prop in Hb. destruct Hb as [Hi Hr].
    unfold item_ok, item_ok_with in Hi. apply andb_prop in Hi. destruct Hi as [_ Hi].
    unfold next_live in Hr. cbn [andb] in Hr.
    destruct (in_plan_stmt (c_p2 c) (stmt_sid a)) eqn:E2.
    + rewrite (cfg_sub_stmt c Hcfg _ E2). rewrite andb_false_r in Hr. apply IH; assumption.
    + rewrite andb_true_r in Hr. destruct (in_plan_stmt (c_p1 c) (stmt_sid a)) eqn:E1.
      * rewrite (pruned_not_nn _ Hi) in Hr.
        destruct (Hpruned a s Hi Hs) as [[HS Ht] | [s' [E [Ep Hs']]]].
        -- left. split; [exact HS|]. apply tolX_bind. exact Ht.
        -- rewrite E, bindM_ret_nil. rewrite <- Ep. apply IH; assumption.
      * eapply sim_bind.
        -- apply (sim_strengthen (pj c) (okS c)
                    (fun p => fst p = FNormal -> nn_p (c_p2 c) a = false)).
           ++ apply Hex; assumption.
           ++ intros o [fl s'] E Hfl. cbn [fst] in Hfl. subst fl.
              destruct (nn_p (c_p2 c) a) eqn:En; [|reflexivity]. exfalso. eapply Hnn; eauto.
        -- intros [fl s'] [Hok Hfl]. unfold okS in Hok. cbn [pj fst snd] in *.
           destruct fl.
           ++ rewrite (Hfl eq_refl) in Hr. apply IH; assumption.
           ++ rewrite <- (proj_pop c). sret (FReturn v, pop_scope s').
           ++ rewrite <- (proj_pop c). sret (FBreak, pop_scope s').
           ++ rewrite <- (proj_pop c). sret (FNext, pop_scope s').
Qed.

Lemma hoist_sim b s :
  (forall x, In x b -> is_fun x = true -> stmt_ok c x = true) ->
  fns s <> [] -> st_ok c s ->
  exists s2, hoist (c_p2 c) b s = Ok s2 /\ hoist (c_p1 c) b (proj c s) = Ok (proj c s2) /\ st_ok c s2.
Proof.
  revert s. induction b as [|a r IH]; intros s Hf Hne Hs.
  - exists s. cbn. auto.
  - assert (Hr : forall x, In x r -> is_fun x = true -> stmt_ok c x = true)
      by (intros x Hx; apply Hf; right; exact Hx).
    destruct a; cbn [hoist]; try (apply IH; assumption).
    specialize (Hf _ (or_introl eq_refl) eq_refl).
    destruct (in_plan_fn (c_p2 c) fid) eqn:E2.
    { rewrite (cfg_sub_fn c Hcfg _ E2). apply IH; assumption. }
    destruct (fns s) as [|sc rest] eqn:Efs; [contradiction|].
    set (f := {| f_id := fid; f_name := n; f_params := ps; f_body := body; f_lstart := lstart; f_llen := llen |}).
    set (s' := {| env := env s; fns := (f :: sc) :: rest |}).
    assert (Hs' : st_ok c s').
    { intros sc0 f0 Hin Hf0. cbn [fns s'] in Hin. destruct Hin as [E|Hin].
      - subst sc0. destruct Hf0 as [E|Hf0].
        + subst f0. cbn [stmt_ok] in Hf. apply andb_prop in Hf. destruct Hf as [Hpf Hf]. split.
          * intros Hc g Eg Hm. rewrite Hc in Hpf. cbn [f_id f_body f_params f_lstart f] in *.
            unfold pf_fun in Hpf. rewrite Eg, Hm in Hpf. exact Hpf.
          * intros Hl. cbn [f_id f_body f_params f_lstart f] in *.
            rewrite Hl in Hf. apply andb_prop in Hf. exact Hf.
        + apply (Hs sc f0); [rewrite Efs; left; reflexivity|exact Hf0].
      - apply (Hs sc0 f0); [rewrite Efs; right; exact Hin|exact Hf0]. }
    assert (Hne' : fns s' <> []) by (cbn; discriminate).
    destruct (IH s' Hr Hne' Hs') as [s2 [H2 [H1 Hs2]]].
    exists s2. split; [exact H2|]. split; [|exact Hs2].
    destruct (in_plan_fn (c_p1 c) fid) eqn:E1.
    + (* pruned by c_p1 only: the projection drops the definition *)
      rewrite <- H1. f_equal. unfold proj, s'. cbn [env fns]. rewrite Efs. cbn [pfns map filter].
      assert (Hk : keep_fn c f = false) by (unfold keep_fn, only1_fn, f; cbn [f_id]; rewrite E1, E2; reflexivity).
      rewrite Hk. reflexivity.
    + cbn [proj fns]. rewrite Efs. cbn [pfns map].
      rewrite <- H1. f_equal. unfold proj, s'. cbn [env fns pfns map filter].
      assert (Hk : keep_fn c f = true) by (unfold keep_fn, only1_fn, f; cbn [f_id]; rewrite E1; reflexivity).
      rewrite Hk. reflexivity.
Qed.

Lemma block_body_sim b s :
  block_ok c true b = true -> st_ok c s ->
  sim (block_body (c_p1 c) ex1 b (proj c s)) (block_body (c_p2 c) ex2 b s).
Proof.
  intros Hb Hs. unfold block_body.
  destruct (hoist_sim b (push_scope [] s) (block_ok_funs _ _ Hb)) as [s2 [H2 [H1 Hs2]]].
  { cbn. discriminate. } { apply st_ok_push. exact Hs. }
  rewrite (proj_push c) in H1 by reflexivity. rewrite H1, H2.
  unfold lift. rewrite !bindM_ret_nil. apply stmts_sim; assumption.
Qed.

End Block.
End Sim.

(* ------------------------------------------------------------------------------------ *)
(* D. facts about one run                                                                 *)

Lemma bindM_inv {A B} (m : M A) (f : A -> M B) o b :
  bindM m f = (o, Ok b) -> exists o1 a o2, m = (o1, Ok a) /\ f a = (o2, Ok b) /\ o = o1 ++ o2.
Proof.
  destruct m as [o1 r]. destruct r; cbn; try discriminate.
  destruct (f a) as [o2 r2] eqn:E. intros H. inversion H; subst. exists o1, a, o2. auto.
Qed.

Lemma bindM_fuel {A B} (f : A -> M B) : bindM ([], Fuel) f = ([], Fuel).
Proof. reflexivity. Qed.

(* a never-normal statement never completes normally *)
Lemma stmts_nn P ex :
  (forall t s o s', nn_p P t = true -> ex t s = (o, Ok (FNormal, s')) -> False) ->
  forall b s o s',
    existsb (fun x => nn_p P x && negb (in_plan_stmt P (stmt_sid x))) b = true ->
    stmts_with P ex b s = (o, Ok (FNormal, s')) -> False.
Proof.
  intros Hex. induction b as [|x r IH]; intros s o s' He Hr; cbn [existsb] in He; [discriminate|].
  cbn [stmts_with] in Hr. destruct (in_plan_stmt P (stmt_sid x)) eqn:Ep.
  - rewrite andb_false_r in He. cbn [orb] in He. eapply IH; eauto.
  - rewrite andb_true_r in He. apply bindM_inv in Hr. destruct Hr as [o1 [[fl s1] [o2 [E1 [E2 _]]]]].
    destruct fl; try discriminate E2.
    destruct (nn_p P x) eqn:En.
    + eapply Hex; eauto.
    + cbn [orb] in He. eapply IH; eauto.
Qed.

Lemma nn_sound P eps n :
  (forall t s o s', nn_p P t = true -> exec P eps n t s = (o, Ok (FNormal, s')) -> False) /\
  (forall b s o s',
      existsb (fun x => nn_p P x && negb (in_plan_stmt P (stmt_sid x))) b = true ->
      exec_block P eps n b s = (o, Ok (FNormal, s')) -> False).
Proof.
  induction n as [|n [IHt IHb]].
  - split; intros; [rewrite exec_0 in *|rewrite exec_block_0 in *]; discriminate.
  - split.
    + intros t s o s' Hn Hr. rewrite exec_S in Hr.
      destruct t; cbn [nn_p] in Hn; try discriminate; cbn [exec_body] in Hr.
      * destruct f as [el|]; [|discriminate]. apply andb_prop in Hn. destruct Hn as [H1 H2].
        apply bindM_inv in Hr. destruct Hr as (o1 & [cv s1] & o2 & E1 & E2 & _).
        apply bindM_inv in E2. destruct E2 as (o3 & b & o4 & E3 & E4 & _).
        destruct b; [exact (IHb _ _ _ _ H1 E4)|exact (IHb _ _ _ _ H2 E4)].
      * eapply IHb; eauto.
      * destruct e.
        -- apply bindM_inv in Hr. destruct Hr as (o1 & [v s1] & o2 & E1 & E2 & _). discriminate E2.
        -- discriminate Hr.
    + intros b s o s' He Hr. rewrite exec_block_S in Hr. unfold block_body in Hr.
      apply bindM_inv in Hr. destruct Hr as (o1 & s1 & o2 & E1 & E2 & _). eapply stmts_nn; eauto.
Qed.



(* a statement c_p1 drops from a live position does nothing the projection can see *)
Lemma st_ok_pure c s : c_calls c = true -> st_ok c s -> pfns_ok (c_p2 c) (c_pt c) (fns s).
Proof. intros Hc H sc fd Hs Hf. exact (proj1 (H sc fd Hs Hf) Hc). Qed.

(* the right-hand side of a dropped never-read store, evaluated by the residual run *)
Lemma rhs_eval_p c eps n e s :
  (if c_calls c then pfe (c_pt c) e else pure_total e) = true -> st_ok c s ->
  exists r, eval (c_p2 c) eps n e s = ([], r) /\ (tolX (c_calls c) r \/ exists v, r = Ok (v, s)).
Proof.
  intros H Hs. destruct (c_calls c) eqn:Ec.
  - destruct (pfe_eval (c_p2 c) eps (c_pt c) n e s H (st_ok_pure c s Ec Hs)) as [r [E [[T|T]|Hv]]];
      exists r; (split; [exact E|]); [left; left; exact T|left; right; split; [reflexivity|exact T]|right; exact Hv].
  - destruct (pure_total_eval (c_p2 c) eps n e s H) as [r [E [T|Hv]]];
      exists r; (split; [exact E|]); [left; left; exact T|right; exact Hv].
Qed.

Lemma tolX_bind_nil {A B} X (f : A -> M B) r : tolX X r -> tolX X (snd (bindM ([], r) f)).
Proof. intros T. apply (tolX_bind X ([], r) f). exact T. Qed.

Lemma pruned_exec c eps n t s :
  pruned_ok c t = true -> st_ok c s ->
  (c_nr c = true /\ tolX (c_calls c) (snd (exec (c_p2 c) eps n t s))) \/
  exists s', exec (c_p2 c) eps n t s = ([], Ok (FNormal, s')) /\ proj c s' = proj c s /\ st_ok c s'.
Proof.
  intros Hp Hs. destruct t; cbn [pruned_ok] in Hp; try discriminate.
  - destruct l as [d|]; [|discriminate]. apply andb_prop in Hp. destruct Hp as [Hp Hpt].
    apply andb_prop in Hp. destruct Hp as [Hnr Hd].
    destruct n as [|n]; [left; split; [exact Hnr|left; exact I]|].
    rewrite exec_S. cbn [exec_body].
    destruct (rhs_eval_p c eps n e s Hpt Hs) as [r [E [T|[v Ev]]]]; rewrite E.
    + left. split; [exact Hnr|]. apply tolX_bind_nil. exact T.
    + subst r. rewrite bindM_ret_nil. right. eexists. split; [reflexivity|]. split; [|exact Hs].
      unfold proj. cbn [env fns with_env]. rewrite (define_env_dead c _ _ _ _ Hd). reflexivity.
  - destruct l as [d|]; [|discriminate]. apply andb_prop in Hp. destruct Hp as [Hp Hpt].
    apply andb_prop in Hp. destruct Hp as [Hnr Hd].
    destruct n as [|n]; [left; split; [exact Hnr|left; exact I]|].
    rewrite exec_S. cbn [exec_body].
    destruct (rhs_eval_p c eps n e s Hpt Hs) as [r [E [T|[v Ev]]]]; rewrite E.
    + left. split; [exact Hnr|]. apply tolX_bind_nil. exact T.
    + subst r. rewrite bindM_ret_nil.
      destruct (assign_env (Some d) n0 v (env s)) as [e'|] eqn:Ea.
      * right. eexists. split; [reflexivity|]. split; [|exact Hs].
        unfold proj. cbn [env fns with_env]. rewrite (assign_env_dead c _ _ _ _ _ Hd Ea). reflexivity.
      * left. split; [exact Hnr|left; exact I].
Qed.

(* ------------------------------------------------------------------------------------ *)
(* E. the simulation, by induction on fuel                                                *)

Section Main.
Variable c : pcfg.
Variable eps : f64.
Hypothesis Hcfg : cfg_ok c = true.

Notation simc := (simM (c_nr c = true) (c_calls c) (pj c) (okS c)).

Lemma main_sim n :
  (forall e s, expr_ok c e = true -> st_ok c s ->
               simc (eval (c_p1 c) eps n e (proj c s)) (eval (c_p2 c) eps n e s)) /\
  (forall t s, stmt_ok c t = true -> st_ok c s ->
               simc (exec (c_p1 c) eps n t (proj c s)) (exec (c_p2 c) eps n t s)) /\
  (forall cnd b s, expr_ok c cnd = true -> block_ok c true b = true -> st_ok c s ->
               simc (exec_loop (c_p1 c) eps n cnd b (proj c s)) (exec_loop (c_p2 c) eps n cnd b s)) /\
  (forall b s, block_ok c true b = true -> st_ok c s ->
               simc (exec_block (c_p1 c) eps n b (proj c s)) (exec_block (c_p2 c) eps n b s)).
Proof.
  induction n as [|n (IHe & IHt & IHl & IHb)].
  - refine (conj _ (conj _ (conj _ _))); intros; apply sim_fuel.
  - refine (conj _ (conj _ (conj _ _))).
    + intros e s He Hs. rewrite !eval_S. apply eval_body_sim; assumption.
    + intros t s Ht Hs. rewrite !exec_S. apply exec_body_sim; assumption.
    + intros cnd b s Hc Hb Hs. rewrite !exec_loop_S. apply loop_body_sim; assumption.
    + intros b s Hb Hs. rewrite !exec_block_S. apply block_body_sim; try assumption.
      * intros t s0 Hp Hs0. apply pruned_exec; assumption.
      * intros t s0 o s' Hn Hr. exact (proj1 (nn_sound (c_p2 c) eps n) t s0 o s' Hn Hr).
Qed.

Lemma st_ok_init : st_ok c init_st.
Proof. intros sc f [E|[]] Hf. subst sc. destruct Hf. Qed.

Lemma proj_init : proj c init_st = init_st.
Proof. reflexivity. Qed.

End Main.

Definition res_ending {A} (r : res A) : ending :=
  match r with
  | Ok _ => Done | Err e => RtErr e | Panic ps => Panicked ps | Fuel => EFuel | Unsupp => Unsupported
  end.

Lemma run_impl_eq p eps fuel prog :
  run_impl p eps fuel prog =
  (fst (exec_block p eps fuel prog init_st), res_ending (snd (exec_block p eps fuel prog init_st))).
Proof. unfold run_impl. destruct (exec_block p eps fuel prog init_st) as [o r]. reflexivity. Qed.

(* The general statement: dropping the covered entries of plan c_p1 (leaving c_p2) does not
   change the run.  With c_nr = false the two runs are equal without exception. *)
Theorem prune_residual_sound_lemma c prog eps fuel o e :
  covered_ok c prog = true ->
  run_impl (c_p2 c) eps fuel prog = (o, e) ->
  (c_nr c = true -> tol_ending_x (c_calls c) e = false) ->
  run_impl (c_p1 c) eps fuel prog = (o, e).
Proof.
  unfold covered_ok. intros H Hrun Htol. apply andb_prop in H. destruct H as [Hcfg Hb].
  destruct (main_sim c eps Hcfg fuel) as (_ & _ & _ & Hblk).
  specialize (Hblk prog init_st Hb (st_ok_init c)). rewrite proj_init in Hblk.
  rewrite run_impl_eq in Hrun. rewrite run_impl_eq.
  destruct (exec_block (c_p2 c) eps fuel prog init_st) as [o2 r2]. cbn [fst snd] in Hrun.
  inversion Hrun; subst o e. clear Hrun.
  destruct Hblk as [[HS Ht]|[E _]].
  - exfalso. specialize (Htol HS). cbn [snd] in Ht.
    unfold tol_ending_x in Htol. apply orb_false_iff in Htol. destruct Htol as [Htol Hx].
    destruct Ht as [Ht|[HX Ht]].
    + destruct r2 as [a|e|p| |]; cbn in Ht, Htol; try contradiction; try discriminate.
      destruct p; try contradiction; discriminate.
    + rewrite HX in Hx. cbn [andb] in Hx.
      destruct r2 as [a|e|p| |]; cbn in Ht, Hx; try contradiction. destruct p; try contradiction; discriminate.
  - rewrite E. unfold mapR. cbn [fst snd]. destruct r2; reflexivity.
Qed.

(* ------------------------------------------------------------------------------------ *)
(* F. induction principles for the nested syntax                                          *)

Section ExprInd.
Variable Pe : expr -> Prop.
Hypothesis HNum : forall x, Pe (ENum x).
Hypothesis HStr : forall s, Pe (EStr s).
Hypothesis HInterp : forall segs, Pe (EInterp segs).
Hypothesis HBool : forall b, Pe (EBool b).
Hypothesis HNull : Pe ENull.
Hypothesis HVar : forall n l, Pe (EVar n l).
Hypothesis HBin : forall op a b, Pe a -> Pe b -> Pe (EBin op a b).
Hypothesis HUn : forall op a, Pe a -> Pe (EUn op a).
Hypothesis HArr : forall es, Forall Pe es -> Pe (EArr es).
Hypothesis HIdx : forall a i, Pe a -> Pe i -> Pe (EIdx a i).
Hypothesis HMember : forall o f, Pe o -> Pe (EMember o f).
Hypothesis HCall : forall callee args t, Pe callee -> Forall Pe args -> Pe (ECall callee args t).

Fixpoint expr_ind2 (e : expr) : Pe e :=
  let all := fix all (l : list expr) : Forall Pe l :=
    match l with
    | [] => Forall_nil Pe
    | x :: r => Forall_cons x (expr_ind2 x) (all r)
    end in
  match e with
  | ENum x => HNum x
  | EStr s => HStr s
  | EInterp segs => HInterp segs
  | EBool b => HBool b
  | ENull => HNull
  | EVar n l => HVar n l
  | EBin op a b => HBin op a b (expr_ind2 a) (expr_ind2 b)
  | EUn op a => HUn op a (expr_ind2 a)
  | EArr es => HArr es (all es)
  | EIdx a i => HIdx a i (expr_ind2 a) (expr_ind2 i)
  | EMember o f => HMember o f (expr_ind2 o)
  | ECall callee args t => HCall callee args t (expr_ind2 callee) (all args)
  end.
End ExprInd.

Section StmtInd.
Variable Ps : stmt -> Prop.
Variable Pb : list stmt -> Prop.
Hypothesis Hnil : Pb [].
Hypothesis Hcons : forall t r, Ps t -> Pb r -> Pb (t :: r).
Hypothesis HFun : forall i n ps body fid ls ll, Pb body -> Ps (SFun i n ps body fid ls ll).
Hypothesis HMake : forall i n l e, Ps (SMake i n l e).
Hypothesis HSet : forall i n l e, Ps (SSet i n l e).
Hypothesis HSetIdx : forall i t e, Ps (SSetIdx i t e).
Hypothesis HIf : forall i c th, Pb th -> Ps (SIf i c th None).
Hypothesis HIfElse : forall i c th el, Pb th -> Pb el -> Ps (SIf i c th (Some el)).
Hypothesis HLoop : forall i c b, Pb b -> Ps (SLoop i c b).
Hypothesis HBlock : forall i b, Pb b -> Ps (SBlock i b).
Hypothesis HRet : forall i e, Ps (SRet i e).
Hypothesis HBreak : forall i, Ps (SBreak i).
Hypothesis HNext : forall i, Ps (SNext i).
Hypothesis HExpr : forall i e, Ps (SExpr i e).

Fixpoint stmt_ind2 (t : stmt) : Ps t :=
  let blk := fix blk (b : list stmt) : Pb b :=
    match b with
    | [] => Hnil
    | x :: r => Hcons x r (stmt_ind2 x) (blk r)
    end in
  match t with
  | SFun i n ps body fid ls ll => HFun i n ps body fid ls ll (blk body)
  | SMake i n l e => HMake i n l e
  | SSet i n l e => HSet i n l e
  | SSetIdx i tg e => HSetIdx i tg e
  | SIf i c th None => HIf i c th (blk th)
  | SIf i c th (Some el) => HIfElse i c th el (blk th) (blk el)
  | SLoop i c b => HLoop i c b (blk b)
  | SBlock i b => HBlock i b (blk b)
  | SRet i e => HRet i e
  | SBreak i => HBreak i
  | SNext i => HNext i
  | SExpr i e => HExpr i e
  end.

Fixpoint block_ind2 (b : list stmt) : Pb b :=
  match b with
  | [] => Hnil
  | x :: r => Hcons x r (stmt_ind2 x) (block_ind2 r)
  end.
End StmtInd.

(* ------------------------------------------------------------------------------------ *)
(* G. the unreachable class                                                               *)

Lemma existsb_ext_in {A} (f g : A -> bool) l :
  (forall x, In x l -> f x = g x) -> existsb f l = existsb g l.
Proof.
  induction l as [|a r IH]; intros H; [reflexivity|]. cbn. rewrite (H a (or_introl eq_refl)).
  rewrite IH; [reflexivity|]. intros x Hx. apply H. right. exact Hx.
Qed.

Lemma nn_p_none t : nn_p None t = never_normal t.
Proof.
  apply (stmt_ind2 (fun t => nn_p None t = never_normal t)
                   (fun b => forall x, In x b -> nn_p None x = never_normal x)); try reflexivity.
  - intros x [].
  - intros t0 r Ht Hr x [E|Hx]; [subst; exact Ht|apply Hr; exact Hx].
  - intros i c th el Hth Hel. cbn [nn_p never_normal]. f_equal; apply existsb_ext_in; intros x Hx;
      cbn [in_plan_stmt negb]; rewrite andb_true_r; auto.
  - intros i b Hb. cbn [nn_p never_normal]. apply existsb_ext_in. intros x Hx.
    cbn [in_plan_stmt negb]. rewrite andb_true_r. auto.
Qed.

Lemma expr_ok_triv c e : c_dead c = [] -> c_all c = true -> expr_ok c e = true.
Proof.
  intros Hd Ha.
  assert (Hv : forall l, var_ok c l = true) by (intros [i|]; unfold var_ok; rewrite Hd; reflexivity).
  apply (expr_ind2 (fun e => expr_ok c e = true)); cbn [expr_ok]; intros; auto.
  - apply forallb_forall. intros [b|n l] _; cbn; auto.
  - rewrite H, H0. reflexivity.
  - apply forallb_forall. rewrite Forall_forall in H. exact H.
  - rewrite H, H0. reflexivity.
  - rewrite Forall_forall in H0. rewrite (proj2 (forallb_forall _ _) H0). cbn [andb].
    destruct callee; auto; try (cbn [expr_ok] in H; exact H).
    destruct (global_builtin n); [reflexivity|]. unfold call_ok. rewrite Ha. destruct t; reflexivity.
Qed.

Definition disj (ss l : list Z) : Prop := forall i, In i ss -> ~ In i l.

Lemma disj_app_l ss a b : disj ss (a ++ b) -> disj ss a.
Proof. intros H i Hi Ha. apply (H i Hi). apply in_or_app. left. exact Ha. Qed.
Lemma disj_app_r ss a b : disj ss (a ++ b) -> disj ss b.
Proof. intros H i Hi Hb. apply (H i Hi). apply in_or_app. right. exact Hb. Qed.

Lemma ids_block_cons f lv x r :
  ids_block_with f lv (x :: r) = f lv x ++ ids_block_with f (lv && negb (never_normal x)) r.
Proof. reflexivity. Qed.

Lemma unreach_ok ss :
  forall b live, disj ss (ids_block_with lids live b) -> block_ok (ucfg ss) live b = true.
Proof.
  set (c := ucfg ss).
  assert (He : forall e, expr_ok c e = true) by (intros; apply expr_ok_triv; reflexivity).
  assert (Hv : forall l, var_ok c l = true) by (intros [i|]; reflexivity).
  apply (block_ind2
    (fun t => forall live, disj ss (lids live t) -> live = true \/ is_fun t = true -> stmt_ok c t = true)
    (fun b => forall live, disj ss (ids_block_with lids live b) -> block_ok c live b = true)).
  - reflexivity.
  - intros t r Ht Hr live Hd. rewrite ids_block_cons in Hd. rewrite block_ok_cons.
    apply andb_true_intro. split.
    + unfold item_ok, item_ok_with. apply andb_true_intro. split.
      * destruct (is_fun t) eqn:Ef; [|reflexivity]. apply (Ht live); [eapply disj_app_l; exact Hd|right; reflexivity].
      * destruct live; [|reflexivity]. cbn [c_p2 c ucfg in_plan_stmt].
        destruct (in_plan_stmt (c_p1 c) (stmt_sid t)) eqn:Ep.
        -- exfalso. cbn [c_p1 c ucfg in_plan_stmt] in Ep. destruct (stmt_sid t) as [i|] eqn:Es; [|discriminate].
           apply existsb_exists in Ep. destruct Ep as [x [Hx E]]. apply Z.eqb_eq in E. subst x.
           apply (disj_app_l _ _ _ Hd i Hx).
           destruct t; cbn [lids stmt_sid] in *; rewrite Es; left; reflexivity.
        -- apply (Ht true); [eapply disj_app_l; exact Hd|left; reflexivity].
    + unfold next_live. cbn [c_p2 c ucfg in_plan_stmt negb]. rewrite andb_true_r, nn_p_none.
      apply Hr. eapply disj_app_r. exact Hd.
  - (* SFun *)
    intros i n ps body fid ls ll Hb live Hd _. cbn [stmt_ok]. cbn [fn_live c ucfg c_all c_calls orb andb].
    apply andb_true_intro. split; [|reflexivity]. apply (Hb true).
    cbn [lids] in Hd. eapply disj_app_r. exact Hd.
  - intros. cbn [stmt_ok]. rewrite Hv, He. reflexivity.
  - intros. cbn [stmt_ok]. rewrite Hv, He. reflexivity.
  - intros. cbn [stmt_ok]. rewrite !He. reflexivity.
  - (* SIf, no else *)
    intros i cnd th Hth live Hd [El|Ef]; [subst live|discriminate Ef]. cbn [stmt_ok]. rewrite He. cbn [andb].
    rewrite andb_true_r. apply (Hth true). cbn [lids] in Hd. apply disj_app_r in Hd. rewrite app_nil_r in Hd. exact Hd.
  - (* SIf with else *)
    intros i cnd th el Hth Hel live Hd [El|Ef]; [subst live|discriminate Ef]. cbn [stmt_ok]. rewrite He. cbn [andb].
    cbn [lids] in Hd. apply disj_app_r in Hd.
    pose proof (Hth true (disj_app_l _ _ _ Hd)) as X1. pose proof (Hel true (disj_app_r _ _ _ Hd)) as X2.
    unfold block_ok in X1, X2. rewrite X1, X2. reflexivity.
  - intros i cnd b Hb live Hd [El|Ef]; [subst live|discriminate Ef]. cbn [stmt_ok]. rewrite He. cbn [andb].
    apply (Hb true). cbn [lids] in Hd. eapply disj_app_r. exact Hd.
  - intros i b Hb live Hd [El|Ef]; [subst live|discriminate Ef]. cbn [stmt_ok].
    apply (Hb true). cbn [lids] in Hd. eapply disj_app_r. exact Hd.
  - intros i [e|] live _ _; cbn [stmt_ok]; auto.
  - reflexivity.
  - reflexivity.
  - intros. cbn [stmt_ok]. apply He.
Qed.

Lemma tol_x_false e : tol_ending e = false -> tol_ending_x false e = false.
Proof. unfold tol_ending_x. intros ->. reflexivity. Qed.
Lemma tol_x_weaken X e : tol_ending_x X e = false -> tol_ending e = false.
Proof. unfold tol_ending_x. intros H. apply orb_false_iff in H. exact (proj1 H). Qed.

Theorem prune_residual_sound_nocalls c prog eps fuel o e :
  c_calls c = false ->
  covered_ok c prog = true ->
  run_impl (c_p2 c) eps fuel prog = (o, e) ->
  (c_nr c = true -> tol_ending e = false) ->
  run_impl (c_p1 c) eps fuel prog = (o, e).
Proof.
  intros Hc H R T. eapply prune_residual_sound_lemma; eauto.
  intros Hn. rewrite Hc. apply tol_x_false. auto.
Qed.

Theorem prune_unreachable_sound_lemma prog ss eps fuel :
  (forall i, In i ss -> prunable_unreachable prog i = true) ->
  run_impl (Some (ss, [])) eps fuel prog = run_impl None eps fuel prog.
Proof.
  intros H. destruct (run_impl None eps fuel prog) as [o e] eqn:E.
  apply (prune_residual_sound_lemma (ucfg ss) prog eps fuel o e); [|exact E|intros X; discriminate X].
  unfold covered_ok. apply andb_true_intro. split; [reflexivity|].
  apply unreach_ok. intros i Hi Hin. specialize (H i Hi). unfold prunable_unreachable in H.
  apply negb_true_iff in H. unfold live_ids_block in H.
  assert (memz i (ids_block_with lids true prog) = true); [|congruence].
  unfold memz. apply existsb_exists. exists i. split; [exact Hin|apply Z.eqb_refl].
Qed.

(* ------------------------------------------------------------------------------------ *)
(* H. what follows a never-normal statement in its block is never executed               *)

Lemma hoist_app P a b s :
  hoist P (a ++ b) s = match hoist P a s with Ok s1 => hoist P b s1 | r => r end.
Proof.
  revert s. induction a as [|x r IH]; intros s; [reflexivity|]. cbn [app].
  destruct x; cbn [hoist]; try apply IH.
  destruct (in_plan_fn P fid); [apply IH|]. destruct (fns s); [reflexivity|apply IH].
Qed.

Lemma bindM_ext_ok {A B} (m : M A) (f g : A -> M B) :
  (forall o a, m = (o, Ok a) -> f a = g a) -> bindM m f = bindM m g.
Proof.
  destruct m as [o r]. destruct r; cbn; intros H; try reflexivity. rewrite (H o a eq_refl). reflexivity.
Qed.

Lemma stmts_dead_suffix P ex pre t rest rest' :
  (forall s o s', ex t s = (o, Ok (FNormal, s')) -> False) ->
  in_plan_stmt P (stmt_sid t) = false ->
  forall s, stmts_with P ex (pre ++ t :: rest) s = stmts_with P ex (pre ++ t :: rest') s.
Proof.
  intros Hex Hnp. induction pre as [|x r IH]; intros s; cbn [app stmts_with].
  - rewrite Hnp. apply bindM_ext_ok. intros o [fl s'] E. destruct fl; try reflexivity.
    exfalso. eapply Hex. exact E.
  - destruct (in_plan_stmt P (stmt_sid x)); [apply IH|].
    apply bindM_ext_ok. intros o [fl s'] _. destruct fl; try reflexivity. apply IH.
Qed.

Theorem unreachable_never_runs_lemma P eps fuel pre t rest rest' s :
  nn_p P t = true -> in_plan_stmt P (stmt_sid t) = false ->
  forallb (fun x => negb (is_fun x)) rest = true ->
  forallb (fun x => negb (is_fun x)) rest' = true ->
  exec_block P eps fuel (pre ++ t :: rest) s = exec_block P eps fuel (pre ++ t :: rest') s.
Proof.
  intros Hn Hp Hr Hr'. destruct fuel as [|n]; [reflexivity|]. rewrite !exec_block_S. unfold block_body.
  assert (Hh : hoist P (pre ++ t :: rest) (push_scope [] s) = hoist P (pre ++ t :: rest') (push_scope [] s)).
  { rewrite !hoist_app. destruct (hoist P pre (push_scope [] s)) as [s1| | | |]; try reflexivity.
    assert (Ht : is_fun t = false) by (destruct t; cbn in Hn; try discriminate; reflexivity).
    rewrite (hoist_nofun P (t :: rest)), (hoist_nofun P (t :: rest')); try reflexivity;
      cbn [forallb]; rewrite Ht; assumption. }
  rewrite Hh. apply bindM_ext_ok. intros o s1 _. apply stmts_dead_suffix; [|exact Hp].
  intros s0 o0 s' E. exact (proj1 (nn_sound P eps n) t s0 o0 s' Hn E).
Qed.

Theorem unreachable_never_runs_top prog_pre t rest rest' eps fuel :
  never_normal t = true ->
  forallb (fun x => negb (is_fun x)) rest = true ->
  forallb (fun x => negb (is_fun x)) rest' = true ->
  run_impl None eps fuel (prog_pre ++ t :: rest) = run_impl None eps fuel (prog_pre ++ t :: rest').
Proof.
  intros Hn Hr Hr'. unfold run_impl.
  rewrite (unreachable_never_runs_lemma None eps fuel prog_pre t rest rest' init_st); auto.
  rewrite nn_p_none. exact Hn.
Qed.

(* ------------------------------------------------------------------------------------ *)
(* I. the class theorems                                                                  *)

Theorem prune_unused_fn_sound_lemma prog fs live eps fuel :
  unused_fns_ok prog fs live = true ->
  run_impl (Some ([], fs)) eps fuel prog = run_impl None eps fuel prog.
Proof.
  intros H. destruct (run_impl None eps fuel prog) as [o e] eqn:E.
  exact (prune_residual_sound_lemma (fcfg fs live) prog eps fuel o e H E (fun X => False_ind _ (diff_false_true X))).
Qed.

Theorem prune_never_read_sound_lemma prog ss dead eps fuel o e :
  never_read_ok prog ss dead = true ->
  run_impl None eps fuel prog = (o, e) -> tol_ending e = false ->
  run_impl (Some (ss, [])) eps fuel prog = (o, e).
Proof.
  intros H E T. exact (prune_residual_sound_lemma (ncfg ss dead) prog eps fuel o e H E (fun _ => tol_x_false e T)).
Qed.

Theorem plan_ok_with_sound_lemma dead prog ss fs eps fuel o e :
  v_checked (plan_ok_with dead prog ss fs) = true ->
  run_impl (Some (v_residual (plan_ok_with dead prog ss fs))) eps fuel prog = (o, e) ->
  tol_ending e = false ->
  run_impl (Some (ss, fs)) eps fuel prog = (o, e).
Proof.
  unfold plan_ok_with, plan_ok_gen. cbv zeta. cbn [v_checked v_residual]. intros H E T.
  exact (prune_residual_sound_lemma _ prog eps fuel o e H E (fun _ => tol_x_false e T)).
Qed.

Theorem plan_ok_gen_sound_lemma pt dead prog ss fs eps fuel o e :
  v_checked (plan_ok_gen true pt dead prog ss fs) = true ->
  run_impl (Some (v_residual (plan_ok_gen true pt dead prog ss fs))) eps fuel prog = (o, e) ->
  tol_ending_x true e = false ->
  run_impl (Some (ss, fs)) eps fuel prog = (o, e).
Proof.
  unfold plan_ok_gen. cbv zeta. cbn [v_checked v_residual]. intros H E T.
  exact (prune_residual_sound_lemma _ prog eps fuel o e H E (fun _ => T)).
Qed.

Theorem plan_ok_sound_lemma prog ss fs eps fuel o e :
  v_checked (plan_ok prog ss fs) = true ->
  run_impl (Some (v_residual (plan_ok prog ss fs))) eps fuel prog = (o, e) ->
  tol_ending e = false ->
  run_impl (Some (ss, fs)) eps fuel prog = (o, e).
Proof.
  unfold plan_ok. cbv zeta.
  destruct (v_checked (plan_ok_with (nodup Z.eq_dec (dead_ids prog ss ++ dead_ids_live prog ss)) prog ss fs)) eqn:E1; cbv iota;
    intros H E T; eapply plan_ok_with_sound_lemma; eauto.
Qed.

Lemma empty_plan_is_none prog eps fuel :
  run_impl (Some ([], [])) eps fuel prog = run_impl None eps fuel prog.
Proof. apply prune_unreachable_sound_lemma. intros i []. Qed.

Theorem plan_ok_full_lemma prog ss fs eps fuel o e :
  v_checked (plan_ok prog ss fs) = true ->
  v_residual (plan_ok prog ss fs) = ([], []) ->
  run_impl None eps fuel prog = (o, e) ->
  tol_ending e = false ->
  run_impl (Some (ss, fs)) eps fuel prog = (o, e).
Proof.
  intros H R E T. apply plan_ok_sound_lemma; try assumption.
  rewrite R, empty_plan_is_none. exact E.
Qed.

(* round 5: never-read stores whose right-hand side calls pure, trap-free user functions *)
Theorem plan_ok_x_sound_lemma prog ss fs eps fuel o e :
  v_checked (plan_ok_x prog ss fs) = true ->
  run_impl (Some (v_residual (plan_ok_x prog ss fs))) eps fuel prog = (o, e) ->
  tol_ending_x true e = false ->
  run_impl (Some (ss, fs)) eps fuel prog = (o, e).
Proof.
  unfold plan_ok_x. cbv zeta.
  match goal with |- context [if v_checked ?V2 then _ else if v_checked ?V1 then _ else _] =>
    destruct (v_checked V2) eqn:E2; [|destruct (v_checked V1) eqn:E1] end; intros H E T.
  - eapply plan_ok_gen_sound_lemma; eauto.
  - eapply plan_ok_gen_sound_lemma; eauto.
  - eapply plan_ok_sound_lemma; eauto. eapply tol_x_weaken; eauto.
Qed.

(* ------------------------------------------------------------------------------------ *)
(* J. the wider class PureNoTrap of classify_expr: no output, no state change — but not
      total: operators on variables can still end in Type mismatch                        *)

Definition pureM {A} (m : M (A * st)) (s : st) : Prop :=
  fst m = [] /\ forall a s', snd m = Ok (a, s') -> s' = s.

Lemma pure_ret {A} (a : A) s : pureM (OkM (a, s)) s.
Proof. split; [reflexivity|]. intros a' s' E. inversion E. reflexivity. Qed.
Lemma pure_fail {A} (r : res (A * st)) s : (forall x, r <> Ok x) -> pureM ([], r) s.
Proof. intros H. split; [reflexivity|]. intros a s' E. cbn in E. exfalso. eapply H. exact E. Qed.

Ltac pfail := apply pure_fail; let x := fresh "x" in let E := fresh "E" in intros x E; discriminate E.

Lemma pure_bind {A B} (m : M (A * st)) (f : A * st -> M (B * st)) s :
  pureM m s -> (forall a, pureM (f (a, s)) s) -> pureM (bindM m f) s.
Proof.
  destruct m as [o r]. intros [Ho Hs] Hf. cbn [fst] in Ho. subst o.
  destruct r as [[a s1]| | | |]; cbn [bindM]; try (pfail).
  cbn [snd] in Hs. rewrite (Hs a s1 eq_refl). specialize (Hf a). destruct (f (a, s)) as [o2 r2].
  destruct Hf as [H1 H2]. cbn [fst snd] in *. subst o2. split; [reflexivity|exact H2].
Qed.

Lemma pure_lift {A B} (r : res A) (f : A -> M (B * st)) s :
  (forall a, pureM (f a) s) -> pureM (bindM (lift r) f) s.
Proof.
  intros Hf. unfold lift. destruct r as [a| | | |]; cbn [bindM]; try (pfail).
  specialize (Hf a). destruct (f a) as [o2 r2]. destruct Hf as [H1 H2]. cbn [fst snd] in *. subst o2.
  split; [reflexivity|exact H2].
Qed.

Lemma evals_pure (ev : expr -> st -> M (value * st)) :
  (forall e s, pure_notrap_expr e = true -> pureM (ev e s) s) ->
  forall es s, forallb pure_notrap_expr es = true -> pureM (evals_with ev es s) s.
Proof.
  intros Hev. induction es as [|a r IH]; intros s H; cbn [evals_with forallb] in *; [apply pure_ret|].
  apply andb_prop in H. destruct H as [Ha Hr]. apply pure_bind; [apply Hev; exact Ha|].
  intros v. apply pure_bind; [apply IH; exact Hr|]. intros vs. apply pure_ret.
Qed.

Theorem pure_notrap_no_effect_lemma P eps n :
  forall e s, pure_notrap_expr e = true -> pureM (eval P eps n e s) s.
Proof.
  induction n as [|n IH]; intros e s H.
  - apply pure_fail. intros x E. discriminate E.
  - rewrite eval_S. destruct e; cbn [pure_notrap_expr] in H; try discriminate; cbn [eval_body];
      try apply pure_ret.
    + apply pure_lift. intros b. apply pure_ret.
    + destruct (lookup_env l n0 (env s)); [apply pure_ret|pfail].
    + destruct op; try discriminate; apply andb_prop in H; destruct H as [H1 H2].
      1-3, 6-8: (apply pure_bind; [apply IH; exact H1|]; intros l; apply pure_bind; [apply IH; exact H2|];
                 intros r; apply pure_lift; intros v; apply pure_ret).
      * apply pure_bind; [apply IH; exact H1|]. intros l.
        destruct l as [| |[|]| |]; try apply pure_ret;
          (apply pure_bind; [apply IH; exact H2|]; intros r; destruct r; try apply pure_ret;
           pfail).
      * apply pure_bind; [apply IH; exact H1|]. intros l.
        destruct l as [| |[|]| |]; try apply pure_ret;
          (apply pure_bind; [apply IH; exact H2|]; intros r; destruct r; try apply pure_ret;
           pfail).
    + apply pure_bind; [apply IH; exact H|]. intros v.
      destruct op, v; try apply pure_ret; pfail.
    + apply pure_bind; [apply (evals_pure _ IH); exact H|]. intros vs. apply pure_ret.
Qed.

(* ------------------------------------------------------------------------------------ *)
(* K. plans that keep the declaration of a never-read local                               *)

Theorem plan_ok2_sound_lemma prog ss fs eps fuel o e o' e' :
  v_checked (w_main (plan_ok2 prog ss fs)) = true ->
  w_checked_aug (plan_ok2 prog ss fs) = true ->
  run_impl (Some (v_residual (w_main (plan_ok2 prog ss fs)))) eps fuel prog = (o, e) ->
  tol_ending e = false ->
  run_impl (Some (ss, fs)) eps fuel prog = (o', e') ->
  tol_ending e' = false ->
  (o', e') = (o, e).
Proof.
  unfold plan_ok2. cbv zeta. cbn [w_main w_checked_aug]. intros Hm Ha Er Tr Ep Tp.
  pose proof (plan_ok_sound_lemma _ _ _ _ _ _ _ Hm Er Tr) as H1.
  pose proof (prune_residual_sound_lemma _ prog eps fuel o' e' Ha Ep (fun _ => tol_x_false e' Tp)) as H2.
  cbn [c_p1] in H2. rewrite H1 in H2. symmetry. exact H2.
Qed.
